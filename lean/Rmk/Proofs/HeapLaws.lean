/-
Laws of the heap layer (Rmk/Impl/Heap.lean): refinement of the pure `setPath`, persistence (C06),
sharing and hashing cost (C19).  Everything is generic in the pair hash `H`.
-/
import Rmk.Impl.Heap
import Rmk.Proofs.TreeLaws
namespace Rmk.HeapLaws
open Rmk Rmk.Heap

/-! ### fuel irrelevance and unfolding equations -/

theorem denoteF_fuel (h : Heap) : ∀ f g a, a < f → a < g → denoteF h f a = denoteF h g a := by
  intro f
  induction f with
  | zero => intro g a hf; omega
  | succ f ih =>
    intro g a hf hg
    cases g with
    | zero => omega
    | succ g =>
      simp only [denoteF]
      split
      · rfl
      · split
        · next l r _ _ hlt => rw [ih g l (by omega) (by omega), ih g r (by omega) (by omega)]
        · rfl
      · rfl

theorem denote_leaf {h : Heap} {a : Nat} {c : Chunk} (hc : h.cells[a]? = some (Cell.leaf c)) :
    denote h a = .leaf c := by
  simp [denote, denoteF, hc]

theorem denote_none {h : Heap} {a : Nat} (hc : h.cells[a]? = none) : denote h a = dangling := by
  simp [denote, denoteF, hc]

theorem denote_pair {h : Heap} {a l r : Nat} {k : Option Chunk}
    (hc : h.cells[a]? = some (Cell.pair l r k)) (hl : l < a) (hr : r < a) :
    denote h a = .pair (denote h l) (denote h r) := by
  have e : denote h a = denoteF h (a + 1) a := rfl
  rw [e, denoteF]
  simp only [hc, hl, hr, and_self, if_true]
  rw [denoteF_fuel h a (l + 1) l hl (by omega), denoteF_fuel h a (r + 1) r hr (by omega)]
  rfl

theorem denote_bad {h : Heap} {a l r : Nat} {k : Option Chunk}
    (hc : h.cells[a]? = some (Cell.pair l r k)) (hb : ¬ (l < a ∧ r < a)) :
    denote h a = dangling := by
  simp [denote, denoteF, hc, hb]

theorem merkleRootF_fuel (H : Hash) :
    ∀ f g h a, a < f → a < g → merkleRootF H f h a = merkleRootF H g h a := by
  intro f
  induction f with
  | zero => intro g h a hf; omega
  | succ f ih =>
    intro g h a hf hg
    cases g with
    | zero => omega
    | succ g =>
      simp only [merkleRootF]
      split
      · rfl
      · rfl
      · split
        · next l r _ hlt =>
          rw [ih g h l (by omega) (by omega)]
          rw [ih g _ r (by omega) (by omega)]
        · rfl
      · rfl

theorem merkleRoot_leaf (H : Hash) {h : Heap} {a : Nat} {c : Chunk}
    (hc : h.cells[a]? = some (Cell.leaf c)) : merkleRoot H h a = (h, c) := by
  simp [merkleRoot, merkleRootF, hc]

theorem merkleRoot_cached (H : Hash) {h : Heap} {a l r : Nat} {c : Chunk}
    (hc : h.cells[a]? = some (Cell.pair l r (some c))) : merkleRoot H h a = (h, c) := by
  simp [merkleRoot, merkleRootF, hc]

theorem merkleRoot_none (H : Hash) {h : Heap} {a : Nat}
    (hc : h.cells[a]? = none) : merkleRoot H h a = (h, []) := by
  simp [merkleRoot, merkleRootF, hc]

theorem merkleRoot_bad (H : Hash) {h : Heap} {a l r : Nat}
    (hc : h.cells[a]? = some (Cell.pair l r none)) (hb : ¬ (l < a ∧ r < a)) :
    merkleRoot H h a = (h, []) := by
  simp [merkleRoot, merkleRootF, hc, hb]

/-- the heap after filling the cache of `a` -/
def fill (h : Heap) (a l r : Nat) (c : Chunk) : Heap :=
  { cells := h.cells.setIfInBounds a (.pair l r (some c)), hashCalls := h.hashCalls + 1 }

theorem merkleRoot_pair (H : Hash) {h : Heap} {a l r : Nat}
    (hc : h.cells[a]? = some (Cell.pair l r none)) (hl : l < a) (hr : r < a) :
    merkleRoot H h a =
      (fill (merkleRoot H (merkleRoot H h l).1 r).1 a l r
          (H (merkleRoot H h l).2 (merkleRoot H (merkleRoot H h l).1 r).2),
        H (merkleRoot H h l).2 (merkleRoot H (merkleRoot H h l).1 r).2) := by
  have e : merkleRoot H h a = merkleRootF H (a + 1) h a := rfl
  rw [e, merkleRootF]
  simp only [hc, hl, hr, and_self, if_true]
  rw [merkleRootF_fuel H a (l + 1) h l hl (by omega)]
  rw [merkleRootF_fuel H a (r + 1) _ r hr (by omega)]
  rfl

/-- induction principle following the recursion of `merkleRoot` -/
theorem merkleRoot_induct (H : Hash) (P : Heap → Nat → Heap × Chunk → Prop)
    (hleaf : ∀ h a c, h.cells[a]? = some (Cell.leaf c) → P h a (h, c))
    (hcached : ∀ h a l r c, h.cells[a]? = some (Cell.pair l r (some c)) → P h a (h, c))
    (hnone : ∀ h a, h.cells[a]? = none → P h a (h, []))
    (hbad : ∀ h a l r, h.cells[a]? = some (Cell.pair l r none) → ¬ (l < a ∧ r < a) → P h a (h, []))
    (hpair : ∀ h a l r, h.cells[a]? = some (Cell.pair l r none) → l < a → r < a →
      P h l (merkleRoot H h l) → P (merkleRoot H h l).1 r (merkleRoot H (merkleRoot H h l).1 r) →
      P h a (fill (merkleRoot H (merkleRoot H h l).1 r).1 a l r
          (H (merkleRoot H h l).2 (merkleRoot H (merkleRoot H h l).1 r).2),
        H (merkleRoot H h l).2 (merkleRoot H (merkleRoot H h l).1 r).2)) :
    ∀ h a, P h a (merkleRoot H h a) := by
  intro h a
  induction a using Nat.strongRecOn generalizing h with
  | ind a ih =>
    rcases hc : h.cells[a]? with _ | (c | ⟨l, r, (_ | c)⟩)
    · rw [merkleRoot_none H hc]; exact hnone h a hc
    · rw [merkleRoot_leaf H hc]; exact hleaf h a c hc
    · by_cases hlt : l < a ∧ r < a
      · rw [merkleRoot_pair H hc hlt.1 hlt.2]
        exact hpair h a l r hc hlt.1 hlt.2 (ih l hlt.1 h) (ih r hlt.2 _)
      · rw [merkleRoot_bad H hc hlt]; exact hbad h a l r hc hlt
    · rw [merkleRoot_cached H hc]; exact hcached h a l r c hc

theorem collectF_fuel (h : Heap) :
    ∀ f g a vis, a < f → a < g → collectF h f a vis = collectF h g a vis := by
  intro f
  induction f with
  | zero => intro g a vis hf; omega
  | succ f ih =>
    intro g a vis hf hg
    cases g with
    | zero => omega
    | succ g =>
      simp only [collectF]
      split
      · rfl
      · split
        · split
          · next l r _ hlt =>
            rw [ih g l vis (by omega) (by omega)]
            rw [ih g r _ (by omega) (by omega)]
          · rfl
        · rfl

theorem collect_mem {h : Heap} {a : Nat} {vis : List Nat} (hm : a ∈ vis) :
    collect h a vis = vis := by
  simp [collect, collectF, hm]

theorem collect_pair {h : Heap} {a l r : Nat} {vis : List Nat} (hm : a ∉ vis)
    (hc : h.cells[a]? = some (Cell.pair l r none)) (hl : l < a) (hr : r < a) :
    collect h a vis = a :: collect h r (collect h l vis) := by
  have e : collect h a vis = collectF h (a + 1) a vis := rfl
  rw [e, collectF]
  simp only [hm, hc, hl, hr, and_self, if_true, if_false]
  rw [collectF_fuel h a (l + 1) l vis hl (by omega)]
  rw [collectF_fuel h a (r + 1) r _ hr (by omega)]
  rfl

theorem collect_bad {h : Heap} {a l r : Nat} {vis : List Nat}
    (hc : h.cells[a]? = some (Cell.pair l r none)) (hb : ¬ (l < a ∧ r < a)) :
    collect h a vis = vis := by
  simp [collect, collectF, hc, hb]

theorem collect_leaf {h : Heap} {a : Nat} {c : Chunk} {vis : List Nat}
    (hc : h.cells[a]? = some (Cell.leaf c)) : collect h a vis = vis := by
  simp [collect, collectF, hc]

theorem collect_cached {h : Heap} {a l r : Nat} {c : Chunk} {vis : List Nat}
    (hc : h.cells[a]? = some (Cell.pair l r (some c))) : collect h a vis = vis := by
  simp [collect, collectF, hc]

theorem collect_none {h : Heap} {a : Nat} {vis : List Nat}
    (hc : h.cells[a]? = none) : collect h a vis = vis := by
  simp [collect, collectF, hc]

/-! ### heap extension relations -/

theorem lt_size_of_get {h : Heap} {a : Nat} {c : Cell} (hc : h.cells[a]? = some c) :
    a < h.cells.size := by
  rcases Nat.lt_or_ge a h.cells.size with hlt | hge
  · exact hlt
  · rw [Array.getElem?_eq_none hge] at hc; cases hc

/-- `h'` extends `h` without touching any existing cell (all allocation-only operations) -/
structure Prefix (h h' : Heap) : Prop where
  size : h.cells.size ≤ h'.cells.size
  cell : ∀ b, b < h.cells.size → h'.cells[b]? = h.cells[b]?
  calls : h'.hashCalls = h.hashCalls

/-- `h'` extends `h`; an existing cell is unchanged except that a `none` cache may have been filled -/
structure Grow (h h' : Heap) : Prop where
  size : h.cells.size ≤ h'.cells.size
  cell : ∀ b, b < h.cells.size → h'.cells[b]? = h.cells[b]? ∨
    ∃ l r c, h.cells[b]? = some (Cell.pair l r none) ∧ h'.cells[b]? = some (Cell.pair l r (some c))

theorem Prefix.refl (h : Heap) : Prefix h h := ⟨Nat.le_refl _, fun _ _ => rfl, rfl⟩

theorem Prefix.trans {h h1 h2 : Heap} (p1 : Prefix h h1) (p2 : Prefix h1 h2) : Prefix h h2 :=
  ⟨Nat.le_trans p1.size p2.size,
   fun b hb => by rw [p2.cell b (Nat.lt_of_lt_of_le hb p1.size), p1.cell b hb],
   by rw [p2.calls, p1.calls]⟩

theorem Prefix.get {h h' : Heap} (p : Prefix h h') {a : Nat} {c : Cell}
    (hc : h.cells[a]? = some c) : h'.cells[a]? = some c := by
  rw [p.cell a (lt_size_of_get hc), hc]

theorem Prefix.grow {h h' : Heap} (p : Prefix h h') : Grow h h' :=
  ⟨p.size, fun b hb => .inl (p.cell b hb)⟩

theorem Grow.refl (h : Heap) : Grow h h := ⟨Nat.le_refl _, fun _ _ => .inl rfl⟩

theorem Grow.trans {h h1 h2 : Heap} (g1 : Grow h h1) (g2 : Grow h1 h2) : Grow h h2 := by
  refine ⟨Nat.le_trans g1.size g2.size, fun b hb => ?_⟩
  rcases g1.cell b hb with e1 | ⟨l, r, c, e1, e1'⟩ <;>
    rcases g2.cell b (Nat.lt_of_lt_of_le hb g1.size) with e2 | ⟨l2, r2, c2, e2, e2'⟩
  · exact .inl (e2.trans e1)
  · exact .inr ⟨l2, r2, c2, e1 ▸ e2, e2'⟩
  · exact .inr ⟨l, r, c, e1, e2.trans e1'⟩
  · rw [e1'] at e2; cases e2

/-- a leaf stays the same leaf -/
theorem Grow.get_leaf {h h' : Heap} (g : Grow h h') {a : Nat} {c : Chunk}
    (hc : h.cells[a]? = some (Cell.leaf c)) : h'.cells[a]? = some (Cell.leaf c) := by
  rcases g.cell a (lt_size_of_get hc) with e | ⟨l, r, k, e, _⟩
  · rw [e, hc]
  · rw [hc] at e; cases e

/-- a pair stays a pair with the same children -/
theorem Grow.get_pair {h h' : Heap} (g : Grow h h') {a l r : Nat} {k : Option Chunk}
    (hc : h.cells[a]? = some (Cell.pair l r k)) : ∃ k', h'.cells[a]? = some (Cell.pair l r k') := by
  rcases g.cell a (lt_size_of_get hc) with e | ⟨l', r', k', e, e'⟩
  · exact ⟨k, by rw [e, hc]⟩
  · rw [hc] at e; cases e; exact ⟨_, e'⟩

/-- a filled cache stays as it is -/
theorem Grow.get_cached {h h' : Heap} (g : Grow h h') {a l r : Nat} {c : Chunk}
    (hc : h.cells[a]? = some (Cell.pair l r (some c))) :
    h'.cells[a]? = some (Cell.pair l r (some c)) := by
  rcases g.cell a (lt_size_of_get hc) with e | ⟨l', r', k', e, e'⟩
  · rw [e, hc]
  · rw [hc] at e; cases e

/-- PERSISTENCE, generic form: whatever happens later (allocation, cache filling), an existing
    address keeps denoting the same tree. -/
theorem denote_grow {h h' : Heap} (g : Grow h h') :
    ∀ a, a < h.cells.size → denote h' a = denote h a := by
  intro a
  induction a using Nat.strongRecOn with
  | ind a ih =>
    intro ha
    rcases hc : h.cells[a]? with _ | (c | ⟨l, r, k⟩)
    · rw [Array.getElem?_eq_none_iff] at hc; omega
    · rw [denote_leaf hc, denote_leaf (g.get_leaf hc)]
    · obtain ⟨k', hc'⟩ := g.get_pair hc
      by_cases hlt : l < a ∧ r < a
      · rw [denote_pair hc hlt.1 hlt.2, denote_pair hc' hlt.1 hlt.2,
          ih l hlt.1 (by omega), ih r hlt.2 (by omega)]
      · rw [denote_bad hc hlt, denote_bad hc' hlt]

theorem denote_prefix {h h' : Heap} (p : Prefix h h') (a : Nat) (ha : a < h.cells.size) :
    denote h' a = denote h a := denote_grow p.grow a ha

/-! ### alloc -/

@[simp] theorem alloc_snd (h : Heap) (c : Cell) : (alloc h c).2 = h.cells.size := rfl

@[simp] theorem alloc_size (h : Heap) (c : Cell) :
    (alloc h c).1.cells.size = h.cells.size + 1 := by simp [alloc]

@[simp] theorem alloc_calls (h : Heap) (c : Cell) : (alloc h c).1.hashCalls = h.hashCalls := rfl

theorem alloc_get (h : Heap) (c : Cell) (b : Nat) :
    (alloc h c).1.cells[b]? = if b = h.cells.size then some c else h.cells[b]? := by
  simp [alloc, Array.getElem?_push]

@[simp] theorem alloc_get_new (h : Heap) (c : Cell) :
    (alloc h c).1.cells[h.cells.size]? = some c := by rw [alloc_get, if_pos rfl]

theorem alloc_prefix (h : Heap) (c : Cell) : Prefix h (alloc h c).1 :=
  ⟨by simp, fun b hb => by rw [alloc_get, if_neg (by omega)], rfl⟩

/-- side condition of an allocation: children exist already, the cache starts empty -/
def OkAt (n : Nat) : Cell → Prop
  | .leaf _ => True
  | .pair l r k => l < n ∧ r < n ∧ k = none

theorem alloc_shape {h : Heap} {c : Cell} (hs : Shape h) (ok : OkAt h.cells.size c) :
    Shape (alloc h c).1 := by
  intro a l r k hget
  rw [alloc_get] at hget
  split at hget
  · next e =>
    cases hget
    obtain ⟨h1, h2, _⟩ := ok
    omega
  · exact hs a l r k hget

theorem alloc_cacheOK {H : Hash} {h : Heap} {c : Cell} (hs : CacheOK H h)
    (ok : OkAt h.cells.size c) : CacheOK H (alloc h c).1 := by
  intro a l r k hget
  rw [alloc_get] at hget
  split at hget
  · cases hget
    obtain ⟨_, _, h3⟩ := ok
    cases h3
  · rw [denote_prefix (alloc_prefix h c) a (lt_size_of_get hget)]
    exact hs a l r k hget

theorem alloc_WF {H : Hash} {h : Heap} {c : Cell} (hw : WF H h) (ok : OkAt h.cells.size c) :
    WF H (alloc h c).1 := ⟨alloc_shape hw.1 ok, alloc_cacheOK hw.2 ok⟩

/-- PERSISTENCE for `alloc` -/
theorem alloc_frame (h : Heap) (c : Cell) (b : Nat) (hb : b < h.cells.size) :
    denote (alloc h c).1 b = denote h b := denote_prefix (alloc_prefix h c) b hb

theorem denote_alloc_leaf (h : Heap) (c : Chunk) :
    denote (alloc h (.leaf c)).1 h.cells.size = .leaf c := denote_leaf (alloc_get_new h _)

theorem denote_alloc_pair (h : Heap) {l r : Nat} (hl : l < h.cells.size) (hr : r < h.cells.size) :
    denote (alloc h (.pair l r none)).1 h.cells.size = .pair (denote h l) (denote h r) := by
  rw [denote_pair (alloc_get_new h _) hl hr, alloc_frame h _ l hl, alloc_frame h _ r hr]

/-! ### expandH -/

theorem expandH_cons (H : Hash) (h : Heap) (b : Bool) (bs : List Bool) (v : Nat) :
    expandH H h (b :: bs) v =
      alloc (alloc (expandH H h bs v).1 (.leaf (zeroHash H bs.length))).1
        (if b then .pair (expandH H h bs v).1.cells.size (expandH H h bs v).2 none
         else .pair (expandH H h bs v).2 (expandH H h bs v).1.cells.size none) := by
  cases b <;> simp [expandH]

theorem expandH_prefix (H : Hash) (h : Heap) (p : List Bool) (v : Nat) :
    Prefix h (expandH H h p v).1 := by
  induction p with
  | nil => exact Prefix.refl h
  | cons b bs ih =>
    rw [expandH_cons]
    exact (ih.trans (alloc_prefix _ _)).trans (alloc_prefix _ _)

theorem expandH_size (H : Hash) (h : Heap) (p : List Bool) (v : Nat) :
    (expandH H h p v).1.cells.size = h.cells.size + 2 * p.length := by
  induction p with
  | nil => simp [expandH]
  | cons b bs ih => rw [expandH_cons]; simp [ih]; omega

theorem expandH_lt (H : Hash) (h : Heap) (p : List Bool) {v : Nat} (hv : v < h.cells.size) :
    (expandH H h p v).2 < (expandH H h p v).1.cells.size := by
  cases p with
  | nil => simpa [expandH] using hv
  | cons b bs => rw [expandH_cons]; simp

theorem expandH_WF {H : Hash} {h : Heap} (hw : WF H h) (p : List Bool) {v : Nat}
    (hv : v < h.cells.size) : WF H (expandH H h p v).1 := by
  induction p with
  | nil => simpa [expandH] using hw
  | cons b bs ih =>
    rw [expandH_cons]
    have hx := expandH_lt H h bs hv
    apply alloc_WF (alloc_WF (c := Cell.leaf _) ih trivial)
    cases b <;> simp [OkAt] <;> omega

theorem denote_expandH (H : Hash) (h : Heap) (p : List Bool) {v : Nat} (hv : v < h.cells.size) :
    denote (expandH H h p v).1 (expandH H h p v).2 = expandSet H p (denote h v) := by
  induction p with
  | nil => simp [expandH, expandSet]
  | cons b bs ih =>
    have hx := expandH_lt H h bs hv
    rw [expandH_cons]
    cases b
    · simp only [alloc_snd, Bool.false_eq_true, if_false]
      rw [denote_alloc_pair _ (by simp; omega) (by simp),
        alloc_frame _ _ _ hx, ih, denote_alloc_leaf]
      simp [expandSet, zeroNode]
    · simp only [alloc_snd, if_true]
      rw [denote_alloc_pair _ (by simp) (by simp; omega),
        alloc_frame _ _ _ hx, ih, denote_alloc_leaf]
      simp [expandSet, zeroNode]

/-! ### setPathH -/

@[simp] theorem setPathH_nil (H : Hash) (e : Bool) (h : Heap) (a v : Nat) :
    setPathH H e h a [] v = some (h, v) := rfl

theorem setPathH_cons_pair (H : Hash) (e : Bool) {h : Heap} {a l r : Nat} {k : Option Chunk}
    (hc : h.cells[a]? = some (Cell.pair l r k)) (b : Bool) (bs : List Bool) (v : Nat) :
    setPathH H e h a (b :: bs) v =
      (setPathH H e h (if b then r else l) bs v).map fun x =>
        alloc x.1 (if b then .pair l x.2 none else .pair x.2 r none) := by
  cases b <;> simp [setPathH, hc]

theorem setPathH_cons_leaf (H : Hash) (e : Bool) {h : Heap} {a : Nat} {c : Chunk}
    (hc : h.cells[a]? = some (Cell.leaf c)) (b : Bool) (bs : List Bool) (v : Nat) :
    setPathH H e h a (b :: bs) v =
      if e && c == zeroHash H (bs.length + 1) then some (expandH H h (b :: bs) v) else none := by
  simp [setPathH, hc]

theorem setPathH_cons_none (H : Hash) (e : Bool) {h : Heap} {a : Nat}
    (hc : h.cells[a]? = none) (b : Bool) (bs : List Bool) (v : Nat) :
    setPathH H e h a (b :: bs) v = none := by
  simp [setPathH, hc]

/-- inversion of one step of `setPathH` -/
theorem setPathH_cons_inv {H : Hash} {e : Bool} {h h' : Heap} {a a' v : Nat} {b : Bool}
    {bs : List Bool} (hs : setPathH H e h a (b :: bs) v = some (h', a')) :
    (∃ l r k h1 x, h.cells[a]? = some (Cell.pair l r k) ∧
        setPathH H e h (if b then r else l) bs v = some (h1, x) ∧
        h' = (alloc h1 (if b then .pair l x none else .pair x r none)).1 ∧ a' = h1.cells.size) ∨
    (∃ c, h.cells[a]? = some (Cell.leaf c) ∧ e = true ∧ c = zeroHash H (bs.length + 1) ∧
        expandH H h (b :: bs) v = (h', a')) := by
  rcases hc : h.cells[a]? with _ | (c | ⟨l, r, k⟩)
  · rw [setPathH_cons_none H e hc] at hs; cases hs
  · rw [setPathH_cons_leaf H e hc] at hs
    split at hs
    · next hcond =>
      simp at hcond
      exact .inr ⟨c, rfl, hcond.1, hcond.2, Option.some.inj hs⟩
    · cases hs
  · rw [setPathH_cons_pair H e hc] at hs
    rcases hsub : setPathH H e h (if b then r else l) bs v with _ | ⟨h1, x⟩
    · rw [hsub] at hs; cases hs
    · rw [hsub] at hs
      simp only [Option.map_some, Option.some.injEq, Prod.ext_iff, alloc_snd] at hs
      exact .inl ⟨l, r, k, h1, x, rfl, hsub, hs.1.symm, hs.2.symm⟩

/-- `setPathH` only allocates: existing cells are untouched and no hash is computed -/
theorem setPathH_prefix {H : Hash} {e : Bool} {h h' : Heap} {a a' v : Nat} {p : List Bool}
    (hs : setPathH H e h a p v = some (h', a')) : Prefix h h' := by
  induction p generalizing a h' a' with
  | nil => simp at hs; rw [← hs.1]; exact Prefix.refl h
  | cons b bs ih =>
    rcases setPathH_cons_inv hs with ⟨l, r, k, h1, x, _, hsub, rfl, _⟩ | ⟨c, _, _, _, hx⟩
    · exact (ih hsub).trans (alloc_prefix _ _)
    · have := expandH_prefix H h (b :: bs) v
      rw [hx] at this; exact this

theorem setPathH_lt {H : Hash} {e : Bool} {h h' : Heap} {a a' v : Nat} {p : List Bool}
    (hv : v < h.cells.size) (hs : setPathH H e h a p v = some (h', a')) : a' < h'.cells.size := by
  cases p with
  | nil => simp at hs; rw [← hs.1, ← hs.2]; exact hv
  | cons b bs =>
    rcases setPathH_cons_inv hs with ⟨l, r, k, h1, x, _, hsub, rfl, rfl⟩ | ⟨c, _, _, _, hx⟩
    · simp
    · have := expandH_lt H h (b :: bs) hv
      rw [hx] at this; exact this

/-- number of allocated cells: one new pair per step (no expansion) -/
theorem setPathH_size {H : Hash} {h h' : Heap} {a a' v : Nat} {p : List Bool}
    (hs : setPathH H false h a p v = some (h', a')) :
    h'.cells.size = h.cells.size + p.length := by
  induction p generalizing a h' a' with
  | nil => simp at hs; rw [← hs.1]; rfl
  | cons b bs ih =>
    rcases setPathH_cons_inv hs with ⟨l, r, k, h1, x, _, hsub, rfl, _⟩ | ⟨c, _, he, _, _⟩
    · simp [ih hsub]; omega
    · cases he

/-- number of allocated cells in general: at most a pair and a zero leaf per step -/
theorem setPathH_size_le {H : Hash} {e : Bool} {h h' : Heap} {a a' v : Nat} {p : List Bool}
    (hs : setPathH H e h a p v = some (h', a')) :
    h.cells.size + p.length ≤ h'.cells.size ∧ h'.cells.size ≤ h.cells.size + 2 * p.length := by
  induction p generalizing a h' a' with
  | nil => simp at hs; rw [← hs.1]; simp
  | cons b bs ih =>
    rcases setPathH_cons_inv hs with ⟨l, r, k, h1, x, _, hsub, rfl, _⟩ | ⟨c, _, _, _, hx⟩
    · have := ih hsub
      simp; omega
    · have := expandH_size H h (b :: bs) v
      rw [hx] at this
      simp at this ⊢; omega

/-- when no expansion is needed the `expand` flag is irrelevant -/
theorem setPathH_expand_of_noexp {H : Hash} {h : Heap} {a v : Nat} {p : List Bool}
    {res : Heap × Nat} (hs : setPathH H false h a p v = some res) :
    setPathH H true h a p v = some res := by
  induction p generalizing a res with
  | nil => exact hs
  | cons b bs ih =>
    obtain ⟨h', a'⟩ := res
    rcases setPathH_cons_inv hs with ⟨l, r, k, h1, x, hc, hsub, rfl, rfl⟩ | ⟨c, _, he, _, _⟩
    · rw [setPathH_cons_pair H true hc, ih hsub]; rfl
    · cases he

theorem setPathH_WF {H : Hash} {e : Bool} {h h' : Heap} {a a' v : Nat} {p : List Bool}
    (hw : WF H h) (hv : v < h.cells.size) (hs : setPathH H e h a p v = some (h', a')) :
    WF H h' := by
  induction p generalizing a h' a' with
  | nil => simp at hs; rw [← hs.1]; exact hw
  | cons b bs ih =>
    rcases setPathH_cons_inv hs with ⟨l, r, k, h1, x, hc, hsub, rfl, _⟩ | ⟨c, _, _, _, hx⟩
    · have hx := setPathH_lt hv hsub
      have hp := (setPathH_prefix hsub).size
      have hlt := hw.1 a l r k hc
      have ha := lt_size_of_get hc
      apply alloc_WF (ih hsub)
      cases b <;> simp [OkAt] <;> omega
    · have := expandH_WF hw (b :: bs) hv
      rw [hx] at this; exact this

/-- 1. REFINEMENT: the heap operation computes the pure `setPath` on the denoted trees
    (success and failure alike), so every C07 law about `setPath` transfers to the heap. -/
theorem denote_setPathH_eq (H : Hash) (e : Bool) {h : Heap} (hsh : Shape h) {a v : Nat}
    (ha : a < h.cells.size) (hv : v < h.cells.size) (p : List Bool) :
    (setPathH H e h a p v).map (fun x => denote x.1 x.2) =
      setPath H e (denote h a) p (denote h v) := by
  induction p generalizing a with
  | nil => simp
  | cons b bs ih =>
    rcases hc : h.cells[a]? with _ | (c | ⟨l, r, k⟩)
    · rw [Array.getElem?_eq_none_iff] at hc; omega
    · rw [setPathH_cons_leaf H e hc, denote_leaf hc, setPath_leaf_cons]
      split
      · simp only [Option.map_some]; rw [denote_expandH H h (b :: bs) hv]
      · rfl
    · obtain ⟨hl, hr⟩ := hsh a l r k hc
      rw [setPathH_cons_pair H e hc, denote_pair hc hl hr, setPath_pair_cons]
      have key : ∀ (c : Nat), c < a → ∀ (mk : Nat → Cell) (f : Node → Node),
          (∀ h1 x, Prefix h h1 → x < h1.cells.size →
            denote (alloc h1 (mk x)).1 h1.cells.size = f (denote h1 x)) →
          ((setPathH H e h c bs v).map fun x => alloc x.1 (mk x.2)).map
              (fun x => denote x.1 x.2) = (setPath H e (denote h c) bs (denote h v)).map f := by
        intro c hca mk f hf
        rw [← ih (a := c) (by omega)]
        rcases hsub : setPathH H e h c bs v with _ | ⟨h1, x⟩
        · rfl
        · simp only [Option.map_some, alloc_snd]
          rw [hf h1 x (setPathH_prefix hsub) (setPathH_lt hv hsub)]
      cases b
      · simp only [Bool.false_eq_true, if_false]
        refine key l hl (fun x => .pair x r none) (fun l' => .pair l' (denote h r)) ?_
        intro h1 x hp hx
        have := hp.size
        rw [denote_alloc_pair h1 hx (by omega), denote_prefix hp r (by omega)]
      · simp only [if_true]
        refine key r hr (fun x => .pair l x none) (fun r' => .pair (denote h l) r') ?_
        intro h1 x hp hx
        have := hp.size
        rw [denote_alloc_pair h1 (by omega) hx, denote_prefix hp l (by omega)]

/-- 1. REFINEMENT (success form, as in the task statement) -/
theorem denote_setPathH {H : Hash} {e : Bool} {h h' : Heap} {a a' v : Nat} {p : List Bool}
    (hw : WF H h) (ha : a < h.cells.size) (hv : v < h.cells.size)
    (hs : setPathH H e h a p v = some (h', a')) :
    setPath H e (denote h a) p (denote h v) = some (denote h' a') := by
  rw [← denote_setPathH_eq H e hw.1 ha hv p, hs]; rfl

/-- 2. PERSISTENCE for `setPathH`: every existing address denotes what it denoted before -/
theorem setPathH_frame {H : Hash} {e : Bool} {h h' : Heap} {a a' v : Nat} {p : List Bool}
    (hs : setPathH H e h a p v = some (h', a')) (b : Nat) (hb : b < h.cells.size) :
    denote h' b = denote h b := denote_prefix (setPathH_prefix hs) b hb

/-- `setPathH` NEVER writes an existing cell (not even a cache) and computes no hash -/
theorem setPathH_cells {H : Hash} {e : Bool} {h h' : Heap} {a a' v : Nat} {p : List Bool}
    (hs : setPathH H e h a p v = some (h', a')) :
    h.cells.size ≤ h'.cells.size ∧ (∀ b, b < h.cells.size → h'.cells[b]? = h.cells[b]?) ∧
      h'.hashCalls = h.hashCalls :=
  ⟨(setPathH_prefix hs).size, (setPathH_prefix hs).cell, (setPathH_prefix hs).calls⟩

/-! ### sharing (C19) -/

theorem SharesOffPath.mono {h h1 h' : Heap} (hm : ∀ (b : Nat) (c : Cell), h1.cells[b]? = some c → h'.cells[b]? = some c)
    {a a1 : Nat} {p : List Bool} (hs : SharesOffPath h a h1 a1 p) : SharesOffPath h a h' a1 p := by
  induction p generalizing a a1 with
  | nil => trivial
  | cons b bs ih =>
    obtain ⟨l, r, c, l', r', c', hc, hc', hrest⟩ := hs
    refine ⟨l, r, c, l', r', c', hc, hm _ _ hc', ?_⟩
    cases b
    · exact ⟨hrest.1, ih hrest.2⟩
    · exact ⟨hrest.1, ih hrest.2⟩

/-- 3. SHARING: along the whole path the off-path child of each new pair cell is the very same
    ADDRESS as in the old cell. -/
theorem setPathH_shares {H : Hash} {h h' : Heap} {a a' v : Nat} {p : List Bool}
    (hs : setPathH H false h a p v = some (h', a')) : SharesOffPath h a h' a' p := by
  induction p generalizing a h' a' with
  | nil => trivial
  | cons b bs ih =>
    rcases setPathH_cons_inv hs with ⟨l, r, k, h1, x, hc, hsub, rfl, rfl⟩ | ⟨c, _, he, _, _⟩
    · have hrec := (ih hsub).mono (h' := (alloc h1 (if b = true then Cell.pair l x none
          else Cell.pair x r none)).1) (fun _ _ hb => (alloc_prefix _ _).get hb)
      cases b
      · exact ⟨l, r, k, x, r, none, hc, by simp, rfl, hrec⟩
      · exact ⟨l, r, k, l, x, none, hc, by simp, rfl, hrec⟩
    · cases he

end Rmk.HeapLaws
