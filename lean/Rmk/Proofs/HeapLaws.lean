/-
Laws of the heap layer (Rmk/Impl/Heap.lean): refinement of the pure `setPath`, persistence (C06),
sharing and hashing cost (C19).  Everything is generic in the pair hash `H`.
-/
import Rmk.Impl.Heap
import Rmk.Proofs.TreeLaws
namespace Rmk.HeapLaws
open Rmk Rmk.Heap

/-! ### fuel irrelevance and unfolding equations -/

theorem denoteF_fuel (h : Heap) : ∀ f g a, a < f → a < g → denoteF h f a = denoteF h g a := by
  intro f
  induction f with
  | zero => intro g a hf; omega
  | succ f ih =>
    intro g a hf hg
    cases g with
    | zero => omega
    | succ g =>
      simp only [denoteF]
      split
      · rfl
      · split
        · next l r _ _ hlt => rw [ih g l (by omega) (by omega), ih g r (by omega) (by omega)]
        · rfl
      · rfl

theorem denote_leaf {h : Heap} {a : Nat} {c : Chunk} (hc : h.cells[a]? = some (Cell.leaf c)) :
    denote h a = .leaf c := by
  simp [denote, denoteF, hc]

theorem denote_none {h : Heap} {a : Nat} (hc : h.cells[a]? = none) : denote h a = dangling := by
  simp [denote, denoteF, hc]

theorem denote_pair {h : Heap} {a l r : Nat} {k : Option Chunk}
    (hc : h.cells[a]? = some (Cell.pair l r k)) (hl : l < a) (hr : r < a) :
    denote h a = .pair (denote h l) (denote h r) := by
  have e : denote h a = denoteF h (a + 1) a := rfl
  rw [e, denoteF]
  simp only [hc, hl, hr, and_self, if_true]
  rw [denoteF_fuel h a (l + 1) l hl (by omega), denoteF_fuel h a (r + 1) r hr (by omega)]
  rfl

theorem denote_bad {h : Heap} {a l r : Nat} {k : Option Chunk}
    (hc : h.cells[a]? = some (Cell.pair l r k)) (hb : ¬ (l < a ∧ r < a)) :
    denote h a = dangling := by
  simp [denote, denoteF, hc, hb]

theorem merkleRootF_fuel (H : Hash) :
    ∀ f g h a, a < f → a < g → merkleRootF H f h a = merkleRootF H g h a := by
  intro f
  induction f with
  | zero => intro g h a hf; omega
  | succ f ih =>
    intro g h a hf hg
    cases g with
    | zero => omega
    | succ g =>
      simp only [merkleRootF]
      split
      · rfl
      · rfl
      · split
        · next l r _ hlt =>
          rw [ih g h l (by omega) (by omega)]
          rw [ih g _ r (by omega) (by omega)]
        · rfl
      · rfl

theorem merkleRoot_leaf (H : Hash) {h : Heap} {a : Nat} {c : Chunk}
    (hc : h.cells[a]? = some (Cell.leaf c)) : merkleRoot H h a = (h, c) := by
  simp [merkleRoot, merkleRootF, hc]

theorem merkleRoot_cached (H : Hash) {h : Heap} {a l r : Nat} {c : Chunk}
    (hc : h.cells[a]? = some (Cell.pair l r (some c))) : merkleRoot H h a = (h, c) := by
  simp [merkleRoot, merkleRootF, hc]

theorem merkleRoot_none (H : Hash) {h : Heap} {a : Nat}
    (hc : h.cells[a]? = none) : merkleRoot H h a = (h, []) := by
  simp [merkleRoot, merkleRootF, hc]

theorem merkleRoot_bad (H : Hash) {h : Heap} {a l r : Nat}
    (hc : h.cells[a]? = some (Cell.pair l r none)) (hb : ¬ (l < a ∧ r < a)) :
    merkleRoot H h a = (h, []) := by
  simp [merkleRoot, merkleRootF, hc, hb]

/-- the heap after filling the cache of `a` -/
def fill (h : Heap) (a l r : Nat) (c : Chunk) : Heap :=
  { cells := h.cells.setIfInBounds a (.pair l r (some c)), hashCalls := h.hashCalls + 1 }

theorem merkleRoot_pair (H : Hash) {h : Heap} {a l r : Nat}
    (hc : h.cells[a]? = some (Cell.pair l r none)) (hl : l < a) (hr : r < a) :
    merkleRoot H h a =
      (fill (merkleRoot H (merkleRoot H h l).1 r).1 a l r
          (H (merkleRoot H h l).2 (merkleRoot H (merkleRoot H h l).1 r).2),
        H (merkleRoot H h l).2 (merkleRoot H (merkleRoot H h l).1 r).2) := by
  have e : merkleRoot H h a = merkleRootF H (a + 1) h a := rfl
  rw [e, merkleRootF]
  simp only [hc, hl, hr, and_self, if_true]
  rw [merkleRootF_fuel H a (l + 1) h l hl (by omega)]
  rw [merkleRootF_fuel H a (r + 1) _ r hr (by omega)]
  rfl

/-- induction principle following the recursion of `merkleRoot` -/
theorem merkleRoot_induct (H : Hash) (P : Heap → Nat → Heap × Chunk → Prop)
    (hleaf : ∀ h a c, h.cells[a]? = some (Cell.leaf c) → P h a (h, c))
    (hcached : ∀ h a l r c, h.cells[a]? = some (Cell.pair l r (some c)) → P h a (h, c))
    (hnone : ∀ h a, h.cells[a]? = none → P h a (h, []))
    (hbad : ∀ h a l r, h.cells[a]? = some (Cell.pair l r none) → ¬ (l < a ∧ r < a) → P h a (h, []))
    (hpair : ∀ h a l r, h.cells[a]? = some (Cell.pair l r none) → l < a → r < a →
      P h l (merkleRoot H h l) → P (merkleRoot H h l).1 r (merkleRoot H (merkleRoot H h l).1 r) →
      P h a (fill (merkleRoot H (merkleRoot H h l).1 r).1 a l r
          (H (merkleRoot H h l).2 (merkleRoot H (merkleRoot H h l).1 r).2),
        H (merkleRoot H h l).2 (merkleRoot H (merkleRoot H h l).1 r).2)) :
    ∀ h a, P h a (merkleRoot H h a) := by
  intro h a
  induction a using Nat.strongRecOn generalizing h with
  | ind a ih =>
    rcases hc : h.cells[a]? with _ | (c | ⟨l, r, (_ | c)⟩)
    · rw [merkleRoot_none H hc]; exact hnone h a hc
    · rw [merkleRoot_leaf H hc]; exact hleaf h a c hc
    · by_cases hlt : l < a ∧ r < a
      · rw [merkleRoot_pair H hc hlt.1 hlt.2]
        exact hpair h a l r hc hlt.1 hlt.2 (ih l hlt.1 h) (ih r hlt.2 _)
      · rw [merkleRoot_bad H hc hlt]; exact hbad h a l r hc hlt
    · rw [merkleRoot_cached H hc]; exact hcached h a l r c hc

theorem collectF_fuel (h : Heap) :
    ∀ f g a vis, a < f → a < g → collectF h f a vis = collectF h g a vis := by
  intro f
  induction f with
  | zero => intro g a vis hf; omega
  | succ f ih =>
    intro g a vis hf hg
    cases g with
    | zero => omega
    | succ g =>
      simp only [collectF]
      split
      · rfl
      · split
        · split
          · next l r _ hlt =>
            rw [ih g l vis (by omega) (by omega)]
            rw [ih g r _ (by omega) (by omega)]
          · rfl
        · rfl

theorem collect_mem {h : Heap} {a : Nat} {vis : List Nat} (hm : a ∈ vis) :
    collect h a vis = vis := by
  simp [collect, collectF, hm]

theorem collect_pair {h : Heap} {a l r : Nat} {vis : List Nat} (hm : a ∉ vis)
    (hc : h.cells[a]? = some (Cell.pair l r none)) (hl : l < a) (hr : r < a) :
    collect h a vis = a :: collect h r (collect h l vis) := by
  have e : collect h a vis = collectF h (a + 1) a vis := rfl
  rw [e, collectF]
  simp only [hm, hc, hl, hr, and_self, if_true, if_false]
  rw [collectF_fuel h a (l + 1) l vis hl (by omega)]
  rw [collectF_fuel h a (r + 1) r _ hr (by omega)]
  rfl

theorem collect_bad {h : Heap} {a l r : Nat} {vis : List Nat}
    (hc : h.cells[a]? = some (Cell.pair l r none)) (hb : ¬ (l < a ∧ r < a)) :
    collect h a vis = vis := by
  simp [collect, collectF, hc, hb]

theorem collect_leaf {h : Heap} {a : Nat} {c : Chunk} {vis : List Nat}
    (hc : h.cells[a]? = some (Cell.leaf c)) : collect h a vis = vis := by
  simp [collect, collectF, hc]

theorem collect_cached {h : Heap} {a l r : Nat} {c : Chunk} {vis : List Nat}
    (hc : h.cells[a]? = some (Cell.pair l r (some c))) : collect h a vis = vis := by
  simp [collect, collectF, hc]

theorem collect_none {h : Heap} {a : Nat} {vis : List Nat}
    (hc : h.cells[a]? = none) : collect h a vis = vis := by
  simp [collect, collectF, hc]

/-! ### heap extension relations -/

theorem lt_size_of_get {h : Heap} {a : Nat} {c : Cell} (hc : h.cells[a]? = some c) :
    a < h.cells.size := by
  rcases Nat.lt_or_ge a h.cells.size with hlt | hge
  · exact hlt
  · rw [Array.getElem?_eq_none hge] at hc; cases hc

/-- `h'` extends `h` without touching any existing cell (all allocation-only operations) -/
structure Prefix (h h' : Heap) : Prop where
  size : h.cells.size ≤ h'.cells.size
  cell : ∀ b, b < h.cells.size → h'.cells[b]? = h.cells[b]?
  calls : h'.hashCalls = h.hashCalls

/-- `h'` extends `h`; an existing cell is unchanged except that a `none` cache may have been filled -/
structure Grow (h h' : Heap) : Prop where
  size : h.cells.size ≤ h'.cells.size
  cell : ∀ b, b < h.cells.size → h'.cells[b]? = h.cells[b]? ∨
    ∃ l r c, h.cells[b]? = some (Cell.pair l r none) ∧ h'.cells[b]? = some (Cell.pair l r (some c))

theorem Prefix.refl (h : Heap) : Prefix h h := ⟨Nat.le_refl _, fun _ _ => rfl, rfl⟩

theorem Prefix.trans {h h1 h2 : Heap} (p1 : Prefix h h1) (p2 : Prefix h1 h2) : Prefix h h2 :=
  ⟨Nat.le_trans p1.size p2.size,
   fun b hb => by rw [p2.cell b (Nat.lt_of_lt_of_le hb p1.size), p1.cell b hb],
   by rw [p2.calls, p1.calls]⟩

theorem Prefix.get {h h' : Heap} (p : Prefix h h') {a : Nat} {c : Cell}
    (hc : h.cells[a]? = some c) : h'.cells[a]? = some c := by
  rw [p.cell a (lt_size_of_get hc), hc]

theorem Prefix.grow {h h' : Heap} (p : Prefix h h') : Grow h h' :=
  ⟨p.size, fun b hb => .inl (p.cell b hb)⟩

theorem Grow.refl (h : Heap) : Grow h h := ⟨Nat.le_refl _, fun _ _ => .inl rfl⟩

theorem Grow.trans {h h1 h2 : Heap} (g1 : Grow h h1) (g2 : Grow h1 h2) : Grow h h2 := by
  refine ⟨Nat.le_trans g1.size g2.size, fun b hb => ?_⟩
  rcases g1.cell b hb with e1 | ⟨l, r, c, e1, e1'⟩ <;>
    rcases g2.cell b (Nat.lt_of_lt_of_le hb g1.size) with e2 | ⟨l2, r2, c2, e2, e2'⟩
  · exact .inl (e2.trans e1)
  · exact .inr ⟨l2, r2, c2, e1 ▸ e2, e2'⟩
  · exact .inr ⟨l, r, c, e1, e2.trans e1'⟩
  · rw [e1'] at e2; cases e2

/-- a leaf stays the same leaf -/
theorem Grow.get_leaf {h h' : Heap} (g : Grow h h') {a : Nat} {c : Chunk}
    (hc : h.cells[a]? = some (Cell.leaf c)) : h'.cells[a]? = some (Cell.leaf c) := by
  rcases g.cell a (lt_size_of_get hc) with e | ⟨l, r, k, e, _⟩
  · rw [e, hc]
  · rw [hc] at e; cases e

/-- a pair stays a pair with the same children -/
theorem Grow.get_pair {h h' : Heap} (g : Grow h h') {a l r : Nat} {k : Option Chunk}
    (hc : h.cells[a]? = some (Cell.pair l r k)) : ∃ k', h'.cells[a]? = some (Cell.pair l r k') := by
  rcases g.cell a (lt_size_of_get hc) with e | ⟨l', r', k', e, e'⟩
  · exact ⟨k, by rw [e, hc]⟩
  · rw [hc] at e; cases e; exact ⟨_, e'⟩

/-- a filled cache stays as it is -/
theorem Grow.get_cached {h h' : Heap} (g : Grow h h') {a l r : Nat} {c : Chunk}
    (hc : h.cells[a]? = some (Cell.pair l r (some c))) :
    h'.cells[a]? = some (Cell.pair l r (some c)) := by
  rcases g.cell a (lt_size_of_get hc) with e | ⟨l', r', k', e, e'⟩
  · rw [e, hc]
  · rw [hc] at e; cases e

/-- PERSISTENCE, generic form: whatever happens later (allocation, cache filling), an existing
    address keeps denoting the same tree. -/
theorem denote_grow {h h' : Heap} (g : Grow h h') :
    ∀ a, a < h.cells.size → denote h' a = denote h a := by
  intro a
  induction a using Nat.strongRecOn with
  | ind a ih =>
    intro ha
    rcases hc : h.cells[a]? with _ | (c | ⟨l, r, k⟩)
    · rw [Array.getElem?_eq_none_iff] at hc; omega
    · rw [denote_leaf hc, denote_leaf (g.get_leaf hc)]
    · obtain ⟨k', hc'⟩ := g.get_pair hc
      by_cases hlt : l < a ∧ r < a
      · rw [denote_pair hc hlt.1 hlt.2, denote_pair hc' hlt.1 hlt.2,
          ih l hlt.1 (by omega), ih r hlt.2 (by omega)]
      · rw [denote_bad hc hlt, denote_bad hc' hlt]

theorem denote_prefix {h h' : Heap} (p : Prefix h h') (a : Nat) (ha : a < h.cells.size) :
    denote h' a = denote h a := denote_grow p.grow a ha

/-! ### alloc -/

@[simp] theorem alloc_snd (h : Heap) (c : Cell) : (alloc h c).2 = h.cells.size := rfl

@[simp] theorem alloc_size (h : Heap) (c : Cell) :
    (alloc h c).1.cells.size = h.cells.size + 1 := by simp [alloc]

@[simp] theorem alloc_calls (h : Heap) (c : Cell) : (alloc h c).1.hashCalls = h.hashCalls := rfl

theorem alloc_get (h : Heap) (c : Cell) (b : Nat) :
    (alloc h c).1.cells[b]? = if b = h.cells.size then some c else h.cells[b]? := by
  simp [alloc, Array.getElem?_push]

@[simp] theorem alloc_get_new (h : Heap) (c : Cell) :
    (alloc h c).1.cells[h.cells.size]? = some c := by rw [alloc_get, if_pos rfl]

theorem alloc_prefix (h : Heap) (c : Cell) : Prefix h (alloc h c).1 :=
  ⟨by simp, fun b hb => by rw [alloc_get, if_neg (by omega)], rfl⟩

/-- side condition of an allocation: children exist already, the cache starts empty -/
def OkAt (n : Nat) : Cell → Prop
  | .leaf _ => True
  | .pair l r k => l < n ∧ r < n ∧ k = none

theorem alloc_shape {h : Heap} {c : Cell} (hs : Shape h) (ok : OkAt h.cells.size c) :
    Shape (alloc h c).1 := by
  intro a l r k hget
  rw [alloc_get] at hget
  split at hget
  · next e =>
    cases hget
    obtain ⟨h1, h2, _⟩ := ok
    omega
  · exact hs a l r k hget

theorem alloc_cacheOK {H : Hash} {h : Heap} {c : Cell} (hs : CacheOK H h)
    (ok : OkAt h.cells.size c) : CacheOK H (alloc h c).1 := by
  intro a l r k hget
  rw [alloc_get] at hget
  split at hget
  · cases hget
    obtain ⟨_, _, h3⟩ := ok
    cases h3
  · rw [denote_prefix (alloc_prefix h c) a (lt_size_of_get hget)]
    exact hs a l r k hget

theorem alloc_WF {H : Hash} {h : Heap} {c : Cell} (hw : WF H h) (ok : OkAt h.cells.size c) :
    WF H (alloc h c).1 := ⟨alloc_shape hw.1 ok, alloc_cacheOK hw.2 ok⟩

/-- PERSISTENCE for `alloc` -/
theorem alloc_frame (h : Heap) (c : Cell) (b : Nat) (hb : b < h.cells.size) :
    denote (alloc h c).1 b = denote h b := denote_prefix (alloc_prefix h c) b hb

theorem denote_alloc_leaf (h : Heap) (c : Chunk) :
    denote (alloc h (.leaf c)).1 h.cells.size = .leaf c := denote_leaf (alloc_get_new h _)

theorem denote_alloc_pair (h : Heap) {l r : Nat} (hl : l < h.cells.size) (hr : r < h.cells.size) :
    denote (alloc h (.pair l r none)).1 h.cells.size = .pair (denote h l) (denote h r) := by
  rw [denote_pair (alloc_get_new h _) hl hr, alloc_frame h _ l hl, alloc_frame h _ r hr]

/-! ### expandH -/

theorem expandH_cons (H : Hash) (h : Heap) (b : Bool) (bs : List Bool) (v : Nat) :
    expandH H h (b :: bs) v =
      alloc (alloc (expandH H h bs v).1 (.leaf (zeroHash H bs.length))).1
        (if b then .pair (expandH H h bs v).1.cells.size (expandH H h bs v).2 none
         else .pair (expandH H h bs v).2 (expandH H h bs v).1.cells.size none) := by
  cases b <;> simp [expandH]

theorem expandH_prefix (H : Hash) (h : Heap) (p : List Bool) (v : Nat) :
    Prefix h (expandH H h p v).1 := by
  induction p with
  | nil => exact Prefix.refl h
  | cons b bs ih =>
    rw [expandH_cons]
    exact (ih.trans (alloc_prefix _ _)).trans (alloc_prefix _ _)

theorem expandH_size (H : Hash) (h : Heap) (p : List Bool) (v : Nat) :
    (expandH H h p v).1.cells.size = h.cells.size + 2 * p.length := by
  induction p with
  | nil => simp [expandH]
  | cons b bs ih => rw [expandH_cons]; simp [ih]; omega

theorem expandH_lt (H : Hash) (h : Heap) (p : List Bool) {v : Nat} (hv : v < h.cells.size) :
    (expandH H h p v).2 < (expandH H h p v).1.cells.size := by
  cases p with
  | nil => simpa [expandH] using hv
  | cons b bs => rw [expandH_cons]; simp

theorem expandH_WF {H : Hash} {h : Heap} (hw : WF H h) (p : List Bool) {v : Nat}
    (hv : v < h.cells.size) : WF H (expandH H h p v).1 := by
  induction p with
  | nil => simpa [expandH] using hw
  | cons b bs ih =>
    rw [expandH_cons]
    have hx := expandH_lt H h bs hv
    apply alloc_WF (alloc_WF (c := Cell.leaf _) ih trivial)
    cases b <;> simp [OkAt] <;> omega

theorem denote_expandH (H : Hash) (h : Heap) (p : List Bool) {v : Nat} (hv : v < h.cells.size) :
    denote (expandH H h p v).1 (expandH H h p v).2 = expandSet H p (denote h v) := by
  induction p with
  | nil => simp [expandH, expandSet]
  | cons b bs ih =>
    have hx := expandH_lt H h bs hv
    rw [expandH_cons]
    cases b
    · simp only [alloc_snd, Bool.false_eq_true, if_false]
      rw [denote_alloc_pair _ (by simp; omega) (by simp),
        alloc_frame _ _ _ hx, ih, denote_alloc_leaf]
      simp [expandSet, zeroNode]
    · simp only [alloc_snd, if_true]
      rw [denote_alloc_pair _ (by simp) (by simp; omega),
        alloc_frame _ _ _ hx, ih, denote_alloc_leaf]
      simp [expandSet, zeroNode]

/-! ### setPathH -/

@[simp] theorem setPathH_nil (H : Hash) (e : Bool) (h : Heap) (a v : Nat) :
    setPathH H e h a [] v = some (h, v) := rfl

theorem setPathH_cons_pair (H : Hash) (e : Bool) {h : Heap} {a l r : Nat} {k : Option Chunk}
    (hc : h.cells[a]? = some (Cell.pair l r k)) (b : Bool) (bs : List Bool) (v : Nat) :
    setPathH H e h a (b :: bs) v =
      (setPathH H e h (if b then r else l) bs v).map fun x =>
        alloc x.1 (if b then .pair l x.2 none else .pair x.2 r none) := by
  cases b <;> simp [setPathH, hc]

theorem setPathH_cons_leaf (H : Hash) (e : Bool) {h : Heap} {a : Nat} {c : Chunk}
    (hc : h.cells[a]? = some (Cell.leaf c)) (b : Bool) (bs : List Bool) (v : Nat) :
    setPathH H e h a (b :: bs) v =
      if e && c == zeroHash H (bs.length + 1) then some (expandH H h (b :: bs) v) else none := by
  simp [setPathH, hc]

theorem setPathH_cons_none (H : Hash) (e : Bool) {h : Heap} {a : Nat}
    (hc : h.cells[a]? = none) (b : Bool) (bs : List Bool) (v : Nat) :
    setPathH H e h a (b :: bs) v = none := by
  simp [setPathH, hc]

/-- inversion of one step of `setPathH` -/
theorem setPathH_cons_inv {H : Hash} {e : Bool} {h h' : Heap} {a a' v : Nat} {b : Bool}
    {bs : List Bool} (hs : setPathH H e h a (b :: bs) v = some (h', a')) :
    (∃ l r k h1 x, h.cells[a]? = some (Cell.pair l r k) ∧
        setPathH H e h (if b then r else l) bs v = some (h1, x) ∧
        h' = (alloc h1 (if b then .pair l x none else .pair x r none)).1 ∧ a' = h1.cells.size) ∨
    (∃ c, h.cells[a]? = some (Cell.leaf c) ∧ e = true ∧ c = zeroHash H (bs.length + 1) ∧
        expandH H h (b :: bs) v = (h', a')) := by
  rcases hc : h.cells[a]? with _ | (c | ⟨l, r, k⟩)
  · rw [setPathH_cons_none H e hc] at hs; cases hs
  · rw [setPathH_cons_leaf H e hc] at hs
    split at hs
    · next hcond =>
      simp at hcond
      exact .inr ⟨c, rfl, hcond.1, hcond.2, Option.some.inj hs⟩
    · cases hs
  · rw [setPathH_cons_pair H e hc] at hs
    rcases hsub : setPathH H e h (if b then r else l) bs v with _ | ⟨h1, x⟩
    · rw [hsub] at hs; cases hs
    · rw [hsub] at hs
      simp only [Option.map_some, Option.some.injEq, Prod.ext_iff, alloc_snd] at hs
      exact .inl ⟨l, r, k, h1, x, rfl, hsub, hs.1.symm, hs.2.symm⟩

/-- `setPathH` only allocates: existing cells are untouched and no hash is computed -/
theorem setPathH_prefix {H : Hash} {e : Bool} {h h' : Heap} {a a' v : Nat} {p : List Bool}
    (hs : setPathH H e h a p v = some (h', a')) : Prefix h h' := by
  induction p generalizing a h' a' with
  | nil => simp at hs; rw [← hs.1]; exact Prefix.refl h
  | cons b bs ih =>
    rcases setPathH_cons_inv hs with ⟨l, r, k, h1, x, _, hsub, rfl, _⟩ | ⟨c, _, _, _, hx⟩
    · exact (ih hsub).trans (alloc_prefix _ _)
    · have := expandH_prefix H h (b :: bs) v
      rw [hx] at this; exact this

theorem setPathH_lt {H : Hash} {e : Bool} {h h' : Heap} {a a' v : Nat} {p : List Bool}
    (hv : v < h.cells.size) (hs : setPathH H e h a p v = some (h', a')) : a' < h'.cells.size := by
  cases p with
  | nil => simp at hs; rw [← hs.1, ← hs.2]; exact hv
  | cons b bs =>
    rcases setPathH_cons_inv hs with ⟨l, r, k, h1, x, _, hsub, rfl, rfl⟩ | ⟨c, _, _, _, hx⟩
    · simp
    · have := expandH_lt H h (b :: bs) hv
      rw [hx] at this; exact this

/-- number of allocated cells: one new pair per step (no expansion) -/
theorem setPathH_size {H : Hash} {h h' : Heap} {a a' v : Nat} {p : List Bool}
    (hs : setPathH H false h a p v = some (h', a')) :
    h'.cells.size = h.cells.size + p.length := by
  induction p generalizing a h' a' with
  | nil => simp at hs; rw [← hs.1]; rfl
  | cons b bs ih =>
    rcases setPathH_cons_inv hs with ⟨l, r, k, h1, x, _, hsub, rfl, _⟩ | ⟨c, _, he, _, _⟩
    · simp [ih hsub]; omega
    · cases he

/-- number of allocated cells in general: at most a pair and a zero leaf per step -/
theorem setPathH_size_le {H : Hash} {e : Bool} {h h' : Heap} {a a' v : Nat} {p : List Bool}
    (hs : setPathH H e h a p v = some (h', a')) :
    h.cells.size + p.length ≤ h'.cells.size ∧ h'.cells.size ≤ h.cells.size + 2 * p.length := by
  induction p generalizing a h' a' with
  | nil => simp at hs; rw [← hs.1]; simp
  | cons b bs ih =>
    rcases setPathH_cons_inv hs with ⟨l, r, k, h1, x, _, hsub, rfl, _⟩ | ⟨c, _, _, _, hx⟩
    · have := ih hsub
      simp; omega
    · have := expandH_size H h (b :: bs) v
      rw [hx] at this
      simp at this ⊢; omega

/-- when no expansion is needed the `expand` flag is irrelevant -/
theorem setPathH_expand_of_noexp {H : Hash} {h : Heap} {a v : Nat} {p : List Bool}
    {res : Heap × Nat} (hs : setPathH H false h a p v = some res) :
    setPathH H true h a p v = some res := by
  induction p generalizing a res with
  | nil => exact hs
  | cons b bs ih =>
    obtain ⟨h', a'⟩ := res
    rcases setPathH_cons_inv hs with ⟨l, r, k, h1, x, hc, hsub, rfl, rfl⟩ | ⟨c, _, he, _, _⟩
    · rw [setPathH_cons_pair H true hc, ih hsub]; rfl
    · cases he

theorem setPathH_WF {H : Hash} {e : Bool} {h h' : Heap} {a a' v : Nat} {p : List Bool}
    (hw : WF H h) (hv : v < h.cells.size) (hs : setPathH H e h a p v = some (h', a')) :
    WF H h' := by
  induction p generalizing a h' a' with
  | nil => simp at hs; rw [← hs.1]; exact hw
  | cons b bs ih =>
    rcases setPathH_cons_inv hs with ⟨l, r, k, h1, x, hc, hsub, rfl, _⟩ | ⟨c, _, _, _, hx⟩
    · have hx := setPathH_lt hv hsub
      have hp := (setPathH_prefix hsub).size
      have hlt := hw.1 a l r k hc
      have ha := lt_size_of_get hc
      apply alloc_WF (ih hsub)
      cases b <;> simp [OkAt] <;> omega
    · have := expandH_WF hw (b :: bs) hv
      rw [hx] at this; exact this

/-- 1. REFINEMENT: the heap operation computes the pure `setPath` on the denoted trees
    (success and failure alike), so every C07 law about `setPath` transfers to the heap. -/
theorem denote_setPathH_eq (H : Hash) (e : Bool) {h : Heap} (hsh : Shape h) {a v : Nat}
    (ha : a < h.cells.size) (hv : v < h.cells.size) (p : List Bool) :
    (setPathH H e h a p v).map (fun x => denote x.1 x.2) =
      setPath H e (denote h a) p (denote h v) := by
  induction p generalizing a with
  | nil => simp
  | cons b bs ih =>
    rcases hc : h.cells[a]? with _ | (c | ⟨l, r, k⟩)
    · rw [Array.getElem?_eq_none_iff] at hc; omega
    · rw [setPathH_cons_leaf H e hc, denote_leaf hc, setPath_leaf_cons]
      split
      · simp only [Option.map_some]; rw [denote_expandH H h (b :: bs) hv]
      · rfl
    · obtain ⟨hl, hr⟩ := hsh a l r k hc
      rw [setPathH_cons_pair H e hc, denote_pair hc hl hr, setPath_pair_cons]
      have key : ∀ (c : Nat), c < a → ∀ (mk : Nat → Cell) (f : Node → Node),
          (∀ h1 x, Prefix h h1 → x < h1.cells.size →
            denote (alloc h1 (mk x)).1 h1.cells.size = f (denote h1 x)) →
          ((setPathH H e h c bs v).map fun x => alloc x.1 (mk x.2)).map
              (fun x => denote x.1 x.2) = (setPath H e (denote h c) bs (denote h v)).map f := by
        intro c hca mk f hf
        rw [← ih (a := c) (by omega)]
        rcases hsub : setPathH H e h c bs v with _ | ⟨h1, x⟩
        · rfl
        · simp only [Option.map_some, alloc_snd]
          rw [hf h1 x (setPathH_prefix hsub) (setPathH_lt hv hsub)]
      cases b
      · simp only [Bool.false_eq_true, if_false]
        refine key l hl (fun x => .pair x r none) (fun l' => .pair l' (denote h r)) ?_
        intro h1 x hp hx
        have := hp.size
        rw [denote_alloc_pair h1 hx (by omega), denote_prefix hp r (by omega)]
      · simp only [if_true]
        refine key r hr (fun x => .pair l x none) (fun r' => .pair (denote h l) r') ?_
        intro h1 x hp hx
        have := hp.size
        rw [denote_alloc_pair h1 (by omega) hx, denote_prefix hp l (by omega)]

/-- 1. REFINEMENT (success form, as in the task statement) -/
theorem denote_setPathH {H : Hash} {e : Bool} {h h' : Heap} {a a' v : Nat} {p : List Bool}
    (hw : WF H h) (ha : a < h.cells.size) (hv : v < h.cells.size)
    (hs : setPathH H e h a p v = some (h', a')) :
    setPath H e (denote h a) p (denote h v) = some (denote h' a') := by
  rw [← denote_setPathH_eq H e hw.1 ha hv p, hs]; rfl

/-- 2. PERSISTENCE for `setPathH`: every existing address denotes what it denoted before -/
theorem setPathH_frame {H : Hash} {e : Bool} {h h' : Heap} {a a' v : Nat} {p : List Bool}
    (hs : setPathH H e h a p v = some (h', a')) (b : Nat) (hb : b < h.cells.size) :
    denote h' b = denote h b := denote_prefix (setPathH_prefix hs) b hb

/-- `setPathH` NEVER writes an existing cell (not even a cache) and computes no hash -/
theorem setPathH_cells {H : Hash} {e : Bool} {h h' : Heap} {a a' v : Nat} {p : List Bool}
    (hs : setPathH H e h a p v = some (h', a')) :
    h.cells.size ≤ h'.cells.size ∧ (∀ b, b < h.cells.size → h'.cells[b]? = h.cells[b]?) ∧
      h'.hashCalls = h.hashCalls :=
  ⟨(setPathH_prefix hs).size, (setPathH_prefix hs).cell, (setPathH_prefix hs).calls⟩

/-! ### sharing (C19) -/

theorem sharesOffPath_mono {h h1 h' : Heap} (hm : ∀ (b : Nat) (c : Cell), h1.cells[b]? = some c → h'.cells[b]? = some c)
    {a a1 : Nat} {p : List Bool} (hs : SharesOffPath h a h1 a1 p) : SharesOffPath h a h' a1 p := by
  induction p generalizing a a1 with
  | nil => trivial
  | cons b bs ih =>
    obtain ⟨l, r, c, l', r', c', hc, hc', hrest⟩ := hs
    refine ⟨l, r, c, l', r', c', hc, hm _ _ hc', ?_⟩
    cases b
    · exact ⟨hrest.1, ih hrest.2⟩
    · exact ⟨hrest.1, ih hrest.2⟩

/-- 3. SHARING: along the whole path the off-path child of each new pair cell is the very same
    ADDRESS as in the old cell. -/
theorem setPathH_shares {H : Hash} {h h' : Heap} {a a' v : Nat} {p : List Bool}
    (hs : setPathH H false h a p v = some (h', a')) : SharesOffPath h a h' a' p := by
  induction p generalizing a h' a' with
  | nil => trivial
  | cons b bs ih =>
    rcases setPathH_cons_inv hs with ⟨l, r, k, h1, x, hc, hsub, rfl, rfl⟩ | ⟨c, _, he, _, _⟩
    · have hrec := sharesOffPath_mono (h' := (alloc h1 (if b = true then Cell.pair l x none
          else Cell.pair x r none)).1) (fun _ _ hb => (alloc_prefix _ _).get hb) (ih hsub)
      cases b
      · exact ⟨l, r, k, x, r, none, hc, alloc_get_new _ _, rfl, hrec⟩
      · exact ⟨l, r, k, l, x, none, hc, alloc_get_new _ _, rfl, hrec⟩
    · cases he

/-! ### merkleRoot: frame -/

@[simp] theorem fill_size (h : Heap) (a l r : Nat) (c : Chunk) :
    (fill h a l r c).cells.size = h.cells.size := by simp [fill]

@[simp] theorem fill_calls (h : Heap) (a l r : Nat) (c : Chunk) :
    (fill h a l r c).hashCalls = h.hashCalls + 1 := rfl

theorem fill_get_ne (h : Heap) {a b : Nat} (l r : Nat) (c : Chunk) (hne : b ≠ a) :
    (fill h a l r c).cells[b]? = h.cells[b]? := by
  simp [fill, Array.getElem?_setIfInBounds_ne (Ne.symm hne)]

theorem fill_get_self {h : Heap} {a : Nat} (l r : Nat) (c : Chunk) (ha : a < h.cells.size) :
    (fill h a l r c).cells[a]? = some (Cell.pair l r (some c)) := by
  simp [fill, ha]

theorem fill_grow {h : Heap} {a l r : Nat} (c : Chunk)
    (hc : h.cells[a]? = some (Cell.pair l r none)) : Grow h (fill h a l r c) := by
  refine ⟨by simp, fun b hb => ?_⟩
  by_cases hba : b = a
  · subst hba; exact .inr ⟨l, r, c, hc, fill_get_self l r c hb⟩
  · exact .inl (fill_get_ne h l r c hba)

/-- `merkleRoot` allocates nothing, only fills `none` caches, and only at addresses `≤ a` -/
theorem merkleRoot_grow_aux (H : Hash) (h : Heap) (a : Nat) :
    Grow h (merkleRoot H h a).1 ∧ (merkleRoot H h a).1.cells.size = h.cells.size ∧
      ∀ b, a < b → (merkleRoot H h a).1.cells[b]? = h.cells[b]? := by
  refine merkleRoot_induct H
    (fun h a res => Grow h res.1 ∧ res.1.cells.size = h.cells.size ∧
      ∀ b, a < b → res.1.cells[b]? = h.cells[b]?) ?_ ?_ ?_ ?_ ?_ h a
  · intro h a c _; exact ⟨Grow.refl h, rfl, fun _ _ => rfl⟩
  · intro h a l r c _; exact ⟨Grow.refl h, rfl, fun _ _ => rfl⟩
  · intro h a _; exact ⟨Grow.refl h, rfl, fun _ _ => rfl⟩
  · intro h a l r _ _; exact ⟨Grow.refl h, rfl, fun _ _ => rfl⟩
  · intro h a l r hc hl hr ⟨g1, s1, a1⟩ ⟨g2, s2, a2⟩
    have hc2 : (merkleRoot H (merkleRoot H h l).1 r).1.cells[a]? = some (Cell.pair l r none) := by
      rw [a2 a hr, a1 a hl, hc]
    refine ⟨(g1.trans g2).trans (fill_grow _ hc2), by simp [s1, s2], fun b hb => ?_⟩
    show (fill _ a l r _).cells[b]? = _
    rw [fill_get_ne _ l r _ (by omega), a2 b (by omega), a1 b (by omega)]

theorem merkleRoot_grow (H : Hash) (h : Heap) (a : Nat) : Grow h (merkleRoot H h a).1 :=
  (merkleRoot_grow_aux H h a).1

theorem merkleRoot_size (H : Hash) (h : Heap) (a : Nat) :
    (merkleRoot H h a).1.cells.size = h.cells.size := (merkleRoot_grow_aux H h a).2.1

theorem merkleRoot_above (H : Hash) (h : Heap) {a b : Nat} (hb : a < b) :
    (merkleRoot H h a).1.cells[b]? = h.cells[b]? := (merkleRoot_grow_aux H h a).2.2 b hb

/-- the ONLY write to an existing cell: a `none` cache becomes `some` (same children) -/
theorem merkleRoot_cells (H : Hash) (h : Heap) (a b : Nat) (hb : b < h.cells.size) :
    (merkleRoot H h a).1.cells[b]? = h.cells[b]? ∨
      ∃ l r c, h.cells[b]? = some (Cell.pair l r none) ∧
        (merkleRoot H h a).1.cells[b]? = some (Cell.pair l r (some c)) :=
  (merkleRoot_grow H h a).cell b hb

/-- 2. PERSISTENCE for `merkleRoot` -/
theorem merkleRoot_frame (H : Hash) (h : Heap) (a b : Nat) (hb : b < h.cells.size) :
    denote (merkleRoot H h a).1 b = denote h b := denote_grow (merkleRoot_grow H h a) b hb

/-! ### merkleRoot: value and well-formedness -/

theorem Grow.shape {h h' : Heap} (g : Grow h h') (hsz : h'.cells.size = h.cells.size)
    (hs : Shape h) : Shape h' := by
  intro b l r k hb
  have hlt : b < h.cells.size := hsz ▸ lt_size_of_get hb
  rcases g.cell b hlt with e | ⟨l', r', c, e, e'⟩
  · exact hs b l r k (e ▸ hb)
  · rw [e'] at hb; cases hb; exact hs b l r none e

theorem fill_WF {H : Hash} {h : Heap} {a l r : Nat} {c : Chunk} (hw : WF H h)
    (hc : h.cells[a]? = some (Cell.pair l r none)) (hl : l < a) (hr : r < a)
    (hv : c = (denote h a).root H) : WF H (fill h a l r c) := by
  have ha := lt_size_of_get hc
  have g := fill_grow c hc
  refine ⟨g.shape (by simp) hw.1, ?_⟩
  intro b l' r' k hb
  rw [denote_grow g b (by simpa using lt_size_of_get hb)]
  by_cases hba : b = a
  · subst hba
    rw [fill_get_self l r c ha] at hb
    cases hb; exact hv
  · rw [fill_get_ne h l r c hba] at hb
    exact hw.2 b l' r' k hb

/-- 4. `merkleRoot` returns the root of the denoted tree and keeps the heap well-formed -/
theorem merkleRoot_spec (H : Hash) (h : Heap) (a : Nat) (hw : WF H h) :
    WF H (merkleRoot H h a).1 ∧ (merkleRoot H h a).2 = (denote h a).root H := by
  refine merkleRoot_induct H
    (fun h a res => WF H h → WF H res.1 ∧ res.2 = (denote h a).root H) ?_ ?_ ?_ ?_ ?_ h a hw
  · intro h a c hc hw; exact ⟨hw, by rw [denote_leaf hc]; rfl⟩
  · intro h a l r c hc hw; exact ⟨hw, hw.2 a l r c hc⟩
  · intro h a hc hw; exact ⟨hw, by rw [denote_none hc]; rfl⟩
  · intro h a l r hc hb hw; exact ⟨hw, by rw [denote_bad hc hb]; rfl⟩
  · intro h a l r hc hl hr ih1 ih2 hw
    obtain ⟨hw1, v1⟩ := ih1 hw
    obtain ⟨hw2, v2⟩ := ih2 hw1
    have ha := lt_size_of_get hc
    have g1 := merkleRoot_grow H h l
    have g2 := merkleRoot_grow H (merkleRoot H h l).1 r
    have s1 := merkleRoot_size H h l
    have hc2 : (merkleRoot H (merkleRoot H h l).1 r).1.cells[a]? = some (Cell.pair l r none) := by
      rw [merkleRoot_above H _ hr, merkleRoot_above H _ hl, hc]
    have hval : H (merkleRoot H h l).2 (merkleRoot H (merkleRoot H h l).1 r).2
        = (denote h a).root H := by
      rw [v1, v2, denote_grow g1 r (by omega), denote_pair hc hl hr]; rfl
    refine ⟨fill_WF hw2 hc2 hl hr ?_, hval⟩
    rw [denote_grow (g1.trans g2) a ha]; exact hval

theorem merkleRoot_value {H : Hash} {h : Heap} (hw : WF H h) (a : Nat) :
    (merkleRoot H h a).2 = (denote h a).root H := (merkleRoot_spec H h a hw).2

theorem merkleRoot_WF {H : Hash} {h : Heap} (hw : WF H h) (a : Nat) :
    WF H (merkleRoot H h a).1 := (merkleRoot_spec H h a hw).1

/-- 4. a second `merkleRoot` on the result heap changes nothing (in particular: 0 hash calls, and a
    copy of a view, sharing the backing address, gets the cached root for free) -/
theorem merkleRoot_idempotent (H : Hash) (h : Heap) (a : Nat) :
    merkleRoot H (merkleRoot H h a).1 a = merkleRoot H h a := by
  rcases hc : h.cells[a]? with _ | (c | ⟨l, r, (_ | c)⟩)
  · rw [merkleRoot_none H hc]; exact merkleRoot_none H hc
  · rw [merkleRoot_leaf H hc]; exact merkleRoot_leaf H hc
  · by_cases hlt : l < a ∧ r < a
    · rw [merkleRoot_pair H hc hlt.1 hlt.2]
      apply merkleRoot_cached H (l := l) (r := r)
      apply fill_get_self
      rw [merkleRoot_size, merkleRoot_size]; exact lt_size_of_get hc
    · rw [merkleRoot_bad H hc hlt]; exact merkleRoot_bad H hc hlt
  · rw [merkleRoot_cached H hc]; exact merkleRoot_cached H hc

theorem merkleRoot_idempotent_cost (H : Hash) (h : Heap) (a : Nat) :
    (merkleRoot H (merkleRoot H h a).1 a).1.hashCalls = (merkleRoot H h a).1.hashCalls := by
  rw [merkleRoot_idempotent]

/-! ### hashed subtrees; the cache-closure invariant -/

theorem hashed_lt_size {h : Heap} {a : Nat} (hh : Hashed h a) : a < h.cells.size := by
  cases hh with
  | leaf _ c hc => exact lt_size_of_get hc
  | pair _ l r c hc _ _ => exact lt_size_of_get hc

theorem hashed_grow {h h' : Heap} (g : Grow h h') {a : Nat} (hh : Hashed h a) : Hashed h' a := by
  induction hh with
  | leaf a c hc => exact .leaf a c (g.get_leaf hc)
  | pair a l r c hc _ _ ihl ihr => exact .pair a l r c (g.get_cached hc) ihl ihr

theorem hashed_children {h : Heap} {a l r : Nat} {k : Option Chunk} (hh : Hashed h a)
    (hc : h.cells[a]? = some (Cell.pair l r k)) : Hashed h l ∧ Hashed h r := by
  cases hh with
  | leaf _ c hc' => rw [hc] at hc'; cases hc'
  | pair _ l' r' c hc' hl hr => rw [hc] at hc'; cases hc'; exact ⟨hl, hr⟩

theorem alloc_closed {h : Heap} {c : Cell} (hcl : Closed h) (ok : OkAt h.cells.size c) :
    Closed (alloc h c).1 := by
  intro a l r k hget
  rw [alloc_get] at hget
  split at hget
  · cases hget
    obtain ⟨_, _, h3⟩ := ok
    cases h3
  · exact hashed_grow (alloc_prefix h c).grow (hcl a l r k hget)

theorem fill_closed {h : Heap} {a l r : Nat} {c : Chunk} (hcl : Closed h)
    (hc : h.cells[a]? = some (Cell.pair l r none)) (hl : Hashed h l) (hr : Hashed h r) :
    Closed (fill h a l r c) ∧ Hashed (fill h a l r c) a := by
  have g := fill_grow c hc
  have ha : Hashed (fill h a l r c) a :=
    .pair a l r c (fill_get_self l r c (lt_size_of_get hc)) (hashed_grow g hl) (hashed_grow g hr)
  refine ⟨?_, ha⟩
  intro b l' r' k hb
  by_cases hba : b = a
  · subst hba; exact ha
  · rw [fill_get_ne h l r c hba] at hb
    exact hashed_grow g (hcl b l' r' k hb)

/-- after `merkleRoot` everything reachable from `a` is hashed (and the closure invariant is kept) -/
theorem merkleRoot_closed_hashed (H : Hash) (h : Heap) (a : Nat) (hs : Shape h) (hcl : Closed h)
    (ha : a < h.cells.size) : Closed (merkleRoot H h a).1 ∧ Hashed (merkleRoot H h a).1 a := by
  refine merkleRoot_induct H
    (fun h a res => Shape h → Closed h → a < h.cells.size → Closed res.1 ∧ Hashed res.1 a)
    ?_ ?_ ?_ ?_ ?_ h a hs hcl ha
  · intro h a c hc _ hcl _; exact ⟨hcl, .leaf a c hc⟩
  · intro h a l r c hc _ hcl _; exact ⟨hcl, hcl a l r c hc⟩
  · intro h a hc _ _ ha; rw [Array.getElem?_eq_none_iff] at hc; omega
  · intro h a l r hc hb hs _ _; exact absurd (hs a l r none hc) hb
  · intro h a l r hc hl hr ih1 ih2 hs hcl ha
    have g1 := merkleRoot_grow H h l
    have g2 := merkleRoot_grow H (merkleRoot H h l).1 r
    have s1 := merkleRoot_size H h l
    obtain ⟨c1, h1⟩ := ih1 hs hcl (by omega)
    obtain ⟨c2, h2⟩ := ih2 (g1.shape s1 hs) c1 (by omega)
    have hc2 : (merkleRoot H (merkleRoot H h l).1 r).1.cells[a]? = some (Cell.pair l r none) := by
      rw [merkleRoot_above H _ hr, merkleRoot_above H _ hl, hc]
    exact fill_closed c2 hc2 (hashed_grow g2 h1) h2

theorem merkleRoot_hashed (H : Hash) {h : Heap} (hs : Shape h) (hcl : Closed h) {a : Nat}
    (ha : a < h.cells.size) : Hashed (merkleRoot H h a).1 a :=
  (merkleRoot_closed_hashed H h a hs hcl ha).2

theorem merkleRoot_closed (H : Hash) {h : Heap} (hs : Shape h) (hcl : Closed h) {a : Nat}
    (ha : a < h.cells.size) : Closed (merkleRoot H h a).1 :=
  (merkleRoot_closed_hashed H h a hs hcl ha).1

theorem merkleRoot_shape (H : Hash) {h : Heap} (hs : Shape h) (a : Nat) :
    Shape (merkleRoot H h a).1 := (merkleRoot_grow H h a).shape (merkleRoot_size H h a) hs

theorem setPathH_closed {H : Hash} {e : Bool} {h h' : Heap} {a a' v : Nat} {p : List Bool}
    (hs : Shape h) (hcl : Closed h) (hv : v < h.cells.size)
    (hsp : setPathH H e h a p v = some (h', a')) : Closed h' := by
  induction p generalizing a h' a' with
  | nil => simp at hsp; rw [← hsp.1]; exact hcl
  | cons b bs ih =>
    rcases setPathH_cons_inv hsp with ⟨l, r, k, h1, x, hc, hsub, rfl, _⟩ | ⟨c, _, _, _, hx⟩
    · have hx := setPathH_lt hv hsub
      have hp := (setPathH_prefix hsub).size
      have hlt := hs a l r k hc
      have ha := lt_size_of_get hc
      apply alloc_closed (ih hsub)
      cases b <;> simp [OkAt] <;> omega
    · have : Closed (expandH H h (b :: bs) v).1 := by
        clear hx
        induction (b :: bs) with
        | nil => simpa [expandH] using hcl
        | cons b' bs' ih' =>
          have hx' := expandH_lt H h bs' hv
          rw [expandH_cons]
          apply alloc_closed (alloc_closed (c := Cell.leaf _) ih' trivial)
          cases b' <;> simp [OkAt] <;> omega
      rw [hx] at this; exact this

/-! ### hashing cost (C19) -/

/-- simulation between `merkleRoot` on `h` and the depth-first search on the initial heap `h0`:
    `h` is `h0` with exactly the caches at the visited addresses `F` filled in addition -/
structure Sim (h0 : Heap) (F : List Nat) (h : Heap) : Prop where
  shape : ∀ b : Nat, (h.cells[b]?).map Cell.shape = (h0.cells[b]?).map Cell.shape
  pend : ∀ b : Nat, (∃ l r, h.cells[b]? = some (Cell.pair l r none)) ↔
    ((∃ l r, h0.cells[b]? = some (Cell.pair l r none)) ∧ b ∉ F)

theorem Sim.leaf {h0 h : Heap} {F : List Nat} (s : Sim h0 F h) {a : Nat} {c : Chunk}
    (hc : h.cells[a]? = some (Cell.leaf c)) : h0.cells[a]? = some (Cell.leaf c) := by
  have := s.shape a
  rw [hc] at this
  rcases h0c : h0.cells[a]? with _ | (c' | ⟨l, r, k⟩) <;> rw [h0c] at this <;>
    simp [Cell.shape] at this
  rw [this]

theorem Sim.pair {h0 h : Heap} {F : List Nat} (s : Sim h0 F h) {a l r : Nat} {k : Option Chunk}
    (hc : h.cells[a]? = some (Cell.pair l r k)) : ∃ k0, h0.cells[a]? = some (Cell.pair l r k0) := by
  have := s.shape a
  rw [hc] at this
  rcases h0c : h0.cells[a]? with _ | (c' | ⟨l', r', k'⟩) <;> rw [h0c] at this <;>
    simp [Cell.shape] at this
  exact ⟨k', by rw [this.1, this.2]⟩

theorem Sim.dangling {h0 h : Heap} {F : List Nat} (s : Sim h0 F h) {a : Nat}
    (hc : h.cells[a]? = none) : h0.cells[a]? = none := by
  have := s.shape a
  rw [hc] at this
  simpa using this.symm

theorem Sim.pending {h0 h : Heap} {F : List Nat} (s : Sim h0 F h) {a l r : Nat}
    (hc : h.cells[a]? = some (Cell.pair l r none)) :
    h0.cells[a]? = some (Cell.pair l r none) ∧ a ∉ F := by
  obtain ⟨⟨l', r', h0c⟩, hF⟩ := (s.pend a).1 ⟨l, r, hc⟩
  obtain ⟨k0, hk⟩ := s.pair hc
  rw [hk] at h0c; cases h0c
  exact ⟨hk, hF⟩

theorem merkleRoot_sim (H : Hash) (h0 : Heap) (h : Heap) (a : Nat) :
    ∀ F, Sim h0 F h → Sim h0 (collect h0 a F) (merkleRoot H h a).1 ∧
      (merkleRoot H h a).1.hashCalls + F.length = h.hashCalls + (collect h0 a F).length := by
  refine merkleRoot_induct H
    (fun h a res => ∀ F, Sim h0 F h → Sim h0 (collect h0 a F) res.1 ∧
      res.1.hashCalls + F.length = h.hashCalls + (collect h0 a F).length) ?_ ?_ ?_ ?_ ?_ h a
  · intro h a c hc F s
    rw [collect_leaf (s.leaf hc)]; exact ⟨s, rfl⟩
  · intro h a l r c hc F s
    obtain ⟨k0, h0c⟩ := s.pair hc
    have e : collect h0 a F = F := by
      by_cases hm : a ∈ F
      · exact collect_mem hm
      · cases k0 with
        | some c0 => exact collect_cached h0c
        | none =>
          obtain ⟨l', r', hp⟩ := (s.pend a).2 ⟨⟨l, r, h0c⟩, hm⟩
          rw [hc] at hp; cases hp
    rw [e]; exact ⟨s, rfl⟩
  · intro h a hc F s
    rw [collect_none (s.dangling hc)]; exact ⟨s, rfl⟩
  · intro h a l r hc hb F s
    rw [collect_bad (s.pending hc).1 hb]; exact ⟨s, rfl⟩
  · intro h a l r hc hl hr ih1 ih2 F s
    obtain ⟨h0c, hF⟩ := s.pending hc
    obtain ⟨s1, n1⟩ := ih1 F s
    obtain ⟨s2, n2⟩ := ih2 _ s1
    rw [collect_pair hF h0c hl hr]
    refine ⟨⟨fun b => ?_, fun b => ?_⟩, by simp only [fill_calls, List.length_cons]; omega⟩
    · by_cases hba : b = a
      · subst hba
        have hsome : b < (merkleRoot H (merkleRoot H h l).1 r).1.cells.size := by
          rw [merkleRoot_size, merkleRoot_size]; exact lt_size_of_get hc
        rw [fill_get_self l r _ hsome, h0c]; rfl
      · show Option.map Cell.shape (fill _ a l r _).cells[b]? = _
        rw [fill_get_ne _ l r _ hba]; exact s2.shape b
    · by_cases hba : b = a
      · subst hba
        have hsome : b < (merkleRoot H (merkleRoot H h l).1 r).1.cells.size := by
          rw [merkleRoot_size, merkleRoot_size]; exact lt_size_of_get hc
        show (∃ l' r', (fill _ b l r _).cells[b]? = _) ↔ _
        rw [fill_get_self l r _ hsome]
        simp
      · show (∃ l' r', (fill _ a l r _).cells[b]? = _) ↔ _
        rw [fill_get_ne _ l r _ hba, s2.pend b]
        simp [hba]

/-- 4. HASH COST, exact form: `merkleRoot` calls the pair hash exactly once per DISTINCT uncached
    pair address reachable from `a` (no hypothesis on the heap at all). -/
theorem merkleRoot_cost_eq (H : Hash) (h : Heap) (a : Nat) :
    (merkleRoot H h a).1.hashCalls = h.hashCalls + uncached h a := by
  have := (merkleRoot_sim H h h a [] ⟨fun _ => rfl, fun _ => by simp⟩).2
  simpa [uncached, uncachedList] using this

/-- 4. HASH COST (as stated in the task) -/
theorem merkleRoot_cost (H : Hash) (h : Heap) (a : Nat) :
    (merkleRoot H h a).1.hashCalls - h.hashCalls ≤ uncached h a := by
  rw [merkleRoot_cost_eq]; omega

theorem merkleRoot_idempotent_zero (H : Hash) (h : Heap) (a : Nat) :
    uncached (merkleRoot H h a).1 a = 0 := by
  have h1 := merkleRoot_cost_eq H (merkleRoot H h a).1 a
  rw [merkleRoot_idempotent] at h1
  omega

/-! ### the path bound -/

theorem collect_congr {h h' : Heap} : ∀ (a : Nat) (vis : List Nat),
    (∀ b, b ≤ a → h'.cells[b]? = h.cells[b]?) → collect h' a vis = collect h a vis := by
  intro a
  induction a using Nat.strongRecOn with
  | ind a ih =>
    intro vis hag
    by_cases hm : a ∈ vis
    · rw [collect_mem hm, collect_mem hm]
    · have ha := hag a (Nat.le_refl a)
      rcases hc : h.cells[a]? with _ | (c | ⟨l, r, (_ | c)⟩) <;> rw [hc] at ha
      · rw [collect_none hc, collect_none ha]
      · rw [collect_leaf hc, collect_leaf ha]
      · by_cases hlt : l < a ∧ r < a
        · rw [collect_pair hm hc hlt.1 hlt.2, collect_pair hm ha hlt.1 hlt.2,
            ih l hlt.1 vis (fun b hb => hag b (by omega)),
            ih r hlt.2 _ (fun b hb => hag b (by omega))]
        · rw [collect_bad hc hlt, collect_bad ha hlt]
      · rw [collect_cached hc, collect_cached ha]

theorem collect_prefix {h h' : Heap} (p : Prefix h h') {a : Nat} (ha : a < h.cells.size)
    (vis : List Nat) : collect h' a vis = collect h a vis :=
  collect_congr a vis (fun b hb => p.cell b (by omega))

theorem collect_hashed {h : Heap} {a : Nat} (hh : Hashed h a) (vis : List Nat) :
    collect h a vis = vis := by
  cases hh with
  | leaf _ c hc => exact collect_leaf hc
  | pair _ l r c hc _ _ => exact collect_cached hc

theorem length_le_collect (h : Heap) : ∀ (a : Nat) (vis : List Nat),
    vis.length ≤ (collect h a vis).length := by
  intro a
  induction a using Nat.strongRecOn with
  | ind a ih =>
    intro vis
    by_cases hm : a ∈ vis
    · rw [collect_mem hm]; exact Nat.le_refl _
    · rcases hc : h.cells[a]? with _ | (c | ⟨l, r, (_ | c)⟩)
      · rw [collect_none hc]; exact Nat.le_refl _
      · rw [collect_leaf hc]; exact Nat.le_refl _
      · by_cases hlt : l < a ∧ r < a
        · rw [collect_pair hm hc hlt.1 hlt.2]
          have h1 := ih l hlt.1 vis
          have h2 := ih r hlt.2 (collect h l vis)
          simp only [List.length_cons]; omega
        · rw [collect_bad hc hlt]; exact Nat.le_refl _
      · rw [collect_cached hc]; exact Nat.le_refl _

/-- after a write below a fully hashed tree only the new path cells (and whatever is uncached
    below the written node `v`) are uncached -/
theorem setPathH_collect {H : Hash} {h h' : Heap} {a a' v : Nat} {p : List Bool}
    (hh : Hashed h a) (hv : v < h.cells.size)
    (hs : setPathH H false h a p v = some (h', a')) (vis : List Nat) :
    (collect h' a' vis).length ≤ p.length + (collect h v vis).length := by
  induction p generalizing a h' a' with
  | nil => simp at hs; rw [← hs.1, ← hs.2]; simp
  | cons b bs ih =>
    rcases setPathH_cons_inv hs with ⟨l, r, k, h1, x, hc, hsub, rfl, rfl⟩ | ⟨c, _, he, _, _⟩
    · obtain ⟨hhl, hhr⟩ := hashed_children hh hc
      have hp1 := setPathH_prefix hsub
      have hx := setPathH_lt hv hsub
      have hl1 := Nat.lt_of_lt_of_le (hashed_lt_size hhl) hp1.size
      have hr1 := Nat.lt_of_lt_of_le (hashed_lt_size hhr) hp1.size
      have hmono := length_le_collect h v vis
      by_cases hm : h1.cells.size ∈ vis
      · rw [collect_mem hm]; simp only [List.length_cons]; omega
      · cases b
        · have hrec := ih (a := l) hhl hsub
          have hpa := alloc_prefix h1 (Cell.pair x r none)
          simp only [Bool.false_eq_true, if_false] at hrec ⊢
          rw [collect_pair hm (alloc_get_new _ _) hx hr1, collect_prefix hpa hx,
            collect_hashed (hashed_grow (hp1.trans hpa).grow hhr)]
          simp only [List.length_cons]; omega
        · have hrec := ih (a := r) hhr hsub
          have hpa := alloc_prefix h1 (Cell.pair l x none)
          simp only [if_true] at hrec ⊢
          rw [collect_pair hm (alloc_get_new _ _) hl1 hx,
            collect_hashed (hashed_grow (hp1.trans hpa).grow hhl), collect_prefix hpa hx]
          simp only [List.length_cons]; omega
    · cases he

theorem setPathH_uncached {H : Hash} {h h' : Heap} {a a' v : Nat} {p : List Bool}
    (hh : Hashed h a) (hv : v < h.cells.size)
    (hs : setPathH H false h a p v = some (h', a')) :
    uncached h' a' ≤ p.length + uncached h v := setPathH_collect hh hv hs []

/-- 4. PATH BOUND (C19): if everything reachable from `a` is hashed, then after writing `v` at path
    `p` the new root costs at most one hash per path step plus the hashing of `v` itself. -/
theorem setPath_then_root_cost {H : Hash} {h h' : Heap} {a a' v : Nat} {p : List Bool}
    (hh : Hashed h a) (hv : v < h.cells.size)
    (hs : setPathH H false h a p v = some (h', a')) :
    (merkleRoot H h' a').1.hashCalls - h.hashCalls ≤ p.length + uncached h v := by
  have := setPathH_uncached hh hv hs
  rw [merkleRoot_cost_eq, (setPathH_prefix hs).calls]; omega

/-- the same, starting from any well-shaped heap by hashing `a` first (`e.g. after a merkleRoot`) -/
theorem root_setPath_root_cost {H : Hash} {h h' : Heap} {a a' v : Nat} {p : List Bool}
    (hsh : Shape h) (hcl : Closed h) (ha : a < h.cells.size) (hv : v < h.cells.size)
    (hs : setPathH H false (merkleRoot H h a).1 a p v = some (h', a')) :
    (merkleRoot H h' a').1.hashCalls - (merkleRoot H h a).1.hashCalls
      ≤ p.length + uncached (merkleRoot H h a).1 v :=
  setPath_then_root_cost (merkleRoot_hashed H hsh hcl ha) (by rw [merkleRoot_size]; exact hv) hs

/-! ### ofNode -/

/-- number of objects of a tree -/
def nodes : Node → Nat
  | .leaf _ => 1
  | .pair l r => nodes l + nodes r + 1

theorem ofNode_prefix (h : Heap) (n : Node) : Prefix h (ofNode h n).1 := by
  induction n generalizing h with
  | leaf c => exact alloc_prefix h _
  | pair l r ihl ihr => exact ((ihl h).trans (ihr _)).trans (alloc_prefix _ _)

theorem ofNode_size (h : Heap) (n : Node) :
    (ofNode h n).1.cells.size = h.cells.size + nodes n := by
  induction n generalizing h with
  | leaf c => simp [ofNode, nodes]
  | pair l r ihl ihr => simp [ofNode, nodes, ihl, ihr]; omega

theorem ofNode_lt (h : Heap) (n : Node) : (ofNode h n).2 < (ofNode h n).1.cells.size := by
  cases n <;> simp [ofNode]

theorem denote_ofNode (h : Heap) (n : Node) : denote (ofNode h n).1 (ofNode h n).2 = n := by
  induction n generalizing h with
  | leaf c => exact denote_alloc_leaf h c
  | pair l r ihl ihr =>
    have h1 := ofNode_lt h l
    have h2 := ofNode_lt (ofNode h l).1 r
    have hp := ofNode_prefix (ofNode h l).1 r
    have hsz := hp.size
    show denote (alloc _ (Cell.pair _ _ none)).1 (ofNode (ofNode h l).1 r).1.cells.size = _
    rw [denote_alloc_pair _ (by omega) h2, ihr, denote_prefix hp _ h1, ihl]

theorem ofNode_WF {H : Hash} {h : Heap} (hw : WF H h) (n : Node) : WF H (ofNode h n).1 := by
  induction n generalizing h with
  | leaf c => exact alloc_WF (c := Cell.leaf c) hw trivial
  | pair l r ihl ihr =>
    have h1 := ofNode_lt h l
    have h2 := ofNode_lt (ofNode h l).1 r
    have hsz := (ofNode_prefix (ofNode h l).1 r).size
    exact alloc_WF (ihr (ihl hw)) ⟨by omega, h2, rfl⟩

theorem ofNode_closed {h : Heap} (hcl : Closed h) (n : Node) : Closed (ofNode h n).1 := by
  induction n generalizing h with
  | leaf c => exact alloc_closed (c := Cell.leaf c) hcl trivial
  | pair l r ihl ihr =>
    have h1 := ofNode_lt h l
    have h2 := ofNode_lt (ofNode h l).1 r
    have hsz := (ofNode_prefix (ofNode h l).1 r).size
    exact alloc_closed (ihr (ihl hcl)) ⟨by omega, h2, rfl⟩

/-- PERSISTENCE for `ofNode` -/
theorem ofNode_frame (h : Heap) (n : Node) (b : Nat) (hb : b < h.cells.size) :
    denote (ofNode h n).1 b = denote h b := denote_prefix (ofNode_prefix h n) b hb

theorem empty_WF (H : Hash) : WF H Heap.empty :=
  ⟨fun a l r c hc => by simp [Heap.empty] at hc, fun a l r c hc => by simp [Heap.empty] at hc⟩

theorem empty_closed : Closed Heap.empty := fun a l r c hc => by simp [Heap.empty] at hc

/-! ### `uncachedList` is the duplicate-free list of the reachable uncached pair addresses -/

/-- `b` is an uncached pair reachable from `a` through uncached pairs only -/
inductive ReachU (h : Heap) : Nat → Nat → Prop
  | here (a l r : Nat) : h.cells[a]? = some (Cell.pair l r none) → l < a → r < a → ReachU h a a
  | left (a l r b : Nat) : h.cells[a]? = some (Cell.pair l r none) → l < a → r < a →
      ReachU h l b → ReachU h a b
  | right (a l r b : Nat) : h.cells[a]? = some (Cell.pair l r none) → l < a → r < a →
      ReachU h r b → ReachU h a b

theorem ReachU.le {h : Heap} {a b : Nat} (hr : ReachU h a b) : b ≤ a := by
  induction hr with
  | here => exact Nat.le_refl _
  | left a l r b _ hl _ _ ih => omega
  | right a l r b _ _ hr _ ih => omega

theorem ReachU.source {h : Heap} {a b : Nat} (hr : ReachU h a b) :
    ∃ l r, h.cells[a]? = some (Cell.pair l r none) ∧ l < a ∧ r < a := by
  cases hr with
  | here _ l r hc hl hr => exact ⟨l, r, hc, hl, hr⟩
  | left _ l r _ hc hl hr _ => exact ⟨l, r, hc, hl, hr⟩
  | right _ l r _ hc hl hr _ => exact ⟨l, r, hc, hl, hr⟩

/-- every reachable address is itself an uncached pair -/
theorem ReachU.target {h : Heap} {a b : Nat} (hr : ReachU h a b) :
    ∃ l r, h.cells[b]? = some (Cell.pair l r none) := by
  induction hr with
  | here a l r hc _ _ => exact ⟨l, r, hc⟩
  | left _ _ _ _ _ _ _ _ ih => exact ih
  | right _ _ _ _ _ _ _ _ ih => exact ih

theorem ReachU.trans {h : Heap} {a b c : Nat} (h1 : ReachU h a b) (h2 : ReachU h b c) :
    ReachU h a c := by
  induction h1 with
  | here => exact h2
  | left a l r b hc hl hr _ ih => exact .left a l r c hc hl hr (ih h2)
  | right a l r b hc hl hr _ ih => exact .right a l r c hc hl hr (ih h2)

theorem reachU_iff {h : Heap} {a l r : Nat} (hc : h.cells[a]? = some (Cell.pair l r none))
    (hl : l < a) (hr : r < a) (b : Nat) :
    ReachU h a b ↔ b = a ∨ ReachU h l b ∨ ReachU h r b := by
  constructor
  · intro hreach
    cases hreach with
    | here => exact .inl rfl
    | left _ l' r' _ hc' _ _ hsub => rw [hc] at hc'; cases hc'; exact .inr (.inl hsub)
    | right _ l' r' _ hc' _ _ hsub => rw [hc] at hc'; cases hc'; exact .inr (.inr hsub)
  · rintro (rfl | hsub | hsub)
    · exact .here _ l r hc hl hr
    · exact .left a l r b hc hl hr hsub
    · exact .right a l r b hc hl hr hsub

/-- correctness of the depth-first search -/
theorem collect_spec (h : Heap) : ∀ (a : Nat) (vis : List Nat), vis.Nodup →
    (∀ x, x ∈ vis → ∀ b, ReachU h x b → b ∈ vis) →
    (collect h a vis).Nodup ∧ ∀ b, b ∈ collect h a vis ↔ (b ∈ vis ∨ ReachU h a b) := by
  intro a
  induction a using Nat.strongRecOn with
  | ind a ih =>
    intro vis hnd hcl
    have stop : collect h a vis = vis →
        (∀ b, ReachU h a b → b ∈ vis) →
        (collect h a vis).Nodup ∧ ∀ b, b ∈ collect h a vis ↔ (b ∈ vis ∨ ReachU h a b) := by
      intro e hno
      rw [e]
      exact ⟨hnd, fun b => ⟨.inl, fun hb => hb.elim id (hno b)⟩⟩
    by_cases hm : a ∈ vis
    · exact stop (collect_mem hm) (hcl a hm)
    · rcases hc : h.cells[a]? with _ | (c | ⟨l, r, (_ | c)⟩)
      · refine stop (collect_none hc) (fun b hb => ?_)
        obtain ⟨_, _, hc', _⟩ := hb.source; rw [hc] at hc'; cases hc'
      · refine stop (collect_leaf hc) (fun b hb => ?_)
        obtain ⟨_, _, hc', _⟩ := hb.source; rw [hc] at hc'; cases hc'
      · by_cases hlt : l < a ∧ r < a
        · obtain ⟨hl, hr⟩ := hlt
          obtain ⟨nd1, mem1⟩ := ih l hl vis hnd hcl
          have cl1 : ∀ x, x ∈ collect h l vis → ∀ b, ReachU h x b → b ∈ collect h l vis := by
            intro x hx b hxb
            rcases (mem1 x).1 hx with hx | hx
            · exact (mem1 b).2 (.inl (hcl x hx b hxb))
            · exact (mem1 b).2 (.inr (hx.trans hxb))
          obtain ⟨nd2, mem2⟩ := ih r hr _ nd1 cl1
          rw [collect_pair hm hc hl hr]
          refine ⟨List.nodup_cons.2 ⟨?_, nd2⟩, fun b => ?_⟩
          · intro ha
            rcases (mem2 a).1 ha with ha | ha
            · rcases (mem1 a).1 ha with ha | ha
              · exact hm ha
              · have := ha.le; omega
            · have := ha.le; omega
          · rw [List.mem_cons, mem2, mem1, reachU_iff hc hl hr]
            constructor
            · rintro (h1 | (h1 | h1) | h1)
              · exact .inr (.inl h1)
              · exact .inl h1
              · exact .inr (.inr (.inl h1))
              · exact .inr (.inr (.inr h1))
            · rintro (h1 | h1 | h1 | h1)
              · exact .inr (.inl (.inl h1))
              · exact .inl h1
              · exact .inr (.inl (.inr h1))
              · exact .inr (.inr h1)
        · refine stop (collect_bad hc hlt) (fun b hb => ?_)
          obtain ⟨l', r', hc', hl', hr'⟩ := hb.source
          rw [hc] at hc'; cases hc'; exact absurd ⟨hl', hr'⟩ hlt
      · refine stop (collect_cached hc) (fun b hb => ?_)
        obtain ⟨_, _, hc', _⟩ := hb.source; rw [hc] at hc'; cases hc'

theorem uncachedList_nodup (h : Heap) (a : Nat) : (uncachedList h a).Nodup :=
  (collect_spec h a [] List.nodup_nil (fun _ hx => by cases hx)).1

theorem mem_uncachedList (h : Heap) (a b : Nat) : b ∈ uncachedList h a ↔ ReachU h a b := by
  have := (collect_spec h a [] List.nodup_nil (fun _ hx => by cases hx)).2 b
  simpa [uncachedList] using this

/-! ### transfer of the pure laws; snapshots (C06) -/

/-- example of a C07 law transferred through the refinement: reading back what was written -/
theorem getPath_setPathH_same {H : Hash} {e : Bool} {h h' : Heap} {a a' v : Nat} {p : List Bool}
    (hw : WF H h) (ha : a < h.cells.size) (hv : v < h.cells.size)
    (hs : setPathH H e h a p v = some (h', a')) :
    getPath (denote h' a') p = some (denote h v) :=
  getPath_setPath_same H e _ p _ _ (denote_setPathH hw ha hv hs)

/-- the root after a write is the recomputation along the path from the sibling roots -/
theorem root_setPathH {H : Hash} {h h' : Heap} {a a' v : Nat} {p : List Bool}
    (hw : WF H h) (ha : a < h.cells.size) (hv : v < h.cells.size)
    (hs : setPathH H false h a p v = some (h', a')) :
    (merkleRoot H h' a').2 = rootWith H (denote h a) p ((denote h v).root H) := by
  rw [merkleRoot_value (setPathH_WF hw hv hs), setPath_root H _ p _ _ (denote_setPathH hw ha hv hs)]

/-- one modelled heap operation -/
inductive Step (H : Hash) : Heap → Heap → Prop
  | alloc (h : Heap) (c : Cell) : OkAt h.cells.size c → Step H h (alloc h c).1
  | root (h : Heap) (a : Nat) : Step H h (merkleRoot H h a).1
  | set (e : Bool) (h : Heap) (a : Nat) (p : List Bool) (v : Nat) (h' : Heap) (a' : Nat) :
      v < h.cells.size → setPathH H e h a p v = some (h', a') → Step H h h'
  | ofNode (h : Heap) (n : Node) : Step H h (ofNode h n).1

/-- any sequence of modelled operations -/
inductive Steps (H : Hash) : Heap → Heap → Prop
  | refl (h : Heap) : Steps H h h
  | tail (h h1 h2 : Heap) : Steps H h h1 → Step H h1 h2 → Steps H h h2

theorem Step.grow {H : Hash} {h h' : Heap} (s : Step H h h') : Grow h h' := by
  cases s with
  | alloc _ c _ => exact (alloc_prefix h c).grow
  | root _ a => exact merkleRoot_grow H h a
  | set e _ a p v _ a' _ hs => exact (setPathH_prefix hs).grow
  | ofNode _ n => exact (ofNode_prefix h n).grow

theorem Step.wf {H : Hash} {h h' : Heap} (s : Step H h h') (hw : WF H h) : WF H h' := by
  cases s with
  | alloc _ c ok => exact alloc_WF hw ok
  | root _ a => exact merkleRoot_WF hw a
  | set e _ a p v _ a' hv hs => exact setPathH_WF hw hv hs
  | ofNode _ n => exact ofNode_WF hw n

theorem Steps.grow {H : Hash} {h h' : Heap} (s : Steps H h h') : Grow h h' := by
  induction s with
  | refl => exact Grow.refl _
  | tail _ _ _ st ih => exact ih.trans st.grow

theorem Steps.wf {H : Hash} {h h' : Heap} (s : Steps H h h') (hw : WF H h) : WF H h' := by
  induction s with
  | refl => exact hw
  | tail _ _ _ st ih => exact st.wf ih

/-- 2. PERSISTENCE (C06): a snapshot (an address held by somebody) keeps denoting the same tree
    whatever sequence of modelled operations happens later -/
theorem snapshot_persistent {H : Hash} {h h' : Heap} (s : Steps H h h') (b : Nat)
    (hb : b < h.cells.size) : denote h' b = denote h b := denote_grow s.grow b hb

/-- ... and so its root, recomputed at any later time, is the old root -/
theorem snapshot_root {H : Hash} {h h' : Heap} (hw : WF H h) (s : Steps H h h') (b : Nat)
    (hb : b < h.cells.size) : (merkleRoot H h' b).2 = (denote h b).root H := by
  rw [merkleRoot_value (s.wf hw), snapshot_persistent s b hb]

/-! ### examples (toy hash: concatenation) -/

section Examples

private def toy : Hash := fun a b => a ++ b

/-- `((1,2),(3,4))`: leaves at 0 1 3 4, pairs at 2 5 6 (root); then a spare leaf `9` at 7 -/
private def hA : Heap :=
  (alloc (ofNode Heap.empty
    (.pair (.pair (.leaf [1]) (.leaf [2])) (.pair (.leaf [3]) (.leaf [4])))).1 (.leaf [9])).1

example : hA.cells = #[.leaf [1], .leaf [2], .pair 0 1 none, .leaf [3], .leaf [4], .pair 3 4 none,
    .pair 2 5 none, .leaf [9]] := by decide

example : denote hA 6 = .pair (.pair (.leaf [1]) (.leaf [2])) (.pair (.leaf [3]) (.leaf [4])) := by
  decide

-- three uncached pairs: three hash calls; the caches are filled
example : uncachedList hA 6 = [6, 5, 2] := by decide
example : (merkleRoot toy hA 6).2 = [1, 2, 3, 4] := by decide
example : (merkleRoot toy hA 6).1.hashCalls = 3 := by decide
example : (merkleRoot toy hA 6).1.cells[6]? = some (.pair 2 5 (some [1, 2, 3, 4])) := by decide
-- second call: no hashing
example : (merkleRoot toy (merkleRoot toy hA 6).1 6).1.hashCalls = 3 := by decide

private def hB : Heap := (merkleRoot toy hA 6).1

-- write the leaf at address 7 at path right-left (gindex 6): two NEW cells 8, 9; nothing overwritten
example : (setPathH toy false hB 6 [true, false] 7).map (·.2) = some 9 := by decide
private def hC : Heap := ((setPathH toy false hB 6 [true, false] 7).map (·.1)).getD hB

example : hC.cells.size = hB.cells.size + 2 := by decide
-- sharing: the new root 9 re-uses address 2 (left subtree), the new cell 8 re-uses address 4
example : hC.cells[9]? = some (.pair 2 8 none) := by decide
example : hC.cells[8]? = some (.pair 7 4 none) := by decide
example : hC.cells.extract 0 8 = hB.cells := by decide
-- persistence: the old root still denotes the old tree, the new root the updated one
example : denote hC 6 = denote hA 6 := by decide
example : denote hC 9 = .pair (.pair (.leaf [1]) (.leaf [2])) (.pair (.leaf [9]) (.leaf [4])) := by
  decide
-- cost: only the two path cells are hashed (the cached subtree at 2 costs nothing)
example : uncachedList hC 9 = [9, 8] := by decide
example : (merkleRoot toy hC 9).1.hashCalls = 3 + 2 := by decide
example : (merkleRoot toy hC 9).2 = [1, 2, 9, 4] := by decide

-- shared subtrees are hashed once: `pair x x` over a pair `x` costs 2, not 3
private def hD : Heap :=
  (alloc (ofNode Heap.empty (.pair (.leaf [1]) (.leaf [2]))).1 (.pair 2 2 none)).1
example : uncached hD 3 = 2 := by decide
example : (merkleRoot toy hD 3).1.hashCalls = 2 := by decide

-- expansion of a zero summary of height 2: per step one pair and one fresh zero leaf
private def hE : Heap :=
  (alloc (alloc Heap.empty (.leaf (zeroHash toy 2))).1 (.leaf [7])).1
example : ((setPathH toy true hE 0 [false, true] 1).map fun x => (x.1.cells.size, x.2))
    = some (6, 5) := by decide
example : (setPathH toy true hE 0 [false, true] 1).map (fun x => denote x.1 x.2)
    = some (.pair (.pair (zeroNode toy 0) (.leaf [7])) (zeroNode toy 1)) := by decide
example : setPathH toy false hE 0 [false, true] 1 = none := by decide

end Examples

end Rmk.HeapLaws
