/-
The stack-machine iterators `PackedIter` and `BitfieldIter` (Rmk/Impl/Iters.lean) agree with reading
by index (`SubtreeView.get` / `BitsView.get`), for every depth, length and element size; together
with `NodeIter` (Rmk/Proofs/NodeIter.lean) all read paths of a `Repr` tree agree (property C15).
Generic in the pair hash `H`.
-/
import Rmk.Impl.Iters
import Rmk.Proofs.NodeIter
import Rmk.Proofs.ReprBasics
namespace Rmk.ItersLaws
open Rmk Rmk.Impl Rmk.Spec
open Rmk.ChunkTreeLemmas Rmk.ReprBasics

/-! ## 0. helpers -/

theorem div_mod_of (per q j : Nat) (h : j < per) :
    (q * per + j) / per = q ∧ (q * per + j) % per = j := by
  have hper : 0 < per := by omega
  constructor
  · rw [Nat.mul_comm, Nat.mul_add_div hper, Nat.div_eq_of_lt h, Nat.add_zero]
  · rw [Nat.mul_comm, Nat.mul_add_mod, Nat.mod_eq_of_lt h]

/-- the shift/mask bit extraction of `BitfieldIter` is the div/mod one of `BitsView.get` -/
theorem bitfieldIterBit_eq (c : Chunk) (i j : Nat) (hi : i % 256 = j) :
    bitfieldIterBit c j = bitOfChunk c i := by
  unfold bitfieldIterBit bitOfChunk
  have h7 : j &&& 7 = j % 8 := Nat.and_two_pow_sub_one_eq_mod j 3
  have e8 : i % 8 = j % 8 := by omega
  simp only [Nat.shiftRight_eq_div_pow, h7, Nat.and_one_is_mod, hi, e8]

/-- the first bit of a freshly fetched chunk (`currentRoot[0] & 1`) -/
theorem firstBit_eq (c : Chunk) (i : Nat) (hi : i % 256 = 0) :
    (((c.getD 0 0).toNat &&& 1) == 1) = bitOfChunk c i := by
  unfold bitOfChunk
  have e8 : i % 8 = 0 := by omega
  simp only [Nat.and_one_is_mod, hi, e8, Nat.zero_div, Nat.pow_zero, Nat.div_one]

/-- a successful `allSome (l.map g)` lists the values of `g` -/
theorem allSome_map_getD {α β} (d : β) (g : α → Option β) (l : List α) (vs : List β)
    (h : allSome (l.map g) = some vs) :
    (∀ x ∈ l, g x = some ((g x).getD d)) ∧ vs = l.map fun x => (g x).getD d := by
  induction l generalizing vs with
  | nil =>
    simp [allSome] at h
    subst h
    exact ⟨by simp, rfl⟩
  | cons a l ih =>
    simp only [List.map_cons] at h
    cases hg : g a with
    | none => simp [hg, allSome] at h
    | some b =>
      simp only [hg, allSome] at h
      cases hr : allSome (l.map g) with
      | none => simp [hr] at h
      | some ws =>
        simp [hr] at h
        subst h
        obtain ⟨h1, h2⟩ := ih ws hr
        refine ⟨?_, ?_⟩
        · intro x hx
          rcases List.mem_cons.1 hx with rfl | hx
          · simp [hg]
          · exact h1 x hx
        · simp [hg, h2]

theorem allSome_map_some {α β} (f : α → β) (g : α → Option β) (l : List α)
    (h : ∀ x ∈ l, g x = some (f x)) : allSome (l.map g) = some (l.map f) := by
  induction l with
  | nil => rfl
  | cons a l ih =>
    simp only [List.map_cons, h a (by simp), allSome, ih (fun x hx => h x (by simp [hx]))]
    rfl

theorem range_map_getElem {β} (l : List β) (f : Nat → β) (h : ∀ i (hi : i < l.length), f i = l[i]) :
    (List.range l.length).map f = l := by
  apply List.ext_getElem
  · simp
  · intro i h1 h2
    simp only [List.getElem_map, List.getElem_range]
    exact h i h2

/-! ## 1. `PackedIter` -/

/-- Invariant of `PackedIter` between two `__next__` calls.  The stack/`rootIndex` pair is a `NodeIter`
    state; either a new chunk is needed (`j = per_node`, `i` is a multiple of `per_node` and
    `rootIndex` chunks have been consumed completely), or we are strictly inside chunk
    `rootIndex - 1`, which is the remembered `currentRoot`. -/
def PackedInv (anchor : Node) (depth per : Nat) (st : PackedIterState) : Prop :=
  NodeIterInv anchor depth { i := st.rootIndex, stack := st.stack } ∧
  ((st.j = per ∧ st.i = st.rootIndex * per) ∨
   (0 < st.j ∧ st.j < per ∧ ∃ q, st.rootIndex = q + 1 ∧ st.i = q * per + st.j ∧
      getAt anchor q depth = some st.currentRoot ∧ st.currentRoot.isLeaf = true))

theorem packedInv_init (anchor : Node) (depth per : Nat) (c : Node) :
    PackedInv anchor depth per
      { i := 0, j := per, rootIndex := 0, currentRoot := c, stack := List.replicate depth none } :=
  ⟨nodeIterInv_init anchor depth, .inl ⟨rfl, by simp⟩⟩

/-- One `__next__`: if reading element `i` by index succeeds (chunk `i / per` is reachable and is a
    leaf, slot `i % per` decodes to `v`), the iterator yields `v` and keeps the invariant. -/
theorem packedIterNext_spec (H : Hash) (et : Ty) (anchor : Node) (depth per : Nat) (hper : 0 < per)
    (st : PackedIterState) (v : Val) (hinv : PackedInv anchor depth per st)
    (hleaf : ∃ n, getAt anchor (st.i / per) depth = some n ∧ n.isLeaf = true)
    (hdec : ((getAt anchor (st.i / per) depth).bind fun c => readBasicAt H et c (st.i % per))
      = some v) :
    ∃ st', packedIterNext H et anchor depth per st = some (v, st') ∧ st'.i = st.i + 1 ∧
      PackedInv anchor depth per st' := by
  obtain ⟨i, j, rootIndex, cur, stack⟩ := st
  obtain ⟨hni, hcase⟩ := hinv
  simp only at hni hcase hleaf hdec ⊢
  rcases hcase with ⟨hj, hi⟩ | ⟨hj0, hjp, q, hr, hi, hcur, hcl⟩
  · -- a new chunk is needed: chunk number `rootIndex = i / per`, slot `0 = i % per`
    obtain ⟨n, hn, hl⟩ := hleaf
    have hdiv : i / per = rootIndex := by rw [hi, Nat.mul_div_cancel _ hper]
    have hmod : i % per = 0 := by rw [hi, Nat.mul_mod_left]
    rw [hdiv] at hn hdec
    rw [hn, hmod, Option.bind_some] at hdec
    obtain ⟨walk, hnext, hwi, hwinv⟩ := nodeIterNext_spec anchor depth ⟨rootIndex, stack⟩ n hni hn
    obtain ⟨wi, wstack⟩ := walk
    simp only at hwi
    subst hwi
    refine ⟨⟨i + 1, 1, rootIndex + 1, n, wstack⟩, ?_, rfl, hwinv, ?_⟩
    · simp only [packedIterNext, hj, Nat.lt_irrefl, if_false, hnext, hl, Bool.not_true,
        Bool.false_eq_true, hdec]
    · by_cases hp1 : per = 1
      · exact .inl ⟨hp1.symm, by simp only [hi, hp1, Nat.mul_one]⟩
      · refine .inr ⟨?_, ?_, rootIndex, rfl, by simp only [hi], hn, hl⟩ <;> simp only <;> omega
  · -- strictly inside chunk `q = i / per`, slot `j = i % per`
    obtain ⟨hdiv, hmod⟩ := div_mod_of per q j hjp
    rw [← hi] at hdiv hmod
    rw [hdiv, hcur, hmod, Option.bind_some] at hdec
    refine ⟨⟨i + 1, j + 1, rootIndex, cur, stack⟩, ?_, rfl, hni, ?_⟩
    · simp only [packedIterNext, hjp, if_true, hdec]
    · by_cases hlast : j + 1 = per
      · refine .inl ⟨hlast, ?_⟩
        simp only [hr, hi, Nat.succ_mul]
        omega
      · refine .inr ⟨?_, ?_, q, hr, by simp only [hi]; omega, hcur, hcl⟩ <;> simp only <;> omega

/-- The whole run from an invariant state: it yields the elements `i, i+1, …, length-1` read by
    index.  Any `fuel ≥ length - i` will do. -/
theorem packedIterRun_spec (H : Hash) (et : Ty) (anchor : Node) (depth per length : Nat)
    (hper : 0 < per) (f : Nat → Val) (fuel : Nat) (st : PackedIterState)
    (hinv : PackedInv anchor depth per st) (hfuel : length - st.i ≤ fuel)
    (hleaf : ∀ i, st.i ≤ i → i < length →
      ∃ n, getAt anchor (i / per) depth = some n ∧ n.isLeaf = true)
    (hdec : ∀ i, st.i ≤ i → i < length →
      ((getAt anchor (i / per) depth).bind fun c => readBasicAt H et c (i % per)) = some (f i)) :
    packedIterRun H et anchor depth per length fuel st
      = some ((List.range' st.i (length - st.i)).map f) := by
  induction fuel generalizing st with
  | zero =>
    have : length - st.i = 0 := by omega
    simp [packedIterRun, this]
  | succ fuel ih =>
    by_cases hstop : st.i ≥ length
    · have : length - st.i = 0 := by omega
      simp [packedIterRun, hstop, this]
    · obtain ⟨st', hnext, hi', hinv'⟩ := packedIterNext_spec H et anchor depth per hper st (f st.i)
        hinv (hleaf st.i (Nat.le_refl _) (by omega)) (hdec st.i (Nat.le_refl _) (by omega))
      have hrest := ih st' hinv' (by omega)
        (fun i h1 h2 => hleaf i (by omega) h2) (fun i h1 h2 => hdec i (by omega) h2)
      have hsplit : length - st.i = (length - st'.i) + 1 := by omega
      simp only [packedIterRun, hstop, if_false, hnext, hrest, Option.map_some]
      rw [hsplit, List.range'_succ, hi']
      rfl

theorem packedIterNext_i (H : Hash) (et : Ty) (anchor : Node) (depth per : Nat)
    (s : PackedIterState) (v : Val) (s' : PackedIterState)
    (h : packedIterNext H et anchor depth per s = some (v, s')) : s'.i = s.i + 1 := by
  unfold packedIterNext at h
  split at h
  · split at h
    · cases h
    · cases h; rfl
  · split at h
    · cases h
    · split at h
      · cases h
      · split at h
        · cases h
        · cases h; rfl

/-- the `fuel` argument of the run is immaterial once it covers the remaining elements -/
theorem packedIterRun_fuel (H : Hash) (et : Ty) (anchor : Node) (depth per length : Nat)
    (fuel : Nat) (st : PackedIterState) (hfuel : length - st.i ≤ fuel) :
    packedIterRun H et anchor depth per length fuel st
      = packedIterRun H et anchor depth per length (length - st.i) st := by
  induction fuel generalizing st with
  | zero =>
    have : length - st.i = 0 := by omega
    rw [this]
  | succ fuel ih =>
    by_cases hstop : st.i ≥ length
    · have : length - st.i = 0 := by omega
      simp [packedIterRun, hstop, this]
    · obtain ⟨k, hk⟩ : ∃ k, length - st.i = k + 1 := ⟨length - st.i - 1, by omega⟩
      rw [hk]
      simp only [packedIterRun, hstop, if_false]
      cases hn : packedIterNext H et anchor depth per st with
      | none => rfl
      | some r =>
        obtain ⟨v, s'⟩ := r
        have := packedIterNext_i H et anchor depth per st v s' hn
        simp only
        rw [ih s' (by omega), show k = length - s'.i by omega]

/-- **1. `PackedIter` yields exactly what indexing yields.**  If every chunk `c < ⌈length / per⌉` is
    reachable by gindex and is a leaf, and every element decodes (`f i` is the result of
    `SubtreeView.get(i)`: chunk `i / per`, slot `i % per`), then the iterator yields
    `f 0, …, f (length-1)`, for EVERY depth, length and element size. -/
theorem packedIter_eq_index (H : Hash) (et : Ty) (anchor : Node) (depth length : Nat)
    (f : Nat → Val) (hsz : 0 < et.basicSize) (hsz32 : et.basicSize ≤ 32)
    (hlen : length ≤ 2 ^ depth * (32 / et.basicSize))
    (hleaf : ∀ c, c * (32 / et.basicSize) < length →
      ∃ n, getAt anchor c depth = some n ∧ n.isLeaf = true)
    (hdec : ∀ i, i < length →
      ((getAt anchor (i / (32 / et.basicSize)) depth).bind
        fun c => readBasicAt H et c (i % (32 / et.basicSize))) = some (f i)) :
    packedIter H et anchor depth length = some ((List.range length).map f) := by
  have hper : 0 < 32 / et.basicSize := Nat.div_pos hsz32 hsz
  unfold packedIter
  rw [if_neg (by omega)]
  simp only
  rw [if_neg (by omega)]
  have := packedIterRun_spec H et anchor depth (32 / et.basicSize) length hper f length _
    (packedInv_init anchor depth _ (.leaf zeroChunk)) (by simp)
    (fun i _ hi => hleaf _ (Nat.lt_of_le_of_lt (Nat.div_mul_le_self i _) hi))
    (fun i _ hi => hdec i hi)
  rw [this, List.range_eq_range']
  rfl

/-- the same with the expected list given as the result of the index loop of `readVal` -/
theorem packedIter_eq_allSome (H : Hash) (et : Ty) (anchor : Node) (depth length : Nat)
    (vs : List Val) (hsz : 0 < et.basicSize) (hsz32 : et.basicSize ≤ 32)
    (hlen : length ≤ 2 ^ depth * (32 / et.basicSize))
    (hleaf : ∀ c, c * (32 / et.basicSize) < length →
      ∃ n, getAt anchor c depth = some n ∧ n.isLeaf = true)
    (hread : allSome ((List.range length).map fun i =>
      (getAt anchor (i / (32 / et.basicSize)) depth).bind
        fun c => readBasicAt H et c (i % (32 / et.basicSize))) = some vs) :
    packedIter H et anchor depth length = some vs := by
  obtain ⟨h1, h2⟩ := allSome_map_getD (Val.num 0) _ _ vs hread
  rw [h2]
  exact packedIter_eq_index H et anchor depth length _ hsz hsz32 hlen hleaf
    (fun i hi => h1 i (by simpa using hi))

theorem packedIter_too_long (H : Hash) (et : Ty) (anchor : Node) (depth length : Nat)
    (h : 2 ^ depth * (32 / et.basicSize) < length) : packedIter H et anchor depth length = none := by
  unfold packedIter
  split
  · rfl
  · simp [h]

/-! ### converse: whatever `PackedIter` yields is what indexing yields -/

theorem packedIterNext_sound (H : Hash) (et : Ty) (anchor : Node) (depth per : Nat) (hper : 0 < per)
    (st : PackedIterState) (v : Val) (st' : PackedIterState)
    (hinv : PackedInv anchor depth per st) (hlt : st.i < 2 ^ depth * per)
    (h : packedIterNext H et anchor depth per st = some (v, st')) :
    (∃ n, getAt anchor (st.i / per) depth = some n ∧ n.isLeaf = true) ∧
    ((getAt anchor (st.i / per) depth).bind fun c => readBasicAt H et c (st.i % per)) = some v := by
  obtain ⟨i, j, rootIndex, cur, stack⟩ := st
  obtain ⟨hni, hcase⟩ := hinv
  simp only at hni hcase hlt ⊢
  rcases hcase with ⟨hj, hi⟩ | ⟨hj0, hjp, q, hr, hi, hcur, hcl⟩
  · have hdiv : i / per = rootIndex := by rw [hi, Nat.mul_div_cancel _ hper]
    have hmod : i % per = 0 := by rw [hi, Nat.mul_mod_left]
    have hrlt : rootIndex < 2 ^ depth := by
      rw [hi] at hlt; exact Nat.lt_of_mul_lt_mul_right hlt
    simp only [packedIterNext, hj, Nat.lt_irrefl, if_false] at h
    cases hnx : nodeIterNext anchor depth ⟨rootIndex, stack⟩ with
    | none => simp [hnx] at h
    | some r =>
      obtain ⟨node, walk⟩ := r
      simp only [hnx] at h
      have hg := nodeIterNext_sound anchor depth ⟨rootIndex, stack⟩ node walk hni hrlt hnx
      simp only at hg
      cases hl : node.isLeaf with
      | false => simp [hl] at h
      | true =>
        simp only [hl, Bool.not_true, Bool.false_eq_true, if_false] at h
        cases hd : readBasicAt H et node 0 with
        | none => simp [hd] at h
        | some el =>
          simp only [hd, Option.some.injEq, Prod.mk.injEq] at h
          obtain ⟨rfl, _⟩ := h
          rw [hdiv, hmod, hg]
          exact ⟨⟨node, rfl, hl⟩, by simpa using hd⟩
  · obtain ⟨hdiv, hmod⟩ := div_mod_of per q j hjp
    rw [← hi] at hdiv hmod
    simp only [packedIterNext, hjp, if_true] at h
    cases hd : readBasicAt H et cur j with
    | none => simp [hd] at h
    | some el =>
      simp only [hd, Option.some.injEq, Prod.mk.injEq] at h
      obtain ⟨rfl, _⟩ := h
      rw [hdiv, hmod, hcur]
      exact ⟨⟨cur, rfl, hcl⟩, by simpa using hd⟩

theorem packedIterRun_sound (H : Hash) (et : Ty) (anchor : Node) (depth per length : Nat)
    (hper : 0 < per) (hb : length ≤ 2 ^ depth * per) (fuel : Nat) (st : PackedIterState)
    (out : List Val) (hinv : PackedInv anchor depth per st) (hfuel : length - st.i ≤ fuel)
    (hrun : packedIterRun H et anchor depth per length fuel st = some out) :
    out.length = length - st.i ∧ ∀ i, st.i ≤ i → i < length →
      (∃ n, getAt anchor (i / per) depth = some n ∧ n.isLeaf = true) ∧
      ((getAt anchor (i / per) depth).bind fun c => readBasicAt H et c (i % per))
        = some (out.getD (i - st.i) (Val.num 0)) := by
  induction fuel generalizing st out with
  | zero =>
    simp [packedIterRun] at hrun
    subst hrun
    exact ⟨by simp; omega, fun i h1 h2 => by omega⟩
  | succ fuel ih =>
    by_cases hstop : st.i ≥ length
    · simp [packedIterRun, hstop] at hrun
      subst hrun
      exact ⟨by simp; omega, fun i h1 h2 => by omega⟩
    · simp only [packedIterRun, hstop, if_false] at hrun
      cases hnx : packedIterNext H et anchor depth per st with
      | none => simp [hnx] at hrun
      | some r =>
        obtain ⟨v, st'⟩ := r
        simp only [hnx] at hrun
        have hs := packedIterNext_sound H et anchor depth per hper st v st' hinv (by omega) hnx
        obtain ⟨st'', hnx', hi', hinv'⟩ :=
          packedIterNext_spec H et anchor depth per hper st v hinv hs.1 hs.2
        rw [hnx] at hnx'
        simp only [Option.some.injEq, Prod.mk.injEq, true_and] at hnx'
        subst hnx'
        cases hr : packedIterRun H et anchor depth per length fuel st' with
        | none => simp [hr] at hrun
        | some rest =>
          simp [hr] at hrun
          subst hrun
          obtain ⟨hl, hall⟩ := ih st' rest hinv' (by omega) hr
          refine ⟨by simp [hl]; omega, ?_⟩
          intro i h1 h2
          by_cases hEq : i = st.i
          · subst hEq
            simpa using hs
          · have := hall i (by omega) h2
            rw [show i - st.i = (i - st'.i) + 1 by omega]
            simpa using this

/-- **1'. converse of `packedIter_eq_index`**: if `PackedIter` does not raise, it yielded `length`
    elements, every chunk it visited is a reachable leaf, and every yielded element is what reading
    by index returns.  So the iterator succeeds iff all chunks are leaves and all indexed reads
    succeed, and then both give the same list. -/
theorem packedIter_some_index (H : Hash) (et : Ty) (anchor : Node) (depth length : Nat)
    (vs : List Val) (h : packedIter H et anchor depth length = some vs) :
    et.basicSize ≠ 0 ∧ length ≤ 2 ^ depth * (32 / et.basicSize) ∧ vs.length = length ∧
    (∀ c, c * (32 / et.basicSize) < length →
      ∃ n, getAt anchor c depth = some n ∧ n.isLeaf = true) ∧
    (∀ i, i < length →
      ((getAt anchor (i / (32 / et.basicSize)) depth).bind
        fun c => readBasicAt H et c (i % (32 / et.basicSize))) = some (vs.getD i (Val.num 0))) := by
  unfold packedIter at h
  split at h
  · cases h
  rename_i hsz
  simp only at h
  split at h
  · cases h
  rename_i hlim
  have hlen : length ≤ 2 ^ depth * (32 / et.basicSize) := by omega
  refine ⟨hsz, hlen, ?_⟩
  by_cases hper : 32 / et.basicSize = 0
  · have h0 : length = 0 := by
      have h2 := hlen
      rw [hper, Nat.mul_zero] at h2
      omega
    subst h0
    simp [packedIterRun] at h
    subst h
    exact ⟨rfl, fun c hc => by omega, fun i hi => by omega⟩
  · have hper' : 0 < 32 / et.basicSize := Nat.pos_of_ne_zero hper
    obtain ⟨hl, hall⟩ := packedIterRun_sound H et anchor depth _ length hper' hlen length _ vs
      (packedInv_init anchor depth _ (.leaf zeroChunk)) (by simp) h
    refine ⟨by simpa using hl, ?_, ?_⟩
    · intro c hc
      have := (hall (c * (32 / et.basicSize)) (by simp) hc).1
      rwa [Nat.mul_div_cancel _ hper'] at this
    · intro i hi
      simpa using (hall i (by simp) hi).2

/-! ## 2. `BitfieldIter` -/

/-- Invariant of `BitfieldIter`: `j = 0` means a new chunk is needed (`i` is a multiple of 256 and
    `rootIndex` chunks are consumed); otherwise `1 ≤ j ≤ 255` and `currentRoot` is the root of chunk
    `rootIndex - 1`. -/
def BitInv (H : Hash) (anchor : Node) (depth : Nat) (st : BitfieldIterState) : Prop :=
  NodeIterInv anchor depth { i := st.rootIndex, stack := st.stack } ∧
  ((st.j = 0 ∧ st.i = st.rootIndex * 256) ∨
   (0 < st.j ∧ st.j < 256 ∧ ∃ q n, st.rootIndex = q + 1 ∧ st.i = q * 256 + st.j ∧
      getAt anchor q depth = some n ∧ n.isLeaf = true ∧ n.root H = st.currentRoot))

theorem bitInv_init (H : Hash) (anchor : Node) (depth : Nat) (c : Chunk) :
    BitInv H anchor depth
      { i := 0, j := 0, rootIndex := 0, currentRoot := c, stack := List.replicate depth none } :=
  ⟨nodeIterInv_init anchor depth, .inl ⟨rfl, by simp⟩⟩

theorem bitfieldIterNext_spec (H : Hash) (anchor : Node) (depth : Nat) (st : BitfieldIterState)
    (n : Node) (hinv : BitInv H anchor depth st)
    (hget : getAt anchor (st.i / 256) depth = some n) (hleaf : n.isLeaf = true) :
    ∃ st', bitfieldIterNext H anchor depth st = some (bitOfChunk (n.root H) st.i, st') ∧
      st'.i = st.i + 1 ∧ BitInv H anchor depth st' := by
  obtain ⟨i, j, rootIndex, cur, stack⟩ := st
  obtain ⟨hni, hcase⟩ := hinv
  simp only at hni hcase hget ⊢
  rcases hcase with ⟨hj, hi⟩ | ⟨hj0, hjp, q, m, hr, hi, hcur, hml, hroot⟩
  · have hdiv : i / 256 = rootIndex := by omega
    have hmod : i % 256 = 0 := by omega
    rw [hdiv] at hget
    obtain ⟨walk, hnext, hwi, hwinv⟩ := nodeIterNext_spec anchor depth ⟨rootIndex, stack⟩ n hni hget
    obtain ⟨wi, wstack⟩ := walk
    simp only at hwi
    subst hwi
    refine ⟨⟨i + 1, 1, rootIndex + 1, n.root H, wstack⟩, ?_, rfl, hwinv, ?_⟩
    · simp only [bitfieldIterNext, hj, Nat.lt_irrefl, gt_iff_lt, if_false, hnext, hleaf,
        Bool.not_true, Bool.false_eq_true, firstBit_eq (n.root H) i hmod]
    · refine .inr ⟨?_, ?_, rootIndex, n, rfl, ?_, hget, hleaf, rfl⟩ <;> simp only <;> omega
  · have hdiv : i / 256 = q := by omega
    have hmod : i % 256 = j := by omega
    rw [hdiv, hcur] at hget
    cases hget
    refine ⟨⟨i + 1, if j + 1 > 0xff then 0 else j + 1, rootIndex, cur, stack⟩, ?_, rfl, hni, ?_⟩
    · simp only [bitfieldIterNext, gt_iff_lt, hj0, if_true, hroot,
        bitfieldIterBit_eq cur i j hmod]
    · by_cases hlast : j + 1 > 0xff
      · refine .inl ⟨?_, ?_⟩ <;> simp only [hlast, if_true] <;> omega
      · refine .inr ⟨?_, ?_, q, n, hr, ?_, hcur, hml, hroot⟩ <;> simp only [hlast, if_false] <;> omega

theorem bitfieldIterRun_spec (H : Hash) (anchor : Node) (depth length : Nat) (f : Nat → Bool)
    (fuel : Nat) (st : BitfieldIterState) (hinv : BitInv H anchor depth st)
    (hfuel : length - st.i ≤ fuel)
    (hdec : ∀ i, st.i ≤ i → i < length →
      ∃ n, getAt anchor (i / 256) depth = some n ∧ n.isLeaf = true ∧
        bitOfChunk (n.root H) i = f i) :
    bitfieldIterRun H anchor depth length fuel st
      = some ((List.range' st.i (length - st.i)).map f) := by
  induction fuel generalizing st with
  | zero =>
    have : length - st.i = 0 := by omega
    simp [bitfieldIterRun, this]
  | succ fuel ih =>
    by_cases hstop : st.i ≥ length
    · have : length - st.i = 0 := by omega
      simp [bitfieldIterRun, hstop, this]
    · obtain ⟨n, hn, hl, hb⟩ := hdec st.i (Nat.le_refl _) (by omega)
      obtain ⟨st', hnext, hi', hinv'⟩ := bitfieldIterNext_spec H anchor depth st n hinv hn hl
      have hrest := ih st' hinv' (by omega) (fun i h1 h2 => hdec i (by omega) h2)
      have hsplit : length - st.i = (length - st'.i) + 1 := by omega
      simp only [bitfieldIterRun, hstop, if_false, hnext, hrest, Option.map_some]
      rw [hsplit, List.range'_succ, hi', hb]
      rfl

theorem bitfieldIterNext_i (H : Hash) (anchor : Node) (depth : Nat)
    (s : BitfieldIterState) (b : Bool) (s' : BitfieldIterState)
    (h : bitfieldIterNext H anchor depth s = some (b, s')) : s'.i = s.i + 1 := by
  unfold bitfieldIterNext at h
  split at h
  · cases h; rfl
  · split at h
    · cases h
    · split at h
      · cases h
      · cases h; rfl

theorem bitfieldIterRun_fuel (H : Hash) (anchor : Node) (depth length : Nat)
    (fuel : Nat) (st : BitfieldIterState) (hfuel : length - st.i ≤ fuel) :
    bitfieldIterRun H anchor depth length fuel st
      = bitfieldIterRun H anchor depth length (length - st.i) st := by
  induction fuel generalizing st with
  | zero =>
    have : length - st.i = 0 := by omega
    rw [this]
  | succ fuel ih =>
    by_cases hstop : st.i ≥ length
    · have : length - st.i = 0 := by omega
      simp [bitfieldIterRun, hstop, this]
    · obtain ⟨k, hk⟩ : ∃ k, length - st.i = k + 1 := ⟨length - st.i - 1, by omega⟩
      rw [hk]
      simp only [bitfieldIterRun, hstop, if_false]
      cases hn : bitfieldIterNext H anchor depth st with
      | none => rfl
      | some r =>
        obtain ⟨v, s'⟩ := r
        have := bitfieldIterNext_i H anchor depth st v s' hn
        simp only
        rw [ih s' (by omega), show k = length - s'.i by omega]

/-- **2. `BitfieldIter` yields exactly what indexing yields.**  If every chunk `c < ⌈length / 256⌉`
    is reachable by gindex and is a leaf, the iterator yields bit `i` of chunk `i / 256` for
    `i = 0 … length-1` — what `BitsView.get(i)` returns — for EVERY depth and length. -/
theorem bitfieldIter_eq_index (H : Hash) (anchor : Node) (depth length : Nat) (f : Nat → Bool)
    (hlen : length ≤ 2 ^ depth * 256)
    (hleaf : ∀ c, c * 256 < length → ∃ n, getAt anchor c depth = some n ∧ n.isLeaf = true)
    (hdec : ∀ i, i < length →
      (getAt anchor (i / 256) depth).map (fun c => bitOfChunk (c.root H) i) = some (f i)) :
    bitfieldIter H anchor depth length = some ((List.range length).map f) := by
  unfold bitfieldIter
  simp only
  rw [if_neg (by omega)]
  have := bitfieldIterRun_spec H anchor depth length f length _
    (bitInv_init H anchor depth zeroChunk) (by simp)
    (fun i _ hi => by
      obtain ⟨n, hn, hl⟩ := hleaf (i / 256) (by omega)
      have := hdec i hi
      rw [hn, Option.map_some] at this
      exact ⟨n, hn, hl, Option.some.inj this⟩)
  rw [this, List.range_eq_range']
  rfl

/-- the same with the index loop of `readVal` (`Bitvector` / `Bitlist`) on the right-hand side:
    no decoding hypothesis is needed, a bit read cannot fail once the chunk is there -/
theorem bitfieldIter_eq_allSome (H : Hash) (anchor : Node) (depth length : Nat)
    (hlen : length ≤ 2 ^ depth * 256)
    (hleaf : ∀ c, c * 256 < length → ∃ n, getAt anchor c depth = some n ∧ n.isLeaf = true) :
    bitfieldIter H anchor depth length =
      allSome ((List.range length).map fun i =>
        (getAt anchor (i / 256) depth).map fun c => bitOfChunk (c.root H) i) := by
  have hdec : ∀ i, i < length →
      (getAt anchor (i / 256) depth).map (fun c => bitOfChunk (c.root H) i)
        = some (bitOfChunk (((getAt anchor (i / 256) depth).getD default).root H) i) := by
    intro i hi
    obtain ⟨n, hn, _⟩ := hleaf (i / 256) (by omega)
    simp [hn]
  rw [bitfieldIter_eq_index H anchor depth length _ hlen hleaf hdec,
    allSome_map_some _ _ _ (fun i hi => hdec i (by simpa using hi))]

theorem bitfieldIter_too_long (H : Hash) (anchor : Node) (depth length : Nat)
    (h : 2 ^ depth * 256 < length) : bitfieldIter H anchor depth length = none := by
  simp [bitfieldIter, h]

/-! ### converse: whatever `BitfieldIter` yields is what indexing yields -/

theorem bitfieldIterNext_sound (H : Hash) (anchor : Node) (depth : Nat)
    (st : BitfieldIterState) (b : Bool) (st' : BitfieldIterState)
    (hinv : BitInv H anchor depth st) (hlt : st.i < 2 ^ depth * 256)
    (h : bitfieldIterNext H anchor depth st = some (b, st')) :
    ∃ n, getAt anchor (st.i / 256) depth = some n ∧ n.isLeaf = true ∧
      bitOfChunk (n.root H) st.i = b := by
  obtain ⟨i, j, rootIndex, cur, stack⟩ := st
  obtain ⟨hni, hcase⟩ := hinv
  simp only at hni hcase hlt ⊢
  rcases hcase with ⟨hj, hi⟩ | ⟨hj0, hjp, q, m, hr, hi, hcur, hml, hroot⟩
  · have hdiv : i / 256 = rootIndex := by omega
    have hmod : i % 256 = 0 := by omega
    have hrlt : rootIndex < 2 ^ depth := by omega
    simp only [bitfieldIterNext, hj, Nat.lt_irrefl, gt_iff_lt, if_false] at h
    cases hnx : nodeIterNext anchor depth ⟨rootIndex, stack⟩ with
    | none => simp [hnx] at h
    | some r =>
      obtain ⟨node, walk⟩ := r
      simp only [hnx] at h
      have hg := nodeIterNext_sound anchor depth ⟨rootIndex, stack⟩ node walk hni hrlt hnx
      simp only at hg
      cases hl : node.isLeaf with
      | false => simp [hl] at h
      | true =>
        simp only [hl, Bool.not_true, Bool.false_eq_true, if_false, Option.some.injEq,
          Prod.mk.injEq] at h
        rw [hdiv]
        exact ⟨node, hg, hl, by rw [← firstBit_eq (node.root H) i hmod]; exact h.1⟩
  · have hdiv : i / 256 = q := by omega
    have hmod : i % 256 = j := by omega
    simp only [bitfieldIterNext, gt_iff_lt, hj0, if_true, Option.some.injEq, Prod.mk.injEq] at h
    rw [hdiv]
    exact ⟨m, hcur, hml, by rw [hroot, ← bitfieldIterBit_eq cur i j hmod]; exact h.1⟩

theorem bitfieldIterRun_sound (H : Hash) (anchor : Node) (depth length : Nat)
    (hb : length ≤ 2 ^ depth * 256) (fuel : Nat) (st : BitfieldIterState)
    (out : List Bool) (hinv : BitInv H anchor depth st) (hfuel : length - st.i ≤ fuel)
    (hrun : bitfieldIterRun H anchor depth length fuel st = some out) :
    out.length = length - st.i ∧ ∀ i, st.i ≤ i → i < length →
      ∃ n, getAt anchor (i / 256) depth = some n ∧ n.isLeaf = true ∧
        bitOfChunk (n.root H) i = out.getD (i - st.i) false := by
  induction fuel generalizing st out with
  | zero =>
    simp [bitfieldIterRun] at hrun
    subst hrun
    exact ⟨by simp; omega, fun i h1 h2 => by omega⟩
  | succ fuel ih =>
    by_cases hstop : st.i ≥ length
    · simp [bitfieldIterRun, hstop] at hrun
      subst hrun
      exact ⟨by simp; omega, fun i h1 h2 => by omega⟩
    · simp only [bitfieldIterRun, hstop, if_false] at hrun
      cases hnx : bitfieldIterNext H anchor depth st with
      | none => simp [hnx] at hrun
      | some r =>
        obtain ⟨v, st'⟩ := r
        simp only [hnx] at hrun
        obtain ⟨n, hn, hnl, hbit⟩ :=
          bitfieldIterNext_sound H anchor depth st v st' hinv (by omega) hnx
        obtain ⟨st'', hnx', hi', hinv'⟩ := bitfieldIterNext_spec H anchor depth st n hinv hn hnl
        rw [hnx] at hnx'
        simp only [Option.some.injEq, Prod.mk.injEq] at hnx'
        obtain ⟨_, rfl⟩ := hnx'
        cases hr : bitfieldIterRun H anchor depth length fuel st' with
        | none => simp [hr] at hrun
        | some rest =>
          simp [hr] at hrun
          subst hrun
          obtain ⟨hl, hall⟩ := ih st' rest hinv' (by omega) hr
          refine ⟨by simp [hl]; omega, ?_⟩
          intro i h1 h2
          by_cases hEq : i = st.i
          · subst hEq
            exact ⟨n, hn, hnl, by simpa using hbit⟩
          · have := hall i (by omega) h2
            rw [show i - st.i = (i - st'.i) + 1 by omega]
            simpa using this

/-- **2'. converse of `bitfieldIter_eq_index`**: if `BitfieldIter` does not raise, it yielded `length`
    bits, every chunk it visited is a reachable leaf, and every yielded bit is the bit indexing
    returns. -/
theorem bitfieldIter_some_index (H : Hash) (anchor : Node) (depth length : Nat)
    (bs : List Bool) (h : bitfieldIter H anchor depth length = some bs) :
    length ≤ 2 ^ depth * 256 ∧ bs.length = length ∧
    (∀ c, c * 256 < length → ∃ n, getAt anchor c depth = some n ∧ n.isLeaf = true) ∧
    (∀ i, i < length →
      (getAt anchor (i / 256) depth).map (fun c => bitOfChunk (c.root H) i)
        = some (bs.getD i false)) := by
  unfold bitfieldIter at h
  simp only at h
  split at h
  · cases h
  rename_i hlim
  have hlen : length ≤ 2 ^ depth * 256 := by omega
  obtain ⟨hl, hall⟩ := bitfieldIterRun_sound H anchor depth length hlen length _ bs
    (bitInv_init H anchor depth zeroChunk) (by simp) h
  refine ⟨hlen, by simpa using hl, ?_, ?_⟩
  · intro c hc
    obtain ⟨n, hn, hnl, _⟩ := hall (c * 256) (by simp) hc
    rw [Nat.mul_div_cancel _ (by decide)] at hn
    exact ⟨n, hn, hnl⟩
  · intro i hi
    obtain ⟨n, hn, _, hbit⟩ := hall i (by simp) hi
    rw [hn, Option.map_some, hbit]
    simp

/-- `BitfieldIter` succeeds exactly when every needed chunk is a reachable leaf -/
theorem bitfieldIter_isSome_iff (H : Hash) (anchor : Node) (depth length : Nat) :
    (bitfieldIter H anchor depth length).isSome ↔
      (length ≤ 2 ^ depth * 256 ∧
        ∀ c, c * 256 < length → ∃ n, getAt anchor c depth = some n ∧ n.isLeaf = true) := by
  constructor
  · intro h
    obtain ⟨bs, hbs⟩ := Option.isSome_iff_exists.1 h
    obtain ⟨h1, _, h3, _⟩ := bitfieldIter_some_index H anchor depth length bs hbs
    exact ⟨h1, h3⟩
  · rintro ⟨h1, h2⟩
    rw [bitfieldIter_eq_allSome H anchor depth length h1 h2]
    have hdec : ∀ i ∈ List.range length,
        (getAt anchor (i / 256) depth).map (fun c => bitOfChunk (c.root H) i)
          = some (bitOfChunk (((getAt anchor (i / 256) depth).getD default).root H) i) := by
      intro i hi
      obtain ⟨n, hn, _⟩ := h2 (i / 256) (by simp at hi; omega)
      simp [hn]
    rw [allSome_map_some _ _ _ hdec]
    rfl

/-! ## 3. packed sequences and bitfields of a `Repr` tree: iterator = content -/

theorem packed_facts (et : Ty) (hwf : et.wf = true) (hb : et.isBasic = true) (n : Nat) :
    0 < et.basicSize ∧ et.basicSize ≤ 32 ∧ n ≤ chunkLen et n * (32 / et.basicSize) ∧
      ∀ c, c * (32 / et.basicSize) < n → c < chunkLen et n := by
  have hs := basicSize_cases et hwf hb
  simp only [chunkLen, hb, if_true]
  rcases hs with h | h | h | h | h | h <;> rw [h] <;> refine ⟨by omega, by omega, by omega, ?_⟩ <;>
    intro c hc <;> omega

theorem getD_of_lt {α} (l : List α) (d : α) (i : Nat) (hi : i < l.length) : l.getD i d = l[i] := by
  simp [List.getD, List.getElem?_eq_getElem hi]

/-- `PackedIter` over any anchor through which the chunk tree `n` of a packed sequence `vs` is
    reached (the tree itself, or a node having it as left spine child) yields `vs`. -/
theorem packedIter_ct (H : Hash) (et : Ty) (vs : List Val) (d : Nat) (n : Node)
    (hwf : et.wf = true) (hb : et.isBasic = true) (hwt : ∀ v ∈ vs, WT et v = true)
    (hct : ChunkTree H d ((packInts et.basicSize (vs.map numOf)).map .leaf) n)
    (anchor : Node) (depth : Nat)
    (hanchor : ∀ c, c < 2 ^ d → getAt anchor c depth = getAt n c d) (hdepth : 2 ^ d ≤ 2 ^ depth) :
    packedIter H et anchor depth vs.length = some vs := by
  obtain ⟨hsz, hsz32, hcap, hchunk⟩ := packed_facts et hwf hb vs.length
  have hle := ct_length_le hct
  have hpl := packInts_length' et hwf hb (vs.map numOf)
  rw [List.length_map] at hpl
  rw [List.length_map, hpl] at hle
  have key := packedIter_eq_index H et anchor depth vs.length (fun i => vs.getD i (Val.num 0))
    hsz hsz32
    (Nat.le_trans hcap (Nat.mul_le_mul_right _ (Nat.le_trans hle hdepth)))
    (fun c hc => by
      have hc' := hchunk c hc
      have hc2 : c < ((packInts et.basicSize (vs.map numOf)).map Node.leaf).length := by
        rw [List.length_map, hpl]; exact hc'
      rw [hanchor c (by omega), ct_get hct hc2]
      exact ⟨_, rfl, by simp [Node.isLeaf]⟩)
    (fun i hi => by
      have := read_packed_elem H et vs d n hwf hb hwt hct i hi
      rw [hanchor _ this.2, this.1, getD_of_lt vs _ i hi])
  rw [key, range_map_getElem vs _ (fun i hi => getD_of_lt vs _ i hi)]

/-- `BitfieldIter` over any anchor through which the chunk tree of the bits `bs` is reached -/
theorem bitfieldIter_ct (H : Hash) (bs : List Bool) (d : Nat) (n : Node)
    (hct : ChunkTree H d ((packBits bs).map .leaf) n) (anchor : Node) (depth : Nat)
    (hanchor : ∀ c, c < 2 ^ d → getAt anchor c depth = getAt n c d) (hdepth : 2 ^ d ≤ 2 ^ depth) :
    bitfieldIter H anchor depth bs.length = some bs := by
  have hle := ct_length_le hct
  rw [List.length_map, packBits_length] at hle
  have key := bitfieldIter_eq_index H anchor depth bs.length (fun i => bs.getD i false)
    (by
      have : bs.length ≤ 2 ^ d * 256 := by omega
      exact Nat.le_trans this (Nat.mul_le_mul_right _ hdepth))
    (fun c hc => by
      have hc2 : c < ((packBits bs).map Node.leaf).length := by
        rw [List.length_map, packBits_length]; omega
      rw [hanchor c (by omega), ct_get hct hc2]
      exact ⟨_, rfl, by simp [Node.isLeaf]⟩)
    (fun i hi => by
      have := read_bit_elem H bs d n hct i hi
      rw [hanchor _ this.2, this.1, getD_of_lt bs _ i hi])
  rw [key, range_map_getElem bs _ (fun i hi => getD_of_lt bs _ i hi)]

/-- packed `Vector`: `readonly_iter()` = `PackedIter(backing, tree_depth, length, elem_type)` -/
theorem reads_agree_packed_vector (H : Hash) (et : Ty) (len : Nat) (vs : List Val) (n : Node)
    (hwf : et.wf = true) (hb : et.isBasic = true)
    (h : Impl.Repr H (.vector et len) (.seq vs) n) :
    packedIter H et n (getDepth (chunkLen et len)) len = some vs := by
  simp only [Impl.Repr, hb, if_true] at h
  obtain ⟨hlen, hwt, hct⟩ := h
  subst hlen
  exact packedIter_ct H et vs _ n hwf hb hwt hct n _ (fun _ _ => rfl) (Nat.le_refl _)

/-- packed `List`: the anchor is the WHOLE backing (contents + length mix-in) with
    `tree_depth() = contents_depth() + 1` -/
theorem reads_agree_packed_list (H : Hash) (et : Ty) (lim : Nat) (vs : List Val) (n : Node)
    (hwf : et.wf = true) (hb : et.isBasic = true)
    (h : Impl.Repr H (.list et lim) (.seq vs) n) :
    packedIter H et n (getDepth (chunkLen et lim) + 1) vs.length = some vs := by
  simp only [Impl.Repr, hb, if_true] at h
  obtain ⟨_, c, rfl, hwt, hct⟩ := h
  exact packedIter_ct H et vs _ c hwf hb hwt hct _ _
    (fun i hi => by rw [mixInNode, getAt_mixin _ _ hi])
    (Nat.pow_le_pow_right (by decide) (Nat.le_succ _))

/-- …with the length read from the tree, as `readonly_iter()` does (`self.length()`) -/
theorem reads_agree_packed_list_len (H : Hash) (et : Ty) (lim : Nat) (vs : List Val) (n : Node)
    (hwf : et.wf = true) (hb : et.isBasic = true) (hlim : lim < 2 ^ 256)
    (h : Impl.Repr H (.list et lim) (.seq vs) n) :
    ((listLength H n).bind fun len => packedIter H et n (getDepth (chunkLen et lim) + 1) len)
      = some vs := by
  have hit := reads_agree_packed_list H et lim vs n hwf hb h
  simp only [Impl.Repr] at h
  obtain ⟨hl, c, rfl, _⟩ := h
  rw [listLength_mixin H c _ (by omega : vs.length < 2 ^ 256)]
  exact hit

/-- **3a. packed sequences: all read paths agree.**  For a tree representing a packed vector / list
    `vs`, the iterator yields `vs`, and so does the index loop (`readVal`). -/
theorem reads_agree_packed (H : Hash) (et : Ty) (k : Nat) (vs : List Val) (n : Node)
    (hwf : et.wf = true) (hb : et.isBasic = true) :
    (Impl.Repr H (.vector et k) (.seq vs) n →
      packedIter H et n (getDepth (chunkLen et k)) k = some vs) ∧
    (Impl.Repr H (.list et k) (.seq vs) n →
      packedIter H et n (getDepth (chunkLen et k) + 1) vs.length = some vs) :=
  ⟨reads_agree_packed_vector H et k vs n hwf hb, reads_agree_packed_list H et k vs n hwf hb⟩

/-- `Bitvector.__iter__` = `BitfieldIter(backing, tree_depth, vector_length)` -/
theorem reads_agree_bits_vector (H : Hash) (len : Nat) (bs : List Bool) (n : Node)
    (h : Impl.Repr H (.bitvector len) (.bits bs) n) :
    bitfieldIter H n (getDepth ((len + 255) / 256)) len = some bs := by
  simp only [Impl.Repr] at h
  obtain ⟨hlen, hct⟩ := h
  subst hlen
  exact bitfieldIter_ct H bs _ n hct n _ (fun _ _ => rfl) (Nat.le_refl _)

/-- `Bitlist.__iter__` = `BitfieldIter(backing.get_left(), contents_depth, length)`: the anchor is the
    LEFT child (the contents), with the contents depth -/
theorem reads_agree_bits_list (H : Hash) (lim : Nat) (bs : List Bool) (n : Node)
    (h : Impl.Repr H (.bitlist lim) (.bits bs) n) :
    ((getLeft n).bind fun l => bitfieldIter H l (getDepth ((lim + 255) / 256)) bs.length)
      = some bs := by
  simp only [Impl.Repr] at h
  obtain ⟨_, c, rfl, hct⟩ := h
  simp only [mixInNode, getLeft, Option.bind_some]
  exact bitfieldIter_ct H bs _ c hct c _ (fun _ _ => rfl) (Nat.le_refl _)

/-- …with the length read from the tree (`self.length()`) -/
theorem reads_agree_bits_list_len (H : Hash) (lim : Nat) (bs : List Bool) (n : Node)
    (hlim : lim < 2 ^ 256) (h : Impl.Repr H (.bitlist lim) (.bits bs) n) :
    ((listLength H n).bind fun len => (getLeft n).bind fun l =>
      bitfieldIter H l (getDepth ((lim + 255) / 256)) len) = some bs := by
  have hit := reads_agree_bits_list H lim bs n h
  simp only [Impl.Repr] at h
  obtain ⟨hl, c, rfl, _⟩ := h
  rw [listLength_mixin H c _ (by omega : bs.length < 2 ^ 256)]
  exact hit

/-- **3b. bitfields: all read paths agree.** -/
theorem reads_agree_bits (H : Hash) (k : Nat) (bs : List Bool) (n : Node) :
    (Impl.Repr H (.bitvector k) (.bits bs) n →
      bitfieldIter H n (getDepth ((k + 255) / 256)) k = some bs) ∧
    (Impl.Repr H (.bitlist k) (.bits bs) n →
      ((getLeft n).bind fun l => bitfieldIter H l (getDepth ((k + 255) / 256)) bs.length)
        = some bs) :=
  ⟨reads_agree_bits_vector H k bs n, reads_agree_bits_list H k bs n⟩

/-- iterator and index loop coincide on represented packed vectors (both are the content) -/
theorem packedIter_eq_readVal_vector (H : Hash) (et : Ty) (len : Nat) (vs : List Val) (n : Node)
    (hwf : (Ty.vector et len).wf = true) (hlim : limitsOk (.vector et len) = true)
    (hb : et.isBasic = true) (h : Impl.Repr H (.vector et len) (.seq vs) n) :
    (packedIter H et n (getDepth (chunkLen et len)) len).map Val.seq
      = readVal H (.vector et len) n := by
  have hwf' : et.wf = true := by simp [Ty.wf] at hwf; exact hwf.2
  rw [reads_agree_packed_vector H et len vs n hwf' hb h, repr_read H _ _ n hwf hlim h]
  rfl

theorem bitfieldIter_eq_readVal_vector (H : Hash) (len : Nat) (bs : List Bool) (n : Node)
    (hwf : (Ty.bitvector len).wf = true) (h : Impl.Repr H (.bitvector len) (.bits bs) n) :
    (bitfieldIter H n (getDepth ((len + 255) / 256)) len).map Val.bits
      = readVal H (.bitvector len) n := by
  rw [reads_agree_bits_vector H len bs n h, repr_read H _ _ n hwf rfl h]
  rfl

/-! ## 4. unpacked sequences and containers: `NodeIter` yields the element nodes -/

/-- `NodeIter` over any anchor through which the chunk tree `n` with bottom nodes `ns` is reached -/
theorem nodeIter_ct (H : Hash) (d : Nat) (ns : List Node) (n : Node) (hct : ChunkTree H d ns n)
    (anchor : Node) (depth : Nat)
    (hanchor : ∀ c, c < 2 ^ d → getAt anchor c depth = getAt n c d) (hdepth : 2 ^ d ≤ 2 ^ depth) :
    nodeIter anchor depth ns.length = some ns := by
  have hle := ct_length_le hct
  apply nodeIter_eq_getAt anchor depth ns.length ns (by omega) _ rfl
  intro i hi
  rw [hanchor i (by omega), ct_get hct hi, getD_of_lt ns _ i hi]

theorem reprFields_get {H : Hash} : ∀ {fs : List Ty} {vs : List Val} {ns : List Node},
    ReprFields H fs vs ns → ∀ (i : Nat) (h1 : i < fs.length) (h2 : i < vs.length)
      (h3 : i < ns.length), Impl.Repr H fs[i] vs[i] ns[i]
  | [], [], [], _, i, h1, _, _ => by simp at h1
  | t :: ts, v :: vs, m :: ns, h, i, h1, h2, h3 => by
    simp only [ReprFields] at h
    cases i with
    | zero => exact h.1
    | succ i =>
      exact reprFields_get (fs := ts) (vs := vs) (ns := ns) h.2 i (by simpa using h1)
        (by simpa using h2) (by simpa using h3)
  | [], _ :: _, _, h, _, _, _, _ => by simp only [ReprFields] at h
  | [], [], _ :: _, h, _, _, _, _ => by simp only [ReprFields] at h
  | _ :: _, [], _, h, _, _, _, _ => by simp only [ReprFields] at h
  | _ :: _, _ :: _, [], h, _, _, _, _ => by simp only [ReprFields] at h

/-- unpacked `Vector`: `ComplexElemIter` / `ComplexFreshElemIter` = `NodeIter(backing, tree_depth,
    length)` + `view_from_backing` on every yielded node -/
theorem reads_agree_unpacked_vector (H : Hash) (et : Ty) (len : Nat) (vs : List Val) (n : Node)
    (hb : et.isBasic = false) (h : Impl.Repr H (.vector et len) (.seq vs) n) :
    ∃ ns, nodeIter n (getDepth (chunkLen et len)) len = some ns ∧
      AllRel (Impl.Repr H et) vs ns := by
  simp only [Impl.Repr, hb, Bool.false_eq_true, if_false] at h
  obtain ⟨hlen, ns, hall, hct⟩ := h
  refine ⟨ns, ?_, hall⟩
  have := nodeIter_ct H _ ns n hct n _ (fun _ _ => rfl) (Nat.le_refl _)
  rwa [← allRel_length hall, hlen] at this

/-- unpacked `List`: anchor = whole backing, depth = contents depth + 1 -/
theorem reads_agree_unpacked_list (H : Hash) (et : Ty) (lim : Nat) (vs : List Val) (n : Node)
    (hb : et.isBasic = false) (h : Impl.Repr H (.list et lim) (.seq vs) n) :
    ∃ ns, nodeIter n (getDepth (chunkLen et lim) + 1) vs.length = some ns ∧
      AllRel (Impl.Repr H et) vs ns := by
  simp only [Impl.Repr, hb, Bool.false_eq_true, if_false] at h
  obtain ⟨_, c, rfl, ns, hall, hct⟩ := h
  refine ⟨ns, ?_, hall⟩
  have := nodeIter_ct H _ ns c hct (mixInNode c vs.length) (getDepth (chunkLen et lim) + 1)
    (fun i hi => by rw [mixInNode, getAt_mixin _ _ hi])
    (Nat.pow_le_pow_right (by decide) (Nat.le_succ _))
  rwa [← allRel_length hall] at this

/-- `Container.__iter__` = `ContainerElemIter(backing, tree_depth, field types)` -/
theorem reads_agree_container (H : Hash) (fs : List Ty) (vs : List Val) (n : Node)
    (h : Impl.Repr H (.container fs) (.seq vs) n) :
    ∃ ns, nodeIter n (getDepth fs.length) fs.length = some ns ∧ ReprFields H fs vs ns := by
  simp only [Impl.Repr] at h
  obtain ⟨ns, hf, hct⟩ := h
  refine ⟨ns, ?_, hf⟩
  have := nodeIter_ct H _ ns n hct n _ (fun _ _ => rfl) (Nat.le_refl _)
  rwa [(reprFields_length hf).2] at this

/-- **4. unpacked sequences and containers: all read paths agree.**  The node iterator over a `Repr`
    tree yields, in order, nodes that represent the elements / fields. -/
theorem reads_agree_unpacked (H : Hash) (et : Ty) (k : Nat) (fs : List Ty) (vs : List Val) (n : Node)
    (hb : et.isBasic = false) :
    (Impl.Repr H (.vector et k) (.seq vs) n →
      ∃ ns, nodeIter n (getDepth (chunkLen et k)) k = some ns ∧ AllRel (Impl.Repr H et) vs ns) ∧
    (Impl.Repr H (.list et k) (.seq vs) n →
      ∃ ns, nodeIter n (getDepth (chunkLen et k) + 1) vs.length = some ns ∧
        AllRel (Impl.Repr H et) vs ns) ∧
    (Impl.Repr H (.container fs) (.seq vs) n →
      ∃ ns, nodeIter n (getDepth fs.length) fs.length = some ns ∧ ReprFields H fs vs ns) :=
  ⟨reads_agree_unpacked_vector H et k vs n hb, reads_agree_unpacked_list H et k vs n hb,
    reads_agree_container H fs vs n⟩

/-- reading every yielded element node through its own view (`view_from_backing` + full read) gives
    the elements back -/
theorem allRel_read (H : Hash) (et : Ty) (hwf : et.wf = true) (hlim : limitsOk et = true) :
    ∀ (vs : List Val) (ns : List Node), AllRel (Impl.Repr H et) vs ns →
      allSome (ns.map (readVal H et)) = some vs
  | [], [], _ => rfl
  | v :: vs, m :: ns, h => by
    simp only [List.map_cons, repr_read H et v m hwf hlim h.1, allSome,
      allRel_read H et hwf hlim vs ns h.2, Option.map_some]
  | [], _ :: _, h => by cases h
  | _ :: _, [], h => by cases h

/-- unpacked vector: iterate, then read each element = the content -/
theorem iter_then_read_vector (H : Hash) (et : Ty) (len : Nat) (vs : List Val) (n : Node)
    (hwf : et.wf = true) (hlim : limitsOk et = true) (hb : et.isBasic = false)
    (h : Impl.Repr H (.vector et len) (.seq vs) n) :
    ((nodeIter n (getDepth (chunkLen et len)) len).bind fun ns => allSome (ns.map (readVal H et)))
      = some vs := by
  obtain ⟨ns, hit, hall⟩ := reads_agree_unpacked_vector H et len vs n hb h
  rw [hit, Option.bind_some, allRel_read H et hwf hlim vs ns hall]

theorem iter_then_read_list (H : Hash) (et : Ty) (lim : Nat) (vs : List Val) (n : Node)
    (hwf : et.wf = true) (hlim : limitsOk et = true) (hb : et.isBasic = false)
    (h : Impl.Repr H (.list et lim) (.seq vs) n) :
    ((nodeIter n (getDepth (chunkLen et lim) + 1) vs.length).bind
      fun ns => allSome (ns.map (readVal H et))) = some vs := by
  obtain ⟨ns, hit, hall⟩ := reads_agree_unpacked_list H et lim vs n hb h
  rw [hit, Option.bind_some, allRel_read H et hwf hlim vs ns hall]

/-- container: the `i`-th yielded node, read as field type `i`, is field `i` -/
theorem iter_then_read_container (H : Hash) (fs : List Ty) (vs : List Val) (n : Node)
    (hwf : Ty.wfList fs = true) (hlim : limitsOkList fs = true)
    (h : Impl.Repr H (.container fs) (.seq vs) n) :
    ∃ ns, nodeIter n (getDepth fs.length) fs.length = some ns ∧ ns.length = fs.length ∧
      vs.length = fs.length ∧
      ∀ (i : Nat) (h1 : i < fs.length) (h2 : i < vs.length) (h3 : i < ns.length),
        readVal H fs[i] ns[i] = some vs[i] := by
  obtain ⟨ns, hit, hf⟩ := reads_agree_container H fs vs n h
  have hl := reprFields_length hf
  refine ⟨ns, hit, hl.2, hl.1, ?_⟩
  intro i h1 h2 h3
  have hr := reprFields_get hf i h1 h2 h3
  have hwfi : ∀ (fs : List Ty) (i : Nat) (h : i < fs.length), Ty.wfList fs = true →
      limitsOkList fs = true → fs[i].wf = true ∧ limitsOk fs[i] = true := by
    intro fs
    induction fs with
    | nil => intro i h; simp at h
    | cons t ts ih =>
      intro i h hw hl
      simp [Ty.wfList] at hw
      simp [limitsOkList] at hl
      cases i with
      | zero => exact ⟨hw.1, hl.1⟩
      | succ i => exact ih i (by simpa using h) hw.2 hl.2
  obtain ⟨w1, w2⟩ := hwfi fs i h1 hwf hlim
  exact repr_read H _ _ _ w1 w2 hr

/-! ## 5. non-vacuity: the state machines on concrete trees (any `H`) -/

/-- two chunks of `uint128` (2 per chunk), 3 elements, depth 1: crosses a chunk boundary -/
example (H : Hash) :
    packedIter H (.uint 16)
      (.pair (.leaf (toLE 16 5 ++ toLE 16 6)) (.leaf (toLE 16 7 ++ toLE 16 0))) 1 3
      = some [.num 5, .num 6, .num 7] := by rfl

/-- `per_node = 1` (`uint256`): `j = 1 = per_node` right after the fetch -/
example (H : Hash) :
    packedIter H (.uint 32) (.pair (.leaf (toLE 32 9)) (.leaf (toLE 32 8))) 1 2
      = some [.num 9, .num 8] := by rfl

/-- a bottom node that is not a leaf makes the iterator raise (indexing would hash it instead) -/
example (H : Hash) :
    packedIter H (.uint 32) (.pair (.leaf (toLE 32 9)) (.pair (.leaf []) (.leaf []))) 1 2 = none := by
  rfl

/-- the length check of `__init__` -/
example (H : Hash) (n : Node) : packedIter H (.uint 32) n 1 3 = none := by rfl

example (H : Hash) :
    bitfieldIter H (.leaf (UInt8.ofNat 5 :: zeros 31)) 0 4 = some [true, false, true, false] := by
  simp [bitfieldIter, bitfieldIterRun, bitfieldIterNext, bitfieldIterBit, nodeIterNext, descendLeft,
    Node.isLeaf, Node.root]

end Rmk.ItersLaws
