/-
The stack-machine iterators `PackedIter` and `BitfieldIter` (Rmk/Impl/Iters.lean) agree with reading
by index (`SubtreeView.get` / `BitsView.get`), for every depth, length and element size; together
with `NodeIter` (Rmk/Proofs/NodeIter.lean) all read paths of a `Repr` tree agree (property C15).
Generic in the pair hash `H`.
-/
import Rmk.Impl.Iters
import Rmk.Proofs.NodeIter
import Rmk.Proofs.ReprBasics
namespace Rmk.ItersLaws
open Rmk Rmk.Impl Rmk.Spec
open Rmk.ChunkTreeLemmas Rmk.ReprBasics

/-! ## 0. helpers -/

theorem div_mod_of (per q j : Nat) (h : j < per) :
    (q * per + j) / per = q ∧ (q * per + j) % per = j := by
  have hper : 0 < per := by omega
  constructor
  · rw [Nat.mul_comm, Nat.mul_add_div hper, Nat.div_eq_of_lt h, Nat.add_zero]
  · rw [Nat.mul_comm, Nat.mul_add_mod, Nat.mod_eq_of_lt h]

theorem div_mul_le_self' (i per : Nat) : i / per * per ≤ i := Nat.div_mul_le_self i per

/-- the shift/mask bit extraction of `BitfieldIter` is the div/mod one of `BitsView.get` -/
theorem bitfieldIterBit_eq (c : Chunk) (i j : Nat) (hi : i % 256 = j) :
    bitfieldIterBit c j = bitOfChunk c i := by
  unfold bitfieldIterBit bitOfChunk
  have h7 : j &&& 7 = j % 8 := Nat.and_two_pow_sub_one_eq_mod j 3
  have e8 : i % 8 = j % 8 := by omega
  simp only [Nat.shiftRight_eq_div_pow, h7, Nat.and_one_is_mod, hi, e8]

/-- the first bit of a freshly fetched chunk (`currentRoot[0] & 1`) -/
theorem firstBit_eq (c : Chunk) (i : Nat) (hi : i % 256 = 0) :
    (((c.getD 0 0).toNat &&& 1) == 1) = bitOfChunk c i := by
  unfold bitOfChunk
  have e8 : i % 8 = 0 := by omega
  simp only [Nat.and_one_is_mod, hi, e8, Nat.zero_div, Nat.pow_zero, Nat.div_one]

/-- a successful `allSome (l.map g)` lists the values of `g` -/
theorem allSome_map_getD {α β} (d : β) (g : α → Option β) (l : List α) (vs : List β)
    (h : allSome (l.map g) = some vs) :
    (∀ x ∈ l, g x = some ((g x).getD d)) ∧ vs = l.map fun x => (g x).getD d := by
  induction l generalizing vs with
  | nil =>
    simp [allSome] at h
    subst h
    exact ⟨by simp, rfl⟩
  | cons a l ih =>
    simp only [List.map_cons] at h
    cases hg : g a with
    | none => simp [hg, allSome] at h
    | some b =>
      simp only [hg, allSome] at h
      cases hr : allSome (l.map g) with
      | none => simp [hr] at h
      | some ws =>
        simp [hr] at h
        subst h
        obtain ⟨h1, h2⟩ := ih ws hr
        refine ⟨?_, ?_⟩
        · intro x hx
          rcases List.mem_cons.1 hx with rfl | hx
          · simp [hg]
          · exact h1 x hx
        · simp [hg, h2]

theorem allSome_map_some {α β} (f : α → β) (g : α → Option β) (l : List α)
    (h : ∀ x ∈ l, g x = some (f x)) : allSome (l.map g) = some (l.map f) := by
  induction l with
  | nil => rfl
  | cons a l ih =>
    simp only [List.map_cons, h a (by simp), allSome, ih (fun x hx => h x (by simp [hx]))]
    rfl

theorem range_map_getElem {β} (l : List β) (f : Nat → β) (h : ∀ i (hi : i < l.length), f i = l[i]) :
    (List.range l.length).map f = l := by
  apply List.ext_getElem
  · simp
  · intro i h1 h2
    simp only [List.getElem_map, List.getElem_range]
    exact h i h2

/-! ## 1. `PackedIter` -/

/-- Invariant of `PackedIter` between two `__next__` calls.  The stack/`rootIndex` pair is a `NodeIter`
    state; either a new chunk is needed (`j = per_node`, `i` is a multiple of `per_node` and
    `rootIndex` chunks have been consumed completely), or we are strictly inside chunk
    `rootIndex - 1`, which is the remembered `currentRoot`. -/
def PackedInv (anchor : Node) (depth per : Nat) (st : PackedIterState) : Prop :=
  NodeIterInv anchor depth { i := st.rootIndex, stack := st.stack } ∧
  ((st.j = per ∧ st.i = st.rootIndex * per) ∨
   (0 < st.j ∧ st.j < per ∧ ∃ q, st.rootIndex = q + 1 ∧ st.i = q * per + st.j ∧
      getAt anchor q depth = some st.currentRoot))

theorem packedInv_init (anchor : Node) (depth per : Nat) (c : Node) :
    PackedInv anchor depth per
      { i := 0, j := per, rootIndex := 0, currentRoot := c, stack := List.replicate depth none } :=
  ⟨nodeIterInv_init anchor depth, .inl ⟨rfl, by simp⟩⟩

/-- One `__next__`: if reading element `i` by index succeeds (chunk `i / per` is reachable and is a
    leaf, slot `i % per` decodes to `v`), the iterator yields `v` and keeps the invariant. -/
theorem packedIterNext_spec (H : Hash) (et : Ty) (anchor : Node) (depth per : Nat) (hper : 0 < per)
    (st : PackedIterState) (v : Val) (hinv : PackedInv anchor depth per st)
    (hleaf : ∃ n, getAt anchor (st.i / per) depth = some n ∧ n.isLeaf = true)
    (hdec : ((getAt anchor (st.i / per) depth).bind fun c => readBasicAt H et c (st.i % per))
      = some v) :
    ∃ st', packedIterNext H et anchor depth per st = some (v, st') ∧ st'.i = st.i + 1 ∧
      PackedInv anchor depth per st' := by
  obtain ⟨i, j, rootIndex, cur, stack⟩ := st
  obtain ⟨hni, hcase⟩ := hinv
  simp only at hni hcase hleaf hdec ⊢
  rcases hcase with ⟨hj, hi⟩ | ⟨hj0, hjp, q, hr, hi, hcur⟩
  · -- a new chunk is needed: chunk number `rootIndex = i / per`, slot `0 = i % per`
    obtain ⟨n, hn, hl⟩ := hleaf
    have hdiv : i / per = rootIndex := by rw [hi, Nat.mul_div_cancel _ hper]
    have hmod : i % per = 0 := by rw [hi, Nat.mul_mod_left]
    rw [hdiv] at hn hdec
    rw [hn, hmod, Option.bind_some] at hdec
    obtain ⟨walk, hnext, hwi, hwinv⟩ := nodeIterNext_spec anchor depth ⟨rootIndex, stack⟩ n hni hn
    obtain ⟨wi, wstack⟩ := walk
    simp only at hwi
    subst hwi
    refine ⟨⟨i + 1, 1, rootIndex + 1, n, wstack⟩, ?_, rfl, hwinv, ?_⟩
    · simp only [packedIterNext, hj, Nat.lt_irrefl, if_false, hnext, hl, Bool.not_true,
        Bool.false_eq_true, hdec]
    · by_cases hp1 : per = 1
      · exact .inl ⟨hp1.symm, by simp only [hi, hp1, Nat.mul_one]⟩
      · exact .inr ⟨by omega, by omega, rootIndex, rfl, by simp only [hi], hn⟩
  · -- strictly inside chunk `q = i / per`, slot `j = i % per`
    obtain ⟨hdiv, hmod⟩ := div_mod_of per q j hjp
    rw [← hi] at hdiv hmod
    rw [hdiv, hcur, hmod, Option.bind_some] at hdec
    refine ⟨⟨i + 1, j + 1, rootIndex, cur, stack⟩, ?_, rfl, hni, ?_⟩
    · simp only [packedIterNext, hjp, if_true, hdec]
    · by_cases hlast : j + 1 = per
      · refine .inl ⟨hlast, ?_⟩
        simp only [hr, hi, Nat.succ_mul]
        omega
      · exact .inr ⟨by omega, by omega, q, hr, by simp only [hi]; omega, hcur⟩

/-- The whole run from an invariant state: it yields the elements `i, i+1, …, length-1` read by
    index.  Any `fuel ≥ length - i` will do. -/
theorem packedIterRun_spec (H : Hash) (et : Ty) (anchor : Node) (depth per length : Nat)
    (hper : 0 < per) (f : Nat → Val) (fuel : Nat) (st : PackedIterState)
    (hinv : PackedInv anchor depth per st) (hfuel : length - st.i ≤ fuel)
    (hleaf : ∀ i, st.i ≤ i → i < length →
      ∃ n, getAt anchor (i / per) depth = some n ∧ n.isLeaf = true)
    (hdec : ∀ i, st.i ≤ i → i < length →
      ((getAt anchor (i / per) depth).bind fun c => readBasicAt H et c (i % per)) = some (f i)) :
    packedIterRun H et anchor depth per length fuel st
      = some ((List.range' st.i (length - st.i)).map f) := by
  induction fuel generalizing st with
  | zero =>
    have : length - st.i = 0 := by omega
    simp [packedIterRun, this]
  | succ fuel ih =>
    by_cases hstop : st.i ≥ length
    · have : length - st.i = 0 := by omega
      simp [packedIterRun, hstop, this]
    · obtain ⟨st', hnext, hi', hinv'⟩ := packedIterNext_spec H et anchor depth per hper st (f st.i)
        hinv (hleaf st.i (Nat.le_refl _) (by omega)) (hdec st.i (Nat.le_refl _) (by omega))
      have hrest := ih st' hinv' (by omega)
        (fun i h1 h2 => hleaf i (by omega) h2) (fun i h1 h2 => hdec i (by omega) h2)
      have hsplit : length - st.i = (length - st'.i) + 1 := by omega
      simp only [packedIterRun, hstop, if_false, hnext, hrest, Option.map_some]
      rw [hsplit, List.range'_succ, hi']
      rfl

/-- the `fuel` argument of the run is immaterial once it covers the remaining elements -/
theorem packedIterRun_fuel (H : Hash) (et : Ty) (anchor : Node) (depth per length : Nat)
    (fuel : Nat) (st : PackedIterState) (hfuel : length - st.i ≤ fuel)
    (hstep : ∀ s v s', packedIterNext H et anchor depth per s = some (v, s') → s'.i = s.i + 1) :
    packedIterRun H et anchor depth per length fuel st
      = packedIterRun H et anchor depth per length (length - st.i) st := by
  induction fuel generalizing st with
  | zero =>
    have : length - st.i = 0 := by omega
    rw [this]
  | succ fuel ih =>
    by_cases hstop : st.i ≥ length
    · have : length - st.i = 0 := by omega
      simp [packedIterRun, hstop, this]
    · obtain ⟨k, hk⟩ : ∃ k, length - st.i = k + 1 := ⟨length - st.i - 1, by omega⟩
      rw [hk]
      simp only [packedIterRun, hstop, if_false]
      cases hn : packedIterNext H et anchor depth per st with
      | none => rfl
      | some r =>
        obtain ⟨v, s'⟩ := r
        have := hstep st v s' hn
        simp only
        rw [ih s' (by omega), show k = length - s'.i by omega]

theorem packedIterNext_i (H : Hash) (et : Ty) (anchor : Node) (depth per : Nat)
    (s : PackedIterState) (v : Val) (s' : PackedIterState)
    (h : packedIterNext H et anchor depth per s = some (v, s')) : s'.i = s.i + 1 := by
  unfold packedIterNext at h
  split at h
  · split at h
    · cases h
    · cases h; rfl
  · split at h
    · cases h
    · split at h
      · cases h
      · split at h
        · cases h
        · cases h; rfl

/-- **1. `PackedIter` yields exactly what indexing yields.**  If every chunk `c < ⌈length / per⌉` is
    reachable by gindex and is a leaf, and every element decodes (`f i` is the result of
    `SubtreeView.get(i)`: chunk `i / per`, slot `i % per`), then the iterator yields
    `f 0, …, f (length-1)`, for EVERY depth, length and element size. -/
theorem packedIter_eq_index (H : Hash) (et : Ty) (anchor : Node) (depth length : Nat)
    (f : Nat → Val) (hsz : 0 < et.basicSize) (hsz32 : et.basicSize ≤ 32)
    (hlen : length ≤ 2 ^ depth * (32 / et.basicSize))
    (hleaf : ∀ c, c * (32 / et.basicSize) < length →
      ∃ n, getAt anchor c depth = some n ∧ n.isLeaf = true)
    (hdec : ∀ i, i < length →
      ((getAt anchor (i / (32 / et.basicSize)) depth).bind
        fun c => readBasicAt H et c (i % (32 / et.basicSize))) = some (f i)) :
    packedIter H et anchor depth length = some ((List.range length).map f) := by
  have hper : 0 < 32 / et.basicSize := Nat.div_pos hsz32 hsz
  unfold packedIter
  rw [if_neg (by omega)]
  simp only
  rw [if_neg (by omega)]
  have := packedIterRun_spec H et anchor depth (32 / et.basicSize) length hper f length _
    (packedInv_init anchor depth _ (.leaf zeroChunk)) (by simp)
    (fun i _ hi => hleaf _ (Nat.lt_of_le_of_lt (Nat.div_mul_le_self i _) hi))
    (fun i _ hi => hdec i hi)
  rw [this, List.range_eq_range']
  rfl

/-- the same with the expected list given as the result of the index loop of `readVal` -/
theorem packedIter_eq_allSome (H : Hash) (et : Ty) (anchor : Node) (depth length : Nat)
    (vs : List Val) (hsz : 0 < et.basicSize) (hsz32 : et.basicSize ≤ 32)
    (hlen : length ≤ 2 ^ depth * (32 / et.basicSize))
    (hleaf : ∀ c, c * (32 / et.basicSize) < length →
      ∃ n, getAt anchor c depth = some n ∧ n.isLeaf = true)
    (hread : allSome ((List.range length).map fun i =>
      (getAt anchor (i / (32 / et.basicSize)) depth).bind
        fun c => readBasicAt H et c (i % (32 / et.basicSize))) = some vs) :
    packedIter H et anchor depth length = some vs := by
  obtain ⟨h1, h2⟩ := allSome_map_getD (Val.num 0) _ _ vs hread
  rw [h2]
  exact packedIter_eq_index H et anchor depth length _ hsz hsz32 hlen hleaf
    (fun i hi => h1 i (by simpa using hi))

theorem packedIter_too_long (H : Hash) (et : Ty) (anchor : Node) (depth length : Nat)
    (h : 2 ^ depth * (32 / et.basicSize) < length) : packedIter H et anchor depth length = none := by
  unfold packedIter
  split
  · rfl
  · simp [h]

end Rmk.ItersLaws
