/-
Leftovers of C18 and C12.

1. (C18) `getDiffPos` lists the differing pairs strictly LEFT TO RIGHT (`getDiffPos_sorted`), hence
   the positions are distinct and none is a prefix of another; the report is COMPLETE
   (`getDiffPos_complete`) and MINIMAL (`getDiffPos_ancestors_differ`); together:
   `mem_getDiffPos_iff`.
2. (C12) omitted container fields take their defaults (`constructPartial`, `containerPartial_repr`,
   `containerPartial_root_eq_explicit`, `containerPartial_spec`).
-/
import Rmk.Proofs.DiffHistory
import Rmk.Proofs.ReprBasics
namespace Rmk.Leftovers
open Rmk Rmk.Impl Rmk.Spec

/-! ## 1. order, completeness and minimality of the tree diff -/

/-! ### unfolding lemmas for `getDiffPos` -/

theorem getDiffPos_of_leaf (H : Hash) (a b : Node) (h : a.isLeaf = true ∨ b.isLeaf = true) :
    getDiffPos H a b = if a.root H != b.root H then [([], a, b)] else [] := by
  cases a with
  | leaf c => rw [getDiffPos]; intro _ _ _ _ h1; cases h1
  | pair al ar =>
    cases b with
    | leaf c => rw [getDiffPos]; intro _ _ _ _ h1 h2; cases h2
    | pair bl br => simp [Node.isLeaf] at h

theorem getDiffPos_pair_eq (H : Hash) (al ar bl br : Node)
    (h : (Node.pair al ar).root H = (Node.pair bl br).root H) :
    getDiffPos H (.pair al ar) (.pair bl br) = [] := by
  rw [getDiffPos]; simp [h]

theorem getDiffPos_pair_ne (H : Hash) (al ar bl br : Node)
    (h : (Node.pair al ar).root H ≠ (Node.pair bl br).root H) :
    getDiffPos H (.pair al ar) (.pair bl br) =
      (getDiffPos H al bl).map (fun d => (false :: d.1, d.2.1, d.2.2)) ++
      (getDiffPos H ar br).map (fun d => (true :: d.1, d.2.1, d.2.2)) := by
  have hne : ((Node.pair al ar).root H != (Node.pair bl br).root H) = true := by simpa using h
  rw [getDiffPos, if_pos hne]

/-! ### facts about `leftOf` -/

theorem leftOf_cons_cons (a b : Bool) (p q : List Bool) :
    leftOf (a :: p) (b :: q) ↔ (a = false ∧ b = true) ∨ (a = b ∧ leftOf p q) := by
  simp [leftOf]

theorem not_leftOf_nil_left (q : List Bool) : ¬ leftOf [] q := by
  cases q <;> simp [leftOf]

theorem not_leftOf_nil_right (p : List Bool) : ¬ leftOf p [] := by
  cases p <;> simp [leftOf]

/-- paths related by `leftOf` diverge: neither is a prefix of the other -/
theorem leftOf_not_prefix {p q : List Bool} (h : leftOf p q) : ¬ p <+: q ∧ ¬ q <+: p := by
  induction p generalizing q with
  | nil => exact absurd h (not_leftOf_nil_left q)
  | cons a p ih =>
    cases q with
    | nil => exact absurd h (not_leftOf_nil_right _)
    | cons b q =>
      rw [leftOf_cons_cons] at h
      rw [List.cons_prefix_cons, List.cons_prefix_cons]
      rcases h with ⟨rfl, rfl⟩ | ⟨rfl, h⟩
      · simp
      · have := ih h
        exact ⟨fun hh => this.1 hh.2, fun hh => this.2 hh.2⟩

theorem leftOf_ne {p q : List Bool} (h : leftOf p q) : p ≠ q := by
  intro he
  subst he
  exact (leftOf_not_prefix h).1 (List.prefix_refl _)

/-- `leftOf` is asymmetric -/
theorem leftOf_asymm {p q : List Bool} (h : leftOf p q) : ¬ leftOf q p := by
  induction p generalizing q with
  | nil => exact absurd h (not_leftOf_nil_left q)
  | cons a p ih =>
    cases q with
    | nil => exact absurd h (not_leftOf_nil_right _)
    | cons b q =>
      rw [leftOf_cons_cons] at h
      rw [leftOf_cons_cons]
      rcases h with ⟨rfl, rfl⟩ | ⟨rfl, h⟩
      · simp
      · intro hh
        rcases hh with ⟨h1, h2⟩ | ⟨_, hh⟩
        · rw [h1] at h2; cases h2
        · exact ih h hh

/-- any two members of a pairwise-related list are equal or related one way or the other -/
theorem pairwise_mem_cases {α} {R : α → α → Prop} {l : List α} (h : l.Pairwise R) :
    ∀ x ∈ l, ∀ y ∈ l, x = y ∨ R x y ∨ R y x := by
  induction l with
  | nil => intro x hx; cases hx
  | cons a l ih =>
    rw [List.pairwise_cons] at h
    intro x hx y hy
    rcases List.mem_cons.1 hx with rfl | hx' <;> rcases List.mem_cons.1 hy with rfl | hy'
    · exact .inl rfl
    · exact .inr (.inl (h.1 y hy'))
    · exact .inr (.inr (h.1 x hx'))
    · exact ih h.2 x hx' y hy'

/-! ### C18: the diff is listed left to right -/

theorem map_fst_map_cons (c : Bool) (l : List DiffEntry) :
    (l.map (fun d => ((c :: d.1, d.2.1, d.2.2) : DiffEntry))).map (·.1) = (l.map (·.1)).map (c :: ·) := by
  simp [List.map_map, Function.comp_def]

/-- `get_diff` reports the differing pairs strictly from left to right -/
theorem getDiffPos_sorted (H : Hash) (a b : Node) :
    ((getDiffPos H a b).map (·.1)).Pairwise leftOf := by
  induction a generalizing b with
  | leaf c =>
    rw [getDiffPos_of_leaf H _ _ (.inl rfl)]
    split <;> simp
  | pair al ar ihl ihr =>
    cases b with
    | leaf c =>
      rw [getDiffPos_of_leaf H _ _ (.inr rfl)]
      split <;> simp
    | pair bl br =>
      by_cases h : (Node.pair al ar).root H = (Node.pair bl br).root H
      · rw [getDiffPos_pair_eq H _ _ _ _ h]; simp
      · rw [getDiffPos_pair_ne H _ _ _ _ h, List.map_append, map_fst_map_cons, map_fst_map_cons,
          List.pairwise_append]
        refine ⟨?_, ?_, ?_⟩
        · rw [List.pairwise_map]
          exact (ihl bl).imp (fun h => (leftOf_cons_cons _ _ _ _).2 (.inr ⟨rfl, h⟩))
        · rw [List.pairwise_map]
          exact (ihr br).imp (fun h => (leftOf_cons_cons _ _ _ _).2 (.inr ⟨rfl, h⟩))
        · intro p hp q hq
          simp only [List.mem_map] at hp hq
          obtain ⟨p', _, rfl⟩ := hp
          obtain ⟨q', _, rfl⟩ := hq
          exact (leftOf_cons_cons _ _ _ _).2 (.inl ⟨rfl, rfl⟩)

/-- …hence every position is reported once -/
theorem getDiffPos_nodup (H : Hash) (a b : Node) : ((getDiffPos H a b).map (·.1)).Nodup :=
  (getDiffPos_sorted H a b).imp leftOf_ne

/-- …and no reported position is a prefix of another one: two reported entries whose positions are
    comparable are the same entry -/
theorem getDiffPos_prefix_eq (H : Hash) (a b : Node) (d1 d2 : DiffEntry)
    (h1 : d1 ∈ getDiffPos H a b) (h2 : d2 ∈ getDiffPos H a b) (hp : d1.1 <+: d2.1) : d1 = d2 := by
  have hpos : d1.1 = d2.1 := by
    rcases pairwise_mem_cases (getDiffPos_sorted H a b) d1.1 (List.mem_map.2 ⟨d1, h1, rfl⟩)
      d2.1 (List.mem_map.2 ⟨d2, h2, rfl⟩) with h | h | h
    · exact h
    · exact absurd hp (leftOf_not_prefix h).1
    · exact absurd hp (leftOf_not_prefix h).2
  obtain ⟨p1, x1, y1⟩ := d1
  obtain ⟨p2, x2, y2⟩ := d2
  simp only at hpos
  subst hpos
  obtain ⟨ha1, hb1, _, _⟩ := getDiffPos_sound H a b p1 x1 y1 h1
  obtain ⟨ha2, hb2, _, _⟩ := getDiffPos_sound H a b p1 x2 y2 h2
  rw [ha1] at ha2
  rw [hb1] at hb2
  cases ha2
  cases hb2
  rfl

/-! ### C18: completeness and minimality -/

/-- COMPLETENESS.  If the two trees have nodes `x`, `y` at the path `p`, and the roots of the two
    trees differ at `p` and at every prefix of `p` (hypothesis `hd`; for a collision-free hash it is
    enough that `x` and `y` differ, see `getDiffPos_complete_inj`), then some reported position is an
    extension of `p` — and it is `p` itself, reporting exactly `(x, y)`, when `x` or `y` is a leaf.
    (That all proper prefixes of `p` are pairs in both trees is implied by `ha`, `hb`.) -/
theorem getDiffPos_complete (H : Hash) (a b : Node) (p : List Bool) (x y : Node)
    (ha : getPath a p = some x) (hb : getPath b p = some y)
    (hd : ∀ q, q <+: p → ∀ u v, getPath a q = some u → getPath b q = some v → u.root H ≠ v.root H) :
    ∃ q x' y', (p ++ q, x', y') ∈ getDiffPos H a b ∧
      ((x.isLeaf = true ∨ y.isLeaf = true) → q = [] ∧ x' = x ∧ y' = y) := by
  induction p generalizing a b with
  | nil =>
    simp only [getPath_nil, Option.some.injEq] at ha hb
    subst ha; subst hb
    have hne : a.root H ≠ b.root H := hd [] (List.prefix_refl _) a b (getPath_nil a) (getPath_nil b)
    by_cases hl : a.isLeaf = true ∨ b.isLeaf = true
    · refine ⟨[], a, b, ?_, fun _ => ⟨rfl, rfl, rfl⟩⟩
      have hne' : (a.root H != b.root H) = true := by simpa using hne
      rw [getDiffPos_of_leaf H a b hl, if_pos hne']
      simp
    · obtain ⟨⟨q, x', y'⟩, hm⟩ := List.exists_mem_of_ne_nil _ (getDiffPos_nonempty_of_ne H a b hne)
      exact ⟨q, x', y', by simpa using hm, fun h => absurd h hl⟩
  | cons c cs ih =>
    cases a with
    | leaf _ => simp at ha
    | pair al ar =>
      cases b with
      | leaf _ => simp at hb
      | pair bl br =>
        have hne : (Node.pair al ar).root H ≠ (Node.pair bl br).root H :=
          hd [] (List.nil_prefix) _ _ (getPath_nil _) (getPath_nil _)
        rw [getDiffPos_pair_ne H _ _ _ _ hne]
        cases c with
        | false =>
          simp only [getPath_pair_cons, Bool.false_eq_true, if_false] at ha hb
          obtain ⟨q, x', y', hm, hl⟩ := ih al bl ha hb (fun q hq u v hu hv =>
            hd (false :: q) (List.cons_prefix_cons.2 ⟨rfl, hq⟩) u v (by simpa using hu) (by simpa using hv))
          exact ⟨q, x', y', List.mem_append_left _ (List.mem_map.2 ⟨(cs ++ q, x', y'), hm, rfl⟩), hl⟩
        | true =>
          simp only [getPath_pair_cons, if_true] at ha hb
          obtain ⟨q, x', y', hm, hl⟩ := ih ar br ha hb (fun q hq u v hu hv =>
            hd (true :: q) (List.cons_prefix_cons.2 ⟨rfl, hq⟩) u v (by simpa using hu) (by simpa using hv))
          exact ⟨q, x', y', List.mem_append_right _ (List.mem_map.2 ⟨(cs ++ q, x', y'), hm, rfl⟩), hl⟩

/-- with a collision-free hash, a difference at `p` shows at all prefixes of `p` -/
theorem prefixes_differ_of_inj (H : Hash) (hH : Injective2 H) (a b : Node) (p : List Bool) (x y : Node)
    (ha : getPath a p = some x) (hb : getPath b p = some y) (hne : x.root H ≠ y.root H) :
    ∀ q, q <+: p → ∀ u v, getPath a q = some u → getPath b q = some v → u.root H ≠ v.root H := by
  intro q hq u v hu hv heq
  obtain ⟨r, rfl⟩ := hq
  rw [getPath_append, hu] at ha
  rw [getPath_append, hv] at hb
  exact hne (root_getPath_of_root_eq H hH r u v x y heq ha hb)

/-- COMPLETENESS for a collision-free hash: every position where the trees differ is covered by a
    reported position (and reported itself, with its two nodes, when one of the nodes is a leaf) -/
theorem getDiffPos_complete_inj (H : Hash) (hH : Injective2 H) (a b : Node) (p : List Bool) (x y : Node)
    (ha : getPath a p = some x) (hb : getPath b p = some y) (hne : x.root H ≠ y.root H) :
    ∃ q x' y', (p ++ q, x', y') ∈ getDiffPos H a b ∧
      ((x.isLeaf = true ∨ y.isLeaf = true) → q = [] ∧ x' = x ∧ y' = y) :=
  getDiffPos_complete H a b p x y ha hb (prefixes_differ_of_inj H hH a b p x y ha hb hne)

/-- MINIMALITY.  At every prefix `q` of a reported position both trees have a node and the roots of
    these nodes differ; at every PROPER prefix both nodes are pairs (so only deepest differing
    pairs are reported). -/
theorem getDiffPos_ancestors_differ (H : Hash) (a b : Node) (p : List Bool) (x y : Node)
    (hm : (p, x, y) ∈ getDiffPos H a b) (q : List Bool) (hq : q <+: p) :
    ∃ u v, getPath a q = some u ∧ getPath b q = some v ∧ u.root H ≠ v.root H ∧
      (q ≠ p → u.isLeaf = false ∧ v.isLeaf = false) := by
  induction a generalizing b p q with
  | leaf c =>
    rw [getDiffPos_of_leaf H _ _ (.inl rfl)] at hm
    split at hm
    · rename_i h
      simp only [List.mem_singleton, Prod.mk.injEq] at hm
      obtain ⟨rfl, rfl, rfl⟩ := hm
      have : q = [] := List.prefix_nil.1 hq
      subst this
      exact ⟨_, _, getPath_nil _, getPath_nil _, by simpa using h, fun hh => absurd rfl hh⟩
    · simp at hm
  | pair al ar ihl ihr =>
    cases b with
    | leaf c =>
      rw [getDiffPos_of_leaf H _ _ (.inr rfl)] at hm
      split at hm
      · rename_i h
        simp only [List.mem_singleton, Prod.mk.injEq] at hm
        obtain ⟨rfl, rfl, rfl⟩ := hm
        have : q = [] := List.prefix_nil.1 hq
        subst this
        exact ⟨_, _, getPath_nil _, getPath_nil _, by simpa using h, fun hh => absurd rfl hh⟩
      · simp at hm
    | pair bl br =>
      by_cases h : (Node.pair al ar).root H = (Node.pair bl br).root H
      · rw [getDiffPos_pair_eq H _ _ _ _ h] at hm; simp at hm
      · rw [getDiffPos_pair_ne H _ _ _ _ h] at hm
        cases q with
        | nil =>
          exact ⟨_, _, getPath_nil _, getPath_nil _, h, fun _ => ⟨rfl, rfl⟩⟩
        | cons c' q' =>
          simp only [List.mem_append, List.mem_map] at hm
          rcases hm with ⟨⟨p', x', y'⟩, hp', heq⟩ | ⟨⟨p', x', y'⟩, hp', heq⟩
          · simp only [Prod.mk.injEq] at heq
            obtain ⟨rfl, rfl, rfl⟩ := heq
            rw [List.cons_prefix_cons] at hq
            obtain ⟨rfl, hq⟩ := hq
            obtain ⟨u, v, hu, hv, hne, hl⟩ := ihl bl p' hp' q' hq
            exact ⟨u, v, by simpa using hu, by simpa using hv, hne, fun hh => hl (fun e => hh (by rw [e]))⟩
          · simp only [Prod.mk.injEq] at heq
            obtain ⟨rfl, rfl, rfl⟩ := heq
            rw [List.cons_prefix_cons] at hq
            obtain ⟨rfl, hq⟩ := hq
            obtain ⟨u, v, hu, hv, hne, hl⟩ := ihr br p' hp' q' hq
            exact ⟨u, v, by simpa using hu, by simpa using hv, hne, fun hh => hl (fun e => hh (by rw [e]))⟩

/-- EXACT CHARACTERISATION of the report: `(p, x, y)` is reported iff `x`, `y` are the nodes at `p`,
    one of them is a leaf, and the roots differ at `p` and at all its prefixes. -/
theorem mem_getDiffPos_iff (H : Hash) (a b : Node) (p : List Bool) (x y : Node) :
    (p, x, y) ∈ getDiffPos H a b ↔
      getPath a p = some x ∧ getPath b p = some y ∧ (x.isLeaf = true ∨ y.isLeaf = true) ∧
      ∀ q, q <+: p → ∀ u v, getPath a q = some u → getPath b q = some v → u.root H ≠ v.root H := by
  constructor
  · intro hm
    obtain ⟨ha, hb, _, hl⟩ := getDiffPos_sound H a b p x y hm
    refine ⟨ha, hb, hl, ?_⟩
    intro q hq u v hu hv
    obtain ⟨u', v', hu', hv', hne, _⟩ := getDiffPos_ancestors_differ H a b p x y hm q hq
    rw [hu] at hu'; rw [hv] at hv'
    cases hu'; cases hv'
    exact hne
  · rintro ⟨ha, hb, hl, hd⟩
    obtain ⟨q, x', y', hm, hq⟩ := getDiffPos_complete H a b p x y ha hb hd
    obtain ⟨rfl, rfl, rfl⟩ := hq hl
    simpa using hm

/-- for a collision-free hash: `(p, x, y)` is reported iff `x`, `y` are the nodes at `p`, they
    differ, and one of them is a leaf -/
theorem mem_getDiffPos_iff_inj (H : Hash) (hH : Injective2 H) (a b : Node) (p : List Bool) (x y : Node) :
    (p, x, y) ∈ getDiffPos H a b ↔
      getPath a p = some x ∧ getPath b p = some y ∧ (x.isLeaf = true ∨ y.isLeaf = true) ∧
      x.root H ≠ y.root H := by
  rw [mem_getDiffPos_iff]
  constructor
  · rintro ⟨ha, hb, hl, hd⟩
    exact ⟨ha, hb, hl, hd p (List.prefix_refl _) x y ha hb⟩
  · rintro ⟨ha, hb, hl, hne⟩
    exact ⟨ha, hb, hl, prefixes_differ_of_inj H hH a b p x y ha hb hne⟩

/-! ## 2. C12: omitted container fields take their defaults

`Container(**kwargs)` uses `ftyp.default_node()` for every omitted field and the node of the coerced
value for every given one, then `subtree_fill_to_contents(nodes, tree_depth())`. -/

/-- node of one field: constructed from the given value, or the default node when omitted -/
def fieldNode (H : Hash) (t : Ty) : Option Val → Option Node
  | some v => Impl.construct H t v
  | none => Impl.defaultNode H t

/-- field nodes of `Container(**kwargs)`: `none` entries are the omitted fields -/
def constructPartial (H : Hash) : List Ty → List (Option Val) → Option (List Node)
  | [], [] => some []
  | t :: ts, ov :: ovs =>
    match fieldNode H t ov, constructPartial H ts ovs with
    | some n, some ns => some (n :: ns)
    | _, _ => none
  | _, _ => none

/-- the backing tree of `Container(**kwargs)` -/
def containerPartial (H : Hash) (fs : List Ty) (ovs : List (Option Val)) : Option Node :=
  match constructPartial H fs ovs with
  | none => none
  | some ns => fillToContents H ns (getDepth fs.length)

/-- the value denoted by a partial field assignment: omitted fields are the zero values -/
def fillDefaults : List Ty → List (Option Val) → List Val
  | t :: ts, ov :: ovs => ov.getD (zeroVal t) :: fillDefaults ts ovs
  | _, _ => []

/-- the given fields are well-typed (and there is one entry per field) -/
def WTpartial : List Ty → List (Option Val) → Prop
  | [], [] => True
  | t :: ts, ov :: ovs => (∀ v, ov = some v → WT t v = true) ∧ WTpartial ts ovs
  | _, _ => False

theorem fieldNode_repr (H : Hash) (t : Ty) (ov : Option Val) (n : Node) (hwf : t.wf = true)
    (h : fieldNode H t ov = some n) : Impl.Repr H t (ov.getD (zeroVal t)) n := by
  cases ov with
  | none => exact ReprBasics.default_repr H t n hwf h
  | some v => exact ReprBasics.construct_repr H t v n hwf h

theorem constructPartial_cons_some {H : Hash} {t : Ty} {ts : List Ty} {ov : Option Val}
    {ovs : List (Option Val)} {ms : List Node} (h : constructPartial H (t :: ts) (ov :: ovs) = some ms) :
    ∃ n ns, fieldNode H t ov = some n ∧ constructPartial H ts ovs = some ns ∧ ms = n :: ns := by
  rw [constructPartial] at h
  cases h1 : fieldNode H t ov with
  | none => simp [h1] at h
  | some n =>
    cases h2 : constructPartial H ts ovs with
    | none => simp [h1, h2] at h
    | some ns =>
      simp only [h1, h2, Option.some.injEq] at h
      exact ⟨n, ns, rfl, rfl, h.symm⟩

/-- the field nodes represent the given values, resp. the zero values of the omitted fields -/
theorem constructPartial_reprFields (H : Hash) (fs : List Ty) (ovs : List (Option Val))
    (ns : List Node) (hwf : Ty.wfList fs = true) (h : constructPartial H fs ovs = some ns) :
    ReprFields H fs (fillDefaults fs ovs) ns := by
  induction fs generalizing ovs ns with
  | nil =>
    cases ovs with
    | nil =>
      simp only [constructPartial, Option.some.injEq] at h
      subst h
      simp [fillDefaults, ReprFields]
    | cons ov ovs => simp [constructPartial] at h
  | cons t ts ih =>
    cases ovs with
    | nil => simp [constructPartial] at h
    | cons ov ovs =>
      simp only [Ty.wfList, Bool.and_eq_true] at hwf
      obtain ⟨n, ns', h1, h2, rfl⟩ := constructPartial_cons_some h
      simp only [fillDefaults, ReprFields]
      exact ⟨fieldNode_repr H t ov n hwf.1 h1, ih ovs ns' hwf.2 h2⟩

theorem constructPartial_length (H : Hash) (fs : List Ty) (ovs : List (Option Val))
    (ns : List Node) (h : constructPartial H fs ovs = some ns) : ns.length = fs.length := by
  induction fs generalizing ovs ns with
  | nil =>
    cases ovs with
    | nil => simp only [constructPartial, Option.some.injEq] at h; subst h; rfl
    | cons ov ovs => simp [constructPartial] at h
  | cons t ts ih =>
    cases ovs with
    | nil => simp [constructPartial] at h
    | cons ov ovs =>
      obtain ⟨n, ns', _, h2, rfl⟩ := constructPartial_cons_some h
      simp [ih ovs ns' h2]

/-- C12 (omitted fields): the tree of `Container(**kwargs)` represents the value in which the
    omitted fields are the zero values -/
theorem containerPartial_repr (H : Hash) (fs : List Ty) (ovs : List (Option Val)) (n : Node)
    (hwf : Ty.wfList fs = true) (h : containerPartial H fs ovs = some n) :
    Impl.Repr H (.container fs) (.seq (fillDefaults fs ovs)) n := by
  unfold containerPartial at h
  cases hns : constructPartial H fs ovs with
  | none => simp [hns] at h
  | some ns =>
    simp only [hns] at h
    simp only [Impl.Repr]
    exact ⟨ns, constructPartial_reprFields H fs ovs ns hwf hns, ChunkTreeLemmas.ct_fill h⟩

/-- …so its root is the hash-tree-root of that value -/
theorem containerPartial_root (H : Hash) (fs : List Ty) (ovs : List (Option Val)) (n : Node)
    (hwf : (Ty.container fs).wf = true) (h : containerPartial H fs ovs = some n) :
    n.root H = Spec.htr H (.container fs) (.seq (fillDefaults fs ovs)) := by
  have hw : Ty.wfList fs = true := by
    simp only [Ty.wf, Bool.and_eq_true] at hwf
    exact hwf.2
  exact ReprBasics.repr_root H _ _ n hwf (containerPartial_repr H fs ovs n hw h)

/-- …and it has the same root as the fully explicit construction -/
theorem containerPartial_root_eq_explicit (H : Hash) (fs : List Ty) (ovs : List (Option Val))
    (n m : Node) (hwf : (Ty.container fs).wf = true) (h : containerPartial H fs ovs = some n)
    (hm : Impl.construct H (.container fs) (.seq (fillDefaults fs ovs)) = some m) :
    n.root H = m.root H := by
  have hw : Ty.wfList fs = true := by
    simp only [Ty.wf, Bool.and_eq_true] at hwf
    exact hwf.2
  exact ReprBasics.repr_unique_root H _ _ n m hwf (containerPartial_repr H fs ovs n hw h)
    (ReprBasics.construct_repr H _ _ m hwf hm)

/-- the partial construction succeeds when the given fields are well-typed -/
theorem constructPartial_isSome (H : Hash) (fs : List Ty) (ovs : List (Option Val))
    (hwf : Ty.wfList fs = true) (hwt : WTpartial fs ovs) :
    (constructPartial H fs ovs).isSome = true := by
  induction fs generalizing ovs with
  | nil =>
    cases ovs with
    | nil => simp [constructPartial]
    | cons ov ovs => simp [WTpartial] at hwt
  | cons t ts ih =>
    cases ovs with
    | nil => simp [WTpartial] at hwt
    | cons ov ovs =>
      simp only [Ty.wfList, Bool.and_eq_true] at hwf
      simp only [WTpartial] at hwt
      have h1 : (fieldNode H t ov).isSome = true := by
        cases ov with
        | none => exact DefaultNode.default_isSome H t hwf.1
        | some v => exact ConstructRoot.construct_isSome H t v hwf.1 (hwt.1 v rfl)
      obtain ⟨n, hn⟩ := Option.isSome_iff_exists.1 h1
      obtain ⟨ns, hns⟩ := Option.isSome_iff_exists.1 (ih ovs hwf.2 hwt.2)
      simp [constructPartial, hn, hns]

theorem containerPartial_isSome (H : Hash) (fs : List Ty) (ovs : List (Option Val))
    (hwf : Ty.wfList fs = true) (hwt : WTpartial fs ovs) :
    (containerPartial H fs ovs).isSome = true := by
  obtain ⟨ns, hns⟩ := Option.isSome_iff_exists.1 (constructPartial_isSome H fs ovs hwf hwt)
  unfold containerPartial
  simp only [hns]
  rw [fillToContents_isSome_iff, constructPartial_length H fs ovs ns hns]
  exact two_pow_getDepth _

/-- the filled-in value is well-typed -/
theorem fillDefaults_wt (fs : List Ty) (ovs : List (Option Val)) (hwf : Ty.wfList fs = true)
    (hwt : WTpartial fs ovs) : WTs fs (fillDefaults fs ovs) = true := by
  induction fs generalizing ovs with
  | nil =>
    cases ovs with
    | nil => simp [fillDefaults, WTs]
    | cons ov ovs => simp [WTpartial] at hwt
  | cons t ts ih =>
    cases ovs with
    | nil => simp [WTpartial] at hwt
    | cons ov ovs =>
      simp only [Ty.wfList, Bool.and_eq_true] at hwf
      simp only [WTpartial] at hwt
      simp only [fillDefaults, WTs, Bool.and_eq_true]
      refine ⟨?_, ih ovs hwf.2 hwt.2⟩
      cases ov with
      | none => exact DefaultNode.zeroVal_wt t hwf.1
      | some v => exact hwt.1 v rfl

/-- C12 (omitted fields) in one statement: for a well-formed container type and well-typed given
    fields, both `Container(**kwargs)` and the fully explicit construction (omitted fields written
    out as zero values) succeed, and the two trees have the same root, the hash-tree-root of the
    filled-in value. -/
theorem containerPartial_spec (H : Hash) (fs : List Ty) (ovs : List (Option Val))
    (hwf : (Ty.container fs).wf = true) (hwt : WTpartial fs ovs) :
    ∃ n m, containerPartial H fs ovs = some n ∧
      Impl.construct H (.container fs) (.seq (fillDefaults fs ovs)) = some m ∧
      Impl.Repr H (.container fs) (.seq (fillDefaults fs ovs)) n ∧
      n.root H = m.root H ∧
      n.root H = Spec.htr H (.container fs) (.seq (fillDefaults fs ovs)) := by
  have hw : Ty.wfList fs = true := by
    simp only [Ty.wf, Bool.and_eq_true] at hwf
    exact hwf.2
  obtain ⟨n, hn⟩ := Option.isSome_iff_exists.1 (containerPartial_isSome H fs ovs hw hwt)
  have hwtv : WT (.container fs) (.seq (fillDefaults fs ovs)) = true := by
    simpa [WT] using fillDefaults_wt fs ovs hw hwt
  obtain ⟨m, hm⟩ := Option.isSome_iff_exists.1 (ConstructRoot.construct_isSome H _ _ hwf hwtv)
  exact ⟨n, m, hn, hm, containerPartial_repr H fs ovs n hw hn,
    containerPartial_root_eq_explicit H fs ovs n m hwf hn hm, containerPartial_root H fs ovs n hwf hn⟩

/-! ### sanity: the two extreme cases are the existing constructions -/

/-- nothing omitted: `Container(**kwargs)` is the ordinary constructor -/
theorem constructPartial_all_some (H : Hash) (fs : List Ty) (vs : List Val) :
    constructPartial H fs (vs.map some) = Impl.constructFields H fs vs := by
  induction fs generalizing vs with
  | nil => cases vs <;> simp [constructPartial, Impl.constructFields]
  | cons t ts ih =>
    cases vs with
    | nil => simp [constructPartial, Impl.constructFields]
    | cons v vs =>
      simp only [List.map_cons, constructPartial, Impl.constructFields, fieldNode, ih vs]
      cases Impl.construct H t v <;> cases Impl.constructFields H ts vs <;> rfl

theorem containerPartial_all_some (H : Hash) (fs : List Ty) (vs : List Val) :
    containerPartial H fs (vs.map some) = Impl.construct H (.container fs) (.seq vs) := by
  simp only [containerPartial, constructPartial_all_some, Impl.construct]
  cases Impl.constructFields H fs vs <;> rfl

/-- everything omitted: `Container()` is the default node -/
theorem constructPartial_all_none (H : Hash) (fs : List Ty) :
    constructPartial H fs (fs.map fun _ => none) = Impl.defaultNodes H fs := by
  induction fs with
  | nil => simp [constructPartial, Impl.defaultNodes]
  | cons t ts ih =>
    simp only [List.map_cons, constructPartial, Impl.defaultNodes, fieldNode, ih]
    cases Impl.defaultNode H t <;> cases Impl.defaultNodes H ts <;> rfl

theorem containerPartial_all_none (H : Hash) (fs : List Ty) :
    containerPartial H fs (fs.map fun _ => none) = Impl.defaultNode H (.container fs) := by
  simp only [containerPartial, constructPartial_all_none, Impl.defaultNode]
  cases Impl.defaultNodes H fs <;> rfl

theorem fillDefaults_all_none (fs : List Ty) :
    fillDefaults fs (fs.map fun _ => none) = zeroVals fs := by
  induction fs with
  | nil => simp [fillDefaults, zeroVals]
  | cons t ts ih => simp [fillDefaults, zeroVals, ih]

theorem fillDefaults_all_some (fs : List Ty) (vs : List Val) (h : vs.length = fs.length) :
    fillDefaults fs (vs.map some) = vs := by
  induction fs generalizing vs with
  | nil => cases vs <;> simp_all [fillDefaults]
  | cons t ts ih =>
    cases vs with
    | nil => simp at h
    | cons v vs => simp [fillDefaults, ih vs (by simpa using h)]

/-! Non-vacuity: the middle field omitted -/
private def H0 : Hash := fun a b => a ++ b
private def t0 : List Ty := [.uint 1, .vector (.uint 2) 3, .bool]
example : (Ty.container t0).wf = true ∧ WTpartial t0 [some (.num 7), none, some (.num 1)] ∧
    fillDefaults t0 [some (.num 7), none, some (.num 1)] =
      [.num 7, .seq [.num 0, .num 0, .num 0], .num 1] ∧
    (containerPartial H0 t0 [some (.num 7), none, some (.num 1)]).isSome = true := by
  refine ⟨by decide, ?_, rfl, by decide⟩
  simp [WTpartial, t0, WT]

end Rmk.Leftovers
