/-
Merkleization core: the top-down tree builders of the implementation (`fillToContents`,
`fillToLength`, `fillToDepth`, zero summaries) have the root the SSZ spec computes bottom-up
(`Spec.merkleizeNaive`, `Spec.merkleize`).  Everything is generic in the pair hash `H`.
-/
import Rmk.Spec.Ssz
import Rmk.Model.Tree
import Rmk.Proofs.Gindex
namespace Rmk
open Rmk.Spec

/-! ### `getDepth` -/

/-- `2 ^ get_depth(n)` bottom positions are enough for `n` items -/
theorem two_pow_getDepth (n : Nat) : n ≤ 2 ^ getDepth n := by
  unfold getDepth
  split
  · simpa using ‹n ≤ 1›
  · have := bitLength_lt_two_pow (n - 1)
    omega

/-- ... and `get_depth(n)` is the smallest such depth -/
theorem getDepth_minimal (n : Nat) : getDepth n = 0 ∨ 2 ^ (getDepth n - 1) < n := by
  unfold getDepth
  split
  · exact Or.inl rfl
  · right
    have h := bitLength_le_iff (n - 1) (bitLength (n - 1) - 1)
    have hpos : bitLength (n - 1) ≠ 0 := by
      rw [bitLength_pos (by omega)]; omega
    have : ¬ (n - 1 < 2 ^ (bitLength (n - 1) - 1)) := fun hlt => by
      have := h.2 hlt; omega
    omega

/-- `getDepth n ≤ d ↔ n ≤ 2^d`: `getDepth n` is the least depth with room for `n` (and ≥ 1) items -/
theorem getDepth_le_iff (n d : Nat) : getDepth n ≤ d ↔ n ≤ 2 ^ d := by
  constructor
  · intro h
    exact Nat.le_trans (two_pow_getDepth n) (Nat.pow_le_pow_right (by omega) h)
  · intro h
    rcases getDepth_minimal n with h0 | hlt
    · omega
    · have hlt2 : 2 ^ (getDepth n - 1) < 2 ^ d := Nat.lt_of_lt_of_le hlt h
      have := (Nat.pow_lt_pow_iff_right (a := 2) (by omega)).1 hlt2
      omega

/-! ### one layer -/

@[simp] theorem zeroHash_zero (H : Hash) : zeroHash H 0 = zeroChunk := rfl

theorem zeroHash_succ (H : Hash) (d : Nat) : zeroHash H (d + 1) = H (zeroHash H d) (zeroHash H d) := rfl

@[simp] theorem zeroNode_root (H : Hash) (d : Nat) : (zeroNode H d).root H = zeroHash H d := rfl

theorem layer_length (H : Hash) (z : Chunk) (cs : List Chunk) :
    (layer H z cs).length = (cs.length + 1) / 2 := by
  fun_induction layer H z cs with
  | case1 a b rest ih => simp [ih]; omega
  | case2 a => simp
  | case3 => rfl

/-- on an even-length list virtual padding is not used -/
theorem layer_eq_layerNaive (H : Hash) (z : Chunk) (cs : List Chunk) (h : cs.length % 2 = 0) :
    layer H z cs = layerNaive H cs := by
  fun_induction layer H z cs with
  | case1 a b rest ih =>
    rw [layerNaive, ih (by simp at h; omega)]
  | case2 a => simp at h
  | case3 => rfl

theorem layer_replicate (H : Hash) (z : Chunk) (m : Nat) :
    layer H z (List.replicate m z) = List.replicate ((m + 1) / 2) (H z z) := by
  induction m using Nat.strongRecOn with
  | _ m ih =>
    match m with
    | 0 => rfl
    | 1 => rfl
    | m + 2 =>
      have e : (m + 2 + 1) / 2 = (m + 1) / 2 + 1 := by omega
      rw [List.replicate_succ, List.replicate_succ, layer, ih m (by omega), e, List.replicate_succ]

/-- appending copies of this layer's zero hash appends copies of the next layer's zero hash -/
theorem layer_append_replicate (H : Hash) (z : Chunk) (cs : List Chunk) (m : Nat) :
    ∃ m', layer H z (cs ++ List.replicate m z) = layer H z cs ++ List.replicate m' (H z z) := by
  fun_induction layer H z cs with
  | case1 a b rest ih =>
    obtain ⟨m', hm⟩ := ih
    exact ⟨m', by simp [layer, hm]⟩
  | case2 a =>
    cases m with
    | zero => exact ⟨0, by simp [layer]⟩
    | succ m =>
      exact ⟨(m + 1) / 2, by simp [List.replicate_succ, layer, layer_replicate]⟩
  | case3 => exact ⟨(m + 1) / 2, by simp [layer_replicate]⟩

theorem layer_take (H : Hash) (z : Chunk) (n : Nat) (cs : List Chunk) :
    layer H z (cs.take (2 * n)) = (layer H z cs).take n := by
  induction n generalizing cs with
  | zero => simp [layer]
  | succ n ih =>
    match cs with
    | [] => simp [layer]
    | [a] => simp [Nat.mul_succ, layer]
    | a :: b :: rest =>
      have e : 2 * (n + 1) = 2 * n + 1 + 1 := by omega
      rw [e, List.take_succ_cons, List.take_succ_cons, layer, layer, List.take_succ_cons, ih]

theorem layer_drop (H : Hash) (z : Chunk) (n : Nat) (cs : List Chunk) :
    layer H z (cs.drop (2 * n)) = (layer H z cs).drop n := by
  induction n generalizing cs with
  | zero => simp
  | succ n ih =>
    match cs with
    | [] => simp [layer]
    | [a] => simp [Nat.mul_succ, layer]
    | a :: b :: rest =>
      have e : 2 * (n + 1) = 2 * n + 1 + 1 := by omega
      rw [e, List.drop_succ_cons, List.drop_succ_cons, layer, List.drop_succ_cons, ih]

/-! ### `merkleizeAux` -/

theorem merkleizeAux_nil (H : Hash) (k d : Nat) : merkleizeAux H k d [] = zeroHash H (k + d) := by
  induction d generalizing k with
  | zero => rfl
  | succ d ih =>
    rw [merkleizeAux, layer, ih]
    congr 1; omega

/-- pivot split, at any layer height -/
theorem merkleizeAux_split (H : Hash) (k d : Nat) (cs : List Chunk) (h : cs.length ≤ 2 ^ (d + 1)) :
    merkleizeAux H k (d + 1) cs =
      H (merkleizeAux H k d (cs.take (2 ^ d))) (merkleizeAux H k d (cs.drop (2 ^ d))) := by
  induction d generalizing k cs with
  | zero =>
    match cs, h with
    | [], _ => rfl
    | [a], _ => rfl
    | [a, b], _ => rfl
    | _ :: _ :: _ :: _, h => simp at h
  | succ d ih =>
    have hl : (layer H (zeroHash H k) cs).length ≤ 2 ^ (d + 1) := by
      rw [layer_length]
      rw [Nat.pow_succ] at h
      omega
    have e : 2 ^ (d + 1) = 2 * 2 ^ d := by rw [Nat.pow_succ]; omega
    rw [merkleizeAux, ih (k + 1) _ hl]
    conv => rhs; rw [merkleizeAux, merkleizeAux, e, layer_take, layer_drop]

/-- appending zero hashes of the current layer height changes nothing -/
theorem merkleizeAux_append_zero (H : Hash) (k d : Nat) (cs : List Chunk) (m : Nat)
    (h : cs.length + m ≤ 2 ^ d) :
    merkleizeAux H k d (cs ++ List.replicate m (zeroHash H k)) = merkleizeAux H k d cs := by
  induction d generalizing k cs m with
  | zero =>
    match cs, h with
    | [], h =>
      cases m with
      | zero => rfl
      | succ m => simp [merkleizeAux, List.replicate_succ]
    | a :: rest, _ => rfl
  | succ d ih =>
    obtain ⟨m', hm⟩ := layer_append_replicate H (zeroHash H k) cs m
    have hlen := congrArg List.length hm
    simp only [layer_length, List.length_append, List.length_replicate] at hlen
    rw [merkleizeAux, merkleizeAux, hm, ← zeroHash_succ H k]
    apply ih
    rw [layer_length]
    rw [Nat.pow_succ] at h
    omega

/-- iterating a function with `foldl` over `range` -/
theorem foldl_range_succ {α} (f : α → α) (d : Nat) (x : α) :
    (List.range (d + 1)).foldl (fun l _ => f l) x = (List.range d).foldl (fun l _ => f l) (f x) := by
  rw [List.range_succ_eq_map, List.foldl_cons, List.foldl_map]

theorem layerNaive_length_even (H : Hash) (cs : List Chunk) (h : cs.length % 2 = 0) :
    (layerNaive H cs).length = cs.length / 2 := by
  rw [← layer_eq_layerNaive H zeroChunk cs h, layer_length]; omega

/-- on a full bottom layer the efficient and the naive reduction coincide -/
theorem merkleizeAux_full (H : Hash) (k d : Nat) (p : List Chunk) (h : p.length = 2 ^ d) :
    merkleizeAux H k d p =
      ((List.range d).foldl (fun l _ => layerNaive H l) p).headD zeroChunk := by
  induction d generalizing k p with
  | zero =>
    match p, h with
    | [a], _ => rfl
  | succ d ih =>
    have hev : p.length % 2 = 0 := by rw [h, Nat.pow_succ]; omega
    rw [merkleizeAux, foldl_range_succ, layer_eq_layerNaive H _ p hev]
    apply ih
    rw [layerNaive_length_even H p hev, h, Nat.pow_succ]; omega

/-! ### `merkleize`: structural lemmas -/

/-- the root of an empty (all-zero) tree is the zero hash -/
theorem merkleize_nil (H : Hash) (d : Nat) : merkleize H [] d = zeroHash H d := by
  unfold merkleize; rw [merkleizeAux_nil]; congr 1; omega

theorem merkleize_zero_singleton (H : Hash) (c : Chunk) : merkleize H [c] 0 = c := rfl

/-- `merkleize` splits at the pivot -/
theorem merkleize_split (H : Hash) (chunks : List Chunk) (d : Nat) (h : chunks.length ≤ 2 ^ (d + 1)) :
    merkleize H chunks (d + 1) =
      H (merkleize H (chunks.take (2 ^ d)) d) (merkleize H (chunks.drop (2 ^ d)) d) :=
  merkleizeAux_split H 0 d chunks h

/-- explicit zero padding does not change the root -/
theorem merkleize_append_zero (H : Hash) (chunks : List Chunk) (k d : Nat)
    (h : chunks.length + k ≤ 2 ^ d) :
    merkleize H (chunks ++ List.replicate k zeroChunk) d = merkleize H chunks d :=
  merkleizeAux_append_zero H 0 d chunks k h

/-- left half only: the right half is a zero summary -/
theorem merkleize_succ_of_le (H : Hash) (chunks : List Chunk) (d : Nat) (h : chunks.length ≤ 2 ^ d) :
    merkleize H chunks (d + 1) = H (merkleize H chunks d) (zeroHash H d) := by
  have h2 : chunks.length ≤ 2 ^ (d + 1) := by rw [Nat.pow_succ]; omega
  rw [merkleize_split H chunks d h2, List.take_of_length_le h, List.drop_of_length_le h,
    merkleize_nil]

/-- the efficient `merkleize` is the naive one of the spec text -/
theorem merkleize_eq_naive (H : Hash) (chunks : List Chunk) (d : Nat) (h : chunks.length ≤ 2 ^ d) :
    merkleize H chunks d = merkleizeNaive H chunks d := by
  unfold merkleizeNaive
  simp only
  rw [← merkleizeAux_full H 0 d _ (by simp; omega)]
  exact (merkleize_append_zero H chunks _ d (by omega)).symm

/-- the zero hash of depth `d` is the root of `2^d` zero chunks -/
theorem zeroHash_eq_merkleizeNaive (H : Hash) (d : Nat) : zeroHash H d = merkleizeNaive H [] d := by
  rw [← merkleize_eq_naive H [] d (by simp), merkleize_nil]

/-! ### `fillToContents` -/

/-- too many nodes raises -/
theorem fillToContents_none (H : Hash) (nodes : List Node) (d : Nat) (h : nodes.length > 2 ^ d) :
    fillToContents H nodes d = none := by
  have hp := Nat.two_pow_pos d
  unfold fillToContents
  rw [if_neg (by omega), if_pos h]

theorem fillToContents_nil (H : Hash) (d : Nat) : fillToContents H [] d = some (zeroNode H d) := by
  unfold fillToContents; simp

/-- THE key lemma: the top-down fill with zero summaries has the spec root -/
theorem fillToContents_root (H : Hash) (nodes : List Node) (d : Nat) (h : nodes.length ≤ 2 ^ d) :
    ∃ n, fillToContents H nodes d = some n ∧
      n.root H = merkleize H (nodes.map (·.root H)) d := by
  induction d generalizing nodes with
  | zero =>
    match nodes, h with
    | [], _ => exact ⟨_, fillToContents_nil H 0, rfl⟩
    | [a], _ => exact ⟨a, by simp [fillToContents], rfl⟩
    | _ :: _ :: _, h => simp at h
  | succ d ih =>
    by_cases hz : nodes.length = 0
    · have : nodes = [] := List.eq_nil_of_length_eq_zero hz
      subst this
      exact ⟨_, fillToContents_nil H _, by simp [merkleize_nil]⟩
    · cases d with
      | zero =>
        match nodes, h, hz with
        | [a], _, _ => exact ⟨.pair a (zeroNode H 0), by simp [fillToContents], rfl⟩
        | [a, b], _, _ => exact ⟨.pair a b, by simp [fillToContents], rfl⟩
        | _ :: _ :: _ :: _, h, _ => simp at h
      | succ d =>
        by_cases hle : nodes.length ≤ 2 ^ (d + 1)
        · obtain ⟨l, hl, hr⟩ := ih nodes hle
          refine ⟨.pair l (zeroNode H (d + 1)), ?_, ?_⟩
          · rw [fillToContents, if_neg hz, if_neg (by omega)]
            · simp only [if_pos hle, hl, Option.map_some]
            · simp
          · rw [merkleize_succ_of_le H _ (d + 1) (by simpa using hle)]
            simp [Node.root, hr]
        · have hlt : 2 ^ (d + 1) < nodes.length := by omega
          have e : 2 ^ (d + 1 + 1) = 2 ^ (d + 1) + 2 ^ (d + 1) := by rw [Nat.pow_succ]; omega
          obtain ⟨l, hl, hlr⟩ := ih (nodes.take (2 ^ (d + 1))) (by simp; omega)
          obtain ⟨r, hr, hrr⟩ := ih (nodes.drop (2 ^ (d + 1))) (by simp; omega)
          refine ⟨.pair l r, ?_, ?_⟩
          · rw [fillToContents, if_neg hz, if_neg (by omega)]
            · simp only [if_neg hle, hl, hr]
            · simp
          · rw [merkleize_split H _ (d + 1) (by simpa using h)]
            simp [Node.root, hlr, hrr, List.map_take, List.map_drop]

/-- `fillToContents` succeeds exactly when the nodes fit -/
theorem fillToContents_isSome_iff (H : Hash) (nodes : List Node) (d : Nat) :
    (fillToContents H nodes d).isSome ↔ nodes.length ≤ 2 ^ d := by
  constructor
  · intro hs
    apply Decidable.byContradiction
    intro hn
    rw [fillToContents_none H nodes d (by omega)] at hs
    simp at hs
  · intro h
    obtain ⟨n, hn, _⟩ := fillToContents_root H nodes d h
    simp [hn]

/-- consequence in the form most callers need -/
theorem fillToContents_some_root (H : Hash) (nodes : List Node) (d : Nat) (n : Node)
    (h : fillToContents H nodes d = some n) :
    n.root H = merkleize H (nodes.map (·.root H)) d := by
  have hle : nodes.length ≤ 2 ^ d :=
    (fillToContents_isSome_iff H nodes d).1 (by simp [h])
  obtain ⟨n', hn', hr⟩ := fillToContents_root H nodes d hle
  rw [h] at hn'
  cases hn'
  exact hr

/-! ### `fillToDepth`, `fillToLength` -/

theorem fillToDepth_root (H : Hash) (bottom : Node) (d : Nat) :
    (fillToDepth bottom d).root H = merkleize H (List.replicate (2 ^ d) (bottom.root H)) d := by
  induction d with
  | zero => rfl
  | succ d ih =>
    have e : 2 ^ (d + 1) = 2 ^ d + 2 ^ d := by rw [Nat.pow_succ]; omega
    rw [merkleize_split H _ d (by simp)]
    have hp := Nat.two_pow_pos d
    have h1 : min (2 ^ d) (2 ^ (d + 1)) = 2 ^ d := by omega
    have h2 : 2 ^ (d + 1) - 2 ^ d = 2 ^ d := by omega
    simp only [List.take_replicate, List.drop_replicate, fillToDepth, Node.root, ih, h1, h2]

theorem fillToLength_none (H : Hash) (bottom : Node) (d len : Nat) (h : len > 2 ^ d) :
    fillToLength H bottom d len = none := by
  have hp := Nat.two_pow_pos d
  unfold fillToLength
  rw [if_neg (by omega), if_pos h]

theorem fillToLength_zero (H : Hash) (bottom : Node) (d : Nat) :
    fillToLength H bottom d 0 = some (zeroNode H d) := by
  unfold fillToLength; simp

theorem fillToLength_full (H : Hash) (bottom : Node) (d : Nat) :
    fillToLength H bottom d (2 ^ d) = some (fillToDepth bottom d) := by
  have hp := Nat.two_pow_pos d
  unfold fillToLength
  rw [if_neg (by omega), if_neg (by omega), if_pos rfl]

theorem fillToLength_root (H : Hash) (bottom : Node) (d len : Nat) (h : len ≤ 2 ^ d) :
    ∃ n, fillToLength H bottom d len = some n ∧
      n.root H = merkleize H (List.replicate len (bottom.root H)) d := by
  induction d generalizing len with
  | zero =>
    have : len = 0 ∨ len = 1 := by simp at h; omega
    rcases this with rfl | rfl
    · exact ⟨_, fillToLength_zero H bottom 0, rfl⟩
    · exact ⟨_, fillToLength_full H bottom 0, rfl⟩
  | succ d ih =>
    by_cases hz : len = 0
    · subst hz
      exact ⟨_, fillToLength_zero H bottom _, by simp [merkleize_nil]⟩
    by_cases hfull : len = 2 ^ (d + 1)
    · subst hfull
      exact ⟨_, fillToLength_full H bottom _, fillToDepth_root H bottom _⟩
    have hlt : len < 2 ^ (d + 1) := by omega
    cases d with
    | zero =>
      have h1 : len = 1 := by simp at hlt; omega
      subst h1
      exact ⟨.pair bottom (zeroNode H 0), by simp [fillToLength], rfl⟩
    | succ d =>
      by_cases hle : len ≤ 2 ^ (d + 1)
      · obtain ⟨l, hl, hr⟩ := ih len hle
        refine ⟨.pair l (zeroNode H (d + 1)), ?_, ?_⟩
        · rw [fillToLength, if_neg hz, if_neg (by omega), if_neg hfull]
          · simp only [if_pos hle, hl, Option.map_some]
          · simp
        · rw [merkleize_succ_of_le H _ (d + 1) (by simpa using hle)]
          simp [Node.root, hr]
      · have e : 2 ^ (d + 1 + 1) = 2 ^ (d + 1) + 2 ^ (d + 1) := by rw [Nat.pow_succ]; omega
        obtain ⟨r, hr, hrr⟩ := ih (len - 2 ^ (d + 1)) (by omega)
        refine ⟨.pair (fillToDepth bottom (d + 1)) r, ?_, ?_⟩
        · rw [fillToLength, if_neg hz, if_neg (by omega), if_neg hfull]
          · simp only [if_neg hle, hr, Option.map_some]
          · simp
        · rw [merkleize_split H _ (d + 1) (by simpa using h)]
          simp only [List.take_replicate, List.drop_replicate, Node.root, hrr, fillToDepth_root]
          congr 3
          omega

theorem fillToLength_isSome_iff (H : Hash) (bottom : Node) (d len : Nat) :
    (fillToLength H bottom d len).isSome ↔ len ≤ 2 ^ d := by
  constructor
  · intro hs
    apply Decidable.byContradiction
    intro hn
    rw [fillToLength_none H bottom d len (by omega)] at hs
    simp at hs
  · intro h
    obtain ⟨n, hn, _⟩ := fillToLength_root H bottom d len h
    simp [hn]

theorem fillToLength_some_root (H : Hash) (bottom : Node) (d len : Nat) (n : Node)
    (h : fillToLength H bottom d len = some n) :
    n.root H = merkleize H (List.replicate len (bottom.root H)) d := by
  have hle : len ≤ 2 ^ d := (fillToLength_isSome_iff H bottom d len).1 (by simp [h])
  obtain ⟨n', hn', hr⟩ := fillToLength_root H bottom d len hle
  rw [h] at hn'
  cases hn'
  exact hr

end Rmk
