/-
Value-dependent navigation (`Path.navigate_view(value)`, `Path.gindex(value)`): following element /
field index keys IN A VALUE agrees with the static generalized index of the key path (computed from
the type alone) and with the value's content.  Generic in the pair hash `H`.
-/
import Rmk.Proofs.PathAddress
import Rmk.Properties.C08
namespace Rmk.NavVal
open Rmk Rmk.Impl Rmk.Spec
open Rmk.ReprBasics

/-- the sub-value (with its type) that a key sequence addresses IN A VALUE by view navigation: element / field index
    steps only — the pseudo keys and union steps are not view navigations -/
def navVal : Ty → Val → List Key → Option (Ty × Val)
  | t, v, [] => some (t, v)
  | t, v, .idx i :: rest =>
    match t with
    | .union _ _ => none
    | _ =>
      match PathAddress.subVal t v (.idx i) with
      | some (some t', v') => navVal t' v' rest
      | _ => none
  | _, _, _ => none

/-! ## 0. one navigation step, the side condition -/

/-- one view-navigation step: element / field `i` of a non-union value -/
def navStep : Ty → Val → Nat → Option (Ty × Val)
  | .union _ _, _, _ => none
  | t, v, i =>
    match PathAddress.subVal t v (.idx i) with
    | some (some t', v') => some (t', v')
    | _ => none

/-- every step of the navigation addresses a node of its own (no position inside a packed chunk);
    follows the same navigation as `navVal` (the answer is `true` where `navVal` stops) -/
def allUnpacked : Ty → Val → List Key → Bool
  | _, _, [] => true
  | t, v, k :: rest =>
    PathAddress.unpackedKey t k &&
      match navStep t v (match k with | .idx i => i | _ => 0) with
      | some (t', v') => allUnpacked t' v' rest
      | none => true

theorem navVal_nil (t : Ty) (v : Val) : navVal t v [] = some (t, v) := by
  simp only [navVal]

theorem navVal_len (t : Ty) (v : Val) (rest : List Key) : navVal t v (.len :: rest) = none := by
  simp only [navVal]

theorem navVal_sel (t : Ty) (v : Val) (rest : List Key) : navVal t v (.sel :: rest) = none := by
  simp only [navVal]

/-- `navVal` is the iteration of `navStep` -/
theorem navVal_cons (t : Ty) (v : Val) (i : Nat) (rest : List Key) :
    navVal t v (.idx i :: rest) = (navStep t v i).bind fun p => navVal p.1 p.2 rest := by
  cases t <;> simp only [navVal, navStep] <;> try rfl
  all_goals (split <;> simp_all)

/-- what a successful step is -/
theorem navStep_eq_some {t : Ty} {v : Val} {i : Nat} {t' : Ty} {v' : Val}
    (h : navStep t v i = some (t', v')) :
    PathAddress.subVal t v (.idx i) = some (some t', v') ∧ ∀ b o, t ≠ .union b o := by
  cases t <;> simp only [navStep, reduceCtorEq] at h <;>
    (split at h
     · next heq =>
       simp only [Option.some.injEq, Prod.mk.injEq] at h
       obtain ⟨rfl, rfl⟩ := h
       exact ⟨heq, by intro b o hh; cases hh⟩
     · simp at h)

theorem navStep_of_subVal {t : Ty} {v : Val} {i : Nat} {t' : Ty} {v' : Val}
    (h : PathAddress.subVal t v (.idx i) = some (some t', v')) (hu : ∀ b o, t ≠ .union b o) :
    navStep t v i = some (t', v') := by
  cases t <;> simp only [navStep, h]
  exact absurd rfl (hu _ _)

/-! ## 4b. `navVal_mono`: navigation by a concatenated key sequence -/

theorem navVal_mono (t : Ty) (v : Val) (ks ks' : List Key) :
    navVal t v (ks ++ ks') = (navVal t v ks).bind fun p => navVal p.1 p.2 ks' := by
  induction ks generalizing t v with
  | nil => simp [navVal_nil]
  | cons k ks ih =>
    cases k with
    | len => simp [navVal_len]
    | sel => simp [navVal_sel]
    | idx i =>
      rw [List.cons_append, navVal_cons, navVal_cons]
      cases h : navStep t v i with
      | none => simp
      | some p => simp [ih]

/-! ## 1. `navVal` refines `subValPath` -/

theorem navVal_subValPath (t : Ty) (v : Val) (keys : List Key) (t' : Ty) (v' : Val)
    (hn : navVal t v keys = some (t', v')) (hu : allUnpacked t v keys = true) :
    PathAddress.subValPath (some t) v keys = some (some t', v') := by
  induction keys generalizing t v with
  | nil =>
    simp only [navVal_nil, Option.some.injEq, Prod.mk.injEq] at hn
    obtain ⟨rfl, rfl⟩ := hn
    simp [PathAddress.subValPath]
  | cons k ks ih =>
    cases k with
    | len => simp [navVal_len] at hn
    | sel => simp [navVal_sel] at hn
    | idx i =>
      rw [navVal_cons] at hn
      cases hs : navStep t v i with
      | none => simp [hs] at hn
      | some p =>
        obtain ⟨t1, v1⟩ := p
        simp only [hs, Option.bind_some] at hn
        simp only [allUnpacked, hs, Bool.and_eq_true] at hu
        have hsv := (navStep_eq_some hs).1
        simp only [PathAddress.subValPath, hu.1, if_true, hsv]
        exact ih t1 v1 hn hu.2

/-- the converse, for index-only key sequences that do not pass through a union: a value path
    (in the sense of `subValPath`) is a view navigation -/
theorem subValPath_navVal (t : Ty) (v : Val) (keys : List Key) (t' : Ty) (v' : Val)
    (hp : PathAddress.subValPath (some t) v keys = some (some t', v'))
    (hn : (navVal t v keys).isSome = true) :
    navVal t v keys = some (t', v') ∧ allUnpacked t v keys = true := by
  induction keys generalizing t v with
  | nil =>
    simp only [PathAddress.subValPath, Option.some.injEq, Prod.mk.injEq] at hp
    obtain ⟨rfl, rfl⟩ := hp
    simp [navVal_nil, allUnpacked]
  | cons k ks ih =>
    cases k with
    | len => simp [navVal_len] at hn
    | sel => simp [navVal_sel] at hn
    | idx i =>
      rw [navVal_cons] at hn ⊢
      cases hs : navStep t v i with
      | none => simp [hs] at hn
      | some p =>
        obtain ⟨t1, v1⟩ := p
        simp only [hs, Option.bind_some] at hn ⊢
        have hsv := (navStep_eq_some hs).1
        simp only [PathAddress.subValPath] at hp
        split at hp
        · next hu =>
          simp only [hsv] at hp
          obtain ⟨h1, h2⟩ := ih t1 v1 hp hn
          exact ⟨h1, by simp [allUnpacked, hu, hs, h2]⟩
        · simp at hp

/-! ## 2. the node at the static index has the root of the navigated sub-value -/

/-- the static index of a navigable, unpacked key sequence exists, the node there represents the
    navigated sub-value and has its hash-tree-root -/
theorem navVal_addresses_repr (H : Hash) (t : Ty) (v : Val) (n : Node) (keys : List Key)
    (t' : Ty) (v' : Val) (hr : Impl.Repr H t v n) (hwf : t.wf = true) (hlim : limitsOk t = true)
    (hn : navVal t v keys = some (t', v')) (hu : allUnpacked t v keys = true) :
    ∃ g m, Impl.pathGindex t keys = some g ∧ getter n g = some m ∧ Impl.Repr H t' v' m ∧
      m.root H = Spec.htr H t' v' :=
  C08.addresses H t v n keys t' v' hr hwf hlim (navVal_subValPath t v keys t' v' hn hu)

/-- the view found by value-dependent navigation has the root that the node at the STATIC index has -/
theorem navVal_addresses (H : Hash) (t : Ty) (v : Val) (n : Node) (keys : List Key)
    (t' : Ty) (v' : Val) (g : Nat) (hr : Impl.Repr H t v n) (hwf : t.wf = true)
    (hlim : limitsOk t = true)
    (hn : navVal t v keys = some (t', v')) (hu : allUnpacked t v keys = true)
    (hg : Impl.pathGindex t keys = some g) :
    ∃ m, getter n g = some m ∧ m.root H = Spec.htr H t' v' := by
  obtain ⟨g', m, hg', hm, _, hroot⟩ := navVal_addresses_repr H t v n keys t' v' hr hwf hlim hn hu
  rw [hg] at hg'
  cases hg'
  exact ⟨m, hm, hroot⟩

/-- the same for the constructor tree of the value -/
theorem navVal_addresses_construct (H : Hash) (t : Ty) (v : Val) (n : Node) (keys : List Key)
    (t' : Ty) (v' : Val) (g : Nat) (hc : Impl.construct H t v = some n) (hwf : t.wf = true)
    (hlim : limitsOk t = true)
    (hn : navVal t v keys = some (t', v')) (hu : allUnpacked t v keys = true)
    (hg : Impl.pathGindex t keys = some g) :
    ∃ m, getter n g = some m ∧ m.root H = Spec.htr H t' v' :=
  navVal_addresses H t v n keys t' v' g (construct_repr H t v n hwf hc) hwf hlim hn hu hg

/-! ## 2b. index-only navigation needs no bound on the limits

`C08.addresses` assumes `limitsOk` (all limits `< 2^256`) because of the `'__len__'` key; a view
navigation has element / field keys only, so the bound can be dropped. -/

/-- general form with a running index `root` inside an enclosing tree `n0` -/
theorem navVal_addresses_gen (H : Hash) (keys : List Key) :
    ∀ (t : Ty) (v : Val) (n : Node) (root : Nat) (n0 : Node) (t' : Ty) (v' : Val),
      Impl.Repr H t v n → t.wf = true →
      navVal t v keys = some (t', v') → allUnpacked t v keys = true →
      root ≠ 0 → getter n0 root = some n →
      ∃ g m, implGindex root (some t) keys = some g ∧ g ≠ 0 ∧ getter n0 g = some m ∧
        Impl.Repr H t' v' m ∧ t'.wf = true ∧
        ∀ ks2, implGindex root (some t) (keys ++ ks2) = implGindex g (some t') ks2 := by
  induction keys with
  | nil =>
    intro t v n root n0 t' v' hr hwf hn _ hroot hget
    simp only [navVal_nil, Option.some.injEq, Prod.mk.injEq] at hn
    obtain ⟨rfl, rfl⟩ := hn
    exact ⟨root, n, implGindex_nil _ _, hroot, hget, hr, hwf, fun ks2 => rfl⟩
  | cons k ks ih =>
    intro t v n root n0 t' v' hr hwf hn hu hroot hget
    cases k with
    | len => simp [navVal_len] at hn
    | sel => simp [navVal_sel] at hn
    | idx i =>
      rw [navVal_cons] at hn
      cases hs : navStep t v i with
      | none => simp [hs] at hn
      | some p =>
        obtain ⟨t1, v1⟩ := p
        simp only [hs, Option.bind_some] at hn
        simp only [allUnpacked, hs, Bool.and_eq_true] at hu
        have hsv := (navStep_eq_some hs).1
        have hnt := PathAddress.subVal_navigateType t v (.idx i) (some t1) v1
          (repr_wt H t v n hr) hsv
        obtain ⟨g1, hg1⟩ := PathAddress.static_exists t (.idx i) (some t1) hwf hnt
        obtain ⟨m1, hm1, hrm1⟩ :=
          PathAddress.step_addresses_idx H t v n i g1 t1 v1 hr hwf hg1 hu.1 hsv
        have hg1ne := keyToStaticGindex_ne_zero t (.idx i) g1 hg1
        have hwf1 := navigateType_wf t (.idx i) t1 hwf hnt
        have hcons : ∀ ks', implGindex root (some t) (.idx i :: ks') =
            implGindex (concatStep root g1) (some t1) ks' := by
          intro ks'
          rw [implGindex_cons]
          simp only [implStep, hnt, hg1]
        have hget1 : getter n0 (concatStep root g1) = some m1 := by
          rw [getter_concatStep n0 hroot hg1ne, hget]; exact hm1
        obtain ⟨g, m, hg, hgne, hm, hrm, hwf', hext⟩ :=
          ih t1 v1 m1 (concatStep root g1) n0 t' v' hrm1 hwf1 hn hu.2
            (concatStep_ne_zero hroot) hget1
        refine ⟨g, m, ?_, hgne, hm, hrm, hwf', ?_⟩
        · rw [hcons]; exact hg
        · intro ks2
          rw [List.cons_append, hcons]; exact hext ks2

/-- `navVal_addresses` without the bound on the limits: the static index exists, … -/
theorem navVal_addresses_repr_nolimit (H : Hash) (t : Ty) (v : Val) (n : Node) (keys : List Key)
    (t' : Ty) (v' : Val) (hr : Impl.Repr H t v n) (hwf : t.wf = true)
    (hn : navVal t v keys = some (t', v')) (hu : allUnpacked t v keys = true) :
    ∃ g m, Impl.pathGindex t keys = some g ∧ getter n g = some m ∧ Impl.Repr H t' v' m ∧
      m.root H = Spec.htr H t' v' := by
  obtain ⟨g, m, hg, _, hm, hrm, hwf', _⟩ :=
    navVal_addresses_gen H keys t v n 1 n t' v' hr hwf hn hu (by decide)
      (PathAddress.getter_one n)
  exact ⟨g, m, by rw [pathGindex_eq_implGindex]; exact hg, hm, hrm, repr_root H t' v' m hwf' hrm⟩

/-- … and the node at it has the root of the navigated sub-value -/
theorem navVal_addresses_nolimit (H : Hash) (t : Ty) (v : Val) (n : Node) (keys : List Key)
    (t' : Ty) (v' : Val) (g : Nat) (hr : Impl.Repr H t v n) (hwf : t.wf = true)
    (hn : navVal t v keys = some (t', v')) (hu : allUnpacked t v keys = true)
    (hg : Impl.pathGindex t keys = some g) :
    ∃ m, getter n g = some m ∧ m.root H = Spec.htr H t' v' := by
  obtain ⟨g', m, hg', hm, _, hroot⟩ := navVal_addresses_repr_nolimit H t v n keys t' v' hr hwf hn hu
  rw [hg] at hg'
  cases hg'
  exact ⟨m, hm, hroot⟩

/-! ## 3. a packed position can only be the last step -/

/-- a step to a packed position ends in a basic type -/
theorem navStep_packed_basic {t : Ty} {v : Val} {i : Nat} {t' : Ty} {v' : Val}
    (h : navStep t v i = some (t', v')) (hu : PathAddress.unpackedKey t (.idx i) = false) :
    t'.isBasic = true ∧ ∃ cs per, PathAddress.packedChunks t v = some (cs, per) := by
  have hs := (navStep_eq_some h).1
  cases t <;> cases v <;> simp only [PathAddress.subVal, reduceCtorEq] at hs <;>
    simp [PathAddress.unpackedKey] at hu <;>
    obtain ⟨_, he⟩ := PathAddress.map_getElem?_eq_some hs <;>
    simp only [Prod.mk.injEq, Option.some.injEq] at he <;>
    obtain ⟨rfl, _⟩ := he <;>
    first
    | exact ⟨hu, by simp [PathAddress.packedChunks, hu]⟩
    | exact ⟨rfl, by simp [PathAddress.packedChunks]⟩

/-- nothing is navigable below a basic value -/
theorem navVal_basic_none (t : Ty) (v : Val) (k : Key) (ks : List Key) (hb : t.isBasic = true) :
    navVal t v (k :: ks) = none := by
  cases k with
  | len => exact navVal_len _ _ _
  | sel => exact navVal_sel _ _ _
  | idx i =>
    rw [navVal_cons]
    cases t <;> simp [Ty.isBasic] at hb <;> cases v <;> simp [navStep, PathAddress.subVal]

/-- a packed step can only be the LAST step of a successful navigation: a successful navigation is
    either unpacked throughout, or it is an unpacked navigation followed by one packed step -/
theorem navVal_packed_only_last (t : Ty) (v : Val) (keys : List Key) (t' : Ty) (v' : Val)
    (hn : navVal t v keys = some (t', v')) :
    allUnpacked t v keys = true ∨
      ∃ ks i t1 v1, keys = ks ++ [.idx i] ∧ navVal t v ks = some (t1, v1) ∧
        allUnpacked t v ks = true ∧ PathAddress.unpackedKey t1 (.idx i) = false := by
  induction keys generalizing t v with
  | nil => left; simp [allUnpacked]
  | cons k ks ih =>
    cases k with
    | len => simp [navVal_len] at hn
    | sel => simp [navVal_sel] at hn
    | idx i =>
      rw [navVal_cons] at hn
      cases hs : navStep t v i with
      | none => simp [hs] at hn
      | some p =>
        obtain ⟨t1, v1⟩ := p
        simp only [hs, Option.bind_some] at hn
        cases hu : PathAddress.unpackedKey t (.idx i) with
        | false =>
          right
          have hb := (navStep_packed_basic hs hu).1
          cases ks with
          | nil => exact ⟨[], i, t, v, rfl, navVal_nil _ _, by simp [allUnpacked], hu⟩
          | cons k' ks' => rw [navVal_basic_none t1 v1 k' ks' hb] at hn; cases hn
        | true =>
          rcases ih t1 v1 hn with h | ⟨ks0, j, t2, v2, rfl, hn2, hu2, hpk⟩
          · left; simp [allUnpacked, hu, hs, h]
          · right
            refine ⟨.idx i :: ks0, j, t2, v2, rfl, ?_, ?_, hpk⟩
            · rw [navVal_cons, hs]; exact hn2
            · simp [allUnpacked, hu, hs, hu2]

/-- PACKED LAST STEP: an unpacked navigation to `v1 : t1` followed by an element key of the packed
    value `v1` (element of a packed list / vector, bit, byte): the navigated value has a basic type,
    the static index of the whole key sequence exists and the node there is the leaf chunk that
    holds the element, from which the element decodes (conclusion of `C08.addresses_packed`). -/
theorem navVal_packed_last (H : Hash) (t : Ty) (v : Val) (n : Node) (ks : List Key) (i : Nat)
    (t1 : Ty) (v1 : Val) (t' : Ty) (v' : Val) (cs : List Chunk) (per : Nat)
    (hr : Impl.Repr H t v n) (hwf : t.wf = true) (hlim : limitsOk t = true)
    (hks : navVal t v ks = some (t1, v1)) (hu : allUnpacked t v ks = true)
    (hp : PathAddress.packedChunks t1 v1 = some (cs, per))
    (hn : navVal t v (ks ++ [.idx i]) = some (t', v')) :
    t'.isBasic = true ∧
    ∃ g, ∃ hj : i / per < cs.length, Impl.pathGindex t (ks ++ [.idx i]) = some g ∧
      getter n g = some (.leaf cs[i / per]) ∧
      PathAddress.elemOfChunk H t1 cs[i / per] i = some v' := by
  rw [navVal_mono, hks, Option.bind_some, navVal_cons] at hn
  cases hs : navStep t1 v1 i with
  | none => simp [hs] at hn
  | some p =>
    obtain ⟨t2, v2⟩ := p
    simp only [hs, Option.bind_some, navVal_nil, Option.some.injEq, Prod.mk.injEq] at hn
    obtain ⟨rfl, rfl⟩ := hn
    have hsv := (navStep_eq_some hs).1
    have hpk : PathAddress.unpackedKey t1 (.idx i) = false := by
      cases t1 <;> cases v1 <;> simp only [PathAddress.packedChunks, reduceCtorEq] at hp <;>
        simp only [PathAddress.unpackedKey]
      all_goals (split at hp
                 · next hb => simp [hb]
                 · simp at hp)
    exact ⟨(navStep_packed_basic hs hpk).1,
      C08.addresses_packed H t v n ks t1 v1 i cs per (some t2) v2 hr hwf hlim
        (navVal_subValPath t v ks t1 v1 hks hu) hp hsv⟩

/-- the same with the packedness of the last step stated by `unpackedKey`: the chunks exist -/
theorem navVal_packed_last' (H : Hash) (t : Ty) (v : Val) (n : Node) (ks : List Key) (i : Nat)
    (t1 : Ty) (v1 : Val) (t' : Ty) (v' : Val)
    (hr : Impl.Repr H t v n) (hwf : t.wf = true) (hlim : limitsOk t = true)
    (hks : navVal t v ks = some (t1, v1)) (hu : allUnpacked t v ks = true)
    (hpk : PathAddress.unpackedKey t1 (.idx i) = false)
    (hn : navVal t v (ks ++ [.idx i]) = some (t', v')) :
    t'.isBasic = true ∧
    ∃ cs per, PathAddress.packedChunks t1 v1 = some (cs, per) ∧
    ∃ g, ∃ hj : i / per < cs.length, Impl.pathGindex t (ks ++ [.idx i]) = some g ∧
      getter n g = some (.leaf cs[i / per]) ∧
      PathAddress.elemOfChunk H t1 cs[i / per] i = some v' := by
  have hn' := hn
  rw [navVal_mono, hks, Option.bind_some, navVal_cons] at hn'
  cases hs : navStep t1 v1 i with
  | none => simp [hs] at hn'
  | some p =>
    obtain ⟨t2, v2⟩ := p
    obtain ⟨_, cs, per, hp⟩ := navStep_packed_basic hs hpk
    obtain ⟨hb, h⟩ := navVal_packed_last H t v n ks i t1 v1 t' v' cs per hr hwf hlim hks hu hp hn
    exact ⟨hb, cs, per, hp, h⟩

/-- the packed last step without the bound on the limits -/
theorem navVal_packed_last_nolimit (H : Hash) (t : Ty) (v : Val) (n : Node) (ks : List Key)
    (i : Nat) (t1 : Ty) (v1 : Val) (t' : Ty) (v' : Val) (cs : List Chunk) (per : Nat)
    (hr : Impl.Repr H t v n) (hwf : t.wf = true)
    (hks : navVal t v ks = some (t1, v1)) (hu : allUnpacked t v ks = true)
    (hp : PathAddress.packedChunks t1 v1 = some (cs, per))
    (hn : navVal t v (ks ++ [.idx i]) = some (t', v')) :
    ∃ g, ∃ hj : i / per < cs.length, Impl.pathGindex t (ks ++ [.idx i]) = some g ∧
      getter n g = some (.leaf cs[i / per]) ∧
      PathAddress.elemOfChunk H t1 cs[i / per] i = some v' := by
  rw [navVal_mono, hks, Option.bind_some, navVal_cons] at hn
  cases hs : navStep t1 v1 i with
  | none => simp [hs] at hn
  | some p =>
    obtain ⟨t2, v2⟩ := p
    simp only [hs, Option.bind_some, navVal_nil, Option.some.injEq, Prod.mk.injEq] at hn
    obtain ⟨rfl, rfl⟩ := hn
    have hsv := (navStep_eq_some hs).1
    obtain ⟨g0, m, _, hg0ne, hm, hrm, hwf', hext⟩ :=
      navVal_addresses_gen H ks t v n 1 n t1 v1 hr hwf hks hu (by decide)
        (PathAddress.getter_one n)
    have hnt := PathAddress.subVal_navigateType t1 v1 (.idx i) (some t2) v2
      (repr_wt H t1 v1 m hrm) hsv
    obtain ⟨g', hg'⟩ := PathAddress.static_exists t1 (.idx i) (some t2) hwf' hnt
    obtain ⟨hj, hget, helem⟩ :=
      PathAddress.packed_addresses_elem H t1 v1 m i g' cs per (some t2) v2 hrm hwf' hp hsv hg'
    refine ⟨concatStep g0 g', hj, ?_, ?_, helem⟩
    · rw [pathGindex_eq_implGindex, hext, implGindex_cons]
      simp only [implStep, hnt, hg', implGindex_nil]
    · rw [getter_concatStep n hg0ne (keyToStaticGindex_ne_zero _ _ _ hg'), hm]
      exact hget

/-! ## 4a. positions at or beyond the LENGTH are not navigable, whatever the limit is -/

theorem navVal_list_out_of_range (et : Ty) (lim : Nat) (vs : List Val) (i : Nat) (rest : List Key)
    (h : vs.length ≤ i) : navVal (.list et lim) (.seq vs) (.idx i :: rest) = none := by
  rw [navVal_cons]
  simp [navStep, PathAddress.subVal, List.getElem?_eq_none h]

theorem navVal_bitlist_out_of_range (lim : Nat) (bs : List Bool) (i : Nat) (rest : List Key)
    (h : bs.length ≤ i) : navVal (.bitlist lim) (.bits bs) (.idx i :: rest) = none := by
  rw [navVal_cons]
  simp [navStep, PathAddress.subVal, List.getElem?_eq_none h]

theorem navVal_bytelist_out_of_range (lim : Nat) (bs : List UInt8) (i : Nat) (rest : List Key)
    (h : bs.length ≤ i) : navVal (.bytelist lim) (.bytes bs) (.idx i :: rest) = none := by
  rw [navVal_cons]
  simp [navStep, PathAddress.subVal, List.getElem?_eq_none h]

/-- …and conversely a list position below the length IS navigable (to the element) -/
theorem navVal_list_in_range (et : Ty) (lim : Nat) (vs : List Val) (i : Nat) (rest : List Key)
    (h : i < vs.length) :
    navVal (.list et lim) (.seq vs) (.idx i :: rest) = navVal et vs[i] rest := by
  rw [navVal_cons]
  simp [navStep, PathAddress.subVal, List.getElem?_eq_getElem h]

/-! ## 5. non-vacuity -/

section Examples

private def tL : Ty := .list (.container [.uint 1, .uint 2]) 8
private def vL : Val :=
  .seq [.seq [.num 1, .num 10], .seq [.num 2, .num 20], .seq [.num 3, .num 30]]
private def Htoy : Hash := fun a b => a ++ b

example : tL.wf = true ∧ limitsOk tL = true ∧ WT tL vL = true := by decide

/-- key `[2, 1]` navigates to the uint16 field of element 2 -/
example : navVal tL vL [.idx 2, .idx 1] = some (.uint 2, .num 30) := by rfl
example : ((navVal tL vL [.idx 2, .idx 1]).any fun p => p.1.basicSize == 2 && p.2 == .num 30) = true := by
  decide
example : allUnpacked tL vL [.idx 2, .idx 1] = true := by decide

/-- key `[3]` is within the limit but beyond the length: not navigable in the value, although the
    static index exists -/
example : navVal tL vL [.idx 3] = none := by decide
example : (Impl.pathGindex tL [.idx 3]).isSome = true := by decide
example : Impl.pathGindex tL [.idx 3] = some 19 := by decide
example : Impl.pathGindex tL [.idx 8] = none := by decide

/-- the hypotheses of `navVal_addresses` are satisfiable (toy hash) -/
example : ∃ n g m, Impl.construct Htoy tL vL = some n ∧ Impl.pathGindex tL [.idx 2, .idx 1] = some g ∧
    getter n g = some m ∧ m.root Htoy = Spec.htr Htoy (.uint 2) (.num 30) := by
  obtain ⟨n, hc, hr⟩ := repr_exists Htoy tL vL (by decide) (by decide)
  obtain ⟨g, m, hg, hm, _, hroot⟩ :=
    navVal_addresses_repr Htoy tL vL n [.idx 2, .idx 1] (.uint 2) (.num 30) hr (by decide)
      (by decide) (by rfl) (by decide)
  exact ⟨n, g, m, hc, hg, hm, hroot⟩

/-- a packed last step: element 37 of a `List[uint16, 100]` field -/
example : navVal (.container [.uint 8, .list (.uint 2) 100])
    (.seq [.num 7, .seq ((List.range 40).map .num)]) [.idx 1, .idx 37] = some (.uint 2, .num 37) := by
  rfl

end Examples

end Rmk.NavVal
