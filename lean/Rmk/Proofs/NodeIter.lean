/-
The stack-machine iterator `Impl.nodeIter` (readonly_iters.NodeIter) agrees with direct navigation
`Impl.getAt` (property C15).
-/
import Rmk.Impl.Misc
import Rmk.Proofs.TreeLaws
import Rmk.Proofs.Gindex
namespace Rmk
open Rmk.Impl

/-! ### arithmetic core: `i xor (i-1)` -/

theorem two_mul_xor_two_mul_succ (a b : Nat) : (2 * a) ^^^ (2 * b + 1) = 2 * (a ^^^ b) + 1 := by
  apply Nat.eq_of_testBit_eq
  intro i
  cases i with
  | zero => simp [Nat.testBit_zero]
  | succ i =>
    simp only [Nat.testBit_succ, Nat.xor_div_two]
    have h1 : 2 * a / 2 = a := by omega
    have h2 : (2 * b + 1) / 2 = b := by omega
    have h3 : (2 * (a ^^^ b) + 1) / 2 = a ^^^ b := by omega
    rw [h1, h2, h3]

theorem two_mul_succ_xor_two_mul (a : Nat) : (2 * a + 1) ^^^ (2 * a) = 1 := by
  apply Nat.eq_of_testBit_eq
  intro i
  cases i with
  | zero => simp [Nat.testBit_zero]
  | succ i =>
    simp only [Nat.testBit_succ, Nat.xor_div_two]
    have h1 : 2 * a / 2 = a := by omega
    have h2 : (2 * a + 1) / 2 = a := by omega
    rw [h1, h2]; simp

theorem bitLength_one : bitLength 1 = 1 := by
  have := bitLength_two_mul_add_one 0
  simpa [bitLength_zero] using this

theorem pbits_zero_right (k : Nat) : pbits k 0 = List.replicate k false := by
  induction k with
  | zero => rfl
  | succ k ih => simp [pbits, ih, List.replicate_succ]

/-- The shape of the paths of two consecutive bottom positions `i-1`, `i` of a depth-`depth` subtree,
    with `k+1 = bitLength (i xor (i-1))` (= number of trailing zeros of `i`, plus one): a common
    prefix `p` of length `depth - (k+1)`, then `1 0…0` for `i` and `0 1…1` for `i-1`. -/
theorem pbits_pred_split (depth i : Nat) (hi : 0 < i) (hlt : i < 2 ^ depth) :
    ∃ (p : List Bool) (k : Nat),
      bitLength (i ^^^ (i - 1)) = k + 1 ∧ p.length + (k + 1) = depth ∧
      pbits depth i = p ++ true :: List.replicate k false ∧
      pbits depth (i - 1) = p ++ false :: List.replicate k true := by
  induction depth generalizing i with
  | zero => simp at hlt; omega
  | succ d ih =>
    rcases Nat.mod_two_eq_zero_or_one i with hm | hm
    · -- `i = 2m`, `m > 0`
      obtain ⟨m, rfl⟩ : ∃ m, i = 2 * m := ⟨i / 2, by omega⟩
      have hm0 : 0 < m := by omega
      have hmlt : m < 2 ^ d := by rw [Nat.pow_succ] at hlt; omega
      obtain ⟨p, k, hbl, hlen, h1, h2⟩ := ih m hm0 hmlt
      have hpred : 2 * m - 1 = 2 * (m - 1) + 1 := by omega
      refine ⟨p, k + 1, ?_, by omega, ?_, ?_⟩
      · rw [hpred, two_mul_xor_two_mul_succ, bitLength_two_mul_add_one, hbl]
      · have := pbits_succ_double d m false
        simp only [Bool.false_eq_true, if_false, Nat.add_zero] at this
        rw [this, h1]
        simp [List.replicate_succ']
      · have := pbits_succ_double d (m - 1) true
        simp only [if_true] at this
        rw [hpred, this, h2]
        simp [List.replicate_succ']
    · -- `i = 2m + 1`
      obtain ⟨m, rfl⟩ : ∃ m, i = 2 * m + 1 := ⟨i / 2, by omega⟩
      have hpred : 2 * m + 1 - 1 = 2 * m := by omega
      refine ⟨pbits d m, 0, ?_, by simp [pbits_length], ?_, ?_⟩
      · rw [hpred, two_mul_succ_xor_two_mul, bitLength_one]
      · have := pbits_succ_double d m true
        simp only [if_true] at this
        simpa using this
      · have := pbits_succ_double d m false
        simp only [Bool.false_eq_true, if_false, Nat.add_zero] at this
        rw [hpred]
        simpa using this

/-- `bitLength (i xor (i-1))` never exceeds the depth for an in-range position -/
theorem bitLength_xor_pred_le (depth i : Nat) (hi : 0 < i) (hlt : i < 2 ^ depth) :
    1 ≤ bitLength (i ^^^ (i - 1)) ∧ bitLength (i ^^^ (i - 1)) ≤ depth := by
  obtain ⟨p, k, hbl, hlen, _, _⟩ := pbits_pred_split depth i hi hlt
  omega

/-! ### `descendLeft` -/

theorem getPath_isSome_of_append {n : Node} {p q : List Bool} {m : Node}
    (h : getPath n (p ++ q) = some m) : ∃ x, getPath n p = some x ∧ getPath x q = some m := by
  rw [getPath_append] at h
  cases hx : getPath n p with
  | none => simp [hx] at h
  | some x => exact ⟨x, rfl, by simpa [hx] using h⟩

/-- `descendLeft k x node stack` succeeds exactly along the all-left path of length `k` below `node`;
    it overwrites `stack[x+j]` (`j < k`) with the node `j` steps below `node`, and nothing else. -/
theorem descendLeft_spec (k x : Nat) (node : Node) (stack : List (Option Node)) (leaf : Node)
    (h : getPath node (List.replicate k false) = some leaf) :
    ∃ stack', descendLeft k x node stack = some (leaf, stack') ∧
      stack'.length = stack.length ∧
      (∀ y, y < x → stack'[y]? = stack[y]?) ∧
      (∀ j, j < k → x + j < stack.length →
        stack'[x + j]? = some (getPath node (List.replicate j false))) := by
  induction k generalizing x node stack with
  | zero =>
    simp at h; subst h
    exact ⟨stack, rfl, rfl, fun _ _ => rfl, fun j hj => by omega⟩
  | succ k ih =>
    cases node with
    | leaf c => simp [List.replicate_succ] at h
    | pair l r =>
      simp only [List.replicate_succ, getPath_pair_cons, Bool.false_eq_true, if_false] at h
      obtain ⟨stack', hd, hl, hlow, hnew⟩ := ih (x + 1) l (stack.set x (some (.pair l r))) h
      refine ⟨stack', ?_, ?_, ?_, ?_⟩
      · simp [descendLeft, getLeft, hd]
      · simpa using hl
      · intro y hy
        rw [hlow y (by omega), List.getElem?_set_ne (by omega)]
      · intro j hj hjl
        cases j with
        | zero =>
          rw [Nat.add_zero, hlow x (by omega)]
          simp [List.getElem?_set_self (by simpa using hjl : x < stack.length)]
        | succ j =>
          have := hnew j (by omega) (by simp; omega)
          rw [show x + (j + 1) = x + 1 + j by omega, this]
          simp [List.replicate_succ]

/-- converse: a successful `descendLeft` walked the all-left path -/
theorem descendLeft_some (k x : Nat) (node : Node) (stack : List (Option Node)) (leaf : Node)
    (stack' : List (Option Node)) (h : descendLeft k x node stack = some (leaf, stack')) :
    getPath node (List.replicate k false) = some leaf := by
  induction k generalizing x node stack with
  | zero => simp [descendLeft] at h; simp [h.1]
  | succ k ih =>
    cases node with
    | leaf c => simp [descendLeft, getLeft] at h
    | pair l r =>
      simp only [descendLeft, getLeft] at h
      simpa [List.replicate_succ] using ih _ _ _ h

/-! ### the iterator invariant -/

/-- Invariant of `NodeIter` between two `__next__` calls: the stack has `depth` slots and, once a node
    has been yielded (`i ≥ 1`), `stack[x]` is the depth-`x` ancestor of the last yielded bottom node
    `i-1` (the result of navigating the length-`x` prefix of its path). -/
def NodeIterInv (anchor : Node) (depth : Nat) (st : NodeIterState) : Prop :=
  st.stack.length = depth ∧
  (st.i ≠ 0 → ∀ x, x < depth →
    st.stack[x]? = some (getPath anchor ((pbits depth (st.i - 1)).take x)))

theorem nodeIterInv_init (anchor : Node) (depth : Nat) :
    NodeIterInv anchor depth { i := 0, stack := List.replicate depth none } := by
  refine ⟨by simp, ?_⟩
  intro h; simp at h

/-- what one `__next__` reads: unfolded form of `nodeIterNext` for `i ≠ 0` -/
theorem nodeIterNext_pos (anchor : Node) (depth i : Nat) (stack : List (Option Node)) (hi : i ≠ 0)
    (node r : Node) (hs : stack[depth - bitLength (i ^^^ (i - 1))]? = some (some node))
    (hr : getRight node = some r) :
    nodeIterNext anchor depth ⟨i, stack⟩ =
      (descendLeft (depth - (depth - bitLength (i ^^^ (i - 1)) + 1))
          (depth - bitLength (i ^^^ (i - 1)) + 1) r stack).map
        fun ls => (ls.1, { i := i + 1, stack := ls.2 }) := by
  simp only [nodeIterNext, bne_iff_ne, ne_eq, hi, not_false_eq_true, if_true, shiftCount,
    List.getD_eq_getElem?_getD, hs, Option.getD_some, hr, Option.map_some]
  cases descendLeft (depth - (depth - bitLength (i ^^^ (i - 1)) + 1))
    (depth - bitLength (i ^^^ (i - 1)) + 1) r stack with
  | none => rfl
  | some ls => rfl

/-- `nodeIterNext` fails when the stack slot it backtracks to is not a pair node -/
theorem nodeIterNext_pos_none (anchor : Node) (depth i : Nat) (stack : List (Option Node))
    (hi : i ≠ 0) (o : Option Node)
    (hs : stack[depth - bitLength (i ^^^ (i - 1))]? = some o)
    (hr : o.bind getRight = none) :
    nodeIterNext anchor depth ⟨i, stack⟩ = none := by
  cases o with
  | none =>
    simp only [nodeIterNext, bne_iff_ne, ne_eq, hi, not_false_eq_true, if_true, shiftCount,
      List.getD_eq_getElem?_getD, hs, Option.getD_some]
  | some node =>
    simp only [Option.bind_some] at hr
    simp only [nodeIterNext, bne_iff_ne, ne_eq, hi, not_false_eq_true, if_true, shiftCount,
      List.getD_eq_getElem?_getD, hs, Option.getD_some, hr, Option.map_none]

theorem nodeIterNext_zero (anchor : Node) (depth : Nat) (stack : List (Option Node)) :
    nodeIterNext anchor depth ⟨0, stack⟩ =
      (descendLeft depth 0 anchor stack).map fun ls => (ls.1, { i := 1, stack := ls.2 }) := by
  simp only [nodeIterNext, bne_self_eq_false, Bool.false_eq_true, if_false, Nat.sub_zero,
    Nat.zero_add]
  cases descendLeft depth 0 anchor stack with
  | none => rfl
  | some ls => rfl

/-- One step: if direct navigation to bottom position `i` succeeds, `__next__` yields that node and
    re-establishes the invariant. -/
theorem nodeIterNext_spec (anchor : Node) (depth : Nat) (st : NodeIterState) (leaf : Node)
    (hinv : NodeIterInv anchor depth st) (hget : getAt anchor st.i depth = some leaf) :
    ∃ st', nodeIterNext anchor depth st = some (leaf, st') ∧ st'.i = st.i + 1 ∧
      NodeIterInv anchor depth st' := by
  obtain ⟨i, stack⟩ := st
  obtain ⟨hlen, hst⟩ := hinv
  simp only at hlen hst hget ⊢
  unfold getAt at hget
  split at hget
  · simp at hget
  rename_i hlt
  have hlt : i < 2 ^ depth := by omega
  by_cases hi : i = 0
  · subst hi
    rw [pbits_zero_right] at hget
    obtain ⟨stack', hd, hl, _, hnew⟩ := descendLeft_spec depth 0 anchor stack leaf hget
    refine ⟨⟨1, stack'⟩, ?_, rfl, ?_, ?_⟩
    · rw [nodeIterNext_zero, hd]; rfl
    · simp [hl, hlen]
    · intro _ x hx
      have := hnew x hx (by omega)
      simp only [Nat.zero_add] at this
      simp only [Nat.sub_self]
      rw [this, pbits_zero_right, List.take_replicate, Nat.min_eq_left (by omega)]
  · obtain ⟨p, k, hbl, hpl, hpi, hpp⟩ := pbits_pred_split depth i (by omega) hlt
    have hidx : depth - bitLength (i ^^^ (i - 1)) = p.length := by omega
    rw [hpi] at hget
    obtain ⟨node, hnode, hrest⟩ := getPath_isSome_of_append hget
    have hstack : stack[p.length]? = some (some node) := by
      have := hst hi p.length (by omega)
      rw [hpp, List.take_left' rfl, hnode] at this
      exact this
    cases node with
    | leaf c => simp at hrest
    | pair l r =>
      simp only [getPath_pair_cons, if_true] at hrest
      obtain ⟨stack', hd, hl, hlow, hnew⟩ := descendLeft_spec k (p.length + 1) r stack leaf hrest
      refine ⟨⟨i + 1, stack'⟩, ?_, rfl, ?_, ?_⟩
      · rw [nodeIterNext_pos anchor depth i stack hi (.pair l r) r (by rw [hidx]; exact hstack) rfl,
          hidx, show depth - (p.length + 1) = k by omega, hd]
        rfl
      · simp [hl, hlen]
      · intro _ x hx
        simp only [Nat.add_sub_cancel]
        by_cases hxp : x < p.length + 1
        · rw [hlow x hxp, hst hi x hx, hpp, hpi]
          congr 2
          rw [List.take_append_of_le_length (by omega), List.take_append_of_le_length (by omega)]
        · obtain ⟨j, rfl⟩ : ∃ j, x = p.length + 1 + j := ⟨x - (p.length + 1), by omega⟩
          rw [hnew j (by omega) (by omega), hpi]
          congr 1
          have htake : List.take (p.length + 1 + j) (p ++ true :: List.replicate k false) =
              p ++ true :: List.replicate j false := by
            rw [List.take_append, List.take_of_length_le (by omega)]
            congr 1
            rw [show p.length + 1 + j - p.length = j + 1 by omega, List.take_succ_cons,
              List.take_replicate, Nat.min_eq_left (by omega)]
          rw [htake, getPath_append, hnode]
          simp

/-- Converse of one step: whatever `__next__` yields is the node direct navigation finds. -/
theorem nodeIterNext_sound (anchor : Node) (depth : Nat) (st : NodeIterState) (leaf : Node)
    (st' : NodeIterState) (hinv : NodeIterInv anchor depth st) (hlt : st.i < 2 ^ depth)
    (hnext : nodeIterNext anchor depth st = some (leaf, st')) :
    getAt anchor st.i depth = some leaf := by
  obtain ⟨i, stack⟩ := st
  obtain ⟨hlen, hst⟩ := hinv
  simp only at hlen hst hlt ⊢
  have hge : ¬ i ≥ 2 ^ depth := by omega
  simp only [getAt, hge, if_false]
  by_cases hi : i = 0
  · subst hi
    rw [nodeIterNext_zero] at hnext
    cases hd : descendLeft depth 0 anchor stack with
    | none => simp [hd] at hnext
    | some ls =>
      obtain ⟨lf, stk⟩ := ls
      simp [hd] at hnext
      rw [pbits_zero_right, ← hnext.1]
      exact descendLeft_some _ _ _ _ _ _ hd
  · obtain ⟨p, k, hbl, hpl, hpi, hpp⟩ := pbits_pred_split depth i (by omega) hlt
    have hidx : depth - bitLength (i ^^^ (i - 1)) = p.length := by omega
    have hsx := hst hi p.length (by omega)
    rw [hpp, List.take_left' rfl] at hsx
    cases hnode : getPath anchor p with
    | none =>
      rw [nodeIterNext_pos_none anchor depth i stack hi none (by rw [hidx, hsx, hnode]) rfl] at hnext
      simp at hnext
    | some node =>
      cases node with
      | leaf c =>
        rw [nodeIterNext_pos_none anchor depth i stack hi (some (.leaf c))
          (by rw [hidx, hsx, hnode]) rfl] at hnext
        simp at hnext
      | pair l r =>
        rw [nodeIterNext_pos anchor depth i stack hi (.pair l r) r
          (by rw [hidx, hsx, hnode]) rfl, hidx, show depth - (p.length + 1) = k by omega] at hnext
        cases hd : descendLeft k (p.length + 1) r stack with
        | none => simp [hd] at hnext
        | some ls =>
          obtain ⟨lf, stk⟩ := ls
          simp [hd] at hnext
          have := descendLeft_some _ _ _ _ _ _ hd
          rw [hpi, getPath_append, hnode, ← hnext.1]
          simpa using this

/-! ### the whole run -/

theorem nodeIterRun_spec (anchor : Node) (depth : Nat) (f : Nat → Node) (m : Nat)
    (st : NodeIterState) (hinv : NodeIterInv anchor depth st)
    (h : ∀ j, j < m → getAt anchor (st.i + j) depth = some (f (st.i + j))) :
    nodeIterRun anchor depth m st = some ((List.range' st.i m).map f) := by
  induction m generalizing st with
  | zero => simp [nodeIterRun]
  | succ m ih =>
    obtain ⟨st', hnext, hi', hinv'⟩ := nodeIterNext_spec anchor depth st (f st.i) hinv
      (by simpa using h 0 (by omega))
    have hrest := ih st' hinv' (by
      intro j hj
      rw [hi', show st.i + 1 + j = st.i + (j + 1) by omega]
      exact h (j + 1) (by omega))
    simp only [nodeIterRun, hnext, hrest, hi']
    simp [List.range'_succ]

/-- `nodeIter` agrees with direct navigation (function formulation): if `getAt anchor i depth`
    succeeds with `f i` for every `i < length`, the iterator yields exactly `f 0, …, f (length-1)`. -/
theorem nodeIter_eq_map (anchor : Node) (depth length : Nat) (f : Nat → Node)
    (hlen : length ≤ 2 ^ depth)
    (h : ∀ i, i < length → getAt anchor i depth = some (f i)) :
    nodeIter anchor depth length = some ((List.range length).map f) := by
  unfold nodeIter
  rw [if_neg (by omega)]
  have := nodeIterRun_spec anchor depth f length _ (nodeIterInv_init anchor depth)
    (by intro j hj; simpa using h j hj)
  rw [this, List.range_eq_range']

/-- C15: `NodeIter(anchor, depth, length)` yields exactly the nodes that direct navigation
    `getter(to_gindex(i, depth))` finds at `i = 0 … length-1`. -/
theorem nodeIter_eq_getAt (anchor : Node) (depth length : Nat) (nodes : List Node)
    (hlen : length ≤ 2 ^ depth)
    (h : ∀ i, i < length → getAt anchor i depth = some (nodes.getD i default))
    (hn : nodes.length = length) :
    nodeIter anchor depth length = some nodes := by
  rw [nodeIter_eq_map anchor depth length (fun i => nodes.getD i default) hlen h]
  congr 1
  apply List.ext_getElem
  · simp [hn]
  · intro i h1 h2
    simp at h1
    simp [List.getD, List.getElem?_eq_getElem (by omega : i < nodes.length)]

/-- Soundness of the run: everything the iterator yields is what direct navigation finds. -/
theorem nodeIterRun_sound (anchor : Node) (depth : Nat) (m : Nat) (st : NodeIterState)
    (out : List Node) (hinv : NodeIterInv anchor depth st) (hb : st.i + m ≤ 2 ^ depth)
    (hrun : nodeIterRun anchor depth m st = some out) :
    out.length = m ∧ ∀ j, j < m → getAt anchor (st.i + j) depth = some (out.getD j default) := by
  induction m generalizing st out with
  | zero =>
    simp [nodeIterRun] at hrun; subst hrun
    exact ⟨rfl, fun j hj => by omega⟩
  | succ m ih =>
    simp only [nodeIterRun] at hrun
    split at hrun
    · simp at hrun
    · rename_i n st' hnext
      have hg := nodeIterNext_sound anchor depth st n st' hinv (by omega) hnext
      obtain ⟨st'', hnext', hi', hinv'⟩ := nodeIterNext_spec anchor depth st n hinv hg
      rw [hnext] at hnext'
      simp only [Option.some.injEq, Prod.mk.injEq, true_and] at hnext'
      subst hnext'
      cases hr : nodeIterRun anchor depth m st' with
      | none => simp [hr] at hrun
      | some rest =>
        simp [hr] at hrun; subst hrun
        obtain ⟨hl, hall⟩ := ih st' rest hinv' (by omega) hr
        refine ⟨by simp [hl], ?_⟩
        intro j hj
        cases j with
        | zero => simpa using hg
        | succ j =>
          have := hall j (by omega)
          rw [hi', show st.i + 1 + j = st.i + (j + 1) by omega] at this
          simpa using this

/-- Converse of `nodeIter_eq_getAt`: if the iterator does not raise, it yielded `length` nodes and
    each is the node direct navigation finds.  Together: `nodeIter` succeeds iff every `getAt`
    succeeds, and then the yielded list is the list of the `getAt` results. -/
theorem nodeIter_some_getAt (anchor : Node) (depth length : Nat) (nodes : List Node)
    (h : nodeIter anchor depth length = some nodes) :
    length ≤ 2 ^ depth ∧ nodes.length = length ∧
      ∀ i, i < length → getAt anchor i depth = some (nodes.getD i default) := by
  unfold nodeIter at h
  split at h
  · simp at h
  · rename_i hlen
    have := nodeIterRun_sound anchor depth length _ nodes (nodeIterInv_init anchor depth)
      (by simp; omega) h
    refine ⟨by omega, this.1, ?_⟩
    intro i hi
    simpa using this.2 i hi

theorem nodeIter_eq_some_iff (anchor : Node) (depth length : Nat) (nodes : List Node) :
    nodeIter anchor depth length = some nodes ↔
      (length ≤ 2 ^ depth ∧ nodes.length = length ∧
        ∀ i, i < length → getAt anchor i depth = some (nodes.getD i default)) :=
  ⟨nodeIter_some_getAt anchor depth length nodes,
   fun ⟨h1, h2, h3⟩ => nodeIter_eq_getAt anchor depth length nodes h1 h3 h2⟩

/-! ### easy facts and the failure-free corollaries -/

theorem nodeIter_zero (anchor : Node) (depth : Nat) : nodeIter anchor depth 0 = some [] := by
  simp [nodeIter, nodeIterRun]

theorem nodeIter_too_long (anchor : Node) (depth length : Nat) (h : 2 ^ depth < length) :
    nodeIter anchor depth length = none := by
  simp [nodeIter, h]

/-- Failure-free corollary: when every bottom position of the depth-`depth` subtree is reachable
    (the tree is full down to `depth`), the iterator never raises for any `length ≤ 2^depth`, and
    yields the first `length` bottom nodes. -/
theorem nodeIter_full (anchor : Node) (depth length : Nat) (hlen : length ≤ 2 ^ depth)
    (hfull : ∀ i, i < 2 ^ depth → (getAt anchor i depth).isSome) :
    nodeIter anchor depth length =
      some ((List.range length).map fun i => (getAt anchor i depth).getD default) := by
  apply nodeIter_eq_map anchor depth length _ hlen
  intro i hi
  have := hfull i (by omega)
  cases hg : getAt anchor i depth with
  | none => simp [hg] at this
  | some n => simp

theorem nodeIter_full_isSome (anchor : Node) (depth length : Nat) (hlen : length ≤ 2 ^ depth)
    (hfull : ∀ i, i < 2 ^ depth → (getAt anchor i depth).isSome) :
    (nodeIter anchor depth length).isSome := by
  rw [nodeIter_full anchor depth length hlen hfull]; rfl

theorem getPath_fillToDepth (bottom : Node) (p : List Bool) :
    getPath (fillToDepth bottom p.length) p = some bottom := by
  induction p with
  | nil => simp [fillToDepth]
  | cons b bs ih => cases b <;> simp [fillToDepth, ih]

/-- The complete tree `subtree_fill_to_depth(bottom, depth)`: the iterator yields `length` copies of
    `bottom`. -/
theorem nodeIter_fillToDepth (bottom : Node) (depth length : Nat) (hlen : length ≤ 2 ^ depth) :
    nodeIter (fillToDepth bottom depth) depth length = some (List.replicate length bottom) := by
  rw [nodeIter_eq_map _ depth length (fun _ => bottom) hlen]
  · congr 1
    apply List.ext_getElem <;> simp
  · intro i hi
    have hge : ¬ i ≥ 2 ^ depth := by omega
    simp only [getAt, hge, if_false]
    have := getPath_fillToDepth bottom (pbits depth i)
    rwa [pbits_length] at this

end Rmk
