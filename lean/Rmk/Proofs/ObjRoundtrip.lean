/-
Object export / import round trip (property C16), over the model `Rmk/Spec/Obj.lean`.

For every well-formed type `t` and well-typed value `v`:
  1. `roundtrip`       : `fromObj t (toObj t v) = some v`
  2. `roundtrip_json`  : `fromObj t (jsonNorm (toObj t v)) = some v`   (through `json.dumps`/`loads`:
                         tuples become lists; in fact `fromObj t (jsonNorm o) = fromObj t o` for all `o`)
  3. `shape`           : `Shape t (toObj t v)`
plus `unhex_hexOf`, the strict bitfield decoders inverting the SSZ encoding, `toJson_jsonNorm`
(tuples print as arrays) and `fromObj_container_empty` (missing keys default to zero).
-/
import Rmk.Spec.Obj
import Rmk.Proofs.BytesLemmas
namespace Rmk.ObjRoundtrip
open Rmk Rmk.Spec Rmk.Obj

/-! ## hex -/

theorem hexVal_hexDigit : ∀ d : Fin 16, hexVal (hexDigit d.val) = some d.val := by decide

theorem hexVal_hexDigit' (d : Nat) (h : d < 16) : hexVal (hexDigit d) = some d :=
  hexVal_hexDigit ⟨d, h⟩

/-- the characters of `bytes.hex()` -/
def hexChars (bs : List UInt8) : List Char :=
  bs.flatMap fun b => [hexDigit (b.toNat / 16), hexDigit (b.toNat % 16)]

theorem hexOf_toList (bs : List UInt8) : (hexOf bs).toList = hexChars bs := by
  simp [hexOf, hexChars]

theorem hexChars_cons (b : UInt8) (bs : List UInt8) :
    hexChars (b :: bs) = hexDigit (b.toNat / 16) :: hexDigit (b.toNat % 16) :: hexChars bs := by
  simp [hexChars]

theorem unhexAux_hexChars (bs : List UInt8) : unhexAux (hexChars bs) = some bs := by
  induction bs with
  | nil => rfl
  | cons b bs ih =>
    have hb := UInt8.toNat_lt b
    have h1 : b.toNat / 16 < 16 := by omega
    have h2 : b.toNat % 16 < 16 := by omega
    have h3 : UInt8.ofNat (b.toNat / 16 * 16 + b.toNat % 16) = b := by
      have : b.toNat / 16 * 16 + b.toNat % 16 = b.toNat := by omega
      rw [this]; simp
    simp only [hexChars_cons, unhexAux, hexVal_hexDigit' _ h1, hexVal_hexDigit' _ h2, ih, h3,
      Option.bind_eq_bind, Option.bind_some, Option.pure_def]

theorem unhex_hexOf (bs : List UInt8) : unhex (hexOf bs) = some bs := by
  rw [unhex, hexOf_toList, unhexAux_hexChars]

theorem hexStr_toList (bs : List UInt8) : (hexStr bs).toList = '0' :: 'x' :: hexChars bs := by
  simp [hexStr, String.toList_append, hexOf_toList]

theorem strip0x_hexStr (bs : List UInt8) : strip0x (hexStr bs).toList = some (hexChars bs) := by
  rw [hexStr_toList]; rfl

/-! ## strict bitfield decoding -/

theorem decodeBitvector_bitsToBytes (n : Nat) (bs : List Bool) (h : bs.length = n) :
    decodeBitvector n (bitsToBytes bs) = some (.bits bs) := by
  subst h
  simp only [decodeBitvector, bitsToBytes_length, beq_self_eq_true, Bool.true_and,
    bytesToBits_bitsToBytes, bytesToBits_bitsToBytes_drop]
  simp

theorem dropWhile_replicate_false (k : Nat) (r : List Bool) :
    (List.replicate k false ++ true :: r).dropWhile (· == false) = true :: r := by
  induction k with
  | zero => simp
  | succ k _ => simp [List.replicate_succ, List.dropWhile]

theorem stripTrailingFalse_append_true (bs : List Bool) (k : Nat) :
    stripTrailingFalse ((bs ++ [true]) ++ List.replicate k false) = bs ++ [true] := by
  simp only [stripTrailingFalse, List.reverse_append, List.reverse_replicate, List.reverse_cons,
    List.reverse_nil, List.nil_append, List.singleton_append]
  rw [dropWhile_replicate_false]
  simp

/-- last byte of a packed bit string -/
theorem bitsToBytes_getLastD (bs : List Bool) (h : bs ≠ []) :
    (bitsToBytes bs).getLastD 0
      = UInt8.ofNat (bitsToNat (bs.drop (8 * ((bs.length + 7) / 8 - 1)))) := by
  have hpos : 0 < bs.length := List.length_pos_iff.mpr h
  have hlen : (groups 8 bs).length = (bs.length + 7) / 8 := by
    rw [groups_length (by decide : 0 < 8)]; omega
  have hi : (bs.length + 7) / 8 - 1 < (groups 8 bs).length := by omega
  have hg := groups_getElem (by decide : 0 < 8) bs _ hi
  rw [List.getLastD_eq_getLast?, List.getLast?_eq_getElem?]
  simp only [bitsToBytes, List.length_map, List.getElem?_map, hlen]
  rw [List.getElem?_eq_getElem hi, hg]
  simp only [Option.map_some, Option.getD_some]
  rw [List.take_of_length_le]
  simp only [List.length_drop]; omega

/-- the byte holding the delimiter bit is not zero -/
theorem bitsToBytes_delim_getLastD_ne (bs : List Bool) :
    (bitsToBytes (bs ++ [true])).getLastD 0 ≠ 0 := by
  have hne : bs ++ [true] ≠ [] := by simp
  have hlast := bitsToBytes_getLastD _ hne
  have hd : (bs ++ [true]).drop (8 * (((bs ++ [true]).length + 7) / 8 - 1))
      = bs.drop (8 * (bs.length / 8)) ++ [true] := by
    have e : 8 * (((bs ++ [true]).length + 7) / 8 - 1) = 8 * (bs.length / 8) := by
      simp only [List.length_append, List.length_cons, List.length_nil]; omega
    rw [e, List.drop_append_of_le_length (by omega)]
  have hgl : (bs.drop (8 * (bs.length / 8))).length = bs.length % 8 := by
    simp only [List.length_drop]; omega
  have hat : bitsToNat (bs.drop (8 * (bs.length / 8)) ++ [true])
      = 2 ^ (bs.length % 8) + bitsToNat (bs.drop (8 * (bs.length / 8))) := by
    rw [bitsToNat_append, hgl]; simp; omega
  rw [hd, hat] at hlast
  have hlt : bitsToNat (bs.drop (8 * (bs.length / 8))) < 2 ^ (bs.length % 8) := by
    have := bitsToNat_lt (bs.drop (8 * (bs.length / 8))); rwa [hgl] at this
  have hp : 2 ^ (bs.length % 8) ≤ 2 ^ 7 := Nat.pow_le_pow_right (by decide) (by omega)
  have hpos := Nat.two_pow_pos (bs.length % 8)
  have hv : (UInt8.ofNat (2 ^ (bs.length % 8) + bitsToNat (bs.drop (8 * (bs.length / 8))))).toNat
      = 2 ^ (bs.length % 8) + bitsToNat (bs.drop (8 * (bs.length / 8))) := by
    rw [UInt8.toNat_ofNat']; apply Nat.mod_eq_of_lt; omega
  intro h0
  rw [hlast] at h0
  have := congrArg UInt8.toNat h0
  rw [hv] at this
  simp at this

theorem decodeBitlist_bitsToBytes (lim : Nat) (bs : List Bool) (h : bs.length ≤ lim) :
    decodeBitlist lim (bitsToBytes (bs ++ [true])) = some (.bits bs) := by
  have h0 := bitsToBytes_delim_getLastD_ne bs
  have h1 : ((bitsToBytes (bs ++ [true])).getLastD 0 == 0) = false := by simpa using h0
  simp only [decodeBitlist, h1, Bool.false_eq_true, if_false, bytesToBits_bitsToBytes_eq,
    stripTrailingFalse_append_true, List.dropLast_concat, h, if_true]

/-! ## generic helpers -/

theorem optMapM_map {α β} (f : β → Option α) (g : α → β) (vs : List α)
    (h : ∀ v ∈ vs, f (g v) = some v) : optMapM f (vs.map g) = some vs := by
  induction vs with
  | nil => rfl
  | cons v vs ih =>
    have h1 := h v (by simp)
    have h2 := ih (fun w hw => h w (by simp [hw]))
    simp only [List.map_cons, optMapM, h1, h2]

/-! ## field names -/

theorem toString_inj {i j : Nat} (h : toString i = toString j) : i = j := by
  simp only [Nat.toString_eq_repr] at h
  have h' := congrArg String.toList h
  simp only [Nat.toList_repr] at h'
  rw [← Nat.ofDigitChars_ten_toDigits (n := i), ← Nat.ofDigitChars_ten_toDigits (n := j), h']

theorem fieldName_inj {i j : Nat} (h : fieldName i = fieldName j) : i = j := by
  apply toString_inj
  have h' := congrArg String.toList h
  simp only [fieldName, String.toList_append, List.append_cancel_left_eq] at h'
  exact String.toList_inj.mp h'

theorem fieldName_beq (i j : Nat) : (fieldName i == fieldName j) = decide (i = j) := by
  by_cases h : i = j
  · subst h; simp
  · have : fieldName i ≠ fieldName j := fun e => h (fieldName_inj e)
    simp [h, this]


/-! ## dict lookup -/

/-- every key of `pre` is the name of a field below `i` -/
def KeysBelow (i : Nat) (pre : List (String × Obj)) : Prop :=
  ∀ p ∈ pre, ∃ j, j < i ∧ p.1 = fieldName j

theorem lookup_after_pre (i : Nat) (pre rest : List (String × Obj)) (o : Obj)
    (h : KeysBelow i pre) :
    (pre ++ (fieldName i, o) :: rest).lookup (fieldName i) = some o := by
  induction pre with
  | nil => simp
  | cons p pre ih =>
    obtain ⟨j, hj, hp⟩ := h p (by simp)
    obtain ⟨k, x⟩ := p
    simp only at hp
    subst hp
    have hne : (fieldName i == fieldName j) = false := by
      rw [fieldName_beq]; simp; omega
    simp only [List.cons_append, List.lookup_cons, hne]
    exact ih (fun q hq => h q (by simp [hq]))

theorem keysBelow_snoc (i : Nat) (pre : List (String × Obj)) (o : Obj) (h : KeysBelow i pre) :
    KeysBelow (i + 1) (pre ++ [(fieldName i, o)]) := by
  intro p hp
  simp only [List.mem_append, List.mem_singleton] at hp
  rcases hp with hp | rfl
  · obtain ⟨j, hj, e⟩ := h p hp
    exact ⟨j, by omega, e⟩
  · exact ⟨i, by omega, rfl⟩

theorem mem_toObjFields (ts : List Ty) (i : Nat) (vs : List Val) (p : String × Obj)
    (hp : p ∈ toObjFields ts i vs) : ∃ j, i ≤ j ∧ j < i + ts.length ∧ p.1 = fieldName j := by
  induction ts generalizing i vs with
  | nil => simp [toObjFields] at hp
  | cons t ts ih =>
    cases vs with
    | nil => simp [toObjFields] at hp
    | cons v vs =>
      simp only [toObjFields, List.mem_cons] at hp
      rcases hp with rfl | hp
      · exact ⟨i, by omega, by simp, rfl⟩
      · obtain ⟨j, h1, h2, h3⟩ := ih (i + 1) vs hp
        exact ⟨j, by omega, by simp only [List.length_cons]; omega, h3⟩

theorem keys_known (fs : List Ty) (vs : List Val) :
    (toObjFields fs 0 vs).all (fun kv => (fieldNames fs.length).contains kv.1) = true := by
  rw [List.all_eq_true]
  intro p hp
  obtain ⟨j, _, h2, h3⟩ := mem_toObjFields fs 0 vs p hp
  simp only [fieldNames, List.contains_eq_mem, List.mem_map, List.mem_range, decide_eq_true_eq]
  exact ⟨j, by omega, h3.symm⟩

theorem wtOpt_lt (ts : List Ty) (k : Nat) (v : Val) (h : WTopt ts k v = true) : k < ts.length := by
  induction ts generalizing k with
  | nil => simp [WTopt] at h
  | cons t ts ih =>
    cases k with
    | zero => simp
    | succ k => simp only [WTopt] at h; have := ih k h; simp only [List.length_cons]; omega

/-! ## 1. `from_obj(to_obj(v)) = v` -/

mutual
theorem rt (t : Ty) (v : Val) (hwf : t.wf = true) (hwt : WT t v = true) :
    fromObj t (toObj t v) = some v := by
  cases t with
  | uint nb =>
    cases v with
    | num n =>
      simp only [WT, decide_eq_true_eq] at hwt
      simp only [toObj]
      split
      · simp only [fromObj, strip0x_hexStr, unhexAux_hexChars, Option.bind_some,
          fromLE_toLE' nb n hwt, checkUint, hwt, if_true]
      · simp only [fromObj, checkUint, hwt, if_true]
    | _ => simp [WT] at hwt
  | bool =>
    cases v with
    | num n =>
      simp only [WT, decide_eq_true_eq] at hwt
      have : n = 0 ∨ n = 1 := by omega
      rcases this with rfl | rfl <;> simp [toObj, fromObj]
    | _ => simp [WT] at hwt
  | bitvector n =>
    cases v with
    | bits bs =>
      simp only [WT, beq_iff_eq] at hwt
      simp only [toObj, serialize, fromObj, strip0x_hexStr, unhexAux_hexChars, Option.bind_some,
        decodeBitvector_bitsToBytes n bs hwt]
    | _ => simp [WT] at hwt
  | bitlist lim =>
    cases v with
    | bits bs =>
      simp only [WT, decide_eq_true_eq] at hwt
      simp only [toObj, serialize, fromObj, strip0x_hexStr, unhexAux_hexChars, Option.bind_some,
        decodeBitlist_bitsToBytes lim bs hwt]
    | _ => simp [WT] at hwt
  | bytevector n =>
    cases v with
    | bytes bs =>
      simp only [WT] at hwt
      simp only [toObj, fromObj, bytesFromStr, strip0x_hexStr, unhexAux_hexChars, Option.bind_some,
        mkBytevector, hwt, if_true]
    | _ => simp [WT] at hwt
  | bytelist lim =>
    cases v with
    | bytes bs =>
      simp only [WT, decide_eq_true_eq] at hwt
      simp only [toObj, fromObj, bytesFromStr, strip0x_hexStr, unhexAux_hexChars, Option.bind_some,
        mkBytelist, hwt, if_true]
    | _ => simp [WT] at hwt
  | vector t n =>
    cases v with
    | seq vs =>
      simp [WT] at hwt
      simp [Ty.wf] at hwf
      have h := optMapM_map (fromObj t) (toObj t) vs (fun w hw => rt t w hwf.2 (hwt.2 w hw))
      simp only [toObj, fromObj, List.length_map, hwt.1, beq_self_eq_true, if_true, h,
        Option.map_some]
    | _ => simp [WT] at hwt
  | list t lim =>
    cases v with
    | seq vs =>
      simp [WT] at hwt
      simp [Ty.wf] at hwf
      have h := optMapM_map (fromObj t) (toObj t) vs (fun w hw => rt t w hwf (hwt.2 w hw))
      simp only [toObj, fromObj, List.length_map, hwt.1, if_true, h, Option.map_some]
    | _ => simp [WT] at hwt
  | container fs =>
    cases v with
    | seq vs =>
      simp only [WT] at hwt
      simp [Ty.wf] at hwf
      have h := rtFields fs 0 vs [] hwf.2 hwt (by intro p hp; simp at hp)
      simp only [List.nil_append] at h
      simp only [toObj, fromObj, keys_known, if_true, h, Option.map_some]
    | _ => simp [WT] at hwt
  | union hasNone opts =>
    cases v with
    | un sel w =>
      simp only [WT] at hwt
      simp [Ty.wf] at hwf
      by_cases hc : (hasNone && sel == 0) = true
      · simp only [hc, if_true] at hwt
        cases w with
        | none =>
          have hsel : ¬ (sel ≥ optCount hasNone opts) := by
            simp at hc; simp [optCount, hc]
          simp [toObj, fromObj, hc, List.lookup_cons, hsel]
        | _ => simp at hwt
      · simp only [hc] at hwt
        have hlt := wtOpt_lt opts _ w hwt
        have hsel : ¬ (sel ≥ optCount hasNone opts) := by
          simp only [optCount, optIndex] at *
          cases hasNone <;> simp at * <;> omega
        have h := rtOpt opts (optIndex hasNone sel) w hwf.2 hwt
        simp [toObj, fromObj, hc, List.lookup_cons, hsel, h]
    | _ => simp [WT] at hwt

theorem rtFields (ts : List Ty) (i : Nat) (vs : List Val) (pre : List (String × Obj))
    (hwf : Ty.wfList ts = true) (hwt : WTs ts vs = true) (hpre : KeysBelow i pre) :
    fromObjFields ts i (pre ++ toObjFields ts i vs) = some vs := by
  cases ts with
  | nil =>
    cases vs with
    | nil => simp [fromObjFields]
    | cons v vs => simp [WTs] at hwt
  | cons t ts =>
    cases vs with
    | nil => simp [WTs] at hwt
    | cons v vs =>
      simp [WTs] at hwt
      simp [Ty.wfList] at hwf
      have h1 := rt t v hwf.1 hwt.1
      have h2 := rtFields ts (i + 1) vs (pre ++ [(fieldName i, toObj t v)]) hwf.2 hwt.2
        (keysBelow_snoc i pre _ hpre)
      simp only [List.append_assoc, List.singleton_append] at h2
      simp only [toObjFields, fromObjFields, lookup_after_pre i pre _ _ hpre, h1, h2]

theorem rtOpt (ts : List Ty) (k : Nat) (v : Val) (hwf : Ty.wfList ts = true)
    (hwt : WTopt ts k v = true) : fromObjOpt ts k (toObjOpt ts k v) = some v := by
  cases ts with
  | nil => simp [WTopt] at hwt
  | cons t ts =>
    simp [Ty.wfList] at hwf
    cases k with
    | zero =>
      simp only [WTopt] at hwt
      simp only [toObjOpt, fromObjOpt, rt t v hwf.1 hwt]
    | succ k =>
      simp only [WTopt] at hwt
      simp only [toObjOpt, fromObjOpt, rtOpt ts k v hwf.2 hwt]
end

theorem roundtrip (t : Ty) (v : Val) (hwf : t.wf = true) (hwt : WT t v = true) :
    fromObj t (toObj t v) = some v := rt t v hwf hwt

/-! ## 2. the same through JSON: `fromObj` does not distinguish tuples from lists -/

theorem jsonNormList_eq (xs : List Obj) : jsonNormList xs = xs.map jsonNorm := by
  induction xs with
  | nil => rfl
  | cons x xs ih => simp [jsonNormList, ih]

theorem lookup_jsonNormKvs (k : String) (kvs : List (String × Obj)) :
    (jsonNormKvs kvs).lookup k = (kvs.lookup k).map jsonNorm := by
  induction kvs with
  | nil => rfl
  | cons p kvs ih =>
    obtain ⟨a, x⟩ := p
    simp only [jsonNormKvs, List.lookup_cons]
    cases k == a <;> simp [ih]

theorem all_keys_jsonNormKvs (P : String → Bool) (kvs : List (String × Obj)) :
    (jsonNormKvs kvs).all (fun kv => P kv.1) = kvs.all (fun kv => P kv.1) := by
  induction kvs with
  | nil => rfl
  | cons p kvs ih =>
    obtain ⟨a, x⟩ := p
    simp [jsonNormKvs, ih]

theorem truthy_jsonNorm (o : Obj) : truthy (jsonNorm o) = truthy o := by
  cases o with
  | arr xs => cases xs <;> simp [jsonNorm, truthy, jsonNormList]
  | tup xs => cases xs <;> simp [jsonNorm, truthy, jsonNormList]
  | dict kvs =>
    cases kvs with
    | nil => simp [jsonNorm, truthy, jsonNormKvs]
    | cons p kvs => obtain ⟨a, x⟩ := p; simp [jsonNorm, truthy, jsonNormKvs]
  | _ => simp [jsonNorm]

theorem byteOfObj_jsonNorm (o : Obj) : byteOfObj (jsonNorm o) = byteOfObj o := by
  cases o <;> simp [jsonNorm, byteOfObj]

theorem optMapM_congr {α β} (f g : α → Option β) (xs : List α) (h : ∀ x ∈ xs, f x = g x) :
    optMapM f xs = optMapM g xs := by
  induction xs with
  | nil => rfl
  | cons x xs ih =>
    have h1 := h x (by simp)
    have h2 := ih (fun y hy => h y (by simp [hy]))
    simp only [optMapM, h1, h2]

theorem optMapM_map' {α β γ} (f : β → Option γ) (g : α → β) (xs : List α) :
    optMapM f (xs.map g) = optMapM (fun x => f (g x)) xs := by
  induction xs with
  | nil => rfl
  | cons x xs ih => simp only [List.map_cons, optMapM, ih]

theorem optMapM_jsonNormList {β} (f : Obj → Option β) (xs : List Obj)
    (h : ∀ x, f (jsonNorm x) = f x) : optMapM f (jsonNormList xs) = optMapM f xs := by
  rw [jsonNormList_eq, optMapM_map']
  exact optMapM_congr _ _ xs (fun x _ => h x)

theorem map_truthy_jsonNormList (xs : List Obj) :
    (jsonNormList xs).map truthy = xs.map truthy := by
  rw [jsonNormList_eq, List.map_map]
  apply List.map_congr_left
  intro x _; exact truthy_jsonNorm x

theorem length_jsonNormList (xs : List Obj) : (jsonNormList xs).length = xs.length := by
  rw [jsonNormList_eq, List.length_map]

mutual
theorem fromObj_jsonNorm (t : Ty) (o : Obj) : fromObj t (jsonNorm o) = fromObj t o := by
  cases t with
  | uint nb => cases o <;> simp [jsonNorm, fromObj]
  | bool => cases o <;> simp [jsonNorm, fromObj]
  | bitvector n => cases o <;> simp [jsonNorm, fromObj, map_truthy_jsonNormList]
  | bitlist lim => cases o <;> simp [jsonNorm, fromObj, map_truthy_jsonNormList]
  | bytevector n =>
    cases o <;>
      simp [jsonNorm, fromObj, optMapM_jsonNormList byteOfObj _ byteOfObj_jsonNorm]
  | bytelist lim =>
    cases o <;>
      simp [jsonNorm, fromObj, optMapM_jsonNormList byteOfObj _ byteOfObj_jsonNorm]
  | vector t n =>
    cases o <;>
      simp [jsonNorm, fromObj, length_jsonNormList,
        optMapM_jsonNormList (fromObj t) _ (fromObj_jsonNorm t)]
  | list t lim =>
    cases o <;>
      simp [jsonNorm, fromObj, length_jsonNormList,
        optMapM_jsonNormList (fromObj t) _ (fromObj_jsonNorm t)]
  | container fs =>
    cases o with
    | dict kvs =>
      simp only [jsonNorm, fromObj, all_keys_jsonNormKvs (fun k => (fieldNames fs.length).contains k),
        fromObjFields_jsonNorm fs 0 kvs]
    | _ => simp [jsonNorm, fromObj]
  | union hasNone opts =>
    cases o with
    | dict kvs =>
      simp only [jsonNorm, fromObj, lookup_jsonNormKvs]
      cases kvs.lookup "selector" with
      | none => simp
      | some s =>
        cases kvs.lookup "value" with
        | none => cases s <;> simp [jsonNorm]
        | some w =>
          cases s with
          | num sel =>
            simp only [Option.map_some, jsonNorm]
            split
            · rfl
            · split
              · cases w <;> simp [jsonNorm]
              · rw [fromObjOpt_jsonNorm]
          | _ => simp [jsonNorm]
    | _ => simp [jsonNorm, fromObj]

theorem fromObjFields_jsonNorm (ts : List Ty) (i : Nat) (kvs : List (String × Obj)) :
    fromObjFields ts i (jsonNormKvs kvs) = fromObjFields ts i kvs := by
  cases ts with
  | nil => simp [fromObjFields]
  | cons t ts =>
    simp only [fromObjFields, lookup_jsonNormKvs, fromObjFields_jsonNorm ts (i + 1) kvs]
    cases kvs.lookup (fieldName i) with
    | none => simp
    | some o => simp only [Option.map_some, fromObj_jsonNorm t o]

theorem fromObjOpt_jsonNorm (ts : List Ty) (k : Nat) (o : Obj) :
    fromObjOpt ts k (jsonNorm o) = fromObjOpt ts k o := by
  cases ts with
  | nil => simp [fromObjOpt]
  | cons t ts =>
    cases k with
    | zero => simp only [fromObjOpt, fromObj_jsonNorm t o]
    | succ k => simp only [fromObjOpt, fromObjOpt_jsonNorm ts k o]
end

theorem roundtrip_json (t : Ty) (v : Val) (hwf : t.wf = true) (hwt : WT t v = true) :
    fromObj t (jsonNorm (toObj t v)) = some v := by
  rw [fromObj_jsonNorm]; exact roundtrip t v hwf hwt

/-! ## 3. the shape of the exported object -/

mutual
/-- what `to_obj` of a value of type `t` looks like: ints for uint8..uint64, `"0x" + hex` strings of
    the right byte length for uint128/uint256, bitfields (SSZ encoding, bitlists with the delimiter
    byte) and byte arrays, a bool for boolean, a `list` for List, a `tuple` for Vector, a dict with
    exactly the field names in order for Container, a selector/value dict for Union. -/
def Shape : Ty → Obj → Prop
  | .uint nb, o =>
    if nb ≤ 8 then ∃ n, o = .num n else ∃ bs : List UInt8, o = .str (hexStr bs) ∧ bs.length = nb
  | .bool, o => ∃ b, o = .bool b
  | .bitvector n, o => ∃ bs : List UInt8, o = .str (hexStr bs) ∧ bs.length = (n + 7) / 8
  | .bitlist lim, o =>
    ∃ bs : List UInt8, o = .str (hexStr bs) ∧ 1 ≤ bs.length ∧ bs.length ≤ lim / 8 + 1
  | .bytevector n, o => ∃ bs : List UInt8, o = .str (hexStr bs) ∧ bs.length = n
  | .bytelist lim, o => ∃ bs : List UInt8, o = .str (hexStr bs) ∧ bs.length ≤ lim
  | .vector t n, o => ∃ xs, o = .tup xs ∧ xs.length = n ∧ ∀ x ∈ xs, Shape t x
  | .list t lim, o => ∃ xs, o = .arr xs ∧ xs.length ≤ lim ∧ ∀ x ∈ xs, Shape t x
  | .container fs, o => ∃ kvs, o = .dict kvs ∧ ShapeFields fs 0 kvs
  | .union hasNone opts, o =>
    ∃ sel x, o = .dict [("selector", .num sel), ("value", x)] ∧ sel < optCount hasNone opts ∧
      (if hasNone && sel == 0 then x = .null else ShapeOpt opts (optIndex hasNone sel) x)
/-- exactly the keys `f i, f (i+1), …` in this order, each value of the field's shape -/
def ShapeFields : List Ty → Nat → List (String × Obj) → Prop
  | [], _, kvs => kvs = []
  | t :: ts, i, kvs =>
    ∃ x rest, kvs = (fieldName i, x) :: rest ∧ Shape t x ∧ ShapeFields ts (i + 1) rest
def ShapeOpt : List Ty → Nat → Obj → Prop
  | [], _, _ => False
  | t :: _, 0, o => Shape t o
  | _ :: ts, k+1, o => ShapeOpt ts k o
end

mutual
theorem shape (t : Ty) (v : Val) (hwf : t.wf = true) (hwt : WT t v = true) :
    Shape t (toObj t v) := by
  cases t with
  | uint nb =>
    cases v with
    | num n =>
      simp [Ty.wf] at hwf
      simp only [toObj, Shape]
      rcases hwf with ((((rfl | rfl) | rfl) | rfl) | rfl) | rfl
      · simp
      · simp
      · simp
      · simp
      · exact ⟨toLE 16 n, by simp, by simp⟩
      · exact ⟨toLE 32 n, by simp, by simp⟩
    | _ => simp [WT] at hwt
  | bool =>
    cases v with
    | num n => exact ⟨n != 0, by simp [toObj]⟩
    | _ => simp [WT] at hwt
  | bitvector n =>
    cases v with
    | bits bs =>
      simp only [WT, beq_iff_eq] at hwt
      exact ⟨bitsToBytes bs, by simp [toObj, serialize], by rw [bitsToBytes_length, hwt]⟩
    | _ => simp [WT] at hwt
  | bitlist lim =>
    cases v with
    | bits bs =>
      simp only [WT, decide_eq_true_eq] at hwt
      refine ⟨bitsToBytes (bs ++ [true]), by simp [toObj, serialize], ?_, ?_⟩ <;>
        · rw [bitsToBytes_length]
          simp only [List.length_append, List.length_cons, List.length_nil]
          omega
    | _ => simp [WT] at hwt
  | bytevector n =>
    cases v with
    | bytes bs =>
      simp only [WT, beq_iff_eq] at hwt
      exact ⟨bs, by simp [toObj], hwt⟩
    | _ => simp [WT] at hwt
  | bytelist lim =>
    cases v with
    | bytes bs =>
      simp only [WT, decide_eq_true_eq] at hwt
      exact ⟨bs, by simp [toObj], hwt⟩
    | _ => simp [WT] at hwt
  | vector t n =>
    cases v with
    | seq vs =>
      simp [WT] at hwt
      simp [Ty.wf] at hwf
      refine ⟨vs.map (toObj t), by simp [toObj], by simp [hwt.1], ?_⟩
      intro x hx
      obtain ⟨w, hw, rfl⟩ := List.mem_map.mp hx
      exact shape t w hwf.2 (hwt.2 w hw)
    | _ => simp [WT] at hwt
  | list t lim =>
    cases v with
    | seq vs =>
      simp [WT] at hwt
      simp [Ty.wf] at hwf
      refine ⟨vs.map (toObj t), by simp [toObj], by simp [hwt.1], ?_⟩
      intro x hx
      obtain ⟨w, hw, rfl⟩ := List.mem_map.mp hx
      exact shape t w hwf (hwt.2 w hw)
    | _ => simp [WT] at hwt
  | container fs =>
    cases v with
    | seq vs =>
      simp only [WT] at hwt
      simp [Ty.wf] at hwf
      exact ⟨toObjFields fs 0 vs, by simp [toObj], shapeFields fs 0 vs hwf.2 hwt⟩
    | _ => simp [WT] at hwt
  | union hasNone opts =>
    cases v with
    | un sel w =>
      simp only [WT] at hwt
      simp [Ty.wf] at hwf
      by_cases hc : (hasNone && sel == 0) = true
      · have hsel : sel < optCount hasNone opts := by
          simp at hc; obtain ⟨rfl, rfl⟩ := hc; simp only [optCount, if_true]; omega
        exact ⟨sel, .null, by simp [toObj, hc], hsel, by simp [hc]⟩
      · simp only [hc] at hwt
        have hlt := wtOpt_lt opts _ w hwt
        have hsel : sel < optCount hasNone opts := by
          simp only [optCount, optIndex] at *
          cases hasNone <;> simp at * <;> omega
        refine ⟨sel, toObjOpt opts (optIndex hasNone sel) w, by simp [toObj, hc], hsel, ?_⟩
        simp only [hc]
        exact shapeOpt opts _ w hwf.2 hwt
    | _ => simp [WT] at hwt

theorem shapeFields (ts : List Ty) (i : Nat) (vs : List Val)
    (hwf : Ty.wfList ts = true) (hwt : WTs ts vs = true) :
    ShapeFields ts i (toObjFields ts i vs) := by
  cases ts with
  | nil =>
    cases vs with
    | nil => simp [ShapeFields, toObjFields]
    | cons v vs => simp [WTs] at hwt
  | cons t ts =>
    cases vs with
    | nil => simp [WTs] at hwt
    | cons v vs =>
      simp [WTs] at hwt
      simp [Ty.wfList] at hwf
      exact ⟨toObj t v, toObjFields ts (i + 1) vs, by simp [toObjFields],
        shape t v hwf.1 hwt.1, shapeFields ts (i + 1) vs hwf.2 hwt.2⟩

theorem shapeOpt (ts : List Ty) (k : Nat) (v : Val) (hwf : Ty.wfList ts = true)
    (hwt : WTopt ts k v = true) : ShapeOpt ts k (toObjOpt ts k v) := by
  cases ts with
  | nil => simp [WTopt] at hwt
  | cons t ts =>
    simp [Ty.wfList] at hwf
    cases k with
    | zero =>
      simp only [WTopt] at hwt
      simp only [toObjOpt, ShapeOpt]
      exact shape t v hwf.1 hwt
    | succ k =>
      simp only [WTopt] at hwt
      simp only [toObjOpt, ShapeOpt]
      exact shapeOpt ts k v hwf.2 hwt
end

/-! ## JSON text: tuples print as arrays -/

theorem isEmpty_jsonNormList (xs : List Obj) : (jsonNormList xs).isEmpty = xs.isEmpty := by
  cases xs <;> simp [jsonNormList]

theorem isEmpty_jsonNormKvs (kvs : List (String × Obj)) :
    (jsonNormKvs kvs).isEmpty = kvs.isEmpty := by
  cases kvs with
  | nil => simp [jsonNormKvs]
  | cons p kvs => obtain ⟨a, x⟩ := p; simp [jsonNormKvs]

mutual
theorem toJson_jsonNorm (o : Obj) : toJson (jsonNorm o) = toJson o := by
  cases o with
  | arr xs => simp only [jsonNorm, toJson, toJsonList_jsonNorm xs]
  | tup xs => simp only [jsonNorm, toJson, toJsonList_jsonNorm xs]
  | dict kvs => simp only [jsonNorm, toJson, toJsonKvs_jsonNorm kvs]
  | _ => simp only [jsonNorm]

theorem toJsonList_jsonNorm (xs : List Obj) : toJsonList (jsonNormList xs) = toJsonList xs := by
  cases xs with
  | nil => simp only [jsonNormList]
  | cons x xs =>
    simp only [jsonNormList, toJsonList, toJson_jsonNorm x, toJsonList_jsonNorm xs,
      isEmpty_jsonNormList]

theorem toJsonKvs_jsonNorm (kvs : List (String × Obj)) :
    toJsonKvs (jsonNormKvs kvs) = toJsonKvs kvs := by
  cases kvs with
  | nil => simp only [jsonNormKvs]
  | cons p kvs =>
    obtain ⟨a, x⟩ := p
    simp only [jsonNormKvs, toJsonKvs, toJson_jsonNorm x, toJsonKvs_jsonNorm kvs,
      isEmpty_jsonNormKvs]
end

/-! ## missing keys take the zero value -/

theorem fromObjFields_nil (ts : List Ty) (i : Nat) : fromObjFields ts i [] = some (zeroVals ts) := by
  induction ts generalizing i with
  | nil => simp [fromObjFields, zeroVals]
  | cons t ts ih => simp [fromObjFields, zeroVals, ih]

theorem fromObj_container_empty (fs : List Ty) :
    fromObj (.container fs) (.dict []) = some (zeroVal (.container fs)) := by
  simp [fromObj, fromObjFields_nil, zeroVal]

end Rmk.ObjRoundtrip
