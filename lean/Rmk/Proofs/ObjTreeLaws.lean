/-
`to_obj()` computed FROM THE TREE (`Impl.toObjTree`: read-only iterators + the tree-reading serialiser)
equals `to_obj` of the plain value (`Obj.toObj`) on every tree that represents the value.
-/
import Rmk.Impl.ObjTree
import Rmk.Properties.C15
import Rmk.Properties.C02
namespace Rmk.ObjTreeLaws
open Rmk Rmk.Impl Rmk.Spec Rmk.Obj Rmk.ReprBasics

/-- element-wise step: nodes that represent the elements export to the elements' objects -/
theorem allSome_toObjTree (H : Hash) (et : Ty) :
    ∀ (vs : List Val) (ns : List Node), AllRel (Impl.Repr H et) vs ns →
      (∀ v n, Impl.Repr H et v n → Impl.toObjTree H et n = some (Obj.toObj et v)) →
      allSome (ns.map fun c => Impl.toObjTree H et c) = some (vs.map (Obj.toObj et))
  | [], [], _, _ => by simp [allSome]
  | [], _ :: _, h, _ => by simp only [AllRel] at h
  | _ :: _, [], h, _ => by simp only [AllRel] at h
  | v :: vs, n :: ns, h, ih => by
    simp only [AllRel] at h
    have h1 := ih v n h.1
    have h2 := allSome_toObjTree H et vs ns h.2 ih
    simp only [List.map_cons, h1, allSome, h2, Option.map_some]

mutual
/-- MAIN THEOREM: on every tree that represents `v` (whatever its history), the library's `to_obj()` — computed
    from the tree — is `to_obj` of the plain value. -/
theorem toObjTree_repr (H : Hash) (t : Ty) (v : Val) (n : Node) (hwf : t.wf = true)
    (hlim : ReprBasics.limitsOk t = true) (h : Impl.Repr H t v n) :
    Impl.toObjTree H t n = some (Obj.toObj t v) := by
  cases t with
  | uint nb =>
    have hr := C15.indexed_read H _ v n hwf hlim h
    simp only [readVal] at hr
    simp only [toObjTree, hr, Option.map_some]
  | bool =>
    have hr := C15.indexed_read H _ v n hwf hlim h
    simp only [readVal] at hr
    simp only [toObjTree, hr, Option.map_some]
  | bitvector k =>
    have hs := C02.serialize_from_tree H _ v n hwf hlim h
    cases v <;> simp only [Impl.Repr] at h
    simp only [toObjTree, hs, Option.map_some, toObj]
  | bitlist k =>
    have hs := C02.serialize_from_tree H _ v n hwf hlim h
    cases v <;> simp only [Impl.Repr] at h
    simp only [toObjTree, hs, Option.map_some, toObj]
  | bytevector k =>
    have hs := C02.serialize_from_tree H _ v n hwf hlim h
    cases v <;> simp only [Impl.Repr] at h
    simp only [toObjTree, hs, Option.map_some, toObj, serialize]
  | bytelist k =>
    have hs := C02.serialize_from_tree H _ v n hwf hlim h
    cases v <;> simp only [Impl.Repr] at h
    simp only [toObjTree, hs, Option.map_some, toObj, serialize]
  | vector et len =>
    cases v <;> try (simp only [Impl.Repr] at h)
    rename_i vs
    have hwf' : et.wf = true := by
      simp [Ty.wf] at hwf; exact hwf.2
    have hlim' : limitsOk et = true := by
      simpa only [limitsOk] using hlim
    by_cases hb : et.isBasic = true
    · have hp := (C15.packed_iteration H et len vs n hwf' hb).1 h
      simp only [toObjTree, hb, if_true, hp, Option.map_some, toObj]
    · have hb' : et.isBasic = false := by simpa using hb
      obtain ⟨ns, hit, hall⟩ := (C15.node_iteration H et len [] vs n hb').1 h
      have hl := allSome_toObjTree H et vs ns hall
        (fun v n hr => toObjTree_repr H et v n hwf' hlim' hr)
      simp only [toObjTree, hb', Bool.false_eq_true, if_false, hit, hl, Option.map_some, toObj]
  | list et lim =>
    cases v <;> try (simp only [Impl.Repr] at h)
    rename_i vs
    have hwf' : et.wf = true := by
      simpa only [Ty.wf] using hwf
    have hlims : lim < 2 ^ 256 ∧ limitsOk et = true := by
      simpa [limitsOk] using hlim
    have hlen : listLength H n = some vs.length := by
      obtain ⟨hle, c, rfl, _⟩ := h
      exact listLength_mixin H c _ (by omega)
    by_cases hb : et.isBasic = true
    · have hp := (C15.packed_iteration H et lim vs n hwf' hb).2 h
      simp only [toObjTree, hlen, hb, if_true, hp, Option.map_some, toObj]
    · have hb' : et.isBasic = false := by simpa using hb
      obtain ⟨ns, hit, hall⟩ := (C15.node_iteration H et lim [] vs n hb').2.1 h
      have hl := allSome_toObjTree H et vs ns hall
        (fun v n hr => toObjTree_repr H et v n hwf' hlims.2 hr)
      simp only [toObjTree, hlen, hb', Bool.false_eq_true, if_false, hit, hl, Option.map_some, toObj]
  | container fs =>
    cases v <;> try (simp only [Impl.Repr] at h)
    rename_i vs
    have hwf' : Ty.wfList fs = true := by
      simp [Ty.wf] at hwf; exact hwf.2
    have hlim' : limitsOkList fs = true := by
      simpa only [limitsOk] using hlim
    obtain ⟨ns, hit, hf⟩ := (C15.node_iteration H (.bitvector 1) 0 fs vs n rfl).2.2 h
    have hfs := toObjTreeFields_repr H fs vs ns 0 hwf' hlim' hf
    simp only [toObjTree, hit, hfs, Option.map_some, toObj]
  | union hasNone opts =>
    cases v <;> try (simp only [Impl.Repr] at h)
    rename_i sel v
    have hwf' : Ty.wfList opts = true := by
      simp [Ty.wf] at hwf; exact hwf.2
    have hcnt : optCount hasNone opts ≤ 128 := by
      simp [Ty.wf] at hwf; exact hwf.1.1.2
    have hlim' : limitsOkList opts = true := by
      simpa only [limitsOk] using hlim
    obtain ⟨hsel, c, rfl, h⟩ := h
    have hsel' : sel < 2 ^ 256 := by omega
    simp only [toObjTree, getLeft, getRight, readLen_lenNode H sel hsel']
    rw [if_neg (by omega)]
    by_cases hc : (hasNone && sel == 0) = true
    · simp only [hc, if_true] at h ⊢
      obtain ⟨rfl, rfl⟩ := h
      simp [Node.root, zeroNode, zeroHash, toObj, hc]
    · simp only [hc, Bool.false_eq_true, if_false] at h ⊢
      rw [toObjTreeOpt_repr H opts _ v c hwf' hlim' h]
      simp only [Option.map_some, toObj, hc, Bool.false_eq_true, if_false]

/-- fields: the nodes the container iterator yields export to the named field objects -/
theorem toObjTreeFields_repr (H : Hash) (fs : List Ty) (vs : List Val) (ns : List Node) (i : Nat)
    (hwf : Ty.wfList fs = true) (hlim : ReprBasics.limitsOkList fs = true)
    (h : Impl.ReprFields H fs vs ns) :
    Impl.toObjTreeFields H fs i ns = some (Obj.toObjFields fs i vs) := by
  cases fs with
  | nil =>
    cases vs with
    | nil => simp [toObjTreeFields, toObjFields]
    | cons v vs => cases ns <;> simp only [ReprFields] at h
  | cons t ts =>
    cases vs with
    | nil => cases ns <;> simp only [ReprFields] at h
    | cons v vs =>
      cases ns with
      | nil => simp only [ReprFields] at h
      | cons m ms =>
        simp [Ty.wfList] at hwf
        simp [limitsOkList] at hlim
        simp only [ReprFields] at h
        have ih1 := toObjTree_repr H t v m hwf.1 hlim.1 h.1
        have ih2 := toObjTreeFields_repr H ts vs ms (i + 1) hwf.2 hlim.2 h.2
        simp only [toObjTreeFields, ih1, ih2, toObjFields]

/-- union: the left child exports with the selected option's type -/
theorem toObjTreeOpt_repr (H : Hash) (opts : List Ty) (k : Nat) (v : Val) (c : Node)
    (hwf : Ty.wfList opts = true) (hlim : ReprBasics.limitsOkList opts = true)
    (h : Impl.ReprOpt H opts k v c) :
    Impl.toObjTreeOpt H opts k c = some (Obj.toObjOpt opts k v) := by
  cases opts with
  | nil => simp only [ReprOpt] at h
  | cons t ts =>
    simp [Ty.wfList] at hwf
    simp [limitsOkList] at hlim
    cases k with
    | zero =>
      simp only [ReprOpt] at h
      simp only [toObjTreeOpt, toObjOpt]
      exact toObjTree_repr H t v c hwf.1 hlim.1 h
    | succ k =>
      simp only [ReprOpt] at h
      simp only [toObjTreeOpt, toObjOpt]
      exact toObjTreeOpt_repr H ts k v c hwf.2 hlim.2 h
end

/-- COROLLARY: for every constructed valid value, `to_obj()` read off the constructed tree is `to_obj` of the value -/
theorem toObjTree_construct (H : Hash) (t : Ty) (v : Val) (hwf : t.wf = true)
    (hlim : ReprBasics.limitsOk t = true) (hwt : WT t v = true) :
    ∃ n, Impl.construct H t v = some n ∧ Impl.toObjTree H t n = some (Obj.toObj t v) := by
  obtain ⟨n, hn, hr⟩ := ReprBasics.repr_exists H t v hwf hwt
  exact ⟨n, hn, toObjTree_repr H t v n hwf hlim hr⟩

/-- two trees representing the same value export identically (whatever their shape) -/
theorem toObjTree_unique (H : Hash) (t : Ty) (v : Val) (n n' : Node) (hwf : t.wf = true)
    (hlim : ReprBasics.limitsOk t = true) (h : Impl.Repr H t v n) (h' : Impl.Repr H t v n') :
    Impl.toObjTree H t n = Impl.toObjTree H t n' := by
  rw [toObjTree_repr H t v n hwf hlim h, toObjTree_repr H t v n' hwf hlim h']

/-! Non-vacuity: a `Vector[uint8, 2]` tree holding (1, 2), and a container of two uint8 fields (1, 2) -/
example : (Impl.toObjTree (fun a _ => a) (.vector (.uint 1) 2) (.leaf (chunkOfLE 1 1 |>.set 1 2))).isSome = true := by
  decide
example : (Impl.toObjTree (fun a _ => a) (.container [.uint 1, .uint 1])
    (.pair (.leaf (chunkOfLE 1 1)) (.leaf (chunkOfLE 1 2)))).isSome = true := by
  decide

/-- the hypotheses are satisfiable: an instance of the main theorem, for every pair hash -/
example (H : Hash) : Impl.toObjTree H (.uint 1) (.leaf (chunkOfLE 1 5)) = some (.num 5) :=
  toObjTree_repr H (.uint 1) (.num 5) _ rfl rfl (by simp [Impl.Repr])
example (H : Hash) : ∃ n, Impl.construct H (.vector (.uint 1) 2) (.seq [.num 1, .num 2]) = some n ∧
    Impl.toObjTree H (.vector (.uint 1) 2) n = some (.tup [.num 1, .num 2]) :=
  toObjTree_construct H (.vector (.uint 1) 2) (.seq [.num 1, .num 2]) rfl rfl (by decide)

end Rmk.ObjTreeLaws
