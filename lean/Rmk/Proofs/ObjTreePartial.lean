/-
`to_obj()` computed FROM A PARTIAL TREE (property C17): on a tree `p` in which subtrees of a complete tree `n`
(representing `v`) were replaced by summary leaves with the same root (`Summ H p n`), `Impl.toObjTree` either
raises (`none`) or returns exactly `Obj.toObj t v` — never a wrong export.
-/
import Rmk.Impl.ObjTree
import Rmk.Proofs.ObjTreeLaws
import Rmk.Proofs.PartialViews
import Rmk.Properties.C15
import Rmk.Properties.C02
namespace Rmk.ObjTreePartial
open Rmk Rmk.Impl Rmk.Spec Rmk.Obj Rmk.ReprBasics Rmk.PartialViews

/-! ## list helpers -/

/-- pointwise relation from indexed relation -/
theorem allRel_of_getD {α β} [Inhabited α] [Inhabited β] (R : α → β → Prop) :
    ∀ (xs : List α) (ys : List β), xs.length = ys.length →
      (∀ i, i < xs.length → R (xs.getD i default) (ys.getD i default)) → AllRel R xs ys
  | [], [], _, _ => by simp [AllRel]
  | [], _ :: _, hl, _ => by simp at hl
  | _ :: _, [], hl, _ => by simp at hl
  | x :: xs, y :: ys, hl, h => by
    simp only [AllRel]
    refine ⟨by simpa using h 0 (by simp), ?_⟩
    refine allRel_of_getD R xs ys (by simpa using hl) (fun i hi => ?_)
    have := h (i + 1) (by simp; omega)
    simpa using this

/-- the packed iterator on a summary of `n` raises or yields what it yields on `n` -/
theorem packedIter_ole (H : Hash) (et : Ty) (p n : Node) (depth len : Nat) (vs : List Val)
    (hs : Summ H p n) (hn : packedIter H et n depth len = some vs) :
    OLe (packedIter H et p depth len) (some vs) := by
  intro xs hx
  obtain ⟨_, _, hlx, _, hrx⟩ := ItersLaws.packedIter_some_index H et p depth len xs hx
  obtain ⟨_, _, hlv, _, hrv⟩ := ItersLaws.packedIter_some_index H et n depth len vs hn
  congr 1
  apply List.ext_getElem (by omega)
  intro i h1 h2
  have ha := hrx i (by omega)
  have hb := hrv i (by omega)
  have hc := ole_packed hs et depth (32 / et.basicSize) i _ ha
  rw [hb] at hc
  simp only [Option.some.injEq] at hc
  rw [ItersLaws.getD_of_lt _ _ _ h1, ItersLaws.getD_of_lt _ _ _ h2] at hc
  exact hc

/-- the node iterator on a summary of `n` yields summaries of the nodes it yields on `n` -/
theorem nodeIter_summ (H : Hash) (p n : Node) (depth len : Nat) (ps ms : List Node)
    (hs : Summ H p n) (hp : nodeIter p depth len = some ps) (hn : nodeIter n depth len = some ms) :
    AllRel (Summ H) ps ms := by
  obtain ⟨_, hlp, hgp⟩ := C15.iter_sound p depth len ps hp
  obtain ⟨_, hlm, hgm⟩ := C15.iter_sound n depth len ms hn
  refine allRel_of_getD _ ps ms (by omega) (fun i hi => ?_)
  obtain ⟨y, hy, hsy⟩ := summ_getAt hs i depth _ (hgp i (by omega))
  rw [hgm i (by omega)] at hy
  cases hy
  exact hsy

/-- element-wise step for composite sequences -/
theorem allSome_toObjTree_ole (H : Hash) (et : Ty)
    (ih : ∀ v p n, Summ H p n → Impl.Repr H et v n →
      OLe (Impl.toObjTree H et p) (some (Obj.toObj et v))) :
    ∀ (vs : List Val) (ps ms : List Node), AllRel (Summ H) ps ms → AllRel (Impl.Repr H et) vs ms →
      OLe (allSome (ps.map fun c => Impl.toObjTree H et c)) (some (vs.map (Obj.toObj et)))
  | [], [], [], _, _ => by simp [allSome]; exact ole_refl _
  | [], _ :: _, [], h, _ => by simp only [AllRel] at h
  | [], _, _ :: _, _, h => by simp only [AllRel] at h
  | _ :: _, _, [], _, h => by simp only [AllRel] at h
  | _ :: _, [], _ :: _, h, _ => by simp only [AllRel] at h
  | v :: vs, p :: ps, m :: ms, h1, h2 => by
    simp only [AllRel] at h1 h2
    have e1 := ih v p m h1.1 h2.1
    have e2 := allSome_toObjTree_ole H et ih vs ps ms h1.2 h2.2
    intro w hw
    simp only [List.map_cons] at hw ⊢
    cases hx : Impl.toObjTree H et p with
    | none => rw [hx] at hw; simp [allSome] at hw
    | some o =>
      have ho := e1 o hx
      cases hy : allSome (ps.map fun c => Impl.toObjTree H et c) with
      | none => rw [hx] at hw; simp [allSome, hy] at hw
      | some os =>
        have hos := e2 os hy
        rw [hx] at hw
        simp only [allSome, hy, Option.map_some, Option.some.injEq] at hw
        simp only [Option.some.injEq] at ho hos
        subst hw
        rw [ho, hos]

/-! ## main theorem -/

mutual
/-- `OLe` form of the main theorem -/
theorem toObjTree_ole (H : Hash) (t : Ty) (v : Val) (p n : Node) (hwf : t.wf = true)
    (hlim : ReprBasics.limitsOk t = true) (hs : Summ H p n) (h : Impl.Repr H t v n) :
    OLe (Impl.toObjTree H t p) (some (Obj.toObj t v)) := by
  cases t with
  | uint nb =>
    have hn := ObjTreeLaws.toObjTree_repr H _ v n hwf hlim h
    rw [← hn]
    simp only [toObjTree, summ_readBasicAt hs]
    exact ole_refl _
  | bool =>
    have hn := ObjTreeLaws.toObjTree_repr H _ v n hwf hlim h
    rw [← hn]
    simp only [toObjTree, summ_readBasicAt hs]
    exact ole_refl _
  | bitvector k =>
    have hn := ObjTreeLaws.toObjTree_repr H _ v n hwf hlim h
    rw [← hn]
    simp only [toObjTree]
    exact ole_map _ (ole_serTree H _ p n hs)
  | bitlist k =>
    have hn := ObjTreeLaws.toObjTree_repr H _ v n hwf hlim h
    rw [← hn]
    simp only [toObjTree]
    exact ole_map _ (ole_serTree H _ p n hs)
  | bytevector k =>
    have hn := ObjTreeLaws.toObjTree_repr H _ v n hwf hlim h
    rw [← hn]
    simp only [toObjTree]
    exact ole_map _ (ole_serTree H _ p n hs)
  | bytelist k =>
    have hn := ObjTreeLaws.toObjTree_repr H _ v n hwf hlim h
    rw [← hn]
    simp only [toObjTree]
    exact ole_map _ (ole_serTree H _ p n hs)
  | vector et len =>
    cases v <;> try (simp only [Impl.Repr] at h)
    rename_i vs
    have hwf' : et.wf = true := by
      simp [Ty.wf] at hwf; exact hwf.2
    have hlim' : limitsOk et = true := by
      simpa only [limitsOk] using hlim
    by_cases hb : et.isBasic = true
    · have hp := (C15.packed_iteration H et len vs n hwf' hb).1 h
      simp only [toObjTree, hb, if_true, toObj]
      exact ole_map (fun xs => Obj.tup (xs.map (toObj et))) (packedIter_ole H et p n _ _ vs hs hp)
    · have hb' : et.isBasic = false := by simpa using hb
      obtain ⟨ms, hit, hall⟩ := (C15.node_iteration H et len [] vs n hb').1 h
      simp only [toObjTree, hb', Bool.false_eq_true, if_false, toObj]
      cases hpi : nodeIter p (getDepth (chunkLen et len)) len with
      | none => exact ole_none _
      | some ps =>
        have hsm := nodeIter_summ H p n _ _ ps ms hs hpi hit
        have hl := allSome_toObjTree_ole H et
          (fun v p n hs hr => toObjTree_ole H et v p n hwf' hlim' hs hr) vs ps ms hsm hall
        exact ole_map Obj.tup hl
  | list et lim =>
    cases v <;> try (simp only [Impl.Repr] at h)
    rename_i vs
    have hwf' : et.wf = true := by
      simpa only [Ty.wf] using hwf
    have hlims : lim < 2 ^ 256 ∧ limitsOk et = true := by
      simpa [limitsOk] using hlim
    have hlen : listLength H n = some vs.length := by
      obtain ⟨hle, c, rfl, _⟩ := h
      exact listLength_mixin H c _ (by omega)
    simp only [toObjTree, toObj]
    cases hpl : listLength H p with
    | none => exact ole_none _
    | some len =>
      have hle := summ_listLength hs len hpl
      rw [hlen] at hle
      cases hle
      by_cases hb : et.isBasic = true
      · have hp := (C15.packed_iteration H et lim vs n hwf' hb).2 h
        simp only [hb, if_true]
        exact ole_map (fun xs => Obj.arr (xs.map (toObj et))) (packedIter_ole H et p n _ _ vs hs hp)
      · have hb' : et.isBasic = false := by simpa using hb
        obtain ⟨ms, hit, hall⟩ := (C15.node_iteration H et lim [] vs n hb').2.1 h
        simp only [hb', Bool.false_eq_true, if_false]
        cases hpi : nodeIter p (getDepth (chunkLen et lim) + 1) vs.length with
        | none => exact ole_none _
        | some ps =>
          have hsm := nodeIter_summ H p n _ _ ps ms hs hpi hit
          have hl := allSome_toObjTree_ole H et
            (fun v p n hs hr => toObjTree_ole H et v p n hwf' hlims.2 hs hr) vs ps ms hsm hall
          exact ole_map Obj.arr hl
  | container fs =>
    cases v <;> try (simp only [Impl.Repr] at h)
    rename_i vs
    have hwf' : Ty.wfList fs = true := by
      simp [Ty.wf] at hwf; exact hwf.2
    have hlim' : limitsOkList fs = true := by
      simpa only [limitsOk] using hlim
    obtain ⟨ms, hit, hf⟩ := (C15.node_iteration H (.bitvector 1) 0 fs vs n rfl).2.2 h
    simp only [toObjTree, toObj]
    cases hpi : nodeIter p (getDepth fs.length) fs.length with
    | none => exact ole_none _
    | some ps =>
      have hsm := nodeIter_summ H p n _ _ ps ms hs hpi hit
      exact ole_map Obj.dict (toObjTreeFields_ole H fs vs ps ms 0 hwf' hlim' hsm hf)
  | union hasNone opts =>
    cases v <;> try (simp only [Impl.Repr] at h)
    rename_i sel v
    have hwf' : Ty.wfList opts = true := by
      simp [Ty.wf] at hwf; exact hwf.2
    have hcnt : optCount hasNone opts ≤ 128 := by
      simp [Ty.wf] at hwf; exact hwf.1.1.2
    have hlim' : limitsOkList opts = true := by
      simpa only [limitsOk] using hlim
    obtain ⟨hsel, c', rfl, h⟩ := h
    have hsel' : sel < 2 ^ 256 := by omega
    cases p with
    | leaf ch => simp only [toObjTree, getLeft]; exact ole_none _
    | pair c s =>
      obtain ⟨l', r', heq, hsc, hss⟩ := summ_pair_inv hs
      cases heq
      simp only [toObjTree, getLeft, getRight, summ_readLen hss, readLen_lenNode H sel hsel']
      rw [if_neg (by omega)]
      by_cases hc : (hasNone && sel == 0) = true
      · simp only [hc, if_true] at h ⊢
        obtain ⟨rfl, rfl⟩ := h
        split
        · simp only [toObj, hc, if_true]; exact ole_refl _
        · exact ole_none _
      · simp only [hc, Bool.false_eq_true, if_false] at h ⊢
        have ho := toObjTreeOpt_ole H opts _ v c _ hwf' hlim' hsc h
        have := ole_map (fun o => Obj.dict [("selector", Obj.num sel), ("value", o)]) ho
        simpa only [Option.map_some, toObj, hc, Bool.false_eq_true, if_false] using this

/-- fields: summaries of the field nodes export to nothing or to the named field objects -/
theorem toObjTreeFields_ole (H : Hash) (fs : List Ty) (vs : List Val) (ps ms : List Node) (i : Nat)
    (hwf : Ty.wfList fs = true) (hlim : ReprBasics.limitsOkList fs = true)
    (hs : AllRel (Summ H) ps ms) (h : Impl.ReprFields H fs vs ms) :
    OLe (Impl.toObjTreeFields H fs i ps) (some (Obj.toObjFields fs i vs)) := by
  cases fs with
  | nil =>
    cases vs with
    | nil => simp only [toObjTreeFields, toObjFields]; exact ole_refl _
    | cons v vs => cases ms <;> simp only [ReprFields] at h
  | cons t ts =>
    cases vs with
    | nil => cases ms <;> simp only [ReprFields] at h
    | cons v vs =>
      cases ms with
      | nil => simp only [ReprFields] at h
      | cons m ms =>
        cases ps with
        | nil => simp only [AllRel] at hs
        | cons p ps =>
          simp [Ty.wfList] at hwf
          simp [limitsOkList] at hlim
          simp only [ReprFields] at h
          simp only [AllRel] at hs
          have ih1 := toObjTree_ole H t v p m hwf.1 hlim.1 hs.1 h.1
          have ih2 := toObjTreeFields_ole H ts vs ps ms (i + 1) hwf.2 hlim.2 hs.2 h.2
          intro w hw
          simp only [toObjTreeFields] at hw
          cases hx : Impl.toObjTree H t p with
          | none => rw [hx] at hw; cases hw
          | some o =>
            cases hy : Impl.toObjTreeFields H ts (i + 1) ps with
            | none => rw [hx, hy] at hw; cases hw
            | some os =>
              rw [hx, hy] at hw
              have ho := ih1 o hx
              have hos := ih2 os hy
              simp only [Option.some.injEq] at ho hos hw
              subst hw
              simp only [toObjFields, ho, hos]

/-- union: a summary of the left child exports to nothing or to the selected option's object -/
theorem toObjTreeOpt_ole (H : Hash) (opts : List Ty) (k : Nat) (v : Val) (p c : Node)
    (hwf : Ty.wfList opts = true) (hlim : ReprBasics.limitsOkList opts = true)
    (hs : Summ H p c) (h : Impl.ReprOpt H opts k v c) :
    OLe (Impl.toObjTreeOpt H opts k p) (some (Obj.toObjOpt opts k v)) := by
  cases opts with
  | nil => simp only [ReprOpt] at h
  | cons t ts =>
    simp [Ty.wfList] at hwf
    simp [limitsOkList] at hlim
    cases k with
    | zero =>
      simp only [ReprOpt] at h
      simp only [toObjTreeOpt, toObjOpt]
      exact toObjTree_ole H t v p c hwf.1 hlim.1 hs h
    | succ k =>
      simp only [ReprOpt] at h
      simp only [toObjTreeOpt, toObjOpt]
      exact toObjTreeOpt_ole H ts k v p c hwf.2 hlim.2 hs h
end

/-- MAIN THEOREM (C17 for `to_obj()`): on a partial tree `p` that summarises a complete tree `n` representing `v`,
    the library's `to_obj()` — computed from the tree through the read-only iterators and the tree-reading
    serialiser — either raises or returns `to_obj` of the plain value: never a wrong export. -/
theorem toObjTree_summ_repr (H : Hash) (t : Ty) (v : Val) (p n : Node) (hwf : t.wf = true)
    (hlim : ReprBasics.limitsOk t = true) (hs : Summ H p n) (h : Impl.Repr H t v n) :
    Impl.toObjTree H t p = none ∨ Impl.toObjTree H t p = some (Obj.toObj t v) :=
  (ole_iff _ _).1 (toObjTree_ole H t v p n hwf hlim hs h)

/-- the same against the export of the complete tree -/
theorem toObjTree_summ (H : Hash) (t : Ty) (v : Val) (p n : Node) (hwf : t.wf = true)
    (hlim : ReprBasics.limitsOk t = true) (hs : Summ H p n) (h : Impl.Repr H t v n) :
    Impl.toObjTree H t p = none ∨ Impl.toObjTree H t p = Impl.toObjTree H t n := by
  rw [ObjTreeLaws.toObjTree_repr H t v n hwf hlim h]
  exact toObjTree_summ_repr H t v p n hwf hlim hs h

/-- a successful export of the partial tree is the export of the value -/
theorem toObjTree_summ_some (H : Hash) (t : Ty) (v : Val) (p n : Node) (o : Obj) (hwf : t.wf = true)
    (hlim : ReprBasics.limitsOk t = true) (hs : Summ H p n) (h : Impl.Repr H t v n)
    (ho : Impl.toObjTree H t p = some o) : o = Obj.toObj t v := by
  have := toObjTree_ole H t v p n hwf hlim hs h o ho
  simpa using this.symm

/-! ## non-vacuity: a container of two uint8 fields (1, 2) whose second field is a genuine summary leaf -/

/-- the hypotheses are satisfiable with a genuine summary leaf, for every pair hash -/
example (H : Hash) :
    Impl.toObjTree H (.container [.uint 1, .uint 1])
        (.pair (.leaf (chunkOfLE 1 1)) (.leaf ((Node.leaf (chunkOfLE 1 2)).root H))) = none ∨
    Impl.toObjTree H (.container [.uint 1, .uint 1])
        (.pair (.leaf (chunkOfLE 1 1)) (.leaf ((Node.leaf (chunkOfLE 1 2)).root H))) =
      some (Obj.toObj (.container [.uint 1, .uint 1]) (.seq [.num 1, .num 2])) :=
  toObjTree_summ_repr H (.container [.uint 1, .uint 1]) (.seq [.num 1, .num 2]) _
    (.pair (.leaf (chunkOfLE 1 1)) (.leaf (chunkOfLE 1 2))) rfl rfl
    (.pair _ _ _ _ (.refl _) (.leaf _))
    (ReprBasics.construct_repr H _ _ _ (by decide) (by rfl))

end Rmk.ObjTreePartial
