/-
Mutations THROUGH A CHILD VIEW on partial trees (harness operation `sub i op`).

`subApply H t n i op`: take the child view at key `i` of a view of type `t` over backing `n`
(`Impl.childOf`), apply the mutator `op` to the child (`Impl.apply`), and write the child's new
backing back into the parent (`Impl.setChildNode`).

With `Summ H p n` (`p` is `n` with some subtrees replaced by bare summaries of their roots) we show
that each of the three steps, run on the partial tree, either fails or gives the partial version of
the result of the same step on the complete tree; hence so does `subApply`, and the roots after the
nested write are equal.
-/
import Rmk.Impl.Store
import Rmk.Proofs.TreeLaws
import Rmk.Proofs.PartialViews
namespace Rmk.PartialNested
open Rmk Rmk.Impl Rmk.Spec Rmk.PartialViews

/-- the harness operation `sub i op` -/
def subApply (H : Hash) (t : Ty) (n : Node) (i : Nat) (op : Impl.Op) : Option Node :=
  (Impl.childOf H t n i).bind fun (c : Ty × Node) =>
    (Impl.apply H c.1 c.2 op).bind fun cn' => Impl.setChildNode H t n i cn'

/-! ## 0. writing related values at the same position -/

/-- writing a partial version `v` of `w` instead of `w` (same tree, same position) -/
theorem setPath_summ_val {H : Hash} (a : Node) (p : List Bool) {v w : Node} (hv : Summ H v w)
    (a' : Node) (hs : setPath H false a p v = some a') :
    ∃ b', setPath H false a p w = some b' ∧ Summ H a' b' := by
  induction p generalizing a a' with
  | nil => simp at hs; subst hs; exact ⟨w, by simp, hv⟩
  | cons c cs ih =>
    cases a with
    | leaf x => simp at hs
    | pair l r =>
      cases c <;> simp at hs
      · obtain ⟨l2, hl2, rfl⟩ := hs
        obtain ⟨b2, hb2, hsum⟩ := ih l l2 hl2
        exact ⟨.pair b2 r, by simp [hb2], .pair _ _ _ _ hsum (.refl _)⟩
      · obtain ⟨r2, hr2, rfl⟩ := hs
        obtain ⟨b2, hb2, hsum⟩ := ih r r2 hr2
        exact ⟨.pair l b2, by simp [hb2], .pair _ _ _ _ (.refl _) hsum⟩

/-- `Summ.setPath` with related (instead of equal) written values -/
theorem summ_setPath_rel {H : Hash} {a b : Node} (h : Summ H a b) (p : List Bool) {v w : Node}
    (hv : Summ H v w) (a' : Node) (hs : setPath H false a p v = some a') :
    ∃ b', setPath H false b p w = some b' ∧ Summ H a' b' := by
  obtain ⟨b2, hb2, hs2⟩ := h.setPath p v a' hs
  obtain ⟨b', hb', hs'⟩ := setPath_summ_val b p hv b2 hb2
  exact ⟨b', hb', hs2.trans hs'⟩

theorem summ_setAt_rel {H : Hash} {a b : Node} (h : Summ H a b) (i depth : Nat) {v w : Node}
    (hv : Summ H v w) :
    ORel (Summ H) (setAt H false a i depth v) (setAt H false b i depth w) := by
  intro x hx
  unfold Impl.setAt at hx ⊢
  split
  · next hi => rw [if_pos hi] at hx; cases hx
  · next hi =>
    rw [if_neg hi] at hx
    exact summ_setPath_rel h _ hv x hx

theorem summ_rebindLeft_rel {H : Hash} {a b : Node} (h : Summ H a b) {v w : Node}
    (hv : Summ H v w) : ORel (Summ H) (rebindLeft a v) (rebindLeft b w) := by
  intro x hx
  cases a with
  | leaf c => cases hx
  | pair l r =>
    obtain ⟨l', r', rfl, hl, hr⟩ := summ_pair_inv h
    simp only [Rmk.rebindLeft, Option.some.injEq] at hx
    subst hx
    exact ⟨.pair w r', rfl, .pair _ _ _ _ hv hr⟩

/-! ## 1. the child of a partial tree -/

/-- related children of the same type -/
def ChildRel (H : Hash) (x y : Ty × Node) : Prop := x.1 = y.1 ∧ Summ H x.2 y.2

theorem orel_getAt_tag {H : Hash} {a b : Node} (h : Summ H a b) (i depth : Nat) (ct : Ty) :
    ORel (ChildRel H) ((getAt a i depth).map fun c => (ct, c))
      ((getAt b i depth).map fun c => (ct, c)) := by
  intro x hx
  cases hg : getAt a i depth with
  | none => rw [hg] at hx; cases hx
  | some c =>
    obtain ⟨c', hc', hs⟩ := summ_getAt h i depth c hg
    rw [hg] at hx
    rw [hc']
    simp only [Option.map_some, Option.some.injEq] at hx
    subst hx
    exact ⟨(ct, c'), rfl, rfl, hs⟩

theorem orel_childOf (H : Hash) (t : Ty) (p n : Node) (i : Nat) (h : Summ H p n) :
    ORel (ChildRel H) (childOf H t p i) (childOf H t n i) := by
  cases t <;> simp only [childOf] <;> try exact orel_none _ _
  case vector et len =>
    split
    · exact orel_none _ _
    · exact orel_getAt_tag h _ _ _
  case list et lim =>
    cases hl : listLength H p with
    | none => exact orel_none _ _
    | some len =>
      rw [summ_listLength_eq h len hl]
      simp only []
      split
      · exact orel_none _ _
      · exact orel_getAt_tag h _ _ _
  case container fs =>
    cases hf : fs[i]? with
    | none => exact orel_none _ _
    | some ft => exact orel_getAt_tag h _ _ _
  case union hasNone opts =>
    cases hgl : getLeft p with
    | none => exact orel_none _ _
    | some c =>
      cases hgr : getRight p with
      | none => exact orel_none _ _
      | some s =>
        obtain ⟨c', hc', hsc⟩ := summ_getLeft h c hgl
        obtain ⟨s', hs', hss⟩ := summ_getRight h s hgr
        rw [hc', hs']
        simp only [summ_readLen hss]
        split
        · exact orel_none _ _
        · cases ho : Spec.optType hasNone opts (readLen H s') with
          | none => exact orel_none _ _
          | some ot => exact orel_some _ _ _ ⟨rfl, hsc⟩

/-- 1. the child of a partial tree is a partial version of the child of the complete tree -/
theorem childOf_summ {H : Hash} {t : Ty} {p n : Node} {i : Nat} {ct : Ty} {cp : Node}
    (h : Summ H p n) (hc : Impl.childOf H t p i = some (ct, cp)) :
    ∃ cn, Impl.childOf H t n i = some (ct, cn) ∧ Summ H cp cn := by
  obtain ⟨⟨ct', cn⟩, hcn, hty, hs⟩ := orel_childOf H t p n i h _ hc
  simp only at hty
  subst hty
  exact ⟨cn, hcn, hs⟩

/-! ## 2. writing the child back -/

theorem orel_setChildNode (H : Hash) (t : Ty) (p n : Node) (i : Nat) (cp cn : Node)
    (h : Summ H p n) (hc : Summ H cp cn) :
    ORel (Summ H) (setChildNode H t p i cp) (setChildNode H t n i cn) := by
  cases t <;> simp only [setChildNode] <;> try exact orel_none _ _
  case vector et len =>
    split
    · exact orel_none _ _
    · exact summ_setAt_rel h _ _ hc
  case list et lim =>
    cases hl : listLength H p with
    | none => exact orel_none _ _
    | some len =>
      rw [summ_listLength_eq h len hl]
      simp only []
      split
      · exact orel_none _ _
      · exact summ_setAt_rel h _ _ hc
  case container fs =>
    split
    · exact orel_none _ _
    · exact summ_setAt_rel h _ _ hc
  case union hasNone opts =>
    exact summ_rebindLeft_rel h hc

/-- 2. writing a partial child into a partial parent gives the partial version of writing the
    complete child into the complete parent -/
theorem setChildNode_summ {H : Hash} {t : Ty} {p n : Node} {i : Nat} {cp cn p' : Node}
    (h : Summ H p n) (hc : Summ H cp cn) (hs : Impl.setChildNode H t p i cp = some p') :
    ∃ n', Impl.setChildNode H t n i cn = some n' ∧ Summ H p' n' :=
  orel_setChildNode H t p n i cp cn h hc p' hs

/-! ## 3. the nested write -/

/-- generic form: the child step is any relation-preserving `apply` -/
theorem orel_subApply_gen (H : Hash) (t : Ty) (p n : Node) (i : Nat) (op : Impl.Op)
    (h : Summ H p n)
    (hap : ∀ (ct : Ty) (a b : Node), Summ H a b →
      ORel (Summ H) (Impl.apply H ct a op) (Impl.apply H ct b op)) :
    ORel (Summ H) (subApply H t p i op) (subApply H t n i op) := by
  unfold subApply
  refine orel_bind (orel_childOf H t p n i h) ?_
  rintro ⟨ct, cp⟩ ⟨ct', cn⟩ ⟨hty, hs⟩
  simp only at hty hs
  subst hty
  exact orel_bind (hap ct cp cn hs) (fun u v huv => orel_setChildNode H t p n i u v h huv)

/-- 3a. every nested mutation except `append`, no hypothesis on the hash -/
theorem subApply_summ {H : Hash} {t : Ty} {p n : Node} {i : Nat} {op : Impl.Op} {p' : Node}
    (hop : ∀ v, op ≠ .append v) (h : Summ H p n) (hs : subApply H t p i op = some p') :
    ∃ n', subApply H t n i op = some n' ∧ Summ H p' n' :=
  orel_subApply_gen H t p n i op h
    (fun ct a b hab => orel_apply_gen H ct a b op hab (fun ⟨v, hv⟩ => absurd hv (hop v))) p' hs

/-- 3b. every nested mutation (`append` included) under `ZeroInj H` -/
theorem subApply_summ_all {H : Hash} (hZ : ZeroInj H) {t : Ty} {p n : Node} {i : Nat}
    {op : Impl.Op} {p' : Node} (h : Summ H p n) (hs : subApply H t p i op = some p') :
    ∃ n', subApply H t n i op = some n' ∧ Summ H p' n' :=
  orel_subApply_gen H t p n i op h
    (fun ct a b hab => orel_apply_gen H ct a b op hab (fun _ => expandOk_of_zeroInj H hZ)) p' hs

theorem subApply_summ_of_injective2 {H : Hash} (hH : Injective2 H) {t : Ty} {p n : Node} {i : Nat}
    {op : Impl.Op} {p' : Node} (h : Summ H p n) (hs : subApply H t p i op = some p') :
    ∃ n', subApply H t n i op = some n' ∧ Summ H p' n' :=
  subApply_summ_all (zeroInj_of_injective2 H hH) h hs

/-- same root after the nested write as on the complete tree (all operations but `append`) -/
theorem subApply_summ_root {H : Hash} {t : Ty} {p n : Node} {i : Nat} {op : Impl.Op} {p' : Node}
    (hop : ∀ v, op ≠ .append v) (h : Summ H p n) (hs : subApply H t p i op = some p') :
    ∃ n', subApply H t n i op = some n' ∧ p'.root H = n'.root H := by
  obtain ⟨n', hn', hsum⟩ := subApply_summ hop h hs
  exact ⟨n', hn', hsum.root_eq⟩

/-- same root after the nested write as on the complete tree (all operations, `ZeroInj H`) -/
theorem subApply_summ_all_root {H : Hash} (hZ : ZeroInj H) {t : Ty} {p n : Node} {i : Nat}
    {op : Impl.Op} {p' : Node} (h : Summ H p n) (hs : subApply H t p i op = some p') :
    ∃ n', subApply H t n i op = some n' ∧ p'.root H = n'.root H := by
  obtain ⟨n', hn', hsum⟩ := subApply_summ_all hZ h hs
  exact ⟨n', hn', hsum.root_eq⟩

/-- the "fails or agrees" form, as in `C17.view_write` -/
theorem subApply_agrees {H : Hash} (t : Ty) (p n : Node) (i : Nat) (op : Impl.Op)
    (hop : ∀ v, op ≠ .append v) (h : Summ H p n) :
    subApply H t p i op = none ∨ ∃ p' n', subApply H t p i op = some p' ∧
      subApply H t n i op = some n' ∧ Summ H p' n' ∧ p'.root H = n'.root H := by
  cases hs : subApply H t p i op with
  | none => exact .inl rfl
  | some p' =>
    obtain ⟨n', hn', hsum⟩ := subApply_summ hop h hs
    exact .inr ⟨p', n', rfl, hn', hsum, hsum.root_eq⟩

/-! ## 4. non-vacuity -/

/-- a toy hash -/
def H0 : Hash := fun a b => a ++ b

/-- `Container{a: Vector[uint256, 2], b: uint256}` -/
def exT : Ty := .container [.vector (.uint 32) 2, .uint 32]

def exFull : Node :=
  .pair (.pair (.leaf (chunkOfLE 32 1)) (.leaf (chunkOfLE 32 2))) (.leaf (chunkOfLE 32 3))

/-- the partial tree: field `b` is summarised, field `a` is present -/
def exPart : Node :=
  .pair (.pair (.leaf (chunkOfLE 32 1)) (.leaf (chunkOfLE 32 2)))
    (.leaf ((Node.leaf (chunkOfLE 32 3)).root H0))

/-- the partial tree in which the field `a` that is written through is itself partial -/
def exPart2 : Node :=
  .pair (.pair (.leaf (chunkOfLE 32 1)) (.leaf ((Node.leaf (chunkOfLE 32 2)).root H0)))
    (.leaf (chunkOfLE 32 3))

theorem exPart_summ : Summ H0 exPart exFull := .pair _ _ _ _ (.refl _) (.leaf _)

theorem exPart2_summ : Summ H0 exPart2 exFull :=
  .pair _ _ _ _ (.pair _ _ _ _ (.refl _) (.leaf _)) (.refl _)

/-- the nested write `c.a[0] = 7` succeeds on the partial tree … -/
example : (subApply H0 exT exPart 0 (.set 0 (.num 7))).isSome = true := by decide

example : (subApply H0 exT exPart2 0 (.set 0 (.num 7))).isSome = true := by decide

/-- … and the theorem applies: the complete tree gives the same root -/
example : ∃ p' n', subApply H0 exT exPart 0 (.set 0 (.num 7)) = some p' ∧
    subApply H0 exT exFull 0 (.set 0 (.num 7)) = some n' ∧ p'.root H0 = n'.root H0 := by
  cases hs : subApply H0 exT exPart 0 (.set 0 (.num 7)) with
  | none => exact absurd hs (by decide)
  | some p' =>
    obtain ⟨n', hn', hr⟩ := subApply_summ_root (by intro v hv; cases hv) exPart_summ hs
    exact ⟨p', n', rfl, hn', hr⟩

end Rmk.PartialNested

