/-
Partial trees at the view level (property C17).

`Summ H a b` (TreeLaws): `a` is `b` with some subtrees replaced by bare summaries of their roots.
This file lifts the tree-level facts (`Summ.getPath`, `Summ.setPath`, `Summ.root_eq`) to the view
functions of `Impl/View.lean` and `Impl/Codec.lean`:

* reads (`readVal`, `serTree`) of a partial tree either fail or return exactly what the complete
  tree returns (`summ_readVal`, `summ_serTree`);
* writes (`apply`) on a partial tree either fail or give the partial version of the result of the same
  write on the complete tree (`summ_apply_partial` for everything but `append`, `summ_apply` for all
  operations under the explicit no-collision-with-a-zero-hash hypothesis `ZeroInj H`).
-/
import Rmk.Impl.Codec
import Rmk.Proofs.TreeLaws
import Rmk.Proofs.DiffHistory
import Rmk.Proofs.ReprBasics
namespace Rmk.PartialViews
open Rmk Rmk.Impl Rmk.Spec

/-! ## 0. relations between the optional results on the partial and on the complete tree -/

/-- if the left computation succeeds, so does the right one, with an `R`-related result -/
def ORel {α β} (R : α → β → Prop) (x : Option α) (y : Option β) : Prop :=
  ∀ u, x = some u → ∃ v, y = some v ∧ R u v

/-- if the left computation succeeds, the right one succeeds with the same result -/
def OLe {α} (x y : Option α) : Prop := ∀ u, x = some u → y = some u

theorem ole_iff {α} (x y : Option α) : OLe x y ↔ (x = none ∨ x = y) := by
  constructor
  · intro h
    cases hx : x with
    | none => exact .inl rfl
    | some u => exact .inr (h u hx).symm
  · rintro (h | h) u hu
    · rw [h] at hu; cases hu
    · rw [← h]; exact hu

theorem orel_iff {α β} (R : α → β → Prop) (x : Option α) (y : Option β) :
    ORel R x y ↔ (x = none ∨ ∃ u v, x = some u ∧ y = some v ∧ R u v) := by
  constructor
  · intro h
    cases hx : x with
    | none => exact .inl rfl
    | some u =>
      obtain ⟨v, hv, hr⟩ := h u hx
      exact .inr ⟨u, v, rfl, hv, hr⟩
  · rintro (h | ⟨u, v, hu, hv, hr⟩) w hw
    · rw [h] at hw; cases hw
    · rw [hu] at hw; cases hw; exact ⟨v, hv, hr⟩

theorem ole_refl {α} (x : Option α) : OLe x x := fun _ h => h

theorem ole_none {α} (y : Option α) : OLe none y := fun _ h => by cases h

theorem orel_none {α β} (R : α → β → Prop) (y : Option β) : ORel R none y := fun _ h => by cases h

theorem orel_some {α β} (R : α → β → Prop) (u : α) (v : β) (h : R u v) : ORel R (some u) (some v) :=
  fun _ hw => by cases hw; exact ⟨v, rfl, h⟩

theorem orel_bind {α β γ δ} {R : α → β → Prop} {S : γ → δ → Prop} {x : Option α} {y : Option β}
    {f : α → Option γ} {g : β → Option δ} (h : ORel R x y)
    (hf : ∀ u v, R u v → ORel S (f u) (g v)) : ORel S (x.bind f) (y.bind g) := by
  intro w hw
  cases hx : x with
  | none => rw [hx] at hw; cases hw
  | some u =>
    obtain ⟨v, hv, hr⟩ := h u hx
    rw [hx] at hw
    rw [hv]
    exact hf u v hr w hw

/-- related results mapped to equal values -/
theorem orel_bind_ole {α β γ} {R : α → β → Prop} {x : Option α} {y : Option β}
    {f : α → Option γ} {g : β → Option γ} (h : ORel R x y)
    (hf : ∀ u v, R u v → OLe (f u) (g v)) : OLe (x.bind f) (y.bind g) := by
  intro w hw
  cases hx : x with
  | none => rw [hx] at hw; cases hw
  | some u =>
    obtain ⟨v, hv, hr⟩ := h u hx
    rw [hx] at hw
    rw [hv]
    exact hf u v hr w hw

theorem orel_map_ole {α β γ} {R : α → β → Prop} {x : Option α} {y : Option β}
    {f : α → γ} {g : β → γ} (h : ORel R x y)
    (hf : ∀ u v, R u v → f u = g v) : OLe (x.map f) (y.map g) := by
  intro w hw
  cases hx : x with
  | none => rw [hx] at hw; cases hw
  | some u =>
    obtain ⟨v, hv, hr⟩ := h u hx
    rw [hx] at hw
    rw [hv]
    simp only [Option.map_some, Option.some.injEq] at hw ⊢
    rw [← hf u v hr]; exact hw

theorem ole_map {α β} {x y : Option α} (f : α → β) (h : OLe x y) : OLe (x.map f) (y.map f) := by
  intro w hw
  cases hx : x with
  | none => rw [hx] at hw; cases hw
  | some u => rw [h u hx]; rw [hx] at hw; exact hw

theorem ole_bind {α β} {x y : Option α} {f g : α → Option β} (h : OLe x y)
    (hf : ∀ u, OLe (f u) (g u)) : OLe (x.bind f) (y.bind g) := by
  intro w hw
  cases hx : x with
  | none => rw [hx] at hw; cases hw
  | some u => rw [h u hx]; rw [hx] at hw; exact hf u w hw

theorem ole_allSome {α β} (l : List α) (f g : α → Option β) (h : ∀ i ∈ l, OLe (f i) (g i)) :
    OLe (allSome (l.map f)) (allSome (l.map g)) := by
  induction l with
  | nil => exact ole_refl _
  | cons i is ih =>
    have h0 := h i List.mem_cons_self
    have ih' := ih (fun j hj => h j (List.mem_cons_of_mem _ hj))
    intro w hw
    simp only [List.map_cons] at hw ⊢
    cases hf : f i with
    | none => rw [hf] at hw; simp [allSome] at hw
    | some u =>
      rw [hf] at hw
      rw [h0 u hf]
      simp only [allSome] at hw ⊢
      exact ole_map _ ih' w hw

/-- chunk nodes read from the partial and from the complete tree have the same roots -/
theorem allSome_roots (H : Hash) {α} (l : List α) (f g : α → Option Node)
    (h : ∀ i ∈ l, ORel (Summ H) (f i) (g i)) :
    ORel (fun cs cs' : List Node => cs.map (·.root H) = cs'.map (·.root H))
      (allSome (l.map f)) (allSome (l.map g)) := by
  induction l with
  | nil => intro w hw; exact ⟨[], rfl, by simp [allSome] at hw; subst hw; rfl⟩
  | cons i is ih =>
    have h0 := h i List.mem_cons_self
    have ih' := ih (fun j hj => h j (List.mem_cons_of_mem _ hj))
    intro w hw
    simp only [List.map_cons] at hw ⊢
    cases hf : f i with
    | none => rw [hf] at hw; simp [allSome] at hw
    | some u =>
      obtain ⟨v, hv, hr⟩ := h0 u hf
      rw [hf] at hw
      rw [hv]
      simp only [allSome] at hw ⊢
      cases hr2 : allSome (is.map f) with
      | none => rw [hr2] at hw; cases hw
      | some cs =>
        obtain ⟨cs', hcs', hroots⟩ := ih' cs hr2
        rw [hr2] at hw
        simp only [Option.map_some, Option.some.injEq] at hw
        subst hw
        exact ⟨v :: cs', by rw [hcs']; rfl, by simp [hr.root_eq, hroots]⟩

/-! ## 1. navigation primitives -/

theorem summ_leaf_root {H : Hash} {c : Chunk} {x : Node} (h : Summ H (.leaf c) x) : x.root H = c := by
  have := h.root_eq
  simpa [Node.root] using this.symm

theorem summ_pair_inv {H : Hash} {l r b : Node} (h : Summ H (.pair l r) b) :
    ∃ l' r', b = .pair l' r' ∧ Summ H l l' ∧ Summ H r r' := by
  cases h with
  | refl _ => exact ⟨l, r, rfl, .refl _, .refl _⟩
  | pair _ _ l' r' hl hr => exact ⟨l', r', rfl, hl, hr⟩

theorem summ_getAt {H : Hash} {a b : Node} (h : Summ H a b) (i depth : Nat) :
    ORel (Summ H) (getAt a i depth) (getAt b i depth) := by
  intro x hx
  unfold Impl.getAt at hx ⊢
  split
  · next hi => rw [if_pos hi] at hx; cases hx
  · next hi =>
    rw [if_neg hi] at hx
    exact h.getPath _ x hx

theorem summ_setAt_noexpand {H : Hash} {a b : Node} (h : Summ H a b) (i depth : Nat) (v : Node) :
    ORel (Summ H) (setAt H false a i depth v) (setAt H false b i depth v) := by
  intro x hx
  unfold Impl.setAt at hx ⊢
  split
  · next hi => rw [if_pos hi] at hx; cases hx
  · next hi =>
    rw [if_neg hi] at hx
    exact h.setPath _ v x hx

theorem summ_getLeft {H : Hash} {a b : Node} (h : Summ H a b) :
    ORel (Summ H) (getLeft a) (getLeft b) := by
  intro x hx
  cases a with
  | leaf c => cases hx
  | pair l r =>
    obtain ⟨l', r', rfl, hl, hr⟩ := summ_pair_inv h
    simp only [Rmk.getLeft, Option.some.injEq] at hx
    subst hx
    exact ⟨l', rfl, hl⟩

theorem summ_getRight {H : Hash} {a b : Node} (h : Summ H a b) :
    ORel (Summ H) (getRight a) (getRight b) := by
  intro x hx
  cases a with
  | leaf c => cases hx
  | pair l r =>
    obtain ⟨l', r', rfl, hl, hr⟩ := summ_pair_inv h
    simp only [Rmk.getRight, Option.some.injEq] at hx
    subst hx
    exact ⟨r', rfl, hr⟩

theorem summ_rebindRight {H : Hash} {a b : Node} (h : Summ H a b) (v : Node) :
    ORel (Summ H) (rebindRight a v) (rebindRight b v) := by
  intro x hx
  cases a with
  | leaf c => cases hx
  | pair l r =>
    obtain ⟨l', r', rfl, hl, hr⟩ := summ_pair_inv h
    simp only [Rmk.rebindRight, Option.some.injEq] at hx
    subst hx
    exact ⟨.pair l' v, rfl, .pair _ _ _ _ hl (.refl _)⟩

theorem summ_rebindLeft {H : Hash} {a b : Node} (h : Summ H a b) (v : Node) :
    ORel (Summ H) (rebindLeft a v) (rebindLeft b v) := by
  intro x hx
  cases a with
  | leaf c => cases hx
  | pair l r =>
    obtain ⟨l', r', rfl, hl, hr⟩ := summ_pair_inv h
    simp only [Rmk.rebindLeft, Option.some.injEq] at hx
    subst hx
    exact ⟨.pair v r', rfl, .pair _ _ _ _ (.refl _) hr⟩

theorem summ_readLen {H : Hash} {a b : Node} (h : Summ H a b) : readLen H a = readLen H b := by
  simp only [Impl.readLen, h.root_eq]

/-- the length read from a partial tree (when the length node is present) is the true length -/
theorem summ_listLength {H : Hash} {a b : Node} (h : Summ H a b) :
    OLe (listLength H a) (listLength H b) := by
  unfold Impl.listLength
  exact orel_map_ole (summ_getRight h) (fun _ _ hs => summ_readLen hs)

theorem summ_listLength_eq {H : Hash} {a b : Node} (h : Summ H a b) (k : Nat)
    (hk : listLength H a = some k) : listLength H b = some k := summ_listLength h k hk

theorem summ_readBasicAt {H : Hash} {a b : Node} (h : Summ H a b) (t : Ty) (j : Nat) :
    readBasicAt H t a j = readBasicAt H t b j := by
  simp only [Impl.readBasicAt, h.root_eq]

theorem summ_spliceBasic {H : Hash} {a b : Node} (h : Summ H a b) (size j v : Nat) :
    spliceBasic H size a j v = spliceBasic H size b j v := by
  simp only [Impl.spliceBasic, h.root_eq]

theorem summ_chunkWithBit {H : Hash} {a b : Node} (h : Summ H a b) (i : Nat) (v : Bool) :
    chunkWithBit H a i v = chunkWithBit H b i v := by
  simp only [Impl.chunkWithBit, h.root_eq]

theorem summ_readChunks {H : Hash} {a b : Node} (h : Summ H a b) (depth count : Nat) :
    OLe (readChunks H a depth count) (readChunks H b depth count) := by
  unfold Impl.readChunks
  refine orel_map_ole (allSome_roots H _ _ _ (fun i _ => summ_getAt h i depth)) ?_
  intro cs cs' hr
  have : ∀ l : List Node, l.flatMap (fun c => c.root H) = (l.map (·.root H)).flatten := by
    intro l; induction l with
    | nil => rfl
    | cons x xs ih => simp [ih]
  rw [this, this, hr]

/-! ## 2. complete reads -/

/-- packed basic elements: the chunk is read through its root only -/
theorem ole_packed {H : Hash} {a b : Node} (h : Summ H a b) (et : Ty) (depth per : Nat) (i : Nat) :
    OLe ((getAt a (i / per) depth).bind fun c => readBasicAt H et c (i % per))
      ((getAt b (i / per) depth).bind fun c => readBasicAt H et c (i % per)) :=
  orel_bind_ole (summ_getAt h _ depth) (fun u v hs => by
    rw [summ_readBasicAt hs]; exact ole_refl _)

theorem ole_bits {H : Hash} {a b : Node} (h : Summ H a b) (depth : Nat) (i : Nat) :
    OLe ((getAt a (i / 256) depth).map fun c => bitOfChunk (c.root H) i)
      ((getAt b (i / 256) depth).map fun c => bitOfChunk (c.root H) i) :=
  orel_map_ole (summ_getAt h _ depth) (fun u v hs => by rw [hs.root_eq])

mutual
theorem ole_readVal (H : Hash) (t : Ty) (a b : Node) (h : Summ H a b) :
    OLe (readVal H t a) (readVal H t b) := by
  cases t with
  | uint nb =>
    simp only [readVal, summ_readBasicAt h]; exact ole_refl _
  | bool =>
    simp only [readVal, summ_readBasicAt h]; exact ole_refl _
  | bitvector len =>
    simp only [readVal]
    exact ole_map _ (ole_allSome _ _ _ (fun i _ => ole_bits h _ i))
  | bitlist lim =>
    simp only [readVal]
    cases hl : listLength H a with
    | none => exact ole_none _
    | some len =>
      rw [summ_listLength_eq h len hl]
      exact ole_map _ (ole_allSome _ _ _ (fun i _ => ole_bits h _ i))
  | bytevector len =>
    simp only [readVal, h.root_eq]
    split
    · exact ole_refl _
    · exact ole_map _ (summ_readChunks h _ _)
  | bytelist lim =>
    simp only [readVal]
    cases hgl : getLeft a with
    | none => exact ole_none _
    | some c =>
      cases hgr : getRight a with
      | none => exact ole_none _
      | some l =>
        obtain ⟨c', hc', hsc⟩ := summ_getLeft h c hgl
        obtain ⟨l', hl', hsl⟩ := summ_getRight h l hgr
        rw [hc', hl']
        simp only [summ_readLen hsl, hsc.root_eq]
        split
        · exact ole_refl _
        · split
          · exact ole_refl _
          · exact ole_map _ (summ_readChunks hsc _ _)
  | vector et len =>
    simp only [readVal]
    split
    · exact ole_map _ (ole_allSome _ _ _ (fun i _ => ole_packed h et _ _ i))
    · exact ole_map _ (ole_allSome _ _ _ (fun i _ =>
        orel_bind_ole (summ_getAt h i _) (fun u v hs => ole_readVal H et u v hs)))
  | list et lim =>
    simp only [readVal]
    cases hl : listLength H a with
    | none => exact ole_none _
    | some len =>
      rw [summ_listLength_eq h len hl]
      simp only []
      split
      · exact ole_map _ (ole_allSome _ _ _ (fun i _ => ole_packed h et _ _ i))
      · exact ole_map _ (ole_allSome _ _ _ (fun i _ =>
          orel_bind_ole (summ_getAt h i _) (fun u v hs => ole_readVal H et u v hs)))
  | container fs =>
    simp only [readVal]
    exact ole_map _ (ole_readFields H fs a b h _ 0)
  | union hasNone opts =>
    simp only [readVal]
    cases hgl : getLeft a with
    | none => exact ole_none _
    | some c =>
      cases hgr : getRight a with
      | none => exact ole_none _
      | some s =>
        obtain ⟨c', hc', hsc⟩ := summ_getLeft h c hgl
        obtain ⟨s', hs', hss⟩ := summ_getRight h s hgr
        rw [hc', hs']
        simp only [summ_readLen hss, hsc.root_eq]
        split
        · exact ole_refl _
        · split
          · exact ole_refl _
          · exact ole_map _ (ole_readOpt H opts _ c c' hsc)
theorem ole_readFields (H : Hash) (ts : List Ty) (a b : Node) (h : Summ H a b) (depth i : Nat) :
    OLe (readFields H ts a depth i) (readFields H ts b depth i) := by
  cases ts with
  | nil => exact ole_refl _
  | cons t ts =>
    have h1 : OLe ((getAt a i depth).bind fun c => readVal H t c)
        ((getAt b i depth).bind fun c => readVal H t c) :=
      orel_bind_ole (summ_getAt h i depth) (fun u v hs => ole_readVal H t u v hs)
    have h2 := ole_readFields H ts a b h depth (i + 1)
    intro w hw
    simp only [readFields] at hw ⊢
    cases hx : (getAt a i depth).bind fun c => readVal H t c with
    | none => rw [hx] at hw; cases hw
    | some v =>
      cases hy : readFields H ts a depth (i + 1) with
      | none => rw [hx, hy] at hw; cases hw
      | some vs =>
        rw [hx, hy] at hw
        rw [h1 v hx, h2 vs hy]
        exact hw
theorem ole_readOpt (H : Hash) (ts : List Ty) (k : Nat) (a b : Node) (h : Summ H a b) :
    OLe (readOpt H ts k a) (readOpt H ts k b) := by
  cases ts with
  | nil => simp only [readOpt]; exact ole_refl _
  | cons t ts =>
    cases k with
    | zero => simp only [readOpt]; exact ole_readVal H t a b h
    | succ k => simp only [readOpt]; exact ole_readOpt H ts k a b h
end

/-- THE read theorem: a complete read of a partial tree either fails (navigation into an excluded
    subtree) or returns exactly what the complete tree returns. -/
theorem summ_readVal (H : Hash) (t : Ty) (a b : Node) (h : Summ H a b) :
    Impl.readVal H t a = none ∨ Impl.readVal H t a = Impl.readVal H t b :=
  (ole_iff _ _).1 (ole_readVal H t a b h)

theorem summ_readFields (H : Hash) (ts : List Ty) (a b : Node) (h : Summ H a b) (depth i : Nat) :
    Impl.readFields H ts a depth i = none ∨
      Impl.readFields H ts a depth i = Impl.readFields H ts b depth i :=
  (ole_iff _ _).1 (ole_readFields H ts a b h depth i)

theorem summ_readOpt (H : Hash) (ts : List Ty) (k : Nat) (a b : Node) (h : Summ H a b) :
    Impl.readOpt H ts k a = none ∨ Impl.readOpt H ts k a = Impl.readOpt H ts k b :=
  (ole_iff _ _).1 (ole_readOpt H ts k a b h)

/-! ## 3. serialisation from the tree -/

theorem ole_serBitsRaw {H : Hash} {a b : Node} (h : Summ H a b) (depth bitlen : Nat) :
    OLe (serBitsRaw H a depth bitlen) (serBitsRaw H b depth bitlen) := by
  unfold serBitsRaw
  simp only []
  cases hc : readChunks H a depth ((bitlen + 255) / 256 - 1) with
  | none => exact ole_none _
  | some pre =>
    rw [summ_readChunks h _ _ pre hc]
    simp only []
    split
    · exact orel_map_ole (summ_getAt h _ depth) (fun u v hs => by rw [hs.root_eq])
    · exact ole_refl _

theorem ole_serSeqWith {H : Hash} {a b : Node} (h : Summ H a b)
    (ser : Node → Option (List UInt8 × Nat))
    (hser : ∀ x y, Summ H x y → OLe (ser x) (ser y)) (et : Ty) (depth len : Nat) :
    OLe (serSeqWith H ser et a depth len) (serSeqWith H ser et b depth len) := by
  unfold serSeqWith
  split
  · refine ole_map _ (ole_allSome _ _ _ (fun i _ => ?_))
    exact orel_bind_ole (summ_getAt h _ depth) (fun u v hs => by
      rw [summ_readBasicAt hs]; exact ole_refl _)
  · have := ole_allSome (List.range len) (fun i => (getAt a i depth).bind ser)
      (fun i => (getAt b i depth).bind ser)
      (fun i _ => orel_bind_ole (summ_getAt h i depth) (fun u v hs => hser u v hs))
    cases hx : allSome ((List.range len).map fun i => (getAt a i depth).bind ser) with
    | none => exact ole_none _
    | some parts =>
      rw [this parts hx]
      exact ole_refl _

mutual
theorem ole_serTree (H : Hash) (t : Ty) (a b : Node) (h : Summ H a b) :
    OLe (serTree H t a) (serTree H t b) := by
  cases t with
  | uint nb =>
    simp only [serTree, summ_readBasicAt h]; exact ole_refl _
  | bool =>
    simp only [serTree, summ_readBasicAt h]; exact ole_refl _
  | bitvector len =>
    simp only [serTree]
    exact ole_map _ (ole_serBitsRaw h _ _)
  | bitlist lim =>
    simp only [serTree]
    cases hl : listLength H a with
    | none => exact ole_none _
    | some len =>
      rw [summ_listLength_eq h len hl]
      exact ole_map _ (ole_serBitsRaw h _ _)
  | bytevector len =>
    simp only [serTree]
    cases hr : readVal H (.bytevector len) a with
    | none => exact ole_none _
    | some v =>
      rw [ole_readVal H _ a b h v hr]
      exact ole_refl _
  | bytelist lim =>
    simp only [serTree]
    cases hr : readVal H (.bytelist lim) a with
    | none => exact ole_none _
    | some v =>
      rw [ole_readVal H _ a b h v hr]
      exact ole_refl _
  | vector et len =>
    simp only [serTree]
    exact ole_serSeqWith h _ (fun x y hs => ole_serTree H et x y hs) et _ _
  | list et lim =>
    simp only [serTree]
    cases hl : listLength H a with
    | none => exact ole_none _
    | some len =>
      rw [summ_listLength_eq h len hl]
      exact ole_serSeqWith h _ (fun x y hs => ole_serTree H et x y hs) et _ _
  | container fs =>
    simp only [serTree]
    exact ole_map _ (ole_serFields H fs a b h _ 0)
  | union hasNone opts =>
    simp only [serTree]
    cases hgl : getLeft a with
    | none => exact ole_none _
    | some c =>
      cases hgr : getRight a with
      | none => exact ole_none _
      | some s =>
        obtain ⟨c', hc', hsc⟩ := summ_getLeft h c hgl
        obtain ⟨s', hs', hss⟩ := summ_getRight h s hgr
        rw [hc', hs']
        simp only [summ_readLen hss, hsc.root_eq]
        split
        · exact ole_refl _
        · split
          · exact ole_refl _
          · exact ole_map _ (ole_serOpt H opts _ c c' hsc)
theorem ole_serFields (H : Hash) (ts : List Ty) (a b : Node) (h : Summ H a b) (depth i : Nat) :
    OLe (serFields H ts a depth i) (serFields H ts b depth i) := by
  cases ts with
  | nil => exact ole_refl _
  | cons t ts =>
    have h1 : OLe ((getAt a i depth).bind fun c => serTree H t c)
        ((getAt b i depth).bind fun c => serTree H t c) :=
      orel_bind_ole (summ_getAt h i depth) (fun u v hs => ole_serTree H t u v hs)
    have h2 := ole_serFields H ts a b h depth (i + 1)
    intro w hw
    simp only [serFields] at hw ⊢
    cases hx : (getAt a i depth).bind fun c => serTree H t c with
    | none => rw [hx] at hw; cases hw
    | some v =>
      cases hy : serFields H ts a depth (i + 1) with
      | none => rw [hx, hy] at hw; cases hw
      | some vs =>
        rw [hx, hy] at hw
        rw [h1 v hx, h2 vs hy]
        exact hw
theorem ole_serOpt (H : Hash) (ts : List Ty) (k : Nat) (a b : Node) (h : Summ H a b) :
    OLe (serOpt H ts k a) (serOpt H ts k b) := by
  cases ts with
  | nil => simp only [serOpt]; exact ole_refl _
  | cons t ts =>
    cases k with
    | zero => simp only [serOpt]; exact ole_serTree H t a b h
    | succ k => simp only [serOpt]; exact ole_serOpt H ts k a b h
end

/-- serialising a partial tree either fails or writes exactly the bytes (and returns the count) that
    the complete tree gives. -/
theorem summ_serTree (H : Hash) (t : Ty) (a b : Node) (h : Summ H a b) :
    Impl.serTree H t a = none ∨ Impl.serTree H t a = Impl.serTree H t b :=
  (ole_iff _ _).1 (ole_serTree H t a b h)

theorem summ_serFields (H : Hash) (ts : List Ty) (a b : Node) (h : Summ H a b) (depth i : Nat) :
    Impl.serFields H ts a depth i = none ∨
      Impl.serFields H ts a depth i = Impl.serFields H ts b depth i :=
  (ole_iff _ _).1 (ole_serFields H ts a b h depth i)

theorem summ_serOpt (H : Hash) (ts : List Ty) (k : Nat) (a b : Node) (h : Summ H a b) :
    Impl.serOpt H ts k a = none ∨ Impl.serOpt H ts k a = Impl.serOpt H ts k b :=
  (ole_iff _ _).1 (ole_serOpt H ts k a b h)

/-! ## 4. writes -/

/-- summarising the same position of the partial and of the complete tree -/
theorem summ_summarizePath {H : Hash} {a b : Node} (h : Summ H a b) (p : List Bool) :
    ORel (Summ H) (summarizePath H a p) (summarizePath H b p) := by
  intro x hx
  unfold summarizePath at hx ⊢
  cases hg : getPath a p with
  | none => rw [hg] at hx; cases hx
  | some m =>
    obtain ⟨m', hm', hsm⟩ := h.getPath p m hg
    rw [hg] at hx
    rw [hm']
    simp only [] at hx ⊢
    rw [← hsm.root_eq]
    exact h.setPath p _ x hx

/-- 5. `Summ` is preserved by summarising more of the partial tree -/
theorem summarizePath_summ_of_summ (H : Hash) (a a' b : Node) (p : List Bool)
    (hs : summarizePath H a p = some a') (h : Summ H a b) : Summ H a' b :=
  (summarizePath_summ H a p a' hs).trans h

theorem summ_popFinish {H : Hash} {a b : Node} (h : Summ H a b) (target : List Bool)
    (cs : Bool) (newLen : Nat) :
    ORel (Summ H) (popFinish H a target cs newLen) (popFinish H b target cs newLen) := by
  unfold popFinish
  refine orel_bind (R := Summ H) ?_ (fun u v hs => summ_rebindRight hs _)
  split
  · exact summ_summarizePath h _
  · exact orel_some _ _ _ h

/-! ### writes with expansion -/

/-- no pair of chunks other than two zero hashes of height `d` hashes to the zero hash of height
    `d + 1`.  (A consequence of collision-freeness `Injective2 H`; an explicit hypothesis of the
    theorems about `append` below, which are FALSE without it: see the comment before
    `summ_apply`.) -/
def ZeroInj (H : Hash) : Prop :=
  ∀ d x y, H x y = zeroHash H (d + 1) → x = zeroHash H d ∧ y = zeroHash H d

theorem zeroInj_of_injective2 (H : Hash) (hH : Injective2 H) : ZeroInj H :=
  fun d x y h => hH x y (zeroHash H d) (zeroHash H d) (by simpa [zeroHash] using h)

/-- a write with expansion into a subtree whose root is the zero hash of its height: the subtree
    is kept where it is present; the result is summarised by the freshly expanded zero subtree -/
theorem setPath_expand_zero_root (H : Hash) (hZ : ZeroInj H) (p : List Bool) (x v : Node)
    (hx : x.root H = zeroHash H p.length) :
    ∃ x', setPath H true x p v = some x' ∧ Summ H (expandSet H p v) x' := by
  induction p generalizing x with
  | nil => exact ⟨v, by simp, by simp [expandSet]; exact .refl _⟩
  | cons b bs ih =>
    cases x with
    | leaf c =>
      simp only [Node.root, List.length_cons] at hx
      subst hx
      exact ⟨expandSet H (b :: bs) v, by simp, .refl _⟩
    | pair l r =>
      simp only [Node.root, List.length_cons] at hx
      obtain ⟨hl, hr⟩ := hZ _ _ _ hx
      cases b with
      | false =>
        obtain ⟨l', hl', hs⟩ := ih l hl
        refine ⟨.pair l' r, by simp [hl'], ?_⟩
        simp only [expandSet, Bool.false_eq_true, if_false]
        refine .pair _ _ _ _ hs ?_
        rw [zeroNode, ← hr]; exact .leaf r
      | true =>
        obtain ⟨r', hr', hs⟩ := ih r hr
        refine ⟨.pair l r', by simp [hr'], ?_⟩
        simp only [expandSet, if_true]
        refine .pair _ _ _ _ ?_ hs
        rw [zeroNode, ← hl]; exact .leaf l

/-- `Summ.setPath` for writes with expansion (needs `ZeroInj`) -/
theorem summ_setPath_expand (H : Hash) (hZ : ZeroInj H) {a b : Node} (h : Summ H a b)
    (p : List Bool) (v a' : Node) (hs : setPath H true a p v = some a') :
    ∃ b', setPath H true b p v = some b' ∧ Summ H a' b' := by
  induction p generalizing a b a' with
  | nil => simp at hs; subst hs; exact ⟨v, by simp, .refl _⟩
  | cons c cs ih =>
    cases h with
    | refl _ => exact ⟨a', hs, .refl _⟩
    | leaf _ =>
      simp at hs
      obtain ⟨hc, rfl⟩ := hs
      exact setPath_expand_zero_root H hZ (c :: cs) b v (by simpa using hc)
    | pair l r l' r' hl hr =>
      cases c <;> simp at hs
      · obtain ⟨l2, hl2, rfl⟩ := hs
        obtain ⟨b2, hb2, hsum⟩ := ih hl l2 hl2
        exact ⟨.pair b2 r', by simp [hb2], .pair _ _ _ _ hsum hr⟩
      · obtain ⟨r2, hr2, rfl⟩ := hs
        obtain ⟨b2, hb2, hsum⟩ := ih hr r2 hr2
        exact ⟨.pair l' b2, by simp [hb2], .pair _ _ _ _ hl hsum⟩

theorem summ_setAt_expand (H : Hash) (hZ : ZeroInj H) {a b : Node} (h : Summ H a b)
    (i depth : Nat) (v : Node) :
    ORel (Summ H) (setAt H true a i depth v) (setAt H true b i depth v) := by
  intro x hx
  unfold Impl.setAt at hx ⊢
  split
  · next hi => rw [if_pos hi] at hx; cases hx
  · next hi =>
    rw [if_neg hi] at hx
    exact summ_setPath_expand H hZ h _ v x hx

theorem orel_refl_summ (H : Hash) (x : Option Node) : ORel (Summ H) x x :=
  fun u hu => ⟨u, hu, .refl _⟩

/-- `BitsView.set` step: read the chunk, write it back with one bit changed -/
theorem orel_bitSet {H : Hash} {a b : Node} (h : Summ H a b) (ci depth i : Nat) (bit : Bool) :
    ORel (Summ H)
      ((getAt a ci depth).bind fun chunk => setAt H false a ci depth (chunkWithBit H chunk i bit))
      ((getAt b ci depth).bind fun chunk => setAt H false b ci depth (chunkWithBit H chunk i bit)) :=
  orel_bind (summ_getAt h ci depth) (fun u w hs => by
    rw [summ_chunkWithBit hs]; exact summ_setAt_noexpand h _ _ _)

/-- packed `SubtreeView.set` step: read the chunk, write it back with one element spliced in -/
theorem orel_spliceSet {H : Hash} {a b : Node} (h : Summ H a b) (ci depth size j val : Nat) :
    ORel (Summ H)
      (match getAt a ci depth with
        | none => none
        | some chunk => setAt H false a ci depth (spliceBasic H size chunk j val))
      (match getAt b ci depth with
        | none => none
        | some chunk => setAt H false b ci depth (spliceBasic H size chunk j val)) := by
  cases hg : getAt a ci depth with
  | none => exact orel_none _ _
  | some chunk =>
    obtain ⟨chunk', hg', hs⟩ := summ_getAt h ci depth chunk hg
    rw [hg']
    simp only [summ_spliceBasic hs]
    exact summ_setAt_noexpand h _ _ _

/-- the assumption about writes with expansion under which `apply` commutes with summaries -/
def ExpandOk (H : Hash) : Prop :=
  ∀ (a b : Node), Summ H a b → ∀ (i depth : Nat) (v : Node),
    ORel (Summ H) (setAt H true a i depth v) (setAt H true b i depth v)

theorem orel_apply_gen (H : Hash) (t : Ty) (a b : Node) (op : Op) (h : Summ H a b)
    (hexp : (∃ v, op = .append v) → ExpandOk H) :
    ORel (Summ H) (apply H t a op) (apply H t b op) := by
  cases t <;> cases op <;> simp only [apply] <;> try exact orel_none _ _
  case bitvector.set len i v =>
    split
    · exact orel_none _ _
    · cases v <;> simp only [] <;> try exact orel_none _ _
      exact orel_bitSet h _ _ _ _
  case bitlist.set lim i v =>
    cases hl : listLength H a with
    | none => exact orel_none _ _
    | some len =>
      rw [summ_listLength_eq h len hl]
      simp only []
      split
      · exact orel_none _ _
      · cases v <;> simp only [] <;> try exact orel_none _ _
        exact orel_bitSet h _ _ _ _
  case bitlist.append lim v =>
    have hE := hexp ⟨v, rfl⟩
    cases hl : listLength H a with
    | none => exact orel_none _ _
    | some len =>
      rw [summ_listLength_eq h len hl]
      simp only []
      split
      · exact orel_none _ _
      · cases v <;> simp only [] <;> try exact orel_none _ _
        refine orel_bind (R := Summ H) ?_ (fun u w hs => summ_rebindRight hs _)
        split
        · exact hE a b h _ _ _
        · exact orel_bitSet h _ _ _ _
  case bitlist.pop lim =>
    cases hl : listLength H a with
    | none => exact orel_none _ _
    | some len =>
      rw [summ_listLength_eq h len hl]
      simp only []
      split
      · exact orel_none _ _
      · split
        · exact orel_none _ _
        · refine orel_bind (R := Summ H) ?_ (fun u w hs => summ_popFinish hs _ _ _)
          split
          · exact summ_setAt_noexpand h _ _ _
          · exact orel_bitSet h _ _ _ _
  case vector.set et len i v =>
    split
    · exact orel_none _ _
    · cases hc : construct H et v with
      | none => exact orel_none _ _
      | some vn =>
        simp only []
        split
        · exact orel_spliceSet h _ _ _ _ _
        · exact summ_setAt_noexpand h _ _ _
  case list.set et lim i v =>
    cases hl : listLength H a with
    | none => exact orel_none _ _
    | some len =>
      rw [summ_listLength_eq h len hl]
      simp only []
      split
      · exact orel_none _ _
      · cases hc : construct H et v with
        | none => exact orel_none _ _
        | some vn =>
          simp only []
          split
          · exact orel_spliceSet h _ _ _ _ _
          · exact summ_setAt_noexpand h _ _ _
  case list.append et lim v =>
    have hE := hexp ⟨v, rfl⟩
    cases hl : listLength H a with
    | none => exact orel_none _ _
    | some len =>
      rw [summ_listLength_eq h len hl]
      simp only []
      split
      · exact orel_none _ _
      · cases hc : construct H et v with
        | none => exact orel_none _ _
        | some vn =>
          simp only []
          refine orel_bind (R := Summ H) ?_ (fun u w hs => summ_rebindRight hs _)
          split
          · split
            · exact hE a b h _ _ _
            · exact orel_spliceSet h _ _ _ _ _
          · exact hE a b h _ _ _
  case list.pop et lim =>
    cases hl : listLength H a with
    | none => exact orel_none _ _
    | some len =>
      rw [summ_listLength_eq h len hl]
      simp only []
      split
      · exact orel_none _ _
      · split
        · split
          · exact orel_none _ _
          · by_cases hm : ((len - 1) % (32 / et.basicSize) == 0) = true
            · -- the last element is alone in its chunk: the chunk is replaced by a zero chunk
              simp only [if_pos hm]
              cases hs : setAt H false a ((len - 1) / (32 / et.basicSize))
                  (getDepth (chunkLen et lim) + 1)
                  (spliceBasic H et.basicSize (zeroNode H 0) ((len - 1) % (32 / et.basicSize)) 0) with
              | none => exact orel_none _ _
              | some next =>
                obtain ⟨next', hn', hsn⟩ := summ_setAt_noexpand h _ _ _ next hs
                rw [hn']
                exact summ_popFinish hsn _ _ _
            · simp only [if_neg hm]
              cases hg : getAt a ((len - 1) / (32 / et.basicSize)) (getDepth (chunkLen et lim) + 1) with
              | none => exact orel_none _ _
              | some ch =>
                obtain ⟨ch', hg', hsc⟩ := summ_getAt h _ _ ch hg
                rw [hg']
                simp only [summ_spliceBasic hsc]
                cases hs : setAt H false a ((len - 1) / (32 / et.basicSize))
                    (getDepth (chunkLen et lim) + 1)
                    (spliceBasic H et.basicSize ch' ((len - 1) % (32 / et.basicSize)) 0) with
                | none => exact orel_none _ _
                | some next =>
                  obtain ⟨next', hn', hsn⟩ := summ_setAt_noexpand h _ _ _ next hs
                  rw [hn']
                  exact summ_popFinish hsn _ _ _
        · cases hs : setAt H false a (len - 1) (getDepth (chunkLen et lim) + 1) (zeroNode H 0) with
          | none => exact orel_none _ _
          | some next =>
            obtain ⟨next', hn', hsn⟩ := summ_setAt_noexpand h _ _ _ next hs
            rw [hn']
            exact summ_popFinish hsn _ _ _
  case container.set fs i v =>
    cases hf : fs[i]? with
    | none => exact orel_none _ _
    | some ft =>
      simp only []
      cases hc : construct H ft v with
      | none => exact orel_none _ _
      | some vn => exact summ_setAt_noexpand h _ _ _
  case union.change hasNone opts sel v =>
    exact orel_refl_summ H _

/-- `ZeroInj` gives the expansion property used by `append` -/
theorem expandOk_of_zeroInj (H : Hash) (hZ : ZeroInj H) : ExpandOk H :=
  fun _ _ h i depth v => summ_setAt_expand H hZ h i depth v

/-- 4 (all operations except `append`, no hypothesis on `H`): a write on a partial tree either
    fails or gives the partial version of the result of the same write on the complete tree (so the
    roots after the write are equal).

    What is missing: `Op.append`.  `append` writes with `expand = true`; when the path in the partial
    tree meets a summary leaf `c` that equals the zero hash of its height, the library (and the
    model) replaces it by a fresh all-zero subtree.  If `c` is the summary of a subtree holding
    DATA whose root merely collides with that zero hash, the data is lost and the roots differ
    afterwards — see `append_counterexample` below, in which the complete tree is a proper
    representation (`Impl.Repr`).  So the `append` case cannot be proved from `Impl.Repr` alone for
    a generic `H`; it holds under `ZeroInj H` (`summ_apply`). -/
theorem summ_apply_partial (H : Hash) (t : Ty) (a b : Node) (op : Op) (h : Summ H a b)
    (hop : ∀ v, op ≠ .append v) :
    Impl.apply H t a op = none ∨ ∃ a' b', Impl.apply H t a op = some a' ∧
      Impl.apply H t b op = some b' ∧ Summ H a' b' :=
  (orel_iff _ _ _).1 (orel_apply_gen H t a b op h (fun ⟨v, hv⟩ => absurd hv (hop v)))

/-- 4 (all operations, `append` included) under the explicit hypothesis that nothing but two zero
    hashes of height `d` hashes to the zero hash of height `d + 1` (implied by collision-freeness,
    `zeroInj_of_injective2`).  No `Repr` hypothesis is needed. -/
theorem summ_apply (H : Hash) (hZ : ZeroInj H) (t : Ty) (a b : Node) (op : Op) (h : Summ H a b) :
    Impl.apply H t a op = none ∨ ∃ a' b', Impl.apply H t a op = some a' ∧
      Impl.apply H t b op = some b' ∧ Summ H a' b' :=
  (orel_iff _ _ _).1 (orel_apply_gen H t a b op h (fun _ => expandOk_of_zeroInj H hZ))

theorem summ_apply_of_injective2 (H : Hash) (hH : Injective2 H) (t : Ty) (a b : Node) (op : Op)
    (h : Summ H a b) :
    Impl.apply H t a op = none ∨ ∃ a' b', Impl.apply H t a op = some a' ∧
      Impl.apply H t b op = some b' ∧ Summ H a' b' :=
  summ_apply H (zeroInj_of_injective2 H hH) t a b op h

/-- the roots after a successful write on the partial tree and on the complete tree are equal -/
theorem summ_apply_root (H : Hash) (hZ : ZeroInj H) (t : Ty) (a b : Node) (op : Op) (h : Summ H a b)
    (a' : Node) (ha : Impl.apply H t a op = some a') :
    ∃ b', Impl.apply H t b op = some b' ∧ a'.root H = b'.root H := by
  rcases summ_apply H hZ t a b op h with hn | ⟨a2, b', h1, h2, hs⟩
  · rw [hn] at ha; cases ha
  · rw [h1] at ha; cases ha
    exact ⟨b', h2, hs.root_eq⟩

theorem summ_apply_partial_root (H : Hash) (t : Ty) (a b : Node) (op : Op) (h : Summ H a b)
    (hop : ∀ v, op ≠ .append v) (a' : Node) (ha : Impl.apply H t a op = some a') :
    ∃ b', Impl.apply H t b op = some b' ∧ a'.root H = b'.root H := by
  rcases summ_apply_partial H t a b op h hop with hn | ⟨a2, b', h1, h2, hs⟩
  · rw [hn] at ha; cases ha
  · rw [h1] at ha; cases ha
    exact ⟨b', h2, hs.root_eq⟩

/-! ### why `append` needs `ZeroInj`: a counterexample for a hash with a zero-hash collision -/

/-- a toy hash in which everything paired with a zero chunk on the right collides with the zero hash -/
def Hc : Hash := fun x y => if y = zeroChunk then zeroChunk else x ++ y

/-- `List[uint256, 2]` holding `[1]`: complete tree, and the partial tree in which the contents
    subtree (holding the element `1`) is summarised; the summary equals `zeroHash Hc 1`. -/
def cT : Ty := .list (.uint 32) 2
def cB : Node := .pair (.pair (.leaf (chunkOfLE 32 1)) (.leaf zeroChunk)) (lenNode 1)
def cA : Node := .pair (.leaf zeroChunk) (lenNode 1)
def cA' : Node := .pair (.pair (.leaf zeroChunk) (.leaf (chunkOfLE 32 2))) (lenNode 2)
def cB' : Node := .pair (.pair (.leaf (chunkOfLE 32 1)) (.leaf (chunkOfLE 32 2))) (lenNode 2)

theorem append_counterexample :
    ∃ (H : Hash) (t : Ty) (v : Val) (a b a' b' : Node) (x : Val),
      t.wf = true ∧ Summ H a b ∧ Impl.Repr H t v b ∧
      Impl.apply H t a (.append x) = some a' ∧ Impl.apply H t b (.append x) = some b' ∧
      a'.root H ≠ b'.root H := by
  refine ⟨Hc, cT, .seq [.num 1], cA, cB, cA', cB', .num 2, by decide, ?_, ?_, ?_, ?_, ?_⟩
  · have hr : (Node.pair (.leaf (chunkOfLE 32 1)) (.leaf zeroChunk)).root Hc = zeroChunk := by decide
    refine .pair _ _ _ _ ?_ (.refl _)
    rw [← hr]; exact .leaf _
  · exact ReprBasics.construct_repr Hc cT _ cB (by decide) (by decide)
  · decide
  · decide
  · decide

end Rmk.PartialViews
