/-
C08, second half: the node found at the static generalized index of a key path is the node that
represents the addressed sub-value (for every tree shape admitted by `Impl.Repr`), and for packed
positions it is the leaf chunk that holds the addressed element.  Generic in the pair hash `H`.
-/
import Rmk.Proofs.ReprBasics
namespace Rmk.PathAddress
open Rmk Rmk.Impl Rmk.Spec
open Rmk.ChunkTreeLemmas Rmk.ReprBasics

/-! ## 0. definitions -/

/-- The sub-value of `v : t` addressed by one key, with its type (`none` type = the `None` option of
    a union).  `none` = the key does not belong to the VALUE (index at or beyond the actual length,
    option other than the selected one, key not applicable to the type).
    For packed sequences / bitfields / byte arrays the element is returned too (as a `uintN` /
    `boolean` / `uint8` value); the tree node at the index is then the chunk holding it, see
    `unpackedKey` and `packed_addresses`.
    (`ByteList` has no `'__len__'` key in the library — `navigate_type` / `key_to_static_gindex`
    reject it, and so does the SSZ `get_generalized_index` — hence none here either.) -/
def subVal : Ty → Val → Key → Option (Option Ty × Val)
  | .list et _, .seq vs, .idx i => (vs[i]?).map fun x => (some et, x)
  | .list _ _, .seq vs, .len => some (some (.uint 32), .num vs.length)
  | .vector et _, .seq vs, .idx i => (vs[i]?).map fun x => (some et, x)
  | .container fs, .seq vs, .idx i =>
    match fs[i]?, vs[i]? with
    | some ft, some x => some (some ft, x)
    | _, _ => none
  | .bitlist _, .bits bs, .idx i => (bs[i]?).map fun b => (some .bool, .num (if b then 1 else 0))
  | .bitlist _, .bits bs, .len => some (some (.uint 32), .num bs.length)
  | .bitvector _, .bits bs, .idx i => (bs[i]?).map fun b => (some .bool, .num (if b then 1 else 0))
  | .bytelist _, .bytes bs, .idx i => (bs[i]?).map fun b => (some (.uint 1), .num b.toNat)
  | .bytevector _, .bytes bs, .idx i => (bs[i]?).map fun b => (some (.uint 1), .num b.toNat)
  | .union hasNone opts, .un sel x, .idx i =>
    if i = sel then some (optType hasNone opts sel, x) else none
  | .union _ _, .un sel _, .sel => some (some (.uint 32), .num sel)
  | _, _, _ => none

/-- the key addresses a node of its own (an element / field / option subtree, the length or the
    selector leaf), as opposed to a position inside a packed chunk -/
def unpackedKey : Ty → Key → Bool
  | .list et _, .idx _ => !et.isBasic
  | .vector et _, .idx _ => !et.isBasic
  | .bitlist _, .idx _ => false
  | .bitvector _, .idx _ => false
  | .bytelist _, .idx _ => false
  | .bytevector _, .idx _ => false
  | _, _ => true

/-- follow a key path through a value, staying in unpacked positions -/
def subValPath : Option Ty → Val → List Key → Option (Option Ty × Val)
  | ot, v, [] => some (ot, v)
  | none, _, _ :: _ => none
  | some t, v, k :: ks =>
    if unpackedKey t k then
      match subVal t v k with
      | none => none
      | some (ot', v') => subValPath ot' v' ks
    else none

/-- the chunks of a packed value and the number of elements per chunk -/
def packedChunks : Ty → Val → Option (List Chunk × Nat)
  | .list et _, .seq vs =>
    if et.isBasic then some (packInts et.basicSize (vs.map numOf), 32 / et.basicSize) else none
  | .vector et _, .seq vs =>
    if et.isBasic then some (packInts et.basicSize (vs.map numOf), 32 / et.basicSize) else none
  | .bitlist _, .bits bs => some (packBits bs, 256)
  | .bitvector _, .bits bs => some (packBits bs, 256)
  | .bytelist _, .bytes bs => some (packBytes bs, 32)
  | .bytevector _, .bytes bs => some (packBytes bs, 32)
  | _, _ => none

/-- number of elements of a sequence-like value -/
def valLen : Val → Nat
  | .seq vs => vs.length
  | .bits bs => bs.length
  | .bytes bs => bs.length
  | _ => 0

/-! ## 1. navigation helpers -/

theorem getter_toGindex (n : Node) {i d g : Nat} (h : toGindex i d = some g) :
    getter n g = getAt n i d := by
  have hne := toGindex_ne_zero h
  have hb := gbits_toGindex i d g h
  unfold toGindex at h
  split at h
  · simp at h
  · next hlt =>
    unfold getter getAt
    rw [if_neg hne, if_neg hlt, hb]

theorem gbits_two : gbits 2 = [false] := by
  have := gbits_two_mul (g := 1) (by decide)
  simpa using this

theorem gbits_three : gbits 3 = [true] := by
  have := gbits_two_mul_add_one (g := 1) (by decide)
  simpa using this

theorem getter_two (l r : Node) : getter (.pair l r) 2 = some l := by
  simp [getter, gbits_two]

theorem getter_three (l r : Node) : getter (.pair l r) 3 = some r := by
  simp [getter, gbits_three]

theorem getter_one (n : Node) : getter n 1 = some n := by
  simp [getter]

/-- the length / selector leaf represents the number as a `uint256` -/
theorem repr_lenNode (H : Hash) (k : Nat) (h : k < 2 ^ 256) :
    Impl.Repr H (.uint 32) (.num k) (lenNode k) := by
  simp only [Impl.Repr, lenNode]
  exact ⟨h, trivial⟩

theorem reprFields_get {H : Hash} : ∀ {fs : List Ty} {vs : List Val} {ns : List Node},
    ReprFields H fs vs ns → ∀ (i : Nat) (ft : Ty) (x : Val), fs[i]? = some ft → vs[i]? = some x →
      ∃ hi : i < ns.length, Impl.Repr H ft x ns[i]
  | [], [], [], _, i, _, _, hf, _ => by simp at hf
  | t :: ts, v :: vs, n :: ns, h, i, ft, x, hf, hv => by
    simp only [ReprFields] at h
    cases i with
    | zero =>
      simp at hf hv; subst hf; subst hv
      exact ⟨by simp, h.1⟩
    | succ i =>
      simp at hf hv
      obtain ⟨hi, hr⟩ := reprFields_get (fs := ts) (vs := vs) (ns := ns) h.2 i ft x hf hv
      exact ⟨by simpa using hi, by simpa using hr⟩
  | [], [], _ :: _, h, _, _, _, _, _ => by simp only [ReprFields] at h
  | [], _ :: _, _, h, _, _, _, _, _ => by simp only [ReprFields] at h
  | _ :: _, [], _, h, _, _, _, _, _ => by simp only [ReprFields] at h
  | _ :: _, _ :: _, [], h, _, _, _, _, _ => by simp only [ReprFields] at h

theorem reprOpt_get {H : Hash} : ∀ {opts : List Ty} {k : Nat} {v : Val} {c : Node},
    ReprOpt H opts k v c → ∀ t, opts[k]? = some t → Impl.Repr H t v c
  | [], _, _, _, h, _, _ => by simp only [ReprOpt] at h
  | t :: _, 0, _, _, h, t', ht => by
    simp only [ReprOpt] at h
    simp at ht; subst ht; exact h
  | _ :: ts, k + 1, _, _, h, t', ht => by
    simp only [ReprOpt] at h
    simp at ht
    exact reprOpt_get (opts := ts) h t' ht

theorem limitsOkList_getElem? (fs : List Ty) (h : limitsOkList fs = true) (i : Nat) (t : Ty)
    (ht : fs[i]? = some t) : limitsOk t = true := by
  induction fs generalizing i with
  | nil => simp at ht
  | cons f fs ih =>
    simp [limitsOkList] at h
    cases i with
    | zero => simp at ht; subst ht; exact h.1
    | succ j => simp at ht; exact ih h.2 j ht

/-! ## 2. one step -/

/-- ONE STEP (core form).  The `limitsOk` hypothesis is needed for the `'__len__'` key only: the
    length leaf is a `uint256` representation of the length when the length is `< 2^256`. -/
theorem step_addresses_core (H : Hash) (t : Ty) (v : Val) (n : Node) (k : Key) (g : Nat)
    (t' : Ty) (v' : Val) (hr : Impl.Repr H t v n) (hwf : t.wf = true)
    (hlen : k = .len → limitsOk t = true)
    (hg : keyToStaticGindex t k = some g) (hu : unpackedKey t k = true)
    (hs : subVal t v k = some (some t', v')) :
    ∃ m, getter n g = some m ∧ Impl.Repr H t' v' m := by
  cases t with
  | uint nb => cases v <;> cases k <;> simp [subVal] at hs
  | bool => cases v <;> cases k <;> simp [subVal] at hs
  | bitvector len => cases v <;> cases k <;> simp [subVal, unpackedKey] at hs hu
  | bytevector len => cases v <;> cases k <;> simp [subVal, unpackedKey] at hs hu
  | bitlist lim =>
    cases v <;> try (cases k <;> simp [subVal] at hs; done)
    rename_i bs
    simp only [Impl.Repr] at hr
    obtain ⟨hle, c, rfl, hct⟩ := hr
    cases k with
    | idx i => simp [unpackedKey] at hu
    | sel => simp [subVal] at hs
    | len =>
      simp [subVal] at hs; obtain ⟨rfl, rfl⟩ := hs
      simp [keyToStaticGindex] at hg; subst hg
      have := hlen rfl; simp [limitsOk] at this
      exact ⟨_, getter_three _ _, repr_lenNode H _ (by omega)⟩
  | bytelist lim =>
    cases v <;> try (cases k <;> simp [subVal] at hs; done)
    rename_i bs
    simp only [Impl.Repr] at hr
    obtain ⟨hle, c, rfl, hct⟩ := hr
    cases k with
    | idx i => simp [unpackedKey] at hu
    | sel => simp [subVal] at hs
    | len => simp [subVal] at hs
  | vector et len =>
    cases v <;> try (cases k <;> simp [subVal] at hs; done)
    rename_i vs
    simp only [Impl.Repr] at hr
    obtain ⟨hlen', hr⟩ := hr
    cases k with
    | len => simp [subVal] at hs
    | sel => simp [subVal] at hs
    | idx i =>
      simp [unpackedKey] at hu
      simp only [subVal, Option.map_eq_some_iff] at hs
      obtain ⟨x, hx, he⟩ := hs
      simp at he; obtain ⟨rfl, rfl⟩ := he
      simp only [hu, Bool.false_eq_true, if_false] at hr
      obtain ⟨ns, hall, hct⟩ := hr
      have hl := allRel_length hall
      obtain ⟨hi, rfl⟩ := List.getElem?_eq_some_iff.1 hx
      have hi' : i < ns.length := by omega
      simp only [keyToStaticGindex, hu, treeDepth, contentsDepth, hasMixIn] at hg
      split at hg
      · simp at hg
      · simp only [Bool.false_eq_true, if_false, Nat.add_zero] at hg
        rw [getter_toGindex _ hg, ct_get hct hi']
        exact ⟨_, rfl, allRel_get hall i hi hi'⟩
  | list et lim =>
    cases v <;> try (cases k <;> simp [subVal] at hs; done)
    rename_i vs
    simp only [Impl.Repr] at hr
    obtain ⟨hle, c, rfl, hr⟩ := hr
    cases k with
    | sel => simp [subVal] at hs
    | len =>
      simp [subVal] at hs; obtain ⟨rfl, rfl⟩ := hs
      simp [keyToStaticGindex] at hg; subst hg
      have := hlen rfl; simp [limitsOk] at this
      exact ⟨_, getter_three _ _, repr_lenNode H _ (by omega)⟩
    | idx i =>
      simp [unpackedKey] at hu
      simp only [subVal, Option.map_eq_some_iff] at hs
      obtain ⟨x, hx, he⟩ := hs
      simp at he; obtain ⟨rfl, rfl⟩ := he
      simp only [hu, Bool.false_eq_true, if_false] at hr
      obtain ⟨ns, hall, hct⟩ := hr
      have hl := allRel_length hall
      have hcl := ct_length_le hct
      obtain ⟨hi, rfl⟩ := List.getElem?_eq_some_iff.1 hx
      have hi' : i < ns.length := by omega
      simp only [keyToStaticGindex, hu, treeDepth, contentsDepth, hasMixIn] at hg
      split at hg
      · simp at hg
      · simp only [Bool.false_eq_true, if_false, if_true] at hg
        rw [getter_toGindex _ hg, mixInNode, getAt_mixin _ _ (by omega), ct_get hct hi']
        exact ⟨_, rfl, allRel_get hall i hi hi'⟩
  | container fs =>
    cases v <;> try (cases k <;> simp [subVal] at hs; done)
    rename_i vs
    simp only [Impl.Repr] at hr
    obtain ⟨ns, hf, hct⟩ := hr
    cases k with
    | len => simp [subVal] at hs
    | sel => simp [subVal] at hs
    | idx i =>
      simp only [subVal] at hs
      cases hfi : fs[i]? with
      | none => simp [hfi] at hs
      | some ft =>
        cases hvi : vs[i]? with
        | none => simp [hfi, hvi] at hs
        | some x =>
          simp [hfi, hvi] at hs; obtain ⟨rfl, rfl⟩ := hs
          obtain ⟨hi, hrep⟩ := reprFields_get hf i ft x hfi hvi
          simp only [keyToStaticGindex, treeDepth, contentsDepth, hasMixIn] at hg
          split at hg
          · simp at hg
          · simp only [Bool.false_eq_true, if_false, Nat.add_zero] at hg
            rw [getter_toGindex _ hg, ct_get hct hi]
            exact ⟨_, rfl, hrep⟩
  | union hasNone opts =>
    cases v <;> try (cases k <;> simp [subVal] at hs; done)
    rename_i sel x
    simp only [Impl.Repr] at hr
    obtain ⟨hsel, c, rfl, hr⟩ := hr
    simp [Ty.wf] at hwf
    cases k with
    | len => simp [subVal] at hs
    | sel =>
      simp [subVal] at hs; obtain ⟨rfl, rfl⟩ := hs
      simp [keyToStaticGindex] at hg; subst hg
      exact ⟨_, getter_three _ _, repr_lenNode H _ (by omega)⟩
    | idx i =>
      simp only [subVal] at hs
      split at hs
      · next hi =>
        subst hi
        simp only [Option.some.injEq, Prod.mk.injEq] at hs
        obtain ⟨ht, rfl⟩ := hs
        simp only [keyToStaticGindex] at hg
        split at hg
        · simp at hg
        · simp at hg; subst hg
          unfold optType at ht
          split at ht
          · simp at ht
          · next hc =>
            simp only [hc, Bool.false_eq_true, if_false] at hr
            exact ⟨_, getter_two _ _, reprOpt_get hr _ ht⟩
      · simp at hs

end Rmk.PathAddress
