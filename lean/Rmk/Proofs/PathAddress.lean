/-
C08, second half: the node found at the static generalized index of a key path is the node that
represents the addressed sub-value (for every tree shape admitted by `Impl.Repr`), and for packed
positions it is the leaf chunk that holds the addressed element.  Generic in the pair hash `H`.
-/
import Rmk.Proofs.ReprBasics
namespace Rmk.PathAddress
open Rmk Rmk.Impl Rmk.Spec
open Rmk.ChunkTreeLemmas Rmk.ReprBasics

/-! ## 0. definitions -/

/-- The sub-value of `v : t` addressed by one key, with its type (`none` type = the `None` option of
    a union).  `none` = the key does not belong to the VALUE (index at or beyond the actual length,
    option other than the selected one, key not applicable to the type).
    For packed sequences / bitfields / byte arrays the element is returned too (as a `uintN` /
    `boolean` / `uint8` value); the tree node at the index is then the chunk holding it, see
    `unpackedKey` and `packed_addresses`.
    (`ByteList` has a `'__len__'` key exactly like `Bitlist` / `List`: `navigate_type` /
    `key_to_static_gindex` accept it and address the length mix-in leaf, gindex 3.) -/
def subVal : Ty → Val → Key → Option (Option Ty × Val)
  | .list et _, .seq vs, .idx i => (vs[i]?).map fun x => (some et, x)
  | .list _ _, .seq vs, .len => some (some (.uint 32), .num vs.length)
  | .vector et _, .seq vs, .idx i => (vs[i]?).map fun x => (some et, x)
  | .container fs, .seq vs, .idx i =>
    match fs[i]?, vs[i]? with
    | some ft, some x => some (some ft, x)
    | _, _ => none
  | .bitlist _, .bits bs, .idx i => (bs[i]?).map fun b => (some .bool, .num (if b then 1 else 0))
  | .bitlist _, .bits bs, .len => some (some (.uint 32), .num bs.length)
  | .bitvector _, .bits bs, .idx i => (bs[i]?).map fun b => (some .bool, .num (if b then 1 else 0))
  | .bytelist _, .bytes bs, .idx i => (bs[i]?).map fun b => (some (.uint 1), .num b.toNat)
  | .bytelist _, .bytes bs, .len => some (some (.uint 32), .num bs.length)
  | .bytevector _, .bytes bs, .idx i => (bs[i]?).map fun b => (some (.uint 1), .num b.toNat)
  | .union hasNone opts, .un sel x, .idx i =>
    if i = sel then some (optType hasNone opts sel, x) else none
  | .union _ _, .un sel _, .sel => some (some (.uint 32), .num sel)
  | _, _, _ => none

/-- the key addresses a node of its own (an element / field / option subtree, the length or the
    selector leaf), as opposed to a position inside a packed chunk -/
def unpackedKey : Ty → Key → Bool
  | .list et _, .idx _ => !et.isBasic
  | .vector et _, .idx _ => !et.isBasic
  | .bitlist _, .idx _ => false
  | .bitvector _, .idx _ => false
  | .bytelist _, .idx _ => false
  | .bytevector _, .idx _ => false
  | _, _ => true

/-- follow a key path through a value, staying in unpacked positions -/
def subValPath : Option Ty → Val → List Key → Option (Option Ty × Val)
  | ot, v, [] => some (ot, v)
  | none, _, _ :: _ => none
  | some t, v, k :: ks =>
    if unpackedKey t k then
      match subVal t v k with
      | none => none
      | some (ot', v') => subValPath ot' v' ks
    else none

/-- the chunks of a packed value and the number of elements per chunk -/
def packedChunks : Ty → Val → Option (List Chunk × Nat)
  | .list et _, .seq vs =>
    if et.isBasic then some (packInts et.basicSize (vs.map numOf), 32 / et.basicSize) else none
  | .vector et _, .seq vs =>
    if et.isBasic then some (packInts et.basicSize (vs.map numOf), 32 / et.basicSize) else none
  | .bitlist _, .bits bs => some (packBits bs, 256)
  | .bitvector _, .bits bs => some (packBits bs, 256)
  | .bytelist _, .bytes bs => some (packBytes bs, 32)
  | .bytevector _, .bytes bs => some (packBytes bs, 32)
  | _, _ => none

/-- number of elements of a sequence-like value -/
def valLen : Val → Nat
  | .seq vs => vs.length
  | .bits bs => bs.length
  | .bytes bs => bs.length
  | _ => 0

/-! ## 1. navigation helpers -/

theorem getter_toGindex (n : Node) {i d g : Nat} (h : toGindex i d = some g) :
    getter n g = getAt n i d := by
  have hne := toGindex_ne_zero h
  have hb := gbits_toGindex i d g h
  unfold toGindex at h
  split at h
  · simp at h
  · next hlt =>
    unfold getter getAt
    rw [if_neg hne, if_neg hlt, hb]

theorem gbits_two : gbits 2 = [false] := by
  have := gbits_two_mul (g := 1) (by decide)
  simpa using this

theorem gbits_three : gbits 3 = [true] := by
  have := gbits_two_mul_add_one (g := 1) (by decide)
  simpa using this

theorem getter_two (l r : Node) : getter (.pair l r) 2 = some l := by
  simp [getter, gbits_two]

theorem getter_three (l r : Node) : getter (.pair l r) 3 = some r := by
  simp [getter, gbits_three]

theorem getter_one (n : Node) : getter n 1 = some n := by
  simp [getter]

/-- the length / selector leaf represents the number as a `uint256` -/
theorem repr_lenNode (H : Hash) (k : Nat) (h : k < 2 ^ 256) :
    Impl.Repr H (.uint 32) (.num k) (lenNode k) := by
  simp only [Impl.Repr, lenNode]
  exact ⟨h, trivial⟩

theorem reprFields_get {H : Hash} : ∀ {fs : List Ty} {vs : List Val} {ns : List Node},
    ReprFields H fs vs ns → ∀ (i : Nat) (ft : Ty) (x : Val), fs[i]? = some ft → vs[i]? = some x →
      ∃ hi : i < ns.length, Impl.Repr H ft x ns[i]
  | [], [], [], _, i, _, _, hf, _ => by simp at hf
  | t :: ts, v :: vs, n :: ns, h, i, ft, x, hf, hv => by
    simp only [ReprFields] at h
    cases i with
    | zero =>
      simp at hf hv; subst hf; subst hv
      exact ⟨by simp, h.1⟩
    | succ i =>
      simp at hf hv
      obtain ⟨hi, hr⟩ := reprFields_get (fs := ts) (vs := vs) (ns := ns) h.2 i ft x hf hv
      exact ⟨by simpa using hi, by simpa using hr⟩
  | [], [], _ :: _, h, _, _, _, _, _ => by simp only [ReprFields] at h
  | [], _ :: _, _, h, _, _, _, _, _ => by simp only [ReprFields] at h
  | _ :: _, [], _, h, _, _, _, _, _ => by simp only [ReprFields] at h
  | _ :: _, _ :: _, [], h, _, _, _, _, _ => by simp only [ReprFields] at h

theorem reprOpt_get {H : Hash} : ∀ {opts : List Ty} {k : Nat} {v : Val} {c : Node},
    ReprOpt H opts k v c → ∀ t, opts[k]? = some t → Impl.Repr H t v c
  | [], _, _, _, h, _, _ => by simp only [ReprOpt] at h
  | t :: _, 0, _, _, h, t', ht => by
    simp only [ReprOpt] at h
    simp at ht; subst ht; exact h
  | _ :: ts, k + 1, _, _, h, t', ht => by
    simp only [ReprOpt] at h
    simp at ht
    exact reprOpt_get (opts := ts) h t' ht

theorem limitsOkList_getElem? (fs : List Ty) (h : limitsOkList fs = true) (i : Nat) (t : Ty)
    (ht : fs[i]? = some t) : limitsOk t = true := by
  induction fs generalizing i with
  | nil => simp at ht
  | cons f fs ih =>
    simp [limitsOkList] at h
    cases i with
    | zero => simp at ht; subst ht; exact h.1
    | succ j => simp at ht; exact ih h.2 j ht

/-! ## 2. one step -/

/-- ONE STEP (core form).  The `limitsOk` hypothesis is needed for the `'__len__'` key only: the
    length leaf is a `uint256` representation of the length when the length is `< 2^256`. -/
theorem step_addresses_core (H : Hash) (t : Ty) (v : Val) (n : Node) (k : Key) (g : Nat)
    (t' : Ty) (v' : Val) (hr : Impl.Repr H t v n) (hwf : t.wf = true)
    (hlen : k = .len → limitsOk t = true)
    (hg : keyToStaticGindex t k = some g) (hu : unpackedKey t k = true)
    (hs : subVal t v k = some (some t', v')) :
    ∃ m, getter n g = some m ∧ Impl.Repr H t' v' m := by
  cases t with
  | uint nb => cases v <;> cases k <;> simp [subVal] at hs
  | bool => cases v <;> cases k <;> simp [subVal] at hs
  | bitvector len => cases v <;> cases k <;> simp [subVal, unpackedKey] at hs hu
  | bytevector len => cases v <;> cases k <;> simp [subVal, unpackedKey] at hs hu
  | bitlist lim =>
    cases v <;> try (cases k <;> simp [subVal] at hs; done)
    rename_i bs
    simp only [Impl.Repr] at hr
    obtain ⟨hle, c, rfl, hct⟩ := hr
    cases k with
    | idx i => simp [unpackedKey] at hu
    | sel => simp [subVal] at hs
    | len =>
      simp [subVal] at hs; obtain ⟨rfl, rfl⟩ := hs
      simp [keyToStaticGindex] at hg; subst hg
      have := hlen rfl; simp [limitsOk] at this
      exact ⟨_, getter_three _ _, repr_lenNode H _ (by omega)⟩
  | bytelist lim =>
    cases v <;> try (cases k <;> simp [subVal] at hs; done)
    rename_i bs
    simp only [Impl.Repr] at hr
    obtain ⟨hle, c, rfl, hct⟩ := hr
    cases k with
    | idx i => simp [unpackedKey] at hu
    | sel => simp [subVal] at hs
    | len =>
      simp [subVal] at hs; obtain ⟨rfl, rfl⟩ := hs
      simp [keyToStaticGindex] at hg; subst hg
      have := hlen rfl; simp [limitsOk] at this
      exact ⟨_, getter_three _ _, repr_lenNode H _ (by omega)⟩
  | vector et len =>
    cases v <;> try (cases k <;> simp [subVal] at hs; done)
    rename_i vs
    simp only [Impl.Repr] at hr
    obtain ⟨hlen', hr⟩ := hr
    cases k with
    | len => simp [subVal] at hs
    | sel => simp [subVal] at hs
    | idx i =>
      simp [unpackedKey] at hu
      simp only [subVal, Option.map_eq_some_iff] at hs
      obtain ⟨x, hx, he⟩ := hs
      simp at he; obtain ⟨rfl, rfl⟩ := he
      simp only [hu, Bool.false_eq_true, if_false] at hr
      obtain ⟨ns, hall, hct⟩ := hr
      have hl := allRel_length hall
      obtain ⟨hi, rfl⟩ := List.getElem?_eq_some_iff.1 hx
      have hi' : i < ns.length := by omega
      simp only [keyToStaticGindex, hu, treeDepth, contentsDepth, hasMixIn] at hg
      split at hg
      · simp at hg
      · simp only [Bool.false_eq_true, if_false, Nat.add_zero] at hg
        rw [getter_toGindex _ hg, ct_get hct hi']
        exact ⟨_, rfl, allRel_get hall i hi hi'⟩
  | list et lim =>
    cases v <;> try (cases k <;> simp [subVal] at hs; done)
    rename_i vs
    simp only [Impl.Repr] at hr
    obtain ⟨hle, c, rfl, hr⟩ := hr
    cases k with
    | sel => simp [subVal] at hs
    | len =>
      simp [subVal] at hs; obtain ⟨rfl, rfl⟩ := hs
      simp [keyToStaticGindex] at hg; subst hg
      have := hlen rfl; simp [limitsOk] at this
      exact ⟨_, getter_three _ _, repr_lenNode H _ (by omega)⟩
    | idx i =>
      simp [unpackedKey] at hu
      simp only [subVal, Option.map_eq_some_iff] at hs
      obtain ⟨x, hx, he⟩ := hs
      simp at he; obtain ⟨rfl, rfl⟩ := he
      simp only [hu, Bool.false_eq_true, if_false] at hr
      obtain ⟨ns, hall, hct⟩ := hr
      have hl := allRel_length hall
      have hcl := ct_length_le hct
      obtain ⟨hi, rfl⟩ := List.getElem?_eq_some_iff.1 hx
      have hi' : i < ns.length := by omega
      simp only [keyToStaticGindex, hu, treeDepth, contentsDepth, hasMixIn] at hg
      split at hg
      · simp at hg
      · simp only [Bool.false_eq_true, if_false, if_true] at hg
        rw [getter_toGindex _ hg, mixInNode, getAt_mixin _ _ (by omega), ct_get hct hi']
        exact ⟨_, rfl, allRel_get hall i hi hi'⟩
  | container fs =>
    cases v <;> try (cases k <;> simp [subVal] at hs; done)
    rename_i vs
    simp only [Impl.Repr] at hr
    obtain ⟨ns, hf, hct⟩ := hr
    cases k with
    | len => simp [subVal] at hs
    | sel => simp [subVal] at hs
    | idx i =>
      simp only [subVal] at hs
      cases hfi : fs[i]? with
      | none => simp [hfi] at hs
      | some ft =>
        cases hvi : vs[i]? with
        | none => simp [hfi, hvi] at hs
        | some x =>
          simp [hfi, hvi] at hs; obtain ⟨rfl, rfl⟩ := hs
          obtain ⟨hi, hrep⟩ := reprFields_get hf i ft x hfi hvi
          simp only [keyToStaticGindex, treeDepth, contentsDepth, hasMixIn] at hg
          split at hg
          · simp at hg
          · simp only [Bool.false_eq_true, if_false, Nat.add_zero] at hg
            rw [getter_toGindex _ hg, ct_get hct hi]
            exact ⟨_, rfl, hrep⟩
  | union hasNone opts =>
    cases v <;> try (cases k <;> simp [subVal] at hs; done)
    rename_i sel x
    simp only [Impl.Repr] at hr
    obtain ⟨hsel, c, rfl, hr⟩ := hr
    simp [Ty.wf] at hwf
    cases k with
    | len => simp [subVal] at hs
    | sel =>
      simp [subVal] at hs; obtain ⟨rfl, rfl⟩ := hs
      simp [keyToStaticGindex] at hg; subst hg
      exact ⟨_, getter_three _ _, repr_lenNode H _ (by omega)⟩
    | idx i =>
      simp only [subVal] at hs
      split at hs
      · next hi =>
        subst hi
        simp only [Option.some.injEq, Prod.mk.injEq] at hs
        obtain ⟨ht, rfl⟩ := hs
        simp only [keyToStaticGindex] at hg
        split at hg
        · simp at hg
        · simp at hg; subst hg
          unfold optType at ht
          split at ht
          · simp at ht
          · next hc =>
            simp only [hc, Bool.false_eq_true, if_false] at hr
            exact ⟨_, getter_two _ _, reprOpt_get hr _ ht⟩
      · simp at hs

/-- ONE STEP: in a tree representing `v : t`, the node at the static index of key `k` represents the
    sub-value addressed by `k` (element, field, selected union option, length, selector). -/
theorem step_addresses (H : Hash) (t : Ty) (v : Val) (n : Node) (k : Key) (g : Nat)
    (t' : Ty) (v' : Val) (hr : Impl.Repr H t v n) (hwf : t.wf = true) (hlim : limitsOk t = true)
    (hg : keyToStaticGindex t k = some g) (hu : unpackedKey t k = true)
    (hs : subVal t v k = some (some t', v')) :
    ∃ m, getter n g = some m ∧ Impl.Repr H t' v' m :=
  step_addresses_core H t v n k g t' v' hr hwf (fun _ => hlim) hg hu hs

/-- element / field / option keys need no bound on the limits -/
theorem step_addresses_idx (H : Hash) (t : Ty) (v : Val) (n : Node) (i g : Nat)
    (t' : Ty) (v' : Val) (hr : Impl.Repr H t v n) (hwf : t.wf = true)
    (hg : keyToStaticGindex t (.idx i) = some g) (hu : unpackedKey t (.idx i) = true)
    (hs : subVal t v (.idx i) = some (some t', v')) :
    ∃ m, getter n g = some m ∧ Impl.Repr H t' v' m :=
  step_addresses_core H t v n (.idx i) g t' v' hr hwf (fun h => by cases h) hg hu hs

/-- `'__selector__'` needs no bound either (a well-formed union has at most 128 options) -/
theorem step_addresses_sel (H : Hash) (t : Ty) (v : Val) (n : Node) (g : Nat)
    (t' : Ty) (v' : Val) (hr : Impl.Repr H t v n) (hwf : t.wf = true)
    (hg : keyToStaticGindex t .sel = some g) (hs : subVal t v .sel = some (some t', v')) :
    ∃ m, getter n g = some m ∧ Impl.Repr H t' v' m :=
  step_addresses_core H t v n .sel g t' v' hr hwf (fun h => by cases h) hg
    (by cases t <;> rfl) hs

/-- the node at the index has the hash-tree-root of the addressed sub-value -/
theorem step_addresses_root (H : Hash) (t : Ty) (v : Val) (n : Node) (k : Key) (g : Nat)
    (t' : Ty) (v' : Val) (hr : Impl.Repr H t v n) (hwf : t.wf = true) (hlim : limitsOk t = true)
    (hg : keyToStaticGindex t k = some g) (hu : unpackedKey t k = true)
    (hs : subVal t v k = some (some t', v')) (hwf' : t'.wf = true) :
    ∃ m, getter n g = some m ∧ m.root H = Spec.htr H t' v' := by
  obtain ⟨m, hm, hrm⟩ := step_addresses H t v n k g t' v' hr hwf hlim hg hu hs
  exact ⟨m, hm, repr_root H t' v' m hwf' hrm⟩

/-- `'__len__'` / `'__selector__'`, without any bound: the node at index 3 is the 32-byte
    little-endian leaf of the length / selector -/
theorem len_sel_addresses (H : Hash) (t : Ty) (v : Val) (n : Node) (k : Key) (x : Nat)
    (hr : Impl.Repr H t v n) (hk : k = .len ∨ k = .sel)
    (hs : subVal t v k = some (some (.uint 32), .num x)) :
    keyToStaticGindex t k = some 3 ∧ getter n 3 = some (lenNode x) := by
  rcases hk with rfl | rfl
  · cases t <;> cases v <;> simp [subVal] at hs <;> subst hs <;> simp only [Impl.Repr] at hr
    · obtain ⟨_, c, rfl, _⟩ := hr
      exact ⟨rfl, getter_three _ _⟩
    · obtain ⟨_, c, rfl, _⟩ := hr
      exact ⟨rfl, getter_three _ _⟩
    · obtain ⟨_, c, rfl, _⟩ := hr
      exact ⟨rfl, getter_three _ _⟩
  · cases t <;> cases v <;> simp [subVal] at hs
    subst hs
    simp only [Impl.Repr] at hr
    obtain ⟨_, c, rfl, _⟩ := hr
    exact ⟨rfl, getter_three _ _⟩

/-- the `None` option of a union: the node at index 2 is the zero chunk -/
theorem none_option_addresses (H : Hash) (t : Ty) (v : Val) (n : Node) (i : Nat) (v' : Val)
    (hr : Impl.Repr H t v n) (hs : subVal t v (.idx i) = some (none, v')) :
    keyToStaticGindex t (.idx i) = some 2 ∧ getter n 2 = some (zeroNode H 0) ∧ v' = .none := by
  cases t <;> cases v <;> try (simp [subVal] at hs; done)
  · rename_i fs vs
    simp only [subVal] at hs
    cases hfi : fs[i]? <;> cases hvi : vs[i]? <;> simp [hfi, hvi] at hs
  rename_i hasNone opts sel x
  simp [subVal] at hs
  obtain ⟨rfl, ht, rfl⟩ := hs
  simp only [Impl.Repr] at hr
  obtain ⟨hsel, c, rfl, hr⟩ := hr
  have hg : keyToStaticGindex (.union hasNone opts) (.idx i) = some 2 := by
    simp only [keyToStaticGindex]; rw [if_neg (by omega)]
  refine ⟨hg, ?_⟩
  by_cases hc : (hasNone && i == 0) = true
  · simp only [hc, if_true] at hr
    obtain ⟨rfl, rfl⟩ := hr
    exact ⟨getter_two _ _, rfl⟩
  · exfalso
    simp only [optType, hc, Bool.false_eq_true, if_false] at ht
    have hlt : optIndex hasNone i < opts.length := by
      simp only [Bool.and_eq_true, beq_iff_eq, not_and] at hc
      unfold optCount at hsel; unfold optIndex
      cases hasNone <;> simp at hc hsel ⊢ <;> omega
    rw [List.getElem?_eq_getElem hlt] at ht
    cases ht

/-! ## 3. keys of the value are keys of the type -/

/-- a found list element: the index is below the length -/
theorem map_getElem?_eq_some {α β} {l : List α} {i : Nat} {f : α → β} {y : β}
    (h : (l[i]?).map f = some y) : ∃ hi : i < l.length, f l[i] = y := by
  rw [Option.map_eq_some_iff] at h
  obtain ⟨a, ha, hf⟩ := h
  obtain ⟨hi, rfl⟩ := List.getElem?_eq_some_iff.1 ha
  exact ⟨hi, hf⟩

theorem WTopt_lt : ∀ {opts : List Ty} {k : Nat} {v : Val}, WTopt opts k v = true → k < opts.length
  | [], _, _, h => by simp [WTopt] at h
  | _ :: _, 0, _, _ => by simp
  | _ :: ts, k + 1, _, h => by
    simp only [WTopt] at h
    have := WTopt_lt (opts := ts) h
    simpa using this

theorem subVal_navigateType (t : Ty) (v : Val) (k : Key) (ot' : Option Ty) (v' : Val)
    (hwt : WT t v = true) (hs : subVal t v k = some (ot', v')) : navigateType t k = some ot' := by
  cases t with
  | uint nb => cases v <;> cases k <;> simp [subVal] at hs
  | bool => cases v <;> cases k <;> simp [subVal] at hs
  | bitvector len =>
    cases v <;> cases k <;> simp only [subVal, reduceCtorEq] at hs
    obtain ⟨hi, he⟩ := map_getElem?_eq_some hs
    simp [WT] at hwt
    simp only [Prod.mk.injEq] at he
    simp only [navigateType]; rw [if_neg (by omega), he.1]
  | bytevector len =>
    cases v <;> cases k <;> simp only [subVal, reduceCtorEq] at hs
    obtain ⟨hi, he⟩ := map_getElem?_eq_some hs
    simp [WT] at hwt
    simp only [Prod.mk.injEq] at he
    simp only [navigateType]; rw [if_neg (by omega), he.1]
  | bitlist lim =>
    cases v <;> cases k <;> simp only [subVal, reduceCtorEq] at hs
    · obtain ⟨hi, he⟩ := map_getElem?_eq_some hs
      simp [WT] at hwt
      simp only [Prod.mk.injEq] at he
      simp only [navigateType]; rw [if_neg (by omega), he.1]
    · simp only [Option.some.injEq, Prod.mk.injEq] at hs
      rw [← hs.1]; rfl
  | bytelist lim =>
    cases v <;> cases k <;> simp only [subVal, reduceCtorEq] at hs
    · obtain ⟨hi, he⟩ := map_getElem?_eq_some hs
      simp [WT] at hwt
      simp only [Prod.mk.injEq] at he
      simp only [navigateType]; rw [if_neg (by omega), he.1]
    · simp only [Option.some.injEq, Prod.mk.injEq] at hs
      rw [← hs.1]; rfl
  | vector et len =>
    cases v <;> cases k <;> simp only [subVal, reduceCtorEq] at hs
    obtain ⟨hi, he⟩ := map_getElem?_eq_some hs
    simp [WT] at hwt
    simp only [Prod.mk.injEq] at he
    simp only [navigateType]; rw [if_neg (by omega), he.1]
  | list et lim =>
    cases v <;> cases k <;> simp only [subVal, reduceCtorEq] at hs
    · obtain ⟨hi, he⟩ := map_getElem?_eq_some hs
      simp [WT] at hwt
      simp only [Prod.mk.injEq] at he
      simp only [navigateType]; rw [if_neg (by omega), he.1]
    · simp only [Option.some.injEq, Prod.mk.injEq] at hs
      rw [← hs.1]; rfl
  | container fs =>
    cases v <;> cases k <;> simp only [subVal, reduceCtorEq] at hs
    rename_i vs i
    cases hfi : fs[i]? with
    | none => simp [hfi] at hs
    | some ft =>
      cases hvi : vs[i]? with
      | none => simp [hfi, hvi] at hs
      | some x =>
        simp [hfi, hvi] at hs
        simp only [navigateType, hfi, Option.map_some]
        rw [hs.1]
  | union hasNone opts =>
    cases v <;> cases k <;> simp only [subVal, reduceCtorEq] at hs
    · rename_i sel x i
      split at hs
      · next hi =>
        subst hi
        simp only [Option.some.injEq, Prod.mk.injEq] at hs
        have hlt : i < optCount hasNone opts := by
          simp only [WT] at hwt
          unfold optCount
          split at hwt
          · next hc => simp at hc; simp [hc.1, hc.2]; omega
          · next hc =>
            have := WTopt_lt hwt
            simp only [Bool.and_eq_true, beq_iff_eq, not_and] at hc
            unfold optIndex at this
            cases hasNone <;> simp at hc this ⊢ <;> omega
        simp only [navigateType]; rw [if_neg (by omega), hs.1]
      · simp at hs
    · simp only [Option.some.injEq, Prod.mk.injEq] at hs
      rw [← hs.1]; rfl

/-- the limit bound is inherited along a path -/
theorem navigateType_limitsOk (t : Ty) (k : Key) (t' : Ty) (hlim : limitsOk t = true)
    (h : navigateType t k = some (some t')) : limitsOk t' = true := by
  cases t with
  | uint nb => cases k <;> simp [navigateType] at h
  | bool => cases k <;> simp [navigateType] at h
  | bitvector n =>
    cases k <;> simp [navigateType] at h
    obtain ⟨_, rfl⟩ := h; rfl
  | bitlist lim =>
    cases k <;> simp [navigateType] at h
    · obtain ⟨_, rfl⟩ := h; rfl
    · subst h; rfl
  | bytevector n =>
    cases k <;> simp [navigateType] at h
    obtain ⟨_, rfl⟩ := h; rfl
  | bytelist lim =>
    cases k <;> simp [navigateType] at h
    · obtain ⟨_, rfl⟩ := h; rfl
    · subst h; rfl
  | vector et n =>
    simp only [limitsOk] at hlim
    cases k <;> simp [navigateType] at h
    obtain ⟨_, rfl⟩ := h; exact hlim
  | list et lim =>
    simp [limitsOk] at hlim
    cases k <;> simp [navigateType] at h
    · obtain ⟨_, rfl⟩ := h; exact hlim.2
    · subst h; rfl
  | container fs =>
    simp only [limitsOk] at hlim
    cases k <;> simp [navigateType] at h
    exact limitsOkList_getElem? fs hlim _ _ h
  | union hasNone opts =>
    simp only [limitsOk] at hlim
    cases k <;> simp [navigateType] at h
    · obtain ⟨_, h⟩ := h
      unfold Spec.optType at h
      split at h
      · simp at h
      · exact limitsOkList_getElem? opts hlim _ _ h
    · subst h; rfl

/-- a key accepted by `navigate_type` has a static index (for a well-formed type) -/
theorem static_exists (t : Ty) (k : Key) (ot : Option Ty) (hwf : t.wf = true)
    (hn : navigateType t k = some ot) : ∃ g, keyToStaticGindex t k = some g := by
  have hspec : Spec.gindexStep 1 t k ≠ none := by
    cases t <;> cases k <;> simp only [navigateType, reduceCtorEq] at hn <;>
      simp only [Spec.gindexStep] <;>
      first
      | (split at hn
         · simp at hn
         · simp; omega)
      | (rename_i fs i
         cases hfi : fs[i]? with
         | none => simp [hfi] at hn
         | some ft => simp)
      | simp
  rw [← implStep_eq_spec 1 t k hwf] at hspec
  unfold implStep at hspec
  rw [hn] at hspec
  cases hg : keyToStaticGindex t k with
  | none => simp [hg] at hspec
  | some g => exact ⟨g, rfl⟩

/-! ## 4. whole paths -/

/-- first key of a path: everything the induction needs -/
theorem first_step (H : Hash) (t : Ty) (v : Val) (n : Node) (k : Key) (t' : Ty) (v' : Val)
    (hr : Impl.Repr H t v n) (hwf : t.wf = true) (hlim : limitsOk t = true)
    (hu : unpackedKey t k = true) (hs : subVal t v k = some (some t', v')) :
    ∃ g m, keyToStaticGindex t k = some g ∧ g ≠ 0 ∧ getter n g = some m ∧ Impl.Repr H t' v' m ∧
      t'.wf = true ∧ limitsOk t' = true ∧
      ∀ (root : Nat) (ks : List Key),
        implGindex root (some t) (k :: ks) = implGindex (concatStep root g) (some t') ks := by
  have hn := subVal_navigateType t v k (some t') v' (repr_wt H t v n hr) hs
  obtain ⟨g, hg⟩ := static_exists t k (some t') hwf hn
  obtain ⟨m, hm, hrm⟩ := step_addresses H t v n k g t' v' hr hwf hlim hg hu hs
  refine ⟨g, m, hg, keyToStaticGindex_ne_zero t k g hg, hm, hrm, navigateType_wf t k t' hwf hn,
    navigateType_limitsOk t k t' hlim hn, ?_⟩
  intro root ks
  rw [implGindex_cons]
  simp only [implStep, hn, hg]

/-- WHOLE PATHS, general form (running index `root` inside an enclosing tree `n0`).
    The last clause says that the index of any longer path continues from here. -/
theorem path_addresses_gen (H : Hash) (keys : List Key) :
    ∀ (t : Ty) (v : Val) (n : Node) (root : Nat) (n0 : Node) (t' : Ty) (v' : Val),
      Impl.Repr H t v n → t.wf = true → limitsOk t = true →
      subValPath (some t) v keys = some (some t', v') →
      root ≠ 0 → getter n0 root = some n →
      ∃ g m, implGindex root (some t) keys = some g ∧ g ≠ 0 ∧ getter n0 g = some m ∧
        Impl.Repr H t' v' m ∧ t'.wf = true ∧ limitsOk t' = true ∧
        ∀ ks2, implGindex root (some t) (keys ++ ks2) = implGindex g (some t') ks2 := by
  induction keys with
  | nil =>
    intro t v n root n0 t' v' hr hwf hlim hp hroot hget
    simp only [subValPath, Option.some.injEq, Prod.mk.injEq] at hp
    obtain ⟨rfl, rfl⟩ := hp
    exact ⟨root, n, implGindex_nil _ _, hroot, hget, hr, hwf, hlim, fun ks2 => rfl⟩
  | cons k ks ih =>
    intro t v n root n0 t' v' hr hwf hlim hp hroot hget
    simp only [subValPath] at hp
    split at hp
    · next hu =>
      split at hp
      · simp at hp
      · next ot1 v1 hs =>
        cases ot1 with
        | none => cases ks <;> simp [subValPath] at hp
        | some t1 =>
          obtain ⟨g1, m1, hg1, hg1ne, hm1, hrm1, hwf1, hlim1, hcons⟩ :=
            first_step H t v n k t1 v1 hr hwf hlim hu hs
          have hget1 : getter n0 (concatStep root g1) = some m1 := by
            rw [getter_concatStep n0 hroot hg1ne, hget]; exact hm1
          obtain ⟨g, m, hg, hgne, hm, hrm, hwf', hlim', hext⟩ :=
            ih t1 v1 m1 (concatStep root g1) n0 t' v' hrm1 hwf1 hlim1 hp
              (concatStep_ne_zero hroot) hget1
          refine ⟨g, m, ?_, hgne, hm, hrm, hwf', hlim', ?_⟩
          · rw [hcons]; exact hg
          · intro ks2
            rw [List.cons_append, hcons]; exact hext ks2
    · simp at hp

/-- WHOLE PATHS: if `n` represents `v : t` and the key path is valid for the VALUE and stays in
    unpacked positions, ending at sub-value `v' : t'`, then the library's static path index exists
    and the node found there represents `v'`; in particular it has the hash-tree-root of `v'`. -/
theorem path_addresses (H : Hash) (t : Ty) (v : Val) (n : Node) (keys : List Key) (t' : Ty)
    (v' : Val) (hr : Impl.Repr H t v n) (hwf : t.wf = true) (hlim : limitsOk t = true)
    (hp : subValPath (some t) v keys = some (some t', v')) :
    ∃ g m, Impl.pathGindex t keys = some g ∧ getter n g = some m ∧ Impl.Repr H t' v' m ∧
      m.root H = Spec.htr H t' v' := by
  obtain ⟨g, m, hg, _, hm, hrm, hwf', _, _⟩ :=
    path_addresses_gen H keys t v n 1 n t' v' hr hwf hlim hp (by decide) (getter_one n)
  exact ⟨g, m, by rw [pathGindex_eq_implGindex]; exact hg, hm, hrm, repr_root H t' v' m hwf' hrm⟩

/-- the same index is the SSZ-spec generalized index of the path -/
theorem path_addresses_spec (H : Hash) (t : Ty) (v : Val) (n : Node) (keys : List Key) (t' : Ty)
    (v' : Val) (hr : Impl.Repr H t v n) (hwf : t.wf = true) (hlim : limitsOk t = true)
    (hp : subValPath (some t) v keys = some (some t', v')) :
    ∃ g m, Spec.gindex 1 (some t) keys = some g ∧ getter n g = some m ∧
      m.root H = Spec.htr H t' v' := by
  obtain ⟨g, m, hg, hm, _, hroot⟩ := path_addresses H t v n keys t' v' hr hwf hlim hp
  exact ⟨g, m, by rw [← pathGindex_eq_spec t keys hwf]; exact hg, hm, hroot⟩

/-! ## 5. packed positions: the node at the index is the leaf chunk holding the element -/

/-- reading a chunk of a chunk tree of leaves -/
theorem ct_leaf_get {H : Hash} {d : Nat} {cs : List Chunk} {n : Node}
    (hct : ChunkTree H d (cs.map .leaf) n) {j : Nat} (hj : j < cs.length) :
    getAt n j d = some (.leaf cs[j]) ∧ j < 2 ^ d := by
  have hj' : j < (cs.map Node.leaf).length := by simpa using hj
  have hle := ct_length_le hct
  refine ⟨?_, by omega⟩
  rw [ct_get hct hj', List.getElem_map]

theorem ct_leaf_get_mixin {H : Hash} {d : Nat} {cs : List Chunk} {c : Node} (l : Nat)
    (hct : ChunkTree H d (cs.map .leaf) c) {j : Nat} (hj : j < cs.length) :
    getAt (mixInNode c l) j (d + 1) = some (.leaf cs[j]) := by
  obtain ⟨h1, h2⟩ := ct_leaf_get hct hj
  rw [mixInNode, getAt_mixin _ _ h2, h1]

/-- PACKED POSITIONS, one step: for a sequence of basic elements, a bitfield or a byte array, the
    node at the static index of element `i` is the leaf chunk number `i / per` of the packed
    contents (`per` = elements per chunk: `32 / size`, 256 bits, 32 bytes). -/
theorem packed_addresses (H : Hash) (t : Ty) (v : Val) (n : Node) (i g : Nat) (cs : List Chunk)
    (per : Nat) (hr : Impl.Repr H t v n) (hwf : t.wf = true)
    (hp : packedChunks t v = some (cs, per)) (hi : i < valLen v)
    (hg : keyToStaticGindex t (.idx i) = some g) :
    ∃ hj : i / per < cs.length, getter n g = some (.leaf cs[i / per]) := by
  cases t with
  | uint nb => cases v <;> simp [packedChunks] at hp
  | bool => cases v <;> simp [packedChunks] at hp
  | container fs => cases v <;> simp [packedChunks] at hp
  | union hasNone opts => cases v <;> simp [packedChunks] at hp
  | bitvector len =>
    cases v <;> simp only [packedChunks, reduceCtorEq, Option.some.injEq, Prod.mk.injEq] at hp
    rename_i bs
    obtain ⟨rfl, rfl⟩ := hp
    simp only [valLen] at hi
    simp only [Impl.Repr] at hr
    obtain ⟨hlen, hct⟩ := hr
    have hj : i / 256 < (packBits bs).length := by rw [packBits_length]; omega
    simp only [keyToStaticGindex, treeDepth, contentsDepth, hasMixIn] at hg
    split at hg
    · simp at hg
    · simp only [Bool.false_eq_true, if_false, Nat.add_zero] at hg
      exact ⟨hj, by rw [getter_toGindex _ hg]; exact (ct_leaf_get hct hj).1⟩
  | bitlist lim =>
    cases v <;> simp only [packedChunks, reduceCtorEq, Option.some.injEq, Prod.mk.injEq] at hp
    rename_i bs
    obtain ⟨rfl, rfl⟩ := hp
    simp only [valLen] at hi
    simp only [Impl.Repr] at hr
    obtain ⟨hlen, c, rfl, hct⟩ := hr
    have hj : i / 256 < (packBits bs).length := by rw [packBits_length]; omega
    simp only [keyToStaticGindex, treeDepth, contentsDepth, hasMixIn] at hg
    split at hg
    · simp at hg
    · simp only [if_true] at hg
      exact ⟨hj, by rw [getter_toGindex _ hg]; exact ct_leaf_get_mixin _ hct hj⟩
  | bytevector len =>
    cases v <;> simp only [packedChunks, reduceCtorEq, Option.some.injEq, Prod.mk.injEq] at hp
    rename_i bs
    obtain ⟨rfl, rfl⟩ := hp
    simp only [valLen] at hi
    simp only [Impl.Repr] at hr
    obtain ⟨hlen, hct⟩ := hr
    have hj : i / 32 < (packBytes bs).length := by rw [ConstructRoot.packBytes_length]; omega
    simp only [keyToStaticGindex, treeDepth, contentsDepth, hasMixIn] at hg
    split at hg
    · simp at hg
    · simp only [Bool.false_eq_true, if_false, Nat.add_zero] at hg
      exact ⟨hj, by rw [getter_toGindex _ hg]; exact (ct_leaf_get hct hj).1⟩
  | bytelist lim =>
    cases v <;> simp only [packedChunks, reduceCtorEq, Option.some.injEq, Prod.mk.injEq] at hp
    rename_i bs
    obtain ⟨rfl, rfl⟩ := hp
    simp only [valLen] at hi
    simp only [Impl.Repr] at hr
    obtain ⟨hlen, c, rfl, hct⟩ := hr
    have hj : i / 32 < (packBytes bs).length := by rw [ConstructRoot.packBytes_length]; omega
    simp only [keyToStaticGindex, treeDepth, contentsDepth, hasMixIn] at hg
    split at hg
    · simp at hg
    · simp only [if_true] at hg
      exact ⟨hj, by rw [getter_toGindex _ hg]; exact ct_leaf_get_mixin _ hct hj⟩
  | vector et len =>
    cases v <;> simp only [packedChunks, reduceCtorEq] at hp
    rename_i vs
    split at hp
    · next hb =>
      simp only [Option.some.injEq, Prod.mk.injEq] at hp
      obtain ⟨rfl, rfl⟩ := hp
      simp only [valLen] at hi
      simp [Ty.wf] at hwf
      simp only [Impl.Repr, hb, if_true] at hr
      obtain ⟨hlen, _, hct⟩ := hr
      have hj : i / (32 / et.basicSize) < (packInts et.basicSize (vs.map numOf)).length := by
        rw [packInts_length' et hwf.2 hb, List.length_map]
        exact (DefaultNode.packed_chunk_lt et hwf.2 hb vs.length i hi).1
      simp only [keyToStaticGindex, hb, if_true, treeDepth, contentsDepth, hasMixIn] at hg
      split at hg
      · simp at hg
      · simp only [Bool.false_eq_true, if_false, Nat.add_zero] at hg
        exact ⟨hj, by rw [getter_toGindex _ hg]; exact (ct_leaf_get hct hj).1⟩
    · simp at hp
  | list et lim =>
    cases v <;> simp only [packedChunks, reduceCtorEq] at hp
    rename_i vs
    split at hp
    · next hb =>
      simp only [Option.some.injEq, Prod.mk.injEq] at hp
      obtain ⟨rfl, rfl⟩ := hp
      simp only [valLen] at hi
      simp [Ty.wf] at hwf
      simp only [Impl.Repr, hb, if_true] at hr
      obtain ⟨hlen, c, rfl, _, hct⟩ := hr
      have hj : i / (32 / et.basicSize) < (packInts et.basicSize (vs.map numOf)).length := by
        rw [packInts_length' et hwf hb, List.length_map]
        exact (DefaultNode.packed_chunk_lt et hwf hb vs.length i hi).1
      simp only [keyToStaticGindex, hb, if_true, treeDepth, contentsDepth, hasMixIn] at hg
      split at hg
      · simp at hg
      · exact ⟨hj, by rw [getter_toGindex _ hg]; exact ct_leaf_get_mixin _ hct hj⟩
    · simp at hp

/-! ### the element can be read from that chunk -/

/-- byte `i` of a byte array sits at offset `i % 32` of chunk `i / 32` -/
theorem packBytes_getElem (bs : List UInt8) (i : Nat) (hi : i < bs.length)
    (hj : i / 32 < (packBytes bs).length) :
    ((packBytes bs)[i / 32])[i % 32]? = some bs[i] := by
  have key : ∀ (cs : List Chunk) (_ : cs = bytesToChunks bs) (hj : i / 32 < cs.length),
      cs[i / 32] = padRight ((bs.drop (32 * (i / 32))).take 32) 32 := by
    intro cs h hj
    subst h
    simp only [bytesToChunks, List.getElem_map]
    rw [groups_getElem (by decide : 0 < 32)]
  rw [key (packBytes bs) (ConstructRoot.packBytes_eq_pack bs) hj, padRight]
  have hk : i % 32 < ((bs.drop (32 * (i / 32))).take 32).length := by
    simp only [List.length_take, List.length_drop]; omega
  rw [List.getElem?_append_left hk, List.getElem?_eq_getElem hk, List.getElem_take,
    List.getElem_drop]
  have e : 32 * (i / 32) + i % 32 = i := by omega
  simp only [e]

/-- packed basic element `i` is slice `i % per` of chunk `i / per` -/
theorem packed_elem_seq (H : Hash) (et : Ty) (vs : List Val) (i : Nat) (hwf : et.wf = true)
    (hb : et.isBasic = true) (hwt : ∀ x ∈ vs, WT et x = true) (hi : i < vs.length)
    (hj : i / (32 / et.basicSize) < (packInts et.basicSize (vs.map numOf)).length) :
    readBasicAt H et (.leaf (packInts et.basicSize (vs.map numOf))[i / (32 / et.basicSize)])
      (i % (32 / et.basicSize)) = some vs[i] := by
  have hper : 0 < 32 / et.basicSize := by
    rcases basicSize_cases et hwf hb with h | h | h | h | h | h <;> rw [h] <;> decide
  apply readBasicAt_slice H et vs[i] hb (hwt _ (List.getElem_mem _))
  have := packInts_getElem_slice et.basicSize (vs.map numOf) i hper (by simpa using hi) hj
  simpa using this

/-- bit `i` of a bitfield is bit `i % 256` of chunk `i / 256` -/
theorem packed_elem_bits (bs : List Bool) (i : Nat) (hi : i < bs.length)
    (hj : i / 256 < (packBits bs).length) : bitOfChunk ((packBits bs)[i / 256]) i = bs[i] :=
  bitOfChunk_packBits bs i hi hj

/-- how the views decode element `i` of a packed type from the chunk that holds it
    (`basic_view_from_backing(chunk, i % per)`, the bit test of `BitsView.get`, byte indexing) -/
def elemOfChunk (H : Hash) : Ty → Chunk → Nat → Option Val
  | .list et _, c, i => readBasicAt H et (.leaf c) (i % (32 / et.basicSize))
  | .vector et _, c, i => readBasicAt H et (.leaf c) (i % (32 / et.basicSize))
  | .bitlist _, c, i => some (.num (if bitOfChunk c i then 1 else 0))
  | .bitvector _, c, i => some (.num (if bitOfChunk c i then 1 else 0))
  | .bytelist _, c, i => (c[i % 32]?).map fun b => .num b.toNat
  | .bytevector _, c, i => (c[i % 32]?).map fun b => .num b.toNat
  | _, _, _ => none

/-- an element key of a packed value is below the length -/
theorem subVal_idx_lt (t : Ty) (v : Val) (i : Nat) (r : Option Ty × Val) (p : List Chunk × Nat)
    (hp : packedChunks t v = some p) (hs : subVal t v (.idx i) = some r) : i < valLen v := by
  cases t <;> cases v <;> simp only [packedChunks, reduceCtorEq] at hp <;>
    simp only [subVal] at hs <;> exact (map_getElem?_eq_some hs).1

/-- PACKED POSITIONS, one step, with the element: the node at the static index of a packed element
    key is the leaf chunk `cs[i / per]`, and decoding position `i` of that chunk yields exactly the
    addressed element `subVal t v (.idx i)`. -/
theorem packed_addresses_elem (H : Hash) (t : Ty) (v : Val) (n : Node) (i g : Nat)
    (cs : List Chunk) (per : Nat) (ot : Option Ty) (x : Val)
    (hr : Impl.Repr H t v n) (hwf : t.wf = true)
    (hp : packedChunks t v = some (cs, per)) (hs : subVal t v (.idx i) = some (ot, x))
    (hg : keyToStaticGindex t (.idx i) = some g) :
    ∃ hj : i / per < cs.length, getter n g = some (.leaf cs[i / per]) ∧
      elemOfChunk H t cs[i / per] i = some x := by
  have hi := subVal_idx_lt t v i _ _ hp hs
  obtain ⟨hj, hget⟩ := packed_addresses H t v n i g cs per hr hwf hp hi hg
  refine ⟨hj, hget, ?_⟩
  cases t with
  | uint nb => cases v <;> simp [packedChunks] at hp
  | bool => cases v <;> simp [packedChunks] at hp
  | container fs => cases v <;> simp [packedChunks] at hp
  | union hasNone opts => cases v <;> simp [packedChunks] at hp
  | bitvector len =>
    cases v <;> simp only [packedChunks, reduceCtorEq, Option.some.injEq, Prod.mk.injEq] at hp
    obtain ⟨rfl, rfl⟩ := hp
    simp only [valLen] at hi
    simp only [subVal, List.getElem?_eq_getElem hi, Option.map_some, Option.some.injEq,
      Prod.mk.injEq] at hs
    simp only [elemOfChunk, bitOfChunk_packBits _ i hi hj, hs.2]
  | bitlist lim =>
    cases v <;> simp only [packedChunks, reduceCtorEq, Option.some.injEq, Prod.mk.injEq] at hp
    obtain ⟨rfl, rfl⟩ := hp
    simp only [valLen] at hi
    simp only [subVal, List.getElem?_eq_getElem hi, Option.map_some, Option.some.injEq,
      Prod.mk.injEq] at hs
    simp only [elemOfChunk, bitOfChunk_packBits _ i hi hj, hs.2]
  | bytevector len =>
    cases v <;> simp only [packedChunks, reduceCtorEq, Option.some.injEq, Prod.mk.injEq] at hp
    obtain ⟨rfl, rfl⟩ := hp
    simp only [valLen] at hi
    simp only [subVal, List.getElem?_eq_getElem hi, Option.map_some, Option.some.injEq,
      Prod.mk.injEq] at hs
    simp only [elemOfChunk, packBytes_getElem _ i hi hj, Option.map_some, hs.2]
  | bytelist lim =>
    cases v <;> simp only [packedChunks, reduceCtorEq, Option.some.injEq, Prod.mk.injEq] at hp
    obtain ⟨rfl, rfl⟩ := hp
    simp only [valLen] at hi
    simp only [subVal, List.getElem?_eq_getElem hi, Option.map_some, Option.some.injEq,
      Prod.mk.injEq] at hs
    simp only [elemOfChunk, packBytes_getElem _ i hi hj, Option.map_some, hs.2]
  | vector et len =>
    cases v <;> simp only [packedChunks, reduceCtorEq] at hp
    rename_i vs
    split at hp
    · next hb =>
      simp only [Option.some.injEq, Prod.mk.injEq] at hp
      obtain ⟨rfl, rfl⟩ := hp
      simp only [valLen] at hi
      simp [Ty.wf] at hwf
      simp only [Impl.Repr, hb, if_true] at hr
      simp only [subVal, List.getElem?_eq_getElem hi, Option.map_some, Option.some.injEq,
        Prod.mk.injEq] at hs
      simp only [elemOfChunk, packed_elem_seq H et vs i hwf.2 hb hr.2.1 hi hj, hs.2]
    · simp at hp
  | list et lim =>
    cases v <;> simp only [packedChunks, reduceCtorEq] at hp
    rename_i vs
    split at hp
    · next hb =>
      simp only [Option.some.injEq, Prod.mk.injEq] at hp
      obtain ⟨rfl, rfl⟩ := hp
      simp only [valLen] at hi
      simp [Ty.wf] at hwf
      simp only [Impl.Repr, hb, if_true] at hr
      obtain ⟨_, c, _, hwt, _⟩ := hr
      simp only [subVal, List.getElem?_eq_getElem hi, Option.map_some, Option.some.injEq,
        Prod.mk.injEq] at hs
      simp only [elemOfChunk, packed_elem_seq H et vs i hwf hb hwt hi hj, hs.2]
    · simp at hp

/-- PACKED POSITIONS at the end of a path: an unpacked path to `v' : t'` followed by an element key
    of the packed value `v'` — the library's static path index exists and the node found there is
    the leaf chunk holding the element, from which the element is decoded. -/
theorem path_packed_addresses (H : Hash) (t : Ty) (v : Val) (n : Node) (keys : List Key)
    (t' : Ty) (v' : Val) (i : Nat) (cs : List Chunk) (per : Nat) (ot : Option Ty) (x : Val)
    (hr : Impl.Repr H t v n) (hwf : t.wf = true) (hlim : limitsOk t = true)
    (hpath : subValPath (some t) v keys = some (some t', v'))
    (hp : packedChunks t' v' = some (cs, per)) (hs : subVal t' v' (.idx i) = some (ot, x)) :
    ∃ g, ∃ hj : i / per < cs.length, Impl.pathGindex t (keys ++ [.idx i]) = some g ∧
      getter n g = some (.leaf cs[i / per]) ∧ elemOfChunk H t' cs[i / per] i = some x := by
  obtain ⟨g0, m, _, hg0ne, hm, hrm, hwf', _, hext⟩ :=
    path_addresses_gen H keys t v n 1 n t' v' hr hwf hlim hpath (by decide) (getter_one n)
  have hn := subVal_navigateType t' v' (.idx i) ot x (repr_wt H t' v' m hrm) hs
  obtain ⟨g', hg'⟩ := static_exists t' (.idx i) ot hwf' hn
  obtain ⟨hj, hget, helem⟩ := packed_addresses_elem H t' v' m i g' cs per ot x hrm hwf' hp hs hg'
  refine ⟨concatStep g0 g', hj, ?_, ?_, helem⟩
  · rw [pathGindex_eq_implGindex, hext, implGindex_cons]
    simp only [implStep, hn, hg', implGindex_nil]
  · rw [getter_concatStep n hg0ne (keyToStaticGindex_ne_zero _ _ _ hg'), hm]
    exact hget

/-! ## 6. keys of the TYPE that are not keys of the VALUE; non-vacuity

The static index depends on the type only: for a list with limit 4 holding one element, the keys
`1 … 3` are accepted by `navigate_type` / `key_to_static_gindex` (and by the SSZ
`get_generalized_index`) although the value has no such element; `subVal` is `none` there, and
nothing is claimed about the node: in the constructor tree, index `1` finds the zero chunk (not a
representation of the element type) and index `2` runs into a zero summary (NavigationError). -/

section Examples
variable (H : Hash)

private def tEx : Ty := .container [.uint 8, .list (.container [.uint 1, .uint 1]) 4]
private def vEx : Val := .seq [.num 7, .seq [.seq [.num 1, .num 2]]]
private def tPk : Ty := .container [.uint 8, .list (.uint 2) 100]
private def vPk : Val := .seq [.num 7, .seq ((List.range 40).map .num)]

example : tEx.wf = true ∧ limitsOk tEx = true ∧ WT tEx vEx = true := by decide

/-- a path valid for the value: field 1, element 0, field 1 -/
example : subValPath (some tEx) vEx [.idx 1, .idx 0, .idx 1] = some (some (.uint 1), .num 2) := rfl
example : Impl.pathGindex tEx [.idx 1, .idx 0, .idx 1] = some 49 := by decide

/-- the hypotheses of `path_addresses` are satisfiable: the constructor tree of `vEx` -/
example : ∃ n m, Impl.construct H tEx vEx = some n ∧ getter n 49 = some m ∧
    m.root H = Spec.htr H (.uint 1) (.num 2) := by
  obtain ⟨n, hc, hr⟩ := repr_exists H tEx vEx (by decide) (by decide)
  obtain ⟨g, m, hg, hm, _, hroot⟩ :=
    path_addresses H tEx vEx n [.idx 1, .idx 0, .idx 1] (.uint 1) (.num 2) hr (by decide)
      (by decide) rfl
  have : g = 49 := by
    have h49 : Impl.pathGindex tEx [.idx 1, .idx 0, .idx 1] = some 49 := by decide
    rw [h49] at hg; exact (Option.some.inj hg).symm
  subst this
  exact ⟨n, m, hc, hm, hroot⟩

/-- keys beyond the current length but below the limit: static index defined, no sub-value -/
example : Impl.pathGindex tEx [.idx 1, .idx 1] = some 25 ∧ Impl.pathGindex tEx [.idx 1, .idx 2] = some 26
    ∧ Impl.pathGindex tEx [.idx 1, .idx 4] = none := by decide
example : subValPath (some tEx) vEx [.idx 1, .idx 1] = none ∧
    subValPath (some tEx) vEx [.idx 1, .idx 2] = none := ⟨rfl, rfl⟩
example : (Impl.construct H tEx vEx).bind (fun n => getter n 25) = some (zeroNode H 0) := rfl
example : (Impl.construct H tEx vEx).bind (fun n => getter n 26) = none := rfl

/-- a packed position at the end of a path: element 37 of a `List[uint16, 100]` lives in chunk 2 -/
example : subValPath (some tPk) vPk [.idx 1] = some (some (.list (.uint 2) 100), .seq ((List.range 40).map .num)) := rfl
example : Impl.pathGindex tPk [.idx 1, .idx 37] = some 50 := by decide
example : subVal (.list (.uint 2) 100) (.seq ((List.range 40).map .num)) (.idx 37)
    = some (some (.uint 2), .num 37) := rfl

end Examples

end Rmk.PathAddress
