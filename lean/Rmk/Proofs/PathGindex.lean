/-
Generalized indices of typed paths (property C08): `concat_gindices` arithmetic, navigation by a
concatenated index, and equality of the library's static path gindex with the SSZ-spec recurrence.
-/
import Rmk.Impl.Misc
import Rmk.Spec.Ssz
import Rmk.Proofs.Gindex
import Rmk.Proofs.TreeLaws
namespace Rmk
open Rmk.Impl

/-! ### `concatStep` arithmetic -/

/-- the definition, spelled out -/
theorem concatStep_spec (out step : Nat) :
    concatStep out step = out * 2 ^ (bitLength step - 1) + (step - 2 ^ (bitLength step - 1)) := rfl

theorem bitLength_two_pow_add (d i : Nat) (h : i < 2 ^ d) : bitLength (2 ^ d + i) = d + 1 := by
  have hne : 2 ^ d + i ≠ 0 := by have := Nat.two_pow_pos d; omega
  rw [bitLength_pos hne]
  congr 1
  rw [Nat.log2_eq_iff hne]
  constructor
  · omega
  · rw [Nat.pow_succ]; omega

/-- for `g = 2^d + i` with `i < 2^d`: `concatStep out g = out * 2^d + i` -/
theorem concatStep_two_pow_add (out d i : Nat) (h : i < 2 ^ d) :
    concatStep out (2 ^ d + i) = out * 2 ^ d + i := by
  rw [concatStep_spec, bitLength_two_pow_add d i h]
  simp only [Nat.add_sub_cancel]
  omega

/-- the leading one of a positive number -/
theorem two_pow_bitLength_pred_le {g : Nat} (h : g ≠ 0) : 2 ^ (bitLength g - 1) ≤ g := by
  rw [bitLength_pos h]
  simpa using Nat.log2_self_le h

@[simp] theorem concatStep_one_right (out : Nat) : concatStep out 1 = out := by
  simp [concatStep, bitLength, Nat.log2_def]

theorem concatStep_one_left {g : Nat} (h : g ≠ 0) : concatStep 1 g = g := by
  have := two_pow_bitLength_pred_le h
  rw [concatStep_spec]; omega

theorem concatStep_two_mul (out : Nat) {g : Nat} (h : g ≠ 0) :
    concatStep out (2 * g) = 2 * concatStep out g := by
  have hb : bitLength g - 1 + 1 = bitLength g := by rw [bitLength_pos h]; omega
  rw [concatStep_spec, concatStep_spec, bitLength_two_mul h, Nat.add_sub_cancel, ← hb, Nat.pow_succ]
  simp only [Nat.add_sub_cancel]
  generalize 2 ^ (bitLength g - 1) = P
  rw [← Nat.mul_assoc]
  generalize out * P = Q
  omega

theorem concatStep_two_mul_add_one (out : Nat) {g : Nat} (h : g ≠ 0) :
    concatStep out (2 * g + 1) = 2 * concatStep out g + 1 := by
  have hb : bitLength g - 1 + 1 = bitLength g := by rw [bitLength_pos h]; omega
  have hle := two_pow_bitLength_pred_le h
  rw [concatStep_spec, concatStep_spec, bitLength_two_mul_add_one, Nat.add_sub_cancel, ← hb,
    Nat.pow_succ]
  simp only [Nat.add_sub_cancel]
  generalize 2 ^ (bitLength g - 1) = P at hle ⊢
  rw [← Nat.mul_assoc]
  generalize out * P = Q
  omega

theorem concatStep_ne_zero {out step : Nat} (ho : out ≠ 0) : concatStep out step ≠ 0 := by
  rw [concatStep_spec]
  have := Nat.two_pow_pos (bitLength step - 1)
  have : 0 < out * 2 ^ (bitLength step - 1) := Nat.mul_pos (by omega) this
  omega

/-- the bit path of a concatenation is the concatenation of the bit paths -/
theorem gbits_concatStep {out step : Nat} (ho : out ≠ 0) (hs : step ≠ 0) :
    gbits (concatStep out step) = gbits out ++ gbits step := by
  refine gindex_induction (P := fun s => gbits (concatStep out s) = gbits out ++ gbits s)
    ?_ ?_ ?_ step hs
  · simp
  · intro g hg ih
    rw [concatStep_two_mul out hg, gbits_two_mul (concatStep_ne_zero ho), ih, gbits_two_mul hg,
      List.append_assoc]
  · intro g hg ih
    rw [concatStep_two_mul_add_one out hg, gbits_two_mul_add_one (concatStep_ne_zero ho), ih,
      gbits_two_mul_add_one hg, List.append_assoc]

/-- positive gindices with the same bit path are equal -/
theorem gbits_inj {a b : Nat} (ha : a ≠ 0) (hb : b ≠ 0) (h : gbits a = gbits b) : a = b := by
  rw [← gindexOfPath_gbits ha, ← gindexOfPath_gbits hb, h]

theorem concatStep_assoc {a b c : Nat} (ha : a ≠ 0) (hb : b ≠ 0) (hc : c ≠ 0) :
    concatStep (concatStep a b) c = concatStep a (concatStep b c) := by
  apply gbits_inj (concatStep_ne_zero (concatStep_ne_zero ha)) (concatStep_ne_zero ha)
  rw [gbits_concatStep (concatStep_ne_zero ha) hc, gbits_concatStep ha hb,
    gbits_concatStep ha (concatStep_ne_zero hb), gbits_concatStep hb hc, List.append_assoc]

/-! ### `concatGindices` is a monoid homomorphism -/

theorem foldl_concatStep_ne_zero {a : Nat} (ha : a ≠ 0) (xs : List Nat) :
    xs.foldl concatStep a ≠ 0 := by
  induction xs generalizing a with
  | nil => simpa using ha
  | cons x xs ih => exact ih (concatStep_ne_zero ha)

theorem concatGindices_ne_zero (xs : List Nat) : concatGindices xs ≠ 0 :=
  foldl_concatStep_ne_zero (by omega) xs

theorem gbits_foldl_concatStep {a : Nat} (ha : a ≠ 0) (xs : List Nat) (hxs : ∀ x ∈ xs, x ≠ 0) :
    gbits (xs.foldl concatStep a) = gbits a ++ xs.flatMap gbits := by
  induction xs generalizing a with
  | nil => simp
  | cons x xs ih =>
    have hx : x ≠ 0 := hxs x (by simp)
    rw [List.foldl_cons, ih (concatStep_ne_zero ha) (fun y hy => hxs y (by simp [hy])),
      gbits_concatStep ha hx]
    simp

/-- the bit path of `concat_gindices(steps)` is the concatenation of the steps' bit paths -/
theorem gbits_concatGindices (xs : List Nat) (hxs : ∀ x ∈ xs, x ≠ 0) :
    gbits (concatGindices xs) = xs.flatMap gbits := by
  unfold concatGindices
  rw [gbits_foldl_concatStep (by omega) xs hxs]; simp

theorem concatGindices_nil : concatGindices [] = 1 := rfl

theorem concatGindices_singleton {a : Nat} (ha : a ≠ 0) : concatGindices [a] = a := by
  simp [concatGindices, concatStep_one_left ha]

theorem concatGindices_pair {a : Nat} (ha : a ≠ 0) (b : Nat) :
    concatGindices [a, b] = concatStep a b := by
  simp [concatGindices, concatStep_one_left ha]

/-- `concat_gindices(xs + ys)` continues the fold of `xs` with the steps `ys` -/
theorem concatGindices_append (xs ys : List Nat) :
    concatGindices (xs ++ ys) = ys.foldl concatStep (concatGindices xs) := by
  simp [concatGindices, List.foldl_append]

/-- folding from `a` is one `concatStep` of `a` with the fold from the unit -/
theorem foldl_concatStep_eq {a : Nat} (ha : a ≠ 0) (ys : List Nat) (hys : ∀ y ∈ ys, y ≠ 0) :
    ys.foldl concatStep a = concatStep a (concatGindices ys) := by
  apply gbits_inj (foldl_concatStep_ne_zero ha ys) (concatStep_ne_zero ha)
  rw [gbits_foldl_concatStep ha ys hys, gbits_concatStep ha (concatGindices_ne_zero ys),
    gbits_concatGindices ys hys]

/-- monoid homomorphism: `concat_gindices(xs + ys) = concat(concat_gindices(xs), concat_gindices(ys))` -/
theorem concatGindices_append_eq (xs ys : List Nat) (hys : ∀ y ∈ ys, y ≠ 0) :
    concatGindices (xs ++ ys) = concatStep (concatGindices xs) (concatGindices ys) := by
  rw [concatGindices_append, foldl_concatStep_eq (concatGindices_ne_zero xs) ys hys]

/-- ASSOCIATIVITY of `concat_gindices` -/
theorem concatGindices_assoc (xs ys : List Nat) (hys : ∀ y ∈ ys, y ≠ 0) :
    concatGindices [concatGindices xs, concatGindices ys] = concatGindices (xs ++ ys) := by
  rw [concatGindices_pair (concatGindices_ne_zero xs), concatGindices_append,
    foldl_concatStep_eq (concatGindices_ne_zero xs) ys hys]

/-! ### navigation by a concatenated gindex -/

theorem getter_concatStep (n : Node) {a b : Nat} (ha : a ≠ 0) (hb : b ≠ 0) :
    getter n (concatStep a b) = (getter n a).bind (fun m => getter m b) := by
  simp only [getter, concatStep_ne_zero ha, ha, hb, if_false, gbits_concatStep ha hb,
    getPath_append]

/-- navigation by `concat_gindices([a, b])` is navigation by `a`, then by `b` -/
theorem getPath_concat (n : Node) {a b : Nat} (ha : a ≠ 0) (hb : b ≠ 0) :
    getter n (concatGindices [a, b]) = (getter n a).bind (fun m => getter m b) := by
  rw [concatGindices_pair ha, getter_concatStep n ha hb]

/-! ### arithmetic of chunk positions -/

/-- `n ≤ 2^get_depth(n)` -/
theorem le_two_pow_getDepth (n : Nat) : n ≤ 2 ^ getDepth n := by
  unfold getDepth
  split
  · simp; omega
  · have := bitLength_lt_two_pow (n - 1); omega

theorem toGindex_of_lt {i d : Nat} (h : i < 2 ^ d) : toGindex i d = some (2 ^ d + i) := by
  unfold toGindex
  rw [if_neg (by omega)]

theorem toGindex_ne_zero {i d g : Nat} (h : toGindex i d = some g) : g ≠ 0 := by
  unfold toGindex at h
  split at h
  · simp at h
  · have := Nat.two_pow_pos d
    simp at h; omega

/-- position `pos` among `cc` chunks of a tree without mix-in: the local gindex exists and
    concatenating it is the spec formula `root * pow2ceil(cc) + pos` -/
theorem toGindex_plain {pos cc : Nat} (h : pos < cc) :
    ∃ g, toGindex pos (getDepth cc) = some g ∧
      ∀ root, concatStep root g = root * Spec.pow2ceil cc + pos := by
  have hlt : pos < 2 ^ getDepth cc := Nat.lt_of_lt_of_le h (le_two_pow_getDepth cc)
  exact ⟨_, toGindex_of_lt hlt, fun root => concatStep_two_pow_add root _ _ hlt⟩

/-- same below a length mix-in: `root * 2 * pow2ceil(cc) + pos` -/
theorem toGindex_mixin {pos cc : Nat} (h : pos < cc) :
    ∃ g, toGindex pos (getDepth cc + 1) = some g ∧
      ∀ root, concatStep root g = root * 2 * Spec.pow2ceil cc + pos := by
  have hlt : pos < 2 ^ getDepth cc := Nat.lt_of_lt_of_le h (le_two_pow_getDepth cc)
  have hlt' : pos < 2 ^ (getDepth cc + 1) := by rw [Nat.pow_succ]; omega
  refine ⟨_, toGindex_of_lt hlt', fun root => ?_⟩
  rw [concatStep_two_pow_add root _ _ hlt', Spec.pow2ceil, Nat.pow_succ, Nat.mul_assoc,
    Nat.mul_comm 2]

theorem concatStep_two (root : Nat) : concatStep root 2 = root * 2 := by
  have := concatStep_two_pow_add root 1 0 (by omega)
  simpa using this

theorem concatStep_three (root : Nat) : concatStep root 3 = root * 2 + 1 := by
  have := concatStep_two_pow_add root 1 1 (by omega)
  simpa using this

/-- byte sizes of well-formed basic types -/
theorem basicSize_cases (et : Ty) (hwf : et.wf = true) (hb : et.isBasic = true) :
    et.basicSize = 1 ∨ et.basicSize = 2 ∨ et.basicSize = 4 ∨ et.basicSize = 8 ∨
      et.basicSize = 16 ∨ et.basicSize = 32 := by
  cases et <;> simp [Ty.isBasic] at hb
  · simp [Ty.wf] at hwf
    simp only [Ty.basicSize]; omega
  · simp [Ty.basicSize]

/-- index of the chunk holding packed element `i`: `i // (32 // size) = i * size // 32` -/
theorem packedPos_eq (s i : Nat) (hs : s = 1 ∨ s = 2 ∨ s = 4 ∨ s = 8 ∨ s = 16 ∨ s = 32) :
    i / (32 / s) = i * s / 32 := by
  rcases hs with rfl | rfl | rfl | rfl | rfl | rfl <;> simp <;> omega

theorem packedLen_eq (s n : Nat) (hs : s = 1 ∨ s = 2 ∨ s = 4 ∨ s = 8 ∨ s = 16 ∨ s = 32) :
    (n + 32 / s - 1) / (32 / s) = (n * s + 31) / 32 := by
  rcases hs with rfl | rfl | rfl | rfl | rfl | rfl <;> simp <;> omega

/-- the library's `to_chunk_length` agrees with the spec's `chunk_count` of a sequence -/
theorem chunkLen_eq_chunkCount (et : Ty) (n : Nat) (hwf : et.wf = true) :
    chunkLen et n = if et.isBasic then (n * et.basicSize + 31) / 32 else n := by
  unfold chunkLen
  by_cases hb : et.isBasic = true
  · simp only [hb, if_true]
    exact packedLen_eq _ _ (basicSize_cases et hwf hb)
  · simp [hb]

theorem chunkLen_list (et : Ty) (lim : Nat) (hwf : et.wf = true) :
    chunkLen et lim = Spec.chunkCount (.list et lim) := by
  rw [chunkLen_eq_chunkCount et lim hwf]; rfl

theorem chunkLen_vector (et : Ty) (n : Nat) (hwf : et.wf = true) :
    chunkLen et n = Spec.chunkCount (.vector et n) := by
  rw [chunkLen_eq_chunkCount et n hwf]; rfl

/-- the chunk position used by the library equals the spec's, and lies inside the contents -/
theorem seqPos_spec (et : Ty) (i n : Nat) (hwf : et.wf = true) (hi : i < n) :
    (if et.isBasic then i / (32 / et.basicSize) else i)
        = (if et.isBasic then i * et.basicSize / 32 else i) ∧
      (if et.isBasic then i * et.basicSize / 32 else i) < chunkLen et n := by
  rw [chunkLen_eq_chunkCount et n hwf]
  by_cases hb : et.isBasic = true
  · simp only [hb, if_true]
    have hs := basicSize_cases et hwf hb
    refine ⟨packedPos_eq _ _ hs, ?_⟩
    rcases hs with h | h | h | h | h | h <;> rw [h] <;> omega
  · simp [hb, hi]

/-! ### one step: library (`navigate_type` + `key_to_static_gindex` + `concat`) = spec -/

/-- one step of the library's computation: the type reached by `navigate_type` and the running
    gindex extended by the local static gindex; `none` when either function rejects the key -/
def implStep (root : Nat) (t : Ty) (k : Key) : Option (Nat × Option Ty) :=
  match navigateType t k, keyToStaticGindex t k with
  | some t', some g => some (concatStep root g, t')
  | _, _ => none

theorem implStep_list_idx (root : Nat) (et : Ty) (lim i : Nat) (hwf : et.wf = true) :
    implStep root (.list et lim) (.idx i) = Spec.gindexStep root (.list et lim) (.idx i) := by
  by_cases hi : i < lim
  · have hge : ¬ (i ≥ lim) := by omega
    obtain ⟨hpos, hlt⟩ := seqPos_spec et i lim hwf hi
    obtain ⟨g, hg, hc⟩ := toGindex_mixin hlt
    have htd : treeDepth (.list et lim) = getDepth (chunkLen et lim) + 1 := by
      simp [treeDepth, contentsDepth, hasMixIn]
    rw [chunkLen_list et lim hwf] at hg hc htd
    simp only [implStep, navigateType, keyToStaticGindex, Spec.gindexStep, hge, hi, if_true,
      if_false, htd, hpos, hg, hc]
  · have hge : i ≥ lim := by omega
    simp [implStep, navigateType, keyToStaticGindex, Spec.gindexStep, hge, hi]

theorem implStep_vector_idx (root : Nat) (et : Ty) (n i : Nat) (hwf : et.wf = true) :
    implStep root (.vector et n) (.idx i) = Spec.gindexStep root (.vector et n) (.idx i) := by
  by_cases hi : i < n
  · have hge : ¬ (i ≥ n) := by omega
    obtain ⟨hpos, hlt⟩ := seqPos_spec et i n hwf hi
    obtain ⟨g, hg, hc⟩ := toGindex_plain hlt
    have htd : treeDepth (.vector et n) = getDepth (chunkLen et n) := by
      simp [treeDepth, contentsDepth, hasMixIn]
    rw [chunkLen_vector et n hwf] at hg hc htd
    simp only [implStep, navigateType, keyToStaticGindex, Spec.gindexStep, hge, hi, if_true,
      if_false, htd, hpos, hg, hc]
  · have hge : i ≥ n := by omega
    simp [implStep, navigateType, keyToStaticGindex, Spec.gindexStep, hge, hi]

theorem implStep_container_idx (root : Nat) (fs : List Ty) (i : Nat) :
    implStep root (.container fs) (.idx i) = Spec.gindexStep root (.container fs) (.idx i) := by
  by_cases hi : i < fs.length
  · have hge : ¬ (i ≥ fs.length) := by omega
    obtain ⟨g, hg, hc⟩ := toGindex_plain hi
    have htd : treeDepth (.container fs) = getDepth fs.length := by
      simp [treeDepth, contentsDepth, hasMixIn]
    simp [implStep, navigateType, keyToStaticGindex, Spec.gindexStep, hge, hi, htd, hg, hc]
  · have hge : i ≥ fs.length := by omega
    simp [implStep, navigateType, keyToStaticGindex, Spec.gindexStep, hge]

theorem implStep_bitlist_idx (root lim i : Nat) :
    implStep root (.bitlist lim) (.idx i) = Spec.gindexStep root (.bitlist lim) (.idx i) := by
  by_cases hi : i < lim
  · have hge : ¬ (i ≥ lim) := by omega
    have hlt : i / 256 < (lim + 255) / 256 := by omega
    obtain ⟨g, hg, hc⟩ := toGindex_mixin hlt
    have htd : treeDepth (.bitlist lim) = getDepth ((lim + 255) / 256) + 1 := by
      simp [treeDepth, contentsDepth, hasMixIn]
    simp [implStep, navigateType, keyToStaticGindex, Spec.gindexStep, hge, hi, htd, hg, hc]
  · have hge : i ≥ lim := by omega
    simp [implStep, navigateType, keyToStaticGindex, Spec.gindexStep, hge, hi]

theorem implStep_bytelist_idx (root lim i : Nat) :
    implStep root (.bytelist lim) (.idx i) = Spec.gindexStep root (.bytelist lim) (.idx i) := by
  by_cases hi : i < lim
  · have hge : ¬ (i ≥ lim) := by omega
    have hlt : i / 32 < (lim + 31) / 32 := by omega
    obtain ⟨g, hg, hc⟩ := toGindex_mixin hlt
    have htd : treeDepth (.bytelist lim) = getDepth ((lim + 31) / 32) + 1 := by
      simp [treeDepth, contentsDepth, hasMixIn]
    simp [implStep, navigateType, keyToStaticGindex, Spec.gindexStep, hge, hi, htd, hg, hc]
  · have hge : i ≥ lim := by omega
    simp [implStep, navigateType, keyToStaticGindex, Spec.gindexStep, hge, hi]

theorem implStep_bitvector_idx (root n i : Nat) :
    implStep root (.bitvector n) (.idx i) = Spec.gindexStep root (.bitvector n) (.idx i) := by
  by_cases hi : i < n
  · have hge : ¬ (i ≥ n) := by omega
    have hlt : i / 256 < (n + 255) / 256 := by omega
    obtain ⟨g, hg, hc⟩ := toGindex_plain hlt
    have htd : treeDepth (.bitvector n) = getDepth ((n + 255) / 256) := by
      simp [treeDepth, contentsDepth, hasMixIn]
    simp [implStep, navigateType, keyToStaticGindex, Spec.gindexStep, hge, hi, htd, hg, hc]
  · have hge : i ≥ n := by omega
    simp [implStep, navigateType, keyToStaticGindex, Spec.gindexStep, hge, hi]

theorem implStep_bytevector_idx (root n i : Nat) :
    implStep root (.bytevector n) (.idx i) = Spec.gindexStep root (.bytevector n) (.idx i) := by
  by_cases hi : i < n
  · have hge : ¬ (i ≥ n) := by omega
    have hlt : i / 32 < (n + 31) / 32 := by omega
    obtain ⟨g, hg, hc⟩ := toGindex_plain hlt
    have htd : treeDepth (.bytevector n) = getDepth ((n + 31) / 32) := by
      simp [treeDepth, contentsDepth, hasMixIn]
    simp [implStep, navigateType, keyToStaticGindex, Spec.gindexStep, hge, hi, htd, hg, hc]
  · have hge : i ≥ n := by omega
    simp [implStep, navigateType, keyToStaticGindex, Spec.gindexStep, hge, hi]

theorem implStep_union_idx (root : Nat) (hasNone : Bool) (opts : List Ty) (i : Nat) :
    implStep root (.union hasNone opts) (.idx i)
      = Spec.gindexStep root (.union hasNone opts) (.idx i) := by
  by_cases hi : i < optCount hasNone opts
  · have hge : ¬ (i ≥ optCount hasNone opts) := by omega
    simp [implStep, navigateType, keyToStaticGindex, Spec.gindexStep, hge, hi, concatStep_two]
  · have hge : i ≥ optCount hasNone opts := by omega
    simp [implStep, navigateType, keyToStaticGindex, Spec.gindexStep, hge, hi]

/-- PER-STEP AGREEMENT: for a well-formed type and any key, the library accepts the key iff the
    spec does, the reached types agree, and the concatenated gindex is the spec formula. -/
theorem implStep_eq_spec (root : Nat) (t : Ty) (k : Key) (hwf : t.wf = true) :
    implStep root t k = Spec.gindexStep root t k := by
  cases t with
  | uint nb => cases k <;> rfl
  | bool => cases k <;> rfl
  | bitvector n =>
    cases k with
    | idx i => exact implStep_bitvector_idx root n i
    | len => rfl
    | sel => rfl
  | bitlist lim =>
    cases k with
    | idx i => exact implStep_bitlist_idx root lim i
    | len => simp [implStep, navigateType, keyToStaticGindex, Spec.gindexStep, concatStep_three]
    | sel => rfl
  | bytevector n =>
    cases k with
    | idx i => exact implStep_bytevector_idx root n i
    | len => rfl
    | sel => rfl
  | bytelist lim =>
    cases k with
    | idx i => exact implStep_bytelist_idx root lim i
    | len => rfl
    | sel => rfl
  | vector et n =>
    have hwe : et.wf = true := by simp [Ty.wf] at hwf; exact hwf.2
    cases k with
    | idx i => exact implStep_vector_idx root et n i hwe
    | len => rfl
    | sel => rfl
  | list et lim =>
    have hwe : et.wf = true := by simpa [Ty.wf] using hwf
    cases k with
    | idx i => exact implStep_list_idx root et lim i hwe
    | len => simp [implStep, navigateType, keyToStaticGindex, Spec.gindexStep, concatStep_three]
    | sel => rfl
  | container fs =>
    cases k with
    | idx i => exact implStep_container_idx root fs i
    | len => rfl
    | sel => rfl
  | union hasNone opts =>
    cases k with
    | idx i => exact implStep_union_idx root hasNone opts i
    | len => rfl
    | sel => simp [implStep, navigateType, keyToStaticGindex, Spec.gindexStep, concatStep_three]

/-! ### well-formedness is preserved along a path -/

theorem wfList_getElem? (fs : List Ty) (h : Ty.wfList fs = true) (i : Nat) (t : Ty)
    (ht : fs[i]? = some t) : t.wf = true := by
  induction fs generalizing i with
  | nil => simp at ht
  | cons f fs ih =>
    simp [Ty.wfList] at h
    cases i with
    | zero => simp at ht; subst ht; exact h.1
    | succ j => simp at ht; exact ih h.2 j ht

theorem navigateType_wf (t : Ty) (k : Key) (t' : Ty) (hwf : t.wf = true)
    (h : navigateType t k = some (some t')) : t'.wf = true := by
  cases t with
  | uint nb => cases k <;> simp [navigateType] at h
  | bool => cases k <;> simp [navigateType] at h
  | bitvector n =>
    cases k <;> simp [navigateType] at h
    obtain ⟨_, rfl⟩ := h; rfl
  | bitlist lim =>
    cases k <;> simp [navigateType] at h
    · obtain ⟨_, rfl⟩ := h; rfl
    · subst h; rfl
  | bytevector n =>
    cases k <;> simp [navigateType] at h
    obtain ⟨_, rfl⟩ := h; rfl
  | bytelist lim =>
    cases k <;> simp [navigateType] at h
    · obtain ⟨_, rfl⟩ := h; rfl
    · subst h; rfl
  | vector et n =>
    simp [Ty.wf] at hwf
    cases k <;> simp [navigateType] at h
    obtain ⟨_, rfl⟩ := h; exact hwf.2
  | list et lim =>
    simp [Ty.wf] at hwf
    cases k <;> simp [navigateType] at h
    · obtain ⟨_, rfl⟩ := h; exact hwf
    · subst h; rfl
  | container fs =>
    simp [Ty.wf] at hwf
    cases k <;> simp [navigateType] at h
    exact wfList_getElem? fs hwf.2 _ _ h
  | union hasNone opts =>
    simp [Ty.wf] at hwf
    cases k <;> simp [navigateType] at h
    · obtain ⟨_, h⟩ := h
      unfold Spec.optType at h
      split at h
      · simp at h
      · exact wfList_getElem? opts hwf.2 _ _ h
    · subst h; rfl

/-! ### the whole path -/

/-- the library's computation from an arbitrary running gindex `root` and an optional anchor type
    (`Path.from_raw_path` then the fold of `concat_gindices` started at `root`) -/
def implGindex (root : Nat) (ot : Option Ty) (keys : List Key) : Option Nat :=
  match buildPath ot keys with
  | none => none
  | some p => (stepGindices ot p).map (List.foldl concatStep root)

theorem pathGindex_eq_implGindex (t : Ty) (keys : List Key) :
    pathGindex t keys = implGindex 1 (some t) keys := rfl

theorem implGindex_nil (root : Nat) (ot : Option Ty) : implGindex root ot [] = some root := by
  cases ot <;> simp [implGindex, buildPath, stepGindices]

theorem implGindex_none_cons (root : Nat) (k : Key) (ks : List Key) :
    implGindex root none (k :: ks) = none := by
  simp [implGindex, buildPath]

theorem implGindex_cons (root : Nat) (t : Ty) (k : Key) (ks : List Key) :
    implGindex root (some t) (k :: ks) =
      match implStep root t k with
      | none => none
      | some (r, t') => implGindex r t' ks := by
  cases hn : navigateType t k with
  | none => simp [implGindex, implStep, buildPath, hn]
  | some t' =>
    cases hg : keyToStaticGindex t k with
    | none =>
      cases hb : buildPath t' ks <;> simp [implGindex, implStep, buildPath, stepGindices, hn, hg, hb]
    | some g =>
      cases hb : buildPath t' ks with
      | none => simp [implGindex, implStep, buildPath, hn, hg, hb]
      | some rest =>
        cases hs : stepGindices t' rest <;>
          simp [implGindex, implStep, buildPath, stepGindices, hn, hg, hb, hs]

/-- generalisation of the main theorem to any running root and optional anchor type -/
theorem implGindex_eq_spec (keys : List Key) :
    ∀ (root : Nat) (ot : Option Ty), (∀ t, ot = some t → t.wf = true) →
      implGindex root ot keys = Spec.gindex root ot keys := by
  induction keys with
  | nil => intro root ot _; rw [implGindex_nil]; cases ot <;> rfl
  | cons k ks ih =>
    intro root ot hwf
    cases ot with
    | none => rw [implGindex_none_cons]; rfl
    | some t =>
      have hwt : t.wf = true := hwf t rfl
      rw [implGindex_cons, Spec.gindex, ← implStep_eq_spec root t k hwt]
      cases hs : implStep root t k with
      | none => rfl
      | some rt =>
        obtain ⟨r, t'⟩ := rt
        simp only
        apply ih
        intro t'' ht''
        subst ht''
        apply navigateType_wf t k t'' hwt
        unfold implStep at hs
        cases hn : navigateType t k with
        | none => simp [hn] at hs
        | some x =>
          cases hg : keyToStaticGindex t k with
          | none => simp [hn, hg] at hs
          | some g => simp [hn, hg] at hs; rw [hs.2]

/-- MAIN THEOREM (C08): the static gindex computed by the library for a typed path equals the
    SSZ-spec generalized index, and both reject exactly the same key sequences. -/
theorem pathGindex_eq_spec (t : Ty) (keys : List Key) (hwf : t.wf = true) :
    Impl.pathGindex t keys = Spec.gindex 1 (some t) keys := by
  rw [pathGindex_eq_implGindex]
  exact implGindex_eq_spec keys 1 (some t) (by intro t' h; cases h; exact hwf)

/-! ### concatenating paths -/

/-- the type at the end of a typed path starting at `ot` -/
def pathEnd : Option Ty → List (Key × Option Ty) → Option Ty
  | ot, [] => ot
  | _, (_, t') :: rest => pathEnd t' rest

theorem buildPath_append (ks1 ks2 : List Key) :
    ∀ (ot : Option Ty) (p1 : List (Key × Option Ty)), buildPath ot ks1 = some p1 →
      buildPath ot (ks1 ++ ks2) = (buildPath (pathEnd ot p1) ks2).map (p1 ++ ·) := by
  induction ks1 with
  | nil =>
    intro ot p1 h
    cases ot <;> simp [buildPath] at h <;> subst h <;> simp [pathEnd]
  | cons k ks ih =>
    intro ot p1 h
    cases ot with
    | none => simp [buildPath] at h
    | some t =>
      simp only [List.cons_append, buildPath] at h ⊢
      cases hn : navigateType t k with
      | none => simp [hn] at h
      | some t1 =>
        simp only [hn] at h ⊢
        cases hb : buildPath t1 ks with
        | none => simp [hb] at h
        | some rest =>
          simp [hb] at h
          subst h
          rw [ih t1 rest hb]
          simp only [pathEnd]
          cases buildPath (pathEnd t1 rest) ks2 <;> simp

theorem stepGindices_append (p1 p2 : List (Key × Option Ty)) :
    ∀ (ot : Option Ty), stepGindices ot (p1 ++ p2) =
      (stepGindices ot p1).bind fun a => (stepGindices (pathEnd ot p1) p2).map (a ++ ·) := by
  induction p1 with
  | nil =>
    intro ot
    have : stepGindices ot [] = some [] := by cases ot <;> rfl
    simp [this, pathEnd]
  | cons kt rest ih =>
    intro ot
    obtain ⟨k, t1⟩ := kt
    cases ot with
    | none => simp [stepGindices]
    | some t =>
      simp only [List.cons_append, stepGindices, pathEnd, ih t1]
      cases keyToStaticGindex t k with
      | none => simp
      | some g =>
        cases stepGindices t1 rest with
        | none => simp
        | some gs =>
          cases stepGindices (pathEnd t1 rest) p2 <;> simp

theorem keyToStaticGindex_ne_zero (t : Ty) (k : Key) (g : Nat)
    (h : keyToStaticGindex t k = some g) : g ≠ 0 := by
  cases t <;> cases k <;> simp only [keyToStaticGindex] at h <;>
    first
    | (simp at h; done)
    | (simp at h; omega)
    | (split at h
       · simp at h
       · first
         | exact toGindex_ne_zero h
         | (simp at h; omega))

theorem stepGindices_ne_zero (p : List (Key × Option Ty)) :
    ∀ (ot : Option Ty) (gs : List Nat), stepGindices ot p = some gs → ∀ g ∈ gs, g ≠ 0 := by
  induction p with
  | nil =>
    intro ot gs h
    cases ot <;> simp [stepGindices] at h <;> subst h <;> simp
  | cons kt rest ih =>
    intro ot gs h
    obtain ⟨k, t1⟩ := kt
    cases ot with
    | none => simp [stepGindices] at h
    | some t =>
      simp only [stepGindices] at h
      cases hg : keyToStaticGindex t k with
      | none => simp [hg] at h
      | some g0 =>
        cases hs : stepGindices t1 rest with
        | none => simp [hg, hs] at h
        | some gs' =>
          simp [hg, hs] at h
          subst h
          intro g hmem
          simp at hmem
          rcases hmem with rfl | hmem
          · exact keyToStaticGindex_ne_zero t k g hg
          · exact ih t1 gs' hs g hmem

/-- concatenating paths concatenates their gindices: for `ks1` a valid path from `t` ending in
    type `t'`, `(t / ks1 / ks2).gindex() = concat_gindices([(t / ks1).gindex(), (t' / ks2).gindex()])`
    (and the left side is rejected exactly when one of the right-hand parts is). -/
theorem pathGindex_append (t t' : Ty) (ks1 ks2 : List Key) (p1 : List (Key × Option Ty))
    (hp : Impl.buildPath (some t) ks1 = some p1) (hend : pathEnd (some t) p1 = some t') :
    Impl.pathGindex t (ks1 ++ ks2) =
      (do let a ← Impl.pathGindex t ks1
          let b ← Impl.pathGindex t' ks2
          pure (concatGindices [a, b])) := by
  unfold pathGindex
  rw [buildPath_append ks1 ks2 (some t) p1 hp, hp, hend]
  cases hb2 : buildPath (some t') ks2 with
  | none => cases (stepGindices (some t) p1) <;> simp
  | some p2 =>
    simp only [Option.map_some, stepGindices_append, hend]
    cases hs1 : stepGindices (some t) p1 with
    | none => simp
    | some gs1 =>
      cases hs2 : stepGindices (some t') p2 with
      | none => simp
      | some gs2 =>
        have h2 := stepGindices_ne_zero p2 (some t') gs2 hs2
        simp [concatGindices_assoc gs1 gs2 h2]

/-! Non-vacuity: a concrete well-formed type with a valid and an invalid path. -/

private def tEx : Ty := .container [.uint 8, .list (.uint 2) 100]

example : tEx.wf = true := by decide
example : Impl.pathGindex tEx [.idx 1, .idx 37] = some 50 ∧
    Spec.gindex 1 (some tEx) [.idx 1, .idx 37] = some 50 := by decide
example : Impl.pathGindex tEx [.idx 1, .idx 100] = none ∧
    Impl.pathGindex tEx [.idx 1, .len] = some 7 := by decide
example : Impl.buildPath (some tEx) [.idx 1] = some [(.idx 1, some (.list (.uint 2) 100))] := rfl

end Rmk
