/-
Prefixes of typed paths: the generalized index of a PREFIX of a path is an ancestor of the
generalized index of the whole path; sibling keys after a common prefix address different nodes
exactly when they address different chunks.
-/
import Rmk.Proofs.PathGindex
namespace Rmk.PathPrefix
open Rmk Rmk.Impl

/-! ### a walk that returns the running gindex AND the type reached -/

/-- the library's path computation, one key at a time, from a running gindex and an optional anchor
    type; returns the final gindex together with the type at the end of the path -/
def walk : Nat → Option Ty → List Key → Option (Nat × Option Ty)
  | root, ot, [] => some (root, ot)
  | _, none, _ :: _ => none
  | root, some t, k :: ks =>
    match implStep root t k with
    | none => none
    | some (r, t') => walk r t' ks

/-- the type at the end of a key path (`navigate_type` iterated); `none` = a key is rejected,
    `some none` = the path ends in the `None` option of a union -/
def typeAt : Option Ty → List Key → Option (Option Ty)
  | ot, [] => some ot
  | none, _ :: _ => none
  | some t, k :: ks =>
    match navigateType t k with
    | none => none
    | some t' => typeAt t' ks

theorem walk_nil (root : Nat) (ot : Option Ty) : walk root ot [] = some (root, ot) := by
  cases ot <;> rfl

theorem implGindex_eq_walk (keys : List Key) :
    ∀ (root : Nat) (ot : Option Ty), implGindex root ot keys = (walk root ot keys).map (·.1) := by
  induction keys with
  | nil => intro root ot; rw [implGindex_nil, walk_nil]; rfl
  | cons k ks ih =>
    intro root ot
    cases ot with
    | none => rw [implGindex_none_cons]; rfl
    | some t =>
      rw [implGindex_cons, walk]
      cases implStep root t k with
      | none => rfl
      | some rt => obtain ⟨r, t'⟩ := rt; exact ih r t'

theorem pathGindex_eq_walk (t : Ty) (keys : List Key) :
    pathGindex t keys = (walk 1 (some t) keys).map (·.1) := by
  rw [pathGindex_eq_implGindex, implGindex_eq_walk]

theorem walk_append (ks1 ks2 : List Key) :
    ∀ (root : Nat) (ot : Option Ty),
      walk root ot (ks1 ++ ks2) = (walk root ot ks1).bind (fun p => walk p.1 p.2 ks2) := by
  induction ks1 with
  | nil => intro root ot; rw [walk_nil]; rfl
  | cons k ks ih =>
    intro root ot
    cases ot with
    | none => rfl
    | some t =>
      simp only [List.cons_append, walk]
      cases implStep root t k with
      | none => rfl
      | some rt => obtain ⟨r, t'⟩ := rt; exact ih r t'

theorem implStep_some {root : Nat} {t : Ty} {k : Key} {r : Nat} {t' : Option Ty}
    (h : implStep root t k = some (r, t')) :
    ∃ s, keyToStaticGindex t k = some s ∧ navigateType t k = some t' ∧ r = concatStep root s := by
  unfold implStep at h
  cases hn : navigateType t k with
  | none => simp [hn] at h
  | some x =>
    cases hg : keyToStaticGindex t k with
    | none => simp [hn, hg] at h
    | some s =>
      simp [hn, hg] at h
      exact ⟨s, rfl, by rw [h.2], h.1.symm⟩

theorem walk_typeAt (keys : List Key) :
    ∀ (root : Nat) (ot : Option Ty) (g : Nat) (ot' : Option Ty),
      walk root ot keys = some (g, ot') → typeAt ot keys = some ot' := by
  induction keys with
  | nil =>
    intro root ot g ot' h
    rw [walk_nil] at h
    simp at h
    cases ot <;> simp [typeAt, h.2]
  | cons k ks ih =>
    intro root ot g ot' h
    cases ot with
    | none => simp [walk] at h
    | some t =>
      simp only [walk] at h
      cases hs : implStep root t k with
      | none => simp [hs] at h
      | some rt =>
        obtain ⟨r, t'⟩ := rt
        simp only [hs] at h
        obtain ⟨s, _, hn, _⟩ := implStep_some hs
        simp only [typeAt, hn]
        exact ih r t' g ot' h

theorem walk_gbits (keys : List Key) :
    ∀ (root : Nat) (ot : Option Ty) (g : Nat) (ot' : Option Ty), root ≠ 0 →
      walk root ot keys = some (g, ot') → g ≠ 0 ∧ ∃ r, gbits g = gbits root ++ r := by
  induction keys with
  | nil =>
    intro root ot g ot' hr h
    rw [walk_nil] at h
    simp at h
    rw [← h.1]
    exact ⟨hr, [], by simp⟩
  | cons k ks ih =>
    intro root ot g ot' hr h
    cases ot with
    | none => simp [walk] at h
    | some t =>
      simp only [walk] at h
      cases hs : implStep root t k with
      | none => simp [hs] at h
      | some rt =>
        obtain ⟨r, t'⟩ := rt
        simp only [hs] at h
        obtain ⟨s, hk, _, hrs⟩ := implStep_some hs
        have hs0 : s ≠ 0 := keyToStaticGindex_ne_zero t k s hk
        have hr0 : r ≠ 0 := by rw [hrs]; exact concatStep_ne_zero hr
        obtain ⟨hg, rest, hrest⟩ := ih r t' g ot' hr0 h
        refine ⟨hg, gbits s ++ rest, ?_⟩
        rw [hrest, hrs, gbits_concatStep hr hs0, List.append_assoc]

/-- a valid path splits at every position: the prefix is valid, and the whole path is the walk of
    the rest from the gindex and type reached by the prefix -/
theorem walk_split {t : Ty} {keys : List Key} {g : Nat} (h : pathGindex t keys = some g) (k : Nat) :
    ∃ g' ot' ot'', walk 1 (some t) (keys.take k) = some (g', ot') ∧
      walk g' ot' (keys.drop k) = some (g, ot'') := by
  rw [pathGindex_eq_walk, ← List.take_append_drop k keys, walk_append] at h
  cases hw : walk 1 (some t) (keys.take k) with
  | none => simp [hw] at h
  | some p =>
    obtain ⟨g', ot'⟩ := p
    simp only [hw, Option.bind_some] at h
    cases hw2 : walk g' ot' (keys.drop k) with
    | none => simp [hw2] at h
    | some q =>
      obtain ⟨g2, ot''⟩ := q
      simp [hw2] at h
      subst h
      exact ⟨g', ot', ot'', rfl, hw2⟩

theorem pathGindex_ne_zero {t : Ty} {keys : List Key} {g : Nat} (h : pathGindex t keys = some g) :
    g ≠ 0 := by
  rw [pathGindex_eq_walk] at h
  cases hw : walk 1 (some t) keys with
  | none => simp [hw] at h
  | some p =>
    obtain ⟨g1, ot⟩ := p
    simp [hw] at h
    subst h
    exact (walk_gbits keys 1 (some t) g1 ot (by omega) hw).1

/-! ### 1. every prefix of a valid path is a valid path -/

theorem pathGindex_take {t : Ty} {keys : List Key} {g : Nat} (h : Impl.pathGindex t keys = some g) :
    ∀ k, ∃ g', Impl.pathGindex t (keys.take k) = some g' := by
  intro k
  obtain ⟨g', ot', _, hw, _⟩ := walk_split h k
  exact ⟨g', by rw [pathGindex_eq_walk, hw]; rfl⟩

/-! ### 2. the prefix addresses an ancestor -/

/-- the node addressed by a prefix of a path lies on the way to the node addressed by the path -/
theorem prefix_is_ancestor {t : Ty} {keys : List Key} {g g' : Nat} {k : Nat}
    (h : Impl.pathGindex t keys = some g) (h' : Impl.pathGindex t (keys.take k) = some g') :
    gbits g' <+: gbits g := by
  obtain ⟨g1, ot', ot'', hw, hw2⟩ := walk_split h k
  have hg1 : g1 = g' := by
    rw [pathGindex_eq_walk, hw] at h'
    simpa using h'
  subst hg1
  obtain ⟨_, r, hr⟩ := walk_gbits _ g1 ot' g ot'' (pathGindex_ne_zero h') hw2
  exact ⟨r, hr.symm⟩

/-- the same, spelled out -/
theorem prefix_is_ancestor' {t : Ty} {keys : List Key} {g g' : Nat} {k : Nat}
    (h : Impl.pathGindex t keys = some g) (h' : Impl.pathGindex t (keys.take k) = some g') :
    ∃ r, gbits g = gbits g' ++ r := by
  obtain ⟨r, hr⟩ := prefix_is_ancestor h h'
  exact ⟨r, hr.symm⟩

/-! ### 3. navigating to the whole path = navigating to the prefix, then on -/

/-- for EVERY remainder `r` with `gbits g = gbits g' ++ r` -/
theorem prefix_getter {t : Ty} {keys : List Key} {g g' : Nat} {k : Nat}
    (h : Impl.pathGindex t keys = some g) (h' : Impl.pathGindex t (keys.take k) = some g')
    (r : List Bool) (hr : gbits g = gbits g' ++ r) (n : Node) :
    getter n g = (getter n g').bind (fun m => getPath m r) := by
  simp only [getter, pathGindex_ne_zero h, pathGindex_ne_zero h', if_false, hr, getPath_append]

/-- …and such a remainder exists -/
theorem prefix_getter_exists {t : Ty} {keys : List Key} {g g' : Nat} {k : Nat}
    (h : Impl.pathGindex t keys = some g) (h' : Impl.pathGindex t (keys.take k) = some g') :
    ∃ r, gbits g = gbits g' ++ r ∧
      ∀ n : Node, getter n g = (getter n g').bind (fun m => getPath m r) := by
  obtain ⟨r, hr⟩ := prefix_is_ancestor' h h'
  exact ⟨r, hr, prefix_getter h h' r hr⟩

/-! ### 4. sibling keys after a common prefix -/

/-- number of element positions that share one chunk (one bottom node) of a type's tree -/
def perChunk : Ty → Nat
  | .list et _ => if et.isBasic then 32 / et.basicSize else 1
  | .vector et _ => if et.isBasic then 32 / et.basicSize else 1
  | .bitlist _ => 256
  | .bitvector _ => 256
  | .bytelist _ => 32
  | .bytevector _ => 32
  | _ => 1

/-- do two keys of type `t` address the same node of the tree of `t`?  Two element indices do when
    they fall into the same chunk; ALL option indices of a union address the one value node (gindex
    2: only one option is alive at a time); `len` / `sel` address the mix-in node. -/
def sameNode (t : Ty) : Key → Key → Bool
  | .idx i, .idx j =>
    match t with
    | .union _ _ => true
    | _ => i / perChunk t == j / perChunk t
  | .len, .len => true
  | .sel, .sel => true
  | _, _ => false

theorem toGindex_eq_iff {p q d x y : Nat} (hx : toGindex p d = some x) (hy : toGindex q d = some y) :
    x = y ↔ p = q := by
  unfold toGindex at hx hy
  split at hx
  · simp at hx
  · split at hy
    · simp at hy
    · simp at hx hy; omega

theorem toGindex_ne_three {p D s : Nat} (hp : p < 2 ^ D) (hs : toGindex p (D + 1) = some s) :
    s ≠ 3 := by
  unfold toGindex at hs
  split at hs
  · simp at hs
  · simp at hs
    cases D with
    | zero => simp at hp; omega
    | succ D =>
      have := Nat.two_pow_pos D
      rw [Nat.pow_succ, Nat.pow_succ] at hs
      omega

theorem seqPos_eq (et : Ty) (i : Nat) :
    (if et.isBasic then i / (32 / et.basicSize) else i)
      = i / (if et.isBasic then 32 / et.basicSize else 1) := by
  split <;> simp

theorem seqPos_lt (et : Ty) (i n : Nat) (hi : i < n) :
    (if et.isBasic then i / (32 / et.basicSize) else i) < 2 ^ getDepth (chunkLen et n) := by
  by_cases hb : et.isBasic = true
  · simp only [hb, if_true]
    by_cases hper : 32 / et.basicSize = 0
    · rw [hper, Nat.div_zero]; exact Nat.two_pow_pos _
    · refine Nat.lt_of_lt_of_le ?_ (le_two_pow_getDepth _)
      unfold chunkLen
      simp only [hb, if_true]
      generalize 32 / et.basicSize = per at hper
      have hpos : 0 < per := by omega
      rw [Nat.div_lt_iff_lt_mul hpos]
      have h1 := Nat.div_add_mod (n + per - 1) per
      have h2 := Nat.mod_lt (n + per - 1) hpos
      rw [Nat.mul_comm] at h1
      generalize (n + per - 1) / per * per = X at h1 ⊢
      omega
  · refine Nat.lt_of_lt_of_le ?_ (le_two_pow_getDepth _)
    simp [chunkLen, hb, hi]

theorem static_list (et : Ty) (lim : Nat) (a b : Key) (sa sb : Nat)
    (ha : keyToStaticGindex (.list et lim) a = some sa)
    (hb : keyToStaticGindex (.list et lim) b = some sb) :
    sa = sb ↔ sameNode (.list et lim) a b = true := by
  have htd : treeDepth (.list et lim) = getDepth (chunkLen et lim) + 1 := by
    simp [treeDepth, contentsDepth, hasMixIn]
  cases a with
  | idx i =>
    simp only [keyToStaticGindex] at ha
    split at ha
    · simp at ha
    · rename_i hi
      cases b with
      | idx j =>
        simp only [keyToStaticGindex] at hb
        split at hb
        · simp at hb
        · rw [toGindex_eq_iff ha hb, seqPos_eq, seqPos_eq]
          simp [sameNode, perChunk]
      | len =>
        simp [keyToStaticGindex] at hb
        subst hb
        rw [htd] at ha
        have := toGindex_ne_three (seqPos_lt et i lim (by omega)) ha
        simp [sameNode, this]
      | sel => simp [keyToStaticGindex] at hb
  | len =>
    simp [keyToStaticGindex] at ha
    subst ha
    cases b with
    | idx j =>
      simp only [keyToStaticGindex] at hb
      split at hb
      · simp at hb
      · rw [htd] at hb
        have := toGindex_ne_three (seqPos_lt et j lim (by omega)) hb
        simp [sameNode]
        omega
    | len => simp [keyToStaticGindex] at hb; subst hb; simp [sameNode]
    | sel => simp [keyToStaticGindex] at hb
  | sel => simp [keyToStaticGindex] at ha

theorem static_vector (et : Ty) (n : Nat) (a b : Key) (sa sb : Nat)
    (ha : keyToStaticGindex (.vector et n) a = some sa)
    (hb : keyToStaticGindex (.vector et n) b = some sb) :
    sa = sb ↔ sameNode (.vector et n) a b = true := by
  cases a with
  | idx i =>
    simp only [keyToStaticGindex] at ha
    split at ha
    · simp at ha
    · cases b with
      | idx j =>
        simp only [keyToStaticGindex] at hb
        split at hb
        · simp at hb
        · rw [toGindex_eq_iff ha hb, seqPos_eq, seqPos_eq]
          simp [sameNode, perChunk]
      | len => simp [keyToStaticGindex] at hb
      | sel => simp [keyToStaticGindex] at hb
  | len => simp [keyToStaticGindex] at ha
  | sel => simp [keyToStaticGindex] at ha

theorem static_container (fs : List Ty) (a b : Key) (sa sb : Nat)
    (ha : keyToStaticGindex (.container fs) a = some sa)
    (hb : keyToStaticGindex (.container fs) b = some sb) :
    sa = sb ↔ sameNode (.container fs) a b = true := by
  cases a with
  | idx i =>
    simp only [keyToStaticGindex] at ha
    split at ha
    · simp at ha
    · cases b with
      | idx j =>
        simp only [keyToStaticGindex] at hb
        split at hb
        · simp at hb
        · rw [toGindex_eq_iff ha hb]
          simp [sameNode, perChunk]
      | len => simp [keyToStaticGindex] at hb
      | sel => simp [keyToStaticGindex] at hb
  | len => simp [keyToStaticGindex] at ha
  | sel => simp [keyToStaticGindex] at ha

theorem static_bitvector (n : Nat) (a b : Key) (sa sb : Nat)
    (ha : keyToStaticGindex (.bitvector n) a = some sa)
    (hb : keyToStaticGindex (.bitvector n) b = some sb) :
    sa = sb ↔ sameNode (.bitvector n) a b = true := by
  cases a with
  | idx i =>
    simp only [keyToStaticGindex] at ha
    split at ha
    · simp at ha
    · cases b with
      | idx j =>
        simp only [keyToStaticGindex] at hb
        split at hb
        · simp at hb
        · rw [toGindex_eq_iff ha hb]
          simp [sameNode, perChunk]
      | len => simp [keyToStaticGindex] at hb
      | sel => simp [keyToStaticGindex] at hb
  | len => simp [keyToStaticGindex] at ha
  | sel => simp [keyToStaticGindex] at ha

theorem static_bytevector (n : Nat) (a b : Key) (sa sb : Nat)
    (ha : keyToStaticGindex (.bytevector n) a = some sa)
    (hb : keyToStaticGindex (.bytevector n) b = some sb) :
    sa = sb ↔ sameNode (.bytevector n) a b = true := by
  cases a with
  | idx i =>
    simp only [keyToStaticGindex] at ha
    split at ha
    · simp at ha
    · cases b with
      | idx j =>
        simp only [keyToStaticGindex] at hb
        split at hb
        · simp at hb
        · rw [toGindex_eq_iff ha hb]
          simp [sameNode, perChunk]
      | len => simp [keyToStaticGindex] at hb
      | sel => simp [keyToStaticGindex] at hb
  | len => simp [keyToStaticGindex] at ha
  | sel => simp [keyToStaticGindex] at ha

theorem static_bitlist (lim : Nat) (a b : Key) (sa sb : Nat)
    (ha : keyToStaticGindex (.bitlist lim) a = some sa)
    (hb : keyToStaticGindex (.bitlist lim) b = some sb) :
    sa = sb ↔ sameNode (.bitlist lim) a b = true := by
  have htd : treeDepth (.bitlist lim) = getDepth ((lim + 255) / 256) + 1 := by
    simp [treeDepth, contentsDepth, hasMixIn]
  have hlt : ∀ i, i < lim → i / 256 < 2 ^ getDepth ((lim + 255) / 256) := fun i hi =>
    Nat.lt_of_lt_of_le (by omega) (le_two_pow_getDepth _)
  cases a with
  | idx i =>
    simp only [keyToStaticGindex] at ha
    split at ha
    · simp at ha
    · cases b with
      | idx j =>
        simp only [keyToStaticGindex] at hb
        split at hb
        · simp at hb
        · rw [toGindex_eq_iff ha hb]
          simp [sameNode, perChunk]
      | len =>
        simp [keyToStaticGindex] at hb
        subst hb
        rw [htd] at ha
        have := toGindex_ne_three (hlt i (by omega)) ha
        simp [sameNode, this]
      | sel => simp [keyToStaticGindex] at hb
  | len =>
    simp [keyToStaticGindex] at ha
    subst ha
    cases b with
    | idx j =>
      simp only [keyToStaticGindex] at hb
      split at hb
      · simp at hb
      · rw [htd] at hb
        have := toGindex_ne_three (hlt j (by omega)) hb
        simp [sameNode]
        omega
    | len => simp [keyToStaticGindex] at hb; subst hb; simp [sameNode]
    | sel => simp [keyToStaticGindex] at hb
  | sel => simp [keyToStaticGindex] at ha

/-- (`bytelist` has a `len` key, exactly like `bitlist`: the length mix-in leaf, local gindex 3) -/
theorem static_bytelist (lim : Nat) (a b : Key) (sa sb : Nat)
    (ha : keyToStaticGindex (.bytelist lim) a = some sa)
    (hb : keyToStaticGindex (.bytelist lim) b = some sb) :
    sa = sb ↔ sameNode (.bytelist lim) a b = true := by
  have htd : treeDepth (.bytelist lim) = getDepth ((lim + 31) / 32) + 1 := by
    simp [treeDepth, contentsDepth, hasMixIn]
  have hlt : ∀ i, i < lim → i / 32 < 2 ^ getDepth ((lim + 31) / 32) := fun i hi =>
    Nat.lt_of_lt_of_le (by omega) (le_two_pow_getDepth _)
  cases a with
  | idx i =>
    simp only [keyToStaticGindex] at ha
    split at ha
    · simp at ha
    · cases b with
      | idx j =>
        simp only [keyToStaticGindex] at hb
        split at hb
        · simp at hb
        · rw [toGindex_eq_iff ha hb]
          simp [sameNode, perChunk]
      | len =>
        simp [keyToStaticGindex] at hb
        subst hb
        rw [htd] at ha
        have := toGindex_ne_three (hlt i (by omega)) ha
        simp [sameNode, this]
      | sel => simp [keyToStaticGindex] at hb
  | len =>
    simp [keyToStaticGindex] at ha
    subst ha
    cases b with
    | idx j =>
      simp only [keyToStaticGindex] at hb
      split at hb
      · simp at hb
      · rw [htd] at hb
        have := toGindex_ne_three (hlt j (by omega)) hb
        simp [sameNode]
        omega
    | len => simp [keyToStaticGindex] at hb; subst hb; simp [sameNode]
    | sel => simp [keyToStaticGindex] at hb
  | sel => simp [keyToStaticGindex] at ha

theorem static_union (hasNone : Bool) (opts : List Ty) (a b : Key) (sa sb : Nat)
    (ha : keyToStaticGindex (.union hasNone opts) a = some sa)
    (hb : keyToStaticGindex (.union hasNone opts) b = some sb) :
    sa = sb ↔ sameNode (.union hasNone opts) a b = true := by
  cases a with
  | idx i =>
    simp only [keyToStaticGindex] at ha
    split at ha
    · simp at ha
    · simp at ha
      subst ha
      cases b with
      | idx j =>
        simp only [keyToStaticGindex] at hb
        split at hb
        · simp at hb
        · simp at hb; subst hb; simp [sameNode]
      | len => simp [keyToStaticGindex] at hb
      | sel => simp [keyToStaticGindex] at hb; subst hb; simp [sameNode]
  | len => simp [keyToStaticGindex] at ha
  | sel =>
    simp [keyToStaticGindex] at ha
    subst ha
    cases b with
    | idx j =>
      simp only [keyToStaticGindex] at hb
      split at hb
      · simp at hb
      · simp at hb; subst hb; simp [sameNode]
    | len => simp [keyToStaticGindex] at hb
    | sel => simp [keyToStaticGindex] at hb; subst hb; simp [sameNode]

/-- ONE STEP: two valid keys of a type get the same local gindex iff they address the same node -/
theorem static_eq_iff (t : Ty) (a b : Key) (sa sb : Nat)
    (ha : keyToStaticGindex t a = some sa) (hb : keyToStaticGindex t b = some sb) :
    sa = sb ↔ sameNode t a b = true := by
  cases t with
  | uint nb => cases a <;> simp [keyToStaticGindex] at ha
  | bool => cases a <;> simp [keyToStaticGindex] at ha
  | bitvector n => exact static_bitvector n a b sa sb ha hb
  | bitlist lim => exact static_bitlist lim a b sa sb ha hb
  | bytevector n => exact static_bytevector n a b sa sb ha hb
  | bytelist lim => exact static_bytelist lim a b sa sb ha hb
  | vector et n => exact static_vector et n a b sa sb ha hb
  | list et lim => exact static_list et lim a b sa sb ha hb
  | container fs => exact static_container fs a b sa sb ha hb
  | union hasNone opts => exact static_union hasNone opts a b sa sb ha hb

/-- a valid path `ks ++ [a]`: the prefix is valid and ends in a type `t'`, the key `a` has a local
    gindex `sa` in `t'`, and the gindex of the path is the concatenation -/
theorem step_split {t : Ty} {ks : List Key} {a : Key} {ga : Nat}
    (h : pathGindex t (ks ++ [a]) = some ga) :
    ∃ r t' sa, walk 1 (some t) ks = some (r, some t') ∧ keyToStaticGindex t' a = some sa ∧
      ga = concatStep r sa ∧ r ≠ 0 ∧ sa ≠ 0 := by
  rw [pathGindex_eq_walk, walk_append] at h
  cases hw : walk 1 (some t) ks with
  | none => simp [hw] at h
  | some p =>
    obtain ⟨r, ot'⟩ := p
    simp only [hw, Option.bind_some] at h
    have hr : r ≠ 0 := (walk_gbits ks 1 (some t) r ot' (by omega) hw).1
    cases ot' with
    | none => simp [walk] at h
    | some t' =>
      simp only [walk] at h
      cases hs : implStep r t' a with
      | none => simp [hs] at h
      | some q =>
        obtain ⟨r2, t2⟩ := q
        simp [hs] at h
        subst h
        obtain ⟨sa, hk, _, hrs⟩ := implStep_some hs
        exact ⟨r, t', sa, rfl, hk, hrs, hr, keyToStaticGindex_ne_zero t' a sa hk⟩

/-- a path with one more key is valid only if its prefix ends in a proper type -/
theorem typeAt_of_valid {t : Ty} {ks : List Key} {a : Key} {ga : Nat}
    (h : Impl.pathGindex t (ks ++ [a]) = some ga) : ∃ t', typeAt (some t) ks = some (some t') := by
  obtain ⟨r, t', _, hw, _⟩ := step_split h
  exact ⟨t', walk_typeAt ks 1 (some t) r (some t') hw⟩

/-- SIBLINGS: two keys valid after the same prefix (which ends in type `t'`) get the same
    generalized index EXACTLY when they address the same node of `t'` -/
theorem prefix_step_eq_iff {t t' : Ty} {ks : List Key} {a b : Key} {ga gb : Nat}
    (hend : typeAt (some t) ks = some (some t'))
    (ha : Impl.pathGindex t (ks ++ [a]) = some ga) (hb : Impl.pathGindex t (ks ++ [b]) = some gb) :
    ga = gb ↔ sameNode t' a b = true := by
  obtain ⟨r, t1, sa, hw1, hka, hga, hr, hsa⟩ := step_split ha
  obtain ⟨r2, t2, sb, hw2, hkb, hgb, _, hsb⟩ := step_split hb
  rw [hw1] at hw2
  simp at hw2
  obtain ⟨rfl, rfl⟩ := hw2
  have ht := walk_typeAt ks 1 (some t) r (some t1) hw1
  rw [hend] at ht
  simp at ht
  subst ht
  rw [← static_eq_iff t' a b sa sb hka hkb, hga, hgb]
  constructor
  · intro h
    have hbits : gbits (concatStep r sa) = gbits (concatStep r sb) := by rw [h]
    rw [gbits_concatStep hr hsa, gbits_concatStep hr hsb] at hbits
    exact gbits_inj hsa hsb (List.append_cancel_left hbits)
  · intro h; rw [h]

/-- keys that address different nodes of the type at the end of the prefix get different
    generalized indices -/
theorem prefix_injective_step {t t' : Ty} {ks : List Key} {a b : Key} {ga gb : Nat}
    (hend : typeAt (some t) ks = some (some t'))
    (ha : Impl.pathGindex t (ks ++ [a]) = some ga) (hb : Impl.pathGindex t (ks ++ [b]) = some gb)
    (hd : sameNode t' a b = false) : ga ≠ gb := by
  intro h
  rw [prefix_step_eq_iff hend ha hb, hd] at h
  cases h

/-! when do two keys address different nodes -/

theorem sameNode_container (fs : List Ty) {a b : Key} (hne : a ≠ b) :
    sameNode (.container fs) a b = false := by
  cases a <;> cases b <;> simp [sameNode, perChunk] at hne ⊢
  exact hne

theorem sameNode_list_nonpacked (et : Ty) (lim : Nat) (hb : et.isBasic = false) {a b : Key}
    (hne : a ≠ b) : sameNode (.list et lim) a b = false := by
  cases a <;> cases b <;> simp [sameNode, perChunk, hb] at hne ⊢
  exact hne

theorem sameNode_vector_nonpacked (et : Ty) (n : Nat) (hb : et.isBasic = false) {a b : Key}
    (hne : a ≠ b) : sameNode (.vector et n) a b = false := by
  cases a <;> cases b <;> simp [sameNode, perChunk, hb] at hne ⊢
  exact hne

/-- packed positions (and every non-union type): different chunk numbers -/
theorem sameNode_idx (t : Ty) (hu : ∀ hn opts, t ≠ .union hn opts) {i j : Nat}
    (hne : i / perChunk t ≠ j / perChunk t) : sameNode t (.idx i) (.idx j) = false := by
  cases t <;> simp [sameNode, hne]
  exact hu _ _ rfl

/-- an element / option index never collides with the length / selector key -/
theorem sameNode_idx_len (t : Ty) (i : Nat) : sameNode t (.idx i) .len = false := rfl
theorem sameNode_idx_sel (t : Ty) (i : Nat) : sameNode t (.idx i) .sel = false := rfl

/-- EXCEPTION: all option indices of a union address the same (value) node -/
theorem sameNode_union_idx (hn : Bool) (opts : List Ty) (i j : Nat) :
    sameNode (.union hn opts) (.idx i) (.idx j) = true := rfl

/-- different fields of a container -/
theorem prefix_injective_container {t : Ty} {fs : List Ty} {ks : List Key} {a b : Key} {ga gb : Nat}
    (hend : typeAt (some t) ks = some (some (.container fs))) (hne : a ≠ b)
    (ha : Impl.pathGindex t (ks ++ [a]) = some ga) (hb : Impl.pathGindex t (ks ++ [b]) = some gb) :
    ga ≠ gb :=
  prefix_injective_step hend ha hb (sameNode_container fs hne)

/-- different keys (element indices, or an index and `len`) of a list of composite elements -/
theorem prefix_injective_list {t et : Ty} {lim : Nat} {ks : List Key} {a b : Key} {ga gb : Nat}
    (hend : typeAt (some t) ks = some (some (.list et lim))) (hnb : et.isBasic = false) (hne : a ≠ b)
    (ha : Impl.pathGindex t (ks ++ [a]) = some ga) (hb : Impl.pathGindex t (ks ++ [b]) = some gb) :
    ga ≠ gb :=
  prefix_injective_step hend ha hb (sameNode_list_nonpacked et lim hnb hne)

/-- different element indices of a vector of composite elements -/
theorem prefix_injective_vector {t et : Ty} {n : Nat} {ks : List Key} {a b : Key} {ga gb : Nat}
    (hend : typeAt (some t) ks = some (some (.vector et n))) (hnb : et.isBasic = false) (hne : a ≠ b)
    (ha : Impl.pathGindex t (ks ++ [a]) = some ga) (hb : Impl.pathGindex t (ks ++ [b]) = some gb) :
    ga ≠ gb :=
  prefix_injective_step hend ha hb (sameNode_vector_nonpacked et n hnb hne)

/-- packed sequences (basic elements, bits, bytes): indices in different chunks -/
theorem prefix_injective_packed {t t' : Ty} {ks : List Key} {i j : Nat} {ga gb : Nat}
    (hend : typeAt (some t) ks = some (some t')) (hu : ∀ hn opts, t' ≠ .union hn opts)
    (hne : i / perChunk t' ≠ j / perChunk t')
    (ha : Impl.pathGindex t (ks ++ [.idx i]) = some ga)
    (hb : Impl.pathGindex t (ks ++ [.idx j]) = some gb) : ga ≠ gb :=
  prefix_injective_step hend ha hb (sameNode_idx t' hu hne)

/-- …and indices in the SAME chunk get the same generalized index -/
theorem prefix_same_chunk {t t' : Ty} {ks : List Key} {i j : Nat} {ga gb : Nat}
    (hend : typeAt (some t) ks = some (some t')) (heq : i / perChunk t' = j / perChunk t')
    (ha : Impl.pathGindex t (ks ++ [.idx i]) = some ga)
    (hb : Impl.pathGindex t (ks ++ [.idx j]) = some gb) : ga = gb := by
  rw [prefix_step_eq_iff hend ha hb]
  cases t' <;> simp [sameNode, heq]

/-- a union: the selector and the value are different nodes … -/
theorem prefix_injective_union_sel {t : Ty} {hn : Bool} {opts : List Ty} {ks : List Key} {i : Nat}
    {ga gb : Nat} (hend : typeAt (some t) ks = some (some (.union hn opts)))
    (ha : Impl.pathGindex t (ks ++ [.idx i]) = some ga)
    (hb : Impl.pathGindex t (ks ++ [.sel]) = some gb) : ga ≠ gb :=
  prefix_injective_step hend ha hb rfl

/-- … but two DIFFERENT option indices of a union address the SAME node (the value node, gindex 2):
    injectivity does not hold for union options. -/
theorem prefix_union_options_collide {t : Ty} {hn : Bool} {opts : List Ty} {ks : List Key}
    {i j : Nat} {ga gb : Nat} (hend : typeAt (some t) ks = some (some (.union hn opts)))
    (ha : Impl.pathGindex t (ks ++ [.idx i]) = some ga)
    (hb : Impl.pathGindex t (ks ++ [.idx j]) = some gb) : ga = gb :=
  (prefix_step_eq_iff hend ha hb).2 rfl

/-! ### 5. non-vacuity: a container with a list-of-containers field and a packed list -/

private def tEx : Ty :=
  .container [.uint 8, .list (.container [.uint 4, .uint 8, .bool]) 5, .list (.uint 2) 100,
    .union true [.uint 8]]

example : tEx.wf = true := by decide

/-- path `1 / 3 / 1` : field 1, element 3, field 1 -/
example : Impl.pathGindex tEx [.idx 1, .idx 3, .idx 1] = some 333 ∧
    Impl.pathGindex tEx ([Key.idx 1, .idx 3, .idx 1].take 2) = some 83 ∧
    Impl.pathGindex tEx ([Key.idx 1, .idx 3, .idx 1].take 1) = some 5 ∧
    gbits 5 <+: gbits 83 ∧ gbits 83 <+: gbits 333 ∧ gbits 333 = gbits 83 ++ [false, true] := by
  decide

/-- siblings: different fields / elements differ, packed elements of one chunk coincide, those of
    different chunks differ, union options coincide -/
example : typeAt (some tEx) [.idx 1] = some (some (.list (.container [.uint 4, .uint 8, .bool]) 5)) :=
  rfl
example :
    Impl.pathGindex tEx [.idx 1, .idx 3] = some 83 ∧ Impl.pathGindex tEx [.idx 1, .idx 4] = some 84 ∧
    Impl.pathGindex tEx [.idx 1, .len] = some 11 ∧
    Impl.pathGindex tEx [.idx 2, .idx 0] = some 96 ∧ Impl.pathGindex tEx [.idx 2, .idx 15] = some 96 ∧
    Impl.pathGindex tEx [.idx 2, .idx 16] = some 97 ∧
    Impl.pathGindex tEx [.idx 3, .idx 0] = some 14 ∧ Impl.pathGindex tEx [.idx 3, .idx 1] = some 14 ∧
    Impl.pathGindex tEx [.idx 3, .sel] = some 15 := by
  decide

end Rmk.PathPrefix
