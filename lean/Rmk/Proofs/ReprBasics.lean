/-
The refinement relation `Repr` (Rmk/Impl/Repr.lean): every constructor route and every default tree
lands in `Repr`; whatever tree shape represents a value has the spec root, is well typed, and reads
back (through the view API) exactly that value.  Generic in the pair hash `H`.
-/
import Rmk.Impl.Repr
import Rmk.Impl.View
import Rmk.Proofs.BytesLemmas
import Rmk.Proofs.Merkle
import Rmk.Proofs.PathGindex
import Rmk.Proofs.ChunkTree
import Rmk.Proofs.ConstructRoot
import Rmk.Proofs.DefaultNode
namespace Rmk.ReprBasics
open Rmk Rmk.Impl Rmk.Spec
open Rmk.ChunkTreeLemmas Rmk.ConstructRoot

/-! ## 0. helpers -/

section AllRel
variable {α β γ : Type _} {R : α → β → Prop}

theorem allRel_length : ∀ {as : List α} {bs : List β}, AllRel R as bs → as.length = bs.length
  | [], [], _ => rfl
  | _ :: as, _ :: bs, h => by
    have := allRel_length (as := as) (bs := bs) h.2
    simp [this]
  | [], _ :: _, h => by cases h
  | _ :: _, [], h => by cases h

theorem allRel_get : ∀ {as : List α} {bs : List β}, AllRel R as bs →
    ∀ (i : Nat) (h1 : i < as.length) (h2 : i < bs.length), R as[i] bs[i]
  | [], [], _, i, h1, _ => by simp at h1
  | a :: as, b :: bs, h, i, h1, h2 => by
    cases i with
    | zero => exact h.1
    | succ i => exact allRel_get (as := as) (bs := bs) h.2 i (by simpa using h1) (by simpa using h2)
  | [], _ :: _, h, _, _, _ => by cases h
  | _ :: _, [], h, _, _, _ => by cases h

theorem allRel_of_allSome (f : α → Option β) (vs : List α) (ns : List β)
    (h : allSome (vs.map f) = some ns) (hR : ∀ v ∈ vs, ∀ n, f v = some n → R v n) :
    AllRel R vs ns := by
  induction vs generalizing ns with
  | nil => simp [allSome] at h; subst h; trivial
  | cons v vs ih =>
    simp only [List.map_cons] at h
    cases hf : f v with
    | none => simp [hf, allSome] at h
    | some n =>
      simp only [hf, allSome] at h
      cases hr : allSome (vs.map f) with
      | none => simp [hr] at h
      | some ms =>
        simp [hr] at h; subst h
        exact ⟨hR v (by simp) n hf, ih ms hr (fun w hw => hR w (by simp [hw]))⟩

theorem allRel_replicate (k : Nat) (a : α) (b : β) (h : R a b) :
    AllRel R (List.replicate k a) (List.replicate k b) := by
  induction k with
  | zero => trivial
  | succ k ih => exact ⟨h, ih⟩

theorem allRel_forall_left {P : α → Prop} : ∀ {as : List α} {bs : List β}, AllRel R as bs →
    (∀ a ∈ as, ∀ b, R a b → P a) → ∀ a ∈ as, P a
  | [], [], _, _, a, ha => by simp at ha
  | x :: as, y :: bs, h, hp, a, ha => by
    rcases List.mem_cons.1 ha with rfl | ha
    · exact hp _ (by simp) y h.1
    · exact allRel_forall_left (as := as) (bs := bs) h.2 (fun a ha b hr => hp a (by simp [ha]) b hr) a ha
  | [], _ :: _, h, _, _, _ => by cases h
  | _ :: _, [], h, _, _, _ => by cases h

theorem allRel_map_eq (f : β → γ) (g : α → γ) : ∀ {as : List α} {bs : List β}, AllRel R as bs →
    (∀ a ∈ as, ∀ b, R a b → f b = g a) → bs.map f = as.map g
  | [], [], _, _ => rfl
  | x :: as, y :: bs, h, hp => by
    simp only [List.map_cons]
    rw [hp x (by simp) y h.1,
      allRel_map_eq f g (as := as) (bs := bs) h.2 (fun a ha b hr => hp a (by simp [ha]) b hr)]
  | [], _ :: _, h, _ => by cases h
  | _ :: _, [], h, _ => by cases h

end AllRel

theorem lenNode_zero (H : Hash) : lenNode 0 = zeroNode H 0 := by
  simp [lenNode, zeroNode, chunkOfLE_32, zeroChunk]

theorem packBits_nil : packBits [] = [] := rfl

theorem packBytes_nil : packBytes [] = [] := rfl

theorem packInts_nil (size : Nat) : packInts size [] = [] := rfl

theorem map_leaf_replicate (k : Nat) (c : Chunk) :
    (List.replicate k c).map Node.leaf = List.replicate k (Node.leaf c) := by
  simp

theorem chunkLen_nonbasic (et : Ty) (n : Nat) (hb : ¬ et.isBasic = true) : chunkLen et n = n := by
  simp [chunkLen, hb]

/-- a short non-empty byte string packs into one chunk -/
theorem packBytes_short (bs : List UInt8) (h0 : 0 < bs.length) (h : bs.length ≤ 32) :
    packBytes bs = [bs ++ zeros (32 - bs.length)] := by
  rw [packBytes_eq_pack, Spec.pack, bytesToChunks, groups_single h0 h]
  rfl

/-! ## 1. every constructor route lands in `Repr` -/

mutual
theorem construct_repr_aux (H : Hash) (t : Ty) (v : Val) (n : Node) (hwf : t.wf = true)
    (h : construct H t v = some n) : Impl.Repr H t v n := by
  cases t with
  | uint nb =>
    cases v <;> simp [construct] at h
    simp only [Impl.Repr]
    exact ⟨h.1, h.2.symm⟩
  | bool =>
    cases v <;> simp [construct] at h
    simp only [Impl.Repr]
    exact ⟨h.1, h.2.symm⟩
  | bitvector len =>
    cases v <;> simp [construct] at h
    simp only [Impl.Repr]
    exact ⟨h.1, ct_fill h.2⟩
  | bitlist lim =>
    cases v <;> simp only [construct] at h <;> try (simp at h; done)
    rename_i bs
    simp only [Impl.Repr]
    split at h
    · simp at h
    rename_i hlen
    refine ⟨by omega, ?_⟩
    split at h
    · rename_i h0
      have : bs = [] := List.eq_nil_of_length_eq_zero h0
      subst this
      simp only [defaultNode, Option.some.injEq] at h
      subst h
      refine ⟨zeroNode H (getDepth ((lim + 255) / 256)), ?_, ?_⟩
      · simp [mixInNode, lenNode_zero H]
      · rw [packBits_nil]; exact ct_zero H _
    · cases hc : fillToContents H ((packBits bs).map .leaf) (getDepth ((lim + 255) / 256)) with
      | none => simp [hc] at h
      | some c =>
        simp only [hc, Option.map_some, Option.some.injEq] at h
        exact ⟨c, h.symm, ct_fill hc⟩
  | bytevector len =>
    cases v <;> simp only [construct] at h <;> try (simp at h; done)
    rename_i bs
    simp [Ty.wf] at hwf
    simp only [Impl.Repr]
    split at h
    · simp at h
    rename_i hlen
    simp only [bne_iff_ne, ne_eq, Decidable.not_not] at hlen
    refine ⟨hlen, ?_⟩
    split at h
    · rename_i hle
      simp only [Option.some.injEq] at h
      subst h
      have h1 : (len + 31) / 32 = 1 := by omega
      rw [h1, getDepth_one, packBytes_short bs (by omega) hle]
      exact ct_singleton H _
    · exact ct_fill h
  | bytelist lim =>
    cases v <;> simp only [construct] at h <;> try (simp at h; done)
    rename_i bs
    simp only [Impl.Repr]
    split at h
    · simp at h
    rename_i hlen
    refine ⟨by omega, ?_⟩
    cases hc : fillToContents H ((packBytes bs).map .leaf) (getDepth ((lim + 31) / 32)) with
    | none => simp [hc] at h
    | some c =>
      simp only [hc, Option.map_some, Option.some.injEq] at h
      exact ⟨c, h.symm, ct_fill hc⟩
  | vector et len =>
    cases v <;> simp only [construct] at h <;> try (simp at h; done)
    rename_i vs
    simp [Ty.wf] at hwf
    simp only [Impl.Repr]
    split at h
    · simp at h
    split at h
    · simp at h
    rename_i hlen hne
    split at h
    · simp at h
    rename_i ns hns
    refine ⟨by simpa using hlen, ?_⟩
    by_cases hb : et.isBasic = true
    · simp only [hb, if_true] at h ⊢
      refine ⟨fun w hw => ?_, ct_fill h⟩
      obtain ⟨m, hm⟩ := allSome_map_mem _ vs ns hns w hw
      exact some_wt H et w m hwf.2 hm
    · simp only [hb, Bool.false_eq_true, if_false] at h ⊢
      exact ⟨ns, allRel_of_allSome _ vs ns hns
        (fun w _ m hm => construct_repr_aux H et w m hwf.2 hm), ct_fill h⟩
  | list et lim =>
    cases v <;> simp only [construct] at h <;> try (simp at h; done)
    rename_i vs
    simp [Ty.wf] at hwf
    simp only [Impl.Repr]
    split at h
    · rename_i h0
      have : vs = [] := List.eq_nil_of_length_eq_zero h0
      subst this
      simp only [defaultNode, Option.some.injEq] at h
      subst h
      refine ⟨by simp, zeroNode H (getDepth (chunkLen et lim)),
        by simp [mixInNode, lenNode_zero H], ?_⟩
      split
      · exact ⟨by simp, by simpa [packInts_nil] using ct_zero H _⟩
      · exact ⟨[], trivial, ct_zero H _⟩
    split at h
    · simp at h
    rename_i h0 hlen
    split at h
    · simp at h
    rename_i ns hns
    refine ⟨by omega, ?_⟩
    cases hc : fillToContents H
        (if et.isBasic then (packInts et.basicSize (vs.map numOf)).map .leaf else ns)
        (getDepth (chunkLen et lim)) with
    | none => simp [hc] at h
    | some c =>
      simp only [hc, Option.map_some, Option.some.injEq] at h
      refine ⟨c, h.symm, ?_⟩
      by_cases hb : et.isBasic = true
      · simp only [hb, if_true] at hc ⊢
        refine ⟨fun w hw => ?_, ct_fill hc⟩
        obtain ⟨m, hm⟩ := allSome_map_mem _ vs ns hns w hw
        exact some_wt H et w m hwf hm
      · simp only [hb, Bool.false_eq_true, if_false] at hc ⊢
        exact ⟨ns, allRel_of_allSome _ vs ns hns
          (fun w _ m hm => construct_repr_aux H et w m hwf hm), ct_fill hc⟩
  | container fs =>
    cases v <;> simp only [construct] at h <;> try (simp at h; done)
    rename_i vs
    simp [Ty.wf] at hwf
    simp only [Impl.Repr]
    split at h
    · simp at h
    rename_i ns hns
    exact ⟨ns, constructFields_repr_aux H fs vs ns hwf.2 hns, ct_fill h⟩
  | union hasNone opts =>
    cases v <;> simp only [construct] at h <;> try (simp at h; done)
    rename_i sel v
    simp [Ty.wf] at hwf
    simp only [Impl.Repr]
    split at h
    · simp at h
    rename_i hsel
    refine ⟨by omega, ?_⟩
    split at h
    · rename_i hc
      simp only [hc, if_true]
      cases v <;> simp at h
      simp only [Bool.and_eq_true, beq_iff_eq] at hc
      refine ⟨zeroNode H 0, ?_, rfl, rfl⟩
      rw [← h, hc.2]
    · rename_i hc
      simp only [hc]
      cases hco : constructOpt H opts (optIndex hasNone sel) v with
      | none => simp [hco] at h
      | some c =>
        simp only [hco, Option.map_some, Option.some.injEq] at h
        exact ⟨c, h.symm, constructOpt_repr_aux H opts _ v c hwf.2 hco⟩

theorem constructFields_repr_aux (H : Hash) (fs : List Ty) (vs : List Val) (ns : List Node)
    (hwf : Ty.wfList fs = true) (h : constructFields H fs vs = some ns) :
    ReprFields H fs vs ns := by
  cases fs with
  | nil =>
    cases vs with
    | nil => simp [constructFields] at h; subst h; simp only [ReprFields]
    | cons v vs => simp [constructFields] at h
  | cons t ts =>
    cases vs with
    | nil => simp [constructFields] at h
    | cons v vs =>
      simp [Ty.wfList] at hwf
      simp only [constructFields] at h
      cases h1 : construct H t v with
      | none => simp [h1] at h
      | some m =>
        cases h2 : constructFields H ts vs with
        | none => simp [h1, h2] at h
        | some ms =>
          simp only [h1, h2, Option.some.injEq] at h
          subst h
          simp only [ReprFields]
          exact ⟨construct_repr_aux H t v m hwf.1 h1, constructFields_repr_aux H ts vs ms hwf.2 h2⟩

theorem constructOpt_repr_aux (H : Hash) (opts : List Ty) (k : Nat) (v : Val) (n : Node)
    (hwf : Ty.wfList opts = true) (h : constructOpt H opts k v = some n) :
    ReprOpt H opts k v n := by
  cases opts with
  | nil => simp [constructOpt] at h
  | cons t ts =>
    simp [Ty.wfList] at hwf
    cases k with
    | zero =>
      simp only [constructOpt] at h
      simp only [ReprOpt]
      exact construct_repr_aux H t v n hwf.1 h
    | succ k =>
      simp only [constructOpt] at h
      simp only [ReprOpt]
      exact constructOpt_repr_aux H ts k v n hwf.2 h
end

/-! ## 2. default trees represent the zero value -/

theorem numOf_zeroVal_basic (et : Ty) (hb : et.isBasic = true) : numOf (zeroVal et) = 0 := by
  cases et <;> simp [Ty.isBasic] at hb <;> rfl

theorem packInts_replicate_zero (et : Ty) (hwf : et.wf = true) (hb : et.isBasic = true) (n : Nat) :
    packInts et.basicSize (List.replicate n 0) = List.replicate (chunkLen et n) zeroChunk := by
  rw [packInts_eq_bytesToChunks _ (basicSize_cases et hwf hb), flatMap_toLE_replicate_zero,
    DefaultNode.bytesToChunks_zeros, chunkLen_eq_chunkCount et n hwf]
  simp [hb]

mutual
theorem default_repr_aux (H : Hash) (t : Ty) (n : Node) (hwf : t.wf = true)
    (h : defaultNode H t = some n) : Impl.Repr H t (zeroVal t) n := by
  cases t with
  | uint nb =>
    simp [Ty.wf] at hwf
    simp only [defaultNode, Option.some.injEq] at h
    subst h
    simp only [zeroVal, Impl.Repr]
    refine ⟨Nat.pow_pos (by decide), ?_⟩
    simp only [zeroNode, zeroHash, chunkOfLE, toLE_zero]
    rw [DefaultNode.padRight_zeros _ _ (by omega)]
    rfl
  | bool =>
    simp only [defaultNode, Option.some.injEq] at h
    subst h
    simp only [zeroVal, Impl.Repr]
    exact ⟨by decide, rfl⟩
  | bitvector len =>
    simp only [defaultNode] at h
    have hct := ct_fillToLength h
    simp only [zeroVal, Impl.Repr]
    refine ⟨by simp, ?_⟩
    rw [packBits_eq_pack, DefaultNode.pack_bits_zero, map_leaf_replicate]
    exact hct
  | bitlist lim =>
    simp only [defaultNode, Option.some.injEq] at h
    subst h
    simp only [zeroVal, Impl.Repr]
    refine ⟨by simp, zeroNode H (getDepth ((lim + 255) / 256)),
      by simp [mixInNode, lenNode_zero H], ?_⟩
    rw [packBits_nil]
    exact ct_zero H _
  | bytevector len =>
    simp only [defaultNode] at h
    have hct := ct_fillToLength h
    simp only [zeroVal, Impl.Repr]
    refine ⟨by simp, ?_⟩
    rw [packBytes_eq_pack, DefaultNode.pack_zeros, map_leaf_replicate]
    exact hct
  | bytelist lim =>
    simp only [defaultNode, Option.some.injEq] at h
    subst h
    simp only [zeroVal, Impl.Repr]
    refine ⟨by simp, zeroNode H (getDepth ((lim + 31) / 32)),
      by simp [mixInNode, lenNode_zero H], ?_⟩
    rw [packBytes_nil]
    exact ct_zero H _
  | vector et len =>
    simp [Ty.wf] at hwf
    simp only [defaultNode] at h
    simp only [zeroVal, Impl.Repr]
    refine ⟨by simp, ?_⟩
    by_cases hb : et.isBasic = true
    · simp only [hb, if_true] at h ⊢
      have hct := ct_fillToLength h
      refine ⟨fun w hw => ?_, ?_⟩
      · rw [List.eq_of_mem_replicate hw]
        exact DefaultNode.zeroVal_wt et hwf.2
      · rw [List.map_replicate, numOf_zeroVal_basic et hb, packInts_replicate_zero et hwf.2 hb,
          map_leaf_replicate]
        exact hct
    · simp only [hb, Bool.false_eq_true, if_false] at h ⊢
      split at h
      · next e he =>
        have hct := ct_fillToLength h
        rw [chunkLen_nonbasic et len hb]
        exact ⟨List.replicate len e,
          allRel_replicate len _ _ (default_repr_aux H et e hwf.2 he), hct⟩
      · cases h
  | list et lim =>
    simp only [defaultNode, Option.some.injEq] at h
    subst h
    simp only [zeroVal, Impl.Repr]
    refine ⟨by simp, zeroNode H (getDepth (chunkLen et lim)),
      by simp [mixInNode, lenNode_zero H], ?_⟩
    split
    · exact ⟨by simp, by simpa [packInts_nil] using ct_zero H _⟩
    · exact ⟨[], trivial, ct_zero H _⟩
  | container fs =>
    simp [Ty.wf] at hwf
    simp only [defaultNode] at h
    simp only [zeroVal, Impl.Repr]
    split at h
    · next ns hns => exact ⟨ns, defaultNodes_repr_aux H fs ns hwf.2 hns, ct_fill h⟩
    · cases h
  | union hasNone opts =>
    have hw := DefaultNode.union_wf_opts hasNone opts hwf
    have hlen : 0 < opts.length := List.length_pos_iff.mpr hw.1
    cases hasNone with
    | true =>
      simp only [defaultNode, Option.some.injEq] at h
      subst h
      simp only [zeroVal, Impl.Repr]
      refine ⟨by simp [optCount]; omega, zeroNode H 0, by rw [lenNode_zero H], ?_⟩
      simp
    | false =>
      simp only [defaultNode] at h
      split at h
      · next c hc =>
        simp only [Option.some.injEq] at h
        subst h
        simp only [zeroVal, Impl.Repr]
        refine ⟨by simp [optCount]; omega, c, by rw [lenNode_zero H], ?_⟩
        simpa [optIndex] using defaultNodeHead_repr_aux H opts c hw.2 hc
      · cases h

theorem defaultNodes_repr_aux (H : Hash) (fs : List Ty) (ns : List Node)
    (hwf : Ty.wfList fs = true) (h : defaultNodes H fs = some ns) :
    ReprFields H fs (zeroVals fs) ns := by
  cases fs with
  | nil =>
    simp only [defaultNodes, Option.some.injEq] at h
    subst h
    simp only [zeroVals, ReprFields]
  | cons t ts =>
    simp [Ty.wfList] at hwf
    rw [defaultNodes] at h
    split at h
    · next m ms h1 h2 =>
      cases h
      simp only [zeroVals, ReprFields]
      exact ⟨default_repr_aux H t m hwf.1 h1, defaultNodes_repr_aux H ts ms hwf.2 h2⟩
    · cases h

theorem defaultNodeHead_repr_aux (H : Hash) (opts : List Ty) (c : Node)
    (hwf : Ty.wfList opts = true) (h : defaultNodeHead H opts = some c) :
    ReprOpt H opts 0 (zeroValHead opts) c := by
  cases opts with
  | nil => simp [defaultNodeHead] at h
  | cons t ts =>
    simp [Ty.wfList] at hwf
    simp only [defaultNodeHead] at h
    simp only [zeroValHead, ReprOpt]
    exact default_repr_aux H t c hwf.1 h
end

/-! ## 3. represented values are well typed -/

mutual
theorem repr_wt_aux (H : Hash) (t : Ty) (v : Val) (n : Node) (h : Impl.Repr H t v n) :
    WT t v = true := by
  cases t with
  | uint nb =>
    cases v <;> simp only [Impl.Repr] at h
    simp [WT, h.1]
  | bool =>
    cases v <;> simp only [Impl.Repr] at h
    simp [WT, h.1]
  | bitvector len =>
    cases v <;> simp only [Impl.Repr] at h
    simp [WT, h.1]
  | bitlist lim =>
    cases v <;> simp only [Impl.Repr] at h
    simp [WT, h.1]
  | bytevector len =>
    cases v <;> simp only [Impl.Repr] at h
    simp [WT, h.1]
  | bytelist lim =>
    cases v <;> simp only [Impl.Repr] at h
    simp [WT, h.1]
  | vector et len =>
    cases v <;> simp only [Impl.Repr] at h
    rename_i vs
    obtain ⟨hlen, h⟩ := h
    simp only [WT, Bool.and_eq_true, List.all_eq_true, beq_iff_eq]
    refine ⟨hlen, ?_⟩
    by_cases hb : et.isBasic = true
    · simp only [hb, if_true] at h
      exact h.1
    · simp only [hb, Bool.false_eq_true, if_false] at h
      obtain ⟨ns, hall, _⟩ := h
      exact allRel_forall_left hall (fun w _ m hr => repr_wt_aux H et w m hr)
  | list et lim =>
    cases v <;> simp only [Impl.Repr] at h
    rename_i vs
    obtain ⟨hlen, c, _, h⟩ := h
    simp only [WT, Bool.and_eq_true, List.all_eq_true, decide_eq_true_eq]
    refine ⟨hlen, ?_⟩
    by_cases hb : et.isBasic = true
    · simp only [hb, if_true] at h
      exact h.1
    · simp only [hb, Bool.false_eq_true, if_false] at h
      obtain ⟨ns, hall, _⟩ := h
      exact allRel_forall_left hall (fun w _ m hr => repr_wt_aux H et w m hr)
  | container fs =>
    cases v <;> simp only [Impl.Repr] at h
    rename_i vs
    obtain ⟨ns, hf, _⟩ := h
    simp only [WT]
    exact reprFields_wt_aux H fs vs ns hf
  | union hasNone opts =>
    cases v <;> simp only [Impl.Repr] at h
    rename_i sel v
    obtain ⟨_, c, _, h⟩ := h
    simp only [WT]
    by_cases hc : (hasNone && sel == 0) = true
    · simp only [hc, if_true] at h ⊢
      rw [h.1]
    · simp only [hc, Bool.false_eq_true, if_false] at h ⊢
      exact reprOpt_wt_aux H opts _ v c h

theorem reprFields_wt_aux (H : Hash) (fs : List Ty) (vs : List Val) (ns : List Node)
    (h : ReprFields H fs vs ns) : WTs fs vs = true := by
  cases fs with
  | nil =>
    cases vs with
    | nil => rfl
    | cons v vs => cases ns <;> simp only [ReprFields] at h
  | cons t ts =>
    cases vs with
    | nil => cases ns <;> simp only [ReprFields] at h
    | cons v vs =>
      cases ns with
      | nil => simp only [ReprFields] at h
      | cons m ms =>
        simp only [ReprFields] at h
        simp only [WTs, Bool.and_eq_true]
        exact ⟨repr_wt_aux H t v m h.1, reprFields_wt_aux H ts vs ms h.2⟩

theorem reprOpt_wt_aux (H : Hash) (opts : List Ty) (k : Nat) (v : Val) (n : Node)
    (h : ReprOpt H opts k v n) : WTopt opts k v = true := by
  cases opts with
  | nil => simp only [ReprOpt] at h
  | cons t ts =>
    cases k with
    | zero =>
      simp only [ReprOpt] at h
      simp only [WTopt]
      exact repr_wt_aux H t v n h
    | succ k =>
      simp only [ReprOpt] at h
      simp only [WTopt]
      exact reprOpt_wt_aux H ts k v n h
end

theorem reprFields_length {H : Hash} : ∀ {fs : List Ty} {vs : List Val} {ns : List Node},
    ReprFields H fs vs ns → vs.length = fs.length ∧ ns.length = fs.length
  | [], [], [], _ => ⟨rfl, rfl⟩
  | _ :: ts, _ :: vs, _ :: ns, h => by
    simp only [ReprFields] at h
    have := reprFields_length (fs := ts) (vs := vs) (ns := ns) h.2
    simp [this.1, this.2]
  | [], _ :: _, _, h => by simp only [ReprFields] at h
  | [], [], _ :: _, h => by simp only [ReprFields] at h
  | _ :: _, [], _, h => by simp only [ReprFields] at h
  | _ :: _, _ :: _, [], h => by simp only [ReprFields] at h

/-! ## 4. every tree shape that represents `v` has the spec root -/

mutual
theorem repr_root_aux (H : Hash) (t : Ty) (v : Val) (n : Node) (hwf : t.wf = true)
    (h : Impl.Repr H t v n) : n.root H = htr H t v := by
  cases t with
  | uint nb =>
    cases v <;> simp only [Impl.Repr] at h
    obtain ⟨_, rfl⟩ := h
    rfl
  | bool =>
    cases v <;> simp only [Impl.Repr] at h
    rename_i x
    obtain ⟨hx, rfl⟩ := h
    have : x % 256 = x := by omega
    simp [Node.root, htr, chunkOfLE, toLE, this]
  | bitvector len =>
    cases v <;> simp only [Impl.Repr] at h
    obtain ⟨_, hct⟩ := h
    rw [ct_root hct, map_root_map_leaf]
    rfl
  | bitlist lim =>
    cases v <;> simp only [Impl.Repr] at h
    obtain ⟨_, c, rfl, hct⟩ := h
    rw [mixInNode_root, ct_root hct, map_root_map_leaf]
    rfl
  | bytevector len =>
    cases v <;> simp only [Impl.Repr] at h
    obtain ⟨_, hct⟩ := h
    rw [ct_root hct, map_root_map_leaf, packBytes_eq_pack]
    rfl
  | bytelist lim =>
    cases v <;> simp only [Impl.Repr] at h
    obtain ⟨_, c, rfl, hct⟩ := h
    rw [mixInNode_root, ct_root hct, map_root_map_leaf, packBytes_eq_pack]
    rfl
  | vector et len =>
    cases v <;> simp only [Impl.Repr] at h
    rename_i vs
    simp [Ty.wf] at hwf
    obtain ⟨hlen, h⟩ := h
    by_cases hb : et.isBasic = true
    · simp only [hb, if_true] at h
      rw [ct_root h.2, map_root_map_leaf, packInts_eq_pack et vs hb hwf.2 h.1,
        chunkLen_eq_chunkCount et len hwf.2]
      simp only [htr, depthFor, hb, if_true]
    · simp only [hb, Bool.false_eq_true, if_false] at h
      obtain ⟨ns, hall, hct⟩ := h
      rw [ct_root hct, allRel_map_eq (·.root H) (htr H et) hall
        (fun w _ m hr => repr_root_aux H et w m hwf.2 hr), chunkLen_eq_chunkCount et len hwf.2]
      simp only [htr, depthFor, hb, Bool.false_eq_true, if_false]
  | list et lim =>
    cases v <;> simp only [Impl.Repr] at h
    rename_i vs
    simp [Ty.wf] at hwf
    obtain ⟨hlen, c, rfl, h⟩ := h
    by_cases hb : et.isBasic = true
    · simp only [hb, if_true] at h
      rw [mixInNode_root, ct_root h.2, map_root_map_leaf, packInts_eq_pack et vs hb hwf h.1,
        chunkLen_eq_chunkCount et lim hwf]
      simp only [htr, depthFor, hb, if_true]
    · simp only [hb, Bool.false_eq_true, if_false] at h
      obtain ⟨ns, hall, hct⟩ := h
      rw [mixInNode_root, ct_root hct, allRel_map_eq (·.root H) (htr H et) hall
        (fun w _ m hr => repr_root_aux H et w m hwf hr), chunkLen_eq_chunkCount et lim hwf]
      simp only [htr, depthFor, hb, Bool.false_eq_true, if_false]
  | container fs =>
    cases v <;> simp only [Impl.Repr] at h
    rename_i vs
    simp [Ty.wf] at hwf
    obtain ⟨ns, hf, hct⟩ := h
    rw [ct_root hct, reprFields_root_aux H fs vs ns hwf.2 hf]
    rfl
  | union hasNone opts =>
    cases v <;> simp only [Impl.Repr] at h
    rename_i sel v
    simp [Ty.wf] at hwf
    obtain ⟨_, c, rfl, h⟩ := h
    simp only [Node.root, lenNode_root, htr, mixIn]
    by_cases hc : (hasNone && sel == 0) = true
    · simp only [hc, if_true] at h ⊢
      rw [h.2]
      rfl
    · simp only [hc, Bool.false_eq_true, if_false] at h ⊢
      rw [reprOpt_root_aux H opts _ v c hwf.2 h]

theorem reprFields_root_aux (H : Hash) (fs : List Ty) (vs : List Val) (ns : List Node)
    (hwf : Ty.wfList fs = true) (h : ReprFields H fs vs ns) :
    ns.map (·.root H) = htrFields H fs vs := by
  cases fs with
  | nil =>
    cases vs with
    | nil =>
      cases ns with
      | nil => rfl
      | cons m ms => simp only [ReprFields] at h
    | cons v vs => cases ns <;> simp only [ReprFields] at h
  | cons t ts =>
    cases vs with
    | nil => cases ns <;> simp only [ReprFields] at h
    | cons v vs =>
      cases ns with
      | nil => simp only [ReprFields] at h
      | cons m ms =>
        simp [Ty.wfList] at hwf
        simp only [ReprFields] at h
        simp only [List.map_cons, htrFields, repr_root_aux H t v m hwf.1 h.1,
          reprFields_root_aux H ts vs ms hwf.2 h.2]

theorem reprOpt_root_aux (H : Hash) (opts : List Ty) (k : Nat) (v : Val) (n : Node)
    (hwf : Ty.wfList opts = true) (h : ReprOpt H opts k v n) :
    n.root H = htrOpt H opts k v := by
  cases opts with
  | nil => simp only [ReprOpt] at h
  | cons t ts =>
    simp [Ty.wfList] at hwf
    cases k with
    | zero =>
      simp only [ReprOpt] at h
      simp only [htrOpt]
      exact repr_root_aux H t v n hwf.1 h
    | succ k =>
      simp only [ReprOpt] at h
      simp only [htrOpt]
      exact reprOpt_root_aux H ts k v n hwf.2 h
end

end Rmk.ReprBasics
