/-
The refinement relation `Repr` (Rmk/Impl/Repr.lean): every constructor route and every default tree
lands in `Repr`; whatever tree shape represents a value has the spec root, is well typed, and reads
back (through the view API) exactly that value.  Generic in the pair hash `H`.
-/
import Rmk.Impl.Repr
import Rmk.Impl.View
import Rmk.Proofs.BytesLemmas
import Rmk.Proofs.Merkle
import Rmk.Proofs.PathGindex
import Rmk.Proofs.ChunkTree
import Rmk.Proofs.ConstructRoot
import Rmk.Proofs.DefaultNode
namespace Rmk.ReprBasics
open Rmk Rmk.Impl Rmk.Spec
open Rmk.ChunkTreeLemmas Rmk.ConstructRoot

/-! ## 0. helpers -/

section AllRel
variable {α β γ : Type _} {R : α → β → Prop}

theorem allRel_length : ∀ {as : List α} {bs : List β}, AllRel R as bs → as.length = bs.length
  | [], [], _ => rfl
  | _ :: as, _ :: bs, h => by
    have := allRel_length (as := as) (bs := bs) h.2
    simp [this]
  | [], _ :: _, h => by cases h
  | _ :: _, [], h => by cases h

theorem allRel_get : ∀ {as : List α} {bs : List β}, AllRel R as bs →
    ∀ (i : Nat) (h1 : i < as.length) (h2 : i < bs.length), R as[i] bs[i]
  | [], [], _, i, h1, _ => by simp at h1
  | a :: as, b :: bs, h, i, h1, h2 => by
    cases i with
    | zero => exact h.1
    | succ i => exact allRel_get (as := as) (bs := bs) h.2 i (by simpa using h1) (by simpa using h2)
  | [], _ :: _, h, _, _, _ => by cases h
  | _ :: _, [], h, _, _, _ => by cases h

theorem allRel_of_allSome (f : α → Option β) (vs : List α) (ns : List β)
    (h : allSome (vs.map f) = some ns) (hR : ∀ v ∈ vs, ∀ n, f v = some n → R v n) :
    AllRel R vs ns := by
  induction vs generalizing ns with
  | nil => simp [allSome] at h; subst h; trivial
  | cons v vs ih =>
    simp only [List.map_cons] at h
    cases hf : f v with
    | none => simp [hf, allSome] at h
    | some n =>
      simp only [hf, allSome] at h
      cases hr : allSome (vs.map f) with
      | none => simp [hr] at h
      | some ms =>
        simp [hr] at h; subst h
        exact ⟨hR v (by simp) n hf, ih ms hr (fun w hw => hR w (by simp [hw]))⟩

theorem allRel_replicate (k : Nat) (a : α) (b : β) (h : R a b) :
    AllRel R (List.replicate k a) (List.replicate k b) := by
  induction k with
  | zero => trivial
  | succ k ih => exact ⟨h, ih⟩

theorem allRel_forall_left {P : α → Prop} : ∀ {as : List α} {bs : List β}, AllRel R as bs →
    (∀ a ∈ as, ∀ b, R a b → P a) → ∀ a ∈ as, P a
  | [], [], _, _, a, ha => by simp at ha
  | x :: as, y :: bs, h, hp, a, ha => by
    rcases List.mem_cons.1 ha with rfl | ha
    · exact hp _ (by simp) y h.1
    · exact allRel_forall_left (as := as) (bs := bs) h.2 (fun a ha b hr => hp a (by simp [ha]) b hr) a ha
  | [], _ :: _, h, _, _, _ => by cases h
  | _ :: _, [], h, _, _, _ => by cases h

theorem allRel_map_eq (f : β → γ) (g : α → γ) : ∀ {as : List α} {bs : List β}, AllRel R as bs →
    (∀ a ∈ as, ∀ b, R a b → f b = g a) → bs.map f = as.map g
  | [], [], _, _ => rfl
  | x :: as, y :: bs, h, hp => by
    simp only [List.map_cons]
    rw [hp x (by simp) y h.1,
      allRel_map_eq f g (as := as) (bs := bs) h.2 (fun a ha b hr => hp a (by simp [ha]) b hr)]
  | [], _ :: _, h, _ => by cases h
  | _ :: _, [], h, _ => by cases h

end AllRel

theorem lenNode_zero (H : Hash) : lenNode 0 = zeroNode H 0 := by
  simp [lenNode, zeroNode, chunkOfLE_32, zeroChunk]

theorem packBits_nil : packBits [] = [] := rfl

theorem packBytes_nil : packBytes [] = [] := rfl

theorem packInts_nil (size : Nat) : packInts size [] = [] := rfl

theorem map_leaf_replicate (k : Nat) (c : Chunk) :
    (List.replicate k c).map Node.leaf = List.replicate k (Node.leaf c) := by
  simp

theorem chunkLen_nonbasic (et : Ty) (n : Nat) (hb : ¬ et.isBasic = true) : chunkLen et n = n := by
  simp [chunkLen, hb]

/-- a short non-empty byte string packs into one chunk -/
theorem packBytes_short (bs : List UInt8) (h0 : 0 < bs.length) (h : bs.length ≤ 32) :
    packBytes bs = [bs ++ zeros (32 - bs.length)] := by
  rw [packBytes_eq_pack, Spec.pack, bytesToChunks, groups_single h0 h]
  rfl

/-! ## 1. every constructor route lands in `Repr` -/

mutual
theorem construct_repr_aux (H : Hash) (t : Ty) (v : Val) (n : Node) (hwf : t.wf = true)
    (h : construct H t v = some n) : Impl.Repr H t v n := by
  cases t with
  | uint nb =>
    cases v <;> simp [construct] at h
    simp only [Impl.Repr]
    exact ⟨h.1, h.2.symm⟩
  | bool =>
    cases v <;> simp [construct] at h
    simp only [Impl.Repr]
    exact ⟨h.1, h.2.symm⟩
  | bitvector len =>
    cases v <;> simp [construct] at h
    simp only [Impl.Repr]
    exact ⟨h.1, ct_fill h.2⟩
  | bitlist lim =>
    cases v <;> simp only [construct] at h <;> try (simp at h; done)
    rename_i bs
    simp only [Impl.Repr]
    split at h
    · simp at h
    rename_i hlen
    refine ⟨by omega, ?_⟩
    split at h
    · rename_i h0
      have : bs = [] := List.eq_nil_of_length_eq_zero h0
      subst this
      simp only [defaultNode, Option.some.injEq] at h
      subst h
      refine ⟨zeroNode H (getDepth ((lim + 255) / 256)), ?_, ?_⟩
      · simp [mixInNode, lenNode_zero H]
      · rw [packBits_nil]; exact ct_zero H _
    · cases hc : fillToContents H ((packBits bs).map .leaf) (getDepth ((lim + 255) / 256)) with
      | none => simp [hc] at h
      | some c =>
        simp only [hc, Option.map_some, Option.some.injEq] at h
        exact ⟨c, h.symm, ct_fill hc⟩
  | bytevector len =>
    cases v <;> simp only [construct] at h <;> try (simp at h; done)
    rename_i bs
    simp [Ty.wf] at hwf
    simp only [Impl.Repr]
    split at h
    · simp at h
    rename_i hlen
    simp only [bne_iff_ne, ne_eq, Decidable.not_not] at hlen
    refine ⟨hlen, ?_⟩
    split at h
    · rename_i hle
      simp only [Option.some.injEq] at h
      subst h
      have h1 : (len + 31) / 32 = 1 := by omega
      rw [h1, getDepth_one, packBytes_short bs (by omega) hle]
      exact ct_singleton H _
    · exact ct_fill h
  | bytelist lim =>
    cases v <;> simp only [construct] at h <;> try (simp at h; done)
    rename_i bs
    simp only [Impl.Repr]
    split at h
    · simp at h
    rename_i hlen
    refine ⟨by omega, ?_⟩
    cases hc : fillToContents H ((packBytes bs).map .leaf) (getDepth ((lim + 31) / 32)) with
    | none => simp [hc] at h
    | some c =>
      simp only [hc, Option.map_some, Option.some.injEq] at h
      exact ⟨c, h.symm, ct_fill hc⟩
  | vector et len =>
    cases v <;> simp only [construct] at h <;> try (simp at h; done)
    rename_i vs
    simp [Ty.wf] at hwf
    simp only [Impl.Repr]
    split at h
    · simp at h
    split at h
    · simp at h
    rename_i hlen hne
    split at h
    · simp at h
    rename_i ns hns
    refine ⟨by simpa using hlen, ?_⟩
    by_cases hb : et.isBasic = true
    · simp only [hb, if_true] at h ⊢
      refine ⟨fun w hw => ?_, ct_fill h⟩
      obtain ⟨m, hm⟩ := allSome_map_mem _ vs ns hns w hw
      exact some_wt H et w m hwf.2 hm
    · simp only [hb, Bool.false_eq_true, if_false] at h ⊢
      exact ⟨ns, allRel_of_allSome _ vs ns hns
        (fun w _ m hm => construct_repr_aux H et w m hwf.2 hm), ct_fill h⟩
  | list et lim =>
    cases v <;> simp only [construct] at h <;> try (simp at h; done)
    rename_i vs
    simp [Ty.wf] at hwf
    simp only [Impl.Repr]
    split at h
    · rename_i h0
      have : vs = [] := List.eq_nil_of_length_eq_zero h0
      subst this
      simp only [defaultNode, Option.some.injEq] at h
      subst h
      refine ⟨by simp, zeroNode H (getDepth (chunkLen et lim)),
        by simp [mixInNode, lenNode_zero H], ?_⟩
      split
      · exact ⟨by simp, by simpa [packInts_nil] using ct_zero H _⟩
      · exact ⟨[], trivial, ct_zero H _⟩
    split at h
    · simp at h
    rename_i h0 hlen
    split at h
    · simp at h
    rename_i ns hns
    refine ⟨by omega, ?_⟩
    cases hc : fillToContents H
        (if et.isBasic then (packInts et.basicSize (vs.map numOf)).map .leaf else ns)
        (getDepth (chunkLen et lim)) with
    | none => simp [hc] at h
    | some c =>
      simp only [hc, Option.map_some, Option.some.injEq] at h
      refine ⟨c, h.symm, ?_⟩
      by_cases hb : et.isBasic = true
      · simp only [hb, if_true] at hc ⊢
        refine ⟨fun w hw => ?_, ct_fill hc⟩
        obtain ⟨m, hm⟩ := allSome_map_mem _ vs ns hns w hw
        exact some_wt H et w m hwf hm
      · simp only [hb, Bool.false_eq_true, if_false] at hc ⊢
        exact ⟨ns, allRel_of_allSome _ vs ns hns
          (fun w _ m hm => construct_repr_aux H et w m hwf hm), ct_fill hc⟩
  | container fs =>
    cases v <;> simp only [construct] at h <;> try (simp at h; done)
    rename_i vs
    simp [Ty.wf] at hwf
    simp only [Impl.Repr]
    split at h
    · simp at h
    rename_i ns hns
    exact ⟨ns, constructFields_repr_aux H fs vs ns hwf.2 hns, ct_fill h⟩
  | union hasNone opts =>
    cases v <;> simp only [construct] at h <;> try (simp at h; done)
    rename_i sel v
    simp [Ty.wf] at hwf
    simp only [Impl.Repr]
    split at h
    · simp at h
    rename_i hsel
    refine ⟨by omega, ?_⟩
    split at h
    · rename_i hc
      simp only [hc, if_true]
      cases v <;> simp at h
      simp only [Bool.and_eq_true, beq_iff_eq] at hc
      refine ⟨zeroNode H 0, ?_, rfl, rfl⟩
      rw [← h, hc.2]
    · rename_i hc
      simp only [hc]
      cases hco : constructOpt H opts (optIndex hasNone sel) v with
      | none => simp [hco] at h
      | some c =>
        simp only [hco, Option.map_some, Option.some.injEq] at h
        exact ⟨c, h.symm, constructOpt_repr_aux H opts _ v c hwf.2 hco⟩

theorem constructFields_repr_aux (H : Hash) (fs : List Ty) (vs : List Val) (ns : List Node)
    (hwf : Ty.wfList fs = true) (h : constructFields H fs vs = some ns) :
    ReprFields H fs vs ns := by
  cases fs with
  | nil =>
    cases vs with
    | nil => simp [constructFields] at h; subst h; simp only [ReprFields]
    | cons v vs => simp [constructFields] at h
  | cons t ts =>
    cases vs with
    | nil => simp [constructFields] at h
    | cons v vs =>
      simp [Ty.wfList] at hwf
      simp only [constructFields] at h
      cases h1 : construct H t v with
      | none => simp [h1] at h
      | some m =>
        cases h2 : constructFields H ts vs with
        | none => simp [h1, h2] at h
        | some ms =>
          simp only [h1, h2, Option.some.injEq] at h
          subst h
          simp only [ReprFields]
          exact ⟨construct_repr_aux H t v m hwf.1 h1, constructFields_repr_aux H ts vs ms hwf.2 h2⟩

theorem constructOpt_repr_aux (H : Hash) (opts : List Ty) (k : Nat) (v : Val) (n : Node)
    (hwf : Ty.wfList opts = true) (h : constructOpt H opts k v = some n) :
    ReprOpt H opts k v n := by
  cases opts with
  | nil => simp [constructOpt] at h
  | cons t ts =>
    simp [Ty.wfList] at hwf
    cases k with
    | zero =>
      simp only [constructOpt] at h
      simp only [ReprOpt]
      exact construct_repr_aux H t v n hwf.1 h
    | succ k =>
      simp only [constructOpt] at h
      simp only [ReprOpt]
      exact constructOpt_repr_aux H ts k v n hwf.2 h
end

/-! ## 2. default trees represent the zero value -/

theorem numOf_zeroVal_basic (et : Ty) (hb : et.isBasic = true) : numOf (zeroVal et) = 0 := by
  cases et <;> simp [Ty.isBasic] at hb <;> rfl

theorem packInts_replicate_zero (et : Ty) (hwf : et.wf = true) (hb : et.isBasic = true) (n : Nat) :
    packInts et.basicSize (List.replicate n 0) = List.replicate (chunkLen et n) zeroChunk := by
  rw [packInts_eq_bytesToChunks _ (basicSize_cases et hwf hb), flatMap_toLE_replicate_zero,
    DefaultNode.bytesToChunks_zeros, chunkLen_eq_chunkCount et n hwf]
  simp [hb]

mutual
theorem default_repr_aux (H : Hash) (t : Ty) (n : Node) (hwf : t.wf = true)
    (h : defaultNode H t = some n) : Impl.Repr H t (zeroVal t) n := by
  cases t with
  | uint nb =>
    simp [Ty.wf] at hwf
    simp only [defaultNode, Option.some.injEq] at h
    subst h
    simp only [zeroVal, Impl.Repr]
    refine ⟨Nat.pow_pos (by decide), ?_⟩
    simp only [zeroNode, zeroHash, chunkOfLE, toLE_zero]
    rw [DefaultNode.padRight_zeros _ _ (by omega)]
    rfl
  | bool =>
    simp only [defaultNode, Option.some.injEq] at h
    subst h
    simp only [zeroVal, Impl.Repr]
    exact ⟨by decide, rfl⟩
  | bitvector len =>
    simp only [defaultNode] at h
    have hct := ct_fillToLength h
    simp only [zeroVal, Impl.Repr]
    refine ⟨by simp, ?_⟩
    rw [packBits_eq_pack, DefaultNode.pack_bits_zero, map_leaf_replicate]
    exact hct
  | bitlist lim =>
    simp only [defaultNode, Option.some.injEq] at h
    subst h
    simp only [zeroVal, Impl.Repr]
    refine ⟨by simp, zeroNode H (getDepth ((lim + 255) / 256)),
      by simp [mixInNode, lenNode_zero H], ?_⟩
    rw [packBits_nil]
    exact ct_zero H _
  | bytevector len =>
    simp only [defaultNode] at h
    have hct := ct_fillToLength h
    simp only [zeroVal, Impl.Repr]
    refine ⟨by simp, ?_⟩
    rw [packBytes_eq_pack, DefaultNode.pack_zeros, map_leaf_replicate]
    exact hct
  | bytelist lim =>
    simp only [defaultNode, Option.some.injEq] at h
    subst h
    simp only [zeroVal, Impl.Repr]
    refine ⟨by simp, zeroNode H (getDepth ((lim + 31) / 32)),
      by simp [mixInNode, lenNode_zero H], ?_⟩
    rw [packBytes_nil]
    exact ct_zero H _
  | vector et len =>
    simp [Ty.wf] at hwf
    simp only [defaultNode] at h
    simp only [zeroVal, Impl.Repr]
    refine ⟨by simp, ?_⟩
    by_cases hb : et.isBasic = true
    · simp only [hb, if_true] at h ⊢
      have hct := ct_fillToLength h
      refine ⟨fun w hw => ?_, ?_⟩
      · rw [List.eq_of_mem_replicate hw]
        exact DefaultNode.zeroVal_wt et hwf.2
      · rw [List.map_replicate, numOf_zeroVal_basic et hb, packInts_replicate_zero et hwf.2 hb,
          map_leaf_replicate]
        exact hct
    · simp only [hb, Bool.false_eq_true, if_false] at h ⊢
      split at h
      · next e he =>
        have hct := ct_fillToLength h
        rw [chunkLen_nonbasic et len hb]
        exact ⟨List.replicate len e,
          allRel_replicate len _ _ (default_repr_aux H et e hwf.2 he), hct⟩
      · cases h
  | list et lim =>
    simp only [defaultNode, Option.some.injEq] at h
    subst h
    simp only [zeroVal, Impl.Repr]
    refine ⟨by simp, zeroNode H (getDepth (chunkLen et lim)),
      by simp [mixInNode, lenNode_zero H], ?_⟩
    split
    · exact ⟨by simp, by simpa [packInts_nil] using ct_zero H _⟩
    · exact ⟨[], trivial, ct_zero H _⟩
  | container fs =>
    simp [Ty.wf] at hwf
    simp only [defaultNode] at h
    simp only [zeroVal, Impl.Repr]
    split at h
    · next ns hns => exact ⟨ns, defaultNodes_repr_aux H fs ns hwf.2 hns, ct_fill h⟩
    · cases h
  | union hasNone opts =>
    have hw := DefaultNode.union_wf_opts hasNone opts hwf
    have hlen : 0 < opts.length := List.length_pos_iff.mpr hw.1
    cases hasNone with
    | true =>
      simp only [defaultNode, Option.some.injEq] at h
      subst h
      simp only [zeroVal, Impl.Repr]
      refine ⟨by simp [optCount]; omega, zeroNode H 0, by rw [lenNode_zero H], ?_⟩
      simp
    | false =>
      simp only [defaultNode] at h
      split at h
      · next c hc =>
        simp only [Option.some.injEq] at h
        subst h
        simp only [zeroVal, Impl.Repr]
        refine ⟨by simp [optCount]; omega, c, by rw [lenNode_zero H], ?_⟩
        simpa [optIndex] using defaultNodeHead_repr_aux H opts c hw.2 hc
      · cases h

theorem defaultNodes_repr_aux (H : Hash) (fs : List Ty) (ns : List Node)
    (hwf : Ty.wfList fs = true) (h : defaultNodes H fs = some ns) :
    ReprFields H fs (zeroVals fs) ns := by
  cases fs with
  | nil =>
    simp only [defaultNodes, Option.some.injEq] at h
    subst h
    simp only [zeroVals, ReprFields]
  | cons t ts =>
    simp [Ty.wfList] at hwf
    rw [defaultNodes] at h
    split at h
    · next m ms h1 h2 =>
      cases h
      simp only [zeroVals, ReprFields]
      exact ⟨default_repr_aux H t m hwf.1 h1, defaultNodes_repr_aux H ts ms hwf.2 h2⟩
    · cases h

theorem defaultNodeHead_repr_aux (H : Hash) (opts : List Ty) (c : Node)
    (hwf : Ty.wfList opts = true) (h : defaultNodeHead H opts = some c) :
    ReprOpt H opts 0 (zeroValHead opts) c := by
  cases opts with
  | nil => simp [defaultNodeHead] at h
  | cons t ts =>
    simp [Ty.wfList] at hwf
    simp only [defaultNodeHead] at h
    simp only [zeroValHead, ReprOpt]
    exact default_repr_aux H t c hwf.1 h
end

/-! ## 3. represented values are well typed -/

mutual
theorem repr_wt_aux (H : Hash) (t : Ty) (v : Val) (n : Node) (h : Impl.Repr H t v n) :
    WT t v = true := by
  cases t with
  | uint nb =>
    cases v <;> simp only [Impl.Repr] at h
    simp [WT, h.1]
  | bool =>
    cases v <;> simp only [Impl.Repr] at h
    simp [WT, h.1]
  | bitvector len =>
    cases v <;> simp only [Impl.Repr] at h
    simp [WT, h.1]
  | bitlist lim =>
    cases v <;> simp only [Impl.Repr] at h
    simp [WT, h.1]
  | bytevector len =>
    cases v <;> simp only [Impl.Repr] at h
    simp [WT, h.1]
  | bytelist lim =>
    cases v <;> simp only [Impl.Repr] at h
    simp [WT, h.1]
  | vector et len =>
    cases v <;> simp only [Impl.Repr] at h
    rename_i vs
    obtain ⟨hlen, h⟩ := h
    simp only [WT, Bool.and_eq_true, List.all_eq_true, beq_iff_eq]
    refine ⟨hlen, ?_⟩
    by_cases hb : et.isBasic = true
    · simp only [hb, if_true] at h
      exact h.1
    · simp only [hb, Bool.false_eq_true, if_false] at h
      obtain ⟨ns, hall, _⟩ := h
      exact allRel_forall_left hall (fun w _ m hr => repr_wt_aux H et w m hr)
  | list et lim =>
    cases v <;> simp only [Impl.Repr] at h
    rename_i vs
    obtain ⟨hlen, c, _, h⟩ := h
    simp only [WT, Bool.and_eq_true, List.all_eq_true, decide_eq_true_eq]
    refine ⟨hlen, ?_⟩
    by_cases hb : et.isBasic = true
    · simp only [hb, if_true] at h
      exact h.1
    · simp only [hb, Bool.false_eq_true, if_false] at h
      obtain ⟨ns, hall, _⟩ := h
      exact allRel_forall_left hall (fun w _ m hr => repr_wt_aux H et w m hr)
  | container fs =>
    cases v <;> simp only [Impl.Repr] at h
    rename_i vs
    obtain ⟨ns, hf, _⟩ := h
    simp only [WT]
    exact reprFields_wt_aux H fs vs ns hf
  | union hasNone opts =>
    cases v <;> simp only [Impl.Repr] at h
    rename_i sel v
    obtain ⟨_, c, _, h⟩ := h
    simp only [WT]
    by_cases hc : (hasNone && sel == 0) = true
    · simp only [hc, if_true] at h ⊢
      rw [h.1]
    · simp only [hc, Bool.false_eq_true, if_false] at h ⊢
      exact reprOpt_wt_aux H opts _ v c h

theorem reprFields_wt_aux (H : Hash) (fs : List Ty) (vs : List Val) (ns : List Node)
    (h : ReprFields H fs vs ns) : WTs fs vs = true := by
  cases fs with
  | nil =>
    cases vs with
    | nil => rfl
    | cons v vs => cases ns <;> simp only [ReprFields] at h
  | cons t ts =>
    cases vs with
    | nil => cases ns <;> simp only [ReprFields] at h
    | cons v vs =>
      cases ns with
      | nil => simp only [ReprFields] at h
      | cons m ms =>
        simp only [ReprFields] at h
        simp only [WTs, Bool.and_eq_true]
        exact ⟨repr_wt_aux H t v m h.1, reprFields_wt_aux H ts vs ms h.2⟩

theorem reprOpt_wt_aux (H : Hash) (opts : List Ty) (k : Nat) (v : Val) (n : Node)
    (h : ReprOpt H opts k v n) : WTopt opts k v = true := by
  cases opts with
  | nil => simp only [ReprOpt] at h
  | cons t ts =>
    cases k with
    | zero =>
      simp only [ReprOpt] at h
      simp only [WTopt]
      exact repr_wt_aux H t v n h
    | succ k =>
      simp only [ReprOpt] at h
      simp only [WTopt]
      exact reprOpt_wt_aux H ts k v n h
end

theorem reprFields_length {H : Hash} : ∀ {fs : List Ty} {vs : List Val} {ns : List Node},
    ReprFields H fs vs ns → vs.length = fs.length ∧ ns.length = fs.length
  | [], [], [], _ => ⟨rfl, rfl⟩
  | _ :: ts, _ :: vs, _ :: ns, h => by
    simp only [ReprFields] at h
    have := reprFields_length (fs := ts) (vs := vs) (ns := ns) h.2
    simp [this.1, this.2]
  | [], _ :: _, _, h => by simp only [ReprFields] at h
  | [], [], _ :: _, h => by simp only [ReprFields] at h
  | _ :: _, [], _, h => by simp only [ReprFields] at h
  | _ :: _, _ :: _, [], h => by simp only [ReprFields] at h

/-! ## 4. every tree shape that represents `v` has the spec root -/

mutual
theorem repr_root_aux (H : Hash) (t : Ty) (v : Val) (n : Node) (hwf : t.wf = true)
    (h : Impl.Repr H t v n) : n.root H = htr H t v := by
  cases t with
  | uint nb =>
    cases v <;> simp only [Impl.Repr] at h
    obtain ⟨_, rfl⟩ := h
    rfl
  | bool =>
    cases v <;> simp only [Impl.Repr] at h
    rename_i x
    obtain ⟨hx, rfl⟩ := h
    have : x % 256 = x := by omega
    simp [Node.root, htr, chunkOfLE, toLE, this]
  | bitvector len =>
    cases v <;> simp only [Impl.Repr] at h
    obtain ⟨_, hct⟩ := h
    rw [ct_root hct, map_root_map_leaf]
    rfl
  | bitlist lim =>
    cases v <;> simp only [Impl.Repr] at h
    obtain ⟨_, c, rfl, hct⟩ := h
    rw [mixInNode_root, ct_root hct, map_root_map_leaf]
    rfl
  | bytevector len =>
    cases v <;> simp only [Impl.Repr] at h
    obtain ⟨_, hct⟩ := h
    rw [ct_root hct, map_root_map_leaf, packBytes_eq_pack]
    rfl
  | bytelist lim =>
    cases v <;> simp only [Impl.Repr] at h
    obtain ⟨_, c, rfl, hct⟩ := h
    rw [mixInNode_root, ct_root hct, map_root_map_leaf, packBytes_eq_pack]
    rfl
  | vector et len =>
    cases v <;> simp only [Impl.Repr] at h
    rename_i vs
    simp [Ty.wf] at hwf
    obtain ⟨hlen, h⟩ := h
    by_cases hb : et.isBasic = true
    · simp only [hb, if_true] at h
      rw [ct_root h.2, map_root_map_leaf, packInts_eq_pack et vs hb hwf.2 h.1,
        chunkLen_eq_chunkCount et len hwf.2]
      simp only [htr, depthFor, hb, if_true]
    · simp only [hb, Bool.false_eq_true, if_false] at h
      obtain ⟨ns, hall, hct⟩ := h
      rw [ct_root hct, allRel_map_eq (·.root H) (htr H et) hall
        (fun w _ m hr => repr_root_aux H et w m hwf.2 hr), chunkLen_eq_chunkCount et len hwf.2]
      simp only [htr, depthFor, hb, Bool.false_eq_true, if_false]
  | list et lim =>
    cases v <;> simp only [Impl.Repr] at h
    rename_i vs
    simp [Ty.wf] at hwf
    obtain ⟨hlen, c, rfl, h⟩ := h
    by_cases hb : et.isBasic = true
    · simp only [hb, if_true] at h
      rw [mixInNode_root, ct_root h.2, map_root_map_leaf, packInts_eq_pack et vs hb hwf h.1,
        chunkLen_eq_chunkCount et lim hwf]
      simp only [htr, depthFor, hb, if_true]
    · simp only [hb, Bool.false_eq_true, if_false] at h
      obtain ⟨ns, hall, hct⟩ := h
      rw [mixInNode_root, ct_root hct, allRel_map_eq (·.root H) (htr H et) hall
        (fun w _ m hr => repr_root_aux H et w m hwf hr), chunkLen_eq_chunkCount et lim hwf]
      simp only [htr, depthFor, hb, Bool.false_eq_true, if_false]
  | container fs =>
    cases v <;> simp only [Impl.Repr] at h
    rename_i vs
    simp [Ty.wf] at hwf
    obtain ⟨ns, hf, hct⟩ := h
    rw [ct_root hct, reprFields_root_aux H fs vs ns hwf.2 hf]
    rfl
  | union hasNone opts =>
    cases v <;> simp only [Impl.Repr] at h
    rename_i sel v
    simp [Ty.wf] at hwf
    obtain ⟨_, c, rfl, h⟩ := h
    simp only [Node.root, lenNode_root, htr, mixIn]
    by_cases hc : (hasNone && sel == 0) = true
    · simp only [hc, if_true] at h ⊢
      rw [h.2]
      rfl
    · simp only [hc, Bool.false_eq_true, if_false] at h ⊢
      rw [reprOpt_root_aux H opts _ v c hwf.2 h]

theorem reprFields_root_aux (H : Hash) (fs : List Ty) (vs : List Val) (ns : List Node)
    (hwf : Ty.wfList fs = true) (h : ReprFields H fs vs ns) :
    ns.map (·.root H) = htrFields H fs vs := by
  cases fs with
  | nil =>
    cases vs with
    | nil =>
      cases ns with
      | nil => rfl
      | cons m ms => simp only [ReprFields] at h
    | cons v vs => cases ns <;> simp only [ReprFields] at h
  | cons t ts =>
    cases vs with
    | nil => cases ns <;> simp only [ReprFields] at h
    | cons v vs =>
      cases ns with
      | nil => simp only [ReprFields] at h
      | cons m ms =>
        simp [Ty.wfList] at hwf
        simp only [ReprFields] at h
        simp only [List.map_cons, htrFields, repr_root_aux H t v m hwf.1 h.1,
          reprFields_root_aux H ts vs ms hwf.2 h.2]

theorem reprOpt_root_aux (H : Hash) (opts : List Ty) (k : Nat) (v : Val) (n : Node)
    (hwf : Ty.wfList opts = true) (h : ReprOpt H opts k v n) :
    n.root H = htrOpt H opts k v := by
  cases opts with
  | nil => simp only [ReprOpt] at h
  | cons t ts =>
    simp [Ty.wfList] at hwf
    cases k with
    | zero =>
      simp only [ReprOpt] at h
      simp only [htrOpt]
      exact repr_root_aux H t v n hwf.1 h
    | succ k =>
      simp only [ReprOpt] at h
      simp only [htrOpt]
      exact reprOpt_root_aux H ts k v n hwf.2 h
end

/-! ## 5. reading the whole content back through the view API -/

theorem readLen_lenNode (H : Hash) (k : Nat) (h : k < 2 ^ 256) : readLen H (lenNode k) = k := by
  rw [readLen, lenNode_root, fromLE_toLE' 32 k h]

theorem listLength_mixin (H : Hash) (c : Node) (k : Nat) (h : k < 2 ^ 256) :
    listLength H (mixInNode c k) = some k := by
  simp [listLength, mixInNode, getRight, readLen_lenNode H k h]

theorem allSome_range_getElem {β} (l : List β) (f : Nat → Option β)
    (h : ∀ i (hi : i < l.length), f i = some l[i]) :
    allSome ((List.range l.length).map f) = some l := by
  induction l generalizing f with
  | nil => rfl
  | cons a l ih =>
    rw [List.length_cons, List.range_succ_eq_map, List.map_cons, List.map_map]
    have h0 := h 0 (by simp)
    have := ih (f ∘ Nat.succ) (fun i hi => by
      have h1 := h (i + 1) (by simpa using hi)
      rw [List.getElem_cons_succ] at h1
      exact h1)
    simp only [h0, allSome, this, Option.map_some]
    rfl

theorem bitsToNat_testBit (g : List Bool) (k : Nat) :
    (bitsToNat g / 2 ^ k % 2 == 1) = g[k]?.getD false := by
  induction g generalizing k with
  | nil => simp
  | cons b g ih =>
    cases k with
    | zero => cases b <;> simp <;> omega
    | succ k =>
      have h2 : ((if b then 1 else 0) + 2 * bitsToNat g) / 2 = bitsToNat g := by
        cases b <;> simp <;> omega
      have hp : 2 ^ (k + 1) = 2 * 2 ^ k := by rw [Nat.pow_succ, Nat.mul_comm]
      rw [bitsToNat_cons, hp, ← Nat.div_div_eq_div_mul, h2, ih]
      simp

theorem packBits_length (bs : List Bool) :
    (packBits bs).length = ((bs.length + 7) / 8 + 31) / 32 := by
  rw [packBits_eq_pack, Spec.pack, bytesToChunks_length, bitsToBytes_length]

theorem bitOfChunk_packBits (bs : List Bool) (i : Nat) (hi : i < bs.length)
    (hj : i / 256 < (packBits bs).length) :
    bitOfChunk ((packBits bs)[i / 256]) i = bs[i] := by
  have hB : (bitsToBytes bs).length = (bs.length + 7) / 8 := bitsToBytes_length bs
  have hg32 : i / 256 < (groups 32 (bitsToBytes bs)).length := by simpa [packBits] using hj
  have hg8 : i / 8 < (groups 8 bs).length := by rw [groups_length (by decide)]; omega
  have e1 : (packBits bs)[i / 256] =
      ((bitsToBytes bs).drop (32 * (i / 256))).take 32
        ++ zeros (32 - (((bitsToBytes bs).drop (32 * (i / 256))).take 32).length) := by
    simp only [packBits, List.getElem_map, groups_getElem (by decide : 0 < 32) _ _ hg32]
  have hk : (i % 256) / 8 < (((bitsToBytes bs).drop (32 * (i / 256))).take 32).length := by
    simp only [List.length_take, List.length_drop, hB]; omega
  have e2 : 32 * (i / 256) + i % 256 / 8 = i / 8 := by omega
  have hi8 : i / 8 < (bitsToBytes bs).length := by omega
  have e3 : (bitsToBytes bs)[i / 8] = UInt8.ofNat (bitsToNat ((bs.drop (8 * (i / 8))).take 8)) := by
    simp only [bitsToBytes, List.getElem_map, groups_getElem (by decide : 0 < 8) _ _ hg8]
  unfold bitOfChunk
  rw [e1, List.getD_eq_getElem?_getD, List.getElem?_append_left hk, List.getElem?_eq_getElem hk,
    Option.getD_some, List.getElem_take, List.getElem_drop]
  simp only [e2, e3]
  rw [toNat_ofNat_bitsToNat (by simp only [List.length_take]; omega), bitsToNat_testBit]
  have hlt : i % 8 < 8 := by omega
  rw [List.getElem?_take_of_lt hlt, List.getElem?_drop]
  have e4 : 8 * (i / 8) + i % 8 = i := by omega
  simp [e4, hi]

/-- reading bit `i` of a bitfield stored in a chunk tree -/
theorem read_bit_elem (H : Hash) (bs : List Bool) (d : Nat) (n : Node)
    (hct : ChunkTree H d ((packBits bs).map .leaf) n) (i : Nat) (hi : i < bs.length) :
    (getAt n (i / 256) d).map (fun c => bitOfChunk (c.root H) i) = some bs[i] ∧ i / 256 < 2 ^ d := by
  have hj : i / 256 < (packBits bs).length := by rw [packBits_length]; omega
  have hj' : i / 256 < ((packBits bs).map Node.leaf).length := by simpa using hj
  have hle := ct_length_le hct
  refine ⟨?_, by omega⟩
  rw [ct_get hct hj']
  simp only [Option.map_some, List.getElem_map, Node.root, bitOfChunk_packBits bs i hi hj]

theorem flatMap_root_map_leaf (H : Hash) (cs : List Chunk) :
    (cs.map Node.leaf).flatMap (fun c => c.root H) = cs.flatten := by
  induction cs with
  | nil => rfl
  | cons c cs ih => simp only [List.map_cons, List.flatMap_cons, Node.root, ih, List.flatten_cons]

/-- reading all chunks of a chunk tree of leaves -/
theorem readChunks_ct (H : Hash) (d : Nat) (cs : List Chunk) (n : Node)
    (hct : ChunkTree H d (cs.map .leaf) n) :
    readChunks H n d cs.length = some cs.flatten := by
  unfold readChunks
  have key := allSome_range_getElem (cs.map Node.leaf) (fun i => getAt n i d)
    (fun i hi => ct_get hct hi)
  rw [List.length_map] at key
  rw [key, Option.map_some, flatMap_root_map_leaf]

/-- the two read paths of byte vectors / byte lists -/
theorem read_bytes_ct (H : Hash) (bs : List UInt8) (d : Nat) (c : Node)
    (hct : ChunkTree H d ((packBytes bs).map .leaf) c) :
    (if d = 0 then some (Val.bytes ((c.root H).take bs.length))
      else (readChunks H c d ((bs.length + 31) / 32)).map fun b => Val.bytes (b.take bs.length))
      = some (.bytes bs) := by
  split
  · next hd =>
    subst hd
    by_cases h0 : bs.length = 0
    · have : bs = [] := List.eq_nil_of_length_eq_zero h0
      subst this
      simp
    · have hle := ct_length_le hct
      simp only [List.length_map, packBytes_length, Nat.pow_zero] at hle
      rw [packBytes_short bs (by omega) (by omega)] at hct
      have := (ct_zero_singleton_iff H _ c).1 (by simpa using hct)
      subst this
      simp [Node.root]
  · rw [← packBytes_length, readChunks_ct H d (packBytes bs) c hct, Option.map_some,
      packBytes_eq_pack, Spec.pack, take_bytesToChunks_flatten]

theorem flatMap_toLE_slice (size : Nat) (l : List Nat) (r : Nat) (hr : r < l.length) :
    ((l.flatMap fun v => toLE size v).drop (r * size)).take size = toLE size l[r] := by
  induction l generalizing r with
  | nil => simp at hr
  | cons a l ih =>
    cases r with
    | zero =>
      simp only [Nat.zero_mul, List.drop_zero, List.flatMap_cons, List.getElem_cons_zero]
      exact List.take_left' (toLE_length size a)
    | succ r =>
      have e : (r + 1) * size = size + r * size := by rw [Nat.succ_mul]; omega
      rw [e, ← List.drop_drop, List.flatMap_cons, List.drop_left' (toLE_length size a),
        List.getElem_cons_succ]
      exact ih r (by simpa using hr)

theorem packInts_getElem_slice (size : Nat) (nums : List Nat) (i : Nat) (hper : 0 < 32 / size)
    (hi : i < nums.length) (hj : i / (32 / size) < (packInts size nums).length) :
    (((packInts size nums)[i / (32 / size)]).drop ((i % (32 / size)) * size)).take size
      = toLE size nums[i] := by
  have hg : i / (32 / size) < (groups (32 / size) nums).length := by simpa [packInts] using hj
  have hdm := Nat.div_add_mod i (32 / size)
  have hmod := Nat.mod_lt i hper
  generalize hP : 32 / size = per at *
  have e1 : (packInts size nums)[i / per] =
      (((nums.drop (per * (i / per))).take per) ++
        List.replicate (per - ((nums.drop (per * (i / per))).take per).length) 0).flatMap
        fun v => toLE size v := by
    simp only [packInts, hP, List.getElem_map, groups_getElem hper _ _ hg]
  have hr : i % per < ((nums.drop (per * (i / per))).take per).length := by
    simp only [List.length_take, List.length_drop]; omega
  rw [e1, flatMap_toLE_slice size _ (i % per) (by simp only [List.length_append]; omega),
    List.getElem_append_left hr, List.getElem_take, List.getElem_drop]
  simp only [hdm]

theorem packInts_length' (et : Ty) (hwf : et.wf = true) (hb : et.isBasic = true) (ns : List Nat) :
    (packInts et.basicSize ns).length = chunkLen et ns.length := by
  have hper : 0 < 32 / et.basicSize := by
    rcases basicSize_cases et hwf hb with h | h | h | h | h | h <;> rw [h] <;> decide
  rw [packInts_length _ hper]
  simp [chunkLen, hb]

/-- `basic_view_from_backing` on a chunk whose slice `j` is the encoding of `v` returns `v` -/
theorem readBasicAt_slice (H : Hash) (et : Ty) (v : Val) (hb : et.isBasic = true)
    (hwt : WT et v = true) (c : Chunk) (j : Nat)
    (hs : (c.drop (j * et.basicSize)).take et.basicSize = toLE et.basicSize (numOf v)) :
    readBasicAt H et (.leaf c) j = some v := by
  cases et <;> simp [Ty.isBasic] at hb
  · rename_i nb
    cases v <;> simp [WT] at hwt
    rename_i x
    simp only [Ty.basicSize, numOf] at hs
    simp only [readBasicAt, Node.root, Ty.basicSize, hs, fromLE_toLE' nb x hwt]
  · cases v <;> simp [WT] at hwt
    rename_i x
    simp only [Ty.basicSize, numOf] at hs
    simp only [readBasicAt, Node.root, Ty.basicSize, hs]
    have : x = 0 ∨ x = 1 := by omega
    rcases this with rfl | rfl <;> simp [toLE]

/-- reading element `i` of a packed sequence of basic values stored in a chunk tree -/
theorem read_packed_elem (H : Hash) (et : Ty) (vs : List Val) (d : Nat) (n : Node)
    (hwf : et.wf = true) (hb : et.isBasic = true) (hwt : ∀ v ∈ vs, WT et v = true)
    (hct : ChunkTree H d ((packInts et.basicSize (vs.map numOf)).map .leaf) n)
    (i : Nat) (hi : i < vs.length) :
    ((getAt n (i / (32 / et.basicSize)) d).bind
        fun c => readBasicAt H et c (i % (32 / et.basicSize))) = some vs[i] ∧
      i / (32 / et.basicSize) < 2 ^ d := by
  have hper : 0 < 32 / et.basicSize := by
    rcases basicSize_cases et hwf hb with h | h | h | h | h | h <;> rw [h] <;> decide
  have hp := DefaultNode.packed_chunk_lt et hwf hb vs.length i hi
  have hlen := packInts_length' et hwf hb (vs.map numOf)
  rw [List.length_map] at hlen
  have hj : i / (32 / et.basicSize) < (packInts et.basicSize (vs.map numOf)).length := by
    rw [hlen]; exact hp.1
  have hj' : i / (32 / et.basicSize) <
      ((packInts et.basicSize (vs.map numOf)).map Node.leaf).length := by simpa using hj
  have hle := ct_length_le hct
  refine ⟨?_, by omega⟩
  rw [ct_get hct hj']
  simp only [Option.bind_some, List.getElem_map]
  apply readBasicAt_slice H et vs[i] hb (hwt _ (List.getElem_mem _))
  have := packInts_getElem_slice et.basicSize (vs.map numOf) i hper (by simpa using hi) hj
  simpa using this


mutual
/-- every list / bitlist / bytelist limit occurring in the type is `< 2^256` (so that the length
    stored in the 32-byte length leaf is read back exactly) -/
def limitsOk : Ty → Bool
  | .uint _ => true
  | .bool => true
  | .bitvector _ => true
  | .bytevector _ => true
  | .bitlist lim => lim < 2 ^ 256
  | .bytelist lim => lim < 2 ^ 256
  | .vector t _ => limitsOk t
  | .list t lim => lim < 2 ^ 256 && limitsOk t
  | .container fs => limitsOkList fs
  | .union _ opts => limitsOkList opts
def limitsOkList : List Ty → Bool
  | [] => true
  | t :: ts => limitsOk t && limitsOkList ts
end

mutual
theorem repr_read_aux (H : Hash) (t : Ty) (v : Val) (n : Node) (hwf : t.wf = true)
    (hlim : limitsOk t = true) (h : Impl.Repr H t v n) : readVal H t n = some v := by
  cases t with
  | uint nb =>
    cases v <;> simp only [Impl.Repr] at h
    rename_i x
    obtain ⟨hx, rfl⟩ := h
    simp only [readVal]
    exact readBasicAt_slice H (.uint nb) (.num x) rfl (by simp [WT, hx]) _ 0
      (by simpa [Ty.basicSize, numOf] using take_chunkOfLE nb x)
  | bool =>
    cases v <;> simp only [Impl.Repr] at h
    rename_i x
    obtain ⟨hx, rfl⟩ := h
    simp only [readVal]
    exact readBasicAt_slice H .bool (.num x) rfl (by simp [WT, hx]) _ 0
      (by simpa [Ty.basicSize, numOf] using take_chunkOfLE 1 x)
  | bitvector len =>
    cases v <;> simp only [Impl.Repr] at h
    rename_i bs
    obtain ⟨hlen, hct⟩ := h
    subst hlen
    simp only [readVal]
    rw [allSome_range_getElem bs _ (fun i hi => (read_bit_elem H bs _ n hct i hi).1)]
    rfl
  | bitlist lim =>
    cases v <;> simp only [Impl.Repr] at h
    rename_i bs
    obtain ⟨hlen, c, rfl, hct⟩ := h
    simp [limitsOk] at hlim
    simp only [readVal, listLength_mixin H c _ (by omega : bs.length < 2 ^ 256)]
    have key : ∀ i (hi : i < bs.length),
        (getAt (mixInNode c bs.length) (i / 256) (getDepth ((lim + 255) / 256) + 1)).map
          (fun c => bitOfChunk (c.root H) i) = some bs[i] := by
      intro i hi
      have := read_bit_elem H bs _ c hct i hi
      rw [mixInNode, getAt_mixin _ _ this.2]
      exact this.1
    rw [allSome_range_getElem bs _ key]
    rfl
  | bytevector len =>
    cases v <;> simp only [Impl.Repr] at h
    rename_i bs
    obtain ⟨hlen, hct⟩ := h
    subst hlen
    simp only [readVal]
    exact read_bytes_ct H bs _ n hct
  | bytelist lim =>
    cases v <;> simp only [Impl.Repr] at h
    rename_i bs
    obtain ⟨hlen, c, rfl, hct⟩ := h
    simp [limitsOk] at hlim
    simp only [readVal, mixInNode, getLeft, getRight,
      readLen_lenNode H _ (by omega : bs.length < 2 ^ 256)]
    rw [if_neg (by omega)]
    exact read_bytes_ct H bs _ c hct
  | vector et len =>
    cases v <;> simp only [Impl.Repr] at h
    rename_i vs
    simp [Ty.wf] at hwf
    simp only [limitsOk] at hlim
    obtain ⟨hlen, h⟩ := h
    subst hlen
    simp only [readVal]
    by_cases hb : et.isBasic = true
    · simp only [hb, if_true] at h ⊢
      rw [allSome_range_getElem vs _
        (fun i hi => (read_packed_elem H et vs _ n hwf.2 hb h.1 h.2 i hi).1)]
      rfl
    · simp only [hb, Bool.false_eq_true, if_false] at h ⊢
      obtain ⟨ns, hall, hct⟩ := h
      have hl := allRel_length hall
      have key : ∀ i (hi : i < vs.length),
          ((getAt n i (getDepth (chunkLen et vs.length))).bind fun c => readVal H et c)
            = some vs[i] := by
        intro i hi
        have hi' : i < ns.length := by omega
        rw [ct_get hct hi']
        exact repr_read_aux H et vs[i] ns[i] hwf.2 hlim (allRel_get hall i hi hi')
      rw [allSome_range_getElem vs _ key]
      rfl
  | list et lim =>
    cases v <;> simp only [Impl.Repr] at h
    rename_i vs
    simp [Ty.wf] at hwf
    simp [limitsOk] at hlim
    obtain ⟨hlen, c, rfl, h⟩ := h
    simp only [readVal, listLength_mixin H c _ (by omega : vs.length < 2 ^ 256)]
    by_cases hb : et.isBasic = true
    · simp only [hb, if_true] at h ⊢
      have key : ∀ i (hi : i < vs.length),
          ((getAt (mixInNode c vs.length) (i / (32 / et.basicSize))
              (getDepth (chunkLen et lim) + 1)).bind
            fun c => readBasicAt H et c (i % (32 / et.basicSize))) = some vs[i] := by
        intro i hi
        have := read_packed_elem H et vs _ c hwf hb h.1 h.2 i hi
        rw [mixInNode, getAt_mixin _ _ this.2]
        exact this.1
      rw [allSome_range_getElem vs _ key]
      rfl
    · simp only [hb, Bool.false_eq_true, if_false] at h ⊢
      obtain ⟨ns, hall, hct⟩ := h
      have hl := allRel_length hall
      have hle := ct_length_le hct
      have key : ∀ i (hi : i < vs.length),
          ((getAt (mixInNode c vs.length) i (getDepth (chunkLen et lim) + 1)).bind
            fun c => readVal H et c) = some vs[i] := by
        intro i hi
        have hi' : i < ns.length := by omega
        rw [mixInNode, getAt_mixin _ _ (by omega), ct_get hct hi']
        exact repr_read_aux H et vs[i] ns[i] hwf hlim.2 (allRel_get hall i hi hi')
      rw [allSome_range_getElem vs _ key]
      rfl
  | container fs =>
    cases v <;> simp only [Impl.Repr] at h
    rename_i vs
    simp [Ty.wf] at hwf
    simp only [limitsOk] at hlim
    obtain ⟨ns, hf, hct⟩ := h
    simp only [readVal]
    rw [reprFields_read_aux H fs vs ns hwf.2 hlim hf n (getDepth fs.length) 0 (fun i hi => by
      rw [Nat.zero_add, ct_get hct hi, List.getElem?_eq_getElem hi])]
    rfl
  | union hasNone opts =>
    cases v <;> simp only [Impl.Repr] at h
    rename_i sel v
    simp [Ty.wf] at hwf
    simp only [limitsOk] at hlim
    obtain ⟨hsel, c, rfl, h⟩ := h
    have hsel' : sel < 2 ^ 256 := by omega
    simp only [readVal, getLeft, getRight, readLen_lenNode H sel hsel']
    rw [if_neg (by omega)]
    by_cases hc : (hasNone && sel == 0) = true
    · simp only [hc, if_true] at h ⊢
      obtain ⟨rfl, rfl⟩ := h
      simp only [Bool.and_eq_true, beq_iff_eq] at hc
      rw [hc.2]
      simp [Node.root, zeroNode]
    · simp only [hc, Bool.false_eq_true, if_false] at h ⊢
      rw [reprOpt_read_aux H opts _ v c hwf.2 hlim h]
      rfl

theorem reprFields_read_aux (H : Hash) (fs : List Ty) (vs : List Val) (ns : List Node)
    (hwf : Ty.wfList fs = true) (hlim : limitsOkList fs = true) (h : ReprFields H fs vs ns)
    (n : Node) (depth k : Nat) (hget : ∀ i, i < ns.length → getAt n (k + i) depth = ns[i]?) :
    readFields H fs n depth k = some vs := by
  cases fs with
  | nil =>
    cases vs with
    | nil => simp [readFields]
    | cons v vs => cases ns <;> simp only [ReprFields] at h
  | cons t ts =>
    cases vs with
    | nil => cases ns <;> simp only [ReprFields] at h
    | cons v vs =>
      cases ns with
      | nil => simp only [ReprFields] at h
      | cons m ms =>
        simp [Ty.wfList] at hwf
        simp [limitsOkList] at hlim
        simp only [ReprFields] at h
        have ih1 := repr_read_aux H t v m hwf.1 hlim.1 h.1
        have ih2 := reprFields_read_aux H ts vs ms hwf.2 hlim.2 h.2 n depth (k + 1) (fun i hi => by
          have := hget (i + 1) (by simp; omega)
          rw [List.getElem?_cons_succ] at this
          rw [← this]; congr 1; omega)
        have h0 := hget 0 (by simp)
        simp only [Nat.add_zero, List.getElem?_cons_zero] at h0
        simp only [readFields, h0, Option.bind_some, ih1, ih2]

theorem reprOpt_read_aux (H : Hash) (opts : List Ty) (k : Nat) (v : Val) (c : Node)
    (hwf : Ty.wfList opts = true) (hlim : limitsOkList opts = true) (h : ReprOpt H opts k v c) :
    readOpt H opts k c = some v := by
  cases opts with
  | nil => simp only [ReprOpt] at h
  | cons t ts =>
    simp [Ty.wfList] at hwf
    simp [limitsOkList] at hlim
    cases k with
    | zero =>
      simp only [ReprOpt] at h
      simp only [readOpt]
      exact repr_read_aux H t v c hwf.1 hlim.1 h
    | succ k =>
      simp only [ReprOpt] at h
      simp only [readOpt]
      exact reprOpt_read_aux H ts k v c hwf.2 hlim.2 h
end

/-! ## 6. the statements of the task -/

variable (H : Hash)

/-- 1. every constructor route lands in `Repr` -/
theorem construct_repr (t : Ty) (v : Val) (n : Node) (hwf : t.wf = true)
    (h : Impl.construct H t v = some n) : Impl.Repr H t v n :=
  construct_repr_aux H t v n hwf h

theorem constructFields_repr (fs : List Ty) (vs : List Val) (ns : List Node)
    (hwf : Ty.wfList fs = true) (h : Impl.constructFields H fs vs = some ns) :
    ReprFields H fs vs ns :=
  constructFields_repr_aux H fs vs ns hwf h

theorem constructOpt_repr (opts : List Ty) (k : Nat) (v : Val) (n : Node)
    (hwf : Ty.wfList opts = true) (h : Impl.constructOpt H opts k v = some n) :
    ReprOpt H opts k v n :=
  constructOpt_repr_aux H opts k v n hwf h

/-- 2. the default tree represents the zero value -/
theorem default_repr (t : Ty) (n : Node) (hwf : t.wf = true)
    (h : Impl.defaultNode H t = some n) : Impl.Repr H t (Spec.zeroVal t) n :=
  default_repr_aux H t n hwf h

theorem defaultNodes_repr (fs : List Ty) (ns : List Node) (hwf : Ty.wfList fs = true)
    (h : Impl.defaultNodes H fs = some ns) : ReprFields H fs (Spec.zeroVals fs) ns :=
  defaultNodes_repr_aux H fs ns hwf h

theorem defaultNodeHead_repr (opts : List Ty) (c : Node) (hwf : Ty.wfList opts = true)
    (h : Impl.defaultNodeHead H opts = some c) : ReprOpt H opts 0 (Spec.zeroValHead opts) c :=
  defaultNodeHead_repr_aux H opts c hwf h

/-- 3. only well-typed values are represented (no well-formedness hypothesis needed) -/
theorem repr_wt (t : Ty) (v : Val) (n : Node) (h : Impl.Repr H t v n) : WT t v = true :=
  repr_wt_aux H t v n h

theorem reprFields_wt (fs : List Ty) (vs : List Val) (ns : List Node)
    (h : ReprFields H fs vs ns) : WTs fs vs = true :=
  reprFields_wt_aux H fs vs ns h

theorem reprOpt_wt (opts : List Ty) (k : Nat) (v : Val) (n : Node) (h : ReprOpt H opts k v n) :
    WTopt opts k v = true :=
  reprOpt_wt_aux H opts k v n h

/-- 4. EVERY tree shape that represents `v` has the spec root -/
theorem repr_root (t : Ty) (v : Val) (n : Node) (hwf : t.wf = true) (h : Impl.Repr H t v n) :
    n.root H = Spec.htr H t v :=
  repr_root_aux H t v n hwf h

theorem reprFields_root (fs : List Ty) (vs : List Val) (ns : List Node)
    (hwf : Ty.wfList fs = true) (h : ReprFields H fs vs ns) :
    ns.map (·.root H) = Spec.htrFields H fs vs :=
  reprFields_root_aux H fs vs ns hwf h

theorem reprOpt_root (opts : List Ty) (k : Nat) (v : Val) (n : Node)
    (hwf : Ty.wfList opts = true) (h : ReprOpt H opts k v n) :
    n.root H = Spec.htrOpt H opts k v :=
  reprOpt_root_aux H opts k v n hwf h

/-- 5. reading the whole content through the view API returns exactly the represented value.
    `hlim`: every list / bitlist / bytelist limit in `t` is `< 2^256` (the length leaf has 32 bytes). -/
theorem repr_read (t : Ty) (v : Val) (n : Node) (hwf : t.wf = true) (hlim : limitsOk t = true)
    (h : Impl.Repr H t v n) : Impl.readVal H t n = some v :=
  repr_read_aux H t v n hwf hlim h

theorem reprFields_read (fs : List Ty) (vs : List Val) (ns : List Node)
    (hwf : Ty.wfList fs = true) (hlim : limitsOkList fs = true) (h : ReprFields H fs vs ns)
    (n : Node) (depth k : Nat) (hget : ∀ i, i < ns.length → getAt n (k + i) depth = ns[i]?) :
    Impl.readFields H fs n depth k = some vs :=
  reprFields_read_aux H fs vs ns hwf hlim h n depth k hget

theorem reprOpt_read (opts : List Ty) (k : Nat) (v : Val) (c : Node)
    (hwf : Ty.wfList opts = true) (hlim : limitsOkList opts = true) (h : ReprOpt H opts k v c) :
    Impl.readOpt H opts k c = some v :=
  reprOpt_read_aux H opts k v c hwf hlim h

/-- 6. two nodes representing the same value have the same root -/
theorem repr_unique_root (t : Ty) (v : Val) (n n' : Node) (hwf : t.wf = true)
    (h : Impl.Repr H t v n) (h' : Impl.Repr H t v n') : n.root H = n'.root H := by
  rw [repr_root H t v n hwf h, repr_root H t v n' hwf h']

/-- a node represents at most one value -/
theorem repr_unique_val (t : Ty) (v v' : Val) (n : Node) (hwf : t.wf = true)
    (hlim : limitsOk t = true) (h : Impl.Repr H t v n) (h' : Impl.Repr H t v' n) : v = v' := by
  have h1 := repr_read H t v n hwf hlim h
  rw [repr_read H t v' n hwf hlim h'] at h1
  exact (Option.some.inj h1).symm

/-- every well-typed value of a well-formed type is represented by its constructor tree -/
theorem repr_exists (t : Ty) (v : Val) (hwf : t.wf = true) (hwt : WT t v = true) :
    ∃ n, Impl.construct H t v = some n ∧ Impl.Repr H t v n := by
  obtain ⟨n, hn⟩ := Option.isSome_iff_exists.1 (construct_isSome H t v hwf hwt)
  exact ⟨n, hn, construct_repr H t v n hwf hn⟩

/-- constructor round trip: reading a constructed tree gives the value back -/
theorem construct_read (t : Ty) (v : Val) (n : Node) (hwf : t.wf = true)
    (hlim : limitsOk t = true) (h : Impl.construct H t v = some n) :
    Impl.readVal H t n = some v :=
  repr_read H t v n hwf hlim (construct_repr H t v n hwf h)

/-- the default tree and any tree representing the zero value (e.g. the explicitly constructed
    one, or one reached by appends and pops) have the same root -/
theorem default_root_eq_of_repr (t : Ty) (n m : Node) (hwf : t.wf = true)
    (hd : Impl.defaultNode H t = some n) (hm : Impl.Repr H t (Spec.zeroVal t) m) :
    n.root H = m.root H :=
  repr_unique_root H t _ n m hwf (default_repr H t n hwf hd) hm

/-! Non-vacuity: `Repr` admits a summarised and an expanded tree for the same value. -/
example : Impl.Repr H (.list (.uint 8) 8) (.seq []) (mixInNode (zeroNode H 1) 0) := by
  simp only [Impl.Repr]
  refine ⟨by simp, _, rfl, ?_⟩
  have hd : getDepth (chunkLen (.uint 8) 8) = 1 := by decide
  simp only [Ty.isBasic, if_true, List.map_nil, packInts_nil, hd]
  exact ⟨by simp, ct_zero H 1⟩

example : Impl.Repr H (.list (.uint 8) 8) (.seq [])
    (mixInNode (.pair (zeroNode H 0) (zeroNode H 0)) 0) := by
  simp only [Impl.Repr]
  refine ⟨by simp, _, rfl, ?_⟩
  have hd : getDepth (chunkLen (.uint 8) 8) = 1 := by decide
  simp only [Ty.isBasic, if_true, List.map_nil, packInts_nil, hd]
  exact ⟨by simp, ct_nil_of_isZero (.pair 0 _ _ (.summary 0) (.summary 0))⟩

end Rmk.ReprBasics
