/-
C15 (last clause): `==` on views compares hash-tree-roots.  With a collision-free pair hash the SSZ
hash-tree-root is injective on the well-typed values of a type, so equal roots mean equal content.

Hypotheses that are really used:
* `Injective2 H` (collision-freeness of the pair hash) — nothing about zero hashes is needed: lengths
  of lists are compared first through the mixed-in length, and for equal lengths the chunk lists have
  equal lengths, where `merkleize` is injective by `Injective2` alone;
* `t.wf` — only used for unions (at most 128 options, so that the selector fits the 32-byte mix-in);
* `ReprBasics.limitsOk t` — every list / bitlist / bytelist limit is `< 2^256`, so that the 32-byte
  length mix-in determines the length.  (Both side conditions are necessary in some form: a
  `List[uint8, 2^256]` of `2^256` zero bytes has the root of the empty list, because `toLE 32`
  truncates and the contents are all-zero chunks; selectors `s` and `s + 2^256` collide likewise.)
-/
import Rmk.Proofs.BytesLemmas
import Rmk.Proofs.Merkle
import Rmk.Proofs.DiffHistory
import Rmk.Proofs.ReprBasics
namespace Rmk.RootInjective
open Rmk Rmk.Spec Rmk.ReprBasics

/-! ### generic list helpers -/

theorem flatMap_length_const {α β} (f : α → List β) (s : Nat) (vs : List α)
    (h : ∀ v ∈ vs, (f v).length = s) : (vs.flatMap f).length = vs.length * s := by
  induction vs with
  | nil => simp
  | cons v vs ih =>
    simp only [List.flatMap_cons, List.length_append, List.length_cons]
    rw [h v (by simp), ih (fun x hx => h x (by simp [hx])), Nat.succ_mul]
    omega

/-- concatenation of equally long pieces determines the pieces -/
theorem flatMap_inj {α β} (f : α → List β) (s : Nat) :
    ∀ (vs ws : List α), vs.length = ws.length → (∀ v ∈ vs, (f v).length = s) →
      (∀ w ∈ ws, (f w).length = s) → vs.flatMap f = ws.flatMap f → vs.map f = ws.map f
  | [], [], _, _, _, _ => rfl
  | [], _ :: _, hl, _, _, _ => by simp at hl
  | _ :: _, [], hl, _, _, _ => by simp at hl
  | v :: vs, w :: ws, hl, hv, hw, h => by
    simp only [List.flatMap_cons] at h
    have hlen : (f v).length = (f w).length := by
      rw [hv v (by simp), hw w (by simp)]
    obtain ⟨h1, h2⟩ := List.append_inj h hlen
    have := flatMap_inj f s vs ws (by simpa using hl) (fun x hx => hv x (by simp [hx]))
      (fun x hx => hw x (by simp [hx])) h2
    simp only [List.map_cons, h1, this]

/-- a map that is injective on a predicate is injective on lists satisfying it pointwise -/
theorem map_inj_on {α β} (f : α → β) (P : α → Prop)
    (hf : ∀ a b, P a → P b → f a = f b → a = b) :
    ∀ (vs ws : List α), (∀ v ∈ vs, P v) → (∀ w ∈ ws, P w) → vs.map f = ws.map f → vs = ws
  | [], [], _, _, _ => rfl
  | [], _ :: _, _, _, h => by simp at h
  | _ :: _, [], _, _, h => by simp at h
  | v :: vs, w :: ws, hv, hw, h => by
    simp only [List.map_cons, List.cons.injEq] at h
    have e1 := hf v w (hv v (by simp)) (hw w (by simp)) h.1
    have e2 := map_inj_on f P hf vs ws (fun x hx => hv x (by simp [hx]))
      (fun x hx => hw x (by simp [hx])) h.2
    rw [e1, e2]

/-! ### `merkleize` is injective on chunk lists of the same length -/

theorem merkleize_inj (H : Hash) (hH : Injective2 H) (d : Nat) :
    ∀ (as bs : List Chunk), as.length = bs.length → as.length ≤ 2 ^ d →
      merkleize H as d = merkleize H bs d → as = bs := by
  induction d with
  | zero =>
    intro as bs hl hle h
    match as, bs, hl, hle with
    | [], [], _, _ => rfl
    | [a], [b], _, _ =>
      rw [merkleize_zero_singleton, merkleize_zero_singleton] at h
      rw [h]
    | [], _ :: _, hl, _ => simp at hl
    | [_], [], hl, _ => simp at hl
    | [_], _ :: _ :: _, hl, _ => simp at hl
    | _ :: _ :: _, _, _, hle => simp at hle
  | succ d ih =>
    intro as bs hl hle h
    have hle' : bs.length ≤ 2 ^ (d + 1) := hl ▸ hle
    rw [merkleize_split H as d hle, merkleize_split H bs d hle'] at h
    obtain ⟨h1, h2⟩ := hH _ _ _ _ h
    have hp : 2 ^ (d + 1) = 2 ^ d + 2 ^ d := by rw [Nat.pow_succ]; omega
    have e1 := ih (as.take (2 ^ d)) (bs.take (2 ^ d)) (by simp [hl]) (by simp; omega) h1
    have e2 := ih (as.drop (2 ^ d)) (bs.drop (2 ^ d)) (by simp [hl]) (by simp; omega) h2
    rw [← List.take_append_drop (2 ^ d) as, ← List.take_append_drop (2 ^ d) bs, e1, e2]

/-! ### mix-in, padding, packing -/

theorem two_pow_256 : (256 : Nat) ^ 32 = 2 ^ 256 := by rw [pow_256_eq]

theorem mixIn_inj (H : Hash) (hH : Injective2 H) (r s : Chunk) (n m : Nat)
    (hn : n < 2 ^ 256) (hm : m < 2 ^ 256) (h : mixIn H r n = mixIn H s m) : r = s ∧ n = m := by
  obtain ⟨h1, h2⟩ := hH _ _ _ _ h
  exact ⟨h1, toLE_inj (k := 32) (by rw [two_pow_256]; exact hn) (by rw [two_pow_256]; exact hm) h2⟩

theorem padRight_inj {as bs : List UInt8} (n : Nat) (hl : as.length = bs.length)
    (h : padRight as n = padRight bs n) : as = bs := by
  have h1 := take_padRight as n
  have h2 := take_padRight bs n
  rw [h, hl, h2] at h1
  exact h1.symm

theorem pack_inj {as bs : List UInt8} (hl : as.length = bs.length) (h : pack as = pack bs) :
    as = bs := by
  have h1 := take_bytesToChunks_flatten as
  have h2 := take_bytesToChunks_flatten bs
  unfold pack at h
  rw [h, hl, h2] at h1
  exact h1.symm

theorem pack_length (bs : List UInt8) : (pack bs).length = (bs.length + 31) / 32 :=
  bytesToChunks_length bs

theorem bitsToBytes_inj {as bs : List Bool} (hl : as.length = bs.length)
    (h : bitsToBytes as = bitsToBytes bs) : as = bs := by
  have h1 := bytesToBits_bitsToBytes as
  have h2 := bytesToBits_bitsToBytes bs
  rw [h, hl, h2] at h1
  exact h1.symm

theorem ofNat_inj_small {n m : Nat} (hn : n < 256) (hm : m < 256)
    (h : UInt8.ofNat n = UInt8.ofNat m) : n = m := by
  have := congrArg UInt8.toNat h
  simp only [UInt8.toNat_ofNat'] at this
  omega

/-! ### basic element types: serialization has constant length and is injective -/

theorem serialize_basic_length (t : Ty) (v : Val) (hb : t.isBasic = true) (hv : WT t v = true) :
    (serialize t v).length = t.basicSize := by
  cases t <;> simp [Ty.isBasic] at hb
  · cases v <;> simp [WT] at hv
    simp [serialize, Ty.basicSize]
  · cases v <;> simp [WT] at hv
    simp [serialize, Ty.basicSize]

theorem serialize_basic_inj (t : Ty) (v w : Val) (hb : t.isBasic = true) (hv : WT t v = true)
    (hw : WT t w = true) (h : serialize t v = serialize t w) : v = w := by
  cases t <;> simp [Ty.isBasic] at hb
  · rename_i nb
    cases v <;> simp [WT] at hv
    cases w <;> simp [WT] at hw
    simp only [serialize] at h
    rw [toLE_inj (k := nb) (by rw [pow_256_eq]; exact hv) (by rw [pow_256_eq]; exact hw) h]
  · cases v <;> simp [WT] at hv
    cases w <;> simp [WT] at hw
    simp only [serialize, List.cons.injEq, and_true] at h
    rw [ofNat_inj_small (by omega) (by omega) h]

/-- packed basic elements: equal packed chunks and equal element count give equal elements -/
theorem packed_inj (t : Ty) (vs ws : List Val) (hb : t.isBasic = true)
    (hv : ∀ v ∈ vs, WT t v = true) (hw : ∀ w ∈ ws, WT t w = true) (hl : vs.length = ws.length)
    (h : pack (vs.flatMap fun v => serialize t v) = pack (ws.flatMap fun v => serialize t v)) :
    vs = ws := by
  have hlv : ∀ v ∈ vs, (serialize t v).length = t.basicSize :=
    fun v hm => serialize_basic_length t v hb (hv v hm)
  have hlw : ∀ w ∈ ws, (serialize t w).length = t.basicSize :=
    fun w hm => serialize_basic_length t w hb (hw w hm)
  have hbytes := pack_inj (by
    rw [flatMap_length_const _ _ vs hlv, flatMap_length_const _ _ ws hlw, hl]) h
  have hmap := flatMap_inj (fun v => serialize t v) t.basicSize vs ws hl hlv hlw hbytes
  exact map_inj_on (fun v => serialize t v) (fun v => WT t v = true)
    (fun a b ha hb' he => serialize_basic_inj t a b hb ha hb' he) vs ws hv hw hmap

theorem packed_chunks_le (t : Ty) (vs : List Val) (hb : t.isBasic = true)
    (hv : ∀ v ∈ vs, WT t v = true) (lim : Nat) (hl : vs.length ≤ lim) :
    (pack (vs.flatMap fun v => serialize t v)).length
      ≤ 2 ^ depthFor ((lim * t.basicSize + 31) / 32) := by
  have hlv : ∀ v ∈ vs, (serialize t v).length = t.basicSize :=
    fun v hm => serialize_basic_length t v hb (hv v hm)
  rw [pack_length, flatMap_length_const _ _ vs hlv]
  have h1 : vs.length * t.basicSize ≤ lim * t.basicSize := Nat.mul_le_mul_right _ hl
  have h2 := two_pow_getDepth ((lim * t.basicSize + 31) / 32)
  unfold depthFor
  omega

theorem packed_chunks_len_eq (t : Ty) (vs ws : List Val) (hb : t.isBasic = true)
    (hv : ∀ v ∈ vs, WT t v = true) (hw : ∀ w ∈ ws, WT t w = true) (hl : vs.length = ws.length) :
    (pack (vs.flatMap fun v => serialize t v)).length
      = (pack (ws.flatMap fun v => serialize t v)).length := by
  have hlv : ∀ v ∈ vs, (serialize t v).length = t.basicSize :=
    fun v hm => serialize_basic_length t v hb (hv v hm)
  have hlw : ∀ w ∈ ws, (serialize t w).length = t.basicSize :=
    fun w hm => serialize_basic_length t w hb (hw w hm)
  rw [pack_length, pack_length, flatMap_length_const _ _ vs hlv, flatMap_length_const _ _ ws hlw, hl]

/-! ### bits and bytes -/

theorem bits_chunks_le (bs : List Bool) (lim : Nat) (hl : bs.length ≤ lim) :
    (pack (bitsToBytes bs)).length ≤ 2 ^ depthFor ((lim + 255) / 256) := by
  rw [pack_length, bitsToBytes_length]
  have h2 := two_pow_getDepth ((lim + 255) / 256)
  unfold depthFor
  omega

theorem bytes_chunks_le (bs : List UInt8) (lim : Nat) (hl : bs.length ≤ lim) :
    (pack bs).length ≤ 2 ^ depthFor ((lim + 31) / 32) := by
  rw [pack_length]
  have h2 := two_pow_getDepth ((lim + 31) / 32)
  unfold depthFor
  omega

/-- bit contents root (without mix-in) determines the bits, for a known number of bits -/
theorem bits_root_inj (H : Hash) (hH : Injective2 H) (as bs : List Bool) (lim : Nat)
    (hl : as.length = bs.length) (hle : as.length ≤ lim)
    (h : merkleize H (pack (bitsToBytes as)) (depthFor ((lim + 255) / 256))
      = merkleize H (pack (bitsToBytes bs)) (depthFor ((lim + 255) / 256))) : as = bs := by
  have hc := merkleize_inj H hH _ _ _
    (by rw [pack_length, pack_length, bitsToBytes_length, bitsToBytes_length, hl])
    (bits_chunks_le as lim hle) h
  exact bitsToBytes_inj hl (pack_inj (by rw [bitsToBytes_length, bitsToBytes_length, hl]) hc)

theorem bytes_root_inj (H : Hash) (hH : Injective2 H) (as bs : List UInt8) (lim : Nat)
    (hl : as.length = bs.length) (hle : as.length ≤ lim)
    (h : merkleize H (pack as) (depthFor ((lim + 31) / 32))
      = merkleize H (pack bs) (depthFor ((lim + 31) / 32))) : as = bs := by
  have hc := merkleize_inj H hH _ _ _
    (by rw [pack_length, pack_length, hl]) (bytes_chunks_le as lim hle) h
  exact pack_inj hl hc

/-- sequence of packed basic elements -/
theorem packed_root_inj (H : Hash) (hH : Injective2 H) (t : Ty) (vs ws : List Val) (lim : Nat)
    (hb : t.isBasic = true) (hv : ∀ v ∈ vs, WT t v = true) (hw : ∀ w ∈ ws, WT t w = true)
    (hl : vs.length = ws.length) (hle : vs.length ≤ lim)
    (h : merkleize H (pack (vs.flatMap fun v => serialize t v))
          (depthFor ((lim * t.basicSize + 31) / 32))
      = merkleize H (pack (ws.flatMap fun v => serialize t v))
          (depthFor ((lim * t.basicSize + 31) / 32))) : vs = ws := by
  have hc := merkleize_inj H hH _ _ _ (packed_chunks_len_eq t vs ws hb hv hw hl)
    (packed_chunks_le t vs hb hv lim hle) h
  exact packed_inj t vs ws hb hv hw hl hc

/-- sequence of composite elements, given injectivity of the element root -/
theorem elems_root_inj (H : Hash) (hH : Injective2 H) (t : Ty) (vs ws : List Val) (lim : Nat)
    (ih : ∀ v w, WT t v = true → WT t w = true → htr H t v = htr H t w → v = w)
    (hv : ∀ v ∈ vs, WT t v = true) (hw : ∀ w ∈ ws, WT t w = true)
    (hl : vs.length = ws.length) (hle : vs.length ≤ lim)
    (h : merkleize H (vs.map fun v => htr H t v) (depthFor lim)
      = merkleize H (ws.map fun v => htr H t v) (depthFor lim)) : vs = ws := by
  have hc := merkleize_inj H hH _ _ _ (by simp [hl])
    (by simpa [depthFor] using Nat.le_trans hle (two_pow_getDepth lim)) h
  exact map_inj_on (fun v => htr H t v) (fun v => WT t v = true) ih vs ws hv hw hc

/-! ### well-typedness facts -/

theorem WTs_length : ∀ (fs : List Ty) (vs : List Val), WTs fs vs = true → vs.length = fs.length
  | [], [], _ => rfl
  | [], _ :: _, h => by simp [WTs] at h
  | _ :: _, [], h => by simp [WTs] at h
  | _ :: fs, _ :: vs, h => by
    simp only [WTs, Bool.and_eq_true] at h
    simp [WTs_length fs vs h.2]

theorem htrFields_length (H : Hash) : ∀ (fs : List Ty) (vs : List Val), vs.length = fs.length →
    (htrFields H fs vs).length = fs.length
  | [], [], _ => rfl
  | [], _ :: _, h => by simp at h
  | _ :: _, [], h => by simp at h
  | _ :: fs, _ :: vs, h => by
    simp only [htrFields, List.length_cons]
    rw [htrFields_length H fs vs (by simpa using h)]

theorem WTopt_lt : ∀ (opts : List Ty) (k : Nat) (v : Val), WTopt opts k v = true → k < opts.length
  | [], _, _, h => by simp [WTopt] at h
  | _ :: _, 0, _, _ => by simp
  | _ :: ts, k + 1, v, h => by
    simp only [WTopt] at h
    have := WTopt_lt ts k v h
    simp only [List.length_cons]
    omega

/-- a well-typed union value has a selector below the option count -/
theorem union_sel_lt (hasNone : Bool) (opts : List Ty) (sel : Nat) (v : Val)
    (hv : WT (.union hasNone opts) (.un sel v) = true) : sel < optCount hasNone opts + 1 := by
  simp only [WT] at hv
  by_cases hc : (hasNone && sel == 0) = true
  · simp only [Bool.and_eq_true, beq_iff_eq] at hc
    omega
  · simp only [hc, Bool.false_eq_true, if_false] at hv
    have := WTopt_lt opts _ v hv
    unfold optIndex at this
    unfold optCount
    cases hasNone <;> simp at this ⊢ <;> omega

/-! ### the main theorem -/

mutual
theorem htr_inj_aux (H : Hash) (hH : Injective2 H) (t : Ty) (hwf : t.wf = true)
    (hlim : limitsOk t = true) (v w : Val) (hv : WT t v = true) (hw : WT t w = true)
    (h : htr H t v = htr H t w) : v = w := by
  cases t with
  | uint nb =>
    cases v <;> simp [WT] at hv
    cases w <;> simp [WT] at hw
    simp only [htr] at h
    have := padRight_inj 32 (by simp) h
    rw [toLE_inj (k := nb) (by rw [pow_256_eq]; exact hv) (by rw [pow_256_eq]; exact hw) this]
  | bool =>
    cases v <;> simp [WT] at hv
    cases w <;> simp [WT] at hw
    simp only [htr] at h
    have := padRight_inj 32 (by simp) h
    simp only [List.cons.injEq, and_true] at this
    rw [ofNat_inj_small (by omega) (by omega) this]
  | bitvector n =>
    cases v <;> simp [WT] at hv
    cases w <;> simp [WT] at hw
    simp only [htr] at h
    rw [bits_root_inj H hH _ _ n (by omega) (by omega) h]
  | bitlist lim =>
    cases v <;> simp [WT] at hv
    cases w <;> simp [WT] at hw
    simp [limitsOk] at hlim
    simp only [htr] at h
    obtain ⟨h1, h2⟩ := mixIn_inj H hH _ _ _ _ (by omega) (by omega) h
    rw [bits_root_inj H hH _ _ lim h2 hv h1]
  | bytevector n =>
    cases v <;> simp [WT] at hv
    cases w <;> simp [WT] at hw
    simp only [htr] at h
    rw [bytes_root_inj H hH _ _ n (by omega) (by omega) h]
  | bytelist lim =>
    cases v <;> simp [WT] at hv
    cases w <;> simp [WT] at hw
    simp [limitsOk] at hlim
    simp only [htr] at h
    obtain ⟨h1, h2⟩ := mixIn_inj H hH _ _ _ _ (by omega) (by omega) h
    rw [bytes_root_inj H hH _ _ lim h2 hv h1]
  | vector et n =>
    cases v <;> simp [WT] at hv
    cases w <;> simp [WT] at hw
    rename_i vs ws
    simp [Ty.wf] at hwf
    simp [limitsOk] at hlim
    simp only [htr] at h
    by_cases hb : et.isBasic = true
    · simp only [hb, if_true] at h
      rw [packed_root_inj H hH et vs ws n hb hv.2 hw.2 (by omega) (by omega) h]
    · simp only [hb, Bool.false_eq_true, if_false] at h
      rw [elems_root_inj H hH et vs ws n
        (fun a b ha hb' he => htr_inj_aux H hH et hwf.2 hlim a b ha hb' he)
        hv.2 hw.2 (by omega) (by omega) h]
  | list et lim =>
    cases v <;> simp [WT] at hv
    cases w <;> simp [WT] at hw
    rename_i vs ws
    simp [Ty.wf] at hwf
    simp [limitsOk] at hlim
    simp only [htr] at h
    by_cases hb : et.isBasic = true
    · simp only [hb, if_true] at h
      obtain ⟨h1, h2⟩ := mixIn_inj H hH _ _ _ _ (by omega) (by omega) h
      rw [packed_root_inj H hH et vs ws lim hb hv.2 hw.2 h2 hv.1 h1]
    · simp only [hb, Bool.false_eq_true, if_false] at h
      obtain ⟨h1, h2⟩ := mixIn_inj H hH _ _ _ _ (by omega) (by omega) h
      rw [elems_root_inj H hH et vs ws lim
        (fun a b ha hb' he => htr_inj_aux H hH et hwf hlim.2 a b ha hb' he)
        hv.2 hw.2 h2 hv.1 h1]
  | container fs =>
    cases v <;> simp only [WT, Bool.false_eq_true] at hv
    cases w <;> simp only [WT, Bool.false_eq_true] at hw
    rename_i vs ws
    simp [Ty.wf] at hwf
    simp only [limitsOk] at hlim
    simp only [htr] at h
    have hlv := WTs_length fs vs hv
    have hlw := WTs_length fs ws hw
    have hc := merkleize_inj H hH _ _ _
      (by rw [htrFields_length H fs vs hlv, htrFields_length H fs ws hlw])
      (by rw [htrFields_length H fs vs hlv]; exact two_pow_getDepth fs.length) h
    rw [htrFields_inj_aux H hH fs hwf.2 hlim vs ws hv hw hc]
  | union hasNone opts =>
    cases v <;> simp only [WT, Bool.false_eq_true] at hv
    cases w <;> simp only [WT, Bool.false_eq_true] at hw
    rename_i sv v sw w
    have hsv := union_sel_lt hasNone opts sv v (by simpa only [WT] using hv)
    have hsw := union_sel_lt hasNone opts sw w (by simpa only [WT] using hw)
    simp [Ty.wf] at hwf
    simp only [limitsOk] at hlim
    simp only [htr] at h
    have hbig : (129 : Nat) < 2 ^ 256 := by decide
    obtain ⟨h1, h2⟩ := mixIn_inj H hH _ _ _ _ (by omega) (by omega) h
    subst h2
    by_cases hc : (hasNone && sv == 0) = true
    · simp only [hc, if_true] at hv hw
      cases v <;> simp at hv
      cases w <;> simp at hw
      rfl
    · simp only [hc, Bool.false_eq_true, if_false] at hv hw h1
      rw [htrOpt_inj_aux H hH opts hwf.2 hlim _ v w hv hw h1]

theorem htrFields_inj_aux (H : Hash) (hH : Injective2 H) (fs : List Ty)
    (hwf : Ty.wfList fs = true) (hlim : limitsOkList fs = true) (vs ws : List Val)
    (hv : WTs fs vs = true) (hw : WTs fs ws = true)
    (h : htrFields H fs vs = htrFields H fs ws) : vs = ws := by
  cases fs with
  | nil =>
    cases vs with
    | nil =>
      cases ws with
      | nil => rfl
      | cons _ _ => simp [WTs] at hw
    | cons _ _ => simp [WTs] at hv
  | cons t ts =>
    cases vs with
    | nil => simp [WTs] at hv
    | cons v vs =>
      cases ws with
      | nil => simp [WTs] at hw
      | cons w ws =>
        simp only [WTs, Bool.and_eq_true] at hv hw
        simp only [Ty.wfList, Bool.and_eq_true] at hwf
        simp only [limitsOkList, Bool.and_eq_true] at hlim
        simp only [htrFields, List.cons.injEq] at h
        rw [htr_inj_aux H hH t hwf.1 hlim.1 v w hv.1 hw.1 h.1,
          htrFields_inj_aux H hH ts hwf.2 hlim.2 vs ws hv.2 hw.2 h.2]

theorem htrOpt_inj_aux (H : Hash) (hH : Injective2 H) (opts : List Ty)
    (hwf : Ty.wfList opts = true) (hlim : limitsOkList opts = true) (k : Nat) (v w : Val)
    (hv : WTopt opts k v = true) (hw : WTopt opts k w = true)
    (h : htrOpt H opts k v = htrOpt H opts k w) : v = w := by
  cases opts with
  | nil => simp [WTopt] at hv
  | cons t ts =>
    simp only [Ty.wfList, Bool.and_eq_true] at hwf
    simp only [limitsOkList, Bool.and_eq_true] at hlim
    cases k with
    | zero =>
      simp only [WTopt] at hv hw
      simp only [htrOpt] at h
      exact htr_inj_aux H hH t hwf.1 hlim.1 v w hv hw h
    | succ k =>
      simp only [WTopt] at hv hw
      simp only [htrOpt] at h
      exact htrOpt_inj_aux H hH ts hwf.2 hlim.2 k v w hv hw h
end

/-- **C15, last clause.**  With a collision-free pair hash, the hash-tree-root is injective on the
    well-typed values of a well-formed type whose limits fit the 32-byte length mix-in. -/
theorem htr_injective (H : Hash) (hH : Injective2 H) (t : Ty) (hwf : t.wf = true)
    (hlim : limitsOk t = true) (v w : Val) (hv : WT t v = true) (hw : WT t w = true) :
    htr H t v = htr H t w → v = w :=
  htr_inj_aux H hH t hwf hlim v w hv hw

/-- `==` (equality of roots) is equality of contents -/
theorem eq_iff_content (H : Hash) (hH : Injective2 H) (t : Ty) (hwf : t.wf = true)
    (hlim : limitsOk t = true) (v w : Val) (hv : WT t v = true) (hw : WT t w = true) :
    htr H t v = htr H t w ↔ v = w :=
  ⟨htr_injective H hH t hwf hlim v w hv hw, fun e => by rw [e]⟩

theorem htrFields_injective (H : Hash) (hH : Injective2 H) (fs : List Ty)
    (hwf : Ty.wfList fs = true) (hlim : limitsOkList fs = true) (vs ws : List Val)
    (hv : WTs fs vs = true) (hw : WTs fs ws = true) :
    htrFields H fs vs = htrFields H fs ws → vs = ws :=
  htrFields_inj_aux H hH fs hwf hlim vs ws hv hw

/-! Non-vacuity: the side conditions hold for an ordinary type (a list of containers). -/
example (H : Hash) (hH : Injective2 H) (v w : Val)
    (hv : WT (.list (.container [.uint 8, .bitlist 10, .union true [.bool]]) 4) v = true)
    (hw : WT (.list (.container [.uint 8, .bitlist 10, .union true [.bool]]) 4) w = true)
    (h : htr H (.list (.container [.uint 8, .bitlist 10, .union true [.bool]]) 4) v
      = htr H (.list (.container [.uint 8, .bitlist 10, .union true [.bool]]) 4) w) : v = w :=
  htr_injective H hH _ (by decide) (by decide) v w hv hw h

end Rmk.RootInjective
