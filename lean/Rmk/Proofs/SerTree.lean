/-
Property C02: serialising from the backing tree (`Impl.serTree`, the mirror of `view.serialize(stream)`)
yields exactly the SSZ serialisation (`Spec.serialize`) of the represented value, together with the
correct returned byte count.  Generic in the pair hash `H`.
-/
import Rmk.Impl.Codec
import Rmk.Impl.Repr
import Rmk.Proofs.BytesLemmas
import Rmk.Proofs.Sizes
import Rmk.Proofs.ChunkTree
import Rmk.Proofs.ConstructRoot
import Rmk.Proofs.ReprBasics
namespace Rmk.SerTree
open Rmk Rmk.Impl Rmk.Spec
open Rmk.ChunkTreeLemmas Rmk.ConstructRoot Rmk.ReprBasics

/-! ## 1. streaming = interleaving -/

theorem sum_eq_fixedTotal (parts : List (Bool × List UInt8)) :
    (parts.map fun (p : Bool × List UInt8) => if p.1 then p.2.length else 4).sum = fixedTotal parts := by
  induction parts with
  | nil => rfl
  | cons p rest ih =>
    obtain ⟨f, b⟩ := p
    cases f <;> simp [fixedTotal, ih]

theorem foldl_fields (parts : List (Bool × List UInt8)) (fo dy : List UInt8) (off : Nat) :
    parts.foldl (fun (acc : List UInt8 × List UInt8 × Nat) (p : Bool × List UInt8) =>
      if p.1 then (acc.1 ++ p.2, acc.2.1, acc.2.2)
      else (acc.1 ++ toLE 4 acc.2.2, acc.2.1 ++ p.2, acc.2.2 + p.2.length)) (fo, dy, off)
      = (fo ++ fixedSection parts off, dy ++ varSection parts, off + (varSection parts).length) := by
  induction parts generalizing fo dy off with
  | nil => simp [fixedSection, varSection]
  | cons p rest ih =>
    obtain ⟨f, b⟩ := p
    cases f
    · simp only [List.foldl_cons, Bool.false_eq_true, if_false, ih, fixedSection, varSection,
        List.append_assoc, List.length_append, Nat.add_assoc]
    · simp only [List.foldl_cons, if_true, ih, fixedSection, varSection, List.append_assoc]

theorem interleave_length_eq (parts : List (Bool × List UInt8)) :
    (interleave parts).length = fixedTotal parts + (varSection parts).length := by
  simp [interleave, Rmk.Sizes.fixedSection_length]

/-- the loop of `Container.serialize` writes the interleaved encoding and returns its length -/
theorem streamFields_eq (parts : List (Bool × List UInt8)) :
    streamFields parts = (interleave parts, (interleave parts).length) := by
  unfold streamFields
  simp only [foldl_fields, sum_eq_fixedTotal, List.nil_append, interleave_length_eq]
  rw [List.take_of_length_le (by omega)]
  rfl

theorem foldl_var (parts : List (List UInt8)) (fo dy : List UInt8) (off : Nat) :
    parts.foldl (fun (acc : List UInt8 × List UInt8 × Nat) p =>
      (acc.1 ++ toLE 4 acc.2.2, acc.2.1 ++ p, acc.2.2 + p.length)) (fo, dy, off)
      = (fo ++ fixedSection (parts.map fun p => (false, p)) off,
         dy ++ varSection (parts.map fun p => (false, p)),
         off + (varSection (parts.map fun p => (false, p))).length) := by
  induction parts generalizing fo dy off with
  | nil => simp [fixedSection, varSection]
  | cons p rest ih =>
    simp only [List.foldl_cons, ih, List.map_cons, fixedSection, varSection,
      List.append_assoc, List.length_append, Nat.add_assoc]

theorem fixedTotal_var (parts : List (List UInt8)) :
    fixedTotal (parts.map fun p => (false, p)) = 4 * parts.length := by
  induction parts with
  | nil => rfl
  | cons p rest ih => simp only [List.map_cons, fixedTotal, ih, List.length_cons]; omega

/-- the streaming offset loop of `MonoSubtreeView.serialize` -/
theorem streamVar_eq (parts : List (List UInt8)) :
    streamVar parts = (interleave (parts.map fun p => (false, p)),
      (interleave (parts.map fun p => (false, p))).length) := by
  unfold streamVar
  simp only [foldl_var, List.nil_append, interleave_length_eq, fixedTotal_var]
  rw [List.take_of_length_le (by omega)]
  simp only [interleave, fixedTotal_var]

/-- fixed-size parts: interleaving is concatenation -/
theorem interleave_fixed (parts : List (List UInt8)) :
    interleave (parts.map fun p => (true, p)) = parts.flatten := by
  have h2 : varSection (parts.map fun p => (true, p)) = [] := by
    induction parts with
    | nil => rfl
    | cons p rest ih => simp only [List.map_cons, varSection, ih]
  have h1 : ∀ off, fixedSection (parts.map fun p => (true, p)) off = parts.flatten := by
    intro off
    clear h2
    induction parts with
    | nil => rfl
    | cons p rest ih => simp only [List.map_cons, fixedSection, ih, List.flatten_cons]
  simp [interleave, h1, h2]

theorem flatten_length_const (k : Nat) (parts : List (List UInt8))
    (h : ∀ p ∈ parts, p.length = k) : parts.flatten.length = k * parts.length := by
  induction parts with
  | nil => simp
  | cons p rest ih =>
    simp only [List.flatten_cons, List.length_append, List.length_cons, h p (by simp),
      ih (fun q hq => h q (by simp [hq])), Nat.mul_succ]
    omega

/-! ## 2. bit fields -/

theorem allSome_range_eq {β} (k : Nat) (l : List β) (f : Nat → Option β) (hk : l.length = k)
    (h : ∀ i (hi : i < l.length), f i = some l[i]) :
    allSome ((List.range k).map f) = some l := by
  subst hk
  exact allSome_range_getElem l f h

/-- reading a prefix of the chunks of a chunk tree of leaves -/
theorem readChunks_prefix (H : Hash) (d : Nat) (cs : List Chunk) (n : Node)
    (hct : ChunkTree H d (cs.map .leaf) n) (k : Nat) (hk : k ≤ cs.length) :
    readChunks H n d k = some (cs.take k).flatten := by
  unfold readChunks
  rw [allSome_range_eq k ((cs.take k).map Node.leaf) (fun i => getAt n i d)
    (by simp; omega) (fun i hi => by
      have hi' : i < k := by simp at hi; omega
      rw [ct_get hct (i := i) (by simp; omega)]
      simp)]
  rw [Option.map_some, flatMap_root_map_leaf]

theorem flatten_length_chunks (l : List Chunk) (h : ∀ c ∈ l, c.length = 32) :
    l.flatten.length = 32 * l.length := flatten_length_const 32 l h

theorem chunks_prefix_last_aux (B : List UInt8) (cs : List Chunk)
    (hflat : cs.flatten.take B.length = B) (h32' : ∀ c ∈ cs, c.length = 32)
    (hlen : cs.length = (B.length + 31) / 32) (hne : 0 < cs.length) :
    (cs.take (cs.length - 1)).flatten ++
      (cs[cs.length - 1]).take (B.length - (cs.length - 1) * 32) = B := by
  have hk : cs.length - 1 < cs.length := by omega
  have h32 : ∀ c ∈ cs.take (cs.length - 1), c.length = 32 :=
    fun c hc => h32' c (List.mem_of_mem_take hc)
  have hX := flatten_length_chunks _ h32
  rw [List.length_take] at hX
  have hfl : cs.flatten = (cs.take (cs.length - 1)).flatten ++ cs[cs.length - 1] := by
    have h1 : cs.take (cs.length - 1 + 1) = cs := List.take_of_length_le (by omega)
    have h2 := List.take_succ_eq_append_getElem hk
    rw [h1] at h2
    calc cs.flatten = (cs.take (cs.length - 1) ++ [cs[cs.length - 1]]).flatten := by rw [← h2]
      _ = _ := by
        simp only [List.flatten_append, List.flatten_cons, List.flatten_nil, List.append_nil]
  have key := hflat
  rw [hfl, List.take_append] at key
  rw [List.take_of_length_le (by omega)] at key
  rw [hX] at key
  have e : B.length - 32 * min (cs.length - 1) cs.length = B.length - (cs.length - 1) * 32 := by
    omega
  rw [e] at key
  exact key

/-- all chunks but the last, then the remaining bytes of the last chunk: the original bytes -/
theorem chunks_prefix_last (B : List UInt8) (hne : 0 < (bytesToChunks B).length) :
    ((bytesToChunks B).take ((bytesToChunks B).length - 1)).flatten ++
      ((bytesToChunks B)[(bytesToChunks B).length - 1]).take
        (B.length - ((bytesToChunks B).length - 1) * 32) = B :=
  chunks_prefix_last_aux B (bytesToChunks B) (take_bytesToChunks_flatten B)
    (fun _ hc => length_of_mem_bytesToChunks hc) (bytesToChunks_length B) hne

/-- `Bitvector.serialize` on a chunk tree holding the packed bits -/
theorem serBitsRaw_ct (H : Hash) (bs : List Bool) (d : Nat) (n : Node)
    (hct : ChunkTree H d ((packBits bs).map .leaf) n) :
    serBitsRaw H n d bs.length = some (bitsToBytes bs) := by
  have hlen : (packBits bs).length = (bs.length + 255) / 256 := by rw [packBits_length]; omega
  have hB : (bitsToBytes bs).length = (bs.length + 7) / 8 := bitsToBytes_length bs
  unfold serBitsRaw
  simp only [← hlen, ← hB]
  rw [readChunks_prefix H d (packBits bs) n hct ((packBits bs).length - 1) (by omega)]
  simp only []
  split
  · next hpos =>
    rw [ct_get hct (i := (packBits bs).length - 1) (by simp; omega)]
    simp only [Option.map_some, List.getElem_map, Node.root]
    congr 1
    exact chunks_prefix_last (bitsToBytes bs) hpos
  · next hz =>
    have h0 : bs.length = 0 := by omega
    have : bs = [] := List.eq_nil_of_length_eq_zero h0
    subst this
    rfl

/-- reading through the length mix-in -/
theorem serBitsRaw_mixin (H : Hash) (c lenN : Node) (d len : Nat)
    (h : (len + 255) / 256 ≤ 2 ^ d) :
    serBitsRaw H (.pair c lenN) (d + 1) len = serBitsRaw H c d len := by
  have hpos : 0 < 2 ^ d := Nat.pow_pos (by decide)
  unfold serBitsRaw
  have h1 : readChunks H (.pair c lenN) (d + 1) ((len + 255) / 256 - 1)
      = readChunks H c d ((len + 255) / 256 - 1) := by
    unfold readChunks
    congr 2
    apply List.map_congr_left
    intro i hi
    rw [List.mem_range] at hi
    exact getAt_mixin c lenN (by omega)
  have h2 : getAt (.pair c lenN) ((len + 255) / 256 - 1) (d + 1)
      = getAt c ((len + 255) / 256 - 1) d := getAt_mixin c lenN (by omega)
  simp only [h1, h2]

theorem bitsToBytes_short (g : List Bool) (h0 : 0 < g.length) (h8 : g.length ≤ 8) :
    bitsToBytes g = [UInt8.ofNat (bitsToNat g)] := by
  simp only [bitsToBytes, groups_single h0 h8, List.map_cons, List.map_nil]

theorem addDelimiter_aux (pre last : List Bool) (h8 : 8 ∣ pre.length) (h0 : 0 < last.length)
    (h7 : last.length < 8) :
    addDelimiter (bitsToBytes (pre ++ last)) (pre ++ last).length
      = bitsToBytes ((pre ++ last) ++ [true]) := by
  have hmod : (pre ++ last).length % 8 = last.length := by
    rw [List.length_append]; omega
  have hlt := bitsToNat_lt last
  have hpow : 2 ^ last.length ≤ 2 ^ 7 := Nat.pow_le_pow_right (by decide) (by omega)
  have hnat : (UInt8.ofNat (bitsToNat last)).toNat = bitsToNat last :=
    toNat_ofNat_bitsToNat (by omega)
  have hdiv : bitsToNat last / 2 ^ last.length = 0 := Nat.div_eq_of_lt hlt
  rw [List.append_assoc, bitsToBytes_append pre last h8, bitsToBytes_append pre _ h8,
    bitsToBytes_short last h0 (by omega),
    bitsToBytes_short (last ++ [true]) (by simp) (by simp; omega)]
  unfold addDelimiter
  rw [if_neg (by rw [List.length_append]; omega)]
  have hne : (last.length == 0) = false := beq_false_of_ne (by omega)
  simp only [hmod, hne, Bool.false_eq_true, if_false]
  have hl : (bitsToBytes pre ++ [UInt8.ofNat (bitsToNat last)]).getLastD 0
      = UInt8.ofNat (bitsToNat last) := by simp
  rw [hl, hnat, hdiv, List.dropLast_concat]
  simp [bitsToNat_append]

/-- `Bitlist.serialize`: the delimiter bit -/
theorem addDelimiter_spec (bs : List Bool) :
    addDelimiter (bitsToBytes bs) bs.length = bitsToBytes (bs ++ [true]) := by
  by_cases h0 : bs.length = 0
  · have : bs = [] := List.eq_nil_of_length_eq_zero h0
    subst this
    rfl
  by_cases hm : bs.length % 8 = 0
  · unfold addDelimiter
    rw [if_neg h0]
    have : (bs.length % 8 == 0) = true := by simp [hm]
    simp only [this, if_true]
    rw [bitsToBytes_append bs [true] (by omega)]
    rfl
  · have hq : 8 * (bs.length / 8) ≤ bs.length := by omega
    have hsplit : bs = bs.take (8 * (bs.length / 8)) ++ bs.drop (8 * (bs.length / 8)) :=
      (List.take_append_drop _ _).symm
    have h1 : (bs.take (8 * (bs.length / 8))).length = 8 * (bs.length / 8) := by
      rw [List.length_take]; omega
    have h2 : (bs.drop (8 * (bs.length / 8))).length = bs.length % 8 := by
      rw [List.length_drop]; omega
    have := addDelimiter_aux (bs.take (8 * (bs.length / 8))) (bs.drop (8 * (bs.length / 8)))
      (by rw [h1]; exact Nat.dvd_mul_right 8 _) (by omega) (by omega)
    rw [← hsplit] at this
    exact this

/-! ## 3. sequences -/

theorem allSome_range_map_eq {β γ} (k : Nat) (l : List β) (F : Nat → Option β) (G : List β → γ)
    (R : γ) (hk : l.length = k) (h : ∀ i (hi : i < l.length), F i = some l[i]) (hR : G l = R) :
    (allSome ((List.range k).map F)).map G = some R := by
  rw [allSome_range_eq k l F hk h, Option.map_some, hR]

/-- the per-element encoding used by the packed fast path is the SSZ encoding -/
theorem enc_basic (et : Ty) (v : Val) : et.isBasic = true → WT et v = true →
    (match et with
      | .bool => [UInt8.ofNat (numOf v)]
      | _ => toLE et.basicSize (numOf v)) = Spec.serialize et v := by
  intro hb hwt
  cases et <;> simp [Ty.isBasic] at hb
  · cases v <;> simp [WT] at hwt
    simp [Spec.serialize, Ty.basicSize, numOf]
  · cases v <;> simp [WT] at hwt
    simp [Spec.serialize, numOf]

theorem isFixed_basic (et : Ty) (hb : et.isBasic = true) : Spec.isFixed et = true := by
  cases et <;> simp [Ty.isBasic] at hb <;> rfl

theorem fixedLen_basic (et : Ty) (hb : et.isBasic = true) : Spec.fixedLen et = et.basicSize := by
  cases et <;> simp [Ty.isBasic] at hb <;> rfl

/-- SSZ serialisation of a homogeneous sequence (what `serialize (.vector et _) (.seq vs)` and
    `serialize (.list et _) (.seq vs)` unfold to) -/
def seqSer (et : Ty) (vs : List Val) : List UInt8 :=
  interleave (vs.map fun v => (isFixed et, serialize et v))

theorem seqSer_fixed (et : Ty) (vs : List Val) (hf : Spec.isFixed et = true) :
    seqSer et vs = (vs.map (serialize et)).flatten := by
  rw [← interleave_fixed, seqSer, hf, List.map_map]
  rfl

theorem seqSer_var (et : Ty) (vs : List Val) (hf : ¬ Spec.isFixed et = true) :
    seqSer et vs = interleave ((vs.map (serialize et)).map fun p => (false, p)) := by
  have : Spec.isFixed et = false := by simpa using hf
  rw [seqSer, this, List.map_map]
  rfl

theorem seqSer_fixed_length (et : Ty) (vs : List Val) (hwf : et.wf = true)
    (hf : Spec.isFixed et = true) (hwt : ∀ v ∈ vs, WT et v = true) :
    (seqSer et vs).length = Spec.fixedLen et * vs.length := by
  rw [seqSer_fixed et vs hf, flatten_length_const (Spec.fixedLen et), List.length_map]
  intro p hp
  obtain ⟨v, hv, rfl⟩ := List.mem_map.1 hp
  exact serialize_fixed et v hwf (hwt v hv) hf

/-- `MonoSubtreeView.serialize`, packed basic elements -/
theorem serSeqWith_packed (H : Hash) (ser : Node → Option (List UInt8 × Nat)) (et : Ty)
    (vs : List Val) (n : Node) (d : Nat) (hwf : et.wf = true) (hb : et.isBasic = true)
    (hwt : ∀ v ∈ vs, WT et v = true)
    (hget : ∀ i (hi : i < vs.length),
      ((getAt n (i / (32 / et.basicSize)) d).bind
        fun c => readBasicAt H et c (i % (32 / et.basicSize))) = some vs[i]) :
    serSeqWith H ser et n d vs.length = some (seqSer et vs, (seqSer et vs).length) := by
  have hf := isFixed_basic et hb
  unfold serSeqWith
  rw [if_pos hb]
  dsimp only
  refine allSome_range_map_eq vs.length (vs.map (serialize et)) _ _ _ (by simp)
    (fun i hi => ?_) ?_
  · have hi' : i < vs.length := by simpa using hi
    have := hget i hi'
    cases hg : getAt n (i / (32 / et.basicSize)) d with
    | none => simp [hg] at this
    | some c =>
      simp only [hg, Option.bind_some] at this ⊢
      have e := enc_basic et vs[i] hb (hwt _ (List.getElem_mem _))
      rw [this, Option.map_some, List.getElem_map]
      exact congrArg some e
  · rw [seqSer_fixed_length et vs hwf hf hwt, seqSer_fixed et vs hf, fixedLen_basic et hb]

/-- `MonoSubtreeView.serialize`, one node per element -/
theorem serSeqWith_unpacked (H : Hash) (ser : Node → Option (List UInt8 × Nat)) (et : Ty)
    (vs : List Val) (n : Node) (d : Nat) (hwf : et.wf = true) (hb : ¬ et.isBasic = true)
    (hwt : ∀ v ∈ vs, WT et v = true)
    (hget : ∀ i (hi : i < vs.length),
      (getAt n i d).bind ser = some (serialize et vs[i], (serialize et vs[i]).length)) :
    serSeqWith H ser et n d vs.length = some (seqSer et vs, (seqSer et vs).length) := by
  have key : allSome ((List.range vs.length).map fun i => (getAt n i d).bind ser)
      = some (vs.map fun v => (serialize et v, (serialize et v).length)) :=
    allSome_range_eq _ _ _ (by simp) (fun i hi => by
      rw [hget i (by simpa using hi)]; simp)
  unfold serSeqWith
  rw [if_neg hb]
  simp only [key, List.map_map]
  have hm : (vs.map ((fun (x : List UInt8 × Nat) => x.1) ∘ fun v =>
      (serialize et v, (serialize et v).length))) = vs.map (serialize et) := rfl
  rw [hm]
  by_cases hf : Spec.isFixed et = true
  · rw [if_pos hf, seqSer_fixed_length et vs hwf hf hwt, seqSer_fixed et vs hf]
  · rw [if_neg hf, streamVar_eq, seqSer_var et vs hf]

/-! ## 4. the main theorem -/

mutual
theorem repr_ser_aux (H : Hash) (t : Ty) (v : Val) (n : Node) (hwf : t.wf = true)
    (hlim : limitsOk t = true) (h : Impl.Repr H t v n) :
    serTree H t n = some (Spec.serialize t v, (Spec.serialize t v).length) := by
  cases t with
  | uint nb =>
    cases v <;> simp only [Impl.Repr] at h
    rename_i x
    obtain ⟨hx, rfl⟩ := h
    have hr : readBasicAt H (.uint nb) (.leaf (chunkOfLE nb x)) 0 = some (.num x) :=
      readBasicAt_slice H (.uint nb) (.num x) rfl (by simp [WT, hx]) _ 0
        (by simpa [Ty.basicSize, numOf] using take_chunkOfLE nb x)
    simp only [serTree, hr, Spec.serialize, toLE_length]
  | bool =>
    cases v <;> simp only [Impl.Repr] at h
    rename_i x
    obtain ⟨hx, rfl⟩ := h
    have hr : readBasicAt H .bool (.leaf (chunkOfLE 1 x)) 0 = some (.num x) :=
      readBasicAt_slice H .bool (.num x) rfl (by simp [WT, hx]) _ 0
        (by simpa [Ty.basicSize, numOf] using take_chunkOfLE 1 x)
    simp only [serTree, hr, Spec.serialize, List.length_singleton]
  | bitvector len =>
    cases v <;> simp only [Impl.Repr] at h
    rename_i bs
    obtain ⟨hlen, hct⟩ := h
    subst hlen
    simp only [serTree, serBitsRaw_ct H bs _ n hct, Option.map_some, Spec.serialize,
      bitsToBytes_length]
  | bitlist lim =>
    cases v <;> simp only [Impl.Repr] at h
    rename_i bs
    obtain ⟨hlen, c, rfl, hct⟩ := h
    simp [limitsOk] at hlim
    have hle := ct_length_le hct
    simp only [List.length_map, packBits_length] at hle
    have hle2 : (bs.length + 255) / 256 ≤ 2 ^ getDepth ((lim + 255) / 256) := by omega
    simp only [serTree, listLength_mixin H c _ (by omega : bs.length < 2 ^ 256)]
    rw [mixInNode, serBitsRaw_mixin H c _ _ _ hle2, serBitsRaw_ct H bs _ c hct]
    have e : (bs.length + 1 + 7) / 8 = (bs.length + 8) / 8 := by omega
    simp only [Option.map_some, addDelimiter_spec, Spec.serialize, bitsToBytes_length,
      List.length_append, List.length_singleton, e]
  | bytevector len =>
    have hr := repr_read H _ _ _ hwf hlim h
    cases v <;> simp only [Impl.Repr] at h
    simp only [serTree, hr, Spec.serialize]
  | bytelist lim =>
    have hr := repr_read H _ _ _ hwf hlim h
    cases v <;> simp only [Impl.Repr] at h
    simp only [serTree, hr, Spec.serialize]
  | vector et len =>
    cases v <;> simp only [Impl.Repr] at h
    rename_i vs
    simp [Ty.wf] at hwf
    simp only [limitsOk] at hlim
    obtain ⟨hlen, h⟩ := h
    subst hlen
    simp only [serTree, Spec.serialize]
    by_cases hb : et.isBasic = true
    · simp only [hb, if_true] at h
      exact serSeqWith_packed H _ et vs n _ hwf.2 hb h.1
        (fun i hi => (read_packed_elem H et vs _ n hwf.2 hb h.1 h.2 i hi).1)
    · simp only [hb, Bool.false_eq_true, if_false] at h
      obtain ⟨ns, hall, hct⟩ := h
      have hl := allRel_length hall
      refine serSeqWith_unpacked H _ et vs n _ hwf.2 hb ?_ (fun i hi => ?_)
      · exact allRel_forall_left hall (fun w _ m hr => repr_wt H et w m hr)
      · have hi' : i < ns.length := by omega
        rw [ct_get hct hi']
        exact repr_ser_aux H et vs[i] ns[i] hwf.2 hlim (allRel_get hall i hi hi')
  | list et lim =>
    cases v <;> simp only [Impl.Repr] at h
    rename_i vs
    simp [Ty.wf] at hwf
    simp [limitsOk] at hlim
    obtain ⟨hlen, c, rfl, h⟩ := h
    simp only [serTree, listLength_mixin H c _ (by omega : vs.length < 2 ^ 256), Spec.serialize]
    by_cases hb : et.isBasic = true
    · simp only [hb, if_true] at h
      refine serSeqWith_packed H _ et vs _ _ hwf hb h.1 (fun i hi => ?_)
      have := read_packed_elem H et vs _ c hwf hb h.1 h.2 i hi
      rw [mixInNode, getAt_mixin _ _ this.2]
      exact this.1
    · simp only [hb, Bool.false_eq_true, if_false] at h
      obtain ⟨ns, hall, hct⟩ := h
      have hl := allRel_length hall
      have hle := ct_length_le hct
      refine serSeqWith_unpacked H _ et vs _ _ hwf hb ?_ (fun i hi => ?_)
      · exact allRel_forall_left hall (fun w _ m hr => repr_wt H et w m hr)
      · have hi' : i < ns.length := by omega
        rw [mixInNode, getAt_mixin _ _ (by omega), ct_get hct hi']
        exact repr_ser_aux H et vs[i] ns[i] hwf hlim.2 (allRel_get hall i hi hi')
  | container fs =>
    cases v <;> simp only [Impl.Repr] at h
    rename_i vs
    simp [Ty.wf] at hwf
    simp only [limitsOk] at hlim
    obtain ⟨ns, hf, hct⟩ := h
    simp only [serTree, Spec.serialize]
    rw [reprFields_ser_aux H fs vs ns hwf.2 hlim hf n (getDepth fs.length) 0 (fun i hi => by
      rw [Nat.zero_add, ct_get hct hi, List.getElem?_eq_getElem hi])]
    simp only [Option.map_some, streamFields_eq]
  | union hasNone opts =>
    cases v <;> simp only [Impl.Repr] at h
    rename_i sel v
    simp [Ty.wf] at hwf
    simp only [limitsOk] at hlim
    obtain ⟨hsel, c, rfl, h⟩ := h
    have hsel' : sel < 2 ^ 256 := by omega
    simp only [serTree, getLeft, getRight, readLen_lenNode H sel hsel']
    rw [if_neg (by omega)]
    by_cases hc : (hasNone && sel == 0) = true
    · simp only [hc, if_true] at h ⊢
      obtain ⟨rfl, rfl⟩ := h
      simp [Node.root, zeroNode, zeroHash, Spec.serialize, hc]
    · simp only [hc, Bool.false_eq_true, if_false] at h ⊢
      rw [reprOpt_ser_aux H opts _ v c hwf.2 hlim h]
      simp only [Option.map_some, Spec.serialize, hc, Bool.false_eq_true, if_false,
        List.length_cons]
      rw [Nat.add_comm]

theorem reprFields_ser_aux (H : Hash) (fs : List Ty) (vs : List Val) (ns : List Node)
    (hwf : Ty.wfList fs = true) (hlim : limitsOkList fs = true) (h : ReprFields H fs vs ns)
    (n : Node) (depth k : Nat) (hget : ∀ i, i < ns.length → getAt n (k + i) depth = ns[i]?) :
    serFields H fs n depth k = some (Spec.serializeFields fs vs) := by
  cases fs with
  | nil =>
    cases vs with
    | nil => simp [serFields, Spec.serializeFields]
    | cons v vs => cases ns <;> simp only [ReprFields] at h
  | cons t ts =>
    cases vs with
    | nil => cases ns <;> simp only [ReprFields] at h
    | cons v vs =>
      cases ns with
      | nil => simp only [ReprFields] at h
      | cons m ms =>
        simp [Ty.wfList] at hwf
        simp [limitsOkList] at hlim
        simp only [ReprFields] at h
        have ih1 := repr_ser_aux H t v m hwf.1 hlim.1 h.1
        have ih2 := reprFields_ser_aux H ts vs ms hwf.2 hlim.2 h.2 n depth (k + 1) (fun i hi => by
          have := hget (i + 1) (by simp; omega)
          rw [List.getElem?_cons_succ] at this
          rw [← this]; congr 1; omega)
        have h0 := hget 0 (by simp)
        simp only [Nat.add_zero, List.getElem?_cons_zero] at h0
        simp only [serFields, h0, Option.bind_some, ih1, ih2, Spec.serializeFields]

theorem reprOpt_ser_aux (H : Hash) (opts : List Ty) (k : Nat) (v : Val) (c : Node)
    (hwf : Ty.wfList opts = true) (hlim : limitsOkList opts = true) (h : ReprOpt H opts k v c) :
    serOpt H opts k c = some (Spec.serializeOpt opts k v, (Spec.serializeOpt opts k v).length) := by
  cases opts with
  | nil => simp only [ReprOpt] at h
  | cons t ts =>
    simp [Ty.wfList] at hwf
    simp [limitsOkList] at hlim
    cases k with
    | zero =>
      simp only [ReprOpt] at h
      simp only [serOpt, Spec.serializeOpt]
      exact repr_ser_aux H t v c hwf.1 hlim.1 h
    | succ k =>
      simp only [ReprOpt] at h
      simp only [serOpt, Spec.serializeOpt]
      exact reprOpt_ser_aux H ts k v c hwf.2 hlim.2 h
end

/-! ## 5. the statements of the task -/

variable (H : Hash)

/-- C02: serialising from ANY tree that represents `v` yields the SSZ serialisation of `v`, and the
    returned count is its length.  `hlim`: every list / bitlist / bytelist limit in `t` is `< 2^256`
    (the length is read back from a 32-byte leaf). -/
theorem repr_ser (t : Ty) (v : Val) (n : Node) (hwf : t.wf = true) (hlim : limitsOk t = true)
    (h : Impl.Repr H t v n) :
    Impl.serTree H t n = some (Spec.serialize t v, (Spec.serialize t v).length) :=
  repr_ser_aux H t v n hwf hlim h

/-- container fields: the per-field `(isFixed, bytes)` list handed to the streaming loop -/
theorem reprFields_ser (fs : List Ty) (vs : List Val) (ns : List Node)
    (hwf : Ty.wfList fs = true) (hlim : limitsOkList fs = true) (h : ReprFields H fs vs ns)
    (n : Node) (depth k : Nat) (hget : ∀ i, i < ns.length → getAt n (k + i) depth = ns[i]?) :
    Impl.serFields H fs n depth k = some (Spec.serializeFields fs vs) :=
  reprFields_ser_aux H fs vs ns hwf hlim h n depth k hget

/-- union options -/
theorem reprOpt_ser (opts : List Ty) (k : Nat) (v : Val) (c : Node)
    (hwf : Ty.wfList opts = true) (hlim : limitsOkList opts = true) (h : ReprOpt H opts k v c) :
    Impl.serOpt H opts k c
      = some (Spec.serializeOpt opts k v, (Spec.serializeOpt opts k v).length) :=
  reprOpt_ser_aux H opts k v c hwf hlim h

/-- constructing a tree from a well-typed value and serialising it gives the SSZ serialisation -/
theorem construct_ser (t : Ty) (v : Val) (hwf : t.wf = true) (hlim : limitsOk t = true)
    (hwt : WT t v = true) :
    ∃ n, Impl.construct H t v = some n ∧
      Impl.serTree H t n = some (Spec.serialize t v, (Spec.serialize t v).length) := by
  obtain ⟨n, hn, hr⟩ := repr_exists H t v hwf hwt
  exact ⟨n, hn, repr_ser H t v n hwf hlim hr⟩

/-- two trees representing the same value serialise identically (whatever their shape) -/
theorem repr_ser_unique (t : Ty) (v : Val) (n n' : Node) (hwf : t.wf = true)
    (hlim : limitsOk t = true) (h : Impl.Repr H t v n) (h' : Impl.Repr H t v n') :
    Impl.serTree H t n = Impl.serTree H t n' := by
  rw [repr_ser H t v n hwf hlim h, repr_ser H t v n' hwf hlim h']

end Rmk.SerTree
