/-
Sizes (property C11): the length of `Spec.serialize t v` for well-formed `t` and well-typed `v`.

* `interleave_length`  : length of the interleaved fixed/variable sections
* `serialize_bounds`   : `minLen t ≤ |serialize t v| ≤ maxLen t`
* `fixed_min_max`      : for fixed-size types `minLen = maxLen = fixedLen`
* `serialize_fixed`    : fixed-size types serialize to exactly `fixedLen t` bytes
* `fixedLen_pos`       : `0 < fixedLen t` for fixed-size well-formed types
* `min_attained` / `max_attained` : the bounds are tight (witnesses `minVal`, `maxVal`)
-/
import Rmk.Spec.Ssz
import Rmk.Model.Types
namespace Rmk
open Rmk.Spec

/-! ## local byte-level facts (kept in a sub-namespace: `Rmk/Proofs/BytesLemmas.lean` has its own) -/
namespace Sizes

theorem toLE_length (k n : Nat) : (toLE k n).length = k := by
  induction k generalizing n with
  | zero => rfl
  | succ k ih => simp [toLE, ih]

theorem groupsAux8_length {α} (fuel : Nat) (xs : List α) (h : xs.length ≤ fuel) :
    (groupsAux 8 fuel xs).length = (xs.length + 7) / 8 := by
  induction fuel generalizing xs with
  | zero =>
    have : xs.length = 0 := by omega
    simp [groupsAux, this]
  | succ fuel ih =>
    unfold groupsAux
    cases xs with
    | nil => simp
    | cons x xs =>
      have hd : ((x :: xs).drop 8).length ≤ fuel := by
        simp only [List.length_drop, List.length_cons] at *; omega
      simp only [List.isEmpty_cons, Bool.false_eq_true, if_false, List.length_cons, ih _ hd]
      simp only [List.length_drop, List.length_cons]
      omega

theorem bitsToBytes_length (bs : List Bool) : (bitsToBytes bs).length = (bs.length + 7) / 8 := by
  simp [bitsToBytes, groups, groupsAux8_length _ _ (Nat.le_refl _)]

theorem zeros_length (n : Nat) : (zeros n).length = n := by simp [zeros]

theorem partLen_mono (f : Bool) {a b : Nat} (h : a ≤ b) : partLen f a ≤ partLen f b := by
  unfold partLen; split <;> omega

/-- length of a part list as it is laid out by `interleave` -/
def partsLen (parts : List (Bool × List UInt8)) : Nat :=
  (parts.map fun p => partLen p.1 p.2.length).sum

theorem partsLen_nil : partsLen [] = 0 := rfl

theorem partsLen_cons (f : Bool) (b : List UInt8) (rest : List (Bool × List UInt8)) :
    partsLen ((f, b) :: rest) = partLen f b.length + partsLen rest := by
  simp [partsLen]

theorem fixedSection_length (parts : List (Bool × List UInt8)) (off : Nat) :
    (fixedSection parts off).length = fixedTotal parts := by
  induction parts generalizing off with
  | nil => rfl
  | cons p rest ih =>
    obtain ⟨f, b⟩ := p
    cases f <;> simp [fixedSection, fixedTotal, ih, toLE_length]

theorem fixedTotal_add_varSection (parts : List (Bool × List UInt8)) :
    fixedTotal parts + (varSection parts).length = partsLen parts := by
  induction parts with
  | nil => rfl
  | cons p rest ih =>
    obtain ⟨f, b⟩ := p
    cases f <;> simp [fixedTotal, varSection, partsLen_cons, partLen, ← ih] <;> omega

end Sizes

open Sizes

/-! ## 1. interleave -/

theorem interleave_length (parts : List (Bool × List UInt8)) :
    (Spec.interleave parts).length = (parts.map fun p => Spec.partLen p.1 p.2.length).sum := by
  have := fixedTotal_add_varSection parts
  simp only [partsLen] at this
  simp [interleave, fixedSection_length, this]

namespace Sizes

theorem interleave_length' (parts : List (Bool × List UInt8)) :
    (interleave parts).length = partsLen parts := interleave_length parts

/-- homogeneous sequences: element-wise bounds give bounds of the whole -/
theorem partsLen_map_bounds (f : Bool) (t : Ty) (lo hi : Nat) (vs : List Val)
    (h : ∀ v ∈ vs, lo ≤ (serialize t v).length ∧ (serialize t v).length ≤ hi) :
    vs.length * partLen f lo ≤ partsLen (vs.map fun v => (f, serialize t v)) ∧
    partsLen (vs.map fun v => (f, serialize t v)) ≤ vs.length * partLen f hi := by
  induction vs with
  | nil => simp [partsLen_nil]
  | cons v vs ih =>
    have hv := h v (by simp)
    have ih' := ih (fun w hw => h w (by simp [hw]))
    have h1 := partLen_mono f hv.1
    have h2 := partLen_mono f hv.2
    simp only [List.map_cons, partsLen_cons, List.length_cons, Nat.succ_mul]
    omega

theorem partsLen_replicate (f : Bool) (b : List UInt8) (n : Nat) :
    partsLen (List.replicate n (f, b)) = n * partLen f b.length := by
  induction n with
  | zero => simp [partsLen_nil]
  | succ n ih => simp only [List.replicate_succ, partsLen_cons, ih, Nat.succ_mul]; omega

end Sizes

/-! ## 3. bounds -/

mutual
theorem Sizes.ser_bounds (t : Ty) (v : Val) (hwf : t.wf = true) (hwt : WT t v = true) :
    minLen t ≤ (serialize t v).length ∧ (serialize t v).length ≤ maxLen t := by
  cases t with
  | uint nb =>
    cases v with
    | num n => simp [serialize, minLen, maxLen, toLE_length]
    | _ => simp [WT] at hwt
  | bool =>
    cases v with
    | num n => simp [serialize, minLen, maxLen]
    | _ => simp [WT] at hwt
  | bitvector n =>
    cases v with
    | bits bs =>
      simp [WT] at hwt
      simp [serialize, minLen, maxLen, bitsToBytes_length, hwt]
    | _ => simp [WT] at hwt
  | bitlist lim =>
    cases v with
    | bits bs =>
      simp [WT] at hwt
      simp only [serialize, minLen, maxLen, bitsToBytes_length, List.length_append,
        List.length_cons, List.length_nil]
      omega
    | _ => simp [WT] at hwt
  | bytevector n =>
    cases v with
    | bytes bs =>
      simp [WT] at hwt
      simp [serialize, minLen, maxLen, hwt]
    | _ => simp [WT] at hwt
  | bytelist lim =>
    cases v with
    | bytes bs =>
      simp [WT] at hwt
      simp [serialize, minLen, maxLen, hwt]
    | _ => simp [WT] at hwt
  | vector t n =>
    cases v with
    | seq vs =>
      simp [WT] at hwt
      simp [Ty.wf] at hwf
      have := partsLen_map_bounds (isFixed t) t (minLen t) (maxLen t) vs
        (fun v hv => Sizes.ser_bounds t v hwf.2 (hwt.2 v hv))
      simp only [serialize, minLen, maxLen, interleave_length']
      rw [← hwt.1]; exact this
    | _ => simp [WT] at hwt
  | list t lim =>
    cases v with
    | seq vs =>
      simp [WT] at hwt
      simp [Ty.wf] at hwf
      have := partsLen_map_bounds (isFixed t) t (minLen t) (maxLen t) vs
        (fun v hv => Sizes.ser_bounds t v hwf (hwt.2 v hv))
      simp only [serialize, minLen, maxLen, interleave_length']
      refine ⟨Nat.zero_le _, Nat.le_trans this.2 (Nat.mul_le_mul_right _ hwt.1)⟩
    | _ => simp [WT] at hwt
  | container fs =>
    cases v with
    | seq vs =>
      simp [WT] at hwt
      simp [Ty.wf] at hwf
      simp only [serialize, minLen, maxLen, interleave_length']
      exact Sizes.fields_bounds fs vs hwf.2 hwt
    | _ => simp [WT] at hwt
  | union hasNone opts =>
    cases v with
    | un sel v =>
      simp [Ty.wf] at hwf
      simp only [WT] at hwt
      simp only [serialize, minLen, maxLen, List.length_cons]
      split at hwt
      · rename_i hc
        simp only [hc, if_true, List.length_nil]
        simp at hc
        simp [hc.1]
      · rename_i hc
        simp only [hc]
        have := Sizes.opt_bounds opts (optIndex hasNone sel) v hwf.2 hwt
        simp only [Bool.false_eq_true, if_false]
        split <;> omega
    | _ => simp [WT] at hwt

theorem Sizes.fields_bounds (fs : List Ty) (vs : List Val) (hwf : Ty.wfList fs = true)
    (hwt : WTs fs vs = true) :
    minLenSum fs ≤ partsLen (serializeFields fs vs) ∧
    partsLen (serializeFields fs vs) ≤ maxLenSum fs := by
  cases fs with
  | nil =>
    cases vs with
    | nil => simp [serializeFields, minLenSum, maxLenSum, partsLen_nil]
    | cons v vs => simp [WTs] at hwt
  | cons t ts =>
    cases vs with
    | nil => simp [WTs] at hwt
    | cons v vs =>
      simp [WTs] at hwt
      simp [Ty.wfList] at hwf
      have h1 := Sizes.ser_bounds t v hwf.1 hwt.1
      have h2 := Sizes.fields_bounds ts vs hwf.2 hwt.2
      have h3 := partLen_mono (isFixed t) h1.1
      have h4 := partLen_mono (isFixed t) h1.2
      simp only [serializeFields, minLenSum, maxLenSum, partsLen_cons]
      omega

/-- for a selected option: at least the minimum and at most the maximum over the options -/
theorem Sizes.opt_bounds (opts : List Ty) (k : Nat) (v : Val) (hwf : Ty.wfList opts = true)
    (hwt : WTopt opts k v = true) :
    minLenMin opts ≤ (serializeOpt opts k v).length ∧
    (serializeOpt opts k v).length ≤ maxLenMax opts := by
  cases opts with
  | nil => simp [WTopt] at hwt
  | cons t ts =>
    simp [Ty.wfList] at hwf
    cases k with
    | zero =>
      simp only [WTopt] at hwt
      have h1 := Sizes.ser_bounds t v hwf.1 hwt
      simp only [serializeOpt, maxLenMax]
      cases ts with
      | nil => simp only [minLenMin]; omega
      | cons t' ts' => simp only [minLenMin]; omega
    | succ k =>
      simp only [WTopt] at hwt
      have h2 := Sizes.opt_bounds ts k v hwf.2 hwt
      simp only [serializeOpt, maxLenMax]
      cases ts with
      | nil => simp [WTopt] at hwt
      | cons t' ts' => simp only [minLenMin]; omega
end


theorem serialize_bounds (t : Ty) (v : Val) (hwf : t.wf = true) (hwt : WT t v = true) :
    Spec.minLen t ≤ (Spec.serialize t v).length ∧ (Spec.serialize t v).length ≤ Spec.maxLen t :=
  Sizes.ser_bounds t v hwf hwt

/-- container companion of `serialize_bounds` -/
theorem serializeFields_bounds (fs : List Ty) (vs : List Val) (hwf : Ty.wfList fs = true)
    (hwt : WTs fs vs = true) :
    Spec.minLenSum fs ≤ (Spec.interleave (Spec.serializeFields fs vs)).length ∧
    (Spec.interleave (Spec.serializeFields fs vs)).length ≤ Spec.maxLenSum fs := by
  rw [Sizes.interleave_length']; exact Sizes.fields_bounds fs vs hwf hwt

/-- union companion of `serialize_bounds` -/
theorem serializeOpt_bounds (opts : List Ty) (k : Nat) (v : Val) (hwf : Ty.wfList opts = true)
    (hwt : WTopt opts k v = true) :
    Spec.minLenMin opts ≤ (Spec.serializeOpt opts k v).length ∧
    (Spec.serializeOpt opts k v).length ≤ Spec.maxLenMax opts :=
  Sizes.opt_bounds opts k v hwf hwt

/-! ## 4. fixed-size types: `minLen = maxLen = fixedLen` -/

mutual
theorem fixed_min_max (t : Ty) (hwf : t.wf = true) (hf : Spec.isFixed t = true) :
    Spec.minLen t = Spec.fixedLen t ∧ Spec.maxLen t = Spec.fixedLen t := by
  cases t with
  | uint nb => simp [minLen, maxLen, fixedLen]
  | bool => simp [minLen, maxLen, fixedLen]
  | bitvector n => simp [minLen, maxLen, fixedLen]
  | bytevector n => simp [minLen, maxLen, fixedLen]
  | bitlist lim => simp [isFixed] at hf
  | bytelist lim => simp [isFixed] at hf
  | list t lim => simp [isFixed] at hf
  | union hasNone opts => simp [isFixed] at hf
  | vector t n =>
    simp only [isFixed] at hf
    simp [Ty.wf] at hwf
    have := fixed_min_max t hwf.2 hf
    simp [minLen, maxLen, fixedLen, hf, partLen, this]
  | container fs =>
    simp only [isFixed] at hf
    simp [Ty.wf] at hwf
    simp only [minLen, maxLen, fixedLen]
    exact fixedSum_min_max fs hwf.2 hf

theorem fixedSum_min_max (fs : List Ty) (hwf : Ty.wfList fs = true)
    (hf : Spec.allFixed fs = true) :
    Spec.minLenSum fs = Spec.fixedLenSum fs ∧ Spec.maxLenSum fs = Spec.fixedLenSum fs := by
  cases fs with
  | nil => simp [minLenSum, maxLenSum, fixedLenSum]
  | cons t ts =>
    simp [allFixed] at hf
    simp [Ty.wfList] at hwf
    have h1 := fixed_min_max t hwf.1 hf.1
    have h2 := fixedSum_min_max ts hwf.2 hf.2
    simp [minLenSum, maxLenSum, fixedLenSum, hf.1, partLen, h1, h2]
end

/-! ## 2. fixed-size types serialize to exactly `fixedLen` bytes -/

theorem serialize_fixed (t : Ty) (v : Val) (hwf : t.wf = true) (hwt : WT t v = true)
    (hf : Spec.isFixed t = true) : (Spec.serialize t v).length = Spec.fixedLen t := by
  have h1 := serialize_bounds t v hwf hwt
  have h2 := fixed_min_max t hwf hf
  omega

/-! ## 5. no empty fixed-size types -/

mutual
theorem fixedLen_pos (t : Ty) (hwf : t.wf = true) (hf : Spec.isFixed t = true) :
    0 < Spec.fixedLen t := by
  cases t with
  | uint nb =>
    simp [Ty.wf] at hwf
    simp only [fixedLen]; omega
  | bool => simp [fixedLen]
  | bitvector n =>
    simp [Ty.wf] at hwf
    simp only [fixedLen]; omega
  | bytevector n =>
    simp [Ty.wf] at hwf
    simp only [fixedLen]; omega
  | bitlist lim => simp [isFixed] at hf
  | bytelist lim => simp [isFixed] at hf
  | list t lim => simp [isFixed] at hf
  | union hasNone opts => simp [isFixed] at hf
  | vector t n =>
    simp only [isFixed] at hf
    simp [Ty.wf] at hwf
    simp only [fixedLen]
    exact Nat.mul_pos hwf.1 (fixedLen_pos t hwf.2 hf)
  | container fs =>
    simp only [isFixed] at hf
    simp [Ty.wf] at hwf
    simp only [fixedLen]
    exact fixedLenSum_pos fs hwf.2 hf hwf.1

theorem fixedLenSum_pos (fs : List Ty) (hwf : Ty.wfList fs = true)
    (hf : Spec.allFixed fs = true) (hne : fs ≠ []) : 0 < Spec.fixedLenSum fs := by
  cases fs with
  | nil => exact absurd rfl hne
  | cons t ts =>
    simp [allFixed] at hf
    simp [Ty.wfList] at hwf
    have := fixedLen_pos t hwf.1 hf.1
    simp only [fixedLenSum]; omega
end


/-! ## 6. tightness: witnesses of the minimum and of the maximum -/

mutual
/-- a value of minimal serialized length -/
def minVal : Ty → Val
  | .uint _ => .num 0
  | .bool => .num 0
  | .bitvector n => .bits (List.replicate n false)
  | .bitlist _ => .bits []
  | .bytevector n => .bytes (zeros n)
  | .bytelist _ => .bytes []
  | .vector t n => .seq (List.replicate n (minVal t))
  | .list _ _ => .seq []
  | .container fs => .seq (minVals fs)
  | .union true _ => .un 0 .none
  | .union false opts => .un (minOpt opts).1 (minOpt opts).2
def minVals : List Ty → List Val
  | [] => []
  | t :: ts => minVal t :: minVals ts
/-- (index, value) of an option of minimal serialized length -/
def minOpt : List Ty → Nat × Val
  | [] => (0, .none)
  | t :: ts =>
    if ts.isEmpty || minLen t ≤ minLenMin ts then (0, minVal t)
    else ((minOpt ts).1 + 1, (minOpt ts).2)
end

mutual
/-- a value of maximal serialized length -/
def maxVal : Ty → Val
  | .uint _ => .num 0
  | .bool => .num 0
  | .bitvector n => .bits (List.replicate n false)
  | .bitlist lim => .bits (List.replicate lim false)
  | .bytevector n => .bytes (zeros n)
  | .bytelist lim => .bytes (zeros lim)
  | .vector t n => .seq (List.replicate n (maxVal t))
  | .list t lim => .seq (List.replicate lim (maxVal t))
  | .container fs => .seq (maxVals fs)
  | .union hasNone opts => .un ((maxOpt opts).1 + (if hasNone then 1 else 0)) (maxOpt opts).2
def maxVals : List Ty → List Val
  | [] => []
  | t :: ts => maxVal t :: maxVals ts
/-- (index, value) of an option of maximal serialized length -/
def maxOpt : List Ty → Nat × Val
  | [] => (0, .none)
  | t :: ts =>
    if maxLenMax ts ≤ maxLen t then (0, maxVal t)
    else ((maxOpt ts).1 + 1, (maxOpt ts).2)
end

namespace Sizes

theorem all_replicate (p : Val → Bool) (n : Nat) (v : Val) (h : p v = true) :
    (List.replicate n v).all p = true := by
  simp [h]

theorem minLenMin_cons2 (t t' : Ty) (ts : List Ty) :
    minLenMin (t :: t' :: ts) = min (minLen t) (minLenMin (t' :: ts)) := by
  rw [minLenMin]; simp

theorem union_wf_opts_ne (hasNone : Bool) (opts : List Ty)
    (h : (Ty.union hasNone opts).wf = true) : opts ≠ [] ∧ Ty.wfList opts = true := by
  simp [Ty.wf, optCount] at h
  refine ⟨?_, h.2⟩
  intro he
  subst he
  cases hasNone <;> simp at h

end Sizes

mutual
theorem Sizes.minVal_spec (t : Ty) (hwf : t.wf = true) :
    WT t (minVal t) = true ∧ (serialize t (minVal t)).length = minLen t := by
  cases t with
  | uint nb => simp [minVal, WT, serialize, minLen, toLE_length, Nat.pow_pos]
  | bool => simp [minVal, WT, serialize, minLen]
  | bitvector n => simp [minVal, WT, serialize, minLen, bitsToBytes_length]
  | bitlist lim => simp [minVal, WT, serialize, minLen, bitsToBytes_length]
  | bytevector n => simp [minVal, WT, serialize, minLen, zeros_length]
  | bytelist lim => simp [minVal, WT, serialize, minLen]
  | vector t n =>
    simp [Ty.wf] at hwf
    have ih := Sizes.minVal_spec t hwf.2
    refine ⟨?_, ?_⟩
    · simp only [minVal, WT, List.length_replicate, beq_self_eq_true, Bool.true_and]
      exact all_replicate _ _ _ ih.1
    · simp only [minVal, serialize, minLen, List.map_replicate, interleave_length',
        partsLen_replicate, ih.2]
  | list t lim => simp [minVal, WT, serialize, minLen, interleave_length', partsLen_nil]
  | container fs =>
    simp [Ty.wf] at hwf
    have ih := Sizes.minVals_spec fs hwf.2
    simp only [minVal, WT, serialize, minLen, interleave_length']
    exact ih
  | union hasNone opts =>
    have hw := union_wf_opts_ne hasNone opts hwf
    cases hasNone with
    | true => simp [minVal, WT, serialize, minLen]
    | false =>
      have ih := Sizes.minOpt_spec opts hw.2 hw.1
      simp only [minVal, WT, serialize, minLen, optIndex, Bool.false_and, Bool.false_eq_true,
        if_false, List.length_cons, ih.1, ih.2, true_and]
      omega

theorem Sizes.minVals_spec (fs : List Ty) (hwf : Ty.wfList fs = true) :
    WTs fs (minVals fs) = true ∧ partsLen (serializeFields fs (minVals fs)) = minLenSum fs := by
  cases fs with
  | nil => simp [minVals, WTs, serializeFields, minLenSum, partsLen_nil]
  | cons t ts =>
    simp [Ty.wfList] at hwf
    have h1 := Sizes.minVal_spec t hwf.1
    have h2 := Sizes.minVals_spec ts hwf.2
    simp [minVals, WTs, serializeFields, minLenSum, partsLen_cons, h1.1, h1.2, h2.1, h2.2]

theorem Sizes.minOpt_spec (opts : List Ty) (hwf : Ty.wfList opts = true) (hne : opts ≠ []) :
    WTopt opts (minOpt opts).1 (minOpt opts).2 = true ∧
    (serializeOpt opts (minOpt opts).1 (minOpt opts).2).length = minLenMin opts := by
  cases opts with
  | nil => exact absurd rfl hne
  | cons t ts =>
    simp [Ty.wfList] at hwf
    have h1 := Sizes.minVal_spec t hwf.1
    cases ts with
    | nil => simp [minOpt, WTopt, serializeOpt, minLenMin, h1.1, h1.2]
    | cons t' ts' =>
      have h2 := Sizes.minOpt_spec (t' :: ts') hwf.2 (by simp)
      by_cases hc : minLen t ≤ minLenMin (t' :: ts')
      · have hm : minOpt (t :: t' :: ts') = (0, minVal t) := by
          rw [minOpt]; simp [hc]
        rw [hm]
        simp only [WTopt, serializeOpt, h1.1, h1.2, true_and]
        rw [minLenMin_cons2]; omega
      · have hm : minOpt (t :: t' :: ts') =
            ((minOpt (t' :: ts')).1 + 1, (minOpt (t' :: ts')).2) := by
          rw [minOpt]; simp [hc]
        rw [hm]
        simp only [WTopt, serializeOpt, h2.1, h2.2, true_and]
        rw [minLenMin_cons2]; omega
end

mutual
theorem Sizes.maxVal_spec (t : Ty) (hwf : t.wf = true) :
    WT t (maxVal t) = true ∧ (serialize t (maxVal t)).length = maxLen t := by
  cases t with
  | uint nb => simp [maxVal, WT, serialize, maxLen, toLE_length, Nat.pow_pos]
  | bool => simp [maxVal, WT, serialize, maxLen]
  | bitvector n => simp [maxVal, WT, serialize, maxLen, bitsToBytes_length]
  | bitlist lim =>
    simp only [maxVal, WT, serialize, maxLen, bitsToBytes_length, List.length_replicate,
      List.length_append, List.length_cons, List.length_nil, decide_eq_true_eq]
    omega
  | bytevector n => simp [maxVal, WT, serialize, maxLen, zeros_length]
  | bytelist lim => simp [maxVal, WT, serialize, maxLen, zeros_length]
  | vector t n =>
    simp [Ty.wf] at hwf
    have ih := Sizes.maxVal_spec t hwf.2
    refine ⟨?_, ?_⟩
    · simp only [maxVal, WT, List.length_replicate, beq_self_eq_true, Bool.true_and]
      exact all_replicate _ _ _ ih.1
    · simp only [maxVal, serialize, maxLen, List.map_replicate, interleave_length',
        partsLen_replicate, ih.2]
  | list t lim =>
    simp [Ty.wf] at hwf
    have ih := Sizes.maxVal_spec t hwf
    refine ⟨?_, ?_⟩
    · simp only [maxVal, WT, List.length_replicate, Nat.le_refl, decide_true, Bool.true_and]
      exact all_replicate _ _ _ ih.1
    · simp only [maxVal, serialize, maxLen, List.map_replicate, interleave_length',
        partsLen_replicate, ih.2]
  | container fs =>
    simp [Ty.wf] at hwf
    have ih := Sizes.maxVals_spec fs hwf.2
    simp only [maxVal, WT, serialize, maxLen, interleave_length']
    exact ih
  | union hasNone opts =>
    have hw := union_wf_opts_ne hasNone opts hwf
    have ih := Sizes.maxOpt_spec opts hw.2 hw.1
    cases hasNone with
    | true =>
      simp only [maxVal, WT, serialize, maxLen, optIndex, if_true, Nat.add_sub_cancel,
        List.length_cons]
      simp [ih.1, ih.2]; omega
    | false =>
      simp only [maxVal, WT, serialize, maxLen, optIndex, Bool.false_and, Bool.false_eq_true,
        if_false, List.length_cons, Nat.add_zero, ih.1, ih.2, true_and]
      omega

theorem Sizes.maxVals_spec (fs : List Ty) (hwf : Ty.wfList fs = true) :
    WTs fs (maxVals fs) = true ∧ partsLen (serializeFields fs (maxVals fs)) = maxLenSum fs := by
  cases fs with
  | nil => simp [maxVals, WTs, serializeFields, maxLenSum, partsLen_nil]
  | cons t ts =>
    simp [Ty.wfList] at hwf
    have h1 := Sizes.maxVal_spec t hwf.1
    have h2 := Sizes.maxVals_spec ts hwf.2
    simp [maxVals, WTs, serializeFields, maxLenSum, partsLen_cons, h1.1, h1.2, h2.1, h2.2]

theorem Sizes.maxOpt_spec (opts : List Ty) (hwf : Ty.wfList opts = true) (hne : opts ≠ []) :
    WTopt opts (maxOpt opts).1 (maxOpt opts).2 = true ∧
    (serializeOpt opts (maxOpt opts).1 (maxOpt opts).2).length = maxLenMax opts := by
  cases opts with
  | nil => exact absurd rfl hne
  | cons t ts =>
    simp [Ty.wfList] at hwf
    have h1 := Sizes.maxVal_spec t hwf.1
    by_cases hc : maxLenMax ts ≤ maxLen t
    · have hm : maxOpt (t :: ts) = (0, maxVal t) := by
        rw [maxOpt]; simp [hc]
      rw [hm]
      simp only [WTopt, serializeOpt, h1.1, h1.2, true_and, maxLenMax]
      omega
    · have hts : ts ≠ [] := by
        intro he; subst he; simp [maxLenMax] at hc
      have h2 := Sizes.maxOpt_spec ts hwf.2 hts
      have hm : maxOpt (t :: ts) = ((maxOpt ts).1 + 1, (maxOpt ts).2) := by
        rw [maxOpt]; simp [hc]
      rw [hm]
      simp only [WTopt, serializeOpt, h2.1, h2.2, true_and, maxLenMax]
      omega
end

theorem min_attained (t : Ty) (hwf : t.wf = true) :
    ∃ v, WT t v = true ∧ (Spec.serialize t v).length = Spec.minLen t :=
  ⟨minVal t, Sizes.minVal_spec t hwf⟩

theorem max_attained (t : Ty) (hwf : t.wf = true) :
    ∃ v, WT t v = true ∧ (Spec.serialize t v).length = Spec.maxLen t :=
  ⟨maxVal t, Sizes.maxVal_spec t hwf⟩

end Rmk
