/-
A mutated view is indistinguishable from a fresh value (properties C04 and C14).

`Impl.apply H t n op` mirrors the public mutators on a backing tree; `Spec.applyOp t v op` is the
value-level effect with the constraint checks.  With `Impl.Repr H t v n` ("`n` represents `v`"):
 * `step_repr`  : a successful tree-level op corresponds to the value-level op and lands in `Repr`;
 * `step_ok`    : whenever the value-level op is allowed, the tree-level op succeeds;
 * `step_none_iff` : the tree-level op fails exactly when the value-level op does (C14);
 * `history_repr`, `history_root`, `history_read` : after any sequence of mutations (failing ones
   skipped) the view holds exactly the content the sequence implies, has its spec root, and reads
   back exactly that content.
Everything is generic in the pair hash `H`.
-/
import Rmk.Impl.Repr
import Rmk.Impl.View
import Rmk.Spec.Apply
import Rmk.Proofs.ReprBasics
import Rmk.Proofs.StepReprLemmas
namespace Rmk.StepRepr
open Rmk Rmk.Impl Rmk.Spec
open Rmk.ChunkTreeLemmas Rmk.ConstructRoot Rmk.ReprBasics

/-! ## 0. the simulation statement for one operation -/

/-- one operation: the value-level effect and the tree-level effect agree, including failure -/
def Sim (H : Hash) (t : Ty) (v : Val) (n : Node) (op : Op) : Prop :=
  match applyOp t v op with
  | some v' => ∃ n', Impl.apply H t n op = some n' ∧ Impl.Repr H t v' n'
  | none => Impl.apply H t n op = none

theorem sim_some {H : Hash} {t : Ty} {v : Val} {n : Node} {op : Op} {v' : Val} {n' : Node}
    (ha : applyOp t v op = some v') (hp : Impl.apply H t n op = some n')
    (hr : Impl.Repr H t v' n') : Sim H t v n op := by
  unfold Sim; rw [ha]; exact ⟨n', hp, hr⟩

theorem sim_none {H : Hash} {t : Ty} {v : Val} {n : Node} {op : Op}
    (ha : applyOp t v op = none) (hp : Impl.apply H t n op = none) : Sim H t v n op := by
  unfold Sim; rw [ha]; exact hp

theorem construct_none_of_not_wt (H : Hash) (t : Ty) (v : Val) (hwf : t.wf = true)
    (h : ¬ WT t v = true) : Impl.construct H t v = none := by
  cases hc : Impl.construct H t v with
  | none => rfl
  | some n => exact absurd (construct_some_wt H t v n hc hwf) h

theorem constructOpt_none_of_not_wt (H : Hash) (opts : List Ty) (k : Nat) (v : Val)
    (hwf : Ty.wfList opts = true) (h : ¬ WTopt opts k v = true) :
    Impl.constructOpt H opts k v = none := by
  cases hc : Impl.constructOpt H opts k v with
  | none => rfl
  | some n => exact absurd (constructOpt_some_wt H opts k v n hc hwf) h

/-! ## 1. tree-level steps on a contents subtree below a length mix-in -/

/-- reading chunk `j` and overwriting it with a leaf, below a mix-in node -/
theorem mix_splice {H : Hash} {d : Nat} {cs : List Chunk} {c : Node}
    (hct : ChunkTree H d (cs.map .leaf) c) (lenN : Node) (j : Nat) (hj : j < cs.length) :
    Impl.getAt (.pair c lenN) j (d + 1) = some (.leaf cs[j]) ∧
    ∀ y : Chunk, ∃ c', Impl.setAt H false (.pair c lenN) j (d + 1) (.leaf y) = some (.pair c' lenN) ∧
      ChunkTree H d ((cs.set j y).map .leaf) c' := by
  have hle := ct_length_le hct
  rw [List.length_map] at hle
  have hj' : j < (cs.map Node.leaf).length := by simpa using hj
  have hjd : j < 2 ^ d := by omega
  constructor
  · rw [getAt_mixin _ _ hjd, ct_get hct hj']
    simp
  · intro y
    obtain ⟨c', hs, hc'⟩ := ct_set hct hj' (.leaf y)
    refine ⟨c', ?_, ?_⟩
    · rw [setAt_mixin H false _ _ _ hjd, hs]; rfl
    · rw [← map_leaf_set]; exact hc'

/-- the same directly on a contents subtree (vectors) -/
theorem ct_splice {H : Hash} {d : Nat} {cs : List Chunk} {c : Node}
    (hct : ChunkTree H d (cs.map .leaf) c) (j : Nat) (hj : j < cs.length) :
    Impl.getAt c j d = some (.leaf cs[j]) ∧
    ∀ y : Chunk, ∃ c', Impl.setAt H false c j d (.leaf y) = some c' ∧
      ChunkTree H d ((cs.set j y).map .leaf) c' := by
  have hj' : j < (cs.map Node.leaf).length := by simpa using hj
  constructor
  · rw [ct_get hct hj']
    simp
  · intro y
    obtain ⟨c', hs, hc'⟩ := ct_set hct hj' (.leaf y)
    exact ⟨c', hs, by rw [← map_leaf_set]; exact hc'⟩

/-- appending a node with expansion, below a mix-in node -/
theorem mix_push {H : Hash} {d : Nat} {ls : List Node} {c : Node}
    (hct : ChunkTree H d ls c) (lenN : Node) (hlen : ls.length < 2 ^ d) (x : Node) :
    ∃ c', Impl.setAt H true (.pair c lenN) ls.length (d + 1) x = some (.pair c' lenN) ∧
      ChunkTree H d (ls ++ [x]) c' := by
  obtain ⟨c', hs, hc'⟩ := ct_push hct hlen x
  refine ⟨c', ?_, hc'⟩
  rw [setAt_mixin H true _ _ _ hlen, hs]; rfl

/-- overwriting a node, below a mix-in node -/
theorem mix_set {H : Hash} {d : Nat} {ls : List Node} {c : Node}
    (hct : ChunkTree H d ls c) (lenN : Node) (i : Nat) (hi : i < ls.length) (x : Node) :
    ∃ c', Impl.setAt H false (.pair c lenN) i (d + 1) x = some (.pair c' lenN) ∧
      ChunkTree H d (ls.set i x) c' := by
  have hle := ct_length_le hct
  obtain ⟨c', hs, hc'⟩ := ct_set hct hi x
  refine ⟨c', ?_, hc'⟩
  rw [setAt_mixin H false _ _ _ (by omega), hs]; rfl

theorem rebindRight_pair (c lenN x : Node) : rebindRight (.pair c lenN) x = some (.pair c x) := rfl

theorem popFinish_false (H : Hash) (c lenN : Node) (p : List Bool) (k : Nat) :
    Impl.popFinish H (.pair c lenN) p false k = some (mixInNode c k) := by
  simp [Impl.popFinish, rebindRight, mixInNode]

/-! ## 2. containers and unions -/

theorem sim_container_set (H : Hash) (fs : List Ty) (hwf : Ty.wfList fs = true) (vs : List Val)
    (n : Node) (ns : List Node) (hf : ReprFields H fs vs ns)
    (hct : ChunkTree H (getDepth fs.length) ns n) (i : Nat) (x : Val) :
    Sim H (.container fs) (.seq vs) n (.set i x) := by
  have hl := reprFields_length hf
  cases hfi : fs[i]? with
  | none => exact sim_none (by simp [applyOp, hfi]) (by simp [Impl.apply, hfi])
  | some ft =>
    have hil : i < fs.length := by
      rcases List.getElem?_eq_some_iff.1 hfi with ⟨h, _⟩
      exact h
    have hftwf := wfList_getElem? fs hwf i ft hfi
    by_cases hx : WT ft x = true
    · obtain ⟨vn, hvn, hrvn⟩ := repr_exists H ft x hftwf hx
      obtain ⟨n', hs, hct'⟩ := ct_set hct (i := i) (by omega) vn
      refine sim_some (v' := .seq (vs.set i x)) (n' := n') ?_ ?_ ?_
      · simp [applyOp, hfi, hx]; omega
      · simp [Impl.apply, hfi, hvn, hs]
      · simp only [Impl.Repr]
        exact ⟨ns.set i vn, reprFields_set hf i ft x vn hfi hrvn, hct'⟩
    · exact sim_none (by simp [applyOp, hfi, hx])
        (by simp [Impl.apply, hfi, construct_none_of_not_wt H ft x hftwf hx])

theorem sim_union_change (H : Hash) (hasNone : Bool) (opts : List Ty) (hwf : Ty.wfList opts = true)
    (s0 : Nat) (v0 : Val) (n : Node) (sel : Nat) (x : Val) :
    Sim H (.union hasNone opts) (.un s0 v0) n (.change sel x) := by
  by_cases hsel : sel < optCount hasNone opts
  · by_cases hc : (hasNone && sel == 0) = true
    · cases x with
      | none =>
        refine sim_some (v' := .un sel .none) (n' := .pair (zeroNode H 0) (lenNode 0)) ?_ ?_ ?_
        · simp [applyOp, WT, hc, hsel]
        · simp [Impl.apply, hc, Nat.not_le.2 hsel]
        · simp only [Bool.and_eq_true, beq_iff_eq] at hc
          obtain ⟨hn, rfl⟩ := hc
          simp only [Impl.Repr]
          exact ⟨hsel, zeroNode H 0, rfl, by simp [hn]⟩
      | num _ => exact sim_none (by simp [applyOp, WT, hc]) (by simp [Impl.apply, hc, Nat.not_le.2 hsel])
      | bits _ => exact sim_none (by simp [applyOp, WT, hc]) (by simp [Impl.apply, hc, Nat.not_le.2 hsel])
      | bytes _ => exact sim_none (by simp [applyOp, WT, hc]) (by simp [Impl.apply, hc, Nat.not_le.2 hsel])
      | seq _ => exact sim_none (by simp [applyOp, WT, hc]) (by simp [Impl.apply, hc, Nat.not_le.2 hsel])
      | un _ _ => exact sim_none (by simp [applyOp, WT, hc]) (by simp [Impl.apply, hc, Nat.not_le.2 hsel])
    · by_cases hx : WTopt opts (optIndex hasNone sel) x = true
      · have hsome := constructOpt_isSome H opts _ x hwf hx
        rw [Option.isSome_iff_exists] at hsome
        obtain ⟨c, hcn⟩ := hsome
        refine sim_some (v' := .un sel x) (n' := .pair c (lenNode sel)) ?_ ?_ ?_
        · simp [applyOp, WT, hc, hsel, hx]
        · simp [Impl.apply, hc, Nat.not_le.2 hsel, hcn]
        · simp only [Impl.Repr]
          refine ⟨hsel, c, rfl, ?_⟩
          rw [if_neg hc]
          exact constructOpt_repr H opts _ x c hwf hcn
      · exact sim_none (by simp [applyOp, WT, hc, hx])
          (by simp [Impl.apply, hc, Nat.not_le.2 hsel, constructOpt_none_of_not_wt H opts _ x hwf hx])
  · exact sim_none (by simp [applyOp, hsel]) (by simp [Impl.apply, Nat.le_of_not_lt hsel])

/-! ## 3. vectors -/

theorem hper_of_basic (et : Ty) (hwf : et.wf = true) (hb : et.isBasic = true) :
    0 < 32 / et.basicSize ∧ 32 / et.basicSize * et.basicSize = 32 ∧ et.basicSize ≤ 32 := by
  rcases basicSize_cases et hwf hb with h | h | h | h | h | h <;> rw [h] <;> decide

theorem wt_set {et : Ty} {vs : List Val} (hwt : ∀ v ∈ vs, WT et v = true) (i : Nat) (x : Val)
    (hx : WT et x = true) : ∀ v ∈ vs.set i x, WT et v = true := by
  intro v hv
  rcases List.mem_or_eq_of_mem_set hv with h | h
  · exact hwt v h
  · rw [h]; exact hx

theorem sim_vector_set (H : Hash) (et : Ty) (len : Nat) (hwf : et.wf = true) (vs : List Val)
    (n : Node) (h : Impl.Repr H (.vector et len) (.seq vs) n) (i : Nat) (x : Val) :
    Sim H (.vector et len) (.seq vs) n (.set i x) := by
  simp only [Impl.Repr] at h
  obtain ⟨hlen, h⟩ := h
  by_cases hi : i < len
  · by_cases hx : WT et x = true
    · obtain ⟨vn, hvn, hrvn⟩ := repr_exists H et x hwf hx
      have ha : applyOp (.vector et len) (.seq vs) (.set i x) = some (.seq (vs.set i x)) := by
        simp [applyOp, hi, hx, hlen]
      by_cases hb : et.isBasic = true
      · simp only [hb, if_true] at h
        obtain ⟨hwt, hct⟩ := h
        obtain ⟨hper, -, -⟩ := hper_of_basic et hwf hb
        have hcl := packInts_length' et hwf hb (vs.map numOf)
        rw [List.length_map] at hcl
        have hj : i / (32 / et.basicSize) < (packInts et.basicSize (vs.map numOf)).length := by
          rw [hcl, hlen]; exact (DefaultNode.packed_chunk_lt et hwf hb len i hi).1
        obtain ⟨hg, hset⟩ := ct_splice hct _ hj
        obtain ⟨c', hs, hct'⟩ := hset (spliceBytes et.basicSize
          ((packInts et.basicSize (vs.map numOf))[i / (32 / et.basicSize)])
          (i % (32 / et.basicSize)) (numOf x))
        refine sim_some ha (n' := c') ?_ ?_
        · simp only [Impl.apply, ge_iff_le, Nat.not_le.2 hi, if_false, hvn, hb, if_true, hg,
            spliceBasic_eq, Node.root, hs]
        · simp only [Impl.Repr, hb, if_true, List.length_set]
          refine ⟨hlen, wt_set hwt i x hx, ?_⟩
          rw [List.map_set, packInts_set _ hper _ _ _ (by simpa [hlen] using hi) hj]
          exact hct'
      · simp only [hb, Bool.false_eq_true, if_false] at h
        obtain ⟨ns, hall, hct⟩ := h
        have hl := allRel_length hall
        obtain ⟨n', hs, hct'⟩ := ct_set hct (i := i) (by omega) vn
        refine sim_some ha (n' := n') ?_ ?_
        · simp only [Impl.apply, ge_iff_le, Nat.not_le.2 hi, if_false, hvn, hb,
            Bool.false_eq_true, hs]
        · simp only [Impl.Repr, hb, Bool.false_eq_true, if_false, List.length_set]
          exact ⟨hlen, ns.set i vn, allRel_set hall i x vn hrvn, hct'⟩
    · exact sim_none (by simp [applyOp, hx])
        (by simp [Impl.apply, construct_none_of_not_wt H et x hwf hx])
  · exact sim_none (by simp [applyOp, hi]) (by simp [Impl.apply, Nat.le_of_not_lt hi])

end Rmk.StepRepr
