/-
A mutated view is indistinguishable from a fresh value (properties C04 and C14).

`Impl.apply H t n op` mirrors the public mutators on a backing tree; `Spec.applyOp t v op` is the
value-level effect with the constraint checks.  With `Impl.Repr H t v n` ("`n` represents `v`"):
 * `step_repr`  : a successful tree-level op corresponds to the value-level op and lands in `Repr`;
 * `step_ok`    : whenever the value-level op is allowed, the tree-level op succeeds;
 * `step_none_iff` : the tree-level op fails exactly when the value-level op does (C14);
 * `history_repr`, `history_root`, `history_read` : after any sequence of mutations (failing ones
   skipped) the view holds exactly the content the sequence implies, has its spec root, and reads
   back exactly that content.
Everything is generic in the pair hash `H`.
-/
import Rmk.Impl.Repr
import Rmk.Impl.View
import Rmk.Spec.Apply
import Rmk.Proofs.ReprBasics
import Rmk.Proofs.StepReprLemmas
namespace Rmk.StepRepr
open Rmk Rmk.Impl Rmk.Spec
open Rmk.ChunkTreeLemmas Rmk.ConstructRoot Rmk.ReprBasics

/-! ## 0. the simulation statement for one operation -/

/-- one operation: the value-level effect and the tree-level effect agree, including failure -/
def Sim (H : Hash) (t : Ty) (v : Val) (n : Node) (op : Op) : Prop :=
  match applyOp t v op with
  | some v' => ∃ n', Impl.apply H t n op = some n' ∧ Impl.Repr H t v' n'
  | none => Impl.apply H t n op = none

theorem sim_some {H : Hash} {t : Ty} {v : Val} {n : Node} {op : Op} {v' : Val} {n' : Node}
    (ha : applyOp t v op = some v') (hp : Impl.apply H t n op = some n')
    (hr : Impl.Repr H t v' n') : Sim H t v n op := by
  unfold Sim; rw [ha]; exact ⟨n', hp, hr⟩

theorem sim_none {H : Hash} {t : Ty} {v : Val} {n : Node} {op : Op}
    (ha : applyOp t v op = none) (hp : Impl.apply H t n op = none) : Sim H t v n op := by
  unfold Sim; rw [ha]; exact hp

theorem construct_none_of_not_wt (H : Hash) (t : Ty) (v : Val) (hwf : t.wf = true)
    (h : ¬ WT t v = true) : Impl.construct H t v = none := by
  cases hc : Impl.construct H t v with
  | none => rfl
  | some n => exact absurd (construct_some_wt H t v n hc hwf) h

theorem constructOpt_none_of_not_wt (H : Hash) (opts : List Ty) (k : Nat) (v : Val)
    (hwf : Ty.wfList opts = true) (h : ¬ WTopt opts k v = true) :
    Impl.constructOpt H opts k v = none := by
  cases hc : Impl.constructOpt H opts k v with
  | none => rfl
  | some n => exact absurd (constructOpt_some_wt H opts k v n hc hwf) h

/-! ## 1. tree-level steps on a contents subtree below a length mix-in -/

/-- reading chunk `j` and overwriting it with a leaf, below a mix-in node -/
theorem mix_splice {H : Hash} {d : Nat} {cs : List Chunk} {c : Node}
    (hct : ChunkTree H d (cs.map .leaf) c) (lenN : Node) (j : Nat) (hj : j < cs.length) :
    Impl.getAt (.pair c lenN) j (d + 1) = some (.leaf cs[j]) ∧
    ∀ y : Chunk, ∃ c', Impl.setAt H false (.pair c lenN) j (d + 1) (.leaf y) = some (.pair c' lenN) ∧
      ChunkTree H d ((cs.set j y).map .leaf) c' := by
  have hle := ct_length_le hct
  rw [List.length_map] at hle
  have hj' : j < (cs.map Node.leaf).length := by simpa using hj
  have hjd : j < 2 ^ d := by omega
  constructor
  · rw [getAt_mixin _ _ hjd, ct_get hct hj']
    simp
  · intro y
    obtain ⟨c', hs, hc'⟩ := ct_set hct hj' (.leaf y)
    refine ⟨c', ?_, ?_⟩
    · rw [setAt_mixin H false _ _ _ hjd, hs]; rfl
    · rw [← map_leaf_set]; exact hc'

/-- the same directly on a contents subtree (vectors) -/
theorem ct_splice {H : Hash} {d : Nat} {cs : List Chunk} {c : Node}
    (hct : ChunkTree H d (cs.map .leaf) c) (j : Nat) (hj : j < cs.length) :
    Impl.getAt c j d = some (.leaf cs[j]) ∧
    ∀ y : Chunk, ∃ c', Impl.setAt H false c j d (.leaf y) = some c' ∧
      ChunkTree H d ((cs.set j y).map .leaf) c' := by
  have hj' : j < (cs.map Node.leaf).length := by simpa using hj
  constructor
  · rw [ct_get hct hj']
    simp
  · intro y
    obtain ⟨c', hs, hc'⟩ := ct_set hct hj' (.leaf y)
    exact ⟨c', hs, by rw [← map_leaf_set]; exact hc'⟩

/-- appending a node with expansion, below a mix-in node -/
theorem mix_push {H : Hash} {d : Nat} {ls : List Node} {c : Node}
    (hct : ChunkTree H d ls c) (lenN : Node) (hlen : ls.length < 2 ^ d) (x : Node) :
    ∃ c', Impl.setAt H true (.pair c lenN) ls.length (d + 1) x = some (.pair c' lenN) ∧
      ChunkTree H d (ls ++ [x]) c' := by
  obtain ⟨c', hs, hc'⟩ := ct_push hct hlen x
  refine ⟨c', ?_, hc'⟩
  rw [setAt_mixin H true _ _ _ hlen, hs]; rfl

/-- overwriting a node, below a mix-in node -/
theorem mix_set {H : Hash} {d : Nat} {ls : List Node} {c : Node}
    (hct : ChunkTree H d ls c) (lenN : Node) (i : Nat) (hi : i < ls.length) (x : Node) :
    ∃ c', Impl.setAt H false (.pair c lenN) i (d + 1) x = some (.pair c' lenN) ∧
      ChunkTree H d (ls.set i x) c' := by
  have hle := ct_length_le hct
  obtain ⟨c', hs, hc'⟩ := ct_set hct hi x
  refine ⟨c', ?_, hc'⟩
  rw [setAt_mixin H false _ _ _ (by omega), hs]; rfl

theorem rebindRight_pair (c lenN x : Node) : rebindRight (.pair c lenN) x = some (.pair c x) := rfl

theorem popFinish_false (H : Hash) (c lenN : Node) (p : List Bool) (k : Nat) :
    Impl.popFinish H (.pair c lenN) p false k = some (mixInNode c k) := by
  simp [Impl.popFinish, rebindRight, mixInNode]

/-! ## 2. containers and unions -/

theorem sim_container_set (H : Hash) (fs : List Ty) (hwf : Ty.wfList fs = true) (vs : List Val)
    (n : Node) (ns : List Node) (hf : ReprFields H fs vs ns)
    (hct : ChunkTree H (getDepth fs.length) ns n) (i : Nat) (x : Val) :
    Sim H (.container fs) (.seq vs) n (.set i x) := by
  have hl := reprFields_length hf
  cases hfi : fs[i]? with
  | none => exact sim_none (by simp [applyOp, hfi]) (by simp [Impl.apply, hfi])
  | some ft =>
    have hil : i < fs.length := by
      rcases List.getElem?_eq_some_iff.1 hfi with ⟨h, _⟩
      exact h
    have hftwf := wfList_getElem? fs hwf i ft hfi
    by_cases hx : WT ft x = true
    · obtain ⟨vn, hvn, hrvn⟩ := repr_exists H ft x hftwf hx
      obtain ⟨n', hs, hct'⟩ := ct_set hct (i := i) (by omega) vn
      refine sim_some (v' := .seq (vs.set i x)) (n' := n') ?_ ?_ ?_
      · simp [applyOp, hfi, hx]; omega
      · simp [Impl.apply, hfi, hvn, hs]
      · simp only [Impl.Repr]
        exact ⟨ns.set i vn, reprFields_set hf i ft x vn hfi hrvn, hct'⟩
    · exact sim_none (by simp [applyOp, hfi, hx])
        (by simp [Impl.apply, hfi, construct_none_of_not_wt H ft x hftwf hx])

theorem sim_union_change (H : Hash) (hasNone : Bool) (opts : List Ty) (hwf : Ty.wfList opts = true)
    (s0 : Nat) (v0 : Val) (n : Node) (sel : Nat) (x : Val) :
    Sim H (.union hasNone opts) (.un s0 v0) n (.change sel x) := by
  by_cases hsel : sel < optCount hasNone opts
  · by_cases hc : (hasNone && sel == 0) = true
    · cases x with
      | none =>
        refine sim_some (v' := .un sel .none) (n' := .pair (zeroNode H 0) (lenNode 0)) ?_ ?_ ?_
        · simp [applyOp, WT, hc, hsel]
        · simp [Impl.apply, hc, Nat.not_le.2 hsel]
        · simp only [Bool.and_eq_true, beq_iff_eq] at hc
          obtain ⟨hn, rfl⟩ := hc
          simp only [Impl.Repr]
          exact ⟨hsel, zeroNode H 0, rfl, by simp [hn]⟩
      | num _ => exact sim_none (by simp [applyOp, WT, hc]) (by simp [Impl.apply, hc, Nat.not_le.2 hsel])
      | bits _ => exact sim_none (by simp [applyOp, WT, hc]) (by simp [Impl.apply, hc, Nat.not_le.2 hsel])
      | bytes _ => exact sim_none (by simp [applyOp, WT, hc]) (by simp [Impl.apply, hc, Nat.not_le.2 hsel])
      | seq _ => exact sim_none (by simp [applyOp, WT, hc]) (by simp [Impl.apply, hc, Nat.not_le.2 hsel])
      | un _ _ => exact sim_none (by simp [applyOp, WT, hc]) (by simp [Impl.apply, hc, Nat.not_le.2 hsel])
    · by_cases hx : WTopt opts (optIndex hasNone sel) x = true
      · have hsome := constructOpt_isSome H opts _ x hwf hx
        rw [Option.isSome_iff_exists] at hsome
        obtain ⟨c, hcn⟩ := hsome
        refine sim_some (v' := .un sel x) (n' := .pair c (lenNode sel)) ?_ ?_ ?_
        · simp [applyOp, WT, hc, hsel, hx]
        · simp [Impl.apply, hc, Nat.not_le.2 hsel, hcn]
        · simp only [Impl.Repr]
          refine ⟨hsel, c, rfl, ?_⟩
          rw [if_neg hc]
          exact constructOpt_repr H opts _ x c hwf hcn
      · exact sim_none (by simp [applyOp, WT, hc, hx])
          (by simp [Impl.apply, hc, Nat.not_le.2 hsel, constructOpt_none_of_not_wt H opts _ x hwf hx])
  · exact sim_none (by simp [applyOp, hsel]) (by simp [Impl.apply, Nat.le_of_not_lt hsel])

/-! ## 3. vectors -/

theorem hper_of_basic (et : Ty) (hwf : et.wf = true) (hb : et.isBasic = true) :
    0 < 32 / et.basicSize ∧ 32 / et.basicSize * et.basicSize = 32 ∧ et.basicSize ≤ 32 := by
  rcases basicSize_cases et hwf hb with h | h | h | h | h | h <;> rw [h] <;> decide

theorem wt_set {et : Ty} {vs : List Val} (hwt : ∀ v ∈ vs, WT et v = true) (i : Nat) (x : Val)
    (hx : WT et x = true) : ∀ v ∈ vs.set i x, WT et v = true := by
  intro v hv
  rcases List.mem_or_eq_of_mem_set hv with h | h
  · exact hwt v h
  · rw [h]; exact hx

theorem sim_vector_set (H : Hash) (et : Ty) (len : Nat) (hwf : et.wf = true) (vs : List Val)
    (n : Node) (h : Impl.Repr H (.vector et len) (.seq vs) n) (i : Nat) (x : Val) :
    Sim H (.vector et len) (.seq vs) n (.set i x) := by
  simp only [Impl.Repr] at h
  obtain ⟨hlen, h⟩ := h
  by_cases hi : i < len
  · by_cases hx : WT et x = true
    · obtain ⟨vn, hvn, hrvn⟩ := repr_exists H et x hwf hx
      have ha : applyOp (.vector et len) (.seq vs) (.set i x) = some (.seq (vs.set i x)) := by
        simp [applyOp, hi, hx, hlen]
      by_cases hb : et.isBasic = true
      · simp only [hb, if_true] at h
        obtain ⟨hwt, hct⟩ := h
        obtain ⟨hper, -, -⟩ := hper_of_basic et hwf hb
        have hcl := packInts_length' et hwf hb (vs.map numOf)
        rw [List.length_map] at hcl
        have hj : i / (32 / et.basicSize) < (packInts et.basicSize (vs.map numOf)).length := by
          rw [hcl, hlen]; exact (DefaultNode.packed_chunk_lt et hwf hb len i hi).1
        obtain ⟨hg, hset⟩ := ct_splice hct _ hj
        obtain ⟨c', hs, hct'⟩ := hset (spliceBytes et.basicSize
          ((packInts et.basicSize (vs.map numOf))[i / (32 / et.basicSize)])
          (i % (32 / et.basicSize)) (numOf x))
        refine sim_some ha (n' := c') ?_ ?_
        · simp only [Impl.apply, ge_iff_le, Nat.not_le.2 hi, if_false, hvn, hb, if_true, hg,
            spliceBasic_eq, Node.root, hs]
        · simp only [Impl.Repr, hb, if_true, List.length_set]
          refine ⟨hlen, wt_set hwt i x hx, ?_⟩
          rw [List.map_set, packInts_set _ hper _ _ _ (by simpa [hlen] using hi) hj]
          exact hct'
      · simp only [hb, Bool.false_eq_true, if_false] at h
        obtain ⟨ns, hall, hct⟩ := h
        have hl := allRel_length hall
        obtain ⟨n', hs, hct'⟩ := ct_set hct (i := i) (by omega) vn
        refine sim_some ha (n' := n') ?_ ?_
        · simp only [Impl.apply, ge_iff_le, Nat.not_le.2 hi, if_false, hvn, hb,
            Bool.false_eq_true, hs]
        · simp only [Impl.Repr, hb, Bool.false_eq_true, if_false, List.length_set]
          exact ⟨hlen, ns.set i vn, allRel_set hall i x vn hrvn, hct'⟩
    · exact sim_none (by simp [applyOp, hx])
        (by simp [Impl.apply, construct_none_of_not_wt H et x hwf hx])
  · exact sim_none (by simp [applyOp, hi]) (by simp [Impl.apply, Nat.le_of_not_lt hi])

/-! ## 4. lists -/

theorem depth_bound_nonbasic (et : Ty) (hb : ¬ et.isBasic = true) (lim : Nat) :
    lim ≤ 2 ^ getDepth (chunkLen et lim) := by
  rw [chunkLen_nonbasic et lim hb]; exact le_two_pow_getDepth lim

theorem sim_list_set (H : Hash) (et : Ty) (lim : Nat) (hwf : et.wf = true) (hlim : lim < 2 ^ 256)
    (vs : List Val) (n : Node) (h : Impl.Repr H (.list et lim) (.seq vs) n) (i : Nat) (x : Val) :
    Sim H (.list et lim) (.seq vs) n (.set i x) := by
  simp only [Impl.Repr] at h
  obtain ⟨hlen, c, rfl, h⟩ := h
  have hll := listLength_mixin H c vs.length (by omega)
  by_cases hi : i < vs.length
  · by_cases hx : WT et x = true
    · obtain ⟨vn, hvn, hrvn⟩ := repr_exists H et x hwf hx
      have ha : applyOp (.list et lim) (.seq vs) (.set i x) = some (.seq (vs.set i x)) := by
        simp [applyOp, hi, hx]
      by_cases hb : et.isBasic = true
      · simp only [hb, if_true] at h
        obtain ⟨hwt, hct⟩ := h
        obtain ⟨hper, -, -⟩ := hper_of_basic et hwf hb
        have hcl := packInts_length' et hwf hb (vs.map numOf)
        rw [List.length_map] at hcl
        have hj : i / (32 / et.basicSize) < (packInts et.basicSize (vs.map numOf)).length := by
          rw [hcl]; exact (DefaultNode.packed_chunk_lt et hwf hb vs.length i hi).1
        obtain ⟨hg, hset⟩ := mix_splice hct (lenNode vs.length) _ hj
        obtain ⟨c', hs, hct'⟩ := hset (spliceBytes et.basicSize
          ((packInts et.basicSize (vs.map numOf))[i / (32 / et.basicSize)])
          (i % (32 / et.basicSize)) (numOf x))
        refine sim_some ha (n' := mixInNode c' vs.length) ?_ ?_
        · simp only [Impl.apply, hll, ge_iff_le, Nat.not_le.2 hi, if_false, hvn, hb, if_true]
          simp only [mixInNode, hg, spliceBasic_eq, Node.root, hs]
        · simp only [Impl.Repr, hb, if_true, List.length_set]
          refine ⟨hlen, c', rfl, wt_set hwt i x hx, ?_⟩
          rw [List.map_set, packInts_set _ hper _ _ _ (by simpa using hi) hj]
          exact hct'
      · simp only [hb, Bool.false_eq_true, if_false] at h
        obtain ⟨ns, hall, hct⟩ := h
        have hl := allRel_length hall
        obtain ⟨c', hs, hct'⟩ := mix_set hct (lenNode vs.length) i (by omega) vn
        refine sim_some ha (n' := mixInNode c' vs.length) ?_ ?_
        · simp only [Impl.apply, hll, ge_iff_le, Nat.not_le.2 hi, if_false, hvn, hb,
            Bool.false_eq_true]
          simp only [mixInNode, hs]
        · simp only [Impl.Repr, hb, Bool.false_eq_true, if_false, List.length_set]
          exact ⟨hlen, c', rfl, ns.set i vn, allRel_set hall i x vn hrvn, hct'⟩
    · exact sim_none (by simp [applyOp, hx])
        (by simp [Impl.apply, hll, construct_none_of_not_wt H et x hwf hx])
  · exact sim_none (by simp [applyOp, hi]) (by simp [Impl.apply, hll, Nat.le_of_not_lt hi])

theorem wt_append {et : Ty} {vs : List Val} (hwt : ∀ v ∈ vs, WT et v = true) (x : Val)
    (hx : WT et x = true) : ∀ v ∈ vs ++ [x], WT et v = true := by
  intro v hv
  rcases List.mem_append.1 hv with h | h
  · exact hwt v h
  · rw [List.mem_singleton.1 h]; exact hx

theorem spliceBasic_zeroNode (H : Hash) (size j v : Nat) :
    spliceBasic H size (zeroNode H 0) j v = .leaf (spliceBytes size zeroChunk j v) := rfl

theorem sim_list_append (H : Hash) (et : Ty) (lim : Nat) (hwf : et.wf = true) (hlim : lim < 2 ^ 256)
    (vs : List Val) (n : Node) (h : Impl.Repr H (.list et lim) (.seq vs) n) (x : Val) :
    Sim H (.list et lim) (.seq vs) n (.append x) := by
  simp only [Impl.Repr] at h
  obtain ⟨hlen, c, rfl, h⟩ := h
  have hll := listLength_mixin H c vs.length (by omega)
  by_cases hlt : vs.length < lim
  · by_cases hx : WT et x = true
    · obtain ⟨vn, hvn, hrvn⟩ := repr_exists H et x hwf hx
      have ha : applyOp (.list et lim) (.seq vs) (.append x) = some (.seq (vs ++ [x])) := by
        simp [applyOp, hlt, hx]
      by_cases hb : et.isBasic = true
      · simp only [hb, if_true] at h
        obtain ⟨hwt, hct⟩ := h
        obtain ⟨hper, hmul, -⟩ := hper_of_basic et hwf hb
        have hcl := packInts_length' et hwf hb (vs.map numOf)
        rw [List.length_map] at hcl
        have hcl2 := packInts_length et.basicSize hper (vs.map numOf)
        rw [List.length_map, ceil_div_eq _ _ hper] at hcl2
        have hcap := (DefaultNode.packed_chunk_lt et hwf hb lim vs.length hlt).1
        have hcap2 := le_two_pow_getDepth (chunkLen et lim)
        by_cases hz : vs.length % (32 / et.basicSize) = 0
        · rw [if_pos hz, Nat.add_zero] at hcl2
          have hpush := mix_push hct (lenNode vs.length) (by rw [List.length_map, hcl2]; omega)
            (.leaf (spliceBytes et.basicSize zeroChunk 0 (numOf x)))
          rw [List.length_map, hcl2] at hpush
          obtain ⟨c', hs, hct'⟩ := hpush
          refine sim_some ha (n' := mixInNode c' (vs.length + 1)) ?_ ?_
          · simp only [Impl.apply, hll, ge_iff_le, Nat.not_le.2 hlt, if_false, hvn, hb, if_true,
              hz, beq_self_eq_true, spliceBasic_zeroNode]
            simp only [mixInNode, hs, Option.bind_some, rebindRight]
          · simp only [Impl.Repr, hb, if_true, List.length_append, List.length_singleton]
            refine ⟨hlt, c', rfl, wt_append hwt x hx, ?_⟩
            rw [List.map_append, List.map_singleton,
              packInts_append_new _ hper hmul _ _ (by simpa using hz), List.map_append]
            exact hct'
        · rw [if_neg hz] at hcl2
          have hj : vs.length / (32 / et.basicSize)
              < (packInts et.basicSize (vs.map numOf)).length := by omega
          obtain ⟨hg, hset⟩ := mix_splice hct (lenNode vs.length) _ hj
          obtain ⟨c', hs, hct'⟩ := hset (spliceBytes et.basicSize
            ((packInts et.basicSize (vs.map numOf))[vs.length / (32 / et.basicSize)])
            (vs.length % (32 / et.basicSize)) (numOf x))
          refine sim_some ha (n' := mixInNode c' (vs.length + 1)) ?_ ?_
          · simp only [Impl.apply, hll, ge_iff_le, Nat.not_le.2 hlt, if_false, hvn, hb, if_true,
              beq_iff_eq, hz]
            simp only [mixInNode, hg, spliceBasic_eq, Node.root, hs, Option.bind_some, rebindRight]
          · simp only [Impl.Repr, hb, if_true, List.length_append, List.length_singleton]
            refine ⟨hlt, c', rfl, wt_append hwt x hx, ?_⟩
            have hj' : (vs.map numOf).length / (32 / et.basicSize)
                < (packInts et.basicSize (vs.map numOf)).length := by simpa using hj
            have := packInts_append_same _ hper (vs.map numOf) (numOf x) (by simpa using hz) hj'
            simp only [List.length_map] at this
            rw [List.map_append, List.map_singleton, this]
            exact hct'
      · simp only [hb, Bool.false_eq_true, if_false] at h
        obtain ⟨ns, hall, hct⟩ := h
        have hl := allRel_length hall
        have hcap := depth_bound_nonbasic et hb lim
        have hpush := mix_push hct (lenNode vs.length) (by omega) vn
        rw [← hl] at hpush
        obtain ⟨c', hs, hct'⟩ := hpush
        refine sim_some ha (n' := mixInNode c' (vs.length + 1)) ?_ ?_
        · simp only [Impl.apply, hll, ge_iff_le, Nat.not_le.2 hlt, if_false, hvn, hb,
            Bool.false_eq_true]
          simp only [mixInNode, hs, Option.bind_some, rebindRight]
        · simp only [Impl.Repr, hb, Bool.false_eq_true, if_false, List.length_append,
            List.length_singleton]
          exact ⟨hlt, c', rfl, ns ++ [vn], allRel_append_singleton hall x vn hrvn, hct'⟩
    · exact sim_none (by simp [applyOp, hx])
        (by simp [Impl.apply, hll, construct_none_of_not_wt H et x hwf hx])
  · exact sim_none (by simp [applyOp, hlt]) (by simp [Impl.apply, hll, Nat.le_of_not_lt hlt])

theorem mem_of_mem_dropLast {α} {l : List α} {a : α} (h : a ∈ l.dropLast) : a ∈ l := by
  rw [List.dropLast_eq_take] at h; exact List.mem_of_mem_take h

theorem sim_list_pop (H : Hash) (et : Ty) (lim : Nat) (hwf : et.wf = true) (hlim : lim < 2 ^ 256)
    (vs : List Val) (n : Node) (h : Impl.Repr H (.list et lim) (.seq vs) n) :
    Sim H (.list et lim) (.seq vs) n .pop := by
  simp only [Impl.Repr] at h
  obtain ⟨hlen, c, rfl, h⟩ := h
  have hll := listLength_mixin H c vs.length (by omega)
  by_cases hpos : vs.length = 0
  · exact sim_none (by simp [applyOp, hpos]) (by simp only [Impl.apply, hll]; simp [hpos])
  · have ha : applyOp (.list et lim) (.seq vs) .pop = some (.seq vs.dropLast) := by
      simp [applyOp, hpos]
    have hvne : vs ≠ [] := fun e => hpos (by rw [e]; rfl)
    by_cases hb : et.isBasic = true
    · simp only [hb, if_true] at h
      obtain ⟨hwt, hct⟩ := h
      obtain ⟨hper, hmul, hsz⟩ := hper_of_basic et hwf hb
      have hcl := packInts_length' et hwf hb (vs.map numOf)
      rw [List.length_map] at hcl
      have hj : (vs.length - 1) / (32 / et.basicSize)
          < (packInts et.basicSize (vs.map numOf)).length := by
        rw [hcl]; exact (DefaultNode.packed_chunk_lt et hwf hb vs.length _ (by omega)).1
      have hle := ct_length_le hct
      rw [List.length_map] at hle
      have hpow : 2 ^ (getDepth (chunkLen et lim) + 1) = 2 * 2 ^ getDepth (chunkLen et lim) := by
        rw [Nat.pow_succ]; omega
      have hnotge : ¬ (vs.length - 1) / (32 / et.basicSize)
          ≥ 2 ^ (getDepth (chunkLen et lim) + 1) := by omega
      have hwt' : ∀ v ∈ vs.dropLast, WT et v = true := fun v hv => hwt v (mem_of_mem_dropLast hv)
      by_cases hz : (vs.length - 1) % (32 / et.basicSize) = 0
      · obtain ⟨hrm, hidx⟩ := packInts_pop_remove et.basicSize hper hmul (vs.map numOf)
          (by simp; omega) (by simpa using hz)
        rw [List.length_map] at hidx
        have hcne : (packInts et.basicSize (vs.map numOf)).map Node.leaf ≠ [] := by
          intro e
          have := congrArg List.length e
          simp only [List.length_map, List.length_nil] at this
          omega
        obtain ⟨c1, hs, -, hfin⟩ := ct_popFinish hct hcne (lenNode vs.length) (IsZero.summary 0)
        rw [List.length_map, ← hidx] at hs hfin
        obtain ⟨c2, hpf, hct'⟩ := hfin ((vs.length - 1) / (32 / et.basicSize) % 2 == 0 && true)
          (vs.length - 1)
        refine sim_some ha (n' := mixInNode c2 (vs.length - 1)) ?_ ?_
        · simp only [Impl.apply, hll, hpos, if_false, hb, if_true, hnotge, hz, beq_self_eq_true,
            spliceBasic_zeroNode, spliceBytes_zero_zero _ hsz]
          simp only [mixInNode] at hs hpf ⊢
          have hzn : Node.leaf zeroChunk = zeroNode H 0 := rfl
          rw [hzn, hs]
          simp only [hpf]
        · simp only [Impl.Repr, hb, if_true, List.length_dropLast]
          refine ⟨by omega, c2, rfl, hwt', ?_⟩
          rw [List.map_dropLast, hrm, List.map_dropLast]
          exact hct'
      · obtain ⟨hg, hset⟩ := mix_splice hct (lenNode vs.length) _ hj
        obtain ⟨c', hs, hct'⟩ := hset (spliceBytes et.basicSize
          ((packInts et.basicSize (vs.map numOf))[(vs.length - 1) / (32 / et.basicSize)])
          ((vs.length - 1) % (32 / et.basicSize)) 0)
        have hzb : ((vs.length - 1) % (32 / et.basicSize) == 0) = false := by simp [hz]
        refine sim_some ha (n' := mixInNode c' (vs.length - 1)) ?_ ?_
        · simp only [Impl.apply, hll, hpos, if_false, hb, if_true, hnotge, hzb, Bool.false_eq_true]
          simp only [mixInNode, hg, spliceBasic_eq, Node.root, hs, Bool.and_false, popFinish_false]
        · simp only [Impl.Repr, hb, if_true, List.length_dropLast]
          refine ⟨by omega, c', rfl, hwt', ?_⟩
          have hj' : ((vs.map numOf).length - 1) / (32 / et.basicSize)
              < (packInts et.basicSize (vs.map numOf)).length := by simpa using hj
          have := packInts_pop_same _ hper (vs.map numOf) (by simp; omega) (by simpa using hz) hj'
          simp only [List.length_map] at this
          rw [List.map_dropLast, this]
          exact hct'
    · simp only [hb, Bool.false_eq_true, if_false] at h
      obtain ⟨ns, hall, hct⟩ := h
      have hl := allRel_length hall
      have hnne : ns ≠ [] := by
        intro e; rw [e] at hl; exact hpos hl
      obtain ⟨c1, hs, -, hfin⟩ := ct_popFinish hct hnne (lenNode vs.length) (IsZero.summary 0)
      rw [← hl] at hs hfin
      obtain ⟨c2, hpf, hct'⟩ := hfin ((vs.length - 1) % 2 == 0) (vs.length - 1)
      refine sim_some ha (n' := mixInNode c2 (vs.length - 1)) ?_ ?_
      · simp only [Impl.apply, hll, hpos, if_false, hb, Bool.false_eq_true]
        simp only [mixInNode] at hs hpf ⊢
        simp only [hs, hpf]
      · simp only [Impl.Repr, hb, Bool.false_eq_true, if_false, List.length_dropLast]
        exact ⟨by omega, c2, rfl, ns.dropLast, allRel_dropLast hall, hct'⟩

/-! ## 5. bitvectors and bitlists -/

theorem chunkWithBit_zeroNode (H : Hash) (i : Nat) (v : Bool) :
    chunkWithBit H (zeroNode H 0) i v = .leaf (bitSplice zeroChunk i v) := rfl

theorem sim_bitvector_set (H : Hash) (len : Nat) (bs : List Bool) (n : Node)
    (h : Impl.Repr H (.bitvector len) (.bits bs) n) (i : Nat) (x : Val) :
    Sim H (.bitvector len) (.bits bs) n (.set i x) := by
  simp only [Impl.Repr] at h
  obtain ⟨hlen, hct⟩ := h
  cases x with
  | num b =>
    by_cases hi : i < len
    · have hj : i / 256 < (packBits bs).length := by rw [packBits_length']; omega
      obtain ⟨hg, hset⟩ := ct_splice hct _ hj
      obtain ⟨c', hs, hct'⟩ := hset (bitSplice ((packBits bs)[i / 256]) i (b != 0))
      refine sim_some (v' := .bits (bs.set i (b != 0))) (n' := c') ?_ ?_ ?_
      · simp [applyOp, hi, hlen]
      · simp only [Impl.apply, ge_iff_le, Nat.not_le.2 hi, if_false, hg, Option.bind_some,
          chunkWithBit_eq, Node.root, hs]
      · simp only [Impl.Repr, List.length_set]
        refine ⟨hlen, ?_⟩
        rw [packBits_set bs i _ (by omega) hj]
        exact hct'
    · exact sim_none (by simp [applyOp, hi]) (by simp [Impl.apply, Nat.le_of_not_lt hi])
  | bits _ => exact sim_none (by simp [applyOp]) (by simp [Impl.apply])
  | bytes _ => exact sim_none (by simp [applyOp]) (by simp [Impl.apply])
  | seq _ => exact sim_none (by simp [applyOp]) (by simp [Impl.apply])
  | un _ _ => exact sim_none (by simp [applyOp]) (by simp [Impl.apply])
  | none => exact sim_none (by simp [applyOp]) (by simp [Impl.apply])

theorem sim_bitlist_set (H : Hash) (lim : Nat) (hlim : lim < 2 ^ 256) (bs : List Bool) (n : Node)
    (h : Impl.Repr H (.bitlist lim) (.bits bs) n) (i : Nat) (x : Val) :
    Sim H (.bitlist lim) (.bits bs) n (.set i x) := by
  simp only [Impl.Repr] at h
  obtain ⟨hlen, c, rfl, hct⟩ := h
  have hll := listLength_mixin H c bs.length (by omega)
  cases x with
  | num b =>
    by_cases hi : i < bs.length
    · have hj : i / 256 < (packBits bs).length := by rw [packBits_length']; omega
      obtain ⟨hg, hset⟩ := mix_splice hct (lenNode bs.length) _ hj
      obtain ⟨c', hs, hct'⟩ := hset (bitSplice ((packBits bs)[i / 256]) i (b != 0))
      refine sim_some (v' := .bits (bs.set i (b != 0))) (n' := mixInNode c' bs.length) ?_ ?_ ?_
      · simp [applyOp, hi]
      · simp only [Impl.apply, hll, ge_iff_le, Nat.not_le.2 hi, if_false]
        simp only [mixInNode, hg, Option.bind_some, chunkWithBit_eq, Node.root, hs]
      · simp only [Impl.Repr, List.length_set]
        refine ⟨hlen, c', rfl, ?_⟩
        rw [packBits_set bs i _ hi hj]
        exact hct'
    · exact sim_none (by simp [applyOp, hi]) (by simp [Impl.apply, hll, Nat.le_of_not_lt hi])
  | bits _ => exact sim_none (by simp [applyOp]) (by simp [Impl.apply, hll])
  | bytes _ => exact sim_none (by simp [applyOp]) (by simp [Impl.apply, hll])
  | seq _ => exact sim_none (by simp [applyOp]) (by simp [Impl.apply, hll])
  | un _ _ => exact sim_none (by simp [applyOp]) (by simp [Impl.apply, hll])
  | none => exact sim_none (by simp [applyOp]) (by simp [Impl.apply, hll])

theorem sim_bitlist_append (H : Hash) (lim : Nat) (hlim : lim < 2 ^ 256) (bs : List Bool) (n : Node)
    (h : Impl.Repr H (.bitlist lim) (.bits bs) n) (x : Val) :
    Sim H (.bitlist lim) (.bits bs) n (.append x) := by
  simp only [Impl.Repr] at h
  obtain ⟨hlen, c, rfl, hct⟩ := h
  have hll := listLength_mixin H c bs.length (by omega)
  cases x with
  | num b =>
    by_cases hlt : bs.length < lim
    · have hcap := le_two_pow_getDepth ((lim + 255) / 256)
      have hcl := packBits_length' bs
      by_cases hz : bs.length % 256 = 0
      · have hcl2 : (packBits bs).length = bs.length / 256 := by omega
        have hpush := mix_push hct (lenNode bs.length) (by rw [List.length_map]; omega)
          (.leaf (bitSplice zeroChunk 0 (b != 0)))
        rw [List.length_map, hcl2] at hpush
        obtain ⟨c', hs, hct'⟩ := hpush
        refine sim_some (v' := .bits (bs ++ [b != 0])) (n' := mixInNode c' (bs.length + 1)) ?_ ?_ ?_
        · simp [applyOp, hlt]
        · simp only [Impl.apply, hll, ge_iff_le, Nat.not_le.2 hlt, if_false, hz, beq_self_eq_true,
            if_true, chunkWithBit_zeroNode]
          simp only [mixInNode, hs, Option.bind_some, rebindRight]
        · simp only [Impl.Repr, List.length_append, List.length_singleton]
          refine ⟨hlt, c', rfl, ?_⟩
          rw [packBits_append_new bs _ hz, List.map_append]
          exact hct'
      · have hj : bs.length / 256 < (packBits bs).length := by omega
        obtain ⟨hg, hset⟩ := mix_splice hct (lenNode bs.length) _ hj
        obtain ⟨c', hs, hct'⟩ := hset (bitSplice ((packBits bs)[bs.length / 256]) bs.length (b != 0))
        have hzb : (bs.length % 256 == 0) = false := by simp [hz]
        refine sim_some (v' := .bits (bs ++ [b != 0])) (n' := mixInNode c' (bs.length + 1)) ?_ ?_ ?_
        · simp [applyOp, hlt]
        · simp only [Impl.apply, hll, ge_iff_le, Nat.not_le.2 hlt, if_false, hzb,
            Bool.false_eq_true]
          simp only [mixInNode, hg, Option.bind_some, chunkWithBit_eq, Node.root, hs, rebindRight]
        · simp only [Impl.Repr, List.length_append, List.length_singleton]
          refine ⟨hlt, c', rfl, ?_⟩
          rw [packBits_append_same bs _ hz hj]
          exact hct'
    · exact sim_none (by simp [applyOp, hlt]) (by simp [Impl.apply, hll, Nat.le_of_not_lt hlt])
  | bits _ => exact sim_none (by simp [applyOp]) (by simp [Impl.apply, hll])
  | bytes _ => exact sim_none (by simp [applyOp]) (by simp [Impl.apply, hll])
  | seq _ => exact sim_none (by simp [applyOp]) (by simp [Impl.apply, hll])
  | un _ _ => exact sim_none (by simp [applyOp]) (by simp [Impl.apply, hll])
  | none => exact sim_none (by simp [applyOp]) (by simp [Impl.apply, hll])

theorem sim_bitlist_pop (H : Hash) (lim : Nat) (hlim : lim < 2 ^ 256) (bs : List Bool) (n : Node)
    (h : Impl.Repr H (.bitlist lim) (.bits bs) n) :
    Sim H (.bitlist lim) (.bits bs) n .pop := by
  simp only [Impl.Repr] at h
  obtain ⟨hlen, c, rfl, hct⟩ := h
  have hll := listLength_mixin H c bs.length (by omega)
  by_cases hpos : bs.length = 0
  · exact sim_none (by simp [applyOp, hpos]) (by simp only [Impl.apply, hll]; simp [hpos])
  · have ha : applyOp (.bitlist lim) (.bits bs) .pop = some (.bits bs.dropLast) := by
      simp [applyOp, hpos]
    have hcl := packBits_length' bs
    have hj : (bs.length - 1) / 256 < (packBits bs).length := by omega
    have hle := ct_length_le hct
    rw [List.length_map] at hle
    have hpow : 2 ^ (getDepth ((lim + 255) / 256) + 1) = 2 * 2 ^ getDepth ((lim + 255) / 256) := by
      rw [Nat.pow_succ]; omega
    have hnotge : ¬ (bs.length - 1) / 256 ≥ 2 ^ (getDepth ((lim + 255) / 256) + 1) := by omega
    by_cases hz : (bs.length - 1) % 256 = 0
    · obtain ⟨hrm, hidx⟩ := packBits_pop_remove bs (by omega) hz
      have hcne : (packBits bs).map Node.leaf ≠ [] := by
        intro e
        have := congrArg List.length e
        simp only [List.length_map, List.length_nil] at this
        omega
      obtain ⟨c1, hs, -, hfin⟩ := ct_popFinish hct hcne (lenNode bs.length) (IsZero.summary 0)
      rw [List.length_map, ← hidx] at hs hfin
      obtain ⟨c2, hpf, hct'⟩ := hfin ((bs.length - 1) / 256 % 2 == 0 && true) (bs.length - 1)
      refine sim_some ha (n' := mixInNode c2 (bs.length - 1)) ?_ ?_
      · simp only [Impl.apply, hll, hpos, if_false, hnotge, hz, beq_self_eq_true, if_true]
        simp only [mixInNode] at hs hpf ⊢
        simp only [hs, Option.bind_some, hpf]
      · simp only [Impl.Repr, List.length_dropLast]
        refine ⟨by omega, c2, rfl, ?_⟩
        rw [hrm, List.map_dropLast]
        exact hct'
    · obtain ⟨hg, hset⟩ := mix_splice hct (lenNode bs.length) _ hj
      obtain ⟨c', hs, hct'⟩ := hset (bitSplice ((packBits bs)[(bs.length - 1) / 256])
        (bs.length - 1) false)
      have hzb : ((bs.length - 1) % 256 == 0) = false := by simp [hz]
      refine sim_some ha (n' := mixInNode c' (bs.length - 1)) ?_ ?_
      · simp only [Impl.apply, hll, hpos, if_false, hnotge, hzb, Bool.false_eq_true]
        simp only [mixInNode, hg, Option.bind_some, chunkWithBit_eq, Node.root, hs,
          Bool.and_false, popFinish_false]
      · simp only [Impl.Repr, List.length_dropLast]
        refine ⟨by omega, c', rfl, ?_⟩
        rw [packBits_pop_same bs (by omega) hz hj]
        exact hct'

/-! ## 6. every type, every operation -/

/-- the simulation of one operation, for every type and every operation -/
theorem step_sim (H : Hash) (t : Ty) (hwf : t.wf = true) (hlim : limitsOk t = true) (v : Val)
    (n : Node) (h : Impl.Repr H t v n) (op : Op) : Sim H t v n op := by
  cases t with
  | uint nb =>
    cases v <;> try (simp only [Impl.Repr] at h; done)
    cases op <;> exact sim_none rfl rfl
  | bool =>
    cases v <;> try (simp only [Impl.Repr] at h; done)
    cases op <;> exact sim_none rfl rfl
  | bitvector len =>
    cases v <;> try (simp only [Impl.Repr] at h; done)
    cases op with
    | set i x => exact sim_bitvector_set H len _ n h i x
    | append x => exact sim_none rfl rfl
    | pop => exact sim_none rfl rfl
    | change sel x => exact sim_none rfl rfl
  | bitlist lim =>
    cases v <;> try (simp only [Impl.Repr] at h; done)
    simp [limitsOk] at hlim
    cases op with
    | set i x => exact sim_bitlist_set H lim hlim _ n h i x
    | append x => exact sim_bitlist_append H lim hlim _ n h x
    | pop => exact sim_bitlist_pop H lim hlim _ n h
    | change sel x => exact sim_none rfl rfl
  | bytevector len =>
    cases v <;> try (simp only [Impl.Repr] at h; done)
    cases op <;> exact sim_none rfl rfl
  | bytelist lim =>
    cases v <;> try (simp only [Impl.Repr] at h; done)
    cases op <;> exact sim_none rfl rfl
  | vector et len =>
    cases v <;> try (simp only [Impl.Repr] at h; done)
    simp [Ty.wf] at hwf
    cases op with
    | set i x => exact sim_vector_set H et len hwf.2 _ n h i x
    | append x => exact sim_none rfl rfl
    | pop => exact sim_none rfl rfl
    | change sel x => exact sim_none rfl rfl
  | list et lim =>
    cases v <;> try (simp only [Impl.Repr] at h; done)
    simp [Ty.wf] at hwf
    simp [limitsOk] at hlim
    cases op with
    | set i x => exact sim_list_set H et lim hwf hlim.1 _ n h i x
    | append x => exact sim_list_append H et lim hwf hlim.1 _ n h x
    | pop => exact sim_list_pop H et lim hwf hlim.1 _ n h
    | change sel x => exact sim_none rfl rfl
  | container fs =>
    cases v <;> try (simp only [Impl.Repr] at h; done)
    simp [Ty.wf] at hwf
    cases op with
    | set i x =>
      simp only [Impl.Repr] at h
      obtain ⟨ns, hf, hct⟩ := h
      exact sim_container_set H fs hwf.2 _ n ns hf hct i x
    | append x => exact sim_none rfl rfl
    | pop => exact sim_none rfl rfl
    | change sel x => exact sim_none rfl rfl
  | union hasNone opts =>
    cases v <;> try (simp only [Impl.Repr] at h; done)
    simp [Ty.wf] at hwf
    cases op with
    | set i x => exact sim_none rfl rfl
    | append x => exact sim_none rfl rfl
    | pop => exact sim_none rfl rfl
    | change sel x => exact sim_union_change H hasNone opts hwf.2 _ _ n sel x

variable (H : Hash)

/-- 1. a successful tree-level operation is the value-level operation, and lands in `Repr` -/
theorem step_repr (t : Ty) (hwf : t.wf = true) (hlim : limitsOk t = true) (v : Val) (n : Node)
    (hr : Impl.Repr H t v n) (op : Op) (n' : Node) (h : Impl.apply H t n op = some n') :
    ∃ v', applyOp t v op = some v' ∧ Impl.Repr H t v' n' := by
  have hs := step_sim H t hwf hlim v n hr op
  unfold Sim at hs
  cases ha : applyOp t v op with
  | none => rw [ha] at hs; simp only at hs; rw [hs] at h; cases h
  | some v' =>
    rw [ha] at hs
    obtain ⟨n'', hn, hr'⟩ := hs
    rw [h] at hn
    cases hn
    exact ⟨v', rfl, hr'⟩

/-- 2. whenever the value-level operation is allowed, the tree-level operation succeeds (and its
    result represents the new value) -/
theorem step_ok (t : Ty) (hwf : t.wf = true) (hlim : limitsOk t = true) (v : Val) (n : Node)
    (hr : Impl.Repr H t v n) (op : Op) (v' : Val) (h : applyOp t v op = some v') :
    ∃ n', Impl.apply H t n op = some n' ∧ Impl.Repr H t v' n' := by
  have hs := step_sim H t hwf hlim v n hr op
  unfold Sim at hs
  rw [h] at hs
  exact hs

/-- C14 at the model level: the tree-level operation fails (raises; no new state) exactly when the
    value-level operation violates a constraint -/
theorem step_none_iff (t : Ty) (hwf : t.wf = true) (hlim : limitsOk t = true) (v : Val) (n : Node)
    (hr : Impl.Repr H t v n) (op : Op) :
    Impl.apply H t n op = none ↔ applyOp t v op = none := by
  have hs := step_sim H t hwf hlim v n hr op
  unfold Sim at hs
  constructor
  · intro h
    cases ha : applyOp t v op with
    | none => rfl
    | some v' =>
      rw [ha] at hs
      obtain ⟨n', hn, _⟩ := hs
      rw [h] at hn; cases hn
  · intro h
    rw [h] at hs
    exact hs

/-! ## 7. histories -/

/-- run a sequence of operations on a backing tree; a failing operation (exception in Python)
    leaves the view as it was -/
def runImpl (t : Ty) : Node → List Op → Node
  | n, [] => n
  | n, op :: ops =>
    match Impl.apply H t n op with
    | some n' => runImpl t n' ops
    | none => runImpl t n ops

/-- run a sequence of operations on a plain value; a disallowed operation is skipped -/
def runSpec (t : Ty) : Val → List Op → Val
  | v, [] => v
  | v, op :: ops =>
    match applyOp t v op with
    | some v' => runSpec t v' ops
    | none => runSpec t v ops

/-- after ANY sequence of mutations the backing tree represents exactly the value the sequence
    implies -/
theorem history_repr (t : Ty) (hwf : t.wf = true) (hlim : limitsOk t = true) (ops : List Op) :
    ∀ (v₀ : Val) (n₀ : Node), Impl.Repr H t v₀ n₀ →
      Impl.Repr H t (runSpec t v₀ ops) (runImpl H t n₀ ops) := by
  induction ops with
  | nil => intro v₀ n₀ h; exact h
  | cons op ops ih =>
    intro v₀ n₀ h
    have hs := step_sim H t hwf hlim v₀ n₀ h op
    unfold Sim at hs
    cases ha : applyOp t v₀ op with
    | none =>
      rw [ha] at hs
      simp only at hs
      simp only [runSpec, runImpl, ha, hs]
      exact ih v₀ n₀ h
    | some v' =>
      rw [ha] at hs
      obtain ⟨n', hn, hr'⟩ := hs
      simp only [runSpec, runImpl, ha, hn]
      exact ih v' n' hr'

/-- ... it has the spec hash tree root of that value ... -/
theorem history_root (t : Ty) (hwf : t.wf = true) (hlim : limitsOk t = true) (ops : List Op)
    (v₀ : Val) (n₀ : Node) (h : Impl.Repr H t v₀ n₀) :
    (runImpl H t n₀ ops).root H = Spec.htr H t (runSpec t v₀ ops) :=
  repr_root H t _ _ hwf (history_repr H t hwf hlim ops v₀ n₀ h)

/-- ... and reads back (through the view API) exactly that value -/
theorem history_read (t : Ty) (hwf : t.wf = true) (hlim : limitsOk t = true) (ops : List Op)
    (v₀ : Val) (n₀ : Node) (h : Impl.Repr H t v₀ n₀) :
    Impl.readVal H t (runImpl H t n₀ ops) = some (runSpec t v₀ ops) :=
  repr_read H t _ _ hwf hlim (history_repr H t hwf hlim ops v₀ n₀ h)

/-- the same starting from a constructed view: indistinguishable from a fresh value -/
theorem history_fresh (t : Ty) (hwf : t.wf = true) (hlim : limitsOk t = true) (ops : List Op)
    (v₀ : Val) (n₀ : Node) (hc : Impl.construct H t v₀ = some n₀)
    (m : Node) (hm : Impl.construct H t (runSpec t v₀ ops) = some m) :
    (runImpl H t n₀ ops).root H = m.root H ∧
      Impl.readVal H t (runImpl H t n₀ ops) = Impl.readVal H t m := by
  have h0 := construct_repr H t v₀ n₀ hwf hc
  have hm' := construct_repr H t _ m hwf hm
  constructor
  · rw [history_root H t hwf hlim ops v₀ n₀ h0, repr_root H t _ m hwf hm']
  · rw [history_read H t hwf hlim ops v₀ n₀ h0, repr_read H t _ m hwf hlim hm']

end Rmk.StepRepr
