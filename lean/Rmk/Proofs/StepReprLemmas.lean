/-
Packing lemmas for the step theorem (Rmk/Proofs/StepRepr.lean): how `packInts` / `packBits` change
when one element of the packed list is assigned, appended or popped, expressed with the byte-level
splices the implementation performs (`spliceBasic`, `chunkWithBit`); plus pointwise-relation lemmas
(`AllRel`, `ReprFields`) for `set` / `append` / `dropLast`.
-/
import Rmk.Impl.Repr
import Rmk.Impl.View
import Rmk.Proofs.BytesLemmas
import Rmk.Proofs.ReprBasics
namespace Rmk.StepRepr
open Rmk Rmk.Impl Rmk.Spec
open Rmk.ChunkTreeLemmas Rmk.ConstructRoot Rmk.ReprBasics

/-! ## 1. padded groups -/

/-- group `j` of width `per` of `xs`, padded with `d` -/
def padGroup {α} (per : Nat) (d : α) (xs : List α) (j : Nat) : List α :=
  (List.range per).map fun r => xs.getD (per * j + r) d

@[simp] theorem padGroup_length {α} (per : Nat) (d : α) (xs : List α) (j : Nat) :
    (padGroup per d xs j).length = per := by simp [padGroup]

theorem padGroup_getElem {α} (per : Nat) (d : α) (xs : List α) (j r : Nat)
    (hr : r < (padGroup per d xs j).length) :
    (padGroup per d xs j)[r] = xs.getD (per * j + r) d := by
  simp [padGroup]

theorem take_drop_pad {α} (per : Nat) (d : α) (xs : List α) (j : Nat) :
    (xs.drop (per * j)).take per ++ List.replicate (per - ((xs.drop (per * j)).take per).length) d
      = padGroup per d xs j := by
  apply List.ext_getElem
  · simp only [List.length_append, List.length_take, List.length_drop, List.length_replicate,
      padGroup_length]; omega
  · intro r h1 h2
    rw [padGroup_getElem]
    simp only [padGroup_length] at h2
    by_cases hr : r < ((xs.drop (per * j)).take per).length
    · rw [List.getElem_append_left hr, List.getElem_take, List.getElem_drop]
      simp only [List.length_take, List.length_drop] at hr
      rw [List.getD_eq_getElem?_getD, List.getElem?_eq_getElem (by omega)]
      rfl
    · rw [List.getElem_append_right (by omega), List.getElem_replicate]
      simp only [List.length_take, List.length_drop] at hr
      rw [List.getD_eq_getElem?_getD, List.getElem?_eq_none (by omega)]
      rfl

/-- a padded map over `groups` is a map over the chunk indices -/
theorem groups_map_pad {α β} {per : Nat} (hper : 0 < per) (d : α) (F : List α → β) (xs : List α) :
    ((groups per xs).map fun g => F (g ++ List.replicate (per - g.length) d))
      = (List.range ((xs.length + per - 1) / per)).map fun j => F (padGroup per d xs j) := by
  apply List.ext_getElem
  · simp [groups_length hper]
  · intro j h1 h2
    simp only [List.length_map] at h1
    simp only [List.getElem_map, List.getElem_range, groups_getElem hper xs j h1, take_drop_pad]

/-- if `xs'` differs from `xs` (read with default `d`) exactly at index `i`, the padded groups
    differ exactly at group `i / per`, position `i % per` -/
theorem padGroup_update {α} {per : Nat} (hper : 0 < per) (d : α) (xs xs' : List α) (i : Nat) (x : α)
    (hd : ∀ k, xs'.getD k d = if k = i then x else xs.getD k d) (j : Nat) :
    padGroup per d xs' j
      = if j = i / per then (padGroup per d xs j).set (i % per) x else padGroup per d xs j := by
  have hdm := Nat.div_add_mod i per
  have hmod := Nat.mod_lt i hper
  apply List.ext_getElem
  · split <;> simp
  · intro r h1 h2
    simp only [padGroup_length] at h1
    rw [padGroup_getElem, hd]
    by_cases hj : j = i / per
    · simp only [hj, if_true]
      rw [List.getElem_set]
      by_cases hr : i % per = r
      · simp only [hr, if_true]
        rw [if_pos (by subst hr; omega)]
      · simp only [hr, if_false]
        rw [if_neg (by omega), padGroup_getElem]
    · simp only [hj, if_false]
      rw [padGroup_getElem, if_neg]
      intro he
      apply hj
      have : (per * j + r) / per = j := by
        rw [Nat.mul_add_div hper, Nat.div_eq_of_lt h1]; rfl
      rw [← he, this]

/-! ### reading with a default after `set` / `append` / `dropLast` -/

theorem getD_set_eq {α} (l : List α) (i : Nat) (x d : α) (hi : i < l.length) (k : Nat) :
    (l.set i x).getD k d = if k = i then x else l.getD k d := by
  simp only [List.getD_eq_getElem?_getD, List.getElem?_set]
  by_cases h : i = k
  · subst h; simp [hi]
  · have : ¬ k = i := fun e => h e.symm
    simp [h, this]

theorem getD_append_singleton {α} (l : List α) (x d : α) (k : Nat) :
    (l ++ [x]).getD k d = if k = l.length then x else l.getD k d := by
  simp only [List.getD_eq_getElem?_getD]
  by_cases h : k < l.length
  · rw [List.getElem?_append_left h, if_neg (by omega)]
  · rw [List.getElem?_append_right (by omega)]
    by_cases h2 : k = l.length
    · simp [h2]
    · rw [if_neg h2, List.getElem?_eq_none (by simp; omega), List.getElem?_eq_none (by omega)]

theorem getD_dropLast {α} (l : List α) (d : α) (k : Nat) :
    l.dropLast.getD k d = if k = l.length - 1 then d else l.getD k d := by
  simp only [List.getD_eq_getElem?_getD, List.getElem?_dropLast]
  by_cases h : k < l.length - 1
  · simp [h, Nat.ne_of_lt h]
  · simp only [h, if_false]
    by_cases h2 : k = l.length - 1
    · simp [h2]
    · rw [if_neg h2, List.getElem?_eq_none (by omega)]

/-! ## 2. packed integers -/

/-- `BasicView.backing_from_base` at the byte level -/
def spliceBytes (size : Nat) (r : List UInt8) (j v : Nat) : List UInt8 :=
  r.take (size * j) ++ toLE size v ++ r.drop (size * (j + 1))

theorem spliceBasic_eq (H : Hash) (size : Nat) (base : Node) (j v : Nat) :
    spliceBasic H size base j v = .leaf (spliceBytes size (base.root H) j v) := rfl

theorem splice_flatMap (size : Nat) (l : List Nat) (j v : Nat) (hj : j < l.length) :
    spliceBytes size (l.flatMap fun a => toLE size a) j v
      = (l.set j v).flatMap fun a => toLE size a := by
  induction l generalizing j with
  | nil => simp at hj
  | cons a l ih =>
    cases j with
    | zero =>
      simp only [spliceBytes, Nat.mul_zero, List.take_zero, List.nil_append, Nat.zero_add,
        Nat.mul_one, List.flatMap_cons, List.set_cons_zero, List.drop_left' (toLE_length size a)]
    | succ j =>
      have ih' := ih j (by simpa using hj)
      unfold spliceBytes at ih' ⊢
      have e1 : size * (j + 1) = (toLE size a).length + size * j := by
        rw [toLE_length, Nat.mul_succ]; omega
      have e2 : size * (j + 1 + 1) = (toLE size a).length + size * (j + 1) := by
        rw [toLE_length, Nat.mul_succ]; omega
      rw [List.flatMap_cons, List.set_cons_succ, List.flatMap_cons, e1, e2,
        List.take_length_add_append, List.drop_length_add_append, ← ih']
      simp only [List.append_assoc]

/-- chunk `j` of `pack_ints_to_chunks`, as a function of the chunk index -/
def intChunk (size : Nat) (nums : List Nat) (j : Nat) : Chunk :=
  (padGroup (32 / size) 0 nums j).flatMap fun v => toLE size v

theorem packInts_eq_range (size : Nat) (hper : 0 < 32 / size) (nums : List Nat) :
    packInts size nums
      = (List.range ((nums.length + 32 / size - 1) / (32 / size))).map (intChunk size nums) := by
  unfold packInts
  exact groups_map_pad hper 0 (fun g => g.flatMap fun v => toLE size v) nums

theorem packInts_getElem (size : Nat) (hper : 0 < 32 / size) (nums : List Nat) (j : Nat)
    (hj : j < (packInts size nums).length) : (packInts size nums)[j] = intChunk size nums j := by
  simp only [packInts_eq_range size hper nums, List.getElem_map, List.getElem_range]

theorem intChunk_update (size : Nat) (hper : 0 < 32 / size) (nums nums' : List Nat) (i x : Nat)
    (hd : ∀ k, nums'.getD k 0 = if k = i then x else nums.getD k 0) (j : Nat) :
    intChunk size nums' j
      = if j = i / (32 / size) then spliceBytes size (intChunk size nums j) (i % (32 / size)) x
        else intChunk size nums j := by
  unfold intChunk
  rw [padGroup_update hper 0 nums nums' i x hd j]
  split
  · rw [splice_flatMap _ _ _ _ (by simpa using Nat.mod_lt i hper)]
  · rfl

/-- the packed chunks after changing the number at index `i` (same number of chunks):
    chunk `i / per` is spliced at `i % per` -/
theorem packInts_update (size : Nat) (hper : 0 < 32 / size) (nums nums' : List Nat) (i x : Nat)
    (hcount : (nums'.length + 32 / size - 1) / (32 / size)
      = (nums.length + 32 / size - 1) / (32 / size))
    (hd : ∀ k, nums'.getD k 0 = if k = i then x else nums.getD k 0)
    (hj : i / (32 / size) < (packInts size nums).length) :
    packInts size nums' = (packInts size nums).set (i / (32 / size))
      (spliceBytes size ((packInts size nums)[i / (32 / size)]) (i % (32 / size)) x) := by
  have hl : (packInts size nums').length = (packInts size nums).length := by
    rw [packInts_length _ hper, packInts_length _ hper, hcount]
  apply List.ext_getElem
  · simp [hl]
  · intro j h1 h2
    rw [packInts_getElem size hper nums' j h1, intChunk_update size hper nums nums' i x hd j,
      List.getElem_set]
    by_cases hji : i / (32 / size) = j
    · subst hji
      simp only [if_true]
      rw [packInts_getElem size hper nums _ hj]
    · have : ¬ j = i / (32 / size) := fun e => hji e.symm
      simp only [this, hji, if_false]
      rw [packInts_getElem size hper nums j]

theorem ceil_div_eq (per len : Nat) (hper : 0 < per) :
    (len + per - 1) / per = len / per + (if len % per = 0 then 0 else 1) := by
  have h := Nat.div_add_mod len per
  have hm := Nat.mod_lt len hper
  by_cases hr : len % per = 0
  · have e : len + per - 1 = per * (len / per) + (per - 1) := by omega
    rw [e, Nat.mul_add_div hper, Nat.div_eq_of_lt (show per - 1 < per by omega)]
    simp [hr]
  · have e : len + per - 1 = per * (len / per + 1) + (len % per - 1) := by
      rw [Nat.mul_add, Nat.mul_one]; omega
    rw [e, Nat.mul_add_div hper, Nat.div_eq_of_lt (show len % per - 1 < per by omega)]
    simp [hr]

theorem ceil_div_succ (per len : Nat) (hper : 0 < per) :
    (len + 1 + per - 1) / per = len / per + 1 := by
  have e : len + 1 + per - 1 = len + per := by omega
  rw [e, Nat.add_div_right _ hper]

/-- `set`: chunk `i / per` is spliced at `i % per` -/
theorem packInts_set (size : Nat) (hper : 0 < 32 / size) (nums : List Nat) (i x : Nat)
    (hi : i < nums.length) (hj : i / (32 / size) < (packInts size nums).length) :
    packInts size (nums.set i x) = (packInts size nums).set (i / (32 / size))
      (spliceBytes size ((packInts size nums)[i / (32 / size)]) (i % (32 / size)) x) :=
  packInts_update size hper nums (nums.set i x) i x (by simp) (getD_set_eq nums i x 0 hi) hj

/-- `append` into a partly filled last chunk: the last chunk is spliced at `len % per` -/
theorem packInts_append_same (size : Nat) (hper : 0 < 32 / size) (nums : List Nat) (x : Nat)
    (hne : nums.length % (32 / size) ≠ 0)
    (hj : nums.length / (32 / size) < (packInts size nums).length) :
    packInts size (nums ++ [x]) = (packInts size nums).set (nums.length / (32 / size))
      (spliceBytes size ((packInts size nums)[nums.length / (32 / size)])
        (nums.length % (32 / size)) x) := by
  apply packInts_update size hper nums (nums ++ [x]) nums.length x _
    (getD_append_singleton nums x 0) hj
  rw [List.length_append, List.length_singleton, ceil_div_succ _ _ hper, ceil_div_eq _ _ hper,
    if_neg hne]

theorem drop_zeroChunk (k : Nat) : zeroChunk.drop k = zeros (32 - k) := by
  show List.drop k (List.replicate 32 0) = List.replicate (32 - k) 0
  rw [List.drop_replicate]

/-- `append` when all chunks are full: a new chunk, the splice into the zero chunk -/
theorem packInts_append_new (size : Nat) (hper : 0 < 32 / size) (hmul : 32 / size * size = 32)
    (nums : List Nat) (x : Nat) (hz : nums.length % (32 / size) = 0) :
    packInts size (nums ++ [x]) = packInts size nums ++ [spliceBytes size zeroChunk 0 x] := by
  unfold packInts
  simp only
  rw [groups_append hper nums [x] (Nat.dvd_of_mod_eq_zero hz),
    groups_single (xs := [x]) (n := 32 / size) (by simp) (by simp only [List.length_singleton]; omega),
    List.map_append]
  congr 1
  simp only [List.map_cons, List.map_nil, List.flatMap_append, List.flatMap_cons,
    List.flatMap_nil, List.append_nil, flatMap_toLE_replicate_zero, spliceBytes, Nat.mul_zero,
    List.take_zero, List.nil_append, Nat.zero_add, Nat.mul_one, drop_zeroChunk,
    List.length_singleton]
  congr 3
  rw [Nat.sub_mul, hmul]; omega

/-- `pop` inside the last chunk: the last chunk gets a zero spliced at `(len-1) % per` -/
theorem packInts_pop_same (size : Nat) (hper : 0 < 32 / size) (nums : List Nat)
    (hpos : 0 < nums.length) (hne : (nums.length - 1) % (32 / size) ≠ 0)
    (hj : (nums.length - 1) / (32 / size) < (packInts size nums).length) :
    packInts size nums.dropLast = (packInts size nums).set ((nums.length - 1) / (32 / size))
      (spliceBytes size ((packInts size nums)[(nums.length - 1) / (32 / size)])
        ((nums.length - 1) % (32 / size)) 0) := by
  apply packInts_update size hper nums nums.dropLast (nums.length - 1) 0 _
    (getD_dropLast nums 0) hj
  have e : nums.length = nums.length - 1 + 1 := by omega
  rw [List.length_dropLast, ceil_div_eq _ _ hper, if_neg hne]
  conv => rhs; rw [e, ceil_div_succ _ _ hper]

/-- `pop` of the only element of the last chunk: the last chunk disappears -/
theorem packInts_pop_remove (size : Nat) (hper : 0 < 32 / size) (hmul : 32 / size * size = 32)
    (nums : List Nat) (hpos : 0 < nums.length) (hz : (nums.length - 1) % (32 / size) = 0) :
    packInts size nums.dropLast = (packInts size nums).dropLast ∧
      (nums.length - 1) / (32 / size) = (packInts size nums).length - 1 := by
  have hne : nums ≠ [] := List.ne_nil_of_length_pos hpos
  constructor
  · conv => rhs; rw [← List.dropLast_concat_getLast hne]
    rw [packInts_append_new size hper hmul _ _ (by simpa using hz), List.dropLast_concat]
  · have e : nums.length = nums.length - 1 + 1 := by omega
    rw [packInts_length _ hper]
    conv => rhs; rw [e, ceil_div_succ _ _ hper]
    rw [Nat.add_sub_cancel]

theorem spliceBytes_zero_zero (size : Nat) (hs : size ≤ 32) :
    spliceBytes size zeroChunk 0 0 = zeroChunk := by
  simp only [spliceBytes, Nat.mul_zero, List.take_zero, List.nil_append, Nat.zero_add,
    Nat.mul_one, toLE_zero]
  rw [drop_zeroChunk, ← zeros_add, zeroChunk]
  congr 1; omega

/-! ## 3. packed bits -/

/-- `_new_chunk_with_bit` at the byte level -/
def bitSplice (r : List UInt8) (i : Nat) (v : Bool) : List UInt8 :=
  let k := (i % 256) / 8
  let old := (r.getD k 0).toNat
  let bit := 2 ^ (i % 8)
  let new := if v then (if old / bit % 2 == 1 then old else old + bit)
             else (if old / bit % 2 == 1 then old - bit else old)
  r.set k (UInt8.ofNat new)

theorem chunkWithBit_eq (H : Hash) (chunk : Node) (i : Nat) (v : Bool) :
    chunkWithBit H chunk i v = .leaf (bitSplice (chunk.root H) i v) := rfl

theorem bitSplice_length (r : List UInt8) (i : Nat) (v : Bool) :
    (bitSplice r i v).length = r.length := by simp [bitSplice]

theorem bitsToNat_set_key (g : List Bool) (j : Nat) (v : Bool) (hj : j < g.length) :
    bitsToNat (g.set j v) + (if g[j]?.getD false then 2 ^ j else 0)
      = bitsToNat g + (if v then 2 ^ j else 0) := by
  induction g generalizing j with
  | nil => simp at hj
  | cons b g ih =>
    cases j with
    | zero =>
      simp only [List.set_cons_zero, bitsToNat_cons, List.getElem?_cons_zero, Option.getD_some,
        Nat.pow_zero]
      cases b <;> cases v <;> simp <;> omega
    | succ j =>
      have := ih j (by simpa using hj)
      simp only [List.set_cons_succ, bitsToNat_cons, List.getElem?_cons_succ, Nat.pow_succ]
      by_cases hx : g[j]?.getD false = true <;> cases v <;> simp [hx] at this ⊢ <;> omega

theorem bitsToNat_set (g : List Bool) (j : Nat) (v : Bool) (hj : j < g.length) :
    bitsToNat (g.set j v)
      = if v then (if bitsToNat g / 2 ^ j % 2 == 1 then bitsToNat g else bitsToNat g + 2 ^ j)
        else (if bitsToNat g / 2 ^ j % 2 == 1 then bitsToNat g - 2 ^ j else bitsToNat g) := by
  have key := bitsToNat_set_key g j v hj
  rw [bitsToNat_testBit]
  by_cases hx : g[j]?.getD false = true <;> cases v <;> simp [hx] at key ⊢ <;> omega

theorem bitsToNat_replicate_false (k : Nat) : bitsToNat (List.replicate k false) = 0 := by
  induction k with
  | zero => rfl
  | succ k ih => simp [List.replicate_succ, bitsToNat_cons, ih]

theorem bitsToNat_append_replicate_false (g : List Bool) (k : Nat) :
    bitsToNat (g ++ List.replicate k false) = bitsToNat g := by
  rw [bitsToNat_append, bitsToNat_replicate_false]; simp

theorem padGroup_beyond {α} (per : Nat) (d : α) (xs : List α) (j : Nat)
    (h : xs.length ≤ per * j) : padGroup per d xs j = List.replicate per d := by
  apply List.ext_getElem
  · simp
  · intro r h1 h2
    rw [padGroup_getElem, List.getElem_replicate, List.getD_eq_getElem?_getD,
      List.getElem?_eq_none (by omega)]
    rfl

/-- byte `m` of the bitfield encoding, as a function of the byte index (zero beyond the end) -/
def bitByte (bs : List Bool) (m : Nat) : UInt8 := UInt8.ofNat (bitsToNat (padGroup 8 false bs m))

theorem bitByte_beyond (bs : List Bool) (m : Nat) (h : bs.length ≤ 8 * m) : bitByte bs m = 0 := by
  rw [bitByte, padGroup_beyond 8 false bs m h, bitsToNat_replicate_false]
  rfl

theorem bitsToBytes_eq_range (bs : List Bool) :
    bitsToBytes bs = (List.range ((bs.length + 7) / 8)).map (bitByte bs) := by
  have h := groups_map_pad (per := 8) (by decide) false
    (fun g => UInt8.ofNat (bitsToNat g)) bs
  simp only [bitsToNat_append_replicate_false] at h
  have e : (bs.length + 8 - 1) / 8 = (bs.length + 7) / 8 := by omega
  rw [e] at h
  exact h

theorem bitsToBytes_getD (bs : List Bool) (m : Nat) : (bitsToBytes bs).getD m 0 = bitByte bs m := by
  rw [List.getD_eq_getElem?_getD]
  by_cases hm : m < (bs.length + 7) / 8
  · rw [List.getElem?_eq_getElem (by simpa using hm)]
    simp only [bitsToBytes_eq_range bs, List.getElem_map, List.getElem_range, Option.getD_some]
  · rw [List.getElem?_eq_none (by simp; omega), bitByte_beyond bs m (by omega)]
    rfl

/-- chunk `j` of `pack_bits_to_chunks`, as a function of the chunk index -/
def bitChunk (bs : List Bool) (j : Nat) : Chunk :=
  (List.range 32).map fun k => bitByte bs (32 * j + k)

theorem packBits_eq_range (bs : List Bool) :
    packBits bs = (List.range ((bs.length + 255) / 256)).map (bitChunk bs) := by
  have h := groups_map_pad (per := 32) (by decide) (0 : UInt8) (fun g => g) (bitsToBytes bs)
  have e : ((bitsToBytes bs).length + 32 - 1) / 32 = (bs.length + 255) / 256 := by
    rw [bitsToBytes_length]; omega
  rw [e] at h
  unfold packBits zeros
  rw [h]
  apply List.map_congr_left
  intro j _
  simp only [padGroup, bitChunk, bitsToBytes_getD]

theorem packBits_getElem (bs : List Bool) (j : Nat) (hj : j < (packBits bs).length) :
    (packBits bs)[j] = bitChunk bs j := by
  simp only [packBits_eq_range bs, List.getElem_map, List.getElem_range]

theorem packBits_length' (bs : List Bool) : (packBits bs).length = (bs.length + 255) / 256 := by
  rw [packBits_length]; omega

theorem bitChunk_length (bs : List Bool) (j : Nat) : (bitChunk bs j).length = 32 := by
  simp [bitChunk]

theorem bitChunk_beyond (bs : List Bool) (j : Nat) (h : bs.length ≤ 256 * j) :
    bitChunk bs j = zeroChunk := by
  apply List.ext_getElem
  · simp [bitChunk]
  · intro k h1 h2
    simp only [bitChunk, List.length_map, List.length_range] at h1
    simp only [bitChunk, List.getElem_map, List.getElem_range, zeroChunk, zeros,
      List.getElem_replicate]
    exact bitByte_beyond bs _ (by omega)

theorem bitChunk_update (bs bs' : List Bool) (i : Nat) (v : Bool)
    (hd : ∀ k, bs'.getD k false = if k = i then v else bs.getD k false) (j : Nat) :
    bitChunk bs' j = if j = i / 256 then bitSplice (bitChunk bs j) i v else bitChunk bs j := by
  have hb : ∀ m, bitByte bs' m
      = if m = i / 8 then UInt8.ofNat (bitsToNat ((padGroup 8 false bs m).set (i % 8) v))
        else bitByte bs m := by
    intro m
    unfold bitByte
    rw [padGroup_update (by decide) false bs bs' i v hd m]
    split <;> rfl
  apply List.ext_getElem
  · split
    · rw [bitSplice_length, bitChunk_length, bitChunk_length]
    · rw [bitChunk_length, bitChunk_length]
  · intro k h1 h2
    simp only [bitChunk, List.length_map, List.length_range] at h1
    have hk : (bitChunk bs' j)[k] = bitByte bs' (32 * j + k) := by
      simp only [bitChunk, List.getElem_map, List.getElem_range]
    refine hk.trans ?_
    rw [hb]
    by_cases hj : j = i / 256
    · simp only [hj, if_true]
      have hkk : i % 256 / 8 < (bitChunk bs (i / 256)).length := by
        rw [bitChunk_length]; omega
      have hold : ((bitChunk bs (i / 256)).getD (i % 256 / 8) 0).toNat
          = bitsToNat (padGroup 8 false bs (i / 8)) := by
        rw [List.getD_eq_getElem?_getD, List.getElem?_eq_getElem hkk, Option.getD_some]
        simp only [bitChunk, List.getElem_map, List.getElem_range]
        have e : 32 * (i / 256) + i % 256 / 8 = i / 8 := by omega
        rw [e, bitByte, toNat_ofNat_bitsToNat (by simp)]
      unfold bitSplice
      simp only [hold]
      rw [List.getElem_set]
      by_cases hk2 : i % 256 / 8 = k
      · simp only [hk2, if_true]
        have e : 32 * (i / 256) + k = i / 8 := by omega
        rw [if_pos (by omega), bitsToNat_set _ _ _ (by simp; omega), e]
      · simp only [hk2, if_false]
        rw [if_neg (by omega)]
        simp only [bitChunk, List.getElem_map, List.getElem_range]
    · simp only [hj, if_false]
      rw [if_neg (by omega)]
      simp only [bitChunk, List.getElem_map, List.getElem_range]

/-- the packed bit chunks after changing bit `i` (same number of chunks) -/
theorem packBits_update (bs bs' : List Bool) (i : Nat) (v : Bool)
    (hcount : (bs'.length + 255) / 256 = (bs.length + 255) / 256)
    (hd : ∀ k, bs'.getD k false = if k = i then v else bs.getD k false)
    (hj : i / 256 < (packBits bs).length) :
    packBits bs' = (packBits bs).set (i / 256) (bitSplice ((packBits bs)[i / 256]) i v) := by
  have hl : (packBits bs').length = (packBits bs).length := by
    rw [packBits_length', packBits_length', hcount]
  apply List.ext_getElem
  · simp [hl]
  · intro j h1 h2
    rw [packBits_getElem bs' j h1, bitChunk_update bs bs' i v hd j, List.getElem_set]
    by_cases hji : i / 256 = j
    · subst hji
      simp only [if_true]
      rw [packBits_getElem bs _ hj]
    · have : ¬ j = i / 256 := fun e => hji e.symm
      simp only [this, hji, if_false]
      rw [packBits_getElem bs j]

theorem packBits_set (bs : List Bool) (i : Nat) (v : Bool) (hi : i < bs.length)
    (hj : i / 256 < (packBits bs).length) :
    packBits (bs.set i v) = (packBits bs).set (i / 256) (bitSplice ((packBits bs)[i / 256]) i v) :=
  packBits_update bs (bs.set i v) i v (by simp) (getD_set_eq bs i v false hi) hj

theorem packBits_append_same (bs : List Bool) (v : Bool) (hne : bs.length % 256 ≠ 0)
    (hj : bs.length / 256 < (packBits bs).length) :
    packBits (bs ++ [v]) = (packBits bs).set (bs.length / 256)
      (bitSplice ((packBits bs)[bs.length / 256]) bs.length v) :=
  packBits_update bs (bs ++ [v]) bs.length v (by simp; omega) (getD_append_singleton bs v false) hj

theorem bitSplice_mod (r : List UInt8) (i : Nat) (v : Bool) (h : i % 256 = 0) :
    bitSplice r i v = bitSplice r 0 v := by
  have h8 : i % 8 = 0 := by omega
  simp only [bitSplice, h, h8]

theorem packBits_append_new (bs : List Bool) (v : Bool) (hz : bs.length % 256 = 0) :
    packBits (bs ++ [v]) = packBits bs ++ [bitSplice zeroChunk 0 v] := by
  have hc : ((bs ++ [v]).length + 255) / 256 = (bs.length + 255) / 256 + 1 := by
    simp only [List.length_append, List.length_singleton]; omega
  have hc2 : (bs.length + 255) / 256 = bs.length / 256 := by omega
  have hd := getD_append_singleton bs v false
  have hA : (List.range ((bs.length + 255) / 256)).map (bitChunk (bs ++ [v]))
      = (List.range ((bs.length + 255) / 256)).map (bitChunk bs) := by
    apply List.map_congr_left
    intro j hj
    rw [List.mem_range] at hj
    rw [bitChunk_update bs (bs ++ [v]) bs.length v hd j, if_neg (by omega)]
  have hx : bitChunk (bs ++ [v]) ((bs.length + 255) / 256) = bitSplice zeroChunk 0 v := by
    rw [bitChunk_update bs (bs ++ [v]) bs.length v hd _, if_pos (by omega),
      bitChunk_beyond bs _ (by omega), bitSplice_mod _ _ _ hz]
  refine (packBits_eq_range (bs ++ [v])).trans ?_
  rw [hc, List.range_succ, List.map_append, hA, List.map_cons, List.map_nil, hx]
  exact (congrArg (· ++ [bitSplice zeroChunk 0 v]) (packBits_eq_range bs)).symm

theorem packBits_pop_same (bs : List Bool) (hpos : 0 < bs.length) (hne : (bs.length - 1) % 256 ≠ 0)
    (hj : (bs.length - 1) / 256 < (packBits bs).length) :
    packBits bs.dropLast = (packBits bs).set ((bs.length - 1) / 256)
      (bitSplice ((packBits bs)[(bs.length - 1) / 256]) (bs.length - 1) false) :=
  packBits_update bs bs.dropLast (bs.length - 1) false (by simp; omega) (getD_dropLast bs false) hj

theorem packBits_pop_remove (bs : List Bool) (hpos : 0 < bs.length)
    (hz : (bs.length - 1) % 256 = 0) :
    packBits bs.dropLast = (packBits bs).dropLast ∧
      (bs.length - 1) / 256 = (packBits bs).length - 1 := by
  have hne : bs ≠ [] := List.ne_nil_of_length_pos hpos
  constructor
  · conv => rhs; rw [← List.dropLast_concat_getLast hne]
    rw [packBits_append_new _ _ (by simpa using hz), List.dropLast_concat]
  · rw [packBits_length']; omega

/-! ## 4. pointwise relations under `set` / `append` / `dropLast` -/

section AllRel
variable {α β : Type _} {R : α → β → Prop}

theorem allRel_set : ∀ {as : List α} {bs : List β}, AllRel R as bs →
    ∀ (i : Nat) (a : α) (b : β), R a b → AllRel R (as.set i a) (bs.set i b)
  | [], [], _, _, _, _, _ => by simp [AllRel]
  | x :: as, y :: bs, h, i, a, b, hr => by
    cases i with
    | zero => exact ⟨hr, h.2⟩
    | succ i => exact ⟨h.1, allRel_set (as := as) (bs := bs) h.2 i a b hr⟩
  | [], _ :: _, h, _, _, _, _ => by cases h
  | _ :: _, [], h, _, _, _, _ => by cases h

theorem allRel_append_singleton : ∀ {as : List α} {bs : List β}, AllRel R as bs →
    ∀ (a : α) (b : β), R a b → AllRel R (as ++ [a]) (bs ++ [b])
  | [], [], _, _, _, hr => ⟨hr, trivial⟩
  | x :: as, y :: bs, h, a, b, hr =>
    ⟨h.1, allRel_append_singleton (as := as) (bs := bs) h.2 a b hr⟩
  | [], _ :: _, h, _, _, _ => by cases h
  | _ :: _, [], h, _, _, _ => by cases h

theorem allRel_dropLast : ∀ {as : List α} {bs : List β}, AllRel R as bs →
    AllRel R as.dropLast bs.dropLast
  | [], [], _ => trivial
  | [_], [_], _ => trivial
  | x :: x' :: as, y :: y' :: bs, h =>
    ⟨h.1, allRel_dropLast (as := x' :: as) (bs := y' :: bs) h.2⟩
  | [], _ :: _, h => by cases h
  | _ :: _, [], h => by cases h
  | [_], _ :: _ :: _, h => by cases h.2
  | _ :: _ :: _, [_], h => by cases h.2

end AllRel

theorem reprFields_set {H : Hash} : ∀ {fs : List Ty} {vs : List Val} {ns : List Node},
    ReprFields H fs vs ns → ∀ (i : Nat) (ft : Ty) (x : Val) (m : Node), fs[i]? = some ft →
    Impl.Repr H ft x m → ReprFields H fs (vs.set i x) (ns.set i m)
  | [], [], [], _, i, _, _, _, hf, _ => by simp at hf
  | t :: ts, v :: vs, n :: ns, h, i, ft, x, m, hf, hr => by
    simp only [ReprFields] at h
    cases i with
    | zero =>
      simp only [List.getElem?_cons_zero, Option.some.injEq] at hf
      subst hf
      simp only [List.set_cons_zero, ReprFields]
      exact ⟨hr, h.2⟩
    | succ i =>
      simp only [List.getElem?_cons_succ] at hf
      simp only [List.set_cons_succ, ReprFields]
      exact ⟨h.1, reprFields_set (fs := ts) (vs := vs) (ns := ns) h.2 i ft x m hf hr⟩
  | [], _ :: _, _, h, _, _, _, _, _, _ => by simp only [ReprFields] at h
  | [], [], _ :: _, h, _, _, _, _, _, _ => by simp only [ReprFields] at h
  | _ :: _, [], _, h, _, _, _, _, _, _ => by simp only [ReprFields] at h
  | _ :: _, _ :: _, [], h, _, _, _, _, _, _ => by simp only [ReprFields] at h

theorem map_leaf_set (cs : List Chunk) (j : Nat) (c : Chunk) :
    (cs.map Node.leaf).set j (.leaf c) = (cs.set j c).map Node.leaf := by
  rw [List.map_set]

end Rmk.StepRepr
