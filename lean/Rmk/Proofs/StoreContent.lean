/-
C05, content clause: after a mutation through a child view, every enclosing view REPRESENTS the
updated value.  `Rmk/Proofs/StoreLaws.lean` proves the tree-level statement (the parent has the new
child node at the hook key); here it is lifted to values with the refinement relation `Impl.Repr`.
Everything is generic in the pair hash `H`.
-/
import Rmk.Impl.Store
import Rmk.Impl.Repr
import Rmk.Spec.Apply
import Rmk.Proofs.StoreLaws
import Rmk.Proofs.ReprBasics
import Rmk.Proofs.StepRepr
import Rmk.Proofs.SerTree
import Rmk.Proofs.PathAddress
namespace Rmk.StoreContent
open Rmk Rmk.Impl Rmk.Spec
open Rmk.ChunkTreeLemmas Rmk.ReprBasics Rmk.StoreLaws

/-! ## 1. the value-level effect of the hook -/

/-- The value-level effect of the hook `parent.set(key, child)`: list / vector element `key`
    replaced (`key < length`), container field `key` replaced, union value replaced (same selector;
    the key of a union hook is ignored, as in `childOf` / `setChildNode`). -/
def setChildVal : Ty → Val → Nat → Val → Option Val
  | .vector _ _, .seq vs, key, cv => if key < vs.length then some (.seq (vs.set key cv)) else none
  | .list _ _, .seq vs, key, cv => if key < vs.length then some (.seq (vs.set key cv)) else none
  | .container _, .seq vs, key, cv => if key < vs.length then some (.seq (vs.set key cv)) else none
  | .union _ _, .un sel _, _, cv => some (.un sel cv)
  | _, _, _, _ => none

/-- The value-level `childOf`: type and value of the child view of a composite value at `key`
    (`none` where `childOf` gives no mutable child view: basic elements, the `None` option, keys
    out of range). -/
def getChildVal : Ty → Val → Nat → Option (Ty × Val)
  | .vector et _, .seq vs, key => if et.isBasic then none else (vs[key]?).map fun x => (et, x)
  | .list et _, .seq vs, key => if et.isBasic then none else (vs[key]?).map fun x => (et, x)
  | .container fs, .seq vs, key =>
    match fs[key]?, vs[key]? with
    | some ft, some x => some (ft, x)
    | _, _ => none
  | .union hasNone opts, .un sel x, _ => (optType hasNone opts sel).map fun ot => (ot, x)
  | _, _, _ => none

/-! ### pure value-level laws of `getChildVal` / `setChildVal` -/

/-- writing back what was read is the identity -/
theorem setChildVal_self {t : Ty} {v : Val} {key : Nat} {ct : Ty} {cv : Val}
    (h : getChildVal t v key = some (ct, cv)) : setChildVal t v key cv = some v := by
  cases t <;> cases v <;> simp only [getChildVal] at h <;> try (simp at h; done)
  · rename_i et len vs
    split at h
    · simp at h
    · cases hk : vs[key]? with
      | none => simp [hk] at h
      | some x =>
        simp [hk] at h
        obtain ⟨_, rfl⟩ := h
        obtain ⟨hlt, hx⟩ := List.getElem?_eq_some_iff.1 hk
        simp [setChildVal, hlt, ← hx]
  · rename_i et len vs
    split at h
    · simp at h
    · cases hk : vs[key]? with
      | none => simp [hk] at h
      | some x =>
        simp [hk] at h
        obtain ⟨_, rfl⟩ := h
        obtain ⟨hlt, hx⟩ := List.getElem?_eq_some_iff.1 hk
        simp [setChildVal, hlt, ← hx]
  · rename_i fs vs
    split at h
    · rename_i ft x hf hk
      simp at h
      obtain ⟨_, rfl⟩ := h
      obtain ⟨hlt, hx⟩ := List.getElem?_eq_some_iff.1 hk
      simp [setChildVal, hlt, ← hx]
    · simp at h
  · rename_i hasNone opts sel x
    cases ho : optType hasNone opts sel with
    | none => simp [ho] at h
    | some ot =>
      simp [ho] at h
      obtain ⟨_, rfl⟩ := h
      simp [setChildVal]

/-- a child that can be read can be replaced -/
theorem setChildVal_isSome {t : Ty} {v : Val} {key : Nat} {ct : Ty} {cv : Val}
    (h : getChildVal t v key = some (ct, cv)) (cv' : Val) :
    ∃ v', setChildVal t v key cv' = some v' := by
  cases t <;> cases v <;> simp only [getChildVal] at h <;> try (simp at h; done)
  · rename_i et len vs
    split at h
    · simp at h
    · cases hk : vs[key]? with
      | none => simp [hk] at h
      | some x =>
        obtain ⟨hlt, hx⟩ := List.getElem?_eq_some_iff.1 hk
        exact ⟨.seq (vs.set key cv'), by simp [setChildVal, hlt]⟩
  · rename_i et len vs
    split at h
    · simp at h
    · cases hk : vs[key]? with
      | none => simp [hk] at h
      | some x =>
        obtain ⟨hlt, hx⟩ := List.getElem?_eq_some_iff.1 hk
        exact ⟨.seq (vs.set key cv'), by simp [setChildVal, hlt]⟩
  · rename_i fs vs
    split at h
    · rename_i ft x hf hk
      obtain ⟨hlt, hx⟩ := List.getElem?_eq_some_iff.1 hk
      exact ⟨.seq (vs.set key cv'), by simp [setChildVal, hlt]⟩
    · simp at h
  · rename_i hasNone opts sel x
    exact ⟨.un sel cv', by simp [setChildVal]⟩

/-- get-after-set at value level: the child read back is the child written (same type) -/
theorem getChildVal_setChildVal {t : Ty} {v v' : Val} {key : Nat} {ct : Ty} {cv cv' : Val}
    (h : getChildVal t v key = some (ct, cv)) (hs : setChildVal t v key cv' = some v') :
    getChildVal t v' key = some (ct, cv') := by
  cases t <;> cases v <;> simp only [getChildVal] at h <;> try (simp at h; done)
  · rename_i et len vs
    split at h
    · simp at h
    · rename_i hb
      cases hk : vs[key]? with
      | none => simp [hk] at h
      | some x =>
        simp [hk] at h
        obtain ⟨rfl, rfl⟩ := h
        obtain ⟨hlt, hx⟩ := List.getElem?_eq_some_iff.1 hk
        simp [setChildVal, hlt] at hs
        subst hs
        simp [getChildVal, hb, hlt]
  · rename_i et len vs
    split at h
    · simp at h
    · rename_i hb
      cases hk : vs[key]? with
      | none => simp [hk] at h
      | some x =>
        simp [hk] at h
        obtain ⟨rfl, rfl⟩ := h
        obtain ⟨hlt, hx⟩ := List.getElem?_eq_some_iff.1 hk
        simp [setChildVal, hlt] at hs
        subst hs
        simp [getChildVal, hb, hlt]
  · rename_i fs vs
    split at h
    · rename_i ft x hf hk
      simp at h
      obtain ⟨rfl, rfl⟩ := h
      obtain ⟨hlt, hx⟩ := List.getElem?_eq_some_iff.1 hk
      simp [setChildVal, hlt] at hs
      subst hs
      simp [getChildVal, hf, hlt]
    · simp at h
  · rename_i hasNone opts sel x
    cases ho : optType hasNone opts sel with
    | none => simp [ho] at h
    | some ot =>
      simp [ho] at h
      obtain ⟨rfl, rfl⟩ := h
      simp [setChildVal] at hs
      subst hs
      simp [getChildVal, ho]

/-- the child of a well-formed type is well-formed, and its limits are within range -/
theorem getChildVal_wf {t : Ty} {v : Val} {key : Nat} {ct : Ty} {cv : Val}
    (hwf : t.wf = true) (hlim : limitsOk t = true) (h : getChildVal t v key = some (ct, cv)) :
    ct.wf = true ∧ limitsOk ct = true := by
  cases t <;> cases v <;> simp only [getChildVal] at h <;> try (simp at h; done)
  · rename_i et len vs
    split at h
    · simp at h
    · cases hk : vs[key]? with
      | none => simp [hk] at h
      | some x =>
        simp [hk] at h
        obtain ⟨rfl, _⟩ := h
        simp [Ty.wf] at hwf
        simp [limitsOk] at hlim
        exact ⟨hwf.2, hlim⟩
  · rename_i et len vs
    split at h
    · simp at h
    · cases hk : vs[key]? with
      | none => simp [hk] at h
      | some x =>
        simp [hk] at h
        obtain ⟨rfl, _⟩ := h
        simp [Ty.wf] at hwf
        simp [limitsOk] at hlim
        exact ⟨hwf, hlim.2⟩
  · rename_i fs vs
    split at h
    · rename_i ft x hf hk
      simp at h
      obtain ⟨rfl, _⟩ := h
      simp [Ty.wf] at hwf
      simp [limitsOk] at hlim
      exact ⟨wfList_getElem? fs hwf.2 key _ hf, PathAddress.limitsOkList_getElem? fs hlim key _ hf⟩
    · simp at h
  · rename_i hasNone opts sel x
    cases ho : optType hasNone opts sel with
    | none => simp [ho] at h
    | some ot =>
      simp [ho] at h
      obtain ⟨rfl, _⟩ := h
      simp [Ty.wf] at hwf
      simp [limitsOk] at hlim
      unfold optType at ho
      split at ho
      · simp at ho
      · exact ⟨wfList_getElem? opts hwf.2 _ _ ho, PathAddress.limitsOkList_getElem? opts hlim _ _ ho⟩

/-! ## 2. one level: the child node and the child value -/

theorem reprOpt_of_get {H : Hash} : ∀ {opts : List Ty} {k : Nat} {v : Val} {c : Node} (t : Ty),
    opts[k]? = some t → Impl.Repr H t v c → ReprOpt H opts k v c
  | [], _, _, _, _, ht, _ => by simp at ht
  | t :: _, 0, _, _, t', ht, h => by
    simp at ht; subst ht
    simpa only [ReprOpt] using h
  | _ :: ts, k + 1, _, _, t', ht, h => by
    simp at ht
    simp only [ReprOpt]
    exact reprOpt_of_get (opts := ts) t' ht h

/-- what `Repr` of a union says once the selector is known not to be the `None` option -/
theorem optType_some {hasNone : Bool} {opts : List Ty} {sel : Nat} {ot : Ty}
    (h : optType hasNone opts sel = some ot) :
    ¬ (hasNone && sel == 0) = true ∧ opts[optIndex hasNone sel]? = some ot := by
  unfold optType at h
  split at h
  · simp at h
  · rename_i hc
    exact ⟨hc, h⟩

/-- CORE of 3 (both directions at once).  For a represented composite value, the tree-level child
    (`childOf`) exists exactly when the value-level child (`getChildVal`) does, they have the same
    type, and the child node represents the child value. -/
theorem child_repr (H : Hash) (t : Ty) (v : Val) (n : Node) (key : Nat)
    (hwf : t.wf = true) (hlim : limitsOk t = true) (h : Impl.Repr H t v n) :
    (∀ ct c, childOf H t n key = some (ct, c) →
      ∃ cv, getChildVal t v key = some (ct, cv) ∧ Impl.Repr H ct cv c) ∧
    (∀ ct cv, getChildVal t v key = some (ct, cv) →
      ∃ c, childOf H t n key = some (ct, c) ∧ Impl.Repr H ct cv c) := by
  cases t with
  | uint nb => cases v <;> simp [childOf, getChildVal]
  | bool => cases v <;> simp [childOf, getChildVal]
  | bitvector len => cases v <;> simp [childOf, getChildVal]
  | bitlist lim => cases v <;> simp [childOf, getChildVal]
  | bytevector len => cases v <;> simp [childOf, getChildVal]
  | bytelist lim => cases v <;> simp [childOf, getChildVal]
  | vector et len =>
    cases v <;> try (simp only [Impl.Repr] at h; done)
    rename_i vs
    simp only [Impl.Repr] at h
    obtain ⟨hlen, h⟩ := h
    by_cases hb : et.isBasic = true
    · simp [childOf, getChildVal, hb]
    · simp only [hb, Bool.false_eq_true, if_false] at h
      obtain ⟨ns, hall, hct⟩ := h
      have hl := allRel_length hall
      by_cases hk : key < len
      · have hkn : key < ns.length := by omega
        have hkv : key < vs.length := by omega
        have hg := ct_get hct hkn
        have hr := allRel_get hall key hkv hkn
        have hcond : ¬ ((et.isBasic || decide (key ≥ len)) = true) := by
          simp [hb]; omega
        constructor
        · intro ct c hc
          simp only [childOf, if_neg hcond, hg, Option.map_some, Option.some.injEq,
            Prod.mk.injEq] at hc
          obtain ⟨rfl, rfl⟩ := hc
          exact ⟨vs[key], by simp [getChildVal, hb, hkv], hr⟩
        · intro ct cv hc
          simp [getChildVal, hb, hkv] at hc
          obtain ⟨rfl, rfl⟩ := hc
          exact ⟨ns[key], by simp only [childOf, if_neg hcond, hg, Option.map_some], hr⟩
      · have hcond : ((et.isBasic || decide (key ≥ len)) = true) := by
          simp; right; omega
        have hkv : ¬ key < vs.length := by omega
        simp [childOf, getChildVal, hcond, hkv]
  | list et lim =>
    cases v <;> try (simp only [Impl.Repr] at h; done)
    rename_i vs
    simp only [Impl.Repr] at h
    obtain ⟨hlen, c0, rfl, h⟩ := h
    simp [limitsOk] at hlim
    have hll := listLength_mixin H c0 vs.length (by omega)
    by_cases hb : et.isBasic = true
    · simp [childOf, getChildVal, hb, hll]
    · simp only [hb, Bool.false_eq_true, if_false] at h
      obtain ⟨ns, hall, hct⟩ := h
      have hl := allRel_length hall
      have hle := ct_length_le hct
      by_cases hk : key < vs.length
      · have hkn : key < ns.length := by omega
        have hg : getAt (mixInNode c0 vs.length) key (getDepth (chunkLen et lim) + 1)
            = some ns[key] := by
          unfold mixInNode
          rw [getAt_mixin _ _ (by omega), ct_get hct hkn]
        have hr := allRel_get hall key hk hkn
        have hcond : ¬ ((et.isBasic || decide (key ≥ vs.length)) = true) := by
          simp [hb]; omega
        constructor
        · intro ct c hc
          simp only [childOf, hll, if_neg hcond, hg, Option.map_some, Option.some.injEq,
            Prod.mk.injEq] at hc
          obtain ⟨rfl, rfl⟩ := hc
          exact ⟨vs[key], by simp [getChildVal, hb, hk], hr⟩
        · intro ct cv hc
          simp [getChildVal, hb, hk] at hc
          obtain ⟨rfl, rfl⟩ := hc
          exact ⟨ns[key], by simp only [childOf, hll, if_neg hcond, hg, Option.map_some], hr⟩
      · have hcond : ((et.isBasic || decide (key ≥ vs.length)) = true) := by
          simp; right; omega
        simp [childOf, getChildVal, hll, hcond]
        intro _
        rw [List.getElem?_eq_none (by omega)]
        simp
  | container fs =>
    cases v <;> try (simp only [Impl.Repr] at h; done)
    rename_i vs
    simp only [Impl.Repr] at h
    obtain ⟨ns, hf, hct⟩ := h
    obtain ⟨hlv, hln⟩ := reprFields_length hf
    simp [Ty.wf] at hwf
    cases hfk : fs[key]? with
    | none => simp [childOf, getChildVal, hfk]
    | some ft =>
      obtain ⟨hkf, hft⟩ := List.getElem?_eq_some_iff.1 hfk
      have hkv : key < vs.length := by omega
      have hkn : key < ns.length := by omega
      have hvk : vs[key]? = some vs[key] := List.getElem?_eq_getElem hkv
      obtain ⟨_, hr⟩ := PathAddress.reprFields_get hf key ft vs[key] hfk hvk
      have hg := ct_get hct hkn
      constructor
      · intro ct c hc
        simp only [childOf, hfk, hg, Option.map_some, Option.some.injEq, Prod.mk.injEq] at hc
        obtain ⟨rfl, rfl⟩ := hc
        exact ⟨vs[key], by simp [getChildVal, hfk, hkv], hr⟩
      · intro ct cv hc
        simp [getChildVal, hfk, hkv] at hc
        obtain ⟨rfl, rfl⟩ := hc
        exact ⟨ns[key], by simp only [childOf, hfk, hg, Option.map_some], hr⟩
  | union hasNone opts =>
    cases v <;> try (simp only [Impl.Repr] at h; done)
    rename_i sel x
    simp only [Impl.Repr] at h
    obtain ⟨hsel, c0, rfl, h⟩ := h
    simp [Ty.wf] at hwf
    have hsel256 : sel < 2 ^ 256 := by
      have : optCount hasNone opts ≤ 128 := hwf.1.1.2
      omega
    have hrl := readLen_lenNode H sel hsel256
    cases ho : optType hasNone opts sel with
    | none => simp [childOf, getChildVal, getLeft, getRight, hrl, ho]
    | some ot =>
      obtain ⟨hc, hoi⟩ := optType_some ho
      rw [if_neg hc] at h
      have hr := PathAddress.reprOpt_get h ot hoi
      have hch : childOf H (.union hasNone opts) (.pair c0 (lenNode sel)) key = some (ot, c0) := by
        simp only [childOf, getLeft, getRight, hrl, ho]
        rw [if_neg (by omega)]
      constructor
      · intro ct c hcc
        rw [hch] at hcc
        simp at hcc
        obtain ⟨rfl, rfl⟩ := hcc
        exact ⟨x, by simp [getChildVal, ho], hr⟩
      · intro ct cv hcc
        simp [getChildVal, ho] at hcc
        obtain ⟨rfl, rfl⟩ := hcc
        exact ⟨c0, hch, hr⟩


/-- CORE of 2.  Writing a node that represents `cv` at a child position of a represented value:
    the hook succeeds, and the new parent node represents the value with the child replaced. -/
theorem setChild_repr (H : Hash) (t : Ty) (v : Val) (n : Node) (key : Nat) (ct : Ty)
    (old cv : Val) (c : Node)
    (hwf : t.wf = true) (hlim : limitsOk t = true) (h : Impl.Repr H t v n)
    (hg : getChildVal t v key = some (ct, old)) (hc : Impl.Repr H ct cv c) :
    ∃ n' v', setChildNode H t n key c = some n' ∧ setChildVal t v key cv = some v' ∧
      Impl.Repr H t v' n' := by
  cases t with
  | uint nb => cases v <;> simp [getChildVal] at hg
  | bool => cases v <;> simp [getChildVal] at hg
  | bitvector len => cases v <;> simp [getChildVal] at hg
  | bitlist lim => cases v <;> simp [getChildVal] at hg
  | bytevector len => cases v <;> simp [getChildVal] at hg
  | bytelist lim => cases v <;> simp [getChildVal] at hg
  | vector et len =>
    cases v <;> try (simp only [Impl.Repr] at h; done)
    rename_i vs
    simp only [Impl.Repr] at h
    obtain ⟨hlen, h⟩ := h
    by_cases hb : et.isBasic = true
    · simp [getChildVal, hb] at hg
    · simp only [hb, Bool.false_eq_true, if_false] at h
      obtain ⟨ns, hall, hct⟩ := h
      have hl := allRel_length hall
      by_cases hk : key < vs.length
      · simp [getChildVal, hb, hk] at hg
        obtain ⟨rfl, -⟩ := hg
        obtain ⟨n', hs, hct'⟩ := ct_set hct (i := key) (by omega) c
        refine ⟨n', .seq (vs.set key cv), ?_, by simp [setChildVal, hk], ?_⟩
        · simp only [setChildNode, ge_iff_le]
          rw [if_neg (by omega)]
          exact hs
        · simp only [Impl.Repr, hb, Bool.false_eq_true, if_false, List.length_set]
          exact ⟨hlen, ns.set key c, StepRepr.allRel_set hall key cv c hc, hct'⟩
      · simp [getChildVal, hb] at hg
        obtain ⟨hx, -⟩ := hg
        rw [List.getElem?_eq_none (by omega)] at hx
        cases hx
  | list et lim =>
    cases v <;> try (simp only [Impl.Repr] at h; done)
    rename_i vs
    simp only [Impl.Repr] at h
    obtain ⟨hlen, c0, rfl, h⟩ := h
    simp [limitsOk] at hlim
    have hll := listLength_mixin H c0 vs.length (by omega)
    by_cases hb : et.isBasic = true
    · simp [getChildVal, hb] at hg
    · simp only [hb, Bool.false_eq_true, if_false] at h
      obtain ⟨ns, hall, hct⟩ := h
      have hl := allRel_length hall
      by_cases hk : key < vs.length
      · simp [getChildVal, hb, hk] at hg
        obtain ⟨rfl, -⟩ := hg
        obtain ⟨c', hs, hct'⟩ := StepRepr.mix_set hct (lenNode vs.length) key (by omega) c
        refine ⟨mixInNode c' vs.length, .seq (vs.set key cv), ?_, by simp [setChildVal, hk], ?_⟩
        · simp only [setChildNode, hll, ge_iff_le]
          rw [if_neg (by omega)]
          simpa only [mixInNode] using hs
        · simp only [Impl.Repr, hb, Bool.false_eq_true, if_false, List.length_set]
          exact ⟨hlen, c', rfl, ns.set key c, StepRepr.allRel_set hall key cv c hc, hct'⟩
      · simp [getChildVal, hb] at hg
        obtain ⟨hx, -⟩ := hg
        rw [List.getElem?_eq_none (by omega)] at hx
        cases hx
  | container fs =>
    cases v <;> try (simp only [Impl.Repr] at h; done)
    rename_i vs
    simp only [Impl.Repr] at h
    obtain ⟨ns, hf, hct⟩ := h
    obtain ⟨hlv, hln⟩ := reprFields_length hf
    cases hfk : fs[key]? with
    | none => simp [getChildVal, hfk] at hg
    | some ft =>
      obtain ⟨hkf, hft⟩ := List.getElem?_eq_some_iff.1 hfk
      have hkv : key < vs.length := by omega
      simp [getChildVal, hfk, hkv] at hg
      obtain ⟨rfl, -⟩ := hg
      obtain ⟨n', hs, hct'⟩ := ct_set hct (i := key) (by omega) c
      refine ⟨n', .seq (vs.set key cv), ?_, by simp [setChildVal, hkv], ?_⟩
      · simp only [setChildNode, ge_iff_le]
        rw [if_neg (by omega)]
        exact hs
      · simp only [Impl.Repr]
        exact ⟨ns.set key c, StepRepr.reprFields_set hf key ft cv c hfk hc, hct'⟩
  | union hasNone opts =>
    cases v <;> try (simp only [Impl.Repr] at h; done)
    rename_i sel x
    simp only [Impl.Repr] at h
    obtain ⟨hsel, c0, rfl, h⟩ := h
    cases ho : optType hasNone opts sel with
    | none => simp [getChildVal, ho] at hg
    | some ot =>
      simp [getChildVal, ho] at hg
      obtain ⟨rfl, -⟩ := hg
      obtain ⟨hcn, hoi⟩ := optType_some ho
      refine ⟨.pair c (lenNode sel), .un sel cv, by simp [setChildNode, rebindLeft],
        by simp [setChildVal], ?_⟩
      simp only [Impl.Repr]
      refine ⟨hsel, c, rfl, ?_⟩
      rw [if_neg hcn]
      exact reprOpt_of_get ot hoi hc

/-! ### the statements of the task, items 2 and 3 -/

/-- 3. The child node of a represented value represents the sub-value; reading it and writing it
    back is the identity at value level.
    (`hwf`/`hlim` cannot be dropped: for a union with more than `2^256` options the selector read
    from the 32-byte selector leaf is not the selector of the value.) -/
theorem childOf_repr (H : Hash) (t : Ty) (v : Val) (n : Node) (key : Nat) (ct : Ty) (c : Node)
    (hwf : t.wf = true) (hlim : limitsOk t = true) (h : Impl.Repr H t v n)
    (hc : childOf H t n key = some (ct, c)) :
    ∃ cv, Impl.Repr H ct cv c ∧ setChildVal t v key cv = some v := by
  obtain ⟨cv, hg, hr⟩ := (child_repr H t v n key hwf hlim h).1 ct c hc
  exact ⟨cv, hr, setChildVal_self hg⟩

/-- 3', the same with the value-level child made explicit -/
theorem childOf_repr_get (H : Hash) (t : Ty) (v : Val) (n : Node) (key : Nat) (ct : Ty) (c : Node)
    (hwf : t.wf = true) (hlim : limitsOk t = true) (h : Impl.Repr H t v n)
    (hc : childOf H t n key = some (ct, c)) :
    ∃ cv, getChildVal t v key = some (ct, cv) ∧ Impl.Repr H ct cv c :=
  (child_repr H t v n key hwf hlim h).1 ct c hc

/-- 3'', the converse: a value-level child has a child view, whose node represents it -/
theorem getChildVal_childOf (H : Hash) (t : Ty) (v : Val) (n : Node) (key : Nat) (ct : Ty) (cv : Val)
    (hwf : t.wf = true) (hlim : limitsOk t = true) (h : Impl.Repr H t v n)
    (hg : getChildVal t v key = some (ct, cv)) :
    ∃ c, childOf H t n key = some (ct, c) ∧ Impl.Repr H ct cv c :=
  (child_repr H t v n key hwf hlim h).2 ct cv hg

/-- the type of a child view of a well-formed type is well-formed (and its limits are in range) -/
theorem childOf_wf (H : Hash) (t : Ty) (v : Val) (n : Node) (key : Nat) (ct : Ty) (c : Node)
    (hwf : t.wf = true) (hlim : limitsOk t = true) (h : Impl.Repr H t v n)
    (hc : childOf H t n key = some (ct, c)) : ct.wf = true ∧ limitsOk ct = true := by
  obtain ⟨cv, hg, _⟩ := childOf_repr_get H t v n key ct c hwf hlim h hc
  exact getChildVal_wf hwf hlim hg

/-- 2a. the hook (`setChildNode`) succeeds whenever the child view exists (`childOf`) -/
theorem setChildNode_isSome (H : Hash) (t : Ty) (v : Val) (n : Node) (key : Nat) (ct : Ty)
    (old c : Node) (cv : Val)
    (hwf : t.wf = true) (hlim : limitsOk t = true) (h : Impl.Repr H t v n)
    (hco : childOf H t n key = some (ct, old)) (hc : Impl.Repr H ct cv c) :
    (setChildNode H t n key c).isSome = true := by
  obtain ⟨ov, hg, _⟩ := childOf_repr_get H t v n key ct old hwf hlim h hco
  obtain ⟨n', v', hs, _, _⟩ := setChild_repr H t v n key ct ov cv c hwf hlim h hg hc
  simp [hs]

/-- 2b. THE per-level content statement: after the hook wrote a node representing `cv` at the
    child position `key`, the parent's node represents the parent's value with the child replaced. -/
theorem setChildNode_repr (H : Hash) (t : Ty) (v : Val) (n : Node) (key : Nat) (ct : Ty)
    (old c : Node) (cv : Val) (n' : Node)
    (hwf : t.wf = true) (hlim : limitsOk t = true) (h : Impl.Repr H t v n)
    (hco : childOf H t n key = some (ct, old)) (hc : Impl.Repr H ct cv c)
    (hs : setChildNode H t n key c = some n') :
    ∃ v', setChildVal t v key cv = some v' ∧ Impl.Repr H t v' n' := by
  obtain ⟨ov, hg, _⟩ := childOf_repr_get H t v n key ct old hwf hlim h hco
  obtain ⟨n'', v', hs', hv', hr'⟩ := setChild_repr H t v n key ct ov cv c hwf hlim h hg hc
  rw [hs] at hs'
  cases hs'
  exact ⟨v', hv', hr'⟩

/-- 2c. hence the parent's root, content (read through the view API) and encoding are those of the
    updated value -/
theorem setChildNode_observables (H : Hash) (t : Ty) (v : Val) (n : Node) (key : Nat) (ct : Ty)
    (old c : Node) (cv : Val) (n' : Node)
    (hwf : t.wf = true) (hlim : limitsOk t = true) (h : Impl.Repr H t v n)
    (hco : childOf H t n key = some (ct, old)) (hc : Impl.Repr H ct cv c)
    (hs : setChildNode H t n key c = some n') :
    ∃ v', setChildVal t v key cv = some v' ∧
      n'.root H = Spec.htr H t v' ∧
      Impl.readVal H t n' = some v' ∧
      Impl.serTree H t n' = some (Spec.serialize t v', (Spec.serialize t v').length) ∧
      childOf H t n' key = some (ct, c) := by
  obtain ⟨v', hv', hr'⟩ := setChildNode_repr H t v n key ct old c cv n' hwf hlim h hco hc hs
  refine ⟨v', hv', repr_root H t v' n' hwf hr', repr_read H t v' n' hwf hlim hr',
    SerTree.repr_ser H t v' n' hwf hlim hr', ?_⟩
  obtain ⟨ov, hg, _⟩ := childOf_repr_get H t v n key ct old hwf hlim h hco
  have hg' := getChildVal_setChildVal hg hv'
  obtain ⟨c', hc', hrc'⟩ := getChildVal_childOf H t v' n' key ct cv hwf hlim hr' hg'
  have hk : KeyOk t key := by
    apply keyOk_of_length_le (H := H) (n := n) _ (by simp [hco])
    intro et lim len ht hl
    subst ht
    cases v <;> try (simp only [Impl.Repr] at h; done)
    simp only [Impl.Repr] at h
    obtain ⟨hlen, c0, rfl, -⟩ := h
    simp [limitsOk] at hlim
    rw [listLength_mixin H c0 _ (by omega)] at hl
    cases hl
    exact hlen
  have := childOf_setChildNode H t n n' key c hk hs (by simp [hco])
  simpa [hco] using this


/-! ## 3. key paths: the sub-value at a key path and its replacement -/

/-- the sub-value of `v : t` reached by following child keys, with its type -/
def subAt : List Nat → Ty → Val → Option (Ty × Val)
  | [], t, v => some (t, v)
  | key :: ks, t, v =>
    match getChildVal t v key with
    | none => none
    | some (ct, cv) => subAt ks ct cv

/-- `v : t` with the sub-value at the key path replaced by `new` (every level rebuilt with
    `setChildVal`, i.e. what the hook chain does level by level) -/
def updateAt : List Nat → Ty → Val → Val → Option Val
  | [], _, _, new => some new
  | key :: ks, t, v, new =>
    match getChildVal t v key with
    | none => none
    | some (ct, cv) =>
      match updateAt ks ct cv new with
      | none => none
      | some cv' => setChildVal t v key cv'

theorem subAt_snoc (ks : List Nat) (key : Nat) (t : Ty) (v : Val) (pt : Ty) (pv : Val)
    (h : subAt ks t v = some (pt, pv)) : subAt (ks ++ [key]) t v = getChildVal pt pv key := by
  induction ks generalizing t v with
  | nil =>
    simp only [subAt, Option.some.injEq, Prod.mk.injEq] at h
    obtain ⟨rfl, rfl⟩ := h
    simp only [List.nil_append, subAt]
    cases getChildVal t v key with
    | none => rfl
    | some x => rfl
  | cons k ks ih =>
    simp only [List.cons_append, subAt] at h ⊢
    cases hg : getChildVal t v k with
    | none => simp [hg] at h
    | some x =>
      obtain ⟨ct, cv⟩ := x
      simp only [hg] at h ⊢
      exact ih ct cv h

/-- replacing at `ks ++ [key]` = replacing the child at `key` of the sub-value at `ks`, then
    replacing at `ks` -/
theorem updateAt_snoc (ks : List Nat) (key : Nat) (t : Ty) (v : Val) (pt : Ty) (pv pv' : Val)
    (ct : Ty) (cv new : Val)
    (h : subAt ks t v = some (pt, pv)) (hg : getChildVal pt pv key = some (ct, cv))
    (hs : setChildVal pt pv key new = some pv') :
    updateAt (ks ++ [key]) t v new = updateAt ks t v pv' := by
  induction ks generalizing t v with
  | nil =>
    simp only [subAt, Option.some.injEq, Prod.mk.injEq] at h
    obtain ⟨rfl, rfl⟩ := h
    simp only [List.nil_append, updateAt, hg, hs]
  | cons k ks ih =>
    simp only [List.cons_append, subAt, updateAt] at h ⊢
    cases hg1 : getChildVal t v k with
    | none => simp [hg1] at h
    | some x =>
      obtain ⟨ct1, cv1⟩ := x
      simp only [hg1] at h ⊢
      rw [ih ct1 cv1 h]

/-- after the replacement, the sub-value at the key path is the new value (same type) -/
theorem subAt_updateAt (ks : List Nat) (t : Ty) (v v' : Val) (pt : Ty) (pv new : Val)
    (h : subAt ks t v = some (pt, pv)) (hu : updateAt ks t v new = some v') :
    subAt ks t v' = some (pt, new) := by
  induction ks generalizing t v v' with
  | nil =>
    simp only [subAt, Option.some.injEq, Prod.mk.injEq] at h
    simp only [updateAt, Option.some.injEq] at hu
    obtain ⟨rfl, rfl⟩ := h
    subst hu
    rfl
  | cons k ks ih =>
    simp only [subAt, updateAt] at h hu ⊢
    cases hg : getChildVal t v k with
    | none => simp [hg] at h
    | some x =>
      obtain ⟨ct, cv⟩ := x
      simp only [hg] at h hu
      cases hu1 : updateAt ks ct cv new with
      | none => simp [hu1] at hu
      | some cv' =>
        simp only [hu1] at hu
        rw [getChildVal_setChildVal hg hu]
        exact ih ct cv cv' h hu1

/-- a replacement at an existing key path always succeeds -/
theorem updateAt_isSome (ks : List Nat) (t : Ty) (v : Val) (pt : Ty) (pv new : Val)
    (h : subAt ks t v = some (pt, pv)) : ∃ v', updateAt ks t v new = some v' := by
  induction ks generalizing t v with
  | nil => exact ⟨new, rfl⟩
  | cons k ks ih =>
    simp only [subAt, updateAt] at h ⊢
    cases hg : getChildVal t v k with
    | none => simp [hg] at h
    | some x =>
      obtain ⟨ct, cv⟩ := x
      simp only [hg] at h ⊢
      obtain ⟨cv', hcv'⟩ := ih ct cv h
      simp only [hcv']
      exact setChildVal_isSome hg cv'

/-! ## 4. coherent stores -/

/-- View `r` (the object `o`) is coherent w.r.t. the valuation `val` (reference ↦ value): its type
    is well-formed with limits `< 2^256`, its backing represents `val r`, and — if it has a hook
    `(p, key)` — its value is the sub-value of the parent's value at `key`, with its type. -/
def CoherentAt (H : Hash) (s : Store) (val : Nat → Val) (r : Nat) (o : VObj) : Prop :=
  o.ty.wf = true ∧ limitsOk o.ty = true ∧ Impl.Repr H o.ty (val r) o.backing ∧
  ∀ p key, o.hook = some (p, key) →
    ∃ po, s[p]? = some po ∧ getChildVal po.ty (val p) key = some (o.ty, val r)

/-- coherence of the views whose reference satisfies `P` -/
def CoherentOn (H : Hash) (s : Store) (val : Nat → Val) (P : Nat → Prop) : Prop :=
  ∀ r o, P r → s[r]? = some o → CoherentAt H s val r o

/-- `Coherent s` (with the witnessing valuation): hooks point backwards, every view's backing
    represents some value and each child's value is its parent's sub-value at the hook key. -/
def Coherent (H : Hash) (s : Store) (val : Nat → Val) : Prop :=
  Valid s ∧ CoherentOn H s val (fun _ => True)

theorem Coherent.on {H : Hash} {s : Store} {val : Nat → Val} (h : Coherent H s val)
    (P : Nat → Prop) : CoherentOn H s val P :=
  fun r o _ hr => h.2 r o trivial hr

/-- the valuation of a coherent store is what the view API reads -/
theorem CoherentAt.read {H : Hash} {s : Store} {val : Nat → Val} {r : Nat} {o : VObj}
    (h : CoherentAt H s val r o) : readVal H o.ty o.backing = some (val r) :=
  repr_read H o.ty (val r) o.backing h.1 h.2.1 h.2.2.1

/-- … and the hook of a coherent view names a view that has it as its child at the key (with a node
    representing the same value) -/
theorem CoherentAt.child {H : Hash} {s : Store} {val : Nat → Val} {r : Nat} {o : VObj}
    (h : CoherentAt H s val r o) (hp : ∀ p po, s[p]? = some po → CoherentAt H s val p po)
    {p key : Nat} (hh : o.hook = some (p, key)) :
    ∃ po c, s[p]? = some po ∧ childOf H po.ty po.backing key = some (o.ty, c) ∧
      Impl.Repr H o.ty (val r) c := by
  obtain ⟨po, hpo, hg⟩ := h.2.2.2 p key hh
  have hcp := hp p po hpo
  obtain ⟨c, hc, hrc⟩ := getChildVal_childOf H po.ty (val p) po.backing key o.ty (val r)
    hcp.1 hcp.2.1 hcp.2.2.1 hg
  exact ⟨po, c, hpo, hc, hrc⟩

/-- the views on the hook chain of `r`, each with the key path leading from it down to `r` -/
def pathsTo (s : Store) : Nat → Nat → List (Nat × List Nat)
  | 0, _ => []
  | fuel+1, r =>
    match hookOf s r with
    | none => [(r, [])]
    | some (p, key) => (r, []) :: (pathsTo s fuel p).map fun x => (x.1, x.2 ++ [key])

theorem pathsTo_fst (s : Store) (fuel r : Nat) :
    (pathsTo s fuel r).map (·.1) = chainAux s fuel r := by
  induction fuel generalizing r with
  | zero => rfl
  | succ f ih =>
    simp only [pathsTo, chainAux]
    cases hookOf s r with
    | none => rfl
    | some pk =>
      obtain ⟨p, key⟩ := pk
      simp only [List.map_cons, List.map_map]
      rw [← ih p]
      congr 1

theorem mem_chainAux_of_mem_pathsTo {s : Store} {fuel r : Nat} {x : Nat × List Nat}
    (h : x ∈ pathsTo s fuel r) : x.1 ∈ chainAux s fuel r := by
  rw [← pathsTo_fst]
  exact List.mem_map_of_mem h


/-! ## 5. the hook chain, level by level -/

/-- what the hook chain establishes for one view `c` (object `oc` before) of the chain:
    the view keeps type and hook, its new backing represents `val' c`, and — if it has a hook
    `(p, key)` — the new value of the parent is the parent's old value with the child at `key`
    replaced by the new value of `c`. -/
def LevelOk (H : Hash) (s s' : Store) (val val' : Nat → Val) (c : Nat) (oc : VObj) : Prop :=
  ∃ oc', s'[c]? = some oc' ∧ oc'.ty = oc.ty ∧ oc'.hook = oc.hook ∧
    Impl.Repr H oc.ty (val' c) oc'.backing ∧
    ∀ p key, oc.hook = some (p, key) → ∃ po, s[p]? = some po ∧
      getChildVal po.ty (val p) key = some (oc.ty, val c) ∧
      setChildVal po.ty (val p) key (val' c) = some (val' p)

/-- coherence on a chain only looks at the chain: it carries over to a store that agrees below -/
theorem coherentOn_set_backing {H : Hash} {s : Store} {val : Nat → Val} {r : Nat} {o : VObj}
    {n : Node} (hv : Valid s) (hr : s[r]? = some o) {P : Nat → Prop}
    (hco : CoherentOn H s val P) (hP : ∀ q, P q → q < r) :
    CoherentOn H (s.set r { o with backing := n }) val P := by
  intro q oq hq hoq
  have hlt := hP q hq
  rw [getElem?_set_backing s r o n hr q, if_neg (by omega)] at hoq
  obtain ⟨h1, h2, h3, h4⟩ := hco q oq hq hoq
  refine ⟨h1, h2, h3, ?_⟩
  intro p key hh
  obtain ⟨po, hpo, hg⟩ := h4 p key hh
  have hpq : p < q := (hv q oq hoq p key hh).1
  exact ⟨po, by rw [getElem?_set_backing s r o n hr p, if_neg (by omega)]; exact hpo, hg⟩

/-- THE invariant of `set_backing` at value level (any fuel). -/
theorem setBacking_content_aux (H : Hash) (fuel : Nat) (s : Store) (r : Nat) (n : Node) (s' : Store)
    (val : Nat → Val) (new : Val) (o : VObj)
    (hv : Valid s) (hco : CoherentOn H s val (· ∈ chainAux s fuel r)) (hr : s[r]? = some o)
    (hn : Impl.Repr H o.ty new n) (h : setBacking H fuel s r n = some s') :
    ∃ val' : Nat → Val, val' r = new ∧ (∀ q, q ∉ chainAux s fuel r → val' q = val q) ∧
      ∀ c ∈ chainAux s fuel r, ∀ oc, s[c]? = some oc → LevelOk H s s' val val' c oc := by
  induction fuel generalizing s r n new o with
  | zero => simp [setBacking] at h
  | succ f ih =>
    obtain ⟨o', hr', hcase⟩ := setBacking_succ_some h
    rw [hr] at hr'
    cases hr'
    have hget := getElem?_set_backing s r o n hr
    have hhook := hookOf_set_backing s r o n hr
    rcases hcase with ⟨hk, rfl⟩ | ⟨p0, key0, po0, pn, hk, hp0, hsc, hrec⟩
    · -- no hook: the chain is `[r]`
      have hh : hookOf s r = none := by rw [hookOf_of_get hr, hk]
      refine ⟨fun q => if q = r then new else val q, by simp, ?_, ?_⟩
      · intro q hq
        simp only [chainAux, hh, List.mem_singleton] at hq
        simp [hq]
      · intro c hc oc hoc
        simp only [chainAux, hh, List.mem_singleton] at hc
        subst hc
        rw [hr] at hoc
        cases hoc
        refine ⟨{ o with backing := n }, by rw [hget c]; simp, rfl, rfl, by simpa using hn, ?_⟩
        intro p key hpk
        rw [hk] at hpk
        cases hpk
    · -- hook `(p0, key0)`
      have hhr : hookOf s r = some (p0, key0) := by rw [hookOf_of_get hr, hk]
      have hlt0 : p0 < r := hv.hook_lt hhr
      have hv1 : Valid (s.set r { o with backing := n }) := hv.of_hooks (by simp) hhook
      rw [hget p0, if_neg (by omega)] at hp0
      have hchain : chainAux s (f + 1) r = r :: chainAux s f p0 := by
        simp only [chainAux, hhr]
      have hcr := hco r o (by rw [hchain]; simp) hr
      obtain ⟨po0', hpo0', hg0⟩ := hcr.2.2.2 p0 key0 hk
      rw [hp0] at hpo0'
      cases hpo0'
      have hcp := hco p0 po0 (by
        rw [hchain]
        cases f with
        | zero => simp [setBacking] at hrec
        | succ f' => exact List.mem_cons_of_mem _ mem_chainAux_self) hp0
      obtain ⟨pn', pv', hsc', hsv, hrp⟩ := setChild_repr H po0.ty (val p0) po0.backing key0 o.ty
        (val r) new n hcp.1 hcp.2.1 hcp.2.2.1 hg0 hn
      rw [hsc] at hsc'
      cases hsc'
      have hcongr : chainAux (s.set r { o with backing := n }) f p0 = chainAux s f p0 :=
        chainAux_congr hhook f p0
      have hco1 : CoherentOn H (s.set r { o with backing := n }) val
          (· ∈ chainAux (s.set r { o with backing := n }) f p0) := by
        apply coherentOn_set_backing hv hr
        · intro q oq hq hoq
          rw [hcongr] at hq
          exact hco q oq (by rw [hchain]; exact List.mem_cons_of_mem _ hq) hoq
        · intro q hq
          rw [hcongr] at hq
          have := chainAux_le hv f p0 q hq
          omega
      have hp01 : (s.set r { o with backing := n })[p0]? = some po0 := by
        rw [hget p0, if_neg (by omega)]; exact hp0
      obtain ⟨val'', hv0, hout, hlev⟩ := ih _ p0 pn pv' po0 hv1 hco1 hp01 hrp hrec
      rw [hcongr] at hout hlev
      obtain ⟨_, hfr, _, _⟩ := setBacking_frame_aux H f _ p0 pn s' hrec
      have hs'r : s'[r]? = some { o with backing := n } := by
        rw [hfr r, hget r, if_pos rfl]
        intro hmem
        have := chainAux_le hv1 f p0 r hmem
        omega
      refine ⟨fun q => if q = r then new else val'' q, by simp, ?_, ?_⟩
      · intro q hq
        rw [hchain] at hq
        simp only [List.mem_cons, not_or] at hq
        simp only [if_neg hq.1]
        exact hout q hq.2
      · intro c hc oc hoc
        rw [hchain] at hc
        rcases List.mem_cons.1 hc with hc | hc
        · subst hc
          rw [hr] at hoc
          cases hoc
          refine ⟨{ o with backing := n }, hs'r, rfl, rfl, by simpa using hn, ?_⟩
          intro p key hpk
          rw [hk] at hpk
          cases hpk
          refine ⟨po0, hp0, hg0, ?_⟩
          have hne : ¬ p0 = c := by omega
          show setChildVal po0.ty (val p0) key0 (if c = c then new else val'' c)
            = some (if p0 = c then new else val'' p0)
          rw [if_pos rfl, if_neg hne, hv0]
          exact hsv
        · have hcle := chainAux_le hv f p0 c hc
          have hoc1 : (s.set r { o with backing := n })[c]? = some oc := by
            rw [hget c, if_neg (by omega)]; exact hoc
          obtain ⟨oc', h1, h2, h3, h4, h5⟩ := hlev c hc oc hoc1
          refine ⟨oc', h1, h2, h3, by simpa only [if_neg (show ¬ c = r by omega)] using h4, ?_⟩
          intro p key hpk
          obtain ⟨po, hpo, hg, hsv'⟩ := h5 p key hpk
          have hplt : p < c := (hv c oc hoc p key hpk).1
          rw [hget p, if_neg (by omega)] at hpo
          refine ⟨po, hpo, hg, ?_⟩
          simpa only [if_neg (show ¬ c = r by omega), if_neg (show ¬ p = r by omega)] using hsv'


/-- from the level-by-level statement to the closed form: for every view `c` of the chain with
    key path `ks` down to `r`, the old value of `r` is the sub-value of the old value of `c` at
    `ks`, and the new value of `c` is its old value with the new value of `r` put at `ks`. -/
theorem levels_closed (H : Hash) (s s' : Store) (val val' : Nat → Val) (fuel : Nat) (r : Nat)
    (o : VObj) (hr : s[r]? = some o)
    (hlev : ∀ c ∈ chainAux s fuel r, ∀ oc, s[c]? = some oc → LevelOk H s s' val val' c oc) :
    ∀ x ∈ pathsTo s fuel r, ∀ oc, s[x.1]? = some oc →
      subAt x.2 oc.ty (val x.1) = some (o.ty, val r) ∧
      updateAt x.2 oc.ty (val x.1) (val' r) = some (val' x.1) := by
  induction fuel generalizing r o with
  | zero => intro x hx; simp [pathsTo] at hx
  | succ f ih =>
    intro x hx oc hoc
    have hself : ∀ oc, s[r]? = some oc →
        subAt [] oc.ty (val r) = some (o.ty, val r) ∧
        updateAt [] oc.ty (val r) (val' r) = some (val' r) := by
      intro oc hoc
      rw [hr] at hoc
      cases hoc
      exact ⟨rfl, rfl⟩
    simp only [pathsTo] at hx
    cases hh : hookOf s r with
    | none =>
      simp only [hh, List.mem_singleton] at hx
      subst hx
      exact hself oc hoc
    | some pk =>
      obtain ⟨p, key⟩ := pk
      simp only [hh, List.mem_cons, List.mem_map] at hx
      rcases hx with rfl | ⟨y, hy, rfl⟩
      · exact hself oc hoc
      · have hchain : chainAux s (f + 1) r = r :: chainAux s f p := by
          simp only [chainAux, hh]
        have hk : o.hook = some (p, key) := by rw [← hookOf_of_get hr, hh]
        obtain ⟨_, _, _, _, _, hup⟩ := hlev r (by rw [hchain]; simp) o hr
        obtain ⟨po, hpo, hg, hsv⟩ := hup p key hk
        have hlev' : ∀ c ∈ chainAux s f p, ∀ oc, s[c]? = some oc →
            LevelOk H s s' val val' c oc :=
          fun c hc => hlev c (by rw [hchain]; exact List.mem_cons_of_mem _ hc)
        obtain ⟨hsub, hupd⟩ := ih p po hpo hlev' y hy oc hoc
        constructor
        · rw [subAt_snoc _ key _ _ _ _ hsub, hg]
        · rw [updateAt_snoc _ key _ _ _ _ _ _ _ _ hsub hg hsv]
          exact hupd

/-- `set_backing` with a node representing `new`, in a store that is coherent along the chain:
    closed form and coherence of the result along the chain (any fuel). -/
theorem setBacking_content (H : Hash) (fuel : Nat) (s : Store) (r : Nat) (n : Node) (s' : Store)
    (val : Nat → Val) (new : Val) (o : VObj)
    (hv : Valid s) (hco : CoherentOn H s val (· ∈ chainAux s fuel r)) (hr : s[r]? = some o)
    (hn : Impl.Repr H o.ty new n) (h : setBacking H fuel s r n = some s') :
    ∃ val' : Nat → Val, val' r = new ∧ (∀ q, q ∉ chainAux s fuel r → val' q = val q) ∧
      (∀ x ∈ pathsTo s fuel r, ∀ oc, s[x.1]? = some oc →
        subAt x.2 oc.ty (val x.1) = some (o.ty, val r) ∧
        updateAt x.2 oc.ty (val x.1) new = some (val' x.1)) ∧
      CoherentOn H s' val' (· ∈ chainAux s fuel r) := by
  obtain ⟨val', hnew, hout, hlev⟩ := setBacking_content_aux H fuel s r n s' val new o hv hco hr hn h
  refine ⟨val', hnew, hout, ?_, ?_⟩
  · have := levels_closed H s s' val val' fuel r o hr hlev
    rw [hnew] at this
    exact this
  · obtain ⟨hlen, _, hty, _⟩ := setBacking_frame_aux H fuel s r n s' h
    intro c oc' hc hoc'
    have hclt : c < s.length := by
      have := getElem?_lt_length hoc'
      omega
    obtain ⟨oc, hoc⟩ : ∃ oc, s[c]? = some oc := ⟨s[c], List.getElem?_eq_getElem hclt⟩
    obtain ⟨oc'', h1, h2, h3, h4, h5⟩ := hlev c hc oc hoc
    rw [hoc'] at h1
    cases h1
    obtain ⟨w1, w2, _, _⟩ := hco c oc hc hoc
    refine ⟨by rw [h2]; exact w1, by rw [h2]; exact w2, by rw [h2]; exact h4, ?_⟩
    intro p key hpk
    rw [h3] at hpk
    obtain ⟨po, hpo, hg, hsv⟩ := h5 p key hpk
    have hplt : p < s'.length := by
      have := getElem?_lt_length hpo
      omega
    obtain ⟨po', hpo'⟩ : ∃ po', s'[p]? = some po' := ⟨s'[p], List.getElem?_eq_getElem hplt⟩
    have htp := hty p
    rw [hpo, hpo'] at htp
    simp only [Option.map_some, Option.some.injEq] at htp
    refine ⟨po', hpo', ?_⟩
    rw [htp, h2]
    exact getChildVal_setChildVal hg hsv

/-- in a store that is coherent along the chain, no hook of the chain ever raises -/
theorem setBacking_succeeds (H : Hash) (fuel : Nat) (s : Store) (r : Nat) (n : Node)
    (val : Nat → Val) (new : Val) (o : VObj) (hf : r < fuel)
    (hv : Valid s) (hco : CoherentOn H s val (· ∈ chainAux s fuel r)) (hr : s[r]? = some o)
    (hn : Impl.Repr H o.ty new n) : ∃ s', setBacking H fuel s r n = some s' := by
  induction fuel generalizing s r n new o with
  | zero => omega
  | succ f ih =>
    obtain ⟨oty, obk, ohook⟩ := o
    have hget := getElem?_set_backing s r _ n hr
    have hhook := hookOf_set_backing s r _ n hr
    simp only [] at hget hhook hn
    simp only [setBacking, hr]
    cases ohook with
    | none => exact ⟨_, rfl⟩
    | some pk =>
      obtain ⟨p0, key0⟩ := pk
      have hhr : hookOf s r = some (p0, key0) := by rw [hookOf_of_get hr]
      have hlt0 : p0 < r := hv.hook_lt hhr
      have hchain : chainAux s (f + 1) r = r :: chainAux s f p0 := by
        simp only [chainAux, hhr]
      have hcr := hco r _ (by rw [hchain]; simp) hr
      obtain ⟨po0, hp0, hg0⟩ := hcr.2.2.2 p0 key0 rfl
      obtain ⟨f', rfl⟩ : ∃ f', f = f' + 1 := ⟨f - 1, by omega⟩
      have hcp := hco p0 po0 (by rw [hchain]; exact List.mem_cons_of_mem _ mem_chainAux_self) hp0
      obtain ⟨pn, pv', hsc, hsv, hrp⟩ := setChild_repr H po0.ty (val p0) po0.backing key0 oty
        (val r) new n hcp.1 hcp.2.1 hcp.2.2.1 hg0 hn
      have hp01 : (s.set r ⟨oty, n, some (p0, key0)⟩)[p0]? = some po0 := by
        rw [hget p0, if_neg (by omega)]; exact hp0
      simp only [hp01, hsc]
      have hv1 : Valid (s.set r ⟨oty, n, some (p0, key0)⟩) := hv.of_hooks (by simp) hhook
      have hcongr : chainAux (s.set r ⟨oty, n, some (p0, key0)⟩) (f' + 1) p0
          = chainAux s (f' + 1) p0 := chainAux_congr hhook _ p0
      apply ih _ p0 pn pv' po0 (by omega) hv1 _ hp01 hrp
      have := coherentOn_set_backing (H := H) (val := val) (n := n) hv hr
        (P := (· ∈ chainAux s (f' + 1) p0))
        (fun q oq hq hoq => hco q oq (by rw [hchain]; exact List.mem_cons_of_mem _ hq) hoq)
        (fun q hq => by
          have := chainAux_le hv _ p0 q hq
          omega)
      rw [hcongr]
      exact this

/-! ## 6. the chain theorem (C05, content clause) -/

/-- 4. A mutation through a held view `r` of a store that is valid and coherent along the hook chain
    of `r` (in particular: of a `Coherent` store).  The operation succeeded at value level
    (`applyOp … = some new`), and there is a new valuation `val'` such that
    * `val' r = new`, and the views off the chain keep their value (and, `mutate_frame`, their node);
    * every view `c` on the chain, with key path `ks` from `c` down to `r`: the old value of `r` was
      the sub-value of the old value of `c` at `ks`, and the new value of `c` is its old value with
      `new` put at `ks` (`updateAt`);
    * the new store is coherent along the chain w.r.t. `val'`: every view on the chain represents
      its new value, and each one's value is its parent's sub-value at the hook key. -/
theorem mutate_chain_content (H : Hash) (s : Store) (r : Nat) (op : Op) (s' : Store)
    (val : Nat → Val) (hv : Valid s) (hco : CoherentOn H s val (· ∈ chain s r))
    (h : step H s (.mutate r op) = some s') :
    ∃ (o : VObj) (new : Val) (val' : Nat → Val),
      s[r]? = some o ∧ applyOp o.ty (val r) op = some new ∧ val' r = new ∧
      (∀ q, q ∉ chain s r → val' q = val q) ∧
      (∀ x ∈ pathsTo s (r + 1) r, ∀ oc, s[x.1]? = some oc →
        subAt x.2 oc.ty (val x.1) = some (o.ty, val r) ∧
        updateAt x.2 oc.ty (val x.1) new = some (val' x.1)) ∧
      CoherentOn H s' val' (· ∈ chain s r) := by
  simp only [step] at h
  cases hr : s[r]? with
  | none => simp [hr] at h
  | some o =>
    simp only [hr] at h
    cases ha : apply H o.ty o.backing op with
    | none => simp [ha] at h
    | some n =>
      simp only [ha] at h
      obtain ⟨w1, w2, w3, _⟩ := hco r o (mem_chain_self s r) hr
      obtain ⟨new, hop, hn⟩ := StepRepr.step_repr H o.ty w1 w2 (val r) o.backing w3 op n ha
      obtain ⟨val', h1, h2, h3, h4⟩ :=
        setBacking_content H (r + 1) s r n s' val new o hv hco hr hn h
      exact ⟨o, new, val', rfl, hop, h1, h2, h3, h4⟩

/-- the same for a globally coherent store -/
theorem mutate_chain_content' (H : Hash) (s : Store) (r : Nat) (op : Op) (s' : Store)
    (val : Nat → Val) (hc : Coherent H s val) (h : step H s (.mutate r op) = some s') :
    ∃ (o : VObj) (new : Val) (val' : Nat → Val),
      s[r]? = some o ∧ applyOp o.ty (val r) op = some new ∧ val' r = new ∧
      (∀ q, q ∉ chain s r → val' q = val q) ∧
      (∀ x ∈ pathsTo s (r + 1) r, ∀ oc, s[x.1]? = some oc →
        subAt x.2 oc.ty (val x.1) = some (o.ty, val r) ∧
        updateAt x.2 oc.ty (val x.1) new = some (val' x.1)) ∧
      CoherentOn H s' val' (· ∈ chain s r) :=
  mutate_chain_content H s r op s' val hc.1 (hc.on _) h

/-- what an observer of any view on the chain sees afterwards: root, content read through the view
    API and encoding are those of the updated value -/
theorem mutate_chain_observables (H : Hash) (s : Store) (r : Nat) (op : Op) (s' : Store)
    (val : Nat → Val) (hv : Valid s) (hco : CoherentOn H s val (· ∈ chain s r))
    (h : step H s (.mutate r op) = some s') :
    ∃ (o : VObj) (new : Val), s[r]? = some o ∧ applyOp o.ty (val r) op = some new ∧
      ∀ x ∈ pathsTo s (r + 1) r, ∀ oc, s[x.1]? = some oc →
        ∃ oc' v', s'[x.1]? = some oc' ∧ oc'.ty = oc.ty ∧ oc'.hook = oc.hook ∧
          updateAt x.2 oc.ty (val x.1) new = some v' ∧
          oc'.backing.root H = Spec.htr H oc.ty v' ∧
          readVal H oc.ty oc'.backing = some v' ∧
          serTree H oc.ty oc'.backing = some (Spec.serialize oc.ty v', (Spec.serialize oc.ty v').length) := by
  obtain ⟨o, new, val', hr, hop, _, _, hcl, hco'⟩ := mutate_chain_content H s r op s' val hv hco h
  refine ⟨o, new, hr, hop, ?_⟩
  intro x hx oc hoc
  obtain ⟨hlen, _, hty, hhk⟩ := step_mutate_shape H s r op s' h
  have hxlt : x.1 < s'.length := by
    have := getElem?_lt_length hoc
    omega
  obtain ⟨oc', hoc'⟩ : ∃ oc', s'[x.1]? = some oc' := ⟨s'[x.1], List.getElem?_eq_getElem hxlt⟩
  have h1 := hty x.1
  have h2 := hhk x.1
  rw [hoc, hoc'] at h1 h2
  simp only [Option.map_some, Option.some.injEq] at h1 h2
  obtain ⟨w1, w2, w3, _⟩ := hco' x.1 oc' (mem_chainAux_of_mem_pathsTo hx) hoc'
  rw [h1] at w1 w2 w3
  exact ⟨oc', val' x.1, hoc', h1, h2, (hcl x hx oc hoc).2, repr_root H _ _ _ w1 w3,
    repr_read H _ _ _ w1 w2 w3, SerTree.repr_ser H _ _ _ w1 w2 w3⟩

/-- progress: in a store that is valid and coherent along the chain, a mutation that is allowed at
    value level goes through — neither the view operation nor any hook on the way up raises -/
theorem mutate_succeeds (H : Hash) (s : Store) (r : Nat) (op : Op) (val : Nat → Val) (o : VObj)
    (new : Val) (hv : Valid s) (hco : CoherentOn H s val (· ∈ chain s r)) (hr : s[r]? = some o)
    (hop : applyOp o.ty (val r) op = some new) : ∃ s', step H s (.mutate r op) = some s' := by
  obtain ⟨w1, w2, w3, _⟩ := hco r o (mem_chain_self s r) hr
  obtain ⟨n, ha, hn⟩ := StepRepr.step_ok H o.ty w1 w2 (val r) o.backing w3 op new hop
  simp only [step, hr, ha]
  exact setBacking_succeeds H (r + 1) s r n val new o (by omega) hv hco hr hn


/-! ## 7. coherent stores exist and are what `child` / `copy` build -/

theorem coherent_nil (H : Hash) (val : Nat → Val) : Coherent H [] val := by
  refine ⟨?_, ?_⟩
  · intro r o hr; simp at hr
  · intro r o _ hr; simp at hr

/-- adding a view that represents `xv` and — if hooked — is the sub-value of its parent -/
theorem coherent_snoc {H : Hash} {s : Store} {val : Nat → Val} (hc : Coherent H s val)
    (x : VObj) (xv : Val) (hwf : x.ty.wf = true) (hlim : limitsOk x.ty = true)
    (hr : Impl.Repr H x.ty xv x.backing)
    (hh : ∀ p key, x.hook = some (p, key) →
      ∃ po, s[p]? = some po ∧ getChildVal po.ty (val p) key = some (x.ty, xv)) :
    Coherent H (s ++ [x]) (fun q => if q = s.length then xv else val q) := by
  obtain ⟨hv, hco⟩ := hc
  refine ⟨?_, ?_⟩
  · intro r o hro p key hpk
    by_cases hlt : r < s.length
    · rw [List.getElem?_append_left hlt] at hro
      have := hv r o hro p key hpk
      simp only [List.length_append, List.length_singleton]
      omega
    · have hlen := getElem?_lt_length hro
      simp only [List.length_append, List.length_singleton] at hlen
      have hrs : r = s.length := by omega
      subst hrs
      simp only [List.getElem?_concat_length, Option.some.injEq] at hro
      subst hro
      obtain ⟨po, hpo, _⟩ := hh p key hpk
      have := getElem?_lt_length hpo
      simp only [List.length_append, List.length_singleton]
      omega
  · intro r o _ hro
    by_cases hlt : r < s.length
    · rw [List.getElem?_append_left hlt] at hro
      obtain ⟨h1, h2, h3, h4⟩ := hco r o trivial hro
      refine ⟨h1, h2, by simpa only [if_neg (show ¬ r = s.length by omega)] using h3, ?_⟩
      intro p key hpk
      obtain ⟨po, hpo, hg⟩ := h4 p key hpk
      have hpr : p < r := (hv r o hro p key hpk).1
      refine ⟨po, by rw [List.getElem?_append_left (by omega)]; exact hpo, ?_⟩
      simpa only [if_neg (show ¬ r = s.length by omega), if_neg (show ¬ p = s.length by omega)]
        using hg
    · have hlen := getElem?_lt_length hro
      simp only [List.length_append, List.length_singleton] at hlen
      have hrs : r = s.length := by omega
      subst hrs
      simp only [List.getElem?_concat_length, Option.some.injEq] at hro
      subst hro
      refine ⟨hwf, hlim, by simpa using hr, ?_⟩
      intro p key hpk
      obtain ⟨po, hpo, hg⟩ := hh p key hpk
      have hps := getElem?_lt_length hpo
      refine ⟨po, by rw [List.getElem?_append_left hps]; exact hpo, ?_⟩
      simpa only [if_pos, if_neg (show ¬ p = s.length by omega)] using hg

/-- a store holding one root view over a tree that represents `v` is coherent -/
theorem coherent_singleton (H : Hash) (t : Ty) (v : Val) (n : Node) (hwf : t.wf = true)
    (hlim : limitsOk t = true) (hr : Impl.Repr H t v n) :
    Coherent H [⟨t, n, none⟩] (fun _ => v) := by
  have := coherent_snoc (coherent_nil H (fun _ => v)) ⟨t, n, none⟩ v hwf hlim hr
    (by intro p key hpk; cases hpk)
  simpa using this

/-- taking a child view keeps the store coherent: the new view's value is the sub-value -/
theorem step_child_coherent (H : Hash) (s : Store) (r key : Nat) (s1 : Store) (val : Nat → Val)
    (hc : Coherent H s val) (h : step H s (.child r key) = some s1) :
    ∃ cv, Coherent H s1 (fun q => if q = s.length then cv else val q) ∧
      ∃ o ct, s[r]? = some o ∧ getChildVal o.ty (val r) key = some (ct, cv) := by
  obtain ⟨o, ct, cn, hr, hch, rfl⟩ := step_child_eq H s r key s1 h
  obtain ⟨w1, w2, w3, _⟩ := hc.2 r o trivial hr
  obtain ⟨cv, hg, hrc⟩ := childOf_repr_get H o.ty (val r) o.backing key ct cn w1 w2 w3 hch
  obtain ⟨c1, c2⟩ := getChildVal_wf w1 w2 hg
  refine ⟨cv, coherent_snoc hc ⟨ct, cn, some (r, key)⟩ cv c1 c2 hrc ?_, o, ct, hr, hg⟩
  intro p k hpk
  simp only [Option.some.injEq, Prod.mk.injEq] at hpk
  obtain ⟨rfl, rfl⟩ := hpk
  exact ⟨o, hr, hg⟩

/-- copying a view keeps the store coherent: the copy has the value of the original -/
theorem step_copy_coherent (H : Hash) (s : Store) (r : Nat) (s1 : Store) (val : Nat → Val)
    (hc : Coherent H s val) (h : step H s (.copy r) = some s1) :
    Coherent H s1 (fun q => if q = s.length then val r else val q) := by
  obtain ⟨o, hr, rfl⟩ := step_copy_eq H s r s1 h
  obtain ⟨w1, w2, w3, _⟩ := hc.2 r o trivial hr
  exact coherent_snoc hc ⟨o.ty, o.backing, none⟩ (val r) w1 w2 w3 (by intro p key hpk; cases hpk)

/-- in a coherent store every view reads (through the view API) its value, has the spec root of
    its value, and serialises to the spec encoding of its value -/
theorem coherent_observables (H : Hash) (s : Store) (val : Nat → Val) (hc : Coherent H s val)
    (r : Nat) (o : VObj) (hr : s[r]? = some o) :
    readVal H o.ty o.backing = some (val r) ∧ o.backing.root H = Spec.htr H o.ty (val r) ∧
    serTree H o.ty o.backing
      = some (Spec.serialize o.ty (val r), (Spec.serialize o.ty (val r)).length) := by
  obtain ⟨w1, w2, w3, _⟩ := hc.2 r o trivial hr
  exact ⟨repr_read H _ _ _ w1 w2 w3, repr_root H _ _ _ w1 w3, SerTree.repr_ser H _ _ _ w1 w2 w3⟩

/-! ### chains of length 2, spelled out (a direct corollary of the per-level statements) -/

/-- A view `c` hooked at `key` to a root view `p`: after a mutation through `c` the parent
    represents its old value with the child replaced by the child's new value. -/
theorem mutate_parent_content (H : Hash) (s : Store) (c p key : Nat) (op : Op) (s' : Store)
    (val : Nat → Val) (oc po : VObj) (hc : Coherent H s val)
    (hoc : s[c]? = some oc) (hhook : oc.hook = some (p, key)) (hpo : s[p]? = some po)
    (h : step H s (.mutate c op) = some s') :
    ∃ new pv' oc' po', applyOp oc.ty (val c) op = some new ∧
      setChildVal po.ty (val p) key new = some pv' ∧
      s'[c]? = some oc' ∧ s'[p]? = some po' ∧ oc'.ty = oc.ty ∧ po'.ty = po.ty ∧
      Impl.Repr H oc.ty new oc'.backing ∧ Impl.Repr H po.ty pv' po'.backing ∧
      getChildVal po.ty pv' key = some (oc.ty, new) := by
  obtain ⟨o, new, val', hr, hop, hnew, _, hcl, hco'⟩ :=
    mutate_chain_content' H s c op s' val hc h
  rw [hoc] at hr
  cases hr
  have hh : hookOf s c = some (p, key) := by rw [hookOf_of_get hoc, hhook]
  have hpc : p < c := hc.1.hook_lt hh
  obtain ⟨f, rfl⟩ : ∃ f, c = f + 1 := ⟨c - 1, by omega⟩
  have hpmem : (p, [] ++ [key]) ∈ pathsTo s (f + 1 + 1) (f + 1) := by
    simp only [pathsTo, hh, List.mem_cons, List.mem_map]
    refine .inr ⟨(p, []), ?_, rfl⟩
    cases hookOf s p with
    | none => simp
    | some pk => simp
  obtain ⟨hsub, hupd⟩ := hcl _ hpmem po hpo
  obtain ⟨_, _, hg⟩ := hc.2 _ oc trivial hoc
  obtain ⟨po1, hpo1, hg1⟩ := hg.2 p key hhook
  rw [hpo] at hpo1
  cases hpo1
  simp only [List.nil_append, updateAt, hg1] at hupd
  obtain ⟨hlen, _, hty, _⟩ := step_mutate_shape H s _ op s' h
  have hclt := getElem?_lt_length hoc
  have hplt := getElem?_lt_length hpo
  obtain ⟨oc', hoc'⟩ : ∃ oc', s'[f + 1]? = some oc' :=
    ⟨s'[f + 1]'(by omega), List.getElem?_eq_getElem (by omega)⟩
  obtain ⟨po', hpo'⟩ : ∃ po', s'[p]? = some po' :=
    ⟨s'[p]'(by omega), List.getElem?_eq_getElem (by omega)⟩
  have t1 := hty (f + 1)
  have t2 := hty p
  rw [hoc, hoc'] at t1
  rw [hpo, hpo'] at t2
  simp only [Option.map_some, Option.some.injEq] at t1 t2
  have hcmem : (f + 1) ∈ chain s (f + 1) := mem_chain_self s _
  have hpmem' : p ∈ chain s (f + 1) := mem_chainAux_of_mem_pathsTo hpmem
  obtain ⟨_, _, r1, _⟩ := hco' _ oc' hcmem hoc'
  obtain ⟨_, _, r2, _⟩ := hco' _ po' hpmem' hpo'
  rw [t1, hnew] at r1
  rw [t2] at r2
  refine ⟨new, val' p, oc', po', hop, hupd, hoc', hpo', t1, t2, r1, r2, ?_⟩
  exact getChildVal_setChildVal hg1 hupd


/-! ### end to end: root view, child view, mutation through the child -/

/-- Hold a root view over a tree representing `v`, take its child view at `key`, mutate through the
    child: the ROOT view then reads (and hashes to) `v` with the child at `key` replaced by the
    result of the operation on the child value. -/
theorem child_then_mutate (H : Hash) (t : Ty) (v : Val) (n : Node) (hwf : t.wf = true)
    (hlim : limitsOk t = true) (hr : Impl.Repr H t v n) (key : Nat) (op : Op) (s1 s2 : Store)
    (h1 : step H [⟨t, n, none⟩] (.child 0 key) = some s1)
    (h2 : step H s1 (.mutate 1 op) = some s2) :
    ∃ ct cv new v' o', getChildVal t v key = some (ct, cv) ∧ applyOp ct cv op = some new ∧
      setChildVal t v key new = some v' ∧ s2[0]? = some o' ∧ o'.ty = t ∧
      readVal H t o'.backing = some v' ∧ o'.backing.root H = Spec.htr H t v' := by
  have hc0 := coherent_singleton H t v n hwf hlim hr
  obtain ⟨cv, hc1, o, ct, ho, hg⟩ := step_child_coherent H _ 0 key s1 _ hc0 h1
  simp only [List.getElem?_cons_zero, Option.some.injEq] at ho
  subst ho
  obtain ⟨o0, ct', cn, ho0, hch, rfl⟩ := step_child_eq H _ 0 key s1 h1
  simp only [List.getElem?_cons_zero, Option.some.injEq] at ho0
  subst ho0
  simp only [List.length_singleton] at hc1 hg
  obtain ⟨cv', hg', _⟩ := childOf_repr_get H t v n key ct' cn hwf hlim hr hch
  rw [hg] at hg'
  simp only [Option.some.injEq, Prod.mk.injEq] at hg'
  obtain ⟨rfl, rfl⟩ := hg'
  obtain ⟨new, pv', oc', po', hop, hsv, _, hpo', _, t2, _, r2, _⟩ :=
    mutate_parent_content H _ 1 0 key op s2 _ ⟨ct, cn, some (0, key)⟩ ⟨t, n, none⟩ hc1
      (by simp) rfl (by simp) h2
  simp only [if_pos, if_neg (show ¬ (0 : Nat) = 1 by omega)] at hop hsv
  simp only at t2 r2
  refine ⟨ct, cv, new, pv', po', hg, hop, hsv, hpo', t2, ?_, ?_⟩
  · exact repr_read H t pv' _ hwf hlim r2
  · exact repr_root H t pv' _ hwf r2


/-- non-vacuity of `child_then_mutate`: whenever the value has a child at `key` and the operation
    is allowed on the child value, both steps go through -/
theorem child_then_mutate_succeeds (H : Hash) (t : Ty) (v : Val) (n : Node) (hwf : t.wf = true)
    (hlim : limitsOk t = true) (hr : Impl.Repr H t v n) (key : Nat) (op : Op) (ct : Ty)
    (cv new : Val) (hg : getChildVal t v key = some (ct, cv)) (hop : applyOp ct cv op = some new) :
    ∃ s1 s2, step H [⟨t, n, none⟩] (.child 0 key) = some s1 ∧
      step H s1 (.mutate 1 op) = some s2 := by
  obtain ⟨c, hch, _⟩ := getChildVal_childOf H t v n key ct cv hwf hlim hr hg
  have h1 : step H [⟨t, n, none⟩] (.child 0 key)
      = some ([⟨t, n, none⟩] ++ [⟨ct, c, some (0, key)⟩]) := by
    simp [step, hch]
  have hc0 := coherent_singleton H t v n hwf hlim hr
  obtain ⟨cv', hc1, o, ct', ho, hg'⟩ := step_child_coherent H _ 0 key _ _ hc0 h1
  simp only [List.getElem?_cons_zero, Option.some.injEq] at ho
  subst ho
  rw [hg] at hg'
  simp only [Option.some.injEq, Prod.mk.injEq] at hg'
  obtain ⟨rfl, rfl⟩ := hg'
  obtain ⟨s2, h2⟩ := mutate_succeeds H _ 1 op _ ⟨ct, c, some (0, key)⟩ new hc1.1 (hc1.on _)
    (by simp) (by simpa using hop)
  exact ⟨_, s2, h1, h2⟩

/-- … and the hypotheses are satisfiable: a container holding a list, an append through the held
    view of the list (any hash) -/
example (H : Hash) : ∃ n s1 s2,
    Impl.Repr H (.container [.list (.uint 1) 64, .uint 1]) (.seq [.seq [.num 7], .num 3]) n ∧
    step H [⟨.container [.list (.uint 1) 64, .uint 1], n, none⟩] (.child 0 0) = some s1 ∧
    step H s1 (.mutate 1 (.append (.num 9))) = some s2 := by
  have hwf : (Ty.container [.list (.uint 1) 64, .uint 1]).wf = true := by decide
  have hlim : limitsOk (.container [.list (.uint 1) 64, .uint 1]) = true := by
    simp [limitsOk, limitsOkList]
  obtain ⟨n, _, hr⟩ := repr_exists H (.container [.list (.uint 1) 64, .uint 1])
    (.seq [.seq [.num 7], .num 3]) hwf (by decide)
  obtain ⟨s1, s2, h1, h2⟩ := child_then_mutate_succeeds H _ _ n hwf hlim hr 0
    (.append (.num 9)) (.list (.uint 1) 64) (.seq [.num 7]) (.seq [.num 7, .num 9])
    (by simp [getChildVal]) (by simp [applyOp, WT])
  exact ⟨n, s1, s2, hr, h1, h2⟩


end Rmk.StoreContent
