/-
Laws of the GUARDED store (`Rmk/Impl/StoreGuard.lean`): a value view handed out by a union remembers the
selector of that moment; a mutation through a view whose hook chain contains a stale union link is refused.
Everything is generic in the pair hash `H`.
-/
import Rmk.Impl.StoreGuard
import Rmk.Proofs.StoreLaws
namespace Rmk.StoreGuardLaws
open Rmk Rmk.Impl Rmk.StoreLaws

/-! ### 1. the guard only adds failures -/

/-- every guarded step is a step of the unguarded store semantics -/
theorem stepG_refines (H : Hash) (g g' : GStore) (op : SOp) :
    stepG H g op = some g' → step H g.views op = some g'.views := by
  intro h
  cases op with
  | child r key =>
    simp only [stepG] at h
    cases hs : step H g.views (.child r key) with
    | none => simp [hs] at h
    | some s' =>
      simp only [hs, Option.map_some, Option.some.injEq] at h
      subst h; rfl
  | mutate r op =>
    simp only [stepG] at h
    split at h
    · simp at h
    · cases hs : step H g.views (.mutate r op) with
      | none => simp [hs] at h
      | some s' =>
        simp only [hs, Option.map_some, Option.some.injEq] at h
        subst h; rfl
  | copy r =>
    simp only [stepG] at h
    cases hs : step H g.views (.copy r) with
    | none => simp [hs] at h
    | some s' =>
      simp only [hs, Option.map_some, Option.some.injEq] at h
      subst h; rfl

/-! ### 2. when nothing is stale the guarded step IS the step -/

theorem stepG_of_not_stale (H : Hash) (g : GStore) (r : Nat) (op : Op) :
    staleChain H g.views g.sels (r + 1) r = false →
    (stepG H g (.mutate r op)).map (·.views) = step H g.views (.mutate r op) := by
  intro h
  simp only [stepG, h]
  cases step H g.views (.mutate r op) <;> simp

theorem stepG_child_views (H : Hash) (g : GStore) (r key : Nat) :
    (stepG H g (.child r key)).map (·.views) = step H g.views (.child r key) := by
  simp only [stepG]
  cases step H g.views (.child r key) <;> simp

theorem stepG_copy_views (H : Hash) (g : GStore) (r : Nat) :
    (stepG H g (.copy r)).map (·.views) = step H g.views (.copy r) := by
  simp only [stepG]
  cases step H g.views (.copy r) <;> simp

/-! ### 3. stale hooks are refused -/

theorem stale_refused (H : Hash) (g : GStore) (r : Nat) (op : Op) :
    staleChain H g.views g.sels (r + 1) r = true → stepG H g (.mutate r op) = none := by
  intro h
  simp [stepG, h]

/-- the converse for mutations: a mutation that was let through had no stale link -/
theorem stepG_mutate_not_stale (H : Hash) (g g' : GStore) (r : Nat) (op : Op)
    (h : stepG H g (.mutate r op) = some g') :
    staleChain H g.views g.sels (r + 1) r = false ∧ g'.sels = g.sels := by
  simp only [stepG] at h
  split at h
  · simp at h
  · rename_i hst
    refine ⟨by simpa using hst, ?_⟩
    cases hs : step H g.views (.mutate r op) with
    | none => simp [hs] at h
    | some s' =>
      simp only [hs, Option.map_some, Option.some.injEq] at h
      subst h; rfl

/-! ### 4. the remembered selectors -/

/-- shape of a guarded step: what is appended to `views` and `sels` -/
theorem stepG_shape (H : Hash) (g g' : GStore) (op : SOp) (h : stepG H g op = some g') :
    (∃ r key o ct cn, op = .child r key ∧ g.views[r]? = some o ∧
        childOf H o.ty o.backing key = some (ct, cn) ∧
        g'.views = g.views ++ [⟨ct, cn, some (r, key)⟩] ∧ g'.sels = g.sels ++ [selOf H o]) ∨
    (∃ r mop, op = .mutate r mop ∧ step H g.views (.mutate r mop) = some g'.views ∧
        staleChain H g.views g.sels (r + 1) r = false ∧ g'.sels = g.sels) ∨
    (∃ r o, op = .copy r ∧ g.views[r]? = some o ∧
        g'.views = g.views ++ [⟨o.ty, o.backing, none⟩] ∧ g'.sels = g.sels ++ [none]) := by
  have href := stepG_refines H g g' op h
  cases op with
  | child r key =>
    obtain ⟨o, ct, cn, hr, hc, hv⟩ := step_child_eq H g.views r key g'.views href
    refine .inl ⟨r, key, o, ct, cn, rfl, hr, hc, hv, ?_⟩
    simp only [stepG] at h
    rw [href] at h
    simp only [Option.map_some, Option.some.injEq] at h
    rw [← h]
    simp [hr]
  | mutate r mop =>
    obtain ⟨h1, h2⟩ := stepG_mutate_not_stale H g g' r mop h
    exact .inr (.inl ⟨r, mop, rfl, href, h1, h2⟩)
  | copy r =>
    obtain ⟨o, hr, hv⟩ := step_copy_eq H g.views r g'.views href
    refine .inr (.inr ⟨r, o, rfl, hr, hv, ?_⟩)
    simp only [stepG] at h
    rw [href] at h
    simp only [Option.map_some, Option.some.injEq] at h
    rw [← h]

theorem stepG_sels_length (H : Hash) (g g' : GStore) (op : SOp) :
    g.sels.length = g.views.length → stepG H g op = some g' → g'.sels.length = g'.views.length := by
  intro hl h
  rcases stepG_shape H g g' op h with
    ⟨r, key, o, ct, cn, _, _, _, hv, hs⟩ | ⟨r, mop, _, hst, _, hs⟩ | ⟨r, o, _, _, hv, hs⟩
  · rw [hv, hs]; simp [hl]
  · rw [hs, (step_mutate_shape H g.views r mop g'.views hst).1, hl]
  · rw [hv, hs]; simp [hl]

/-- remembered selectors never change: the old `sels` are a prefix of the new ones -/
theorem stepG_sels_prefix (H : Hash) (g g' : GStore) (op : SOp) :
    stepG H g op = some g' → ∃ l, g'.sels = g.sels ++ l := by
  intro h
  rcases stepG_shape H g g' op h with
    ⟨r, key, o, ct, cn, _, _, _, _, hs⟩ | ⟨r, mop, _, _, _, hs⟩ | ⟨r, o, _, _, _, hs⟩
  · exact ⟨_, hs⟩
  · exact ⟨[], by simp [hs]⟩
  · exact ⟨_, hs⟩

/-- the same, stated with `take` -/
theorem stepG_sels_take (H : Hash) (g g' : GStore) (op : SOp) :
    stepG H g op = some g' → g'.sels.take g.sels.length = g.sels := by
  intro h
  obtain ⟨l, hl⟩ := stepG_sels_prefix H g g' op h
  rw [hl]; simp

/-- the views only grow as well -/
theorem stepG_views_length_le (H : Hash) (g g' : GStore) (op : SOp) (h : stepG H g op = some g') :
    g.views.length ≤ g'.views.length :=
  (step_frame H g.views op g'.views (stepG_refines H g g' op h)).1

/-- validity of the hooks is preserved by guarded steps -/
theorem stepG_valid (H : Hash) (g g' : GStore) (op : SOp) (hv : Valid g.views)
    (h : stepG H g op = some g') : Valid g'.views :=
  step_valid H g.views op g'.views hv (stepG_refines H g g' op h)

/-! ### 5. type safety -/

set_option linter.unusedVariables false in
/-- every value view of a union remembers a selector, and that selector designates the option whose
    type is the view's type -/
def SelTyped (H : Hash) (g : GStore) : Prop :=
  ∀ (c p key : Nat) (oc po : VObj) (hasNone : Bool) (opts : List Ty),
    g.views[c]? = some oc → oc.hook = some (p, key) → g.views[p]? = some po → po.ty = .union hasNone opts →
    ∃ sel, g.sels[c]? = some (some sel) ∧ Spec.optType hasNone opts sel = some oc.ty

theorem selTyped_init (H : Hash) (o : VObj) (h : o.hook = none) :
    SelTyped H { views := [o], sels := [none] } := by
  intro c p key oc po hasNone opts hc hh _ _
  cases c with
  | zero =>
    simp at hc
    subst hc
    rw [h] at hh
    cases hh
  | succ c => simp at hc

/-- `childOf` on a union: the child type is the type of the option selected by the stored selector -/
theorem childOf_union_sel (H : Hash) (hasNone : Bool) (opts : List Ty) (n : Node) (key : Nat)
    (ct : Ty) (cn : Node) (h : childOf H (.union hasNone opts) n key = some (ct, cn)) :
    ∃ sel, unionSel H n = some sel ∧ Spec.optType hasNone opts sel = some ct := by
  cases n with
  | leaf x => simp [childOf, getLeft] at h
  | pair l r =>
    simp only [childOf, getLeft, getRight] at h
    split at h
    · simp at h
    · cases ho : Spec.optType hasNone opts (readLen H r) with
      | none => simp [ho] at h
      | some ot =>
        simp only [ho, Option.some.injEq, Prod.mk.injEq] at h
        refine ⟨readLen H r, by simp [unionSel, getRight], ?_⟩
        rw [ho, h.1]

/-- an appended element: lookups below the old length see the old list -/
private theorem getElem?_append_one_lt {α : Type} (s : List α) (x : α) (q : Nat) (y : α)
    (h : (s ++ [x])[q]? = some y) : (q < s.length ∧ s[q]? = some y) ∨ (q = s.length ∧ y = x) := by
  rcases Nat.lt_or_ge q s.length with hq | hq
  · rw [List.getElem?_append_left hq] at h
    exact .inl ⟨hq, h⟩
  · rw [List.getElem?_append_right hq] at h
    cases hqq : q - s.length with
    | zero =>
      simp [hqq] at h
      exact .inr ⟨by omega, h.symm⟩
    | succ m => simp [hqq] at h

/-- `SelTyped` after appending a view: old links are the old links (parents have smaller references) -/
private theorem selTyped_append (H : Hash) (g : GStore) (x : VObj) (sx : Option Nat)
    (hv : Valid g.views) (hl : g.sels.length = g.views.length) (ht : SelTyped H g)
    (hnew : ∀ p key po hasNone opts, x.hook = some (p, key) → g.views[p]? = some po →
      po.ty = .union hasNone opts →
      ∃ sel, sx = some sel ∧ Spec.optType hasNone opts sel = some x.ty)
    (hxv : ∀ p key, x.hook = some (p, key) → p < g.views.length) :
    SelTyped H { views := g.views ++ [x], sels := g.sels ++ [sx] } := by
  intro c p key oc po hasNone opts hc hh hp hu
  simp only [] at hc hp ⊢
  rcases getElem?_append_one_lt _ _ _ _ hc with ⟨hcl, hc'⟩ | ⟨hcl, rfl⟩
  · have hplt := (hv c oc hc' p key hh).1
    rw [List.getElem?_append_left (by omega)] at hp
    obtain ⟨sel, hs, ho⟩ := ht c p key oc po hasNone opts hc' hh hp hu
    refine ⟨sel, ?_, ho⟩
    rw [List.getElem?_append_left (by omega)]
    exact hs
  · have hplt := hxv p key hh
    rw [List.getElem?_append_left hplt] at hp
    obtain ⟨sel, hs, ho⟩ := hnew p key po hasNone opts hh hp hu
    refine ⟨sel, ?_, ho⟩
    rw [hcl, ← hl, List.getElem?_append_right (Nat.le_refl _)]
    simp [hs]

theorem selTyped_step (H : Hash) (g g' : GStore) (op : SOp) :
    Valid g.views → g.sels.length = g.views.length → SelTyped H g → stepG H g op = some g' →
    SelTyped H g' := by
  intro hv hl ht h
  rcases stepG_shape H g g' op h with
    ⟨r, key, o, ct, cn, _, hr, hc, hvw, hs⟩ | ⟨r, mop, _, hst, _, hs⟩ | ⟨r, o, _, hr, hvw, hs⟩
  · -- child
    have := selTyped_append H g ⟨ct, cn, some (r, key)⟩ (selOf H o) hv hl ht ?_ ?_
    · obtain ⟨gv, gs⟩ := g'
      simp only [] at hvw hs
      subst hvw; subst hs
      exact this
    · intro p k po hasNone opts hh hp hu
      simp only [Option.some.injEq, Prod.mk.injEq] at hh
      rw [← hh.1, hr] at hp
      cases hp
      rw [hu] at hc
      obtain ⟨sel, h1, h2⟩ := childOf_union_sel H hasNone opts o.backing key ct cn hc
      exact ⟨sel, by simp [selOf, hu, h1], h2⟩
    · intro p k hh
      simp only [Option.some.injEq, Prod.mk.injEq] at hh
      rw [← hh.1]
      exact getElem?_lt_length hr
  · -- mutate: types, hooks and sels are unchanged
    obtain ⟨_, _, hty, hhk⟩ := step_mutate_shape H g.views r mop g'.views hst
    intro c p key oc' po' hasNone opts hc hh hp hu
    have hcty := hty c
    have hchk := hhk c
    have hpty := hty p
    rw [hc] at hcty hchk
    rw [hp] at hpty
    cases hc0 : g.views[c]? with
    | none => simp [hc0] at hcty
    | some oc =>
      cases hp0 : g.views[p]? with
      | none => simp [hp0] at hpty
      | some po =>
        simp only [hc0, Option.map_some, Option.some.injEq] at hcty hchk
        simp only [hp0, Option.map_some, Option.some.injEq] at hpty
        obtain ⟨sel, h1, h2⟩ := ht c p key oc po hasNone opts hc0 (by rw [← hchk]; exact hh) hp0
          (by rw [← hpty]; exact hu)
        exact ⟨sel, by rw [hs]; exact h1, by rw [hcty]; exact h2⟩
  · -- copy: the new view has no hook
    have := selTyped_append H g ⟨o.ty, o.backing, none⟩ none hv hl ht ?_ ?_
    · obtain ⟨gv, gs⟩ := g'
      simp only [] at hvw hs
      subst hvw; subst hs
      exact this
    · intro p k po hasNone opts hh
      simp at hh
    · intro p k hh
      simp at hh

/-- `SelTyped`, `Valid` and the length invariant along a whole run of guarded steps -/
theorem selTyped_run (H : Hash) (ops : List SOp) (g g' : GStore) :
    Valid g.views → g.sels.length = g.views.length → SelTyped H g → runG H g ops = some g' →
    Valid g'.views ∧ g'.sels.length = g'.views.length ∧ SelTyped H g' := by
  induction ops generalizing g with
  | nil =>
    intro hv hl ht h
    simp only [runG, Option.some.injEq] at h
    subst h
    exact ⟨hv, hl, ht⟩
  | cons op ops ih =>
    intro hv hl ht h
    simp only [runG] at h
    cases hs : stepG H g op with
    | none => simp [hs] at h
    | some g1 =>
      simp only [hs, Option.bind_some] at h
      exact ih g1 (stepG_valid H g g1 op hv hs) (stepG_sels_length H g g1 op hl hs)
        (selTyped_step H g g1 op hv hl ht hs) h

/-! #### a write that is let through goes to the option selected NOW -/

theorem parentOf_eq_hookOf (s : Store) (r : Nat) : parentOf s r = (hookOf s r).map (·.1) := by
  unfold parentOf hookOf
  cases s[r]? <;> rfl

/-- one unfolding of `staleChain` -/
theorem staleChain_false_link (H : Hash) (s : Store) (sels : List (Option Nat)) (fuel r : Nat) :
    staleChain H s sels (fuel + 1) r = false →
    staleLink H s sels r = false ∧ ∀ p, parentOf s r = some p → staleChain H s sels fuel p = false := by
  intro h
  simp only [staleChain, Bool.or_eq_false_iff] at h
  refine ⟨h.1, ?_⟩
  intro p hp
  have h2 := h.2
  rw [hp] at h2
  exact h2

/-- no link on the walked chain is stale -/
theorem staleChain_false_chainAux (H : Hash) (s : Store) (sels : List (Option Nat)) (fuel r : Nat)
    (h : staleChain H s sels fuel r = false) :
    ∀ c ∈ chainAux s fuel r, staleLink H s sels c = false := by
  induction fuel generalizing r with
  | zero => intro c hc; simp [chainAux] at hc
  | succ f ih =>
    obtain ⟨h1, h2⟩ := staleChain_false_link H s sels f r h
    intro c hc
    simp only [chainAux] at hc
    cases hh : hookOf s r with
    | none =>
      simp only [hh, List.mem_singleton] at hc
      subst hc; exact h1
    | some pk =>
      obtain ⟨p, key⟩ := pk
      simp only [hh, List.mem_cons] at hc
      rcases hc with hc | hc
      · subst hc; exact h1
      · exact ih p (h2 p (by rw [parentOf_eq_hookOf, hh]; rfl)) c hc

theorem staleChain_false_chain (H : Hash) (s : Store) (sels : List (Option Nat)) (r : Nat)
    (h : staleChain H s sels (r + 1) r = false) :
    ∀ c ∈ chain s r, staleLink H s sels c = false :=
  staleChain_false_chainAux H s sels (r + 1) r h

/-- and conversely: if no link on the chain is stale, the guard lets the mutation through -/
theorem staleChain_false_of_chainAux (H : Hash) (s : Store) (sels : List (Option Nat)) (fuel r : Nat)
    (h : ∀ c ∈ chainAux s fuel r, staleLink H s sels c = false) :
    staleChain H s sels fuel r = false := by
  induction fuel generalizing r with
  | zero => rfl
  | succ f ih =>
    simp only [staleChain, Bool.or_eq_false_iff]
    refine ⟨h r mem_chainAux_self, ?_⟩
    rw [parentOf_eq_hookOf]
    cases hh : hookOf s r with
    | none => rfl
    | some pk =>
      obtain ⟨p, key⟩ := pk
      simp only [Option.map_some]
      apply ih
      intro c hc
      apply h
      simp only [chainAux, hh, List.mem_cons]
      exact .inr hc

/-- the guard refuses exactly when some link of the hook chain of `r` is stale -/
theorem staleChain_eq_false_iff (H : Hash) (s : Store) (sels : List (Option Nat)) (r : Nat) :
    staleChain H s sels (r + 1) r = false ↔ ∀ c ∈ chain s r, staleLink H s sels c = false :=
  ⟨staleChain_false_chain H s sels r, staleChain_false_of_chainAux H s sels (r + 1) r⟩

/-- a non-stale link of a selector-typed store: the union parent has, NOW, the remembered selector -/
theorem not_stale_link_selected (H : Hash) (g : GStore) (c p key : Nat) (oc po : VObj) (hasNone : Bool)
    (opts : List Ty) (ht : SelTyped H g) (hst : staleLink H g.views g.sels c = false)
    (hc : g.views[c]? = some oc) (hh : oc.hook = some (p, key)) (hp : g.views[p]? = some po)
    (hu : po.ty = .union hasNone opts) :
    ∃ sel, unionSel H po.backing = some sel ∧ Spec.optType hasNone opts sel = some oc.ty := by
  obtain ⟨sel, hs, ho⟩ := ht c p key oc po hasNone opts hc hh hp hu
  refine ⟨sel, ?_, ho⟩
  simp only [staleLink, hc, hh, hp, hu, hs] at hst
  simpa using hst

/-- a write through a union's value view that is let through stores a node of the type of the option the
    union has selected now -/
theorem guarded_write_selected_option (H : Hash) (g g' : GStore) (r : Nat) (op : Op) (oc po : VObj)
    (p key : Nat) (hasNone : Bool) (opts : List Ty) :
    SelTyped H g → stepG H g (.mutate r op) = some g' → g.views[r]? = some oc →
    oc.hook = some (p, key) → g.views[p]? = some po → po.ty = .union hasNone opts →
    ∃ sel, unionSel H po.backing = some sel ∧ Spec.optType hasNone opts sel = some oc.ty := by
  intro ht h hc hh hp hu
  obtain ⟨hst, _⟩ := stepG_mutate_not_stale H g g' r op h
  exact not_stale_link_selected H g r p key oc po hasNone opts ht
    (staleChain_false_chain H g.views g.sels r hst r (mem_chain_self _ _)) hc hh hp hu

/-- the chain version: the same for EVERY link `c → p` on the hook chain of `r` (all the unions that the
    hooks write into on the way up have, now, the selector their value view was handed out for) -/
theorem guarded_write_selected_option_chain (H : Hash) (g g' : GStore) (r : Nat) (op : Op) (c : Nat)
    (oc po : VObj) (p key : Nat) (hasNone : Bool) (opts : List Ty) :
    SelTyped H g → stepG H g (.mutate r op) = some g' → c ∈ chain g.views r → g.views[c]? = some oc →
    oc.hook = some (p, key) → g.views[p]? = some po → po.ty = .union hasNone opts →
    ∃ sel, unionSel H po.backing = some sel ∧ Spec.optType hasNone opts sel = some oc.ty := by
  intro ht h hmem hc hh hp hu
  obtain ⟨hst, _⟩ := stepG_mutate_not_stale H g g' r op h
  exact not_stale_link_selected H g c p key oc po hasNone opts ht
    (staleChain_false_chain H g.views g.sels r hst c hmem) hc hh hp hu

/-! ### 6. non-vacuity -/

section Example

/-- a toy pair hash (the theorems above hold for every `H`) -/
private def H0 : Hash := fun a b => a ++ b

/-- `Union[List[uint8, 4], Container{uint8}]` -/
private def uTy : Ty := .union false [.list (.uint 1) 4, .container [.uint 1]]

/-- the union holding option 0, the list `[1]` -/
private def g0 : Option GStore :=
  (construct H0 uTy (.un 0 (.seq [.num 1]))).map fun b =>
    { views := [⟨uTy, b, none⟩], sels := [none] }

/-- take the value view, change the union to option 1 through the parent, then append through the OLD
    value view: refused by the guard, let through by the unguarded store -/
private def exStale : Option (Bool × Bool × Option Nat) := do
  let g ← g0
  let g1 ← stepG H0 g (.child 0 0)
  let g2 ← stepG H0 g1 (.mutate 0 (.change 1 (.seq [.num 7])))
  let parent ← g2.views[0]?
  pure ((stepG H0 g2 (.mutate 1 (.append (.num 2)))).isNone,
        (step H0 g2.views (.mutate 1 (.append (.num 2)))).isSome,
        unionSel H0 parent.backing)

example : exStale = some (true, true, some 1) := by decide

/-- with the selector unchanged the guarded step succeeds and the parent sees the new list -/
private def exFresh : Option (Option Val × List (Option Nat)) := do
  let g ← g0
  let g1 ← stepG H0 g (.child 0 0)
  let g2 ← stepG H0 g1 (.mutate 1 (.append (.num 2)))
  let parent ← g2.views[0]?
  pure (readVal H0 uTy parent.backing, g2.sels)

example : (exFresh == some (some (.un 0 (.seq [.num 1, .num 2])), [none, some 0])) = true := by decide

/-- changing the union to the SAME selector (another value of option 0) keeps the old value view usable -/
private def exSameSel : Option Bool := do
  let g ← g0
  let g1 ← stepG H0 g (.child 0 0)
  let g2 ← stepG H0 g1 (.mutate 0 (.change 0 (.seq [.num 5, .num 6])))
  pure (stepG H0 g2 (.mutate 1 (.append (.num 2)))).isSome

example : exSameSel = some true := by decide

end Example

end Rmk.StoreGuardLaws
