/-
Held views, hooks and copies (properties C05, C06, C14 at the level of the store model
`Rmk/Impl/Store.lean`).  Everything is generic in the pair hash `H`.
-/
import Rmk.Impl.Store
import Rmk.Proofs.TreeLaws
import Rmk.Proofs.Merkle
namespace Rmk.StoreLaws
open Rmk Rmk.Impl

/-! ### paths of bottom positions -/

/-- positions that differ in their `d` low bits have diverging paths -/
theorem pbits_diverge_mod (d i j : Nat) (h : i % 2 ^ d ≠ j % 2 ^ d) :
    diverge (pbits d i) (pbits d j) = true := by
  induction d with
  | zero => simp [Nat.mod_one] at h
  | succ d ih =>
    simp only [pbits, diverge]
    by_cases hb : (i / 2 ^ d % 2 == 1) = (j / 2 ^ d % 2 == 1)
    · have hb' : i / 2 ^ d % 2 = j / 2 ^ d % 2 := by
        have h1 := Nat.mod_two_eq_zero_or_one (i / 2 ^ d)
        have h2 := Nat.mod_two_eq_zero_or_one (j / 2 ^ d)
        rcases h1 with h1 | h1 <;> rcases h2 with h2 | h2 <;> simp [h1, h2] at hb ⊢
      have : i % 2 ^ d ≠ j % 2 ^ d := by
        intro heq
        apply h
        rw [Nat.mod_pow_succ, Nat.mod_pow_succ, heq, hb']
      simp [hb, ih this]
    · have : ((i / 2 ^ d % 2 == 1) == (j / 2 ^ d % 2 == 1)) = false := by
        simpa using hb
      simp [this]

/-- the paths of two different bottom positions of a depth-`d` subtree diverge -/
theorem pbits_diverge (d i j : Nat) (hi : i < 2 ^ d) (hj : j < 2 ^ d) (h : i ≠ j) :
    diverge (pbits d i) (pbits d j) = true := by
  apply pbits_diverge_mod
  rwa [Nat.mod_eq_of_lt hi, Nat.mod_eq_of_lt hj]

/-- a position in the left half starts with a left turn -/
theorem pbits_succ_left (d i : Nat) (hi : i < 2 ^ d) : pbits (d + 1) i = false :: pbits d i := by
  simp [pbits, Nat.div_eq_of_lt hi]

/-! ### `getAt` / `setAt` -/

theorem setAt_lt {H : Hash} {e : Bool} {n n' v : Node} {i d : Nat}
    (h : setAt H e n i d v = some n') : i < 2 ^ d := by
  unfold setAt at h
  split at h
  · simp at h
  · omega

theorem getAt_setAt_same {H : Hash} {e : Bool} {n n' v : Node} {i d : Nat}
    (h : setAt H e n i d v = some n') : getAt n' i d = some v := by
  have hlt := setAt_lt h
  unfold setAt at h
  unfold getAt
  rw [if_neg (by omega)] at h ⊢
  exact getPath_setPath_same H e n _ v n' h

theorem getAt_setAt_other {H : Hash} {n n' v : Node} {i j d : Nat}
    (h : setAt H false n i d v = some n') (hij : i ≠ j) : getAt n' j d = getAt n j d := by
  have hlt := setAt_lt h
  unfold setAt at h
  unfold getAt
  by_cases hj : j ≥ 2 ^ d
  · simp [hj]
  · rw [if_neg (by omega)] at h
    rw [if_neg hj, if_neg hj]
    exact getPath_setPath_diverge H n _ _ v n' h (pbits_diverge d i j hlt (by omega) hij)

/-- a write into the left half of the tree leaves the right child (the length node) untouched -/
theorem getRight_setAt_left {H : Hash} {n n' v : Node} {i d : Nat}
    (h : setAt H false n i (d + 1) v = some n') (hi : i < 2 ^ d) : getRight n' = getRight n := by
  unfold setAt at h
  split at h
  · simp at h
  · rw [pbits_succ_left d i hi] at h
    cases n with
    | leaf c => simp at h
    | pair l r =>
      simp at h
      obtain ⟨l', _, rfl⟩ := h
      rfl

theorem listLength_setAt_left {H : Hash} {n n' v : Node} {i d : Nat}
    (h : setAt H false n i (d + 1) v = some n') (hi : i < 2 ^ d) :
    listLength H n' = listLength H n := by
  unfold listLength
  rw [getRight_setAt_left h hi]

/-! ### keys in range -/

/-- The side condition on a hook key that the view-level laws need: for a list parent the key is
    below the *limit* of the list type.  (`childOf` and `setChildNode` only compare the key with the
    length *read from the backing*; for a malformed backing whose length node exceeds the limit, a key
    `≥ 2^contents_depth` addresses the length node itself — exactly as `List.get`/`List.set` do in the
    library — and then the laws below are false, see `childOf_setChildNode_needs_keyOk`.) -/
def KeyOk : Ty → Nat → Prop
  | .list _ lim, key => key < lim
  | _, _ => True

/-- `key` is a child position of the type (for a union, the only child is the value, key `0`) -/
def InRange : Ty → Nat → Prop
  | .vector _ len, key => key < len
  | .list _ lim, key => key < lim
  | .container fs, key => key < fs.length
  | .union _ _, key => key = 0
  | _, _ => False

theorem InRange.keyOk {t : Ty} {key : Nat} (h : InRange t key) : KeyOk t key := by
  cases t <;> simp_all [InRange, KeyOk]

/-- well-formed list backing (length ≤ limit) makes every key accepted by `childOf` a `KeyOk` key -/
theorem keyOk_of_length_le {H : Hash} {t : Ty} {n : Node} {key : Nat}
    (hlen : ∀ et lim len, t = .list et lim → listLength H n = some len → len ≤ lim)
    (hc : (childOf H t n key).isSome) : KeyOk t key := by
  cases t <;> simp only [KeyOk]
  rename_i et lim
  unfold childOf at hc
  cases hl : listLength H n with
  | none => simp [hl] at hc
  | some len =>
    have := hlen et lim len rfl hl
    simp only [hl] at hc
    split at hc
    · simp at hc
    · rename_i hcond
      simp at hcond
      omega

theorem list_key_lt {et : Ty} {lim key : Nat} (hb : et.isBasic = false) (hk : key < lim) :
    key < 2 ^ getDepth (chunkLen et lim) := by
  have := two_pow_getDepth (chunkLen et lim)
  simp [chunkLen, hb] at this ⊢
  omega

/-! ### 1. get-after-set at the view level -/

/-- After the hook ran (`setChildNode`), the parent's child at `key` IS the node written.
    Target statement of the task: the same WITHOUT `hk`.  That statement is false for a list parent
    whose backing claims a length above the limit (`childOf_setChildNode_needs_keyOk` below), so the
    side condition `KeyOk t key` (trivial unless `t` is a list; for a list: `key < limit`) is added.
    `childOf_setChildNode_partial` is the unconditional statement for all non-list parents and
    `childOf_setChildNode_of_length_le` replaces `KeyOk` by "the stored length is within the limit". -/
theorem childOf_setChildNode (H : Hash) (t : Ty) (n n' : Node) (key : Nat) (c : Node)
    (hk : KeyOk t key)
    (hs : setChildNode H t n key c = some n') (hc : (childOf H t n key).isSome) :
    childOf H t n' key = (childOf H t n key).map (fun x => (x.1, c)) := by
  cases t with
  | vector et len =>
    simp only [setChildNode] at hs
    simp only [childOf] at hc ⊢
    split at hs
    · simp at hs
    · split at hc
      · simp at hc
      · rename_i h1 h2
        rw [if_neg h2]
        rw [getAt_setAt_same hs]
        cases hg : getAt n key (getDepth (chunkLen et len)) with
        | none => simp [hg] at hc
        | some x =>
          have h2' : ¬ (et.isBasic = true ∨ len ≤ key) := by simpa using h2
          simp [h2']
  | list et lim =>
    simp only [setChildNode] at hs
    simp only [childOf] at hc ⊢
    cases hl : listLength H n with
    | none => simp [hl] at hs
    | some len =>
      simp only [hl] at hs hc ⊢
      split at hs
      · simp at hs
      · split at hc
        · simp at hc
        · rename_i h1 h2
          have hb : et.isBasic = false := by
            cases hbb : et.isBasic <;> simp [hbb] at h2 ⊢
          have hlt := list_key_lt hb hk
          rw [listLength_setAt_left hs hlt, hl]
          simp only []
          rw [if_neg h2, getAt_setAt_same hs]
          cases hg : getAt n key (getDepth (chunkLen et lim) + 1) with
          | none => simp [hg] at hc
          | some x =>
            have h2' : ¬ (et.isBasic = true ∨ len ≤ key) := by simpa using h2
            simp [h2']
  | container fs =>
    simp only [setChildNode] at hs
    simp only [childOf] at hc ⊢
    split at hs
    · simp at hs
    · cases hf : fs[key]? with
      | none => simp [hf] at hc
      | some ft =>
        simp only [hf] at hc ⊢
        rw [getAt_setAt_same hs]
        cases hg : getAt n key (getDepth fs.length) with
        | none => simp [hg] at hc
        | some x => simp
  | union hasNone opts =>
    simp only [setChildNode] at hs
    cases n with
    | leaf x => simp [rebindLeft] at hs
    | pair l r =>
      simp [rebindLeft] at hs
      subst hs
      simp only [childOf, getLeft, getRight] at hc ⊢
      split
      · simp
      · cases ho : Spec.optType hasNone opts (readLen H r) with
        | none => simp
        | some ot => simp
  | _ => simp [setChildNode] at hs

/-- the task's statement verbatim, for every parent type except lists
    (missing: `t = .list et lim`, where it needs `key < lim`, see `childOf_setChildNode`) -/
theorem childOf_setChildNode_partial (H : Hash) (t : Ty) (n n' : Node) (key : Nat) (c : Node)
    (hnl : ∀ et lim, t ≠ .list et lim)
    (hs : setChildNode H t n key c = some n') (hc : (childOf H t n key).isSome) :
    childOf H t n' key = (childOf H t n key).map (fun x => (x.1, c)) := by
  apply childOf_setChildNode H t n n' key c _ hs hc
  cases t <;> simp only [KeyOk]
  exact absurd rfl (hnl _ _)

/-- the task's statement for parents whose stored list length respects the limit -/
theorem childOf_setChildNode_of_length_le (H : Hash) (t : Ty) (n n' : Node) (key : Nat) (c : Node)
    (hlen : ∀ et lim len, t = .list et lim → listLength H n = some len → len ≤ lim)
    (hs : setChildNode H t n key c = some n') (hc : (childOf H t n key).isSome) :
    childOf H t n' key = (childOf H t n key).map (fun x => (x.1, c)) :=
  childOf_setChildNode H t n n' key c (keyOk_of_length_le hlen hc) hs hc

/-! ### 2. the other children of the parent are unchanged -/

/-- the length of a list parent is not changed by the hook -/
theorem setChildNode_listLength (H : Hash) (et : Ty) (lim : Nat) (n n' : Node) (key : Nat) (c : Node)
    (hb : et.isBasic = false) (hk : key < lim)
    (hs : setChildNode H (.list et lim) n key c = some n') :
    listLength H n' = listLength H n := by
  simp only [setChildNode] at hs
  cases hl : listLength H n with
  | none => simp [hl] at hs
  | some len =>
    simp only [hl] at hs
    split at hs
    · simp at hs
    · rw [listLength_setAt_left hs (list_key_lt hb hk), hl]

/-- After the hook ran at `key`, the children at all other keys are the same nodes as before. -/
theorem setChildNode_other (H : Hash) (t : Ty) (n n' : Node) (key key' : Nat) (c : Node)
    (hk : InRange t key) (hk' : InRange t key') (hne : key' ≠ key)
    (hs : setChildNode H t n key c = some n') :
    childOf H t n' key' = childOf H t n key' := by
  cases t with
  | vector et len =>
    simp only [setChildNode] at hs
    simp only [childOf]
    split at hs
    · simp at hs
    · rw [getAt_setAt_other hs (Ne.symm hne)]
  | list et lim =>
    cases hb : et.isBasic with
    | true =>
      simp only [childOf, hb]
      cases listLength H n' <;> cases listLength H n <;> simp
    | false =>
      have hlen := setChildNode_listLength H et lim n n' key c hb hk hs
      simp only [setChildNode] at hs
      simp only [childOf, hlen]
      cases hl : listLength H n with
      | none => simp
      | some len =>
        simp only [hl] at hs
        split at hs
        · simp at hs
        · simp only []
          rw [getAt_setAt_other hs (Ne.symm hne)]
  | container fs =>
    simp only [setChildNode] at hs
    simp only [childOf]
    split at hs
    · simp at hs
    · rw [getAt_setAt_other hs (Ne.symm hne)]
  | union hasNone opts =>
    simp only [InRange] at hk hk'
    omega
  | _ => simp [setChildNode] at hs

/-- The side condition `KeyOk` of `childOf_setChildNode` cannot be dropped: a list of limit 1 whose
    backing claims length 2 (malformed) has the length node itself as "element 1"; writing a zero leaf
    there sets the length to 0 and the element is gone.  (Same behaviour as the library.) -/
theorem childOf_setChildNode_needs_keyOk (H : Hash) :
    ∃ (t : Ty) (n n' : Node) (key : Nat) (c : Node),
      setChildNode H t n key c = some n' ∧ (childOf H t n key).isSome ∧
      childOf H t n' key ≠ (childOf H t n key).map (fun x => (x.1, c)) := by
  refine ⟨.list (.container [.bool]) 1, .pair (.leaf zeroChunk) (.leaf (2 :: zeros 31)),
    .pair (.leaf zeroChunk) (.leaf zeroChunk), 1, .leaf zeroChunk, ?_, ?_, ?_⟩
  · simp [setChildNode, listLength, getRight, readLen, Node.root, fromLE, zeros, setAt, getDepth,
      chunkLen, Ty.isBasic, pbits, zeroChunk, List.replicate]
  · simp [childOf, listLength, getRight, readLen, Node.root, fromLE, zeros, getAt, getDepth,
      chunkLen, Ty.isBasic, pbits, List.replicate]
  · simp [childOf, listLength, getRight, readLen, Node.root, fromLE, zeros, getAt, getDepth,
      chunkLen, Ty.isBasic, pbits, zeroChunk, List.replicate]

/-! ### the store: validity and hook chains -/

/-- every hook `(p, key)` of view `r` points to an existing view with a smaller reference -/
def Valid (s : Store) : Prop :=
  ∀ r o, s[r]? = some o → ∀ p key, o.hook = some (p, key) → p < r ∧ p < s.length

/-- the hook of view `r` (`none` also when `r` is not a reference of the store) -/
def hookOf (s : Store) (r : Nat) : Option (Nat × Nat) := (s[r]?).bind (·.hook)

/-- `r` and its ancestors, following the hooks for at most `fuel` views -/
def chainAux (s : Store) : Nat → Nat → List Nat
  | 0, _ => []
  | fuel+1, r =>
    match hookOf s r with
    | none => [r]
    | some (p, _) => r :: chainAux s fuel p

/-- the references of `r` and its ancestors following hooks -/
def chain (s : Store) (r : Nat) : List Nat := chainAux s (r + 1) r

theorem hookOf_eq_some {s : Store} {r p key : Nat} (h : hookOf s r = some (p, key)) :
    ∃ o, s[r]? = some o ∧ o.hook = some (p, key) := by
  unfold hookOf at h
  cases hr : s[r]? with
  | none => simp [hr] at h
  | some o => exact ⟨o, rfl, by simpa [hr] using h⟩

theorem hookOf_of_get {s : Store} {r : Nat} {o : VObj} (h : s[r]? = some o) : hookOf s r = o.hook := by
  simp [hookOf, h]

theorem Valid.hook_lt {s : Store} (hv : Valid s) {r p key : Nat} (h : hookOf s r = some (p, key)) :
    p < r := by
  obtain ⟨o, ho, hh⟩ := hookOf_eq_some h
  exact (hv r o ho p key hh).1

/-- the chain only depends on the hooks -/
theorem chainAux_congr {s1 s : Store} (h : ∀ q, hookOf s1 q = hookOf s q) (fuel r : Nat) :
    chainAux s1 fuel r = chainAux s fuel r := by
  induction fuel generalizing r with
  | zero => rfl
  | succ f ih =>
    simp only [chainAux, h r]
    cases hookOf s r with
    | none => rfl
    | some pk => simp [ih]

theorem mem_chainAux_self {s : Store} {fuel r : Nat} : r ∈ chainAux s (fuel + 1) r := by
  simp only [chainAux]
  cases hookOf s r with
  | none => simp
  | some pk => simp

theorem mem_chain_self (s : Store) (r : Nat) : r ∈ chain s r := mem_chainAux_self

/-- in a valid store the references on a chain decrease -/
theorem chainAux_le {s : Store} (hv : Valid s) (fuel r q : Nat) (h : q ∈ chainAux s fuel r) : q ≤ r := by
  induction fuel generalizing r with
  | zero => simp [chainAux] at h
  | succ f ih =>
    simp only [chainAux] at h
    cases hh : hookOf s r with
    | none => simp [hh] at h; omega
    | some pk =>
      obtain ⟨p, key⟩ := pk
      simp only [hh, List.mem_cons] at h
      rcases h with h | h
      · omega
      · have := ih p h
        have := hv.hook_lt hh
        omega

theorem chain_le {s : Store} (hv : Valid s) {r q : Nat} (h : q ∈ chain s r) : q ≤ r :=
  chainAux_le hv _ r q h

/-- in a valid store, fuel `r + 1` is enough: more fuel does not lengthen the chain, less fuel
    gives a part of it -/
theorem chainAux_subset {s : Store} (hv : Valid s) (fuel fuel' r : Nat) (hf : r < fuel') :
    ∀ q, q ∈ chainAux s fuel r → q ∈ chainAux s fuel' r := by
  induction fuel generalizing fuel' r with
  | zero => intro q h; simp [chainAux] at h
  | succ f ih =>
    intro q h
    obtain ⟨f', rfl⟩ : ∃ f', fuel' = f' + 1 := ⟨fuel' - 1, by omega⟩
    simp only [chainAux] at h ⊢
    cases hh : hookOf s r with
    | none => simpa [hh] using h
    | some pk =>
      obtain ⟨p, key⟩ := pk
      simp only [hh, List.mem_cons] at h ⊢
      rcases h with h | h
      · exact .inl h
      · have := hv.hook_lt hh
        exact .inr (ih f' p (by omega) q h)

theorem chainAux_subset_chain {s : Store} (hv : Valid s) (fuel r q : Nat) (h : q ∈ chainAux s fuel r) :
    q ∈ chain s r :=
  chainAux_subset hv fuel (r + 1) r (by omega) q h

/-- the parent named by the hook of a view on the chain is on the chain too (so the consecutive pairs
    of `chain s r` are exactly the pairs (view on the chain, parent named by its hook)) -/
theorem chain_parent_mem {s : Store} (hv : Valid s) {r c p key : Nat} (hc : c ∈ chain s r)
    (hh : hookOf s c = some (p, key)) : p ∈ chain s r := by
  have main : ∀ fuel r, r < fuel → c ∈ chainAux s fuel r → p ∈ chainAux s fuel r := by
    intro fuel
    induction fuel with
    | zero => intro r h; omega
    | succ f ih =>
      intro r hf hc
      simp only [chainAux] at hc ⊢
      cases hr : hookOf s r with
      | none =>
        simp [hr] at hc
        subst hc
        simp [hh] at hr
      | some pk =>
        obtain ⟨p', key'⟩ := pk
        have hlt := hv.hook_lt hr
        simp only [hr, List.mem_cons] at hc ⊢
        rcases hc with hc | hc
        · subst hc
          rw [hh] at hr
          simp at hr
          obtain ⟨rfl, _⟩ := hr
          obtain ⟨f', rfl⟩ : ∃ f', f = f' + 1 := ⟨f - 1, by omega⟩
          exact .inr mem_chainAux_self
        · exact .inr (ih p' (by omega) hc)
  exact main (r + 1) r (by omega) hc

/-- a view without hook is the top of every chain it is on -/
theorem chain_ge_of_root {s : Store} (hv : Valid s) {k d : Nat} (hk : hookOf s k = none)
    (hd : k ∈ chain s d) : ∀ q ∈ chain s d, k ≤ q := by
  have main : ∀ fuel d, k ∈ chainAux s fuel d → ∀ q ∈ chainAux s fuel d, k ≤ q := by
    intro fuel
    induction fuel with
    | zero => intro d h; simp [chainAux] at h
    | succ f ih =>
      intro d hd q hq
      simp only [chainAux] at hd hq
      cases hr : hookOf s d with
      | none =>
        simp [hr] at hd hq
        omega
      | some pk =>
        obtain ⟨p, key⟩ := pk
        simp only [hr, List.mem_cons] at hd hq
        have hkp : k ∈ chainAux s f p := by
          rcases hd with hd | hd
          · subst hd
            simp [hk] at hr
          · exact hd
        rcases hq with hq | hq
        · have := chainAux_le hv f p k hkp
          have := hv.hook_lt hr
          omega
        · exact ih p hkp q hq
  exact main _ d hd

/-! ### 3. the frame of `set_backing` -/

theorem getElem?_set_backing (s : Store) (r : Nat) (o : VObj) (n : Node) (h : s[r]? = some o) (q : Nat) :
    (s.set r { o with backing := n })[q]? = if q = r then some { o with backing := n } else s[q]? := by
  have hlt : r < s.length := by
    rcases Nat.lt_or_ge r s.length with h' | h'
    · exact h'
    · simp [List.getElem?_eq_none h'] at h
  by_cases hq : q = r
  · subst hq
    simp [hlt]
  · have : r ≠ q := fun e => hq e.symm
    simp [hq, List.getElem?_set_ne this]

theorem hookOf_set_backing (s : Store) (r : Nat) (o : VObj) (n : Node) (h : s[r]? = some o) (q : Nat) :
    hookOf (s.set r { o with backing := n }) q = hookOf s q := by
  unfold hookOf
  rw [getElem?_set_backing s r o n h q]
  by_cases hq : q = r
  · subst hq; simp [h]
  · simp [hq]

/-- same length and same hooks: validity carries over -/
theorem Valid.of_hooks {s s1 : Store} (hv : Valid s) (hl : s1.length = s.length)
    (hh : ∀ q, hookOf s1 q = hookOf s q) : Valid s1 := by
  intro r o ho p key hk
  have h1 : hookOf s1 r = some (p, key) := by rw [hookOf_of_get ho, hk]
  rw [hh r] at h1
  obtain ⟨o', ho', hk'⟩ := hookOf_eq_some h1
  have := hv r o' ho' p key hk'
  omega

/-- `set_backing` keeps the number of views, changes no view outside the hook chain it walks, and
    never changes a type or a hook (any fuel, any store). -/
theorem setBacking_frame_aux (H : Hash) (fuel : Nat) (s : Store) (r : Nat) (n : Node) (s' : Store)
    (h : setBacking H fuel s r n = some s') :
    s'.length = s.length ∧
    (∀ q : Nat, q ∉ chainAux s fuel r → s'[q]? = s[q]?) ∧
    (∀ q : Nat, (s'[q]?).map VObj.ty = (s[q]?).map VObj.ty) ∧
    (∀ q : Nat, (s'[q]?).map VObj.hook = (s[q]?).map VObj.hook) := by
  induction fuel generalizing s r n with
  | zero => simp [setBacking] at h
  | succ f ih =>
    simp only [setBacking] at h
    cases hr : s[r]? with
    | none => simp [hr] at h
    | some o =>
      simp only [hr] at h
      obtain ⟨oty, obk, ohook⟩ := o
      have hget := getElem?_set_backing s r _ n hr
      have hhook := hookOf_set_backing s r _ n hr
      simp only [] at hget hhook h
      have hty1 : ∀ q : Nat, ((s.set r ⟨oty, n, ohook⟩)[q]?).map VObj.ty = (s[q]?).map VObj.ty := by
        intro q; rw [hget q]; by_cases hq : q = r
        · subst hq; simp [hr]
        · simp [hq]
      have hhk1 : ∀ q : Nat, ((s.set r ⟨oty, n, ohook⟩)[q]?).map VObj.hook = (s[q]?).map VObj.hook := by
        intro q; rw [hget q]; by_cases hq : q = r
        · subst hq; simp [hr]
        · simp [hq]
      cases ohook with
      | none =>
        simp only [] at h
        cases h
        refine ⟨by simp, ?_, hty1, hhk1⟩
        intro q hq
        have : hookOf s r = none := by rw [hookOf_of_get hr]
        simp only [chainAux, this, List.mem_singleton] at hq
        rw [hget q, if_neg hq]
      | some pk =>
        obtain ⟨p, key⟩ := pk
        simp only [] at h
        cases hp : (s.set r ⟨oty, n, some (p, key)⟩)[p]? with
        | none => simp [hp] at h
        | some po =>
          simp only [hp] at h
          cases hsc : setChildNode H po.ty po.backing key n with
          | none => simp [hsc] at h
          | some pn =>
            simp only [hsc] at h
            obtain ⟨hl, hfr, hty, hhk⟩ := ih _ p pn h
            refine ⟨by rw [hl]; simp, ?_, fun q => (hty q).trans (hty1 q), fun q => (hhk q).trans (hhk1 q)⟩
            intro q hq
            have : hookOf s r = some (p, key) := by rw [hookOf_of_get hr]
            simp only [chainAux, this, List.mem_cons, not_or] at hq
            rw [hfr q (by rw [chainAux_congr hhook]; exact hq.2), hget q, if_neg hq.1]

theorem hookOf_of_map {s s' : Store} (h : ∀ q : Nat, (s'[q]?).map VObj.hook = (s[q]?).map VObj.hook) (q : Nat) :
    hookOf s' q = hookOf s q := by
  have := h q
  unfold hookOf
  cases h1 : s'[q]? <;> cases h2 : s[q]? <;> simp_all

/-- 3. `set_backing` in a valid store: the views not on `chain s r` are unchanged; number of views,
    types and hooks are unchanged. -/
theorem setBacking_frame (H : Hash) (fuel : Nat) (s : Store) (r : Nat) (n : Node) (s' : Store)
    (hv : Valid s) (h : setBacking H fuel s r n = some s') :
    s'.length = s.length ∧
    (∀ q : Nat, q ∉ chain s r → s'[q]? = s[q]?) ∧
    (∀ q : Nat, (s'[q]?).map VObj.ty = (s[q]?).map VObj.ty) ∧
    (∀ q : Nat, (s'[q]?).map VObj.hook = (s[q]?).map VObj.hook) := by
  obtain ⟨hl, hfr, hty, hhk⟩ := setBacking_frame_aux H fuel s r n s' h
  exact ⟨hl, fun q hq => hfr q (fun hc => hq (chainAux_subset_chain hv fuel r q hc)), hty, hhk⟩

/-- the same with the fuel `r + 1` that `step` uses; no validity needed -/
theorem setBacking_frame' (H : Hash) (s : Store) (r : Nat) (n : Node) (s' : Store)
    (h : setBacking H (r + 1) s r n = some s') :
    s'.length = s.length ∧
    (∀ q : Nat, q ∉ chain s r → s'[q]? = s[q]?) ∧
    (∀ q : Nat, (s'[q]?).map VObj.ty = (s[q]?).map VObj.ty) ∧
    (∀ q : Nat, (s'[q]?).map VObj.hook = (s[q]?).map VObj.hook) :=
  setBacking_frame_aux H (r + 1) s r n s' h

theorem setBacking_valid (H : Hash) (fuel : Nat) (s : Store) (r : Nat) (n : Node) (s' : Store)
    (hv : Valid s) (h : setBacking H fuel s r n = some s') : Valid s' := by
  obtain ⟨hl, _, _, hhk⟩ := setBacking_frame_aux H fuel s r n s' h
  exact hv.of_hooks hl (hookOf_of_map hhk)

/-! ### 4. propagation (C05) -/

/-- what one unfolding of `setBacking` does -/
theorem setBacking_succ_some {H : Hash} {fuel : Nat} {s : Store} {r : Nat} {n : Node} {s' : Store}
    (h : setBacking H (fuel + 1) s r n = some s') :
    ∃ o, s[r]? = some o ∧
      ((o.hook = none ∧ s' = s.set r { o with backing := n }) ∨
       (∃ p key po pn, o.hook = some (p, key) ∧ (s.set r { o with backing := n })[p]? = some po ∧
          setChildNode H po.ty po.backing key n = some pn ∧
          setBacking H fuel (s.set r { o with backing := n }) p pn = some s')) := by
  simp only [setBacking] at h
  cases hr : s[r]? with
  | none => simp [hr] at h
  | some o =>
    refine ⟨o, rfl, ?_⟩
    simp only [hr] at h
    obtain ⟨oty, obk, ohook⟩ := o
    cases ohook with
    | none =>
      simp only [] at h
      exact .inl ⟨rfl, by cases h; rfl⟩
    | some pk =>
      obtain ⟨p, key⟩ := pk
      simp only [] at h
      cases hp : (s.set r ⟨oty, n, some (p, key)⟩)[p]? with
      | none => simp [hp] at h
      | some po =>
        simp only [hp] at h
        cases hsc : setChildNode H po.ty po.backing key n with
        | none => simp [hsc] at h
        | some pn =>
          simp only [hsc] at h
          exact .inr ⟨p, key, po, pn, rfl, hp, hsc, h⟩

/-- the propagation invariant of `set_backing`, for any fuel -/
theorem setBacking_propagates_aux (H : Hash) (fuel : Nat) (s : Store) (r : Nat) (n : Node) (s' : Store)
    (hv : Valid s) (h : setBacking H fuel s r n = some s') :
    (∃ o, s[r]? = some o ∧ s'[r]? = some { o with backing := n }) ∧
    (∀ c ∈ chainAux s fuel r, ∀ (oc : VObj) (p key : Nat) (po : VObj) (x : Node),
      s[c]? = some oc → oc.hook = some (p, key) → s[p]? = some po → KeyOk po.ty key →
      childOf H po.ty po.backing key = some (oc.ty, x) →
      ∃ oc' po', s'[c]? = some oc' ∧ s'[p]? = some po' ∧ oc'.ty = oc.ty ∧ po'.ty = po.ty ∧
        childOf H po'.ty po'.backing key = some (oc'.ty, oc'.backing)) := by
  induction fuel generalizing s r n with
  | zero => simp [setBacking] at h
  | succ f ih =>
    obtain ⟨o, hr, hcase⟩ := setBacking_succ_some h
    have hget := getElem?_set_backing s r o n hr
    have hhook := hookOf_set_backing s r o n hr
    rcases hcase with ⟨hk, rfl⟩ | ⟨p0, key0, po0, pn, hk, hp0, hsc, hrec⟩
    · refine ⟨⟨o, hr, by rw [hget r]; simp⟩, ?_⟩
      intro c hc oc p key po x hoc hoch
      have : hookOf s r = none := by rw [hookOf_of_get hr, hk]
      simp only [chainAux, this, List.mem_singleton] at hc
      subst hc
      rw [hr] at hoc
      cases hoc
      rw [hk] at hoch
      cases hoch
    · have hhr : hookOf s r = some (p0, key0) := by rw [hookOf_of_get hr, hk]
      have hlt0 : p0 < r := hv.hook_lt hhr
      have hv1 : Valid (s.set r { o with backing := n }) := hv.of_hooks (by simp) hhook
      rw [hget p0, if_neg (by omega)] at hp0
      obtain ⟨⟨o', ho', hs'p0⟩, hchain⟩ := ih _ p0 pn hv1 hrec
      rw [hget p0, if_neg (by omega), hp0] at ho'
      cases ho'
      obtain ⟨_, hfr, _, _⟩ := setBacking_frame_aux H f _ p0 pn s' hrec
      have hs'r : s'[r]? = some { o with backing := n } := by
        rw [hfr r, hget r, if_pos rfl]
        intro hmem
        have := chainAux_le hv1 f p0 r hmem
        omega
      refine ⟨⟨o, hr, hs'r⟩, ?_⟩
      intro c hc oc p key po x hoc hoch hpo hkey hchild
      simp only [chainAux, hhr, List.mem_cons] at hc
      rcases hc with hc | hc
      · subst hc
        rw [hr] at hoc
        cases hoc
        rw [hk] at hoch
        cases hoch
        rw [hp0] at hpo
        cases hpo
        refine ⟨_, _, hs'r, hs'p0, rfl, rfl, ?_⟩
        have h1 := childOf_setChildNode H po0.ty po0.backing pn key0 n hkey hsc (by simp [hchild])
        simpa [hchild] using h1
      · rw [← chainAux_congr hhook] at hc
        have hcle := chainAux_le hv1 f p0 c hc
        have hplt : p < c := (hv c oc hoc p key hoch).1
        apply hchain c hc oc p key po x
        · rw [hget c, if_neg (by omega)]; exact hoc
        · exact hoch
        · rw [hget p, if_neg (by omega)]; exact hpo
        · exact hkey
        · exact hchild

/-- 4. THE propagation theorem (C05).  After `set_backing(n)` on view `r` of a valid store, view `r`
    holds `n`, and for every view `c` on the hook chain of `r` with hook `(p, key)` — i.e. every
    consecutive pair `(c, p)` of `chain s r`, see `chain_parent_mem` — the enclosing view `p` now has,
    at `key`, exactly the (updated) backing of `c`, provided `c` was the child of `p` at `key` before
    (with the type of `c`) and the key is below the limit when `p` is a list (`KeyOk`). -/
theorem setBacking_propagates (H : Hash) (s : Store) (r : Nat) (n : Node) (s' : Store)
    (hv : Valid s) (h : setBacking H (r + 1) s r n = some s') :
    (∃ o, s[r]? = some o ∧ s'[r]? = some { o with backing := n }) ∧
    (∀ c ∈ chain s r, ∀ (oc : VObj) (p key : Nat) (po : VObj) (x : Node),
      s[c]? = some oc → oc.hook = some (p, key) → s[p]? = some po → KeyOk po.ty key →
      childOf H po.ty po.backing key = some (oc.ty, x) →
      ∃ oc' po', s'[c]? = some oc' ∧ s'[p]? = some po' ∧ oc'.ty = oc.ty ∧ po'.ty = po.ty ∧
        childOf H po'.ty po'.backing key = some (oc'.ty, oc'.backing)) :=
  setBacking_propagates_aux H (r + 1) s r n s' hv h

/-- C05 for a mutation through a held view: the new content is reflected all the way up. -/
theorem mutate_propagates (H : Hash) (s : Store) (r : Nat) (op : Op) (s' : Store)
    (hv : Valid s) (h : step H s (.mutate r op) = some s') :
    (∃ o n, s[r]? = some o ∧ apply H o.ty o.backing op = some n ∧ s'[r]? = some { o with backing := n }) ∧
    (∀ c ∈ chain s r, ∀ (oc : VObj) (p key : Nat) (po : VObj) (x : Node),
      s[c]? = some oc → oc.hook = some (p, key) → s[p]? = some po → KeyOk po.ty key →
      childOf H po.ty po.backing key = some (oc.ty, x) →
      ∃ oc' po', s'[c]? = some oc' ∧ s'[p]? = some po' ∧ oc'.ty = oc.ty ∧ po'.ty = po.ty ∧
        childOf H po'.ty po'.backing key = some (oc'.ty, oc'.backing)) := by
  simp only [step] at h
  cases hr : s[r]? with
  | none => simp [hr] at h
  | some o =>
    simp only [hr] at h
    cases ha : apply H o.ty o.backing op with
    | none => simp [ha] at h
    | some n =>
      simp only [ha] at h
      obtain ⟨⟨o', ho', hs'⟩, hch⟩ := setBacking_propagates H s r n s' hv h
      rw [hr] at ho'
      cases ho'
      exact ⟨⟨o, n, rfl, ha, hs'⟩, hch⟩

/-! ### 6. failed operations (C14) -/

/-- a mutation that went through means the view operation itself did not raise -/
theorem step_mutate_some (H : Hash) (s : Store) (r : Nat) (op : Op) (s' : Store)
    (h : step H s (.mutate r op) = some s') :
    ∃ o, s[r]? = some o ∧ apply H o.ty o.backing op ≠ none := by
  simp only [step] at h
  cases hr : s[r]? with
  | none => simp [hr] at h
  | some o =>
    refine ⟨o, rfl, ?_⟩
    intro ha
    simp [hr, ha] at h

/-- if the view operation raises, so does the step: the caller keeps the old store, no partial
    update is observable -/
theorem step_mutate_apply_none (H : Hash) (s : Store) (r : Nat) (op : Op) (o : VObj)
    (hr : s[r]? = some o) (ha : apply H o.ty o.backing op = none) :
    step H s (.mutate r op) = none := by
  simp [step, hr, ha]

/-- `step` raises exactly when the reference is dangling, the mutation raises, or a hook on the way
    up raises -/
theorem step_mutate_eq_none_iff (H : Hash) (s : Store) (r : Nat) (op : Op) :
    step H s (.mutate r op) = none ↔
      s[r]? = none ∨ ∃ o, s[r]? = some o ∧
        (apply H o.ty o.backing op = none ∨
         ∃ n, apply H o.ty o.backing op = some n ∧ setBacking H (r + 1) s r n = none) := by
  simp only [step]
  cases hr : s[r]? with
  | none => simp
  | some o =>
    cases ha : apply H o.ty o.backing op with
    | none => simp [ha]
    | some n => simp [ha]

/-- a successful mutation is all-or-nothing also for the hooks: every view keeps its type and hook,
    the number of views is unchanged -/
theorem step_mutate_shape (H : Hash) (s : Store) (r : Nat) (op : Op) (s' : Store)
    (h : step H s (.mutate r op) = some s') :
    s'.length = s.length ∧
    (∀ q : Nat, q ∉ chain s r → s'[q]? = s[q]?) ∧
    (∀ q : Nat, (s'[q]?).map VObj.ty = (s[q]?).map VObj.ty) ∧
    (∀ q : Nat, (s'[q]?).map VObj.hook = (s[q]?).map VObj.hook) := by
  simp only [step] at h
  cases hr : s[r]? with
  | none => simp [hr] at h
  | some o =>
    simp only [hr] at h
    cases ha : apply H o.ty o.backing op with
    | none => simp [ha] at h
    | some n =>
      simp only [ha] at h
      exact setBacking_frame' H s r n s' h

/-! ### 7. validity is preserved -/

theorem step_valid (H : Hash) (s : Store) (op : SOp) (s' : Store)
    (hv : Valid s) (h : step H s op = some s') : Valid s' := by
  cases op with
  | child r key =>
    simp only [step] at h
    cases hr : s[r]? with
    | none => simp [hr] at h
    | some o =>
      simp only [hr] at h
      cases hc : childOf H o.ty o.backing key with
      | none => simp [hc] at h
      | some cn =>
        simp only [hc, Option.map_some, Option.some.injEq] at h
        subst h
        have hlt : r < s.length := by
          rcases Nat.lt_or_ge r s.length with h' | h'
          · exact h'
          · simp [List.getElem?_eq_none h'] at hr
        intro q oq hq p k hk
        rcases Nat.lt_or_ge q s.length with hql | hql
        · rw [List.getElem?_append_left hql] at hq
          have := hv q oq hq p k hk
          simp; omega
        · rw [List.getElem?_append_right hql] at hq
          cases hqq : q - s.length with
          | zero =>
            simp [hqq] at hq
            subst hq
            simp at hk
            simp; omega
          | succ m => simp [hqq] at hq
  | mutate r op =>
    obtain ⟨hl, _, _, hhk⟩ := step_mutate_shape H s r op s' h
    exact hv.of_hooks hl (hookOf_of_map hhk)
  | copy r =>
    simp only [step] at h
    cases hr : s[r]? with
    | none => simp [hr] at h
    | some o =>
      simp only [hr, Option.some.injEq] at h
      subst h
      intro q oq hq p k hk
      rcases Nat.lt_or_ge q s.length with hql | hql
      · rw [List.getElem?_append_left hql] at hq
        have := hv q oq hq p k hk
        simp; omega
      · rw [List.getElem?_append_right hql] at hq
        cases hqq : q - s.length with
        | zero =>
          simp [hqq] at hq
          subst hq
          simp at hk
        | succ m => simp [hqq] at hq

/-! ### 5. copies (C06) -/

theorem getElem?_lt_length {s : Store} {r : Nat} {o : VObj} (h : s[r]? = some o) : r < s.length := by
  rcases Nat.lt_or_ge r s.length with h' | h'
  · exact h'
  · simp [List.getElem?_eq_none h'] at h

/-- `copy` appends one view: same type, same backing, NO hook -/
theorem step_copy_eq (H : Hash) (s : Store) (r : Nat) (s1 : Store) (h : step H s (.copy r) = some s1) :
    ∃ o, s[r]? = some o ∧ s1 = s ++ [⟨o.ty, o.backing, none⟩] := by
  simp only [step] at h
  cases hr : s[r]? with
  | none => simp [hr] at h
  | some o =>
    simp only [hr, Option.some.injEq] at h
    exact ⟨o, rfl, h.symm⟩

/-- `child` appends one view hooked to `r` -/
theorem step_child_eq (H : Hash) (s : Store) (r key : Nat) (s1 : Store)
    (h : step H s (.child r key) = some s1) :
    ∃ o ct cn, s[r]? = some o ∧ childOf H o.ty o.backing key = some (ct, cn) ∧
      s1 = s ++ [⟨ct, cn, some (r, key)⟩] := by
  simp only [step] at h
  cases hr : s[r]? with
  | none => simp [hr] at h
  | some o =>
    simp only [hr] at h
    cases hc : childOf H o.ty o.backing key with
    | none => simp [hc] at h
    | some cn =>
      obtain ⟨ct, cn⟩ := cn
      simp only [hc, Option.map_some, Option.some.injEq] at h
      exact ⟨o, ct, cn, rfl, hc, h.symm⟩

/-- a mutation through view `r` changes no view outside the hook chain of `r` -/
theorem mutate_frame (H : Hash) (s : Store) (r : Nat) (op : Op) (s' : Store)
    (h : step H s (.mutate r op) = some s') (q : Nat) (hq : q ∉ chain s r) : s'[q]? = s[q]? :=
  (step_mutate_shape H s r op s' h).2.1 q hq

/-- 5. (C06) The view made by `copy` has the type and backing of the original and no hook.
    A mutation through the copy changes only the copy; a mutation through any other view (the
    original included) never changes the copy. -/
theorem copy_independent (H : Hash) (s : Store) (r : Nat) (s1 : Store)
    (hv : Valid s) (h : step H s (.copy r) = some s1) :
    ∃ o, s[r]? = some o ∧ s1.length = s.length + 1 ∧
      s1[s.length]? = some ⟨o.ty, o.backing, none⟩ ∧
      (∀ q : Nat, q < s.length → s1[q]? = s[q]?) ∧
      (∀ op s2, step H s1 (.mutate s.length op) = some s2 →
        ∀ q : Nat, q ≠ s.length → s2[q]? = s1[q]?) ∧
      (∀ q op s2, q ≠ s.length → step H s1 (.mutate q op) = some s2 →
        s2[s.length]? = s1[s.length]?) := by
  have hv1 := step_valid H s _ s1 hv h
  obtain ⟨o, hr, rfl⟩ := step_copy_eq H s r s1 h
  have hk : (s ++ [(⟨o.ty, o.backing, none⟩ : VObj)])[s.length]? = some ⟨o.ty, o.backing, none⟩ := by
    simp
  refine ⟨o, hr, by simp, hk, fun q hq => List.getElem?_append_left hq, ?_, ?_⟩
  · intro op s2 h2 q hq
    apply mutate_frame H _ _ op s2 h2 q
    have : hookOf (s ++ [(⟨o.ty, o.backing, none⟩ : VObj)]) s.length = none := by
      rw [hookOf_of_get hk]
    simp only [chain, chainAux, this, List.mem_singleton]
    exact hq
  · intro q op s2 hq h2
    apply mutate_frame H _ _ op s2 h2
    intro hmem
    obtain ⟨oq, hoq, _⟩ := step_mutate_some H _ q op s2 h2
    have hlt := getElem?_lt_length hoq
    have hle := chain_le hv1 hmem
    simp at hlt
    omega

/-! #### several later operations -/

/-- the view an operation goes through -/
def opRef : SOp → Nat
  | .child r _ => r
  | .mutate r _ => r
  | .copy r => r

/-- a sequence of store operations -/
def run (H : Hash) : Store → List SOp → Option Store
  | s, [] => some s
  | s, op :: ops => (step H s op).bind fun s' => run H s' ops

/-- no operation of the sequence goes through `k` or a view obtained (transitively) from `k` -/
def Avoids (H : Hash) (k : Nat) : Store → List SOp → Prop
  | _, [] => True
  | s, op :: ops => k ∉ chain s (opRef op) ∧ ∀ s', step H s op = some s' → Avoids H k s' ops

/-- every operation of the sequence goes through `k` or a view obtained (transitively) from `k` -/
def Within (H : Hash) (k : Nat) : Store → List SOp → Prop
  | _, [] => True
  | s, op :: ops => k ∈ chain s (opRef op) ∧ ∀ s', step H s op = some s' → Within H k s' ops

/-- operations only append views or rewrite backings on the chain of the view they go through -/
theorem step_frame (H : Hash) (s : Store) (op : SOp) (s' : Store) (h : step H s op = some s') :
    s.length ≤ s'.length ∧
    (∀ q : Nat, q < s.length → hookOf s' q = hookOf s q) ∧
    (∀ q : Nat, q < s.length → q ∉ chain s (opRef op) → s'[q]? = s[q]?) := by
  cases op with
  | child r key =>
    obtain ⟨o, ct, cn, _, _, rfl⟩ := step_child_eq H s r key s' h
    refine ⟨by simp, ?_, ?_⟩
    · intro q hq; simp [hookOf, List.getElem?_append_left hq]
    · intro q hq _; exact List.getElem?_append_left hq
  | mutate r op =>
    obtain ⟨hl, hfr, _, hhk⟩ := step_mutate_shape H s r op s' h
    exact ⟨by omega, fun q _ => hookOf_of_map hhk q, fun q _ hq => hfr q hq⟩
  | copy r =>
    obtain ⟨o, _, rfl⟩ := step_copy_eq H s r s' h
    refine ⟨by simp, ?_, ?_⟩
    · intro q hq; simp [hookOf, List.getElem?_append_left hq]
    · intro q hq _; exact List.getElem?_append_left hq

/-- a view is never changed by operations that do not go through it or its descendants -/
theorem run_avoids_unchanged (H : Hash) (k : Nat) (ops : List SOp) (s s2 : Store)
    (hv : Valid s) (hk : k < s.length) (ha : Avoids H k s ops) (h : run H s ops = some s2) :
    s2[k]? = s[k]? := by
  induction ops generalizing s with
  | nil => simp [run] at h; subst h; rfl
  | cons op ops ih =>
    simp only [run] at h
    cases hs : step H s op with
    | none => simp [hs] at h
    | some s' =>
      simp only [hs, Option.bind_some] at h
      obtain ⟨hl, _, hfr⟩ := step_frame H s op s' hs
      rw [ih s' (step_valid H s op s' hv hs) (by omega) (ha.2 s' hs) h]
      exact hfr k hk ha.1

/-- operations through a hook-less view `k` (e.g. a copy) and its descendants never change a view
    with a smaller reference (in particular: any view that existed when the copy was made) -/
theorem run_within_unchanged (H : Hash) (k : Nat) (ops : List SOp) (s s2 : Store)
    (hv : Valid s) (hk : k < s.length) (hroot : hookOf s k = none)
    (hw : Within H k s ops) (h : run H s ops = some s2) :
    ∀ q : Nat, q < k → s2[q]? = s[q]? := by
  induction ops generalizing s with
  | nil => simp [run] at h; subst h; intro q _; rfl
  | cons op ops ih =>
    simp only [run] at h
    cases hs : step H s op with
    | none => simp [hs] at h
    | some s' =>
      simp only [hs, Option.bind_some] at h
      obtain ⟨hl, hhk, hfr⟩ := step_frame H s op s' hs
      intro q hq
      rw [ih s' (step_valid H s op s' hv hs) (by omega) (by rw [hhk k hk]; exact hroot)
        (hw.2 s' hs) h q hq]
      apply hfr q (by omega)
      intro hmem
      have := chain_ge_of_root hv hroot hw.1 q hmem
      omega

/-- 5'. (C06, several operations) After `copy`, any sequence of later operations that do not go
    through the copy (or views obtained from it) leaves the copy as it is, and any sequence of later
    operations through the copy (and views obtained from it) leaves every view that existed before —
    the original included — as it is. -/
theorem copy_independent_run (H : Hash) (s : Store) (r : Nat) (s1 : Store)
    (hv : Valid s) (h : step H s (.copy r) = some s1) (ops : List SOp) (s2 : Store)
    (h2 : run H s1 ops = some s2) :
    (Avoids H s.length s1 ops → s2[s.length]? = s1[s.length]?) ∧
    (Within H s.length s1 ops → ∀ q : Nat, q < s.length → s2[q]? = s[q]?) := by
  have hv1 := step_valid H s _ s1 hv h
  obtain ⟨o, _, hl, hk, hold, _, _⟩ := copy_independent H s r s1 hv h
  refine ⟨fun ha => run_avoids_unchanged H s.length ops s1 s2 hv1 (by omega) ha h2, ?_⟩
  intro hw q hq
  rw [run_within_unchanged H s.length ops s1 s2 hv1 (by omega) (by rw [hookOf_of_get hk]) hw h2 q hq]
  exact hold q hq

/-! ### non-vacuity: a container holding a list, a held view of the list, an append through it -/

section Example

/-- a toy pair hash (the theorems above hold for every `H`) -/
def toyH : Hash := fun a b => a ++ b

/-- `Container(xs: List[uint8, 64], y: uint8)` -/
def exTy : Ty := .container [.list (.uint 1) 64, .uint 1]

/-- build the container `(xs = [1], y = 7)`, obtain the view of field `xs`, append `2` through it,
    then read the whole container back through the parent view -/
def exRun : Option (Val × Val × Bool) := do
  let b ← construct toyH exTy (.seq [.seq [.num 1], .num 7])
  let s0 : Store := [⟨exTy, b, none⟩]
  let s1 ← step toyH s0 (.child 0 0)
  let s2 ← step toyH s1 (.mutate 1 (.append (.num 2)))
  let parent ← s2[0]?
  let child ← s2[1]?
  let pv ← readVal toyH exTy parent.backing
  let cv ← readVal toyH child.ty child.backing
  let b' ← construct toyH exTy (.seq [.seq [.num 1, .num 2], .num 7])
  pure (pv, cv, parent.backing.root toyH == b'.root toyH && parent.backing.root toyH != b.root toyH)

example : (exRun == some (.seq [.seq [.num 1, .num 2], .num 7], .seq [.num 1, .num 2], true)) = true := by
  decide

end Example

end Rmk.StoreLaws
