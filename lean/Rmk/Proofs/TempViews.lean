/-
Mutations through TEMPORARY views (`view.a.b.<op>`, `Path.navigate_view`): the driver runs the child / child / mutate
steps of the (guarded) store model and then drops the views those steps created. Views never refer to later views
(`Valid`), so the remaining store is valid, and its views are exactly those the full run left at these positions.
-/
import Rmk.Proofs.StoreGuardLaws
namespace Rmk.TempViews
open Rmk Rmk.Impl Rmk.StoreLaws

/-- dropping the newest views of a valid store leaves a valid store -/
theorem take_valid (s : Store) (k : Nat) (hv : Valid s) : Valid (s.take k) := by
  intro r o hr p key hk
  have hr' : r < k ∧ s[r]? = some o := by
    rw [List.getElem?_take] at hr
    split at hr
    · exact ⟨by assumption, hr⟩
    · simp at hr
  obtain ⟨h1, _⟩ := hv r o hr'.2 p key hk
  have hrl : r < s.length := by
    have := hr'.2
    exact (List.getElem?_eq_some_iff.mp this).1
  refine ⟨h1, ?_⟩
  rw [List.length_take]
  omega

/-- the views that are kept are the ones the full run left at these positions -/
theorem take_get (s : Store) (k r : Nat) (h : r < k) : (s.take k)[r]? = s[r]? := by
  rw [List.getElem?_take]; simp [h]

end Rmk.TempViews
