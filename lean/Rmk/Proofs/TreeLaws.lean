/-
Helper lemmas about the pure tree layer (getPath / setPath / expandSet / summaries).
-/
import Rmk.Model.Tree
namespace Rmk
open Node

/-! ### getPath -/

@[simp] theorem getPath_nil (n : Node) : getPath n [] = some n := by
  cases n <;> rfl

@[simp] theorem getPath_leaf_cons (c : Chunk) (b : Bool) (bs : List Bool) :
    getPath (.leaf c) (b :: bs) = none := rfl

@[simp] theorem getPath_pair_cons (l r : Node) (b : Bool) (bs : List Bool) :
    getPath (.pair l r) (b :: bs) = if b then getPath r bs else getPath l bs := rfl

theorem getPath_append (n : Node) (p q : List Bool) :
    getPath n (p ++ q) = (getPath n p).bind (fun m => getPath m q) := by
  induction p generalizing n with
  | nil => simp
  | cons b bs ih =>
    cases n with
    | leaf c => simp
    | pair l r => cases b <;> simp [ih]

/-! ### setPath -/

@[simp] theorem setPath_nil (H : Hash) (e : Bool) (n v : Node) : setPath H e n [] v = some v := by
  cases n <;> rfl

@[simp] theorem setPath_pair_cons (H : Hash) (e : Bool) (l r v : Node) (b : Bool) (bs : List Bool) :
    setPath H e (.pair l r) (b :: bs) v =
      if b then (setPath H e r bs v).map (fun r' => .pair l r')
      else (setPath H e l bs v).map (fun l' => .pair l' r) := rfl

@[simp] theorem setPath_leaf_cons (H : Hash) (e : Bool) (c : Chunk) (v : Node) (b : Bool) (bs : List Bool) :
    setPath H e (.leaf c) (b :: bs) v =
      if e && c == zeroHash H (bs.length + 1) then some (expandSet H (b :: bs) v) else none := rfl

theorem getPath_expandSet (H : Hash) (p : List Bool) (v : Node) :
    getPath (expandSet H p v) p = some v := by
  induction p with
  | nil => simp [expandSet]
  | cons b bs ih => cases b <;> simp [expandSet, ih]

/-- get-after-set at the same position: the result holds the very node written. -/
theorem getPath_setPath_same (H : Hash) (e : Bool) (n : Node) (p : List Bool) (v n' : Node)
    (h : setPath H e n p v = some n') : getPath n' p = some v := by
  induction p generalizing n n' with
  | nil => simp at h; subst h; simp
  | cons b bs ih =>
    cases n with
    | leaf c =>
      simp at h
      obtain ⟨_, rfl⟩ := h
      exact getPath_expandSet H (b :: bs) v
    | pair l r =>
      cases b with
      | true =>
        simp at h
        obtain ⟨r', hr, rfl⟩ := h
        simpa using ih r r' hr
      | false =>
        simp at h
        obtain ⟨l', hl, rfl⟩ := h
        simpa using ih l l' hl

/-- two paths diverge: neither is a prefix of the other -/
def diverge : List Bool → List Bool → Bool
  | a :: p, b :: q => if a == b then diverge p q else true
  | _, _ => false

/-- get-after-set at a diverging position (no expansion): unchanged. -/
theorem getPath_setPath_diverge (H : Hash) (n : Node) (p q : List Bool) (v n' : Node)
    (h : setPath H false n p v = some n') (hd : diverge p q = true) :
    getPath n' q = getPath n q := by
  induction p generalizing n n' q with
  | nil => cases q <;> simp [diverge] at hd
  | cons b bs ih =>
    cases q with
    | nil => simp [diverge] at hd
    | cons c cs =>
      cases n with
      | leaf x => simp at h
      | pair l r =>
        cases b <;> cases c <;> simp [diverge] at hd <;> simp at h
        · obtain ⟨l', hl, rfl⟩ := h
          simpa using ih l cs l' hl hd
        · obtain ⟨l', hl, rfl⟩ := h
          simp
        · obtain ⟨r', hr, rfl⟩ := h
          simp
        · obtain ⟨r', hr, rfl⟩ := h
          simpa using ih r cs r' hr hd

/-- get-after-set below the written position: navigation continues inside the written node. -/
theorem getPath_setPath_below (H : Hash) (e : Bool) (n : Node) (p r : List Bool) (v n' : Node)
    (h : setPath H e n p v = some n') : getPath n' (p ++ r) = getPath v r := by
  rw [getPath_append, getPath_setPath_same H e n p v n' h]; rfl

/-- get-after-set above the written position: the old subtree with the write applied inside it. -/
theorem getPath_setPath_above (H : Hash) (n : Node) (q r : List Bool) (v n' : Node)
    (h : setPath H false n (q ++ r) v = some n') :
    getPath n' q = (getPath n q).bind (fun m => setPath H false m r v) := by
  induction q generalizing n n' with
  | nil => simp at h ⊢; exact h.symm
  | cons b bs ih =>
    cases n with
    | leaf x => simp at h
    | pair l rr =>
      cases b <;> simp at h
      · obtain ⟨l', hl, rfl⟩ := h
        simpa using ih l l' hl
      · obtain ⟨r', hr, rfl⟩ := h
        simpa using ih rr r' hr

/-- without expansion a write succeeds exactly when the read does -/
theorem setPath_isSome_iff (H : Hash) (n : Node) (p : List Bool) (v : Node) :
    (setPath H false n p v).isSome = (getPath n p).isSome := by
  induction p generalizing n with
  | nil => simp
  | cons b bs ih =>
    cases n with
    | leaf c => simp
    | pair l r => cases b <;> simp [ih]

/-- when the position exists, expansion makes no difference -/
theorem setPath_expand_of_get (H : Hash) (n : Node) (p : List Bool) (v m : Node)
    (hg : getPath n p = some m) : setPath H true n p v = setPath H false n p v := by
  induction p generalizing n with
  | nil => simp
  | cons b bs ih =>
    cases n with
    | leaf c => simp at hg
    | pair l r => cases b <;> simp at hg <;> simp [ih _ hg]

/-- root of `n` with the root at position `p` replaced by `c`, computed from sibling roots only -/
def rootWith (H : Hash) : Node → List Bool → Chunk → Chunk
  | _, [], c => c
  | .pair l r, b :: bs, c =>
    if b then H (l.root H) (rootWith H r bs c) else H (rootWith H l bs c) (r.root H)
  | .leaf x, _ :: _, _ => x

/-- the root after a write is the from-scratch recomputation along the path -/
theorem setPath_root (H : Hash) (n : Node) (p : List Bool) (v n' : Node)
    (h : setPath H false n p v = some n') : n'.root H = rootWith H n p (v.root H) := by
  induction p generalizing n n' with
  | nil => simp at h; subst h; cases n <;> rfl
  | cons b bs ih =>
    cases n with
    | leaf x => simp at h
    | pair l r =>
      cases b <;> simp at h
      · obtain ⟨l', hl, rfl⟩ := h
        simp [rootWith, Node.root, ih l l' hl]
      · obtain ⟨r', hr, rfl⟩ := h
        simp [rootWith, Node.root, ih r r' hr]

/-- writing back a node with the root that is already there does not change the root -/
theorem rootWith_self (H : Hash) (n : Node) (p : List Bool) (m : Node)
    (hg : getPath n p = some m) : rootWith H n p (m.root H) = n.root H := by
  induction p generalizing n with
  | nil => simp at hg; subst hg; cases n <;> rfl
  | cons b bs ih =>
    cases n with
    | leaf x => simp at hg
    | pair l r => cases b <;> simp at hg <;> simp [rootWith, Node.root, ih _ hg]

/-! ### expansion of zero summaries -/

/-- `m` is `n` with some zero-subtree summaries materialised (one or more levels) -/
inductive Expands (H : Hash) : Node → Node → Prop
  | refl (n : Node) : Expands H n n
  | zero (d : Nat) (a b : Node) : Expands H (zeroNode H d) a → Expands H (zeroNode H d) b →
      Expands H (zeroNode H (d + 1)) (.pair a b)
  | pair (l r l' r' : Node) : Expands H l l' → Expands H r r' → Expands H (.pair l r) (.pair l' r')

theorem Expands.root_eq {H : Hash} {n m : Node} (h : Expands H n m) : m.root H = n.root H := by
  induction h with
  | refl n => rfl
  | zero d a b _ _ iha ihb => simp [Node.root, iha, ihb, zeroNode, zeroHash]
  | pair l r l' r' _ _ ihl ihr => simp [Node.root, ihl, ihr]

theorem expands_expandSet (H : Hash) (p : List Bool) :
    Expands H (zeroNode H p.length) (expandSet H p (zeroNode H 0)) := by
  induction p with
  | nil => exact .refl _
  | cons b bs ih =>
    cases b
    · simp only [expandSet, List.length_cons]
      exact .zero _ _ _ ih (.refl _)
    · simp only [expandSet, List.length_cons]
      exact .zero _ _ _ (.refl _) ih

theorem setPath_expandSet (H : Hash) (e : Bool) (p : List Bool) (x v : Node) :
    setPath H e (expandSet H p x) p v = some (expandSet H p v) := by
  induction p with
  | nil => simp [expandSet]
  | cons b bs ih => cases b <;> simp [expandSet, ih]

/-- A write with expansion equals the plain write on the tree in which the zero summaries on the
    path have been materialised. -/
theorem setPath_expand (H : Hash) (n : Node) (p : List Bool) (v n' : Node)
    (h : setPath H true n p v = some n') :
    ∃ m, Expands H n m ∧ setPath H false m p v = some n' := by
  induction p generalizing n n' with
  | nil => simp at h; subst h; exact ⟨n, .refl _, by simp⟩
  | cons b bs ih =>
    cases n with
    | leaf c =>
      simp at h
      obtain ⟨hc, rfl⟩ := h
      subst hc
      refine ⟨expandSet H (b :: bs) (zeroNode H 0), ?_, setPath_expandSet H false (b :: bs) _ v⟩
      have := expands_expandSet H (b :: bs)
      simpa [zeroNode] using this
    | pair l r =>
      cases b <;> simp at h
      · obtain ⟨l', hl, rfl⟩ := h
        obtain ⟨m, hm, hs⟩ := ih l l' hl
        exact ⟨.pair m r, .pair _ _ _ _ hm (.refl _), by simp [hs]⟩
      · obtain ⟨r', hr, rfl⟩ := h
        obtain ⟨m, hm, hs⟩ := ih r r' hr
        exact ⟨.pair l m, .pair _ _ _ _ (.refl _) hm, by simp [hs]⟩

/-- A leaf above the target that is not the zero summary of its height is never discarded:
    the write fails. -/
theorem setPath_expand_nonzero (H : Hash) (n : Node) (q r : List Bool) (b : Bool) (c : Chunk) (v : Node)
    (hg : getPath n q = some (.leaf c)) (hc : c ≠ zeroHash H (r.length + 1)) :
    setPath H true n (q ++ b :: r) v = none := by
  induction q generalizing n with
  | nil =>
    simp at hg; subst hg
    simp [hc]
  | cons a as ih =>
    cases n with
    | leaf x => simp at hg
    | pair l rr => cases a <;> simp at hg <;> simp [ih _ hg]

/-! ### summaries -/

/-- `a` is `b` with some subtrees replaced by bare summaries (leaves) of their roots -/
inductive Summ (H : Hash) : Node → Node → Prop
  | refl (n : Node) : Summ H n n
  | leaf (b : Node) : Summ H (.leaf (b.root H)) b
  | pair (l r l' r' : Node) : Summ H l l' → Summ H r r' → Summ H (.pair l r) (.pair l' r')

theorem Summ.root_eq {H : Hash} {a b : Node} (h : Summ H a b) : a.root H = b.root H := by
  induction h with
  | refl n => rfl
  | leaf b => rfl
  | pair l r l' r' _ _ ihl ihr => simp [Node.root, ihl, ihr]

theorem Summ.trans {H : Hash} {a b c : Node} (h1 : Summ H a b) (h2 : Summ H b c) : Summ H a c := by
  induction h1 generalizing c with
  | refl n => exact h2
  | leaf b => rw [h2.root_eq]; exact .leaf c
  | pair l r l' r' _ _ ihl ihr =>
    cases h2 with
    | refl _ => exact .pair _ _ _ _ (ihl (.refl _)) (ihr (.refl _))
    | pair _ _ l'' r'' hl hr => exact .pair _ _ _ _ (ihl hl) (ihr hr)

/-- a read that succeeds on the partial tree succeeds on the complete tree with a related result -/
theorem Summ.getPath {H : Hash} {a b : Node} (h : Summ H a b) (p : List Bool) (x : Node)
    (hg : getPath a p = some x) : ∃ y, Rmk.getPath b p = some y ∧ Summ H x y := by
  induction p generalizing a b with
  | nil => simp at hg; subst hg; exact ⟨b, by simp, h⟩
  | cons c cs ih =>
    cases h with
    | refl _ => exact ⟨x, hg, .refl _⟩
    | leaf _ => simp at hg
    | pair l r l' r' hl hr =>
      cases c <;> simp at hg ⊢
      · exact ih hl hg
      · exact ih hr hg

/-- a write (without expansion) that succeeds on the partial tree succeeds on the complete tree,
    and the results are again related (so their roots are equal) -/
theorem Summ.setPath {H : Hash} {a b : Node} (h : Summ H a b) (p : List Bool) (v a' : Node)
    (hs : setPath H false a p v = some a') :
    ∃ b', Rmk.setPath H false b p v = some b' ∧ Summ H a' b' := by
  induction p generalizing a b a' with
  | nil => simp at hs; subst hs; exact ⟨v, by simp, .refl _⟩
  | cons c cs ih =>
    cases h with
    | refl _ => exact ⟨a', hs, .refl _⟩
    | leaf _ => simp at hs
    | pair l r l' r' hl hr =>
      cases c <;> simp at hs
      · obtain ⟨l2, hl2, rfl⟩ := hs
        obtain ⟨b2, hb2, hsum⟩ := ih hl l2 hl2
        exact ⟨.pair b2 r', by simp [hb2], .pair _ _ _ _ hsum hr⟩
      · obtain ⟨r2, hr2, rfl⟩ := hs
        obtain ⟨b2, hb2, hsum⟩ := ih hr r2 hr2
        exact ⟨.pair l' b2, by simp [hb2], .pair _ _ _ _ hl hsum⟩

theorem setPath_leaf_root_summ (H : Hash) (n : Node) (p : List Bool) (x m : Node)
    (hg : getPath n p = some x) (hs : setPath H false n p (.leaf (x.root H)) = some m) : Summ H m n := by
  induction p generalizing n m with
  | nil => simp at hg hs; subst hg; subst hs; exact .leaf _
  | cons b bs ih =>
    cases n with
    | leaf c => simp at hg
    | pair l r =>
      cases b <;> simp at hg hs
      · obtain ⟨l', hl, rfl⟩ := hs
        exact .pair _ _ _ _ (ih l l' hg hl) (.refl _)
      · obtain ⟨r', hr, rfl⟩ := hs
        exact .pair _ _ _ _ (.refl _) (ih r r' hg hr)

/-- `summarize_into` yields a summarised version of the same tree (hence the same root) -/
theorem summarizePath_summ (H : Hash) (n : Node) (p : List Bool) (m : Node)
    (h : summarizePath H n p = some m) : Summ H m n := by
  unfold summarizePath at h
  cases hg : getPath n p with
  | none => simp [hg] at h
  | some x =>
    simp [hg] at h
    exact setPath_leaf_root_summ H n p x m hg h

end Rmk
