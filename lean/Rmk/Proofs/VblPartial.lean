/-
`value_byte_length()` on partial trees (property C17 for the size query; complements
`Rmk/Proofs/ByteLengthLaws.lean`, which treats complete trees).

`Summ H p n`: `p` is `n` with some subtrees replaced by summary leaves of their roots.

1. `vbl_summ` / `vbl_summ_or`: on a partial tree `Impl.valueByteLength` either fails or returns
   exactly what the complete tree returns (mutual induction over `valueByteLength`, `vblFields`,
   `vblOpt`; `vblSeqWith` is handled with the element statement as hypothesis).
2. `vbl_fixed_no_read` and friends: for fixed-size types other than `boolean` / `ByteVector` at top
   level the answer does not depend on the tree at all (it is `some (fixedLen t)` for EVERY node).
3. `vblFields_skips_fixed`: the loop of `Container.value_byte_length` only looks at the subtrees of
   the variable-size fields.
4. a non-vacuity example with a toy hash.
-/
import Rmk.Impl.ByteLength
import Rmk.Proofs.TreeLaws
import Rmk.Proofs.PartialViews
namespace Rmk.VblPartial
open Rmk Rmk.Impl Rmk.Spec
open Rmk.PartialViews

/-! ## 1. monotonicity under `Summ` -/

/-- the sum loop over the unpacked elements of a sequence view: monotone when the per-element
    function is -/
theorem ole_vblSeqWith {H : Hash} {a b : Node} (h : Summ H a b) (vbl : Node → Option Nat)
    (hvbl : ∀ x y, Summ H x y → OLe (vbl x) (vbl y)) (depth len : Nat) :
    OLe (vblSeqWith vbl a depth len) (vblSeqWith vbl b depth len) := by
  unfold vblSeqWith
  exact ole_map _ (ole_allSome _ _ _ (fun i _ =>
    orel_bind_ole (summ_getAt h i depth) (fun u v hs => hvbl u v hs)))

mutual
theorem ole_vbl (H : Hash) (t : Ty) (a b : Node) (h : Summ H a b) :
    OLe (valueByteLength H t a) (valueByteLength H t b) := by
  cases t with
  | uint nb => simp only [valueByteLength]; exact ole_refl _
  | bool => simp only [valueByteLength, summ_readBasicAt h]; exact ole_refl _
  | bitvector len => simp only [valueByteLength]; exact ole_refl _
  | bitlist lim =>
    simp only [valueByteLength]
    exact ole_map _ (summ_listLength h)
  | bytevector len =>
    simp only [valueByteLength]
    exact ole_map _ (ole_readVal H _ a b h)
  | bytelist lim =>
    simp only [valueByteLength]
    cases hr : readVal H (.bytelist lim) a with
    | none => exact ole_none _
    | some v =>
      rw [ole_readVal H _ a b h v hr]
      exact ole_refl _
  | vector et len =>
    simp only [valueByteLength]
    split
    · exact ole_refl _
    · exact ole_vblSeqWith h _ (fun x y hs => ole_vbl H et x y hs) _ _
  | list et lim =>
    simp only [valueByteLength]
    cases hl : listLength H a with
    | none => exact ole_none _
    | some len =>
      rw [summ_listLength_eq h len hl]
      simp only []
      split
      · exact ole_refl _
      · exact ole_vblSeqWith h _ (fun x y hs => ole_vbl H et x y hs) _ _
  | container fs =>
    simp only [valueByteLength]
    split
    · exact ole_refl _
    · exact ole_vblFields H fs a b h _ 0
  | union hasNone opts =>
    simp only [valueByteLength]
    cases hgl : getLeft a with
    | none => exact ole_none _
    | some c =>
      cases hgr : getRight a with
      | none => exact ole_none _
      | some s =>
        obtain ⟨c', hc', hsc⟩ := summ_getLeft h c hgl
        obtain ⟨s', hs', hss⟩ := summ_getRight h s hgr
        rw [hc', hs']
        simp only [summ_readLen hss, hsc.root_eq]
        split
        · exact ole_refl _
        · split
          · exact ole_refl _
          · exact ole_map _ (ole_vblOpt H opts _ c c' hsc)
theorem ole_vblFields (H : Hash) (ts : List Ty) (a b : Node) (h : Summ H a b) (depth i : Nat) :
    OLe (vblFields H ts a depth i) (vblFields H ts b depth i) := by
  cases ts with
  | nil => exact ole_refl _
  | cons t ts =>
    have h1 : OLe (((getAt a i depth).bind fun c => valueByteLength H t c).map fun k => 4 + k)
        (((getAt b i depth).bind fun c => valueByteLength H t c).map fun k => 4 + k) :=
      ole_map _ (orel_bind_ole (summ_getAt h i depth) (fun u v hs => ole_vbl H t u v hs))
    have h2 := ole_vblFields H ts a b h depth (i + 1)
    intro w hw
    simp only [vblFields] at hw ⊢
    by_cases hf : Spec.isFixed t = true
    · simp only [hf, if_true] at hw ⊢
      cases hy : vblFields H ts a depth (i + 1) with
      | none => rw [hy] at hw; cases hw
      | some rest =>
        rw [hy] at hw
        rw [h2 rest hy]
        exact hw
    · simp only [hf, Bool.false_eq_true, if_false] at hw ⊢
      cases hx : ((getAt a i depth).bind fun c => valueByteLength H t c).map fun k => 4 + k with
      | none => rw [hx] at hw; cases hw
      | some v =>
        cases hy : vblFields H ts a depth (i + 1) with
        | none => rw [hx, hy] at hw; cases hw
        | some rest =>
          rw [hx, hy] at hw
          rw [h1 v hx, h2 rest hy]
          exact hw
theorem ole_vblOpt (H : Hash) (ts : List Ty) (k : Nat) (a b : Node) (h : Summ H a b) :
    OLe (vblOpt H ts k a) (vblOpt H ts k b) := by
  cases ts with
  | nil => simp only [vblOpt]; exact ole_refl _
  | cons t ts =>
    cases k with
    | zero => simp only [vblOpt]; exact ole_vbl H t a b h
    | succ k => simp only [vblOpt]; exact ole_vblOpt H ts k a b h
end

variable {H : Hash}

/-- the element loop, `some`-form: `vblSeqWith` is monotone given the element statement -/
theorem vblSeqWith_summ {p n : Node} (h : Summ H p n) (vbl : Node → Option Nat)
    (hvbl : ∀ x y k, Summ H x y → vbl x = some k → vbl y = some k) (depth len k : Nat)
    (hk : vblSeqWith vbl p depth len = some k) : vblSeqWith vbl n depth len = some k :=
  ole_vblSeqWith h vbl (fun x y hs u hu => hvbl x y u hs hu) depth len k hk

/-- THE size-query theorem on partial trees: if `value_byte_length()` succeeds on a partial tree it
    returns the value the complete tree gives. -/
theorem vbl_summ {p n : Node} {t : Ty} {k : Nat} (h : Summ H p n)
    (hk : Impl.valueByteLength H t p = some k) : Impl.valueByteLength H t n = some k :=
  ole_vbl H t p n h k hk

theorem vblFields_summ {p n : Node} {fs : List Ty} {depth i k : Nat} (h : Summ H p n)
    (hk : Impl.vblFields H fs p depth i = some k) : Impl.vblFields H fs n depth i = some k :=
  ole_vblFields H fs p n h depth i k hk

theorem vblOpt_summ {p n : Node} {opts : List Ty} {j k : Nat} (h : Summ H p n)
    (hk : Impl.vblOpt H opts j p = some k) : Impl.vblOpt H opts j n = some k :=
  ole_vblOpt H opts j p n h k hk

/-- … i.e. it fails or agrees with the complete tree -/
theorem vbl_summ_or {p n : Node} {t : Ty} (h : Summ H p n) :
    Impl.valueByteLength H t p = none ∨
      Impl.valueByteLength H t p = Impl.valueByteLength H t n :=
  (ole_iff _ _).1 (ole_vbl H t p n h)

theorem vblFields_summ_or {p n : Node} {fs : List Ty} {depth i : Nat} (h : Summ H p n) :
    Impl.vblFields H fs p depth i = none ∨
      Impl.vblFields H fs p depth i = Impl.vblFields H fs n depth i :=
  (ole_iff _ _).1 (ole_vblFields H fs p n h depth i)

theorem vblOpt_summ_or {p n : Node} {opts : List Ty} {j : Nat} (h : Summ H p n) :
    Impl.vblOpt H opts j p = none ∨ Impl.vblOpt H opts j p = Impl.vblOpt H opts j n :=
  (ole_iff _ _).1 (ole_vblOpt H opts j p n h)

/-- two partial versions of the same tree on which the query succeeds report the same length -/
theorem vbl_summ_unique {p q n : Node} {t : Ty} {k k' : Nat} (hp : Summ H p n) (hq : Summ H q n)
    (hk : Impl.valueByteLength H t p = some k) (hk' : Impl.valueByteLength H t q = some k') :
    k = k' := by
  have h1 := vbl_summ hp hk
  have h2 := vbl_summ hq hk'
  rw [h1] at h2
  exact Option.some.inj h2

/-! ## 2. fixed-size types: nothing is read -/

variable (H)

/-- the fixed-size kinds whose `value_byte_length()` looks at no node at all: uintN, Bitvector, a
    Vector of fixed-size elements, a Container of fixed-size fields.  (`boolean` and `ByteVector`
    at TOP level are excluded: their `view_from_backing` is eager and can raise.  As elements /
    fields they are covered, because the enclosing branch only asks `isFixed`.) -/
def NoRead : Ty → Bool
  | .uint _ => true
  | .bitvector _ => true
  | .vector et _ => Spec.isFixed et
  | .container fs => Spec.allFixed fs
  | _ => false

theorem noRead_isFixed (t : Ty) (h : NoRead t = true) : Spec.isFixed t = true := by
  cases t <;> simp_all [NoRead, Spec.isFixed]

theorem vbl_uint (nb : Nat) (n : Node) : Impl.valueByteLength H (.uint nb) n = some nb := by
  simp only [valueByteLength]

theorem vbl_bitvector (len : Nat) (n : Node) :
    Impl.valueByteLength H (.bitvector len) n = some ((len + 7) / 8) := by
  simp only [valueByteLength]

/-- Container of fixed-size fields (bool / ByteVector fields included): no node is read -/
theorem vbl_container_allFixed (fs : List Ty) (n : Node) (hf : Spec.allFixed fs = true) :
    Impl.valueByteLength H (.container fs) n = some (Spec.fixedLenSum fs) := by
  simp only [valueByteLength, hf, if_true]

/-- Vector of fixed-size elements: no node is read -/
theorem vbl_vector_fixed_elems (et : Ty) (len : Nat) (n : Node) (hf : Spec.isFixed et = true) :
    Impl.valueByteLength H (.vector et len) n = some (Spec.fixedLen (.vector et len)) := by
  simp only [valueByteLength, hf, if_true, Spec.fixedLen, Nat.mul_comm]

/-- List of fixed-size elements: only the length node (right child of the root) is read -/
theorem vbl_list_fixed_elems (et : Ty) (lim : Nat) (n : Node) (hf : Spec.isFixed et = true) :
    Impl.valueByteLength H (.list et lim) n
      = (listLength H n).map fun len => Spec.fixedLen et * len := by
  simp only [valueByteLength, hf, if_true]
  cases listLength H n <;> rfl

/-- … so any two trees with the same length node give the same answer, whatever the contents
    subtree is (in particular a summary leaf) -/
theorem vbl_list_fixed_elems_pair (et : Ty) (lim : Nat) (c c' l : Node)
    (hf : Spec.isFixed et = true) :
    Impl.valueByteLength H (.list et lim) (.pair c l)
      = Impl.valueByteLength H (.list et lim) (.pair c' l) := by
  rw [vbl_list_fixed_elems H et lim _ hf, vbl_list_fixed_elems H et lim _ hf]
  rfl

theorem vbl_list_fixed_elems_some (et : Ty) (lim : Nat) (c l : Node)
    (hf : Spec.isFixed et = true) :
    Impl.valueByteLength H (.list et lim) (.pair c l)
      = some (Spec.fixedLen et * readLen H l) := by
  rw [vbl_list_fixed_elems H et lim _ hf]
  rfl

/-- Bitlist: only the length node is read -/
theorem vbl_bitlist_pair (lim : Nat) (c l : Node) :
    Impl.valueByteLength H (.bitlist lim) (.pair c l) = some ((readLen H l + 8) / 8) := by
  simp only [valueByteLength, listLength, getRight, Option.map_some]

/-- for the kinds of `NoRead` the query returns `type_byte_length()` on EVERY tree -/
theorem vbl_fixed_no_read (t : Ty) (n : Node) (hnr : NoRead t = true) :
    Impl.valueByteLength H t n = some (Spec.fixedLen t) := by
  cases t with
  | uint nb => simp only [valueByteLength, Spec.fixedLen]
  | bitvector len => simp only [valueByteLength, Spec.fixedLen]
  | vector et len => exact vbl_vector_fixed_elems H et len n (by simpa [NoRead] using hnr)
  | container fs =>
    rw [vbl_container_allFixed H fs n (by simpa [NoRead] using hnr)]
    simp only [Spec.fixedLen]
  | bool => simp [NoRead] at hnr
  | bitlist lim => simp [NoRead] at hnr
  | bytevector len => simp [NoRead] at hnr
  | bytelist lim => simp [NoRead] at hnr
  | list et lim => simp [NoRead] at hnr
  | union hasNone opts => simp [NoRead] at hnr

/-- the same, in the form: the answer does not depend on the tree -/
theorem vbl_fixed_any_two (t : Ty) (n n' : Node) (hnr : NoRead t = true) :
    Impl.valueByteLength H t n = Impl.valueByteLength H t n' := by
  rw [vbl_fixed_no_read H t n hnr, vbl_fixed_no_read H t n' hnr]

/-- in particular on a bare summary leaf -/
theorem vbl_fixed_summary_leaf (t : Ty) (n : Node) (hnr : NoRead t = true) :
    Impl.valueByteLength H t (.leaf (n.root H)) = some (Spec.fixedLen t) :=
  vbl_fixed_no_read H t _ hnr

/-- the two excluded fixed-size kinds DO read: a `boolean` whose byte is neither 0 nor 1 … -/
theorem vbl_bool_reads : Impl.valueByteLength H .bool (.leaf [2]) = none := by
  simp [valueByteLength, readBasicAt, Node.root, Ty.basicSize]

/-! ## 3. the container loop only needs the variable-size fields -/

/-- `vblFields` from field `k` on: the positions of fixed-size fields are irrelevant.  If `p` and
    `n` agree at every position whose field type is NOT fixed-size, the loop gives the same result
    (no relation between `p` and `n` is assumed otherwise). -/
theorem vblFields_skips_fixed_from (fs : List Ty) (p n : Node) (depth k : Nat)
    (hagree : ∀ i (hi : i < fs.length), Spec.isFixed fs[i] = false →
      getAt p (k + i) depth = getAt n (k + i) depth) :
    vblFields H fs p depth k = vblFields H fs n depth k := by
  induction fs generalizing k with
  | nil => simp only [vblFields]
  | cons t ts ih =>
    have ih' := ih (k + 1) (fun i hi hf => by
      have := hagree (i + 1) (by simp only [List.length_cons]; omega)
        (by simpa only [List.getElem_cons_succ] using hf)
      rw [show k + 1 + i = k + (i + 1) by omega]
      exact this)
    simp only [vblFields, ih']
    by_cases hf : Spec.isFixed t = true
    · simp only [hf, if_true]
    · have hf' : Spec.isFixed t = false := by simpa using hf
      have h0 := hagree 0 (by simp) (by simpa only [List.getElem_cons_zero] using hf')
      rw [Nat.add_zero] at h0
      simp only [hf, Bool.false_eq_true, if_false, h0]

/-- "a size query only needs the dynamic fields" -/
theorem vblFields_skips_fixed (fs : List Ty) (p n : Node) (depth : Nat)
    (hagree : ∀ i (hi : i < fs.length), Spec.isFixed fs[i] = false →
      getAt p i depth = getAt n i depth) :
    vblFields H fs p depth 0 = vblFields H fs n depth 0 :=
  vblFields_skips_fixed_from H fs p n depth 0 (fun i hi hf => by
    rw [Nat.zero_add]; exact hagree i hi hf)

/-- container form -/
theorem vbl_container_skips_fixed (fs : List Ty) (p n : Node)
    (hagree : ∀ i (hi : i < fs.length), Spec.isFixed fs[i] = false →
      getAt p i (getDepth fs.length) = getAt n i (getDepth fs.length)) :
    Impl.valueByteLength H (.container fs) p = Impl.valueByteLength H (.container fs) n := by
  simp only [valueByteLength]
  split
  · rfl
  · exact vblFields_skips_fixed H fs p n _ hagree

/-! ## 4. non-vacuity -/

/-- a toy hash -/
private def H0 : Hash := fun a b => a ++ b

/-- `Container{pubkey: ByteVector[48], xs: List[uint16, 9]}` -/
private def exT : Ty := .container [.bytevector 48, .list (.uint 2) 9]

/-- complete tree: 48 bytes in two chunks; the list `[1, 2, 3]` -/
private def exFull : Node :=
  .pair (.pair (.leaf (List.replicate 32 7)) (.leaf (List.replicate 16 7 ++ zeros 16)))
    (.pair (.leaf ([1, 0, 2, 0, 3, 0] ++ zeros 26)) (lenNode 3))

/-- the subtree of the `ByteVector[48]` field -/
private def exKey : Node :=
  .pair (.leaf (List.replicate 32 7)) (.leaf (List.replicate 16 7 ++ zeros 16))

/-- partial tree: the `ByteVector[48]` field subtree is a summary leaf -/
private def exPart : Node :=
  .pair (.leaf (exKey.root H0))
    (.pair (.leaf ([1, 0, 2, 0, 3, 0] ++ zeros 26)) (lenNode 3))

example : Summ H0 exPart exFull := .pair _ _ _ _ (.leaf exKey) (.refl _)

/-- 48 bytes + 4 bytes of offset + 3 * 2 bytes -/
example : Impl.valueByteLength H0 exT exPart = some 58 ∧
    Impl.valueByteLength H0 exT exFull = some 58 := by decide

/-- the summarised field itself cannot be read, the size query does not care -/
example : Impl.readVal H0 exT exPart = none := by decide

end Rmk.VblPartial
