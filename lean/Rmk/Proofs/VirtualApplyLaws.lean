/-
View-level laws of lazily loaded (virtual) trees, MUTATORS (property C20: "mutations give the same results"):
every mutator of a view over a mixed tree `m` whose source serves the materialised tree `n` (`Mat H src m n`)
fails exactly when the same mutator over `n` fails, and otherwise the new backings are again `Mat`-related
(hence have equal roots).  The mutators over `MNode` are the line-by-line mirrors of
Rmk/Impl/VirtualApply.lean.  No hypothesis on the type `t`, the operation or the values; generic in the pair
hash `H`.
-/
import Rmk.Impl.VirtualApply
import Rmk.Proofs.VirtualLaws
import Rmk.Proofs.VirtualViewLaws
namespace Rmk.VirtualApplyLaws
open Rmk Rmk.Impl Rmk.Virtual Rmk.VirtualLaws Rmk.VirtualViewLaws

/-! ### `OptRel` helpers -/

theorem optRel_none {α β} {R : α → β → Prop} : OptRel R (none : Option α) (none : Option β) := trivial

theorem optRel_some {α β} {R : α → β → Prop} {a : α} {b : β} (h : R a b) : OptRel R (some a) (some b) := h

theorem optRel_bind {α β α' β'} {R : α → β → Prop} {R' : α' → β' → Prop} {x : Option α} {y : Option β}
    {f : α → Option α'} {g : β → Option β'}
    (h : OptRel R x y) (hfg : ∀ a b, R a b → OptRel R' (f a) (g b)) :
    OptRel R' (x.bind f) (y.bind g) := by
  cases x with
  | none => cases y with
    | none => exact trivial
    | some b => exact h.elim
  | some a => cases y with
    | none => exact h.elim
    | some b => exact hfg a b h

section
variable {H : Hash} {src : Src}

/-! ### fresh sub-trees -/

theorem mat_zeroNodeM (d : Nat) : Mat H src (zeroNodeM H d) (zeroNode H d) := by
  simp [zeroNodeM, zeroNode, Mat]

theorem mat_lenNodeM (k : Nat) : Mat H src (lenNodeM k) (lenNode k) := by
  simp [lenNodeM, lenNode, Mat]

theorem spliceBasicM_mat {m : MNode} {n : Node} (h : Mat H src m n) (size j v : Nat) :
    Mat H src (spliceBasicM H size m j v) (spliceBasic H size n j v) := by
  simp [spliceBasicM, spliceBasic, Mat, mat_root h]

theorem chunkWithBitM_mat {m : MNode} {n : Node} (h : Mat H src m n) (i : Nat) (b : Bool) :
    Mat H src (chunkWithBitM H m i b) (chunkWithBit H n i b) := by
  simp [chunkWithBitM, chunkWithBit, Mat, mat_root h]

/-! ### the mutating tree primitives -/

variable {m : MNode} {n : Node}

/-- `setter(to_gindex(i, depth), expand)(v)`: fails together, related results -/
theorem setAtM_rel (h : Mat H src m n) {v : MNode} {v' : Node} (hv : Mat H src v v')
    (e : Bool) (i d : Nat) :
    OptRel (Mat H src) (setAtM H src e m i d v) (setAt H e n i d v') := by
  unfold setAtM setAt
  split
  · exact optRel_none
  · exact setPathM_rel e h hv _

/-- `rebind_right`: a virtual node asks the source and becomes an ordinary pair -/
theorem rebindRightM_rel (h : Mat H src m n) {v : MNode} {v' : Node} (hv : Mat H src v v') :
    OptRel (Mat H src) (rebindRightM src m v) (rebindRight n v') := by
  cases m with
  | leaf c => cases n <;> simp_all [Mat, rebindRightM, rebindRight, OptRel]
  | pair l r =>
    cases n with
    | leaf c => simp [Mat] at h
    | pair l' r' =>
      simp only [Mat] at h
      simp only [rebindRightM, rebindRight]
      exact optRel_some ⟨h.1, hv⟩
  | virt c =>
    obtain ⟨hr, hs⟩ := mat_virt_iff.mp h
    cases n with
    | leaf c' =>
      have : src c = none := by rw [← hr]; exact hs
      simp [rebindRightM, this, rebindRight, OptRel]
    | pair l r =>
      have hsrc : src c = some (l.root H, r.root H) := by rw [← hr]; exact hs.1
      simp only [rebindRightM, hsrc, rebindRight]
      exact optRel_some ⟨mat_virt hs.2.1, hv⟩

theorem rebindLeftM_rel (h : Mat H src m n) {v : MNode} {v' : Node} (hv : Mat H src v v') :
    OptRel (Mat H src) (rebindLeftM src m v) (rebindLeft n v') := by
  cases m with
  | leaf c => cases n <;> simp_all [Mat, rebindLeftM, rebindLeft, OptRel]
  | pair l r =>
    cases n with
    | leaf c => simp [Mat] at h
    | pair l' r' =>
      simp only [Mat] at h
      simp only [rebindLeftM, rebindLeft]
      exact optRel_some ⟨hv, h.2⟩
  | virt c =>
    obtain ⟨hr, hs⟩ := mat_virt_iff.mp h
    cases n with
    | leaf c' =>
      have : src c = none := by rw [← hr]; exact hs
      simp [rebindLeftM, this, rebindLeft, OptRel]
    | pair l r =>
      have hsrc : src c = some (l.root H, r.root H) := by rw [← hr]; exact hs.1
      simp only [rebindLeftM, hsrc, rebindLeft]
      exact optRel_some ⟨hv, mat_virt hs.2.2⟩

/-- `summarize_into(target)()` -/
theorem summarizePathM_rel (h : Mat H src m n) (p : List Bool) :
    OptRel (Mat H src) (summarizePathM H src m p) (summarizePath H n p) := by
  unfold summarizePathM summarizePath
  rcases optRel_cases (getPathM_rel h p) with ⟨h1, h2⟩ | ⟨a, b, h1, h2, hab⟩
  · simp only [h1, h2]; exact optRel_none
  · simp only [h1, h2]
    exact setPathM_rel false h (by simp [Mat, mat_root hab]) p

/-- shared tail of `List.pop` / `Bitlist.pop` -/
theorem popFinishM_rel (h : Mat H src m n) (target : List Bool) (cs : Bool) (newLen : Nat) :
    OptRel (Mat H src) (popFinishM H src m target cs newLen) (popFinish H n target cs newLen) := by
  unfold popFinishM popFinish
  refine optRel_bind (R := Mat H src) ?_ fun a b hab => rebindRightM_rel hab (mat_lenNodeM _)
  split
  · exact summarizePathM_rel h _
  · exact optRel_some h

/-- `BitsView.set` step: read the chunk, write it back with one bit changed -/
theorem bitSetM_rel (h : Mat H src m n) (ci depth i : Nat) (bit : Bool) :
    OptRel (Mat H src)
      ((getAtM src m ci depth).bind fun chunk =>
        setAtM H src false m ci depth (chunkWithBitM H chunk i bit))
      ((getAt n ci depth).bind fun chunk => setAt H false n ci depth (chunkWithBit H chunk i bit)) :=
  optRel_bind (getAtM_rel h ci depth) fun _ _ hab =>
    setAtM_rel h (chunkWithBitM_mat hab i bit) false ci depth

/-- packed `SubtreeView.set` step: read the chunk, write it back with one element spliced in -/
theorem spliceSetM_rel (h : Mat H src m n) (ci depth size j val : Nat) :
    OptRel (Mat H src)
      (match getAtM src m ci depth with
        | none => none
        | some chunk => setAtM H src false m ci depth (spliceBasicM H size chunk j val))
      (match getAt n ci depth with
        | none => none
        | some chunk => setAt H false n ci depth (spliceBasic H size chunk j val)) := by
  rcases optRel_cases (getAtM_rel h ci depth) with ⟨h1, h2⟩ | ⟨a, b, h1, h2, hab⟩
  · simp only [h1, h2]; exact optRel_none
  · simp only [h1, h2]
    exact setAtM_rel h (spliceBasicM_mat hab size j val) false ci depth

/-! ### THE MAIN THEOREM -/

/-- a mutator fails on the mixed tree iff it fails on the materialised one, and the new backings materialise
    to each other.  All types, all operations, all values. -/
theorem applyM_rel (h : Mat H src m n) (t : Ty) (op : Op) :
    OptRel (Mat H src) (applyM H src t m op) (apply H t n op) := by
  cases t <;> cases op <;> simp only [applyM, apply, listLengthM_mat h] <;> try exact optRel_none
  case bitvector.set len i v =>
    split
    · exact optRel_none
    · cases v <;> simp only [] <;> try exact optRel_none
      exact bitSetM_rel h _ _ _ _
  case bitlist.set lim i v =>
    cases hl : listLength H n with
    | none => exact optRel_none
    | some len =>
      simp only []
      split
      · exact optRel_none
      · cases v <;> simp only [] <;> try exact optRel_none
        exact bitSetM_rel h _ _ _ _
  case bitlist.append lim v =>
    cases hl : listLength H n with
    | none => exact optRel_none
    | some len =>
      simp only []
      split
      · exact optRel_none
      · cases v <;> simp only [] <;> try exact optRel_none
        refine optRel_bind (R := Mat H src) ?_ fun a b hab => rebindRightM_rel hab (mat_lenNodeM _)
        split
        · exact setAtM_rel h (chunkWithBitM_mat (mat_zeroNodeM 0) _ _) _ _ _
        · exact bitSetM_rel h _ _ _ _
  case bitlist.pop lim =>
    cases hl : listLength H n with
    | none => exact optRel_none
    | some len =>
      simp only []
      split
      · exact optRel_none
      · split
        · exact optRel_none
        · refine optRel_bind (R := Mat H src) ?_ fun a b hab => popFinishM_rel hab _ _ _
          split
          · exact setAtM_rel h (mat_zeroNodeM 0) _ _ _
          · exact bitSetM_rel h _ _ _ _
  case vector.set et len i v =>
    split
    · exact optRel_none
    · cases hc : construct H et v with
      | none => exact optRel_none
      | some vn =>
        simp only []
        split
        · exact spliceSetM_rel h _ _ _ _ _
        · exact setAtM_rel h (mat_ofNode H src vn) _ _ _
  case list.set et lim i v =>
    cases hl : listLength H n with
    | none => exact optRel_none
    | some len =>
      simp only []
      split
      · exact optRel_none
      · cases hc : construct H et v with
        | none => exact optRel_none
        | some vn =>
          simp only []
          split
          · exact spliceSetM_rel h _ _ _ _ _
          · exact setAtM_rel h (mat_ofNode H src vn) _ _ _
  case list.append et lim v =>
    cases hl : listLength H n with
    | none => exact optRel_none
    | some len =>
      simp only []
      split
      · exact optRel_none
      · cases hc : construct H et v with
        | none => exact optRel_none
        | some vn =>
          simp only []
          refine optRel_bind (R := Mat H src) ?_ fun a b hab => rebindRightM_rel hab (mat_lenNodeM _)
          split
          · split
            · exact setAtM_rel h (spliceBasicM_mat (mat_zeroNodeM 0) _ _ _) _ _ _
            · exact spliceSetM_rel h _ _ _ _ _
          · exact setAtM_rel h (mat_ofNode H src vn) _ _ _
  case list.pop et lim =>
    cases hl : listLength H n with
    | none => exact optRel_none
    | some len =>
      simp only []
      split
      · exact optRel_none
      · split
        · split
          · exact optRel_none
          · have hchunk : OptRel (Mat H src)
                (if ((len - 1) % (32 / et.basicSize) == 0) = true then some (zeroNodeM H 0)
                  else getAtM src m ((len - 1) / (32 / et.basicSize)) (getDepth (chunkLen et lim) + 1))
                (if ((len - 1) % (32 / et.basicSize) == 0) = true then some (zeroNode H 0)
                  else getAt n ((len - 1) / (32 / et.basicSize)) (getDepth (chunkLen et lim) + 1)) := by
              split
              · exact optRel_some (mat_zeroNodeM 0)
              · exact getAtM_rel h _ _
            rcases optRel_cases hchunk with ⟨h1, h2⟩ | ⟨ch, ch', h1, h2, hch⟩
            · simp only [h1, h2]; exact optRel_none
            · simp only [h1, h2]
              rcases optRel_cases (setAtM_rel h (spliceBasicM_mat hch et.basicSize
                  ((len - 1) % (32 / et.basicSize)) 0) false ((len - 1) / (32 / et.basicSize))
                  (getDepth (chunkLen et lim) + 1)) with ⟨h3, h4⟩ | ⟨a, b, h3, h4, hab⟩
              · simp only [h3, h4]; exact optRel_none
              · simp only [h3, h4]
                exact popFinishM_rel hab _ _ _
        · rcases optRel_cases (setAtM_rel h (mat_zeroNodeM 0) false (len - 1)
              (getDepth (chunkLen et lim) + 1)) with ⟨h3, h4⟩ | ⟨a, b, h3, h4, hab⟩
          · simp only [h3, h4]; exact optRel_none
          · simp only [h3, h4]
            exact popFinishM_rel hab _ _ _
  case container.set fs i v =>
    cases hf : fs[i]? with
    | none => exact optRel_none
    | some ft =>
      simp only []
      cases hc : construct H ft v with
      | none => exact optRel_none
      | some vn => exact setAtM_rel h (mat_ofNode H src vn) _ _ _
  case union.change hasNone opts sel v =>
    split
    · exact optRel_none
    · split
      · cases v <;> simp only [] <;> try exact optRel_none
        exact optRel_some ⟨mat_zeroNodeM 0, mat_lenNodeM 0⟩
      · cases hc : constructOpt H opts (optIndex hasNone sel) v with
        | none => exact optRel_none
        | some c => exact optRel_some ⟨mat_ofNode H src c, mat_lenNodeM sel⟩

/-- failures coincide -/
theorem applyM_none_iff (h : Mat H src m n) (t : Ty) (op : Op) :
    applyM H src t m op = none ↔ apply H t n op = none :=
  (applyM_rel h t op).none_iff

/-- the roots after a mutation coincide -/
theorem applyM_root (h : Mat H src m n) (t : Ty) (op : Op) (m' : MNode)
    (hm : applyM H src t m op = some m') :
    ∃ n', apply H t n op = some n' ∧ Mat H src m' n' ∧ m'.root H = n'.root H := by
  have hrel := applyM_rel h t op
  rw [hm] at hrel
  cases hn : apply H t n op with
  | none => rw [hn] at hrel; exact hrel.elim
  | some n' => rw [hn] at hrel; exact ⟨n', rfl, hrel, mat_root hrel⟩

/-- conversely: a mutation that succeeds on the materialised tree succeeds on the mixed tree, same root -/
theorem apply_rootM (h : Mat H src m n) (t : Ty) (op : Op) (n' : Node)
    (hn : apply H t n op = some n') :
    ∃ m', applyM H src t m op = some m' ∧ Mat H src m' n' ∧ m'.root H = n'.root H := by
  have hrel := applyM_rel h t op
  rw [hn] at hrel
  cases hm : applyM H src t m op with
  | none => rw [hm] at hrel; exact hrel.elim
  | some m' => rw [hm] at hrel; exact ⟨m', rfl, hrel, mat_root hrel⟩

/-! ### histories of mutations -/

/-- a whole history of mutations through the view: fails on the mixed tree iff it fails on the materialised
    one (at the same operation), and the final backings materialise to each other -/
theorem applyM_history (t : Ty) (ops : List Op) :
    ∀ {m : MNode} {n : Node}, Mat H src m n →
      OptRel (Mat H src) (applyAllM H src t m ops) (applyAll H t n ops) := by
  induction ops with
  | nil => intro m n h; exact optRel_some h
  | cons op ops ih =>
    intro m n h
    simp only [applyAllM, applyAll]
    exact optRel_bind (applyM_rel h t op) fun a b hab => ih hab

/-- the roots after a history of mutations coincide -/
theorem applyM_history_root (h : Mat H src m n) (t : Ty) (ops : List Op) (m' : MNode)
    (hm : applyAllM H src t m ops = some m') :
    ∃ n', applyAll H t n ops = some n' ∧ Mat H src m' n' ∧ m'.root H = n'.root H := by
  have hrel := applyM_history t ops h
  rw [hm] at hrel
  cases hn : applyAll H t n ops with
  | none => rw [hn] at hrel; exact hrel.elim
  | some n' => rw [hn] at hrel; exact ⟨n', rfl, hrel, mat_root hrel⟩

end

/-! ### headline: a wholly virtual backing, a wholly materialised backing -/

/-- a mutator of a view over the wholly virtual node `VirtualNode(n.root, src)`, whose source serves the tree
    `n`, behaves exactly like the mutator of the view over `n` -/
theorem virtual_apply {H : Hash} {src : Src} {n : Node} (hs : Serves H src n) (t : Ty) (op : Op) :
    OptRel (Mat H src) (applyM H src t (.virt (n.root H)) op) (apply H t n op) :=
  applyM_rel (mat_virt hs) t op

/-- and so does a whole history of mutations -/
theorem virtual_apply_history {H : Hash} {src : Src} {n : Node} (hs : Serves H src n) (t : Ty)
    (ops : List Op) :
    OptRel (Mat H src) (applyAllM H src t (.virt (n.root H)) ops) (applyAll H t n ops) :=
  applyM_history t ops (mat_virt hs)

/-- the roots after a history of mutations of a wholly virtual backing -/
theorem virtual_apply_history_root {H : Hash} {src : Src} {n : Node} (hs : Serves H src n) (t : Ty)
    (ops : List Op) :
    (applyAllM H src t (.virt (n.root H)) ops).map (·.root H) = (applyAll H t n ops).map (·.root H) :=
  optRel_map_eq (virtual_apply_history hs t ops) fun _ _ hab => mat_root hab

/-- an ordinary tree seen as a mixed tree (whatever the source) -/
theorem ofNode_apply (H : Hash) (src : Src) (n : Node) (t : Ty) (op : Op) :
    OptRel (Mat H src) (applyM H src t (MNode.ofNode n) op) (apply H t n op) :=
  applyM_rel (mat_ofNode H src n) t op

/-! ### examples with a toy hash (non-vacuity) -/

/-- a toy hash without collisions on the trees below -/
private def H1 : Hash := fun a b => 255 :: (a ++ b)
/-- `List[uint8, 64]` holding 7, 8, 9 (contents of depth 1, length mix-in 3) -/
private def tL : Ty := .list (.uint 1) 64
private def nL : Node := .pair (.pair (.leaf [7, 8, 9]) (.leaf [])) (.leaf [3])
private def srcL : Src := srcOfDict (dictOf H1 nL)
private def vL : MNode := .virt (nL.root H1)

example : Serves H1 srcL nL := by decide
example : Mat H1 srcL vL nL := by decide
-- `set` through the wholly virtual backing: the path becomes ordinary pairs, the siblings stay virtual
example : applyM H1 srcL tL vL (.set 1 (.num 5)) =
    some (.pair (.pair (.leaf [7, 5, 9]) (.virt [])) (.virt [3])) := by decide
example : apply H1 tL nL (.set 1 (.num 5)) =
    some (.pair (.pair (.leaf [7, 5, 9]) (.leaf [])) (.leaf [3])) := by decide
-- out of range: both fail
example : applyM H1 srcL tL vL (.set 3 (.num 5)) = none ∧ apply H1 tL nL (.set 3 (.num 5)) = none := by
  decide
-- a history: append, pop, pop; the roots coincide
example : ((applyAllM H1 srcL tL vL [.append (.num 1), .pop, .pop]).map (·.root H1)) =
    ((applyAll H1 tL nL [.append (.num 1), .pop, .pop]).map (·.root H1)) := by decide
example : (applyAllM H1 srcL tL vL [.append (.num 1), .pop, .pop]).isSome = true := by decide

end Rmk.VirtualApplyLaws
