/-
Laws of the remaining read routes over lazily loaded (virtual) trees (property C20): the stack-machine
iterators (`NodeIter`, `PackedIter`, `BitfieldIter`), the tree-reading serialiser and `to_obj()` computed from
the tree, run over a mixed tree `m` whose source serves the materialised tree `n` (`Mat H src m n`), give
exactly the result (value or failure) of the same route over `n`.  The routes over `MNode` are the
line-by-line mirrors of Rmk/Impl/VirtualIter.lean.  No hypothesis on types or values; generic in `H`.
-/
import Rmk.Impl.VirtualIter
import Rmk.Impl.Repr
import Rmk.Proofs.VirtualViewLaws
namespace Rmk.VirtualIterLaws
open Rmk Rmk.Impl Rmk.Virtual Rmk.VirtualLaws Rmk.VirtualViewLaws

/-! ### stacks of optional nodes -/

/-- stack entries pointwise related: both empty slots, or `Mat`-related nodes -/
abbrev StackRel (H : Hash) (src : Src) : List (Option MNode) → List (Option Node) → Prop :=
  AllRel (OptRel (Mat H src))

section
variable {H : Hash} {src : Src}

theorem stackRel_set {s : List (Option MNode)} {s' : List (Option Node)} (h : StackRel H src s s')
    (x : Nat) {a : Option MNode} {b : Option Node} (hab : OptRel (Mat H src) a b) :
    StackRel H src (s.set x a) (s'.set x b) := by
  induction s generalizing s' x with
  | nil => cases s' <;> simp_all [AllRel, StackRel]
  | cons c s ih =>
    cases s' with
    | nil => simp [StackRel, AllRel] at h
    | cons c' s' =>
      cases x with
      | zero => exact ⟨hab, h.2⟩
      | succ x => exact ⟨h.1, ih h.2 x⟩

theorem stackRel_getD {s : List (Option MNode)} {s' : List (Option Node)} (h : StackRel H src s s')
    (x : Nat) : OptRel (Mat H src) (s.getD x none) (s'.getD x none) := by
  induction s generalizing s' x with
  | nil => cases s' <;> simp_all [AllRel, StackRel, OptRel]
  | cons c s ih =>
    cases s' with
    | nil => simp [StackRel, AllRel] at h
    | cons c' s' =>
      cases x with
      | zero => simpa using h.1
      | succ x => simpa using ih h.2 x

theorem stackRel_replicate (k : Nat) :
    StackRel H src (List.replicate k none) (List.replicate k none) := by
  induction k with
  | zero => simp [StackRel, AllRel]
  | succ k ih => exact ⟨trivial, ih⟩

/-! ### (a) `NodeIter` -/

theorem descendLeftM_rel (k : Nat) : ∀ (x : Nat) {m : MNode} {n : Node} {s : List (Option MNode)}
    {s' : List (Option Node)}, Mat H src m n → StackRel H src s s' →
    OptRel (fun a b => Mat H src a.1 b.1 ∧ StackRel H src a.2 b.2)
      (descendLeftM src k x m s) (descendLeft k x n s') := by
  induction k with
  | zero =>
    intro x m n s s' hm hs
    simp only [descendLeftM, descendLeft, OptRel]
    exact ⟨hm, hs⟩
  | succ k ih =>
    intro x m n s s' hm hs
    rcases optRel_cases (childM_left hm) with ⟨h1, h2⟩ | ⟨l, l', h1, h2, hl⟩
    · simp only [descendLeftM, descendLeft, h1, h2, OptRel]
    · simp only [descendLeftM, descendLeft, h1, h2]
      exact ih (x + 1) hl
        (stackRel_set hs x (show OptRel (Mat H src) (some m) (some n) from hm))

/-- the relation between the results of one `__next__`: related nodes, equal counters, related stacks -/
def IterRel (H : Hash) (src : Src) (p : MNode × NodeIterStateM) (q : Node × NodeIterState) : Prop :=
  Mat H src p.1 q.1 ∧ p.2.i = q.2.i ∧ StackRel H src p.2.stack q.2.stack

theorem next_tail {startM : Option (MNode × Nat)} {start : Option (Node × Nat)} (depth i : Nat)
    {s : List (Option MNode)} {s' : List (Option Node)} (hs : StackRel H src s s') :
    OptRel (fun p q => Mat H src p.1 q.1 ∧ p.2 = q.2) startM start →
    OptRel (IterRel H src)
      (match startM with
        | none => none
        | some (node, stackIndex) =>
          match descendLeftM src (depth - stackIndex) stackIndex node s with
          | none => none
          | some (leaf, stack') => some (leaf, ({ i := i + 1, stack := stack' } : NodeIterStateM)))
      (match start with
        | none => none
        | some (node, stackIndex) =>
          match descendLeft (depth - stackIndex) stackIndex node s' with
          | none => none
          | some (leaf, stack') => some (leaf, ({ i := i + 1, stack := stack' } : NodeIterState))) := by
  intro hst
  rcases optRel_cases hst with ⟨h1, h2⟩ | ⟨⟨nd, x⟩, ⟨nd', x'⟩, h1, h2, hnd, hx⟩
  · subst h1 h2; simp only [OptRel]
  · simp only at hnd hx
    subst h1 h2 hx
    simp only []
    rcases optRel_cases (descendLeftM_rel (depth - x) x hnd hs) with
      ⟨k1, k2⟩ | ⟨⟨l, t⟩, ⟨l', t'⟩, k1, k2, hl, ht⟩
    · simp only [k1, k2, OptRel]
    · simp only [k1, k2, OptRel]
      exact ⟨hl, rfl, ht⟩

theorem nodeIterNextM_rel {a : MNode} {a' : Node} (ha : Mat H src a a') (depth i : Nat)
    {s : List (Option MNode)} {s' : List (Option Node)} (hs : StackRel H src s s') :
    OptRel (IterRel H src) (nodeIterNextM src a depth ⟨i, s⟩) (nodeIterNext a' depth ⟨i, s'⟩) := by
  unfold nodeIterNextM nodeIterNext
  simp only []
  apply next_tail depth i hs
  by_cases hne : (i != 0) = true
  · rw [if_pos hne, if_pos hne]
    rcases optRel_cases (stackRel_getD hs (depth - shiftCount (i ^^^ (i - 1)))) with
      ⟨g1, g2⟩ | ⟨nd, nd', g1, g2, hnd⟩
    · rw [g1, g2]; simp only [OptRel]
    · rw [g1, g2]
      simp only []
      exact OptRel.map _ _ (childM_right hnd) fun _ _ hab => ⟨hab, rfl⟩
  · rw [if_neg hne, if_neg hne]
    exact ⟨ha, rfl⟩

theorem nodeIterRunM_rel {a : MNode} {a' : Node} (ha : Mat H src a a') (depth k : Nat) :
    ∀ (i : Nat) {s : List (Option MNode)} {s' : List (Option Node)}, StackRel H src s s' →
    OptRel (AllRel (Mat H src)) (nodeIterRunM src a depth k ⟨i, s⟩) (nodeIterRun a' depth k ⟨i, s'⟩) := by
  induction k with
  | zero => intro i s s' _; simp [nodeIterRunM, nodeIterRun, OptRel, AllRel]
  | succ k ih =>
    intro i s s' hs
    rcases optRel_cases (nodeIterNextM_rel ha depth i hs) with
      ⟨h1, h2⟩ | ⟨⟨m1, ⟨i1, s1⟩⟩, ⟨n1, ⟨i1', s1'⟩⟩, h1, h2, hm, hi, hst⟩
    · simp only [nodeIterRunM, nodeIterRun, h1, h2, OptRel]
    · simp only at hi hst hm
      subst hi
      simp only [nodeIterRunM, nodeIterRun, h1, h2]
      rcases optRel_cases (ih i1 hst) with ⟨k1, k2⟩ | ⟨ns, ns', k1, k2, hns⟩
      · simp only [k1, k2, Option.map_none, OptRel]
      · simp only [k1, k2, Option.map_some, OptRel]
        exact ⟨hm, hns⟩

/-- `NodeIter` over a mixed tree: fails together with the materialised one, yields `Mat`-related nodes -/
theorem nodeIterM_rel {m : MNode} {n : Node} (h : Mat H src m n) (depth len : Nat) :
    OptRel (AllRel (Mat H src)) (nodeIterM src m depth len) (nodeIter n depth len) := by
  unfold nodeIterM nodeIter
  split
  · simp [OptRel]
  · exact nodeIterRunM_rel h depth len 0 (stackRel_replicate depth)

/-! ### (a) `PackedIter` -/

/-- state relation of `PackedIter`: equal counters, `Mat`-related remembered chunk, related stacks -/
def PRel (H : Hash) (src : Src) (st : PackedIterStateM) (st' : PackedIterState) : Prop :=
  st.i = st'.i ∧ st.j = st'.j ∧ st.rootIndex = st'.rootIndex ∧
  Mat H src st.currentRoot st'.currentRoot ∧ StackRel H src st.stack st'.stack

theorem packedIterNextM_rel {a : MNode} {a' : Node} (ha : Mat H src a a') (et : Ty) (depth perNode : Nat)
    {st : PackedIterStateM} {st' : PackedIterState} (hst : PRel H src st st') :
    OptRel (fun p q => p.1 = q.1 ∧ PRel H src p.2 q.2)
      (packedIterNextM H src et a depth perNode st) (packedIterNext H et a' depth perNode st') := by
  obtain ⟨i, j, ri, cr, s⟩ := st
  obtain ⟨i', j', ri', cr', s'⟩ := st'
  obtain ⟨h1, h2, h3, hcr, hs⟩ := hst
  simp only at h1 h2 h3 hcr hs
  subst h1 h2 h3
  unfold packedIterNextM packedIterNext
  simp only []
  by_cases hj : j < perNode
  · rw [if_pos hj, if_pos hj, readBasicAtM_mat hcr]
    cases readBasicAt H et cr' j with
    | none => simp only [OptRel]
    | some v => exact ⟨rfl, rfl, rfl, rfl, hcr, hs⟩
  · rw [if_neg hj, if_neg hj]
    rcases optRel_cases (nodeIterNextM_rel ha depth ri hs) with
      ⟨k1, k2⟩ | ⟨⟨m1, w⟩, ⟨n1, w'⟩, k1, k2, hm, _, hw⟩
    · rw [k1, k2]; simp only [OptRel]
    · rw [k1, k2]
      simp only at hm hw ⊢
      rw [isLeafM_mat hm, readBasicAtM_mat hm]
      cases n1.isLeaf with
      | false => simp [OptRel]
      | true =>
        cases readBasicAt H et n1 0 with
        | none => simp [OptRel]
        | some v => simp only [OptRel]; exact ⟨rfl, rfl, rfl, rfl, hm, hw⟩

theorem packedIterRunM_mat {a : MNode} {a' : Node} (ha : Mat H src a a') (et : Ty)
    (depth perNode length fuel : Nat) :
    ∀ {st : PackedIterStateM} {st' : PackedIterState}, PRel H src st st' →
    packedIterRunM H src et a depth perNode length fuel st =
      packedIterRun H et a' depth perNode length fuel st' := by
  induction fuel with
  | zero => intro st st' _; simp only [packedIterRunM, packedIterRun]
  | succ fuel ih =>
    intro st st' hst
    simp only [packedIterRunM, packedIterRun, hst.1]
    split
    · rfl
    · rcases optRel_cases (packedIterNextM_rel ha et depth perNode hst) with
        ⟨k1, k2⟩ | ⟨⟨v, t⟩, ⟨v', t'⟩, k1, k2, hv, ht⟩
      · rw [k1, k2]
      · rw [k1, k2]
        simp only at hv ht ⊢
        rw [hv, ih ht]

/-- `PackedIter` over a mixed tree yields exactly what it yields over the materialised tree -/
theorem packedIterM_mat {m : MNode} {n : Node} (h : Mat H src m n) (et : Ty) (depth len : Nat) :
    packedIterM H src et m depth len = packedIter H et n depth len := by
  unfold packedIterM packedIter
  split
  · rfl
  · simp only []
    split
    · rfl
    · exact packedIterRunM_mat h et depth _ len len
        ⟨rfl, rfl, rfl, (show Mat H src (.leaf zeroChunk) (.leaf zeroChunk) from rfl),
          stackRel_replicate depth⟩

/-! ### (a) `BitfieldIter` -/

/-- state relation of `BitfieldIter`: equal counters and remembered root, related stacks -/
def BRel (H : Hash) (src : Src) (st : BitfieldIterStateM) (st' : BitfieldIterState) : Prop :=
  st.i = st'.i ∧ st.j = st'.j ∧ st.rootIndex = st'.rootIndex ∧
  st.currentRoot = st'.currentRoot ∧ StackRel H src st.stack st'.stack

theorem bitfieldIterNextM_rel {a : MNode} {a' : Node} (ha : Mat H src a a') (depth : Nat)
    {st : BitfieldIterStateM} {st' : BitfieldIterState} (hst : BRel H src st st') :
    OptRel (fun p q => p.1 = q.1 ∧ BRel H src p.2 q.2)
      (bitfieldIterNextM H src a depth st) (bitfieldIterNext H a' depth st') := by
  obtain ⟨i, j, ri, cr, s⟩ := st
  obtain ⟨i', j', ri', cr', s'⟩ := st'
  obtain ⟨h1, h2, h3, hcr, hs⟩ := hst
  simp only at h1 h2 h3 hcr hs
  subst h1 h2 h3 hcr
  unfold bitfieldIterNextM bitfieldIterNext
  simp only []
  by_cases hj : j > 0
  · rw [if_pos hj, if_pos hj]
    exact ⟨rfl, rfl, rfl, rfl, rfl, hs⟩
  · rw [if_neg hj, if_neg hj]
    rcases optRel_cases (nodeIterNextM_rel ha depth ri hs) with
      ⟨k1, k2⟩ | ⟨⟨m1, w⟩, ⟨n1, w'⟩, k1, k2, hm, _, hw⟩
    · rw [k1, k2]; simp only [OptRel]
    · rw [k1, k2]
      simp only at hm hw ⊢
      rw [isLeafM_mat hm, mat_root hm]
      cases n1.isLeaf with
      | false => simp [OptRel]
      | true => simp only [OptRel]; exact ⟨rfl, rfl, rfl, rfl, rfl, hw⟩

theorem bitfieldIterRunM_mat {a : MNode} {a' : Node} (ha : Mat H src a a')
    (depth length fuel : Nat) :
    ∀ {st : BitfieldIterStateM} {st' : BitfieldIterState}, BRel H src st st' →
    bitfieldIterRunM H src a depth length fuel st = bitfieldIterRun H a' depth length fuel st' := by
  induction fuel with
  | zero => intro st st' _; simp only [bitfieldIterRunM, bitfieldIterRun]
  | succ fuel ih =>
    intro st st' hst
    simp only [bitfieldIterRunM, bitfieldIterRun, hst.1]
    split
    · rfl
    · rcases optRel_cases (bitfieldIterNextM_rel ha depth hst) with
        ⟨k1, k2⟩ | ⟨⟨v, t⟩, ⟨v', t'⟩, k1, k2, hv, ht⟩
      · rw [k1, k2]
      · rw [k1, k2]
        simp only at hv ht ⊢
        rw [hv, ih ht]

/-- `BitfieldIter` over a mixed tree yields exactly what it yields over the materialised tree -/
theorem bitfieldIterM_mat {m : MNode} {n : Node} (h : Mat H src m n) (depth len : Nat) :
    bitfieldIterM H src m depth len = bitfieldIter H n depth len := by
  unfold bitfieldIterM bitfieldIter
  simp only []
  split
  · rfl
  · exact bitfieldIterRunM_mat h depth len len ⟨rfl, rfl, rfl, rfl, stackRel_replicate depth⟩

/-! ### (b) the tree-reading serialiser: helpers -/

theorem serBitsRawM_mat {m : MNode} {n : Node} (h : Mat H src m n) (depth bitlen : Nat) :
    serBitsRawM H src m depth bitlen = serBitsRaw H n depth bitlen := by
  unfold serBitsRawM serBitsRaw
  simp only [readChunksM_mat h]
  cases readChunks H n depth ((bitlen + 255) / 256 - 1) with
  | none => rfl
  | some pre =>
    simp only []
    split
    · exact optRel_map_eq (getAtM_rel h _ depth) fun _ _ hab => by rw [mat_root hab]
    · rfl

theorem serSeqWithM_mat {m : MNode} {n : Node} (h : Mat H src m n)
    {serM : MNode → Option (List UInt8 × Nat)} {ser : Node → Option (List UInt8 × Nat)}
    (hser : ∀ a b, Mat H src a b → serM a = ser b) (et : Ty) (depth len : Nat) :
    serSeqWithM H src serM et m depth len = serSeqWith H ser et n depth len := by
  unfold serSeqWithM serSeqWith
  split
  · have hb : ∀ (per : Nat) (F : Val → List UInt8),
        (fun i => (getAtM src m (i / per) depth).bind fun c => (readBasicAtM H et c (i % per)).map F) =
        (fun i => (getAt n (i / per) depth).bind fun c => (readBasicAt H et c (i % per)).map F) := by
      intro per F; funext i
      exact optRel_bind_eq (getAtM_rel h _ depth) fun _ _ hab => by rw [readBasicAtM_mat hab]
    exact congrArg (fun f => (allSome ((List.range len).map f)).map
      fun parts => (parts.flatten, et.basicSize * len)) (hb _ _)
  · have : (fun i => (getAtM src m i depth).bind serM) = (fun i => (getAt n i depth).bind ser) := by
      funext i
      exact optRel_bind_eq (getAtM_rel h i depth) hser
    rw [this]
    rfl

/-- `allSome` of a function mapped over pointwise `Mat`-related node lists -/
theorem allSome_map_allRel {γ} {ns : List MNode} {ns' : List Node} (h : AllRel (Mat H src) ns ns')
    {f : MNode → Option γ} {g : Node → Option γ} (hfg : ∀ a b, Mat H src a b → f a = g b) :
    allSome (ns.map f) = allSome (ns'.map g) := by
  induction ns generalizing ns' with
  | nil => cases ns' <;> simp_all [AllRel]
  | cons a ns ih =>
    cases ns' with
    | nil => simp [AllRel] at h
    | cons b ns' =>
      simp only [List.map_cons, hfg a b h.1]
      cases g b with
      | none => simp only [allSome]
      | some v => simp only [allSome, ih h.2]

end

/-! ### (b) `serialize(stream)` from the tree -/

mutual
/-- the tree-reading serialiser over a mixed tree = over the materialised tree -/
theorem serTreeM_mat (H : Hash) (src : Src) (t : Ty) (m : MNode) (n : Node) (h : Mat H src m n) :
    serTreeM H src t m = serTree H t n := by
  cases t with
  | uint nb => simp only [serTreeM, serTree, readBasicAtM_mat h]; rfl
  | bool => simp only [serTreeM, serTree, readBasicAtM_mat h]; rfl
  | bitvector len => simp only [serTreeM, serTree, serBitsRawM_mat h]
  | bitlist lim => simp only [serTreeM, serTree, listLengthM_mat h, serBitsRawM_mat h]; rfl
  | bytevector len => simp only [serTreeM, serTree, readValM_mat H src _ m n h]; rfl
  | bytelist lim => simp only [serTreeM, serTree, readValM_mat H src _ m n h]; rfl
  | vector et len =>
    simp only [serTreeM, serTree]
    exact serSeqWithM_mat h (fun a b hab => serTreeM_mat H src et a b hab) et _ len
  | list et lim =>
    simp only [serTreeM, serTree, listLengthM_mat h]
    cases listLength H n with
    | none => rfl
    | some len =>
      exact serSeqWithM_mat h (fun a b hab => serTreeM_mat H src et a b hab) et _ len
  | container fs =>
    simp only [serTreeM, serTree, serFieldsM_mat H src fs m n h]
  | union hasNone opts =>
    rcases optRel_cases (childM_left h) with ⟨h1, h2⟩ | ⟨c, c', h1, h2, hc⟩ <;>
      rcases optRel_cases (childM_right h) with ⟨h3, h4⟩ | ⟨s, s', h3, h4, hs⟩ <;>
      simp only [serTreeM, serTree, h1, h2, h3, h4]
    simp only [readLenM_mat hs, mat_root hc, serOptM_mat H src opts _ c c' hc]
theorem serFieldsM_mat (H : Hash) (src : Src) (ts : List Ty) (m : MNode) (n : Node)
    (h : Mat H src m n) (depth i : Nat) :
    serFieldsM H src ts m depth i = serFields H ts n depth i := by
  cases ts with
  | nil => simp only [serFieldsM, serFields]
  | cons t ts =>
    have h1 : ((getAtM src m i depth).bind fun c => serTreeM H src t c) =
        ((getAt n i depth).bind fun c => serTree H t c) :=
      optRel_bind_eq (getAtM_rel h i depth) fun a b hab => serTreeM_mat H src t a b hab
    simp only [serFieldsM, serFields, h1, serFieldsM_mat H src ts m n h depth (i + 1)]
    rfl
theorem serOptM_mat (H : Hash) (src : Src) (ts : List Ty) (k : Nat) (m : MNode) (n : Node)
    (h : Mat H src m n) :
    serOptM H src ts k m = serOpt H ts k n := by
  cases ts with
  | nil => simp only [serOptM, serOpt]
  | cons t ts =>
    cases k with
    | zero => simp only [serOptM, serOpt]; exact serTreeM_mat H src t m n h
    | succ k => simp only [serOptM, serOpt]; exact serOptM_mat H src ts k m n h
end

/-! ### (c) `to_obj()` from the tree -/

mutual
/-- `to_obj()` computed from a mixed tree = computed from the materialised tree -/
theorem toObjTreeM_mat (H : Hash) (src : Src) (t : Ty) (m : MNode) (n : Node) (h : Mat H src m n) :
    toObjTreeM H src t m = toObjTree H t n := by
  cases t with
  | uint nb => simp only [toObjTreeM, toObjTree, readBasicAtM_mat h]
  | bool => simp only [toObjTreeM, toObjTree, readBasicAtM_mat h]
  | bitvector k => simp only [toObjTreeM, toObjTree, serTreeM_mat H src _ m n h]
  | bitlist k => simp only [toObjTreeM, toObjTree, serTreeM_mat H src _ m n h]
  | bytevector k => simp only [toObjTreeM, toObjTree, serTreeM_mat H src _ m n h]
  | bytelist k => simp only [toObjTreeM, toObjTree, serTreeM_mat H src _ m n h]
  | vector et len =>
    simp only [toObjTreeM, toObjTree, packedIterM_mat h]
    split
    · rfl
    · rcases optRel_cases (nodeIterM_rel h (getDepth (chunkLen et len)) len) with
        ⟨k1, k2⟩ | ⟨ns, ns', k1, k2, hns⟩
      · rw [k1, k2]
      · rw [k1, k2]
        simp only []
        rw [allSome_map_allRel hns fun a b hab => toObjTreeM_mat H src et a b hab]
  | list et lim =>
    simp only [toObjTreeM, toObjTree, listLengthM_mat h, packedIterM_mat h]
    cases listLength H n with
    | none => rfl
    | some len =>
      simp only []
      split
      · rfl
      · rcases optRel_cases (nodeIterM_rel h (getDepth (chunkLen et lim) + 1) len) with
          ⟨k1, k2⟩ | ⟨ns, ns', k1, k2, hns⟩
        · rw [k1, k2]
        · rw [k1, k2]
          simp only []
          rw [allSome_map_allRel hns fun a b hab => toObjTreeM_mat H src et a b hab]
  | container fs =>
    simp only [toObjTreeM, toObjTree]
    rcases optRel_cases (nodeIterM_rel h (getDepth fs.length) fs.length) with
      ⟨k1, k2⟩ | ⟨ns, ns', k1, k2, hns⟩
    · rw [k1, k2]
    · rw [k1, k2]
      simp only [toObjTreeFieldsM_mat H src fs 0 ns ns' hns]
  | union hasNone opts =>
    rcases optRel_cases (childM_left h) with ⟨h1, h2⟩ | ⟨c, c', h1, h2, hc⟩ <;>
      rcases optRel_cases (childM_right h) with ⟨h3, h4⟩ | ⟨s, s', h3, h4, hs⟩ <;>
      simp only [toObjTreeM, toObjTree, h1, h2, h3, h4]
    simp only [readLenM_mat hs, mat_root hc, toObjTreeOptM_mat H src opts _ c c' hc]
theorem toObjTreeFieldsM_mat (H : Hash) (src : Src) (ts : List Ty) (i : Nat) (cs : List MNode)
    (cs' : List Node) (h : AllRel (Mat H src) cs cs') :
    toObjTreeFieldsM H src ts i cs = toObjTreeFields H ts i cs' := by
  cases ts with
  | nil => simp only [toObjTreeFieldsM, toObjTreeFields]
  | cons t ts =>
    cases cs with
    | nil =>
      cases cs' with
      | nil => simp only [toObjTreeFieldsM, toObjTreeFields]
      | cons c' cs' => exact absurd h (by simp [AllRel])
    | cons c cs =>
      cases cs' with
      | nil => exact absurd h (by simp [AllRel])
      | cons c' cs' =>
        simp only [toObjTreeFieldsM, toObjTreeFields, toObjTreeM_mat H src t c c' h.1,
          toObjTreeFieldsM_mat H src ts (i + 1) cs cs' h.2]
        rfl
theorem toObjTreeOptM_mat (H : Hash) (src : Src) (ts : List Ty) (k : Nat) (m : MNode) (n : Node)
    (h : Mat H src m n) :
    toObjTreeOptM H src ts k m = toObjTreeOpt H ts k n := by
  cases ts with
  | nil => simp only [toObjTreeOptM, toObjTreeOpt]
  | cons t ts =>
    cases k with
    | zero => simp only [toObjTreeOptM, toObjTreeOpt]; exact toObjTreeM_mat H src t m n h
    | succ k => simp only [toObjTreeOptM, toObjTreeOpt]; exact toObjTreeOptM_mat H src ts k m n h
end

/-! ### headline: a wholly virtual backing -/

/-- `serialize` and `to_obj` over the wholly virtual node `VirtualNode(n.root, src)`, whose source serves the
    tree `n`, give exactly the result (value or failure) they give over `n` -/
theorem virtual_ser_obj {H : Hash} {src : Src} {n : Node} (t : Ty) (hs : Serves H src n) :
    serTreeM H src t (.virt (n.root H)) = serTree H t n ∧
    toObjTreeM H src t (.virt (n.root H)) = toObjTree H t n :=
  ⟨serTreeM_mat H src t _ n (mat_virt hs), toObjTreeM_mat H src t _ n (mat_virt hs)⟩

/-- the iterators over the wholly virtual node -/
theorem virtual_iters {H : Hash} {src : Src} {n : Node} (hs : Serves H src n) (depth len : Nat) :
    OptRel (AllRel (Mat H src)) (nodeIterM src (.virt (n.root H)) depth len) (nodeIter n depth len) ∧
    (∀ et, packedIterM H src et (.virt (n.root H)) depth len = packedIter H et n depth len) ∧
    bitfieldIterM H src (.virt (n.root H)) depth len = bitfieldIter H n depth len :=
  ⟨nodeIterM_rel (mat_virt hs) depth len, fun et => packedIterM_mat (mat_virt hs) et depth len,
    bitfieldIterM_mat (mat_virt hs) depth len⟩

/-- the roots of the nodes `NodeIter` yields coincide (what an observer of the virtual iterator sees) -/
theorem nodeIterM_roots {H : Hash} {src : Src} {m : MNode} {n : Node} (h : Mat H src m n)
    (depth len : Nat) :
    (nodeIterM src m depth len).map (·.map (·.root H)) = (nodeIter n depth len).map (·.map (·.root H)) := by
  refine optRel_map_eq (nodeIterM_rel h depth len) ?_
  intro ns ns' hns
  induction ns generalizing ns' with
  | nil => cases ns' <;> simp_all [AllRel]
  | cons a ns ih =>
    cases ns' with
    | nil => simp [AllRel] at hns
    | cons b ns' => simp only [List.map_cons, mat_root hns.1, ih ns' hns.2]

/-- and for a half materialised backing (an ordinary tree seen as a mixed tree, whatever the source) -/
theorem ofNode_ser_obj (H : Hash) (src : Src) (n : Node) (t : Ty) :
    serTreeM H src t (MNode.ofNode n) = serTree H t n ∧
    toObjTreeM H src t (MNode.ofNode n) = toObjTree H t n :=
  ⟨serTreeM_mat H src t _ n (mat_ofNode H src n), toObjTreeM_mat H src t _ n (mat_ofNode H src n)⟩

/-! ### examples with a toy hash (non-vacuity) -/

/-- a toy hash without collisions on the trees below -/
private def H1 : Hash := fun a b => 255 :: (a ++ b)
/-- `Container{a: uint8, b: List[uint8, 64]}`; the list holds 7, 8, 9 (contents of depth 1, length mix-in 3) -/
private def tL : Ty := .list (.uint 1) 64
private def tC : Ty := .container [.uint 1, tL]
private def nL : Node := .pair (.pair (.leaf [7, 8, 9]) (.leaf [])) (.leaf [3])
private def nC : Node := .pair (.leaf [5]) nL
private def srcC : Src := srcOfDict (dictOf H1 nC)

example : Serves H1 srcC nC ∧ Serves H1 srcC nL := by decide
-- serialisation and `to_obj` through the wholly virtual backing, and through a half materialised one
example : serTreeM H1 srcC tC (.virt (nC.root H1)) = some ([5, 5, 0, 0, 0, 7, 8, 9], 8) ∧
    serTree H1 tC nC = some ([5, 5, 0, 0, 0, 7, 8, 9], 8) ∧
    serTreeM H1 srcC tC (.pair (.leaf [5]) (.virt (nL.root H1))) = some ([5, 5, 0, 0, 0, 7, 8, 9], 8) := by
  decide
example : toObjTreeM H1 srcC tC (.virt (nC.root H1)) = toObjTree H1 tC nC ∧
    (toObjTreeM H1 srcC tC (.virt (nC.root H1))).isSome = true := ⟨by rfl, by rfl⟩
-- the iterators: `NodeIter` over the two field nodes yields virtual nodes with the roots of the fields
example : nodeIterM srcC (.virt (nC.root H1)) 1 2 = some [.virt [5], .virt (nL.root H1)] ∧
    nodeIter nC 1 2 = some [.leaf [5], nL] := by decide
example : packedIterM H1 srcC (.uint 1) (.virt (nL.root H1)) 2 3 = some [.num 7, .num 8, .num 9] := by rfl
example : bitfieldIterM H1 srcC (.virt (nL.root H1)) 2 3 = some [true, true, true] ∧
    bitfieldIter H1 nL 2 3 = some [true, true, true] := by decide
-- failures coincide: a bottom node that is a pair (asked of the SOURCE for a virtual node) is refused
example : packedIterM H1 srcC (.uint 1) (.virt (nC.root H1)) 0 2 = none ∧
    packedIter H1 (.uint 1) nC 0 2 = none := ⟨by rfl, by rfl⟩
-- a virtual leaf iterated one level down raises like the materialised leaf
example : nodeIterM srcC (.virt [5]) 1 2 = none ∧ nodeIter (.leaf [5]) 1 2 = none := by decide

end Rmk.VirtualIterLaws
