/-
Laws of lazily loaded (virtual) trees (property C20): a mixed tree over a source that serves a
materialised tree navigates, fails and mutates exactly like the materialised tree, and memoising the
source's answers per node object makes every (node object, method) reach the source at most once.
All statements are generic in the pair hash `H`.
-/
import Rmk.Impl.Virtual
import Rmk.Proofs.TreeLaws
namespace Rmk.VirtualLaws
open Rmk Rmk.Virtual

/-- pointwise relation of two optional results: both fail, or both succeed with related values -/
def OptRel {α β} (R : α → β → Prop) : Option α → Option β → Prop
  | none, none => True
  | some a, some b => R a b
  | _, _ => False

theorem OptRel.none_iff {α β} {R : α → β → Prop} {x : Option α} {y : Option β}
    (h : OptRel R x y) : x = none ↔ y = none := by
  cases x <;> cases y <;> simp_all [OptRel]

theorem OptRel.some_some {α β} {R : α → β → Prop} {x : Option α} {y : Option β} {a : α} {b : β}
    (h : OptRel R x y) (hx : x = some a) (hy : y = some b) : R a b := by
  subst hx hy; exact h

theorem OptRel.map {α β α' β'} {R : α → β → Prop} {R' : α' → β' → Prop} {x : Option α} {y : Option β}
    (f : α → α') (g : β → β') (h : OptRel R x y) (hfg : ∀ a b, R a b → R' (f a) (g b)) :
    OptRel R' (x.map f) (y.map g) := by
  cases x <;> cases y <;> simp_all [OptRel]

/-! ### `Serves` and `Mat` -/

theorem serves_child {H : Hash} {src : Src} {l r : Node} (h : Serves H src (.pair l r)) (b : Bool) :
    Serves H src (if b then r else l) := by
  cases b
  · exact h.2.1
  · exact h.2.2

/-- a served tree serves all its subtrees -/
theorem serves_getPath {H : Hash} {src : Src} {n : Node} (h : Serves H src n) :
    ∀ (p : List Bool) (n' : Node), getPath n p = some n' → Serves H src n' := by
  intro p
  induction p generalizing n with
  | nil => intro n' hn; simp at hn; subst hn; exact h
  | cons b bs ih =>
    intro n' hn
    cases n with
    | leaf c => simp at hn
    | pair l r =>
      cases b
      · simp at hn; exact ih h.2.1 n' hn
      · simp at hn; exact ih h.2.2 n' hn

/-- a virtual node materialises to every tree with its root that the source serves -/
theorem mat_virt {H : Hash} {src : Src} {n : Node} (h : Serves H src n) :
    Mat H src (.virt (n.root H)) n := by
  cases n <;> exact ⟨rfl, h⟩

theorem mat_virt_iff {H : Hash} {src : Src} {c : Chunk} {n : Node} :
    Mat H src (.virt c) n ↔ n.root H = c ∧ Serves H src n := by
  cases n <;> simp [Mat]

/-- an ordinary tree, seen as a mixed tree, materialises to itself (whatever the source) -/
theorem mat_ofNode (H : Hash) (src : Src) (n : Node) : Mat H src (MNode.ofNode n) n := by
  induction n with
  | leaf c => simp [MNode.ofNode, Mat]
  | pair l r ihl ihr => exact ⟨ihl, ihr⟩

/-- 1. roots coincide (the virtual side never hashes below a virtual node) -/
theorem mat_root {H : Hash} {src : Src} {m : MNode} {n : Node} (h : Mat H src m n) :
    m.root H = n.root H := by
  induction m generalizing n with
  | leaf c => cases n <;> simp_all [Mat, MNode.root, Node.root]
  | pair l r ihl ihr =>
    cases n with
    | leaf c => simp [Mat] at h
    | pair l' r' => simp only [Mat] at h; simp [MNode.root, Node.root, ihl h.1, ihr h.2]
  | virt c => exact (mat_virt_iff.mp h).1.symm

/-- leaf-ness coincides -/
theorem isLeafM_mat {H : Hash} {src : Src} {m : MNode} {n : Node} (h : Mat H src m n) :
    isLeafM src m = n.isLeaf := by
  cases m with
  | leaf c => cases n <;> simp_all [Mat, isLeafM, Node.isLeaf]
  | pair l r => cases n <;> simp_all [Mat, isLeafM, Node.isLeaf]
  | virt c =>
    obtain ⟨_, hs⟩ := mat_virt_iff.mp h
    cases n with
    | leaf c' => simp_all [Serves, isLeafM, Node.isLeaf, Node.root]
    | pair l r => simp_all [Serves, isLeafM, Node.isLeaf]

/-- the children of related nodes are related, and `get_left/get_right` fail together -/
theorem childM_mat {H : Hash} {src : Src} {m : MNode} {n : Node} (h : Mat H src m n) (b : Bool) :
    OptRel (Mat H src) (childM src b m) (if b then getRight n else getLeft n) := by
  cases m with
  | leaf c => cases n <;> cases b <;> simp_all [Mat, childM, getLeft, getRight, OptRel]
  | pair l r =>
    cases n with
    | leaf c => simp [Mat] at h
    | pair l' r' => cases b <;> simp_all [Mat, childM, getLeft, getRight, OptRel]
  | virt c =>
    obtain ⟨hr, hs⟩ := mat_virt_iff.mp h
    cases n with
    | leaf c' =>
      have : src c = none := by rw [← hr]; exact hs
      cases b <;> simp [childM, this, getLeft, getRight, OptRel]
    | pair l r =>
      have hsrc : src c = some (l.root H, r.root H) := by rw [← hr]; exact hs.1
      cases b
      · simpa [childM, hsrc, getLeft, OptRel] using mat_virt hs.2.1
      · simpa [childM, hsrc, getRight, OptRel] using mat_virt hs.2.2

/-! ### 2. navigation -/

/-- navigation results and navigation errors coincide (relational form) -/
theorem getPathM_rel {H : Hash} {src : Src} {m : MNode} {n : Node} (h : Mat H src m n)
    (p : List Bool) : OptRel (Mat H src) (getPathM src m p) (getPath n p) := by
  induction p generalizing m n with
  | nil => simpa [getPathM, OptRel] using h
  | cons b bs ih =>
    cases m with
    | leaf c => cases n <;> simp_all [Mat, getPathM, OptRel]
    | pair l r =>
      cases n with
      | leaf c => simp [Mat] at h
      | pair l' r' =>
        simp only [Mat] at h
        cases b
        · simpa [getPathM] using ih h.1
        · simpa [getPathM] using ih h.2
    | virt c =>
      obtain ⟨hr, hs⟩ := mat_virt_iff.mp h
      cases n with
      | leaf c' =>
        have : src c = none := by rw [← hr]; exact hs
        simp [getPathM, this, OptRel]
      | pair l r =>
        have hsrc : src c = some (l.root H, r.root H) := by rw [← hr]; exact hs.1
        cases b
        · simpa [getPathM, hsrc] using ih (mat_virt hs.2.1)
        · simpa [getPathM, hsrc] using ih (mat_virt hs.2.2)

/-- 2. navigation errors coincide, and when both succeed the results are again `Mat`-related -/
theorem getPathM_mat {H : Hash} {src : Src} {m : MNode} {n : Node} (h : Mat H src m n)
    (p : List Bool) :
    (getPathM src m p = none ↔ getPath n p = none) ∧
    (∀ m' n', getPathM src m p = some m' → getPath n p = some n' → Mat H src m' n') :=
  ⟨(getPathM_rel h p).none_iff, fun _ _ hm hn => (getPathM_rel h p).some_some hm hn⟩

/-- the nodes reached have equal roots -/
theorem getPathM_root {H : Hash} {src : Src} {m : MNode} {n : Node} (h : Mat H src m n)
    (p : List Bool) : (getPathM src m p).map (·.root H) = (getPath n p).map (·.root H) := by
  have := getPathM_rel h p
  cases hm : getPathM src m p <;> cases hn : getPath n p <;> simp_all [OptRel]
  exact mat_root this

/-- gindex form (`Node.getter` on a mixed tree) -/
theorem getterM_mat {H : Hash} {src : Src} {m : MNode} {n : Node} (h : Mat H src m n) (g : Nat) :
    OptRel (Mat H src) (getterM src m g) (getter n g) := by
  unfold getterM getter
  by_cases hg : g = 0
  · simp [hg, OptRel]
  · simpa [hg] using getPathM_rel h (gbits g)

/-! ### 3. mutation -/

theorem expandSetM_mat {H : Hash} {src : Src} {v : MNode} {v' : Node} (hv : Mat H src v v')
    (p : List Bool) : Mat H src (expandSetM H p v) (expandSet H p v') := by
  induction p with
  | nil => simpa [expandSetM, expandSet] using hv
  | cons b bs ih => cases b <;> simp [expandSetM, expandSet, Mat, zeroNode, ih]

/-- writes fail together and give related trees (relational form) -/
theorem setPathM_rel {H : Hash} {src : Src} {m v : MNode} {n v' : Node} (e : Bool)
    (h : Mat H src m n) (hv : Mat H src v v') (p : List Bool) :
    OptRel (Mat H src) (setPathM H src e m p v) (setPath H e n p v') := by
  induction p generalizing m n with
  | nil => simpa [setPathM, OptRel] using hv
  | cons b bs ih =>
    cases m with
    | leaf c =>
      cases n with
      | pair l r => simp [Mat] at h
      | leaf c' =>
        simp only [Mat] at h; subst h
        simp only [setPathM, setPath_leaf_cons]
        split
        · exact expandSetM_mat hv (b :: bs)
        · trivial
    | pair l r =>
      cases n with
      | leaf c => simp [Mat] at h
      | pair l' r' =>
        simp only [Mat] at h
        cases b
        · simp only [setPathM, setPath_pair_cons, Bool.false_eq_true, if_false]
          exact (ih h.1).map _ _ fun a b hab => ⟨hab, h.2⟩
        · simp only [setPathM, setPath_pair_cons, if_true]
          exact (ih h.2).map _ _ fun a b hab => ⟨h.1, hab⟩
    | virt c =>
      obtain ⟨hr, hs⟩ := mat_virt_iff.mp h
      cases n with
      | leaf c' =>
        have hsrc : src c = none := by rw [← hr]; exact hs
        have hc : c' = c := by simpa [Node.root] using hr
        subst hc
        simp only [setPathM, hsrc, setPath_leaf_cons]
        split
        · exact expandSetM_mat hv (b :: bs)
        · trivial
      | pair l r =>
        have hsrc : src c = some (l.root H, r.root H) := by rw [← hr]; exact hs.1
        cases b
        · simp only [setPathM, hsrc, setPath_pair_cons, Bool.false_eq_true, if_false]
          exact (ih (mat_virt hs.2.1)).map _ _ fun a b hab => ⟨hab, mat_virt hs.2.2⟩
        · simp only [setPathM, hsrc, setPath_pair_cons, if_true]
          exact (ih (mat_virt hs.2.2)).map _ _ fun a b hab => ⟨mat_virt hs.2.1, hab⟩

/-- 3. writes through a mixed tree fail exactly when the write to the materialised tree fails, and the
    results are again `Mat`-related -/
theorem setPathM_mat {H : Hash} {src : Src} {m v : MNode} {n v' : Node} (e : Bool)
    (h : Mat H src m n) (hv : Mat H src v v') (p : List Bool) :
    (setPathM H src e m p v = none ↔ setPath H e n p v' = none) ∧
    (∀ m' n', setPathM H src e m p v = some m' → setPath H e n p v' = some n' → Mat H src m' n') :=
  ⟨(setPathM_rel e h hv p).none_iff, fun _ _ hm hn => (setPathM_rel e h hv p).some_some hm hn⟩

/-- roots after writes coincide -/
theorem setPathM_root {H : Hash} {src : Src} {m v : MNode} {n v' : Node} (e : Bool)
    (h : Mat H src m n) (hv : Mat H src v v') (p : List Bool) :
    (setPathM H src e m p v).map (·.root H) = (setPath H e n p v').map (·.root H) := by
  have := setPathM_rel e h hv p
  cases hm : setPathM H src e m p v <;> cases hn : setPath H e n p v' <;> simp_all [OptRel]
  exact mat_root this

/-- `setPathMTop` (no expansion of a top-level virtual leaf) differs from `setPathM` only there -/
theorem setPathMTop_eq (H : Hash) (src : Src) (e : Bool) (m : MNode) (p : List Bool) (v : MNode)
    (h : ∀ c, m = .virt c → src c = none → p = []) :
    setPathMTop H src e m p v = setPathM H src e m p v := by
  unfold setPathMTop
  split
  · rename_i c b bs
    cases hc : src c with
    | none => simpa using h c rfl hc
    | some a => simp
  · rfl

/-- without `expand` the two agree everywhere -/
theorem setPathMTop_noexpand (H : Hash) (src : Src) (m : MNode) (p : List Bool) (v : MNode) :
    setPathMTop H src false m p v = setPathM H src false m p v := by
  unfold setPathMTop
  split
  · rename_i c b bs
    cases hc : src c with
    | none => simp [setPathM, hc]
    | some a => simp
  · rfl

/-- gindex form of 3. (`setter` on a mixed tree): for EVERY top node (since the repair D15 a top-level virtual
    leaf behaves like the materialised leaf) -/
theorem setterM_mat {H : Hash} {src : Src} {m v : MNode} {n v' : Node} (e : Bool)
    (h : Mat H src m n) (hv : Mat H src v v') (g : Nat) :
    OptRel (Mat H src) (setterM H src m g e v) (setter H n g e v') := by
  unfold setterM setter
  by_cases hg : g = 0
  · simp [hg, OptRel]
  · simp only [hg, if_false]
    exact setPathM_rel e h hv _

/-- the unrepaired `setter` agrees for every top node that is not a virtual leaf (and everywhere without `expand`) -/
theorem setterMUnrepaired_mat {H : Hash} {src : Src} {m v : MNode} {n v' : Node} (e : Bool)
    (h : Mat H src m n) (hv : Mat H src v v') (g : Nat)
    (htop : e = false ∨ ∀ c, m = .virt c → src c ≠ none) :
    OptRel (Mat H src) (setterMUnrepaired H src m g e v) (setter H n g e v') := by
  unfold setterMUnrepaired setter
  by_cases hg : g = 0
  · simp [hg, OptRel]
  · simp only [hg, if_false]
    rcases htop with rfl | htop
    · rw [setPathMTop_noexpand]; exact setPathM_rel false h hv _
    · rw [setPathMTop_eq]
      · exact setPathM_rel e h hv _
      · intro c hc hn; exact absurd hn (htop c hc)

/-- get-after-set through a virtual backing: reading the written position gives a node related to
    the one written -/
theorem getPathM_setPathM_same {H : Hash} {src : Src} {m v : MNode} {n v' : Node} (e : Bool)
    (h : Mat H src m n) (hv : Mat H src v v') (p : List Bool) (m' : MNode)
    (hm : setPathM H src e m p v = some m') :
    ∃ w, getPathM src m' p = some w ∧ Mat H src w v' := by
  have hrel := setPathM_rel e h hv p
  rw [hm] at hrel
  cases hn : setPath H e n p v' with
  | none => simp [hn, OptRel] at hrel
  | some n' =>
    rw [hn] at hrel
    have hg := getPath_setPath_same H e n p v' n' hn
    have hrel2 := getPathM_rel (show Mat H src m' n' from hrel) p
    rw [hg] at hrel2
    cases hw : getPathM src m' p with
    | none => simp [hw, OptRel] at hrel2
    | some w => rw [hw] at hrel2; exact ⟨w, rfl, hrel2⟩

/-! ### 4a. the source is consulted only through `src root`, once per node along the path -/

theorem getPathLog_fst (src : Src) (m : MNode) (p : List Bool) :
    (getPathLog src m p).1 = getPathM src m p := by
  induction p generalizing m with
  | nil => simp [getPathLog, getPathM]
  | cons b bs ih =>
    cases m with
    | leaf c => simp [getPathLog, getPathM]
    | pair l r => cases b <;> simp [getPathLog, getPathM, ih]
    | virt c =>
      cases hc : src c with
      | none => simp [getPathLog, getPathM, hc]
      | some a => simp [getPathLog, getPathM, hc, ih]

/-- a navigation of path `p` makes at most `p.length` source queries -/
theorem getPathLog_length (src : Src) (m : MNode) (p : List Bool) :
    (getPathLog src m p).2.length ≤ p.length := by
  induction p generalizing m with
  | nil => simp [getPathLog]
  | cons b bs ih =>
    cases m with
    | leaf c => simp [getPathLog]
    | pair l r =>
      cases b
      · have := ih l; simp [getPathLog]; omega
      · have := ih r; simp [getPathLog]; omega
    | virt c =>
      cases hc : src c with
      | none => simp [getPathLog, hc]
      | some a =>
        have := ih (.virt (if b then a.2 else a.1))
        simp [getPathLog, hc]; omega

/-- every query is made for a node on the path (strictly above the target): the virtual node at that
    position, asked by its root -/
theorem getPathLog_nodes (src : Src) (m : MNode) (p : List Bool) :
    ∀ e ∈ (getPathLog src m p).2,
      e.1 <+: p ∧ e.1.length < p.length ∧ getPathM src m e.1 = some (.virt e.2) := by
  induction p generalizing m with
  | nil => simp [getPathLog]
  | cons b bs ih =>
    cases m with
    | leaf c => simp [getPathLog]
    | pair l r =>
      intro e he
      cases b
      · simp only [getPathLog, Bool.false_eq_true, if_false, List.mem_map] at he
        obtain ⟨e', he', rfl⟩ := he
        obtain ⟨h1, h2, h3⟩ := ih l e' he'
        refine ⟨?_, by simpa using h2, by simpa [getPathM] using h3⟩
        obtain ⟨t, ht⟩ := h1; exact ⟨t, by simp [ht]⟩
      · simp only [getPathLog, if_true, List.mem_map] at he
        obtain ⟨e', he', rfl⟩ := he
        obtain ⟨h1, h2, h3⟩ := ih r e' he'
        refine ⟨?_, by simpa using h2, by simpa [getPathM] using h3⟩
        obtain ⟨t, ht⟩ := h1; exact ⟨t, by simp [ht]⟩
    | virt c =>
      intro e he
      cases hc : src c with
      | none =>
        simp only [getPathLog, hc, List.mem_singleton] at he
        subst he; simp [getPathM]
      | some a =>
        simp only [getPathLog, hc, List.mem_cons, List.mem_map] at he
        rcases he with rfl | ⟨e', he', rfl⟩
        · simp [getPathM]
        · obtain ⟨h1, h2, h3⟩ := ih _ e' he'
          refine ⟨?_, by simpa using h2, by simpa [getPathM, hc] using h3⟩
          obtain ⟨t, ht⟩ := h1; exact ⟨t, by simp [ht]⟩

/-- the queried positions are strictly deeper and deeper -/
theorem getPathLog_sorted (src : Src) (m : MNode) (p : List Bool) :
    ((getPathLog src m p).2.map (·.1.length)).Pairwise (· < ·) := by
  induction p generalizing m with
  | nil => simp [getPathLog]
  | cons b bs ih =>
    cases m with
    | leaf c => simp [getPathLog]
    | pair l r =>
      cases b
      · have := ih l
        simp only [getPathLog, Bool.false_eq_true, if_false, List.map_map]
        rw [List.pairwise_map] at this ⊢
        exact this.imp (by intro a b h; simpa using h)
      · have := ih r
        simp only [getPathLog, if_true, List.map_map]
        rw [List.pairwise_map] at this ⊢
        exact this.imp (by intro a b h; simpa using h)
    | virt c =>
      cases hc : src c with
      | none => simp [getPathLog, hc]
      | some a =>
        have := ih (.virt (if b then a.2 else a.1))
        simp only [getPathLog, hc, List.map_cons, List.map_map, List.pairwise_cons]
        refine ⟨by simp; intros; omega, ?_⟩
        rw [List.pairwise_map] at this ⊢
        exact this.imp (by intro a b h; simpa using h)

/-- hence every node along the path is asked at most once per navigation -/
theorem getPathLog_nodup (src : Src) (m : MNode) (p : List Bool) :
    ((getPathLog src m p).2.map (·.1)).Nodup := by
  have h := getPathLog_sorted src m p
  rw [List.pairwise_map] at h
  rw [List.Nodup, List.pairwise_map]
  exact h.imp (by intro a b hlt heq; rw [heq] at hlt; omega)

/-- the answers are functions of the root only: a source that agrees with `src` on the roots of the
    nodes asked along the path gives the same navigation (result and queries) -/
theorem getPathLog_congr (src src' : Src) (m : MNode) (p : List Bool)
    (h : ∀ e ∈ (getPathLog src m p).2, src' e.2 = src e.2) :
    getPathLog src' m p = getPathLog src m p := by
  induction p generalizing m with
  | nil => simp [getPathLog]
  | cons b bs ih =>
    cases m with
    | leaf c => simp [getPathLog]
    | pair l r =>
      cases b
      · simp only [getPathLog, Bool.false_eq_true, if_false] at h ⊢
        rw [ih l (by intro e he; exact h (false :: e.1, e.2) (List.mem_map.mpr ⟨e, he, rfl⟩))]
      · simp only [getPathLog, if_true] at h ⊢
        rw [ih r (by intro e he; exact h (true :: e.1, e.2) (List.mem_map.mpr ⟨e, he, rfl⟩))]
    | virt c =>
      cases hc : src c with
      | none =>
        have : src' c = none := by rw [← hc]; exact h ([], c) (by simp [getPathLog, hc])
        simp [getPathLog, hc, this]
      | some a =>
        have hc' : src' c = some a := by rw [← hc]; exact h ([], c) (by simp [getPathLog, hc])
        simp only [getPathLog, hc, hc'] at h ⊢
        rw [ih _ (by intro e he; exact h (b :: e.1, e.2) (List.mem_cons_of_mem _ (List.mem_map.mpr ⟨e, he, rfl⟩)))]

theorem getPathM_congr (src src' : Src) (m : MNode) (p : List Bool)
    (h : ∀ e ∈ (getPathLog src m p).2, src' e.2 = src e.2) :
    getPathM src' m p = getPathM src m p := by
  rw [← getPathLog_fst, ← getPathLog_fst, getPathLog_congr src src' m p h]

/-! ### 4b. memoising answers by root cannot change any result -/

/-- a memo table keyed by roots -/
abbrev Table := List (Chunk × Option (Chunk × Chunk))

/-- the source seen through a memo table: a memoised answer is used instead of asking -/
def memoSrc (src : Src) (tbl : Table) : Src := fun c =>
  match tbl.lookup c with
  | some a => a
  | none => src c

/-- the table holds only answers the source gave -/
def TableOk (src : Src) (tbl : Table) : Prop := ∀ c a, tbl.lookup c = some a → src c = a

theorem memoSrc_eq {src : Src} {tbl : Table} (h : TableOk src tbl) : memoSrc src tbl = src := by
  funext c
  unfold memoSrc
  cases hl : tbl.lookup c with
  | none => rfl
  | some a => exact (h c a hl).symm

/-- recording an answer of the source keeps the table sound -/
theorem tableOk_cons {src : Src} {tbl : Table} (h : TableOk src tbl) (c : Chunk) :
    TableOk src ((c, src c) :: tbl) := by
  intro c' a hl
  by_cases hc : c' = c
  · subst hc; simpa [List.lookup] using hl
  · have : (c' == c) = false := by simpa using hc
    rw [List.lookup, this] at hl
    exact h c' a hl

theorem tableOk_nil (src : Src) : TableOk src [] := by intro c a h; simp at h

/-- `memo_sound`: navigation and mutation through a memoised source give the same results -/
theorem memo_sound {src : Src} {tbl : Table} (h : TableOk src tbl) (H : Hash) :
    getPathM (memoSrc src tbl) = getPathM src ∧ setPathM H (memoSrc src tbl) = setPathM H src ∧
    isLeafM (memoSrc src tbl) = isLeafM src := by
  rw [memoSrc_eq h]; exact ⟨rfl, rfl, rfl⟩

/-! ### 4c. per-node memoisation: every (node object, method) is answered by the source at most once -/

@[simp] theorem bind_fst {α β} (f : Step α) (g : α → Step β) (m : Memo) :
    (f.bind g m).1 = (g (f m).1 (f m).2.1).1 := rfl
@[simp] theorem bind_memo {α β} (f : Step α) (g : α → Step β) (m : Memo) :
    (f.bind g m).2.1 = (g (f m).1 (f m).2.1).2.1 := rfl
@[simp] theorem bind_log {α β} (f : Step α) (g : α → Step β) (m : Memo) :
    (f.bind g m).2.2 = (f m).2.2 ++ (g (f m).1 (f m).2.1).2.2 := rfl

@[simp] theorem answered_nil : answered [] = [] := rfl
@[simp] theorem answered_append (l1 l2 : List Query) :
    answered (l1 ++ l2) = answered l1 ++ answered l2 := by simp [answered]
theorem answered_under (b : Bool) (log : List Query) :
    answered (log.map (Query.under b)) = (answered log).map fun e => (b :: e.1, e.2) := by
  induction log with
  | nil => rfl
  | cons q qs ih =>
    cases hq : q.ok <;> simp_all [answered, Query.under]

theorem isCell_eq (m : Memo) : m.isCell = m.rootOf.isSome := by cases m <;> rfl

/-- a well-behaved memoising program: it asks the source only what is not memoised yet, memoises every
    answer, forgets nothing, and keeps the node object -/
structure Good {α} (f : Step α) : Prop where
  fresh : ∀ m pos k, (pos, k) ∈ answered (f m).2.2 → m.has pos k = false
  kept : ∀ m pos k, (pos, k) ∈ answered (f m).2.2 → (f m).2.1.has pos k = true
  mono : ∀ m pos k, m.has pos k = true → (f m).2.1.has pos k = true
  nodup : ∀ m, (answered (f m).2.2).Nodup
  root : ∀ m, (f m).2.1.rootOf = m.rootOf

theorem Good.pure {α} (a : α) : Good (Step.pure a) :=
  ⟨by simp [Step.pure], by simp [Step.pure], by simp [Step.pure], by simp [Step.pure],
    by simp [Step.pure]⟩

/-- sequencing (the second program may depend on the result of the first) -/
theorem Good.bind {α β} {f : Step α} {g : α → Step β} (hf : Good f) (hg : ∀ a, Good (g a)) :
    Good (f.bind g) where
  fresh m pos k h := by
    simp only [bind_log, answered_append, List.mem_append] at h
    rcases h with h | h
    · exact hf.fresh m pos k h
    · have h1 := (hg _).fresh _ pos k h
      cases hm : m.has pos k with
      | false => rfl
      | true => rw [hf.mono m pos k hm] at h1; exact h1
  kept m pos k h := by
    simp only [bind_log, answered_append, List.mem_append] at h
    rcases h with h | h
    · exact (hg _).mono _ pos k (hf.kept m pos k h)
    · exact (hg _).kept _ pos k h
  mono m pos k h := (hg _).mono _ pos k (hf.mono m pos k h)
  nodup m := by
    simp only [bind_log, answered_append]
    refine List.nodup_append.mpr ⟨hf.nodup m, (hg _).nodup _, ?_⟩
    intro a ha b hb hab
    subst hab
    have h1 := hf.kept m a.1 a.2 ha
    have h2 := (hg _).fresh _ a.1 a.2 hb
    rw [h1] at h2; cases h2
  root m := by simp [(hg _).root, hf.root]

theorem Good.ite {α} {c : Prop} [Decidable c] {f g : Step α} (hf : Good f) (hg : Good g) :
    Good (if c then f else g) := by split <;> assumption

theorem has_cons (c : Chunk) (il : Option Bool) (l r : Memo) (b : Bool) (q : List Bool) (k : Kind) :
    (Memo.cell c il l r).has (b :: q) k = (if b then r else l).has q k := by
  cases k <;> rfl

theorem nodup_under (b : Bool) (l : List (List Bool × Kind)) (h : l.Nodup) :
    (l.map fun e => (b :: e.1, e.2)).Nodup := by
  rw [List.Nodup, List.pairwise_map]
  exact h.imp (by
    intro x y hxy heq
    apply hxy
    simp only [Prod.mk.injEq, List.cons.injEq, true_and] at heq
    exact Prod.ext heq.1 heq.2)

/-- the part of `Good` for a program run on the node object in a child slot -/
private theorem good_focus_cell {α} {f : Step α} (hf : Good f) (b : Bool) (c : Chunk)
    (il : Option Bool) (l r s : Memo) (hs : s.isCell = true) (hsl : (if b then r else l) = s) :
    let m := Memo.cell c il l r
    let m' := if b then Memo.cell c il l (f s).2.1 else Memo.cell c il (f s).2.1 r
    let log := (f s).2.2.map (Query.under b)
    (∀ pos k, (pos, k) ∈ answered log → m.has pos k = false) ∧
    (∀ pos k, (pos, k) ∈ answered log → m'.has pos k = true) ∧
    (∀ pos k, m.has pos k = true → m'.has pos k = true) ∧
    (answered log).Nodup ∧ m'.rootOf = m.rootOf := by
  have hcell : (f s).2.1.isCell = true := by rw [isCell_eq, hf.root, ← isCell_eq]; exact hs
  refine ⟨?_, ?_, ?_, ?_, ?_⟩
  · intro pos k h
    rw [answered_under, List.mem_map] at h
    obtain ⟨e, he, heq⟩ := h
    cases heq
    rw [has_cons, hsl]; exact hf.fresh s e.1 e.2 he
  · intro pos k h
    rw [answered_under, List.mem_map] at h
    obtain ⟨e, he, heq⟩ := h
    cases heq
    cases b <;> simp only [Bool.false_eq_true, if_false, if_true, has_cons] <;>
      exact hf.kept s e.1 e.2 he
  · intro pos k h
    cases pos with
    | nil =>
      cases b <;> cases k <;> simp_all [Memo.has]
    | cons b' q =>
      rw [has_cons] at h
      cases b <;> cases b' <;> simp_all [has_cons] <;> exact hf.mono s q k h
  · rw [answered_under]; exact nodup_under b _ (hf.nodup s)
  · cases b <;> rfl

/-- running a program on the node object memoised in a child slot -/
theorem Good.focus {α} {f : Step α} (hf : Good f) (b : Bool) (d : α) : Good (Step.focus b d f) := by
  have key : ∀ m : Memo,
      (∀ pos k, (pos, k) ∈ answered (Step.focus b d f m).2.2 → m.has pos k = false) ∧
      (∀ pos k, (pos, k) ∈ answered (Step.focus b d f m).2.2 →
        (Step.focus b d f m).2.1.has pos k = true) ∧
      (∀ pos k, m.has pos k = true → (Step.focus b d f m).2.1.has pos k = true) ∧
      (answered (Step.focus b d f m).2.2).Nodup ∧
      (Step.focus b d f m).2.1.rootOf = m.rootOf := by
    intro m
    cases m with
    | unk => simp [Step.focus]
    | cell c il l r =>
      cases hs : (if b then r else l) with
      | unk => simp [Step.focus, hs]
      | cell c' il' l' r' =>
        have := good_focus_cell hf b c il l r (.cell c' il' l' r') rfl hs
        simpa [Step.focus, hs] using this
  exact ⟨fun m => (key m).1, fun m => (key m).2.1, fun m => (key m).2.2.1,
    fun m => (key m).2.2.2.1, fun m => (key m).2.2.2.2⟩

theorem good_cellIsLeaf (src : Src) : Good (cellIsLeaf src) := by
  have key : ∀ m : Memo,
      (∀ pos k, (pos, k) ∈ answered (cellIsLeaf src m).2.2 → m.has pos k = false) ∧
      (∀ pos k, (pos, k) ∈ answered (cellIsLeaf src m).2.2 →
        (cellIsLeaf src m).2.1.has pos k = true) ∧
      (∀ pos k, m.has pos k = true → (cellIsLeaf src m).2.1.has pos k = true) ∧
      (answered (cellIsLeaf src m).2.2).Nodup ∧
      (cellIsLeaf src m).2.1.rootOf = m.rootOf := by
    intro m
    cases m with
    | unk => simp [cellIsLeaf]
    | cell c il l r =>
      cases il with
      | some a => simp [cellIsLeaf]
      | none =>
        refine ⟨?_, ?_, ?_, ?_, rfl⟩
        · intro pos k h; simp [cellIsLeaf, answered] at h; obtain ⟨rfl, rfl⟩ := h; rfl
        · intro pos k h; simp [cellIsLeaf, answered] at h; obtain ⟨rfl, rfl⟩ := h; rfl
        · intro pos k h
          cases pos with
          | nil => cases k <;> simp_all [cellIsLeaf, Memo.has]
          | cons b q => simpa [cellIsLeaf, has_cons] using h
        · simp [cellIsLeaf, answered]
  exact ⟨fun m => (key m).1, fun m => (key m).2.1, fun m => (key m).2.2.1,
    fun m => (key m).2.2.2.1, fun m => (key m).2.2.2.2⟩

theorem good_cellFetch (src : Src) (b : Bool) : Good (cellFetch src b) := by
  have key : ∀ m : Memo,
      (∀ pos k, (pos, k) ∈ answered (cellFetch src b m).2.2 → m.has pos k = false) ∧
      (∀ pos k, (pos, k) ∈ answered (cellFetch src b m).2.2 →
        (cellFetch src b m).2.1.has pos k = true) ∧
      (∀ pos k, m.has pos k = true → (cellFetch src b m).2.1.has pos k = true) ∧
      (answered (cellFetch src b m).2.2).Nodup ∧
      (cellFetch src b m).2.1.rootOf = m.rootOf := by
    intro m
    cases m with
    | unk => simp [cellFetch]
    | cell c il l r =>
      cases hs : (if b then r else l) with
      | cell c' il' l' r' => simp [cellFetch, hs]
      | unk =>
        by_cases hil : il = some true
        · simp [cellFetch, hs, hil]
        · cases hc : src c with
          | none => simp [cellFetch, hs, hil, hc, answered]
          | some a =>
            cases b <;> simp only [Bool.false_eq_true, if_false, if_true] at hs <;> subst hs
            all_goals
              refine ⟨?_, ?_, ?_, ?_, ?_⟩
              · intro pos k h
                simp [cellFetch, hil, hc, answered] at h
                obtain ⟨rfl, rfl⟩ := h
                simp [Kind.ofDir, Memo.has, Memo.isCell]
              · intro pos k h
                simp [cellFetch, hil, hc, answered] at h
                obtain ⟨rfl, rfl⟩ := h
                simp [cellFetch, hil, hc, Kind.ofDir, Memo.has, Memo.isCell, Memo.fresh]
              · intro pos k h
                cases pos with
                | nil =>
                  cases k <;> simp_all [cellFetch, Memo.has, Memo.isCell, Memo.fresh]
                | cons b' q =>
                  rw [has_cons] at h
                  cases b' <;> simp_all [cellFetch, has_cons, Memo.has]
              · simp [cellFetch, hil, hc, answered]
              · simp [cellFetch, hil, hc, Memo.rootOf]
  exact ⟨fun m => (key m).1, fun m => (key m).2.1, fun m => (key m).2.2.1,
    fun m => (key m).2.2.2.1, fun m => (key m).2.2.2.2⟩

theorem good_navMemo (src : Src) (p : List Bool) : Good (navMemo src p) := by
  induction p with
  | nil =>
    exact ⟨by simp [navMemo], by simp [navMemo], by simp [navMemo], by simp [navMemo],
      by simp [navMemo]⟩
  | cons b bs ih =>
    exact (good_cellFetch src b).bind fun _ => Good.ite (ih.focus b none) (Good.pure none)

theorem good_setQueriesMemo (H : Hash) (src : Src) (e : Bool) :
    ∀ p : List Bool, Good (setQueriesMemo H src e p)
  | [] => Good.pure true
  | [b] => good_cellFetch src (!b)
  | b :: b' :: bs =>
    (good_cellFetch src b).bind fun _ =>
      Good.ite (Good.pure false) <|
        ((good_cellIsLeaf src).focus b true).bind fun _ =>
          Good.ite
            ((((good_navMemo src []).focus b none)).bind fun _ =>
              Good.ite (good_cellFetch src (!b)) (Good.pure false))
            (((good_setQueriesMemo H src e (b' :: bs)).focus b false).bind fun _ =>
              Good.ite (good_cellFetch src (!b)) (Good.pure false))

theorem good_runNavs (src : Src) (ps : List (List Bool)) : Good (runNavs src ps) := by
  induction ps with
  | nil => exact Good.pure []
  | cons p ps ih =>
    exact (good_navMemo src p).bind fun a => ih.bind fun as => Good.pure (a :: as)

/-- 4. a sequence of navigations on one virtual node object (memo state `m` threaded through): every
    (node object, method) is answered by the source at most once, and never when the answer was
    already memoised before the sequence started -/
theorem runNavs_at_most_once (src : Src) (ps : List (List Bool)) (m : Memo) :
    (answered (runNavs src ps m).2.2).Nodup ∧
    ∀ pos k, (pos, k) ∈ answered (runNavs src ps m).2.2 → m.has pos k = false :=
  ⟨(good_runNavs src ps).nodup m, (good_runNavs src ps).fresh m⟩

/-- the same for the queries of a write (`setter` and the call of its link), which also uses the
    `is_leaf()` memo -/
theorem setQueries_at_most_once (H : Hash) (src : Src) (e : Bool) (p : List Bool) (m : Memo) :
    (answered (setQueriesMemo H src e p m).2.2).Nodup ∧
    ∀ pos k, (pos, k) ∈ answered (setQueriesMemo H src e p m).2.2 → m.has pos k = false :=
  ⟨(good_setQueriesMemo H src e p).nodup m, (good_setQueriesMemo H src e p).fresh m⟩

/-! ### 4d. the memoised navigation computes `getPathM` (`memo_sound` for the per-node memo) -/

theorem ok_fresh (src : Src) (c : Chunk) : Memo.Ok src (.fresh c) := by
  simp [Memo.fresh, Memo.Ok, Memo.rootOf]

/-- a memoised navigation from a node object whose memo agrees with the source returns what the
    unmemoised navigation from a fresh virtual node with the same root returns, and the memo still agrees
    with the source afterwards -/
theorem navMemo_sound (src : Src) (p : List Bool) :
    ∀ (m : Memo) (c : Chunk), Memo.Ok src m → m.rootOf = some c →
      (navMemo src p m).1.map MNode.virt = getPathM src (.virt c) p ∧
      Memo.Ok src (navMemo src p m).2.1 := by
  induction p with
  | nil => intro m c hok hc; simp [navMemo, hc, getPathM, hok]
  | cons b bs ih =>
    intro m c hok hc
    cases m with
    | unk => simp [Memo.rootOf] at hc
    | cell c0 il l r =>
      have : c0 = c := by simpa [Memo.rootOf] using hc
      subst this
      have hok0 := hok
      obtain ⟨hil, hl, hr, hokl, hokr⟩ := hok
      cases b
      · -- left
        cases l with
        | cell c' il' l' r' =>
          obtain ⟨cr, hsrc⟩ := hl c' rfl
          have := ih (.cell c' il' l' r') c' hokl rfl
          refine ⟨?_, ?_⟩
          · simpa [navMemo, cellFetch, Step.focus, getPathM, hsrc] using this.1
          · have hroot := (good_navMemo src bs).root (.cell c' il' l' r')
            simp only [navMemo, cellFetch, Step.focus, bind_memo, if_true,
              Bool.false_eq_true, if_false]
            exact ⟨hil, by rw [hroot]; exact hl, hr, this.2, hokr⟩
        | unk =>
          by_cases h1 : il = some true
          · have : src c0 = none := by simpa using (hil true h1).symm
            refine ⟨by simp [navMemo, cellFetch, h1, Step.pure, getPathM, this], ?_⟩
            simpa [navMemo, cellFetch, h1, Step.pure] using hok0
          · cases hsrc : src c0 with
            | none =>
              refine ⟨by simp [navMemo, cellFetch, h1, hsrc, Step.pure, getPathM], ?_⟩
              simpa [navMemo, cellFetch, h1, hsrc, Step.pure] using hok0
            | some a =>
              have := ih (.fresh a.1) a.1 (ok_fresh src a.1) rfl
              refine ⟨?_, ?_⟩
              · simpa [navMemo, cellFetch, h1, hsrc, Step.focus, getPathM, Memo.fresh] using this.1
              · have hroot := (good_navMemo src bs).root (.fresh a.1)
                simp only [navMemo, cellFetch, h1, hsrc, Step.focus, bind_memo,
                  Bool.false_eq_true, ↓reduceIte, Memo.fresh] at this hroot ⊢
                refine ⟨hil, ?_, hr, this.2, hokr⟩
                rw [hroot]; intro cl hcl
                exact ⟨a.2, by simp [Memo.rootOf] at hcl; rw [← hcl]; exact hsrc⟩
      · -- right
        cases r with
        | cell c' il' l' r' =>
          obtain ⟨cl, hsrc⟩ := hr c' rfl
          have := ih (.cell c' il' l' r') c' hokr rfl
          refine ⟨?_, ?_⟩
          · simpa [navMemo, cellFetch, Step.focus, getPathM, hsrc] using this.1
          · have hroot := (good_navMemo src bs).root (.cell c' il' l' r')
            simp only [navMemo, cellFetch, Step.focus, bind_memo, ↓reduceIte]
            exact ⟨hil, hl, by rw [hroot]; exact hr, hokl, this.2⟩
        | unk =>
          by_cases h1 : il = some true
          · have : src c0 = none := by simpa using (hil true h1).symm
            refine ⟨by simp [navMemo, cellFetch, h1, Step.pure, getPathM, this], ?_⟩
            simpa [navMemo, cellFetch, h1, Step.pure] using hok0
          · cases hsrc : src c0 with
            | none =>
              refine ⟨by simp [navMemo, cellFetch, h1, hsrc, Step.pure, getPathM], ?_⟩
              simpa [navMemo, cellFetch, h1, hsrc, Step.pure] using hok0
            | some a =>
              have := ih (.fresh a.2) a.2 (ok_fresh src a.2) rfl
              refine ⟨?_, ?_⟩
              · simpa [navMemo, cellFetch, h1, hsrc, Step.focus, getPathM, Memo.fresh] using this.1
              · have hroot := (good_navMemo src bs).root (.fresh a.2)
                simp only [navMemo, cellFetch, h1, hsrc, Step.focus, bind_memo,
                  ↓reduceIte, Memo.fresh] at this hroot ⊢
                refine ⟨hil, hl, ?_, hokl, this.2⟩
                rw [hroot]; intro cr hcr
                exact ⟨a.1, by simp [Memo.rootOf] at hcr; rw [← hcr]; exact hsrc⟩

/-! ### 4e. a repeated navigation asks nothing; sequences; end to end -/

theorem nav_known_L (src : Src) (bs : List Bool) (c : Chunk) (il : Option Bool) (r : Memo)
    (c' : Chunk) (il' : Option Bool) (l' r' : Memo) :
    navMemo src (false :: bs) (.cell c il (.cell c' il' l' r') r) =
      ((navMemo src bs (.cell c' il' l' r')).1,
       .cell c il (navMemo src bs (.cell c' il' l' r')).2.1 r,
       (navMemo src bs (.cell c' il' l' r')).2.2.map (Query.under false)) := by
  simp [navMemo, cellFetch, Step.bind, Step.focus]

theorem nav_known_R (src : Src) (bs : List Bool) (c : Chunk) (il : Option Bool) (l : Memo)
    (c' : Chunk) (il' : Option Bool) (l' r' : Memo) :
    navMemo src (true :: bs) (.cell c il l (.cell c' il' l' r')) =
      ((navMemo src bs (.cell c' il' l' r')).1,
       .cell c il l (navMemo src bs (.cell c' il' l' r')).2.1,
       (navMemo src bs (.cell c' il' l' r')).2.2.map (Query.under true)) := by
  simp [navMemo, cellFetch, Step.bind, Step.focus]

theorem nav_unk_L (src : Src) (bs : List Bool) (c : Chunk) (il : Option Bool) (r : Memo)
    (a : Chunk × Chunk) (h1 : ¬ il = some true) (hsrc : src c = some a) :
    navMemo src (false :: bs) (.cell c il .unk r) =
      ((navMemo src bs (.fresh a.1)).1,
       .cell c il (navMemo src bs (.fresh a.1)).2.1 r,
       ⟨[], .left, true⟩ :: (navMemo src bs (.fresh a.1)).2.2.map (Query.under false)) := by
  simp [navMemo, cellFetch, Step.bind, Step.focus, h1, hsrc, Memo.fresh, Kind.ofDir]

theorem nav_unk_R (src : Src) (bs : List Bool) (c : Chunk) (il : Option Bool) (l : Memo)
    (a : Chunk × Chunk) (h1 : ¬ il = some true) (hsrc : src c = some a) :
    navMemo src (true :: bs) (.cell c il l .unk) =
      ((navMemo src bs (.fresh a.2)).1,
       .cell c il l (navMemo src bs (.fresh a.2)).2.1,
       ⟨[], .right, true⟩ :: (navMemo src bs (.fresh a.2)).2.2.map (Query.under true)) := by
  simp [navMemo, cellFetch, Step.bind, Step.focus, h1, hsrc, Memo.fresh, Kind.ofDir]
theorem cell_of_rootOf {m : Memo} {c : Chunk} (h : m.rootOf = some c) :
    ∃ il l r, m = .cell c il l r := by
  cases m with
  | unk => simp [Memo.rootOf] at h
  | cell c0 il l r => simp [Memo.rootOf] at h; subst h; exact ⟨il, l, r, rfl⟩

/-- a successful navigation, repeated on the same node object, asks the source nothing, changes
    nothing and returns the same node -/
theorem navMemo_again (src : Src) (p : List Bool) :
    ∀ (m : Memo) (x : Chunk), (navMemo src p m).1 = some x →
      navMemo src p (navMemo src p m).2.1 = (some x, (navMemo src p m).2.1, []) := by
  induction p with
  | nil => intro m x h; simp [navMemo] at h ⊢; exact h
  | cons b bs ih =>
    intro m x h
    cases m with
    | unk => simp [navMemo, cellFetch, Step.bind, Step.pure] at h
    | cell c il l r =>
      cases b
      · cases l with
        | cell c' il' l' r' =>
          rw [nav_known_L] at h ⊢
          simp only at h ⊢
          have hroot := (good_navMemo src bs).root (.cell c' il' l' r')
          obtain ⟨il2, l2, r2, h2⟩ := cell_of_rootOf hroot
          have := ih _ x h
          rw [h2] at this ⊢
          rw [nav_known_L, this]; rfl
        | unk =>
          by_cases h1 : il = some true
          · simp [navMemo, cellFetch, Step.bind, Step.pure, h1] at h
          · cases hsrc : src c with
            | none => simp [navMemo, cellFetch, Step.bind, Step.pure, h1, hsrc] at h
            | some a =>
              rw [nav_unk_L src bs c il r a h1 hsrc] at h ⊢
              simp only at h ⊢
              have hroot := (good_navMemo src bs).root (.fresh a.1)
              obtain ⟨il2, l2, r2, h2⟩ := cell_of_rootOf hroot
              have := ih _ x h
              rw [h2] at this ⊢
              rw [nav_known_L, this]; rfl
      · cases r with
        | cell c' il' l' r' =>
          rw [nav_known_R] at h ⊢
          simp only at h ⊢
          have hroot := (good_navMemo src bs).root (.cell c' il' l' r')
          obtain ⟨il2, l2, r2, h2⟩ := cell_of_rootOf hroot
          have := ih _ x h
          rw [h2] at this ⊢
          rw [nav_known_R, this]; rfl
        | unk =>
          by_cases h1 : il = some true
          · simp [navMemo, cellFetch, Step.bind, Step.pure, h1] at h
          · cases hsrc : src c with
            | none => simp [navMemo, cellFetch, Step.bind, Step.pure, h1, hsrc] at h
            | some a =>
              rw [nav_unk_R src bs c il l a h1 hsrc] at h ⊢
              simp only at h ⊢
              have hroot := (good_navMemo src bs).root (.fresh a.2)
              obtain ⟨il2, l2, r2, h2⟩ := cell_of_rootOf hroot
              have := ih _ x h
              rw [h2] at this ⊢
              rw [nav_known_R, this]; rfl

/-- results of a whole sequence of memoised navigations: each is what the unmemoised navigation from
    a fresh virtual node gives -/
theorem runNavs_sound (src : Src) (ps : List (List Bool)) :
    ∀ (m : Memo) (c : Chunk), Memo.Ok src m → m.rootOf = some c →
      (runNavs src ps m).1.map (·.map MNode.virt) = ps.map (getPathM src (.virt c)) ∧
      Memo.Ok src (runNavs src ps m).2.1 := by
  induction ps with
  | nil => intro m c hok _; simpa [runNavs, Step.pure] using hok
  | cons p ps ih =>
    intro m c hok hc
    obtain ⟨h1, h2⟩ := navMemo_sound src p m c hok hc
    have hroot : (navMemo src p m).2.1.rootOf = some c := by rw [(good_navMemo src p).root]; exact hc
    obtain ⟨h3, h4⟩ := ih _ c h2 hroot
    refine ⟨?_, ?_⟩
    · simp only [runNavs, bind_fst, Step.pure, List.map_cons, h1]
      rw [h3]
    · simpa [runNavs, Step.pure] using h4

/-- end to end: memoised navigation over a source serving the tree `n`, starting from a fresh
    `VirtualNode(n.root, src)`, reaches a node exactly when navigation in `n` does, and returns its root -/
theorem navMemo_serves {H : Hash} {src : Src} {n : Node} (h : Serves H src n) (p : List Bool) :
    (navMemo src p (.fresh (n.root H))).1 = (getPath n p).map (·.root H) := by
  have h1 := (navMemo_sound src p (.fresh (n.root H)) (n.root H) (ok_fresh src _) rfl).1
  have h2 := getPathM_root (mat_virt h) p
  rw [← h1] at h2
  rw [← h2]
  cases (navMemo src p (.fresh (n.root H))).1 <;> simp [MNode.root]

/-! ### examples with a toy hash (non-vacuity, and the corners mentioned above) -/

/-- a toy hash without collisions on the trees below -/
private def H1 : Hash := fun a b => 255 :: (a ++ b)
/-- left: two chunks; right: the zero summary of height 1 -/
private def t0 : Node := .pair (.pair (.leaf [1]) (.leaf [2])) (zeroNode H1 1)
private def src0 : Src := srcOfDict (dictOf H1 t0)
private def v0 : MNode := .virt (t0.root H1)

example : Serves H1 src0 t0 := by decide
example : Mat H1 src0 v0 t0 := by decide
-- a half materialised tree is related, too
example : Mat H1 src0 (.pair (.virt (H1 [1] [2])) (.leaf (zeroHash H1 1))) t0 := by decide
-- navigation: same nodes, same errors
example : getPathM src0 v0 [false, true] = some (.virt [2]) ∧
    getPath t0 [false, true] = some (.leaf [2]) := by decide
example : getPathM src0 v0 [false, true, false] = none ∧ getPath t0 [false, true, false] = none := by
  decide
-- a write below the virtual zero summary expands it; the left sibling stays virtual
example : setPathM H1 src0 true v0 [true, false] (.leaf [9]) =
    some (.pair (.virt (H1 [1] [2])) (.pair (.leaf [9]) (.leaf (zeroHash H1 0)))) := by decide
example : (setPathM H1 src0 true v0 [true, false] (.leaf [9])).map (·.root H1) =
    (setPath H1 true t0 [true, false] (.leaf [9])).map (·.root H1) := by decide
-- a virtual leaf that is not the zero summary is not expanded; without `expand` nothing is
example : setPathM H1 src0 true v0 [false, true, false] (.leaf [9]) = none ∧
    setPathM H1 src0 false v0 [true, false] (.leaf [9]) = none := by decide
-- the corner: a top-level virtual zero summary (`RebindableNode.setter` does not expand it)
example : setPathMTop H1 src0 true (.virt (zeroHash H1 1)) [false] (.leaf [9]) = none ∧
    (setPathM H1 src0 true (.virt (zeroHash H1 1)) [false] (.leaf [9])).isSome := by decide
-- one navigation: the nodes asked
example : (getPathLog src0 v0 [false, true]).2 = [([], t0.root H1), ([false], H1 [1] [2])] := by
  decide
-- three navigations on one node object: three source queries in all, the third navigation asks nothing
example : answered (runNavs src0 [[false, true], [false, false], [false, true]] (.fresh (t0.root H1))).2.2
    = [([], .left), ([false], .right), ([false], .left)] := by decide
example : (runNavs src0 [[false, true], [false, false], [false, true]] (.fresh (t0.root H1))).1
    = [some [2], some [1], some [2]] := by decide
-- an unanswered query (children of a leaf key) leaves no trace in the node object and is repeated
example : (runNavs src0 [[false, true, false], [false, true, false]] (.fresh (t0.root H1))).2.2 =
    [⟨[], .left, true⟩, ⟨[false], .right, true⟩, ⟨[false, true], .left, false⟩,
     ⟨[false, true], .left, false⟩] := by decide
-- the queries of a write: children, `is_leaf()`, siblings; a second write asks nothing new
example : answered (setQueriesMemo H1 src0 true [false, true] (.fresh (t0.root H1))).2.2 =
    [([], .left), ([false], .isLeaf), ([false], .left), ([], .right)] := by decide
example : answered ((setQueriesMemo H1 src0 true [false, true]).bind
      (fun _ => setQueriesMemo H1 src0 true [false, true]) (.fresh (t0.root H1))).2.2 =
    [([], .left), ([false], .isLeaf), ([false], .left), ([], .right)] := by decide

end Rmk.VirtualLaws
