/-
PART 1 — a PARTIAL tree served lazily (harness case kind `virtp`).

A mixed tree `m` (materialised pairs / leaves and virtual nodes resolved through the source `src`) materialises
to the PARTIAL tree `p` (`Mat H src m p`), and `p` summarises the COMPLETE tree `n` (`Summ H p n`: some subtrees
of `n` are replaced in `p` by bare leaves holding their roots).  Composing the laws of lazily loaded trees
(Rmk/Proofs/VirtualViewLaws.lean, VirtualIterLaws.lean, VirtualApplyLaws.lean: a mixed tree behaves exactly like
the tree it materialises to) with the laws of partial trees (Rmk/Proofs/PartialViews.lean, ElemLaws.lean,
ObjTreePartial.lean: a partial tree fails or agrees with the complete tree), every read, the tree-reading
serialiser, the export and the mutators over `m` FAIL OR AGREE with the complete tree `n`.
Generic in the pair hash `H`; no hypothesis on the type `t` except where the ingredient has one.

PART 2 — class hierarchies denote container types (Rmk/Impl/ClassTree.lean).
-/
import Rmk.Proofs.VirtualViewLaws
import Rmk.Proofs.VirtualIterLaws
import Rmk.Proofs.VirtualApplyLaws
import Rmk.Proofs.PartialViews
import Rmk.Proofs.ElemLaws
import Rmk.Proofs.ObjTreePartial
import Rmk.Proofs.ClassTreeLaws
namespace Rmk.VirtualPartial
open Rmk Rmk.Impl Rmk.Virtual Rmk.VirtualLaws Rmk.VirtualViewLaws Rmk.VirtualIterLaws Rmk.VirtualApplyLaws
open Rmk.PartialViews Rmk.ElemLaws Rmk.ObjTreePartial

/-! ## PART 1: a partial tree served lazily -/

section
variable {H : Hash} {src : Src} {m : MNode} {p n : Node}

/-- the root of the lazily served partial tree is the root of the complete tree -/
theorem root_eq (hm : Mat H src m p) (hs : Summ H p n) : m.root H = n.root H := by
  rw [mat_root hm]; exact hs.root_eq

/-- complete reads, element reads, `len` and slices over the lazily served partial tree fail, or agree with the
    complete tree -/
theorem reads_fail_or_agree (hm : Mat H src m p) (hs : Summ H p n) (t : Ty) :
    (readValM H src t m = none ∨ readValM H src t m = readVal H t n) ∧
    (∀ i, readElemM H src t m i = none ∨ readElemM H src t m i = readElem H t n i) ∧
    (viewLenM H src t m = none ∨ viewLenM H src t m = viewLen H t n) ∧
    (∀ a b, sliceReadM H src t m a b = none ∨ sliceReadM H src t m a b = sliceRead H t n a b) := by
  refine ⟨?_, ?_, ?_, ?_⟩
  · rw [readValM_mat H src t m p hm]; exact summ_readVal H t p n hs
  · intro i; rw [readElemM_mat hm t i]; exact readElem_summ_or H t p n i hs
  · rw [viewLenM_mat hm t]; exact viewLen_summ_or H t p n hs
  · intro a b; rw [sliceReadM_mat hm t a b]; exact sliceRead_summ_or H t p n a b hs

/-- the tree-reading serialiser over the lazily served partial tree fails, or agrees with the complete tree -/
theorem ser_fail_or_agree (hm : Mat H src m p) (hs : Summ H p n) (t : Ty) :
    serTreeM H src t m = none ∨ serTreeM H src t m = serTree H t n := by
  rw [serTreeM_mat H src t m p hm]; exact summ_serTree H t p n hs

/-- `to_obj()` over the lazily served partial tree of a represented value raises, or is the export of the value
    (hypotheses `t.wf`, `limitsOk t`, `Repr H t v n` inherited from `toObjTree_summ_repr`) -/
theorem export_fail_or_agree (hm : Mat H src m p) (hs : Summ H p n) (t : Ty) (v : Val)
    (hwf : t.wf = true) (hlim : ReprBasics.limitsOk t = true) (hr : Impl.Repr H t v n) :
    toObjTreeM H src t m = none ∨ toObjTreeM H src t m = some (Obj.toObj t v) := by
  rw [toObjTreeM_mat H src t m p hm]; exact toObjTree_summ_repr H t v p n hwf hlim hs hr

/-- the same against the export computed from the complete tree -/
theorem export_fail_or_agree_tree (hm : Mat H src m p) (hs : Summ H p n) (t : Ty) (v : Val)
    (hwf : t.wf = true) (hlim : ReprBasics.limitsOk t = true) (hr : Impl.Repr H t v n) :
    toObjTreeM H src t m = none ∨ toObjTreeM H src t m = toObjTree H t n := by
  rw [toObjTreeM_mat H src t m p hm]; exact toObjTree_summ H t v p n hwf hlim hs hr

/-- composition step shared by the two mutator theorems: from the "fails or summarises" law of the partial tree
    to the lazily served partial tree -/
private theorem mutator_of_summ (hm : Mat H src m p) (t : Ty) (op : Op)
    (h : Impl.apply H t p op = none ∨ ∃ p' n', Impl.apply H t p op = some p' ∧
      Impl.apply H t n op = some n' ∧ Summ H p' n') :
    applyM H src t m op = none ∨ ∃ m' p' n', applyM H src t m op = some m' ∧
      Impl.apply H t n op = some n' ∧ Mat H src m' p' ∧ Summ H p' n' ∧ m'.root H = n'.root H := by
  rcases h with hn | ⟨p', n', hp, hn, hs'⟩
  · exact .inl ((applyM_none_iff hm t op).2 hn)
  · cases hmm : applyM H src t m op with
    | none => exact .inl rfl
    | some m' =>
      obtain ⟨p2, hp2, hmat, hroot⟩ := applyM_root hm t op m' hmm
      rw [hp] at hp2; cases hp2
      exact .inr ⟨m', p', n', rfl, hn, hmat, hs', by rw [hroot]; exact hs'.root_eq⟩

/-- MUTATORS, every operation except `append`, no hypothesis on `H` (inherits "not append" from
    `summ_apply_partial`; the `append` case is false for a hash with a zero-hash collision, see
    `PartialViews.summ_apply_partial`): a mutator applied through the lazily served partial tree fails, or the
    complete tree's mutator succeeds, the new mixed backing again materialises to a partial tree that summarises
    the new complete tree, and the roots are equal. -/
theorem mutator_root_partial (hm : Mat H src m p) (hs : Summ H p n) (t : Ty) (op : Op)
    (hop : ∀ v, op ≠ .append v) :
    applyM H src t m op = none ∨ ∃ m' p' n', applyM H src t m op = some m' ∧
      Impl.apply H t n op = some n' ∧ Mat H src m' p' ∧ Summ H p' n' ∧ m'.root H = n'.root H :=
  mutator_of_summ hm t op (summ_apply_partial H t p n op hs hop)

/-- MUTATORS, all operations (`append` included), under `ZeroInj H` (inherited from `summ_apply`; implied by
    collision-freeness, `zeroInj_of_injective2`) -/
theorem mutator_root (hZ : ZeroInj H) (hm : Mat H src m p) (hs : Summ H p n) (t : Ty) (op : Op) :
    applyM H src t m op = none ∨ ∃ m' p' n', applyM H src t m op = some m' ∧
      Impl.apply H t n op = some n' ∧ Mat H src m' p' ∧ Summ H p' n' ∧ m'.root H = n'.root H :=
  mutator_of_summ hm t op (summ_apply H hZ t p n op hs)

/-- the short "same root" forms: a mutator that succeeds through the lazily served partial tree succeeds on the
    complete tree, with a backing of the same root -/
theorem mutator_root_partial_some (hm : Mat H src m p) (hs : Summ H p n) (t : Ty) (op : Op)
    (hop : ∀ v, op ≠ .append v) (m' : MNode) (h : applyM H src t m op = some m') :
    ∃ n', Impl.apply H t n op = some n' ∧ m'.root H = n'.root H := by
  rcases mutator_root_partial hm hs t op hop with hn | ⟨m2, _, n', h1, h2, _, _, hr⟩
  · rw [hn] at h; cases h
  · rw [h1] at h; cases h; exact ⟨n', h2, hr⟩

theorem mutator_root_some (hZ : ZeroInj H) (hm : Mat H src m p) (hs : Summ H p n) (t : Ty) (op : Op)
    (m' : MNode) (h : applyM H src t m op = some m') :
    ∃ n', Impl.apply H t n op = some n' ∧ m'.root H = n'.root H := by
  rcases mutator_root hZ hm hs t op with hn | ⟨m2, _, n', h1, h2, _, _, hr⟩
  · rw [hn] at h; cases h
  · rw [h1] at h; cases h; exact ⟨n', h2, hr⟩

end

/-! ### the special case: the wholly virtual node `VirtualNode(p.root, src)` whose source serves the partial tree -/

section
variable {H : Hash} {src : Src} {p n : Node}

theorem virt_reads_fail_or_agree (hsv : Serves H src p) (hs : Summ H p n) (t : Ty) :
    (readValM H src t (.virt (p.root H)) = none ∨ readValM H src t (.virt (p.root H)) = readVal H t n) ∧
    (∀ i, readElemM H src t (.virt (p.root H)) i = none ∨
      readElemM H src t (.virt (p.root H)) i = readElem H t n i) ∧
    (viewLenM H src t (.virt (p.root H)) = none ∨ viewLenM H src t (.virt (p.root H)) = viewLen H t n) ∧
    (∀ a b, sliceReadM H src t (.virt (p.root H)) a b = none ∨
      sliceReadM H src t (.virt (p.root H)) a b = sliceRead H t n a b) :=
  reads_fail_or_agree (mat_virt hsv) hs t

/-- the virtual node may as well be addressed by the root of the COMPLETE tree (the roots are equal) -/
theorem virt_reads_fail_or_agree' (hsv : Serves H src p) (hs : Summ H p n) (t : Ty) :
    (readValM H src t (.virt (n.root H)) = none ∨ readValM H src t (.virt (n.root H)) = readVal H t n) ∧
    (∀ i, readElemM H src t (.virt (n.root H)) i = none ∨
      readElemM H src t (.virt (n.root H)) i = readElem H t n i) ∧
    (viewLenM H src t (.virt (n.root H)) = none ∨ viewLenM H src t (.virt (n.root H)) = viewLen H t n) ∧
    (∀ a b, sliceReadM H src t (.virt (n.root H)) a b = none ∨
      sliceReadM H src t (.virt (n.root H)) a b = sliceRead H t n a b) := by
  rw [← hs.root_eq]; exact virt_reads_fail_or_agree hsv hs t

theorem virt_ser_fail_or_agree (hsv : Serves H src p) (hs : Summ H p n) (t : Ty) :
    serTreeM H src t (.virt (p.root H)) = none ∨ serTreeM H src t (.virt (p.root H)) = serTree H t n :=
  ser_fail_or_agree (mat_virt hsv) hs t

theorem virt_export_fail_or_agree (hsv : Serves H src p) (hs : Summ H p n) (t : Ty) (v : Val)
    (hwf : t.wf = true) (hlim : ReprBasics.limitsOk t = true) (hr : Impl.Repr H t v n) :
    toObjTreeM H src t (.virt (p.root H)) = none ∨
      toObjTreeM H src t (.virt (p.root H)) = some (Obj.toObj t v) :=
  export_fail_or_agree (mat_virt hsv) hs t v hwf hlim hr

/-- not `append`, any `H` -/
theorem virt_mutator_root_partial (hsv : Serves H src p) (hs : Summ H p n) (t : Ty) (op : Op)
    (hop : ∀ v, op ≠ .append v) :
    applyM H src t (.virt (p.root H)) op = none ∨ ∃ m' p' n', applyM H src t (.virt (p.root H)) op = some m' ∧
      Impl.apply H t n op = some n' ∧ Mat H src m' p' ∧ Summ H p' n' ∧ m'.root H = n'.root H :=
  mutator_root_partial (mat_virt hsv) hs t op hop

/-- all operations, `ZeroInj H` -/
theorem virt_mutator_root (hZ : ZeroInj H) (hsv : Serves H src p) (hs : Summ H p n) (t : Ty) (op : Op) :
    applyM H src t (.virt (p.root H)) op = none ∨ ∃ m' p' n', applyM H src t (.virt (p.root H)) op = some m' ∧
      Impl.apply H t n op = some n' ∧ Mat H src m' p' ∧ Summ H p' n' ∧ m'.root H = n'.root H :=
  mutator_root hZ (mat_virt hsv) hs t op

end

/-! ## PART 2: class hierarchies denote container types -/

section
open Rmk.ClassTreeLaws Rmk.FieldsLaws
variable {α : Type}

theorem buildable_mk (bases : List (Cls α)) (ann : List (String × α)) :
    (Cls.mk bases ann).buildable =
      (buildableList bases && !(fieldsStep (basesFields bases []) ann).isEmpty) := by
  rw [Cls.buildable]

theorem buildableList_nil : buildableList ([] : List (Cls α)) = true := by rw [buildableList]

theorem buildableList_cons (b : Cls α) (bs : List (Cls α)) :
    buildableList (b :: bs) = (b.buildable && buildableList bs) := by rw [buildableList]

/-- a class that can be built has at least one field -/
theorem buildable_fields_ne (c : Cls α) (h : c.buildable = true) : c.fields ≠ [] := by
  obtain ⟨bases, ann⟩ := c
  rw [buildable_mk, Bool.and_eq_true] at h
  rw [fields_mk]
  intro e
  rw [e] at h
  simp at h

theorem buildableList_mem (bs : List (Cls α)) (h : buildableList bs = true) :
    ∀ b ∈ bs, b.buildable = true := by
  induction bs with
  | nil => intro b hb; cases hb
  | cons x xs ih =>
    rw [buildableList_cons, Bool.and_eq_true] at h
    intro b hb
    rcases List.mem_cons.1 hb with e | e
    · rw [e]; exact h.1
    · exact ih h.2 b e

/-- every base of a buildable class is itself a buildable class -/
theorem buildable_bases (bases : List (Cls α)) (ann : List (String × α))
    (h : (Cls.mk bases ann).buildable = true) : ∀ b ∈ bases, b.buildable = true := by
  rw [buildable_mk, Bool.and_eq_true] at h
  exact buildableList_mem bases h.1

/-- hence every base of a buildable class has at least one field -/
theorem buildable_bases_fields_ne (bases : List (Cls α)) (ann : List (String × α))
    (h : (Cls.mk bases ann).buildable = true) : ∀ b ∈ bases, b.fields ≠ [] :=
  fun b hb => buildable_fields_ne b (buildable_bases bases ann h b hb)

/-- a class without bases: the dict of its public annotations -/
theorem fields_of_leaf (ann : List (String × α)) :
    (Cls.mk [] ann).fields = dictUpdate [] (ann.filter fun kv => isPublic kv.1) := by
  rw [fields_mk, basesFields_nil]; rfl

/-- a class with only private annotations (and no base) is refused -/
theorem not_buildable_private_only (ann : List (String × α)) (h : ∀ kv ∈ ann, isPublic kv.1 = false) :
    (Cls.mk [] ann).buildable = false := by
  have hf : (ann.filter fun kv => isPublic kv.1) = [] := by
    rw [List.filter_eq_nil_iff]
    intro kv hkv
    rw [h kv hkv]; simp
  rw [buildable_mk, basesFields_nil]
  show (buildableList [] && !(dictUpdate [] (ann.filter fun kv => isPublic kv.1)).isEmpty) = false
  rw [hf]
  simp [dictUpdate_nil]

/-- conversely, a base-less class with a public annotation is accepted -/
theorem buildable_leaf_of_public (ann : List (String × α)) (kv : String × α) (hkv : kv ∈ ann)
    (hp : isPublic kv.1 = true) : (Cls.mk [] ann).buildable = true := by
  rw [buildable_mk, buildableList_nil, Bool.true_and, basesFields_nil]
  have hmem : kv.1 ∈ keys (fieldsStep [] ann) := by
    show kv.1 ∈ keys (dictUpdate [] (ann.filter fun kv => isPublic kv.1))
    rw [keys_dictUpdate]
    refine List.mem_append_right _ ?_
    rw [List.mem_eraseDups]
    refine List.mem_filter.2 ⟨?_, by simp [keys]⟩
    exact List.mem_map.2 ⟨kv, List.mem_filter.2 ⟨hkv, hp⟩, rfl⟩
  cases hfs : fieldsStep [] ann with
  | nil => rw [hfs] at hmem; simp [keys] at hmem
  | cons x xs => rfl

end

end Rmk.VirtualPartial
