/-
View-level laws of lazily loaded (virtual) trees (property C20): every read of a view over a mixed tree
`m` whose source serves the materialised tree `n` (`Mat H src m n`) gives exactly the result (value or
failure) of the same read over `n`.  The reads over `MNode` are the line-by-line mirrors of
Rmk/Impl/VirtualView.lean.  No hypothesis on the type `t`; generic in the pair hash `H`.
-/
import Rmk.Impl.VirtualView
import Rmk.Proofs.VirtualLaws
namespace Rmk.VirtualViewLaws
open Rmk Rmk.Impl Rmk.Virtual Rmk.VirtualLaws

/-! ### `OptRel` helpers -/

theorem optRel_cases {α β} {R : α → β → Prop} {x : Option α} {y : Option β} (h : OptRel R x y) :
    (x = none ∧ y = none) ∨ ∃ a b, x = some a ∧ y = some b ∧ R a b := by
  cases x <;> cases y <;> simp_all [OptRel]

theorem optRel_map_eq {α β γ} {R : α → β → Prop} {x : Option α} {y : Option β} {f : α → γ} {g : β → γ}
    (h : OptRel R x y) (hfg : ∀ a b, R a b → f a = g b) : x.map f = y.map g := by
  cases x <;> cases y <;> simp_all [OptRel]
  exact hfg _ _ h

theorem optRel_bind_eq {α β γ} {R : α → β → Prop} {x : Option α} {y : Option β}
    {f : α → Option γ} {g : β → Option γ}
    (h : OptRel R x y) (hfg : ∀ a b, R a b → f a = g b) : x.bind f = y.bind g := by
  cases x <;> cases y <;> simp_all [OptRel]
  exact hfg _ _ h

/-- `allSome` over pointwise related optional nodes, followed by the concatenation of the roots -/
theorem allSome_roots_eq {H : Hash} {src : Src} {ι} (l : List ι) (f : ι → Option MNode)
    (g : ι → Option Node) (h : ∀ i, OptRel (Mat H src) (f i) (g i)) :
    (allSome (l.map f)).map (fun cs => cs.flatMap fun c => c.root H) =
    (allSome (l.map g)).map (fun cs => cs.flatMap fun c => c.root H) := by
  induction l with
  | nil => simp [allSome]
  | cons i l ih =>
    rcases optRel_cases (h i) with ⟨h1, h2⟩ | ⟨a, b, h1, h2, hab⟩
    · simp [allSome, h1, h2]
    · simp only [List.map_cons, h1, h2, allSome, Option.map_map]
      cases hA : allSome (l.map f) <;> cases hB : allSome (l.map g) <;>
        simp_all [mat_root hab]

/-! ### the tree primitives -/

section
variable {H : Hash} {src : Src} {m : MNode} {n : Node}

/-- `getter(to_gindex(i, depth))`: fails together, related results -/
theorem getAtM_rel (h : Mat H src m n) (i depth : Nat) :
    OptRel (Mat H src) (getAtM src m i depth) (getAt n i depth) := by
  unfold getAtM getAt
  split
  · simp [OptRel]
  · exact getPathM_rel h _

theorem childM_left (h : Mat H src m n) : OptRel (Mat H src) (childM src false m) (getLeft n) := by
  simpa using childM_mat h false

theorem childM_right (h : Mat H src m n) : OptRel (Mat H src) (childM src true m) (getRight n) := by
  simpa using childM_mat h true

theorem readLenM_mat (h : Mat H src m n) : readLenM H m = readLen H n := by
  unfold readLenM readLen; rw [mat_root h]

theorem listLengthM_mat (h : Mat H src m n) : listLengthM H src m = listLength H n := by
  unfold listLengthM listLength
  exact optRel_map_eq (childM_right h) fun _ _ hab => readLenM_mat hab

theorem readBasicAtM_mat (h : Mat H src m n) (t : Ty) (j : Nat) :
    readBasicAtM H t m j = readBasicAt H t n j := by
  unfold readBasicAtM readBasicAt; rw [mat_root h]; rfl

theorem readChunksM_mat (h : Mat H src m n) (depth count : Nat) :
    readChunksM H src m depth count = readChunks H n depth count := by
  unfold readChunksM readChunks
  exact allSome_roots_eq _ _ _ fun i => getAtM_rel h i depth

/-- the bit reads of bitvector / bitlist views -/
theorem bitsM_mat (h : Mat H src m n) (depth len : Nat) :
    (allSome ((List.range len).map fun i =>
      (getAtM src m (i / 256) depth).map fun c => bitOfChunk (c.root H) i)) =
    (allSome ((List.range len).map fun i =>
      (getAt n (i / 256) depth).map fun c => bitOfChunk (c.root H) i)) := by
  congr 2; funext i
  exact optRel_map_eq (getAtM_rel h _ depth) fun _ _ hab => by rw [mat_root hab]

/-- the packed element reads of vector / list views of basic elements -/
theorem packedM_mat (h : Mat H src m n) (et : Ty) (per depth len : Nat) :
    (allSome ((List.range len).map fun i =>
      (getAtM src m (i / per) depth).bind fun c => readBasicAtM H et c (i % per))) =
    (allSome ((List.range len).map fun i =>
      (getAt n (i / per) depth).bind fun c => readBasicAt H et c (i % per))) := by
  congr 2; funext i
  exact optRel_bind_eq (getAtM_rel h _ depth) fun _ _ hab => readBasicAtM_mat hab et _

end

/-! ### complete reads -/

mutual
/-- a complete read of a view over a mixed tree = the read over the materialised tree -/
theorem readValM_mat (H : Hash) (src : Src) (t : Ty) (m : MNode) (n : Node) (h : Mat H src m n) :
    readValM H src t m = readVal H t n := by
  cases t with
  | uint nb => simp only [readValM, readVal, readBasicAtM_mat h]
  | bool => simp only [readValM, readVal, readBasicAtM_mat h]
  | bitvector len => simp only [readValM, readVal, bitsM_mat h]
  | bitlist lim =>
    simp only [readValM, readVal, listLengthM_mat h, bitsM_mat h]
    rfl
  | bytevector len =>
    simp only [readValM, readVal, mat_root h, readChunksM_mat h]
  | bytelist lim =>
    rcases optRel_cases (childM_left h) with ⟨h1, h2⟩ | ⟨c, c', h1, h2, hc⟩ <;>
      rcases optRel_cases (childM_right h) with ⟨h3, h4⟩ | ⟨l, l', h3, h4, hl⟩ <;>
      simp only [readValM, readVal, h1, h2, h3, h4]
    simp only [readLenM_mat hl, mat_root hc, readChunksM_mat hc]
  | vector et len =>
    simp only [readValM, readVal, packedM_mat h]
    split
    · rfl
    · congr 3; funext i
      exact optRel_bind_eq (getAtM_rel h _ _) fun a b hab => readValM_mat H src et a b hab
  | list et lim =>
    simp only [readValM, readVal, listLengthM_mat h, packedM_mat h]
    cases listLength H n with
    | none => rfl
    | some len =>
      simp only []
      split
      · rfl
      · congr 3; funext i
        exact optRel_bind_eq (getAtM_rel h _ _) fun a b hab => readValM_mat H src et a b hab
  | container fs =>
    simp only [readValM, readVal, readFieldsM_mat H src fs m n h]
  | union hasNone opts =>
    rcases optRel_cases (childM_left h) with ⟨h1, h2⟩ | ⟨c, c', h1, h2, hc⟩ <;>
      rcases optRel_cases (childM_right h) with ⟨h3, h4⟩ | ⟨s, s', h3, h4, hs⟩ <;>
      simp only [readValM, readVal, h1, h2, h3, h4]
    simp only [readLenM_mat hs, mat_root hc, readOptM_mat H src opts _ c c' hc]
theorem readFieldsM_mat (H : Hash) (src : Src) (ts : List Ty) (m : MNode) (n : Node)
    (h : Mat H src m n) (depth i : Nat) :
    readFieldsM H src ts m depth i = readFields H ts n depth i := by
  cases ts with
  | nil => simp only [readFieldsM, readFields]
  | cons t ts =>
    have h1 : ((getAtM src m i depth).bind fun c => readValM H src t c) =
        ((getAt n i depth).bind fun c => readVal H t c) :=
      optRel_bind_eq (getAtM_rel h i depth) fun a b hab => readValM_mat H src t a b hab
    simp only [readFieldsM, readFields, h1, readFieldsM_mat H src ts m n h depth (i + 1)]
    rfl
theorem readOptM_mat (H : Hash) (src : Src) (ts : List Ty) (k : Nat) (m : MNode) (n : Node)
    (h : Mat H src m n) :
    readOptM H src ts k m = readOpt H ts k n := by
  cases ts with
  | nil => simp only [readOptM, readOpt]
  | cons t ts =>
    cases k with
    | zero => simp only [readOptM, readOpt]; exact readValM_mat H src t m n h
    | succ k => simp only [readOptM, readOpt]; exact readOptM_mat H src ts k m n h
end

/-! ### element-wise reads, `len`, slices -/

section
variable {H : Hash} {src : Src} {m : MNode} {n : Node}

theorem readElemM_mat (h : Mat H src m n) (t : Ty) (i : Nat) :
    readElemM H src t m i = readElem H t n i := by
  have hv : ∀ (et : Ty) (j d : Nat), (getAtM src m j d).bind (readValM H src et) =
      (getAt n j d).bind (readVal H et) := fun et j d =>
    optRel_bind_eq (getAtM_rel h j d) fun a b hab => readValM_mat H src et a b hab
  have hb : ∀ (et : Ty) (j d k : Nat), ((getAtM src m j d).bind fun c => readBasicAtM H et c k) =
      ((getAt n j d).bind fun c => readBasicAt H et c k) := fun et j d k =>
    optRel_bind_eq (getAtM_rel h j d) fun _ _ hab => readBasicAtM_mat hab et k
  have hbit : ∀ (j d : Nat),
      ((getAtM src m j d).map fun c => Val.num (if bitOfChunk (c.root H) i then 1 else 0)) =
      ((getAt n j d).map fun c => Val.num (if bitOfChunk (c.root H) i then 1 else 0)) := fun j d =>
    optRel_map_eq (getAtM_rel h j d) fun _ _ hab => by rw [mat_root hab]
  cases t <;> simp only [readElemM, readElem, listLengthM_mat h, hv, hb, hbit] <;> rfl

theorem viewLenM_mat (h : Mat H src m n) (t : Ty) :
    viewLenM H src t m = viewLen H t n := by
  cases t <;> simp only [viewLenM, viewLen, listLengthM_mat h, readValM_mat H src _ m n h] <;> rfl

theorem sliceReadM_mat (h : Mat H src m n) (t : Ty) (a b : Nat) :
    sliceReadM H src t m a b = sliceRead H t n a b := by
  unfold sliceReadM sliceRead
  congr 1; funext j
  exact readElemM_mat h t _

end

/-! ### headline: a wholly virtual backing -/

/-- a view over the wholly virtual node `VirtualNode(n.root, src)`, whose source serves the tree `n`, reads
    exactly like the view over `n`: complete reads, element reads, `len` (value or failure) -/
theorem virtual_view_reads {H : Hash} {src : Src} {n : Node} (t : Ty) (hs : Serves H src n) :
    readValM H src t (.virt (n.root H)) = readVal H t n ∧
    (∀ i, readElemM H src t (.virt (n.root H)) i = readElem H t n i) ∧
    viewLenM H src t (.virt (n.root H)) = viewLen H t n :=
  ⟨readValM_mat H src t _ n (mat_virt hs), fun i => readElemM_mat (mat_virt hs) t i,
    viewLenM_mat (mat_virt hs) t⟩

/-- the same for in-range slices -/
theorem virtual_view_slices {H : Hash} {src : Src} {n : Node} (t : Ty) (hs : Serves H src n) (a b : Nat) :
    sliceReadM H src t (.virt (n.root H)) a b = sliceRead H t n a b :=
  sliceReadM_mat (mat_virt hs) t a b

/-- and for a half materialised backing (an ordinary tree seen as a mixed tree, whatever the source) -/
theorem ofNode_view_reads (H : Hash) (src : Src) (n : Node) (t : Ty) :
    readValM H src t (MNode.ofNode n) = readVal H t n :=
  readValM_mat H src t _ n (mat_ofNode H src n)

/-! ### examples with a toy hash (non-vacuity) -/

/-- a toy hash without collisions on the trees below -/
private def H1 : Hash := fun a b => 255 :: (a ++ b)
/-- `Container{a: uint8, b: List[uint8, 64]}`; the list holds 7, 8, 9 (contents of depth 1, length mix-in 3) -/
private def tL : Ty := .list (.uint 1) 64
private def tC : Ty := .container [.uint 1, tL]
private def nL : Node := .pair (.pair (.leaf [7, 8, 9]) (.leaf [])) (.leaf [3])
private def nC : Node := .pair (.leaf [5]) nL
private def srcC : Src := srcOfDict (dictOf H1 nC)

example : Serves H1 srcC nC ∧ Serves H1 srcC nL := by decide
example : Mat H1 srcC (.virt (nC.root H1)) nC := by decide
-- a complete read through the wholly virtual backing (`Val` has no `DecidableEq`: by evaluation)
example : readValM H1 srcC tC (.virt (nC.root H1)) =
    some (.seq [.num 5, .seq [.num 7, .num 8, .num 9]]) := by rfl
example : readVal H1 tC nC = some (.seq [.num 5, .seq [.num 7, .num 8, .num 9]]) := by rfl
-- a half materialised backing
example : readValM H1 srcC tC (.pair (.leaf [5]) (.virt (nL.root H1))) =
    some (.seq [.num 5, .seq [.num 7, .num 8, .num 9]]) := by rfl
-- element reads, out-of-range read, `len`, slice
example : readElemM H1 srcC tL (.virt (nL.root H1)) 2 = some (.num 9) ∧
    readElemM H1 srcC tL (.virt (nL.root H1)) 3 = none ∧
    viewLenM H1 srcC tL (.virt (nL.root H1)) = some 3 ∧
    sliceReadM H1 srcC tL (.virt (nL.root H1)) 1 3 = some [.num 8, .num 9] :=
  ⟨by rfl, by rfl, by rfl, by rfl⟩
-- failures coincide: a virtual leaf read as a list (no right child) fails like the materialised leaf
example : readValM H1 srcC tL (.virt [5]) = none ∧ readVal H1 tL (.leaf [5]) = none := ⟨by rfl, by rfl⟩

end Rmk.VirtualViewLaws
