-- aggregates all property modules
import Rmk.Properties.C07
import Rmk.Properties.C08
import Rmk.Properties.C11
import Rmk.Properties.C13
import Rmk.Properties.C17
import Rmk.Properties.C18
import Rmk.Proofs.BytesLemmas
import Rmk.Proofs.Merkle
import Rmk.Proofs.NodeIter
