-- aggregates all property modules
import Rmk.Properties.C07
import Rmk.Properties.C17
import Rmk.Properties.C18
import Rmk.Properties.C13
