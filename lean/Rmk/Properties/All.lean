-- aggregates all property modules
import Rmk.Properties.C07
