/-
C01 — hash_tree_root equals SSZ-spec merkleization for every type and value.
-/
import Rmk.Proofs.Merkle
import Rmk.Proofs.ConstructRoot
import Rmk.Proofs.DefaultNode
namespace Rmk.C01
open Rmk Rmk.Spec

/-- `zero_hashes[d]` is the Merkle root of 2^d zero chunks. -/
theorem zero_hashes (H : Hash) (d : Nat) : zeroHash H d = merkleizeNaive H [] d :=
  zeroHash_eq_merkleizeNaive H d

/-- The executable merkleization (virtual padding) is the SSZ text's merkleization (pad with zero
    chunks up to the capacity, reduce layer by layer). -/
theorem merkleize_is_spec (H : Hash) (chunks : List Chunk) (d : Nat) (h : chunks.length ≤ 2 ^ d) :
    merkleize H chunks d = merkleizeNaive H chunks d :=
  merkleize_eq_naive H chunks d h

/-- The library's TOP-DOWN tree construction with zero-subtree summaries has the BOTTOM-UP spec
    root, for every list of bottom nodes and every depth (chunk and power-of-two boundaries
    included), and fails exactly when there are too many nodes. -/
theorem fill_root (H : Hash) (nodes : List Node) (d : Nat) (h : nodes.length ≤ 2 ^ d) :
    ∃ n, fillToContents H nodes d = some n ∧ n.root H = merkleize H (nodes.map (·.root H)) d :=
  fillToContents_root H nodes d h

theorem fill_too_many (H : Hash) (nodes : List Node) (d : Nat) (h : nodes.length > 2 ^ d) :
    fillToContents H nodes d = none := fillToContents_none H nodes d h

/-- default trees: `subtree_fill_to_length` -/
theorem fill_length_root (H : Hash) (bottom : Node) (d len : Nat) (h : len ≤ 2 ^ d) :
    ∃ n, fillToLength H bottom d len = some n ∧
      n.root H = merkleize H (List.replicate len (bottom.root H)) d :=
  fillToLength_root H bottom d len h

/-- `get_depth` gives the smallest power-of-two capacity -/
theorem depth_capacity (n : Nat) : n ≤ 2 ^ getDepth n ∧ (getDepth n = 0 ∨ 2 ^ (getDepth n - 1) < n) :=
  ⟨two_pow_getDepth n, getDepth_minimal n⟩

/-- THE constructor theorem: for every well-formed type and every valid value the tree built by the
    constructors exists and has the SSZ-spec hash-tree-root. -/
theorem construct_root (H : Hash) (t : Ty) (v : Val) (hwf : t.wf = true) (hwt : WT t v = true) :
    ∃ n, Impl.construct H t v = some n ∧ n.root H = Spec.htr H t v :=
  ConstructRoot.construct_spec H t v hwf hwt

/-- whatever tree a constructor returns has the spec root of the value it was given -/
theorem construct_root' (H : Hash) (t : Ty) (v : Val) (n : Node) (hwf : t.wf = true)
    (h : Impl.construct H t v = some n) : n.root H = Spec.htr H t v :=
  ConstructRoot.construct_root H t v n hwf h

/-- the constructors accept exactly the valid values -/
theorem construct_iff_valid (H : Hash) (t : Ty) (v : Val) (hwf : t.wf = true) :
    (Impl.construct H t v).isSome = true ↔ WT t v = true :=
  ConstructRoot.construct_isSome_iff H t v hwf

/-- default route: the default tree has the root of the zero value -/
theorem default_root (H : Hash) (t : Ty) (hwf : t.wf = true) (n : Node)
    (h : Impl.defaultNode H t = some n) : n.root H = Spec.htr H t (Spec.zeroVal t) :=
  DefaultNode.default_root H t hwf n h

/-! Non-vacuity -/
private def H0 : Hash := fun a b => a ++ b
private def t0 : Ty := .list (.container [.uint 2, .list (.uint 1) 5]) 5
private def v0 : Val := .seq [.seq [.num 1, .seq [.num 2]], .seq [.num 3, .seq []], .seq [.num 65535, .seq [.num 9, .num 8]]]
example : t0.wf = true ∧ WT t0 v0 = true ∧ (Impl.construct H0 t0 v0).isSome = true := by decide

end Rmk.C01
