/-
C02 — encode_bytes / serialize equal SSZ-spec serialization.
`Spec.serialize` is the SSZ text (little-endian basics, bit packing with a delimiter bit, fixed parts
with 4-byte offsets followed by the variable parts, one selector byte for unions).  Facts that pin
it down, independent of the implementation:
-/
import Rmk.Proofs.Sizes
import Rmk.Proofs.DecodeRoundtrip
import Rmk.Proofs.DecodeSound
import Rmk.Proofs.SerTree
namespace Rmk.C02
open Rmk

/-- THE theorem: the library serialises by READING THE TREE (chunk reads with last-chunk trimming and
    delimiter xor for bitfields, element nodes by index, a running offset and a temporary stream for
    variable-size parts); for every tree that represents `v` — whatever its history — what is written
    is exactly the SSZ serialisation of `v`, and the returned count is exactly its length. -/
theorem serialize_from_tree (H : Hash) (t : Ty) (v : Val) (n : Node) (hwf : t.wf = true)
    (hlim : ReprBasics.limitsOk t = true) (h : Impl.Repr H t v n) :
    Impl.serTree H t n = some (Spec.serialize t v, (Spec.serialize t v).length) :=
  SerTree.repr_ser H t v n hwf hlim h

/-- in particular for every freshly constructed valid value -/
theorem serialize_constructed (H : Hash) (t : Ty) (v : Val) (hwf : t.wf = true)
    (hlim : ReprBasics.limitsOk t = true) (hwt : WT t v = true) :
    ∃ n, Impl.construct H t v = some n ∧
      Impl.serTree H t n = some (Spec.serialize t v, (Spec.serialize t v).length) :=
  SerTree.construct_ser H t v hwf hlim hwt

/-- the streaming offset loops of the library produce the spec's fixed-parts / offsets / variable-parts layout -/
theorem streaming_is_interleaving (parts : List (Bool × List UInt8)) :
    Impl.streamFields parts = (Spec.interleave parts, (Spec.interleave parts).length) :=
  SerTree.streamFields_eq parts

/-- the layout: total length = fixed parts (or 4-byte offsets) + variable parts -/
theorem layout_length (parts : List (Bool × List UInt8)) :
    (Spec.interleave parts).length = (parts.map fun p => Spec.partLen p.1 p.2.length).sum :=
  interleave_length parts

/-- the encoding determines the value: two valid values with the same encoding are equal -/
theorem encoding_injective (t : Ty) (v w : Val) (hwf : t.wf = true) (hv : WT t v = true) (hw : WT t w = true)
    (hlen : (Spec.serialize t v).length < 2 ^ 32) (h : Spec.serialize t v = Spec.serialize t w) : v = w := by
  have h1 := DecodeRoundtrip.decode_bytes t v hwf hv hlen
  have h2 := DecodeRoundtrip.decode_bytes t w hwf hw (by rw [← h]; exact hlen)
  rw [h] at h1
  rw [h1] at h2
  simpa using h2

/-- the only byte string a decoder-accepted value re-encodes to is the one that was decoded -/
theorem reencode (t : Ty) (hwf : t.wf = true) (b : List UInt8) (v : Val) (rest : List UInt8)
    (h : Impl.deser t b b.length = some (v, rest)) : Spec.serialize t v = b :=
  (DecodeSound.decode_bytes_sound t hwf b v rest h).2.1

end Rmk.C02
