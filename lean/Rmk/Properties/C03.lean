/-
C03 — Decoding inverts encoding (bytes and stream-with-scope).
-/
import Rmk.Proofs.DecodeRoundtrip
import Rmk.Proofs.ConstructRoot
namespace Rmk.C03
open Rmk

/-- Decoding the encoding of any valid value from a stream positioned anywhere (any prefix is
    already consumed, any suffix `rest` follows), given the exact scope, succeeds, yields the
    identical content and consumes exactly `scope` bytes: every valid SSZ encoding is accepted. -/
theorem stream_roundtrip (t : Ty) (v : Val) (rest : List UInt8) (hwf : t.wf = true) (hwt : WT t v = true)
    (hlen : (Spec.serialize t v).length < 2 ^ 32) :
    Impl.deser t (Spec.serialize t v ++ rest) (Spec.serialize t v).length = some (v, rest) :=
  DecodeRoundtrip.roundtrip t v rest hwf hwt hlen

/-- `decode_bytes(encode_bytes(v))` -/
theorem bytes_roundtrip (t : Ty) (v : Val) (hwf : t.wf = true) (hwt : WT t v = true)
    (hlen : (Spec.serialize t v).length < 2 ^ 32) :
    Impl.deser t (Spec.serialize t v) (Spec.serialize t v).length = some (v, []) :=
  DecodeRoundtrip.decode_bytes t v hwf hwt hlen

/-- The decoded content is rebuilt by the constructors into a tree with the same hash-tree-root as
    the original (which is what `==` compares). -/
theorem decoded_root (H : Hash) (t : Ty) (v : Val) (hwf : t.wf = true) (hwt : WT t v = true) :
    ∃ n, Impl.construct H t v = some n ∧ n.root H = Spec.htr H t v :=
  ConstructRoot.construct_spec H t v hwf hwt

/-! Non-vacuity -/
private def t0 : Ty := .container [.uint 2, .list (.bitlist 9) 3, .union true [.uint 1]]
private def v0 : Val := .seq [.num 513, .seq [.bits [true, false], .bits []], .un 1 (.num 7)]
example : t0.wf = true ∧ WT t0 v0 = true ∧
    (Impl.deser t0 (Spec.serialize t0 v0 ++ [9, 9]) (Spec.serialize t0 v0).length).map
      (fun p => Val.beq p.1 v0 && p.2 == [9, 9]) = some true := by
  decide

end Rmk.C03
