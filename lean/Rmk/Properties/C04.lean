/-
C04 — A mutated view is indistinguishable from a fresh value with the same content.
`Impl.Repr H t v n` ("n represents v") admits every tree shape the mutators produce (appends with
zero-checked expansion, pops with summarisation).  Everything observable is a function of the value:
-/
import Rmk.Proofs.ReprBasics
import Rmk.Proofs.ChunkTree
import Rmk.Proofs.StepRepr
import Rmk.Proofs.SerTree
namespace Rmk.C04
open Rmk Rmk.Impl Rmk.ReprBasics Rmk.ChunkTreeLemmas

/-- ONE STEP: every mutator of the public interface (element / field assignment, append, pop, bit
    set, union change; packed and unpacked), applied to a tree that represents `v`, succeeds exactly
    when the value-level operation is allowed, and then yields a tree that represents the updated
    value. -/
theorem step (H : Hash) (t : Ty) (hwf : t.wf = true) (hlim : limitsOk t = true) (v : Val) (n : Node)
    (hr : Impl.Repr H t v n) (op : Op) :
    (Impl.apply H t n op = none ↔ Spec.applyOp t v op = none) ∧
    (∀ n', Impl.apply H t n op = some n' → ∃ v', Spec.applyOp t v op = some v' ∧ Impl.Repr H t v' n') :=
  ⟨StepRepr.step_none_iff H t hwf hlim v n hr op, fun n' h => StepRepr.step_repr H t hwf hlim v n hr op n' h⟩

/-- EVERY HISTORY: after any finite sequence of mutating operations (failed ones leave the view as
    it was) the backing tree represents exactly the value the sequence implies, … -/
theorem history (H : Hash) (t : Ty) (hwf : t.wf = true) (hlim : limitsOk t = true) (ops : List Op)
    (v₀ : Val) (n₀ : Node) (h : Impl.Repr H t v₀ n₀) :
    Impl.Repr H t (StepRepr.runSpec t v₀ ops) (StepRepr.runImpl H t n₀ ops) :=
  StepRepr.history_repr H t hwf hlim ops v₀ n₀ h

/-- … has the spec root of that value, reads back exactly that value, and serialises to exactly its
    SSZ encoding: it is indistinguishable from a freshly constructed value with that content. -/
theorem history_observations (H : Hash) (t : Ty) (hwf : t.wf = true) (hlim : limitsOk t = true)
    (ops : List Op) (v₀ : Val) (n₀ : Node) (h : Impl.Repr H t v₀ n₀) :
    let v := StepRepr.runSpec t v₀ ops
    let n := StepRepr.runImpl H t n₀ ops
    n.root H = Spec.htr H t v ∧ Impl.readVal H t n = some v ∧
      Impl.serTree H t n = some (Spec.serialize t v, (Spec.serialize t v).length) :=
  ⟨StepRepr.history_root H t hwf hlim ops v₀ n₀ h, StepRepr.history_read H t hwf hlim ops v₀ n₀ h,
   SerTree.repr_ser H t _ _ hwf hlim (StepRepr.history_repr H t hwf hlim ops v₀ n₀ h)⟩

/-- whatever its history, a tree that represents `v` has the spec root of `v` (no stale root) -/
theorem same_root (H : Hash) (t : Ty) (v : Val) (n : Node) (hwf : t.wf = true) (h : Impl.Repr H t v n) :
    n.root H = Spec.htr H t v := repr_root H t v n hwf h

/-- …the same root as a freshly constructed value with that content -/
theorem same_root_as_fresh (H : Hash) (t : Ty) (v : Val) (n m : Node) (hwf : t.wf = true)
    (h : Impl.Repr H t v n) (hc : Impl.construct H t v = some m) : n.root H = m.root H :=
  repr_unique_root H t v n m hwf h (construct_repr H t v m hwf hc)

/-- …and reads back exactly `v` through the view API: same elements and length, nothing left over
    beyond the length, no inaccessible element -/
theorem same_content (H : Hash) (t : Ty) (v : Val) (n : Node) (hwf : t.wf = true)
    (hlim : limitsOk t = true) (h : Impl.Repr H t v n) : Impl.readVal H t n = some v :=
  repr_read H t v n hwf hlim h

/-- the tree operations the mutators are made of keep the "data, then zeros" shape:
    element assignment, … -/
theorem set_keeps_shape (H : Hash) (d : Nat) (ls : List Node) (n : Node) (h : ChunkTree H d ls n)
    (i : Nat) (hi : i < ls.length) (x : Node) :
    ∃ n', Impl.setAt H false n i d x = some n' ∧ ChunkTree H d (ls.set i x) n' := ct_set h hi x

/-- … append by zero-checked expansion, … -/
theorem append_keeps_shape (H : Hash) (d : Nat) (ls : List Node) (n : Node) (h : ChunkTree H d ls n)
    (hlen : ls.length < 2 ^ d) (x : Node) :
    ∃ n', Impl.setAt H true n ls.length d x = some n' ∧ ChunkTree H d (ls ++ [x]) n' := ct_push h hlen x

/-- … pop: zero the last slot, optionally summarise upwards, write the new length. -/
theorem pop_keeps_shape (H : Hash) (d : Nat) (ls : List Node) (c : Node) (h : ChunkTree H d ls c)
    (hne : ls ≠ []) (lenN : Node) (z : Node) (hz : IsZero H 0 z) :
    ∃ c1, Impl.setAt H false (.pair c lenN) (ls.length - 1) (d + 1) z = some (.pair c1 lenN) ∧
      ChunkTree H d ls.dropLast c1 ∧
      ∀ (canSummarize : Bool) (newLen : Nat), ∃ c2,
        Impl.popFinish H (.pair c1 lenN) (pbits (d + 1) (ls.length - 1)) canSummarize newLen
          = some (.pair c2 (lenNode newLen)) ∧ ChunkTree H d ls.dropLast c2 :=
  ct_popFinish h hne lenN hz

/-- a "data, then zeros" tree has the spec merkleization of its data as root -/
theorem shape_root (H : Hash) (d : Nat) (ls : List Node) (n : Node) (h : ChunkTree H d ls n) :
    n.root H = Spec.merkleize H (ls.map (·.root H)) d := ct_root h

end Rmk.C04
