/-
C04 — A mutated view is indistinguishable from a fresh value with the same content.
`Impl.Repr H t v n` ("n represents v") admits every tree shape the mutators produce (appends with
zero-checked expansion, pops with summarisation).  Everything observable is a function of the value:
-/
import Rmk.Proofs.ReprBasics
import Rmk.Proofs.ChunkTree
namespace Rmk.C04
open Rmk Rmk.Impl Rmk.ReprBasics Rmk.ChunkTreeLemmas

/-- whatever its history, a tree that represents `v` has the spec root of `v` (no stale root) -/
theorem same_root (H : Hash) (t : Ty) (v : Val) (n : Node) (hwf : t.wf = true) (h : Impl.Repr H t v n) :
    n.root H = Spec.htr H t v := repr_root H t v n hwf h

/-- …the same root as a freshly constructed value with that content -/
theorem same_root_as_fresh (H : Hash) (t : Ty) (v : Val) (n m : Node) (hwf : t.wf = true)
    (h : Impl.Repr H t v n) (hc : Impl.construct H t v = some m) : n.root H = m.root H :=
  repr_unique_root H t v n m hwf h (construct_repr H t v m hwf hc)

/-- …and reads back exactly `v` through the view API: same elements and length, nothing left over
    beyond the length, no inaccessible element -/
theorem same_content (H : Hash) (t : Ty) (v : Val) (n : Node) (hwf : t.wf = true)
    (hlim : limitsOk t = true) (h : Impl.Repr H t v n) : Impl.readVal H t n = some v :=
  repr_read H t v n hwf hlim h

/-- the tree operations the mutators are made of keep the "data, then zeros" shape:
    element assignment, … -/
theorem set_keeps_shape (H : Hash) (d : Nat) (ls : List Node) (n : Node) (h : ChunkTree H d ls n)
    (i : Nat) (hi : i < ls.length) (x : Node) :
    ∃ n', Impl.setAt H false n i d x = some n' ∧ ChunkTree H d (ls.set i x) n' := ct_set h hi x

/-- … append by zero-checked expansion, … -/
theorem append_keeps_shape (H : Hash) (d : Nat) (ls : List Node) (n : Node) (h : ChunkTree H d ls n)
    (hlen : ls.length < 2 ^ d) (x : Node) :
    ∃ n', Impl.setAt H true n ls.length d x = some n' ∧ ChunkTree H d (ls ++ [x]) n' := ct_push h hlen x

/-- … pop: zero the last slot, optionally summarise upwards, write the new length. -/
theorem pop_keeps_shape (H : Hash) (d : Nat) (ls : List Node) (c : Node) (h : ChunkTree H d ls c)
    (hne : ls ≠ []) (lenN : Node) (z : Node) (hz : IsZero H 0 z) :
    ∃ c1, Impl.setAt H false (.pair c lenN) (ls.length - 1) (d + 1) z = some (.pair c1 lenN) ∧
      ChunkTree H d ls.dropLast c1 ∧
      ∀ (canSummarize : Bool) (newLen : Nat), ∃ c2,
        Impl.popFinish H (.pair c1 lenN) (pbits (d + 1) (ls.length - 1)) canSummarize newLen
          = some (.pair c2 (lenNode newLen)) ∧ ChunkTree H d ls.dropLast c2 :=
  ct_popFinish h hne lenN hz

/-- a "data, then zeros" tree has the spec merkleization of its data as root -/
theorem shape_root (H : Hash) (d : Nat) (ls : List Node) (n : Node) (h : ChunkTree H d ls n) :
    n.root H = Spec.merkleize H (ls.map (·.root H)) d := ct_root h

end Rmk.C04
