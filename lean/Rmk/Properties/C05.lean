/-
C05 — Mutations through child views propagate to every enclosing view.
C06 — (store level) copies are independent.
C14 — (store level) a failing operation yields no new state.
-/
import Rmk.Proofs.StoreLaws
import Rmk.Proofs.StoreContent
import Rmk.Proofs.StoreGuardLaws
namespace Rmk.C05
open Rmk Rmk.Impl Rmk.StoreLaws

/-- After a mutation through ANY held view `r`, the view itself has the new backing, and for every
    view `c` on the chain from `r` to its root view (with hook `(p, key)`), the enclosing view `p`
    has, at `key`, exactly the updated child: the change is reflected all the way up, whatever other
    views are held and in whatever order they were mutated (the theorem is about one arbitrary step
    from an arbitrary valid store). -/
theorem propagates (H : Hash) (s : Store) (r : Nat) (op : Op) (s' : Store)
    (hv : Valid s) (h : step H s (.mutate r op) = some s') :
    (∃ o n, s[r]? = some o ∧ apply H o.ty o.backing op = some n ∧ s'[r]? = some { o with backing := n }) ∧
    (∀ c ∈ chain s r, ∀ (oc : VObj) (p key : Nat) (po : VObj) (x : Node),
      s[c]? = some oc → oc.hook = some (p, key) → s[p]? = some po → KeyOk po.ty key →
      childOf H po.ty po.backing key = some (oc.ty, x) →
      ∃ oc' po', s'[c]? = some oc' ∧ s'[p]? = some po' ∧ oc'.ty = oc.ty ∧ po'.ty = po.ty ∧
        childOf H po'.ty po'.backing key = some (oc'.ty, oc'.backing)) :=
  mutate_propagates H s r op s' hv h

/-- CONTENT: in a store whose views represent values coherently along the chain of `r` (each child's
    value is its parent's sub-value at the hook key), after a mutation through `r` EVERY enclosing
    view — at any nesting depth — has exactly its old value with the updated sub-value put in at the
    key path, and its root, its content read through the view API and its encoding are those of that
    updated value.  (Only the chain needs to be coherent: stale sibling views are irrelevant.) -/
theorem content (H : Hash) (s : Store) (r : Nat) (op : Op) (s' : Store)
    (val : Nat → Val) (hv : Valid s) (hco : StoreContent.CoherentOn H s val (· ∈ chain s r))
    (h : step H s (.mutate r op) = some s') :
    ∃ (o : VObj) (new : Val), s[r]? = some o ∧ Spec.applyOp o.ty (val r) op = some new ∧
      ∀ x ∈ StoreContent.pathsTo s (r + 1) r, ∀ oc, s[x.1]? = some oc →
        ∃ oc' v', s'[x.1]? = some oc' ∧ oc'.ty = oc.ty ∧ oc'.hook = oc.hook ∧
          StoreContent.updateAt x.2 oc.ty (val x.1) new = some v' ∧
          oc'.backing.root H = Spec.htr H oc.ty v' ∧
          readVal H oc.ty oc'.backing = some v' ∧
          serTree H oc.ty oc'.backing = some (Spec.serialize oc.ty v', (Spec.serialize oc.ty v').length) :=
  StoreContent.mutate_chain_observables H s r op s' val hv hco h

/-- …and nothing else changes: views that are not on that chain (siblings, other subtrees, copies)
    are exactly as before. -/
theorem frame (H : Hash) (s : Store) (r : Nat) (op : Op) (s' : Store)
    (h : step H s (.mutate r op) = some s') (q : Nat) (hq : q ∉ chain s r) : s'[q]? = s[q]? :=
  mutate_frame H s r op s' h q hq

/-- the other children of an enclosing view are untouched by the hook -/
theorem siblings_untouched (H : Hash) (t : Ty) (n : Node) (key key' : Nat) (c n' : Node)
    (h : setChildNode H t n key c = some n') (hk : InRange t key) (hk' : InRange t key') (hne : key' ≠ key) :
    childOf H t n' key' = childOf H t n key' :=
  setChildNode_other H t n n' key key' c hk hk' hne h

/-- validity of the store (hooks point to earlier views) is an invariant of every operation -/
theorem valid_invariant (H : Hash) (s : Store) (op : SOp) (s' : Store)
    (hv : Valid s) (h : step H s op = some s') : Valid s' := step_valid H s op s' hv h

/-- C06 at the store level: a copy has the same content and no hook; mutating the copy never changes
    any other view, and mutating any other view never changes the copy — for whole later histories. -/
theorem copies_independent (H : Hash) (s : Store) (r : Nat) (s1 : Store)
    (hv : Valid s) (h : step H s (.copy r) = some s1) (ops : List SOp) (s2 : Store)
    (h2 : run H s1 ops = some s2) :
    (Avoids H s.length s1 ops → s2[s.length]? = s1[s.length]?) ∧
    (Within H s.length s1 ops → ∀ q : Nat, q < s.length → s2[q]? = s[q]?) :=
  copy_independent_run H s r s1 hv h ops s2 h2

/-- C14 at the store level: a mutation step yields a new store only if the mutation itself and every
    hook on the way up succeed; otherwise there is no new state (the caller keeps the old store). -/
theorem failed_op_no_state (H : Hash) (s : Store) (r : Nat) (op : Op) :
    step H s (.mutate r op) = none ↔
      s[r]? = none ∨ ∃ o, s[r]? = some o ∧
        (apply H o.ty o.backing op = none ∨
         ∃ n, apply H o.ty o.backing op = some n ∧ setBacking H (r + 1) s r n = none) :=
  step_mutate_eq_none_iff H s r op

/-! ### the guarded store (`Impl/StoreGuard.lean`): value views of a union remember the selector they were handed out
    for; a write through a view of an option that is no longer selected is refused (D18) -/

/-- every step of the guarded store is a step of the store semantics above: `propagates`, `content`, `frame`,
    `copies_independent`, `valid_invariant` all apply to it; the guard only adds failures -/
theorem guarded_refines (H : Hash) (g g' : GStore) (op : SOp) (h : stepG H g op = some g') :
    step H g.views op = some g'.views := StoreGuardLaws.stepG_refines H g g' op h

/-- …and it adds a failure exactly when some hook on the way up is stale -/
theorem guarded_eq_unless_stale (H : Hash) (g : GStore) (r : Nat) (op : Op)
    (h : staleChain H g.views g.sels (r + 1) r = false) :
    (stepG H g (.mutate r op)).map (·.views) = step H g.views (.mutate r op) :=
  StoreGuardLaws.stepG_of_not_stale H g r op h

/-- C14 at the store level: a write through a view whose union parent has moved on raises (no new state) -/
theorem stale_write_refused (H : Hash) (g : GStore) (r : Nat) (op : Op)
    (h : staleChain H g.views g.sels (r + 1) r = true) : stepG H g (.mutate r op) = none :=
  StoreGuardLaws.stale_refused H g r op h

/-- TYPE SAFETY of union write-back, for whole histories: starting from one root view, after any history of guarded
    steps every union value view still remembers a selector that designates the option of the view's own type, and
    every write that is let through stores, in every union on the way up, a node of the type of the option that union
    has selected NOW. -/
theorem guarded_union_write_typed (H : Hash) (o : VObj) (ho : o.hook = none) (ops : List SOp) (g : GStore)
    (hrun : runG H { views := [o], sels := [none] } ops = some g)
    (r : Nat) (op : Op) (g' : GStore) (h : stepG H g (.mutate r op) = some g')
    (c : Nat) (oc po : VObj) (p key : Nat) (hasNone : Bool) (opts : List Ty)
    (hmem : c ∈ chain g.views r) (hc : g.views[c]? = some oc) (hh : oc.hook = some (p, key))
    (hp : g.views[p]? = some po) (hu : po.ty = .union hasNone opts) :
    ∃ sel, unionSel H po.backing = some sel ∧ Spec.optType hasNone opts sel = some oc.ty := by
  have hv0 : Valid ([o] : Store) := by
    intro r' o' hr' p' key' hk'
    cases r' with
    | zero => simp at hr'; subst hr'; simp [ho] at hk'
    | succ n => simp at hr'
  obtain ⟨_, _, ht⟩ := StoreGuardLaws.selTyped_run H ops { views := [o], sels := [none] } g hv0 (by simp) (StoreGuardLaws.selTyped_init H o ho) hrun
  exact StoreGuardLaws.guarded_write_selected_option_chain H g g' r op c oc po p key hasNone opts ht h hmem hc hh hp hu

end Rmk.C05
