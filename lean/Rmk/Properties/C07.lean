/-
C07 — Tree read/write by generalized index obeys get/set laws.
Property theorems only (helper lemmas live in Rmk/Proofs).  All statements hold for every pair
hash `H`, every tree, every generalized index and every replacement node.
-/
import Rmk.Proofs.TreeLaws
import Rmk.Proofs.Gindex
namespace Rmk.C07
open Rmk

/-- a path runs through a leaf of `n`: some proper prefix of it ends in a leaf -/
def RunsThroughLeaf (n : Node) (p : List Bool) : Prop :=
  ∃ q b r c, p = q ++ b :: r ∧ getPath n q = some (.leaf c)

/-- Reading: index 0 is refused; index `g ≥ 1` returns the subtree at the bit path of `g`
    (every path is the bit string of exactly one index, `gbits_gindexOfPath`), and fails — with a
    navigation error, the only failure of `getter` — exactly when the path runs through a leaf. -/
theorem getter_zero (n : Node) : getter n 0 = none := by simp [getter]

theorem getter_root (n : Node) : getter n 1 = some n := by simp [getter]

theorem getter_child (n : Node) (g : Nat) (hg : g ≠ 0) :
    getter n (2 * g) = (getter n g).bind getLeft ∧
    getter n (2 * g + 1) = (getter n g).bind getRight := by
  have h2 : 2 * g ≠ 0 := by omega
  simp only [getter, hg, h2, if_false, gbits_two_mul hg, gbits_two_mul_add_one hg, getPath_append,
    Nat.add_eq_zero_iff]
  constructor <;>
  · cases getPath n (gbits g) with
    | none => rfl
    | some m => cases m <;> simp [getLeft, getRight]

theorem getPath_none_iff (n : Node) (p : List Bool) :
    getPath n p = none ↔ RunsThroughLeaf n p := by
  induction p generalizing n with
  | nil => simp [RunsThroughLeaf]
  | cons b bs ih =>
    cases n with
    | leaf c => simp only [getPath_leaf_cons, true_iff]; exact ⟨[], b, bs, c, rfl, by simp⟩
    | pair l r =>
      have key : ∀ (m : Node), (if b then r else l) = m →
          (RunsThroughLeaf m bs ↔ RunsThroughLeaf (.pair l r) (b :: bs)) := by
        intro m hm
        constructor
        · rintro ⟨q, b', r', c, rfl, hq⟩
          refine ⟨b :: q, b', r', c, rfl, ?_⟩
          cases b <;> simp at hm <;> subst hm <;> simpa using hq
        · rintro ⟨q, b', r', c, hp, hq⟩
          cases q with
          | nil => simp at hq
          | cons a q' =>
            simp at hp
            obtain ⟨rfl, rfl⟩ := hp
            refine ⟨q', b', r', c, rfl, ?_⟩
            cases b <;> simp at hm <;> subst hm <;> simpa using hq
      cases b
      · simp only [getPath_pair_cons, Bool.false_eq_true, if_false]
        rw [ih l]; exact key l rfl
      · simp only [getPath_pair_cons, if_true]
        rw [ih r]; exact key r rfl

theorem getter_fails_iff (n : Node) (g : Nat) (hg : g ≠ 0) :
    getter n g = none ↔ RunsThroughLeaf n (gbits g) := by
  simp [getter, hg, getPath_none_iff]

/-- Writing without expansion succeeds exactly where reading does. -/
theorem setter_ok_iff (H : Hash) (n : Node) (g : Nat) (v : Node) :
    (setter H n g false v).isSome = (getter n g).isSome := by
  by_cases hg : g = 0
  · simp [setter, getter, hg]
  · simp [setter, getter, hg, setPath_isSome_iff]

/-- The result has that very node at the position (expansion on or off). -/
theorem get_set_same (H : Hash) (e : Bool) (n : Node) (g : Nat) (v n' : Node)
    (h : setter H n g e v = some n') : getter n' g = some v := by
  by_cases hg : g = 0
  · simp [setter, hg] at h
  · simp only [setter, hg, if_false] at h
    simp only [getter, hg, if_false]
    exact getPath_setPath_same H e n _ v n' h

/-- …and is identical everywhere else: at positions that diverge from the written one, … -/
theorem get_set_other (H : Hash) (n : Node) (g g' : Nat) (v n' : Node)
    (h : setter H n g false v = some n') (hg' : g' ≠ 0) (hd : diverge (gbits g) (gbits g') = true) :
    getter n' g' = getter n g' := by
  by_cases hg : g = 0
  · simp [setter, hg] at h
  · simp only [setter, hg, if_false] at h
    simp only [getter, hg', if_false]
    exact getPath_setPath_diverge H n _ _ v n' h hd

/-- … below it (inside the written node), … -/
theorem get_set_below (H : Hash) (e : Bool) (n : Node) (g : Nat) (r : List Bool) (v n' : Node)
    (h : setter H n g e v = some n') : getPath n' (gbits g ++ r) = getPath v r := by
  by_cases hg : g = 0
  · simp [setter, hg] at h
  · simp only [setter, hg, if_false] at h
    exact getPath_setPath_below H e n _ r v n' h

/-- … and above it (the old subtree with the same write applied inside). -/
theorem get_set_above (H : Hash) (n : Node) (q r : List Bool) (v n' : Node)
    (h : setPath H false n (q ++ r) v = some n') :
    getPath n' q = (getPath n q).bind (fun m => setPath H false m r v) :=
  getPath_setPath_above H n q r v n' h

/-- The root of the result equals the from-scratch recomputation from the sibling roots along the
    path and the root of the written node. -/
theorem set_root (H : Hash) (n : Node) (g : Nat) (v n' : Node)
    (h : setter H n g false v = some n') : n'.root H = rootWith H n (gbits g) (v.root H) := by
  by_cases hg : g = 0
  · simp [setter, hg] at h
  · simp only [setter, hg, if_false] at h
    exact setPath_root H n _ v n' h

/-- With expansion enabled the result equals the same (plain) write on the tree in which the
    zero-subtree summaries on the path are materialised; that tree has the same root as the original. -/
theorem set_expand (H : Hash) (n : Node) (g : Nat) (v n' : Node)
    (h : setter H n g true v = some n') :
    ∃ m, Expands H n m ∧ m.root H = n.root H ∧ setter H m g false v = some n' := by
  by_cases hg : g = 0
  · simp [setter, hg] at h
  · simp only [setter, hg, if_false] at h ⊢
    obtain ⟨m, hm, hs⟩ := setPath_expand H n _ v n' h
    exact ⟨m, hm, hm.root_eq, hs⟩

/-- Where the position exists, expansion changes nothing. -/
theorem set_expand_noop (H : Hash) (n : Node) (g : Nat) (v m : Node) (hg : getter n g = some m) :
    setter H n g true v = setter H n g false v := by
  by_cases h0 : g = 0
  · simp [setter, h0]
  · simp only [getter, h0, if_false] at hg
    simp only [setter, h0, if_false]
    exact setPath_expand_of_get H n _ v m hg

/-- A leaf above the target that is not the zero-subtree summary of its height is never silently
    discarded: the write fails instead. -/
theorem set_expand_nonzero_fails (H : Hash) (n : Node) (q r : List Bool) (b : Bool) (c : Chunk) (v : Node)
    (hg : getPath n q = some (.leaf c)) (hc : c ≠ zeroHash H (r.length + 1)) :
    setPath H true n (q ++ b :: r) v = none :=
  setPath_expand_nonzero H n q r b c v hg hc

/-- `summarize_into` keeps the root. -/
theorem summarize_root (H : Hash) (n : Node) (g : Nat) (m : Node)
    (h : summarizeInto H n g = some m) : m.root H = n.root H := by
  by_cases hg : g = 0
  · simp [summarizeInto, hg] at h
  · simp only [summarizeInto, hg, if_false] at h
    exact (summarizePath_summ H n _ m h).root_eq

/-! Non-vacuity: a concrete tree, index and node meeting the hypotheses (expansion included). -/

private def H0 : Hash := fun a _ => a
private def t0 : Node := .pair (.leaf [1]) (zeroNode H0 2)

example : setter H0 t0 13 true (.leaf [9]) =
    some (.pair (.leaf [1]) (.pair (.pair (zeroNode H0 0) (.leaf [9])) (zeroNode H0 1))) := by
  decide

example : getter t0 13 = none ∧ (setter H0 t0 2 false (.leaf [7])).isSome := by decide

end Rmk.C07
