/-
C08 — Paths yield the SSZ-spec generalized index and address the right node.
-/
import Rmk.Proofs.PathGindex
import Rmk.Proofs.PathAddress
namespace Rmk.C08
open Rmk

/-- For every well-formed type and every key sequence, the index the library computes from the type
    alone (`navigate_type` / `key_to_static_gindex` / `concat_gindices`) equals the SSZ
    `get_generalized_index`; both are undefined for exactly the same (invalid) key sequences, so keys
    that do not belong to the type are rejected when the path is built. -/
theorem static_gindex (t : Ty) (keys : List Key) (hwf : t.wf = true) :
    Impl.pathGindex t keys = Spec.gindex 1 (some t) keys :=
  pathGindex_eq_spec t keys hwf

/-- concatenating paths equals concatenating indices -/
theorem concat_paths (t t' : Ty) (ks1 ks2 : List Key) (p1 : List (Key × Option Ty))
    (hp : Impl.buildPath (some t) ks1 = some p1) (hend : pathEnd (some t) p1 = some t') :
    Impl.pathGindex t (ks1 ++ ks2) =
      (do let a ← Impl.pathGindex t ks1; let b ← Impl.pathGindex t' ks2; pure (concatGindices [a, b])) :=
  pathGindex_append t t' ks1 ks2 p1 hp hend

/-- index concatenation is associative -/
theorem concat_assoc (xs ys : List Nat) (h : ∀ y ∈ ys, y ≠ 0) :
    concatGindices [concatGindices xs, concatGindices ys] = concatGindices (xs ++ ys) :=
  concatGindices_assoc xs ys h

/-- navigating by a concatenated index is navigating by the first index, then by the second -/
theorem navigate_concat (n : Node) (a b : Nat) (ha : a ≠ 0) (hb : b ≠ 0) :
    getter n (concatGindices [a, b]) = (getter n a).bind (fun m => getter m b) :=
  getPath_concat n ha hb

/-- For ANY tree that represents a value (whatever its history) and any key path that is valid for
    the VALUE and stays in positions that have a node of their own: the static index is defined, the
    backing node at that index represents the addressed sub-value, and so has its hash-tree-root. -/
theorem addresses (H : Hash) (t : Ty) (v : Val) (n : Node) (keys : List Key) (t' : Ty) (v' : Val)
    (hr : Impl.Repr H t v n) (hwf : t.wf = true) (hlim : ReprBasics.limitsOk t = true)
    (hp : PathAddress.subValPath (some t) v keys = some (some t', v')) :
    ∃ g m, Impl.pathGindex t keys = some g ∧ getter n g = some m ∧ Impl.Repr H t' v' m ∧
      m.root H = Spec.htr H t' v' :=
  PathAddress.path_addresses H t v n keys t' v' hr hwf hlim hp

/-- …and when the last key addresses a PACKED element (basic element of a sequence, a bit, a byte),
    the node at the index is the leaf chunk that holds the element, and the element decodes from it. -/
theorem addresses_packed (H : Hash) (t : Ty) (v : Val) (n : Node) (keys : List Key)
    (t' : Ty) (v' : Val) (i : Nat) (cs : List Chunk) (per : Nat) (ot : Option Ty) (x : Val)
    (hr : Impl.Repr H t v n) (hwf : t.wf = true) (hlim : ReprBasics.limitsOk t = true)
    (hpath : PathAddress.subValPath (some t) v keys = some (some t', v'))
    (hp : PathAddress.packedChunks t' v' = some (cs, per))
    (hs : PathAddress.subVal t' v' (.idx i) = some (ot, x)) :
    ∃ g, ∃ hj : i / per < cs.length, Impl.pathGindex t (keys ++ [.idx i]) = some g ∧
      getter n g = some (.leaf cs[i / per]) ∧ PathAddress.elemOfChunk H t' cs[i / per] i = some x :=
  PathAddress.path_packed_addresses H t v n keys t' v' i cs per ot x hr hwf hlim hpath hp hs

/-! Non-vacuity -/
example : Impl.pathGindex (.container [.uint 8, .list (.uint 2) 100]) [.idx 1, .idx 37] = some 50 ∧
    Impl.pathGindex (.container [.uint 8, .list (.uint 2) 100]) [.idx 1, .idx 100] = none := by decide

end Rmk.C08
