/-
C09 — Decoding arbitrary bytes is safe: clean rejection or a well-formed value.
C10 — Decoding accepts only the canonical encoding.
One soundness theorem carries both (the decoder mirror is a total Lean function: it terminates on
every input by construction).
-/
import Rmk.Proofs.DecodeSound
import Rmk.Proofs.DecodeRoundtrip
import Rmk.Proofs.ConstructRoot
import Rmk.Proofs.Sizes
import Rmk.Proofs.DeserWorkBound
import Rmk.Proofs.DeserTreeLaws
namespace Rmk.C10
open Rmk

/-- Whenever decoding `scope` bytes of a stream succeeds, the result is a valid value of the type
    (lengths within limits, integers in range, valid selector), re-encoding it reproduces exactly
    the consumed bytes, and exactly `scope` bytes were consumed. -/
theorem sound (t : Ty) (hwf : t.wf = true) (s : List UInt8) (scope : Nat) (v : Val) (rest : List UInt8)
    (hs : scope ≤ s.length) (h : Impl.deser t s scope = some (v, rest)) :
    WT t v = true ∧ Spec.serialize t v = s.take scope ∧ rest = s.drop scope :=
  DecodeSound.sound t hwf s scope v rest hs h

/-- `decode_bytes`: success means the input IS the SSZ encoding of the returned value. -/
theorem canonical (t : Ty) (hwf : t.wf = true) (b : List UInt8) (v : Val) (rest : List UInt8)
    (h : Impl.deser t b b.length = some (v, rest)) :
    WT t v = true ∧ Spec.serialize t v = b ∧ rest = [] :=
  DecodeSound.decode_bytes_sound t hwf b v rest h

/-- No two distinct byte strings decode to the same value. -/
theorem injective (t : Ty) (hwf : t.wf = true) (b1 b2 : List UInt8) (v : Val) (r1 r2 : List UInt8)
    (h1 : Impl.deser t b1 b1.length = some (v, r1)) (h2 : Impl.deser t b2 b2.length = some (v, r2)) :
    b1 = b2 :=
  DecodeSound.injective t hwf b1 b2 v r1 r2 h1 h2

/-- The set of accepted strings is exactly the set of valid SSZ encodings of the type. -/
theorem accepted_iff_valid_encoding (t : Ty) (hwf : t.wf = true) (b : List UInt8) (hb : b.length < 2 ^ 32) :
    (∃ v rest, Impl.deser t b b.length = some (v, rest)) ↔ (∃ v, WT t v = true ∧ Spec.serialize t v = b) := by
  constructor
  · rintro ⟨v, rest, h⟩
    obtain ⟨h1, h2, _⟩ := canonical t hwf b v rest h
    exact ⟨v, h1, h2⟩
  · rintro ⟨v, hwt, rfl⟩
    exact ⟨v, [], DecodeRoundtrip.decode_bytes t v hwf hwt hb⟩

/-- C09: an accepted input yields a value that can be built (every element readable), whose root is
    the spec root of its content, whose encoding and reported byte length are those of the input,
    within the type's bounds, and which is stable under a further encode/decode cycle. -/
theorem safe (H : Hash) (t : Ty) (hwf : t.wf = true) (b : List UInt8) (v : Val) (rest : List UInt8)
    (hb : b.length < 2 ^ 32) (h : Impl.deser t b b.length = some (v, rest)) :
    WT t v = true ∧
    (∃ n, Impl.construct H t v = some n ∧ n.root H = Spec.htr H t v) ∧
    (Spec.serialize t v).length = b.length ∧
    Spec.minLen t ≤ b.length ∧ b.length ≤ Spec.maxLen t ∧
    Impl.deser t (Spec.serialize t v) (Spec.serialize t v).length = some (v, []) := by
  obtain ⟨hwt, hser, _⟩ := canonical t hwf b v rest h
  have hbd := serialize_bounds t v hwf hwt
  refine ⟨hwt, ConstructRoot.construct_spec H t v hwf hwt, by rw [hser], ?_, ?_, ?_⟩
  · rw [← hser]; exact hbd.1
  · rw [← hser]; exact hbd.2
  · exact DecodeRoundtrip.decode_bytes t v hwf hwt (by rw [hser]; exact hb)

/-- C09, "decoding terminates": the number of `deserialize` calls (nested ones included) that decoding makes —
    on ANY stream, with any scope, whether it succeeds or raises — is bounded by a linear function of the scope
    whose two constants depend on the type only (`DeserWorkBound.W`, `DeserWorkBound.A`: computable, printed by
    the driver). `Impl.deserWork` follows `Impl.deser` call by call; the harness counts the library's real
    `deserialize` calls on every generated input and compares. -/
theorem work_linear (t : Ty) (hwf : t.wf = true) (s : List UInt8) (scope : Nat) :
    1 ≤ Impl.deserWork t s scope ∧
    Impl.deserWork t s scope ≤ DeserWorkBound.W t * (scope + 1) + DeserWorkBound.A t :=
  ⟨DeserWorkBound.deserWork_pos t s scope, DeserWorkBound.deserWork_le t hwf s scope⟩

/-- C09 / C01 (decode route): the trees that `Bitlist.deserialize` / `Bitvector.deserialize` build DIRECTLY from the
    chunks of the input (every other decoder goes through the constructors) are exactly the constructor trees of the
    decoded bits: same node, hence same root (`Spec.htr`), fully readable, same sharing of zero subtrees. -/
theorem bitfield_decoder_tree (H : Hash) (t : Ty) (s : List UInt8) (scope : Nat) (bits : List Bool) (rest : List UInt8)
    (hwf : t.wf = true) (hk : (∃ lim, t = .bitlist lim) ∨ (∃ len, t = .bitvector len))
    (h : Impl.deser t s scope = some (.bits bits, rest)) :
    ∃ n, DeserTreeLaws.bitfieldTree H t (s.take scope) = some n ∧ Impl.construct H t (.bits bits) = some n ∧
      n.root H = Spec.htr H t (.bits bits) :=
  DeserTreeLaws.decoded_bitfield_root H t s scope bits rest hk hwf h

/-! Non-vacuity of `work_linear`: a list of containers holding a list; a valid encoding costs 9 calls, a garbage
    offset 1, the bound at scope 20 is 22 -/
private def tw : Ty := .list (.container [.uint 1, .list (.uint 1) 4]) 3
example : tw.wf = true ∧ DeserWorkBound.W tw * (20 + 1) + DeserWorkBound.A tw = 22 := by decide

/-! Non-vacuity: a near-valid string (gap before the first variable part) is rejected, the valid one accepted -/
private def t0 : Ty := .container [.list (.uint 1) 10]
example : (Impl.deser t0 [5, 0, 0, 0, 0xaa, 0xbb] 6).isSome = false ∧
    (Impl.deser t0 [4, 0, 0, 0, 0xaa] 5).map (fun p => Val.beq p.1 (.seq [.seq [.num 0xaa]]) && p.2 == []) = some true := by
  decide

end Rmk.C10
