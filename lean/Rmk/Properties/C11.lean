/-
C11 — Type size facts are exact and values report their true byte length.
The size functions `Spec.isFixed / fixedLen / minLen / maxLen` are what the library's
`is_fixed_byte_length / type_byte_length / min_byte_length / max_byte_length` compute (checked by the
correspondence on every run); the theorems tie them to the lengths of actual encodings.
-/
import Rmk.Proofs.Sizes
import Rmk.Proofs.ByteLengthLaws
namespace Rmk.C11
open Rmk

/-- every encoding of a value of a fixed-size type has exactly the fixed length -/
theorem fixed_length (t : Ty) (v : Val) (hwf : t.wf = true) (hwt : WT t v = true)
    (hf : Spec.isFixed t = true) : (Spec.serialize t v).length = Spec.fixedLen t :=
  serialize_fixed t v hwf hwt hf

/-- every encoding lies within the type's bounds -/
theorem bounds (t : Ty) (v : Val) (hwf : t.wf = true) (hwt : WT t v = true) :
    Spec.minLen t ≤ (Spec.serialize t v).length ∧ (Spec.serialize t v).length ≤ Spec.maxLen t :=
  serialize_bounds t v hwf hwt

/-- the bounds are exact: both are attained by some valid value -/
theorem tight (t : Ty) (hwf : t.wf = true) :
    (∃ v, WT t v = true ∧ (Spec.serialize t v).length = Spec.minLen t) ∧
    (∃ v, WT t v = true ∧ (Spec.serialize t v).length = Spec.maxLen t) :=
  ⟨min_attained t hwf, max_attained t hwf⟩

/-- for fixed-size types minimum, maximum and fixed length coincide, and are positive -/
theorem fixed_min_max (t : Ty) (hwf : t.wf = true) (hf : Spec.isFixed t = true) :
    Spec.minLen t = Spec.fixedLen t ∧ Spec.maxLen t = Spec.fixedLen t ∧ 0 < Spec.fixedLen t :=
  ⟨(Rmk.fixed_min_max t hwf hf).1, (Rmk.fixed_min_max t hwf hf).2, fixedLen_pos t hwf hf⟩

/-- `value_byte_length()` — computed by the library with its own recursion over the view, not by
    serialising — equals the length of the actual encoding, for every tree that represents the value;
    hence it lies within the type's bounds and equals the fixed length for fixed-size types. -/
theorem value_byte_length (H : Hash) (t : Ty) (v : Val) (n : Node) (hwf : t.wf = true)
    (hlim : ReprBasics.limitsOk t = true) (h : Impl.Repr H t v n) :
    Impl.valueByteLength H t n = some (Spec.serialize t v).length :=
  ByteLengthLaws.repr_vbl H t v n hwf hlim h

/-! Non-vacuity -/
private def t0 : Ty := .container [.uint 2, .list (.uint 1) 5, .bitlist 9]
example : t0.wf = true ∧ WT t0 (.seq [.num 7, .seq [.num 1, .num 2], .bits [true]]) = true ∧
    Spec.minLen t0 = 11 ∧ Spec.maxLen t0 = 17 ∧
    (Spec.serialize t0 (.seq [.num 7, .seq [.num 1, .num 2], .bits [true]])).length = 13 := by decide

end Rmk.C11
