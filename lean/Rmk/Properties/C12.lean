/-
C12 — Default values are the SSZ zero values.
-/
import Rmk.Proofs.DefaultNode
import Rmk.Proofs.Leftovers
namespace Rmk.C12
open Rmk

/-- every well-formed type has a default tree, and it has the hash-tree-root of the SSZ zero value -/
theorem default_root (H : Hash) (t : Ty) (hwf : t.wf = true) :
    ∃ n, Impl.defaultNode H t = some n ∧ n.root H = Spec.htr H t (Spec.zeroVal t) := by
  have h := DefaultNode.default_isSome H t hwf
  obtain ⟨n, hn⟩ := Option.isSome_iff_exists.1 h
  exact ⟨n, hn, DefaultNode.default_root H t hwf n hn⟩

/-- the zero value is a valid value -/
theorem zero_valid (t : Ty) (hwf : t.wf = true) : WT t (Spec.zeroVal t) = true :=
  DefaultNode.zeroVal_wt t hwf

/-- the default tree and the explicitly constructed all-zero / empty value have the same root -/
theorem default_eq_explicit (H : Hash) (t : Ty) (hwf : t.wf = true) :
    ∃ n m, Impl.defaultNode H t = some n ∧ Impl.construct H t (Spec.zeroVal t) = some m ∧
      n.root H = m.root H ∧ n.root H = Spec.htr H t (Spec.zeroVal t) :=
  DefaultNode.default_and_construct_exist H t hwf

/-- the default tree is navigable wherever the type has fixed structure: reading it completely
    through the view API succeeds and yields the zero value (content of a default-constructed view) -/
theorem default_content (H : Hash) (t : Ty) (hwf : t.wf = true) (n : Node)
    (h : Impl.defaultNode H t = some n) : Impl.readVal H t n = some (Spec.zeroVal t) :=
  DefaultNode.default_read H t hwf n h

/-- omitted container fields take their defaults: a container built with some fields given and the
    others omitted (their `default_node()` is used) represents the value in which the omitted fields
    are the zero values, has its spec root, and the same root as the fully explicit construction -/
theorem omitted_fields (H : Hash) (fs : List Ty) (ovs : List (Option Val))
    (hwf : (Ty.container fs).wf = true) (hwt : Leftovers.WTpartial fs ovs) :
    ∃ n m, Leftovers.containerPartial H fs ovs = some n ∧
      Impl.construct H (.container fs) (.seq (Leftovers.fillDefaults fs ovs)) = some m ∧
      Impl.Repr H (.container fs) (.seq (Leftovers.fillDefaults fs ovs)) n ∧
      n.root H = m.root H ∧
      n.root H = Spec.htr H (.container fs) (.seq (Leftovers.fillDefaults fs ovs)) :=
  Leftovers.containerPartial_spec H fs ovs hwf hwt

/-! Non-vacuity: a vector whose chunk count (3) is not a power of two, nested -/
private def H0 : Hash := fun a b => a ++ b
private def t0 : Ty := .container [.vector (.uint 8) 9, .list (.uint 2) 5]
example : t0.wf = true ∧ (Impl.defaultNode H0 t0).isSome = true := by decide

end Rmk.C12
