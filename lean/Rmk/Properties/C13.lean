/-
C13 — uintN operators are exact, range-checked and never wrap or widen silently.
`w` is the byte width (1,2,4,8,16,32); operands `a`, `b` are in range.  An operand is a uint of
some byte width (`width := some w'`) or a plain int (`width := none`).
-/
import Rmk.Impl.Misc
import Rmk.Proofs.Gindex
import Rmk.Impl.UintExtra
namespace Rmk.C13
open Rmk Rmk.Impl

/-- the constructor accepts exactly the in-range integers -/
theorem ctor (w : Nat) (x : Int) :
    wrap w x = if 0 ≤ x ∧ x.toNat < 2 ^ (8 * w) then some x.toNat else none := by
  unfold wrap
  by_cases hx : x < 0
  · have : ¬ (0 ≤ x) := by omega
    simp [hx, this]
  · have h0 : 0 ≤ x := by omega
    have hb := bitLength_le_iff x.toNat (8 * w)
    by_cases hlt : x.toNat < 2 ^ (8 * w)
    · have : ¬ (bitLength x.toNat > 8 * w) := by have := hb.2 hlt; omega
      simp [hx, h0, hlt, this]
    · have : bitLength x.toNat > 8 * w := by
        rcases Nat.lt_or_ge (8 * w) (bitLength x.toNat) with h | h
        · exact h
        · exact absurd (hb.1 h) hlt
      simp [hx, h0, hlt, this]

theorem wrapN_eq (w n : Nat) : wrapN w n = if n < 2 ^ (8 * w) then some n else none := by
  unfold wrapN; rw [ctor]; simp

/-- an operand of another width is refused by every coercing operator -/
theorem coerce_other (w w' : Nat) (b : Int) (h : w' ≠ w) : coerceOperand w ⟨some w', b⟩ = none := by
  simp [coerceOperand, h]

/-- a same-width uint or an in-range plain int is taken as itself -/
theorem coerce_same (w b : Nat) (hb : b < 2 ^ (8 * w)) :
    coerceOperand w ⟨some w, (b : Int)⟩ = some b ∧ coerceOperand w ⟨none, (b : Int)⟩ = some b := by
  have := wrapN_eq w b
  simp only [wrapN, hb, if_true] at this
  simp [coerceOperand, this]

/-- a negative or too large plain int is refused -/
theorem coerce_plain_bad (w : Nat) (b : Int) (h : b < 0 ∨ 2 ^ (8 * w) ≤ b.toNat) :
    coerceOperand w ⟨none, b⟩ = none := by
  simp only [coerceOperand, ctor]
  rcases h with h | h
  · have : ¬ (0 ≤ b) := by omega
    simp [this]
  · have : ¬ (b.toNat < 2 ^ (8 * w)) := by omega
    simp [this]

/-- the coercing operators refuse an operand of another width -/
theorem other_width_refused (w w' a : Nat) (b : Int) (h : w' ≠ w) (op : BinOp)
    (hop : op = .add ∨ op = .sub ∨ op = .mul ∨ op = .floordiv ∨ op = .mod ∨ op = .and ∨ op = .or ∨ op = .xor) :
    directOp w a op ⟨some w', b⟩ = none := by
  rcases hop with rfl | rfl | rfl | rfl | rfl | rfl | rfl | rfl <;> simp [directOp, coerce_other w w' b h]

section ops
variable (w a b : Nat) (k : Option Nat)

private theorem co (hk : k = some w ∨ k = none) (hb : b < 2 ^ (8 * w)) :
    coerceOperand w ⟨k, (b : Int)⟩ = some b := by
  rcases hk with rfl | rfl
  · exact (coerce_same w b hb).1
  · exact (coerce_same w b hb).2

variable (hk : k = some w ∨ k = none) (ha : a < 2 ^ (8 * w)) (hb : b < 2 ^ (8 * w))
set_option linter.unusedSectionVars false
include hk hb

/-- `+`: exactly the sum when it fits, an error otherwise (never wraps) -/
theorem add : directOp w a .add ⟨k, b⟩ = if a + b < 2 ^ (8 * w) then some (a + b) else none := by
  simp [directOp, co w b k hk hb, wrapN_eq]

/-- `*` -/
theorem mul : directOp w a .mul ⟨k, b⟩ = if a * b < 2 ^ (8 * w) then some (a * b) else none := by
  simp [directOp, co w b k hk hb, wrapN_eq]

include ha

/-- `-`: exactly the difference when it is not negative, an error otherwise -/
theorem sub : directOp w a .sub ⟨k, b⟩ = if b ≤ a then some (a - b) else none := by
  simp only [directOp, co w b k hk hb, Option.bind_some, wrapN_eq]
  by_cases h : b ≤ a
  · have : ¬ a < b := by omega
    have h2 : a - b < 2 ^ (8 * w) := by omega
    simp [h, this, h2]
  · have : a < b := by omega
    simp [h, this]

/-- `//`: exact; division by zero is an error -/
theorem floordiv : directOp w a .floordiv ⟨k, b⟩ = if b = 0 then none else some (a / b) := by
  simp only [directOp, co w b k hk hb, Option.bind_some, wrapN_eq]
  by_cases h : b = 0
  · simp [h]
  · have : a / b < 2 ^ (8 * w) := Nat.lt_of_le_of_lt (Nat.div_le_self a b) ha
    simp [h, this]

/-- `%` -/
theorem mod : directOp w a .mod ⟨k, b⟩ = if b = 0 then none else some (a % b) := by
  simp only [directOp, co w b k hk hb, Option.bind_some, wrapN_eq]
  by_cases h : b = 0
  · simp [h]
  · have : a % b < 2 ^ (8 * w) := Nat.lt_of_le_of_lt (Nat.mod_le a b) ha
    simp [h, this]

/-- `&`, `|`, `^` never fail and stay within the width -/
theorem and : directOp w a .and ⟨k, b⟩ = some (a &&& b) := by
  simp [directOp, co w b k hk hb, wrapN_eq, Nat.and_lt_two_pow a hb]

theorem or : directOp w a .or ⟨k, b⟩ = some (a ||| b) := by
  simp [directOp, co w b k hk hb, wrapN_eq, Nat.or_lt_two_pow ha hb]

theorem xor : directOp w a .xor ⟨k, b⟩ = some (a ^^^ b) := by
  simp [directOp, co w b k hk hb, wrapN_eq, Nat.xor_lt_two_pow ha hb]

/-- reflected forms with a plain int on the left -/
theorem rsub : reflectedOp w a .sub ⟨k, b⟩ = if a ≤ b then some (b - a) else none := by
  simp only [reflectedOp, co w b k hk hb, Option.bind_some, wrapN_eq]
  by_cases h : a ≤ b
  · have : ¬ b < a := by omega
    have h2 : b - a < 2 ^ (8 * w) := by omega
    simp [h, this, h2]
  · have : b < a := by omega
    simp [h, this]

theorem rfloordiv : reflectedOp w a .floordiv ⟨k, b⟩ = if a = 0 then none else some (b / a) := by
  simp only [reflectedOp, co w b k hk hb, Option.bind_some, wrapN_eq]
  by_cases h : a = 0
  · simp [h]
  · have : b / a < 2 ^ (8 * w) := Nat.lt_of_le_of_lt (Nat.div_le_self b a) hb
    simp [h, this]

theorem rmod : reflectedOp w a .mod ⟨k, b⟩ = if a = 0 then none else some (b % a) := by
  simp only [reflectedOp, co w b k hk hb, Option.bind_some, wrapN_eq]
  by_cases h : a = 0
  · simp [h]
  · have : b % a < 2 ^ (8 * w) := Nat.lt_of_le_of_lt (Nat.mod_le b a) hb
    simp [h, this]

end ops

/-- `**` with a non-negative exponent (a count: any uint or int): exact when it fits -/
theorem pow (w a : Nat) (k : Option Nat) (e : Nat) :
    directOp w a .pow ⟨k, (e : Int)⟩ = if a ^ e < 2 ^ (8 * w) then some (a ^ e) else none := by
  have : ¬ ((e : Int) < 0) := by omega
  simp [directOp, wrapN_eq, this]

/-- shifts truncate to the width by definition and never fail for a non-negative amount -/
theorem lshift (w a : Nat) (k : Option Nat) (s : Nat) :
    directOp w a .lshift ⟨k, (s : Int)⟩ = some ((a * 2 ^ s) % 2 ^ (8 * w)) := by
  have : ¬ ((s : Int) < 0) := by omega
  simp [directOp, wrapN_eq, Nat.mod_lt _ (Nat.two_pow_pos (8 * w)), this]

theorem rshift (w a : Nat) (k : Option Nat) (s : Nat) (ha : a < 2 ^ (8 * w)) :
    directOp w a .rshift ⟨k, (s : Int)⟩ = some (a / 2 ^ s) := by
  have : a / 2 ^ s < 2 ^ (8 * w) := Nat.lt_of_le_of_lt (Nat.div_le_self _ _) ha
  have hs : ¬ ((s : Int) < 0) := by omega
  simp [directOp, wrapN_eq, this, hs]

/-- a negative shift amount or exponent is an error -/
theorem neg_count (w a : Nat) (k : Option Nat) (s : Int) (hs : s < 0) :
    directOp w a .pow ⟨k, s⟩ = none ∧ directOp w a .lshift ⟨k, s⟩ = none ∧
    directOp w a .rshift ⟨k, s⟩ = none := by
  simp [directOp, hs]

/-- true division is unsupported, in both forms -/
theorem truediv (w a : Nat) (o : Operand) :
    directOp w a .truediv o = none ∧ reflectedOp w a .truediv o = none := ⟨rfl, rfl⟩

/-- inversion stays within the width and flips exactly the low `8w` bits -/
theorem invert_spec (w a : Nat) (ha : a < 2 ^ (8 * w)) :
    ∃ r, invert w a = some r ∧ r < 2 ^ (8 * w) ∧ ∀ i, i < 8 * w → r.testBit i = !a.testBit i := by
  have hm : 2 ^ (8 * w) - 1 < 2 ^ (8 * w) := by have := Nat.two_pow_pos (8 * w); omega
  have hlt := Nat.xor_lt_two_pow ha hm
  refine ⟨a ^^^ (2 ^ (8 * w) - 1), by simp [invert, wrapN_eq, hlt], hlt, ?_⟩
  intro i hi
  rw [Nat.testBit_xor, Nat.testBit_two_pow_sub_one]
  simp [hi]

/-- the result is typed by the uint operand that handles the operation: the left operand when it is
    a uint, otherwise (plain int on the left) the right one — never a plain number, never wider -/
theorem result_type (op : BinOp) (x y : Operand) (r w : Nat) (h : evalBin op x y = some (r, w)) :
    (x.width = some w) ∨ (x.width = none ∧ y.width = some w) := by
  unfold evalBin at h
  cases hx : x.width with
  | some wx =>
    simp [hx] at h
    obtain ⟨_, _, _, rfl⟩ := h
    exact .inl rfl
  | none =>
    cases hy : y.width with
    | some wy =>
      simp [hx, hy] at h
      obtain ⟨_, _, _, rfl⟩ := h
      exact .inr ⟨rfl, rfl⟩
    | none => simp [hx, hy] at h

/-- every successful result fits the width of its type -/
theorem result_in_range (w : Nat) (x : Int) (n : Nat) (h : wrap w x = some n) : n < 2 ^ (8 * w) := by
  rw [ctor] at h
  split at h
  · rename_i hc; simp at h; omega
  · simp at h

/-! Non-vacuity -/
example : directOp 1 200 .add ⟨some 1, 100⟩ = none ∧ directOp 1 200 .add ⟨none, 55⟩ = some 255 ∧
    evalBin .lshift ⟨some 1, 200⟩ ⟨some 2, 3⟩ = some (64, 1) ∧
    evalBin .sub ⟨none, 5⟩ ⟨some 2, 7⟩ = none ∧ invert 1 5 = some 250 := by decide

/-- `b ** x` with a plain non-negative int on the left: the power is computed exactly and must fit the
    width of the EXPONENT's type (`__rpow__`), whatever the base; it never truncates like a shift -/
theorem rpow (w a : Nat) (k : Option Nat) (b : Nat) :
    reflectedOp w a .pow ⟨k, (b : Int)⟩ = if b ^ a < 2 ^ (8 * w) then some (b ^ a) else none := by
  have h1 : ((b : Int) ^ a) = ((b ^ a : Nat) : Int) := by simp [Int.natCast_pow]
  show wrap w ((b : Int) ^ a) = _
  rw [h1]
  exact wrapN_eq w (b ^ a)

/-- in particular `2 ** uintN(n)` raises for every `n ≥ 8·w` (no wrap to 0) -/
theorem rpow_two_overflow (w a : Nat) (k : Option Nat) (h : 8 * w ≤ a) :
    reflectedOp w a .pow ⟨k, (2 : Int)⟩ = none := by
  have := rpow w a k 2
  have h2 : ¬ (2 ^ a < 2 ^ (8 * w)) := by
    have := Nat.pow_le_pow_right (by decide : 0 < 2) h
    omega
  simpa [h2] using this

example : reflectedOp 1 8 .pow ⟨none, 2⟩ = none ∧ reflectedOp 1 7 .pow ⟨none, 2⟩ = some 128 := by decide

/-- three-argument power: python's residue `(a ^ e) fmod m` (it has the sign of the modulus) is returned as a value of
    `a`'s type exactly when it lies within the width; a residue outside it (a modulus wider than the type, a negative
    modulus) and a zero modulus raise -/
theorem pow3_spec (w a e : Nat) (m : Int) :
    pow3 w a e m =
      if m = 0 then none
      else if 0 ≤ Int.fmod ((a : Int) ^ e) m ∧ Int.fmod ((a : Int) ^ e) m < 2 ^ (8 * w)
        then some (Int.fmod ((a : Int) ^ e) m).toNat else none := by
  unfold pow3
  by_cases hm : m = 0
  · simp [hm]
  · simp only [hm, if_false]
    generalize Int.fmod ((a : Int) ^ e) m = r
    rw [ctor]
    by_cases h0 : 0 ≤ r
    · simp [h0]
    · simp [h0]

/-- the reflected shift dunders called with a uint on the left are the shift of THAT operand, in ITS type -/
theorem refl_shift_dunder (wx x wy y : Nat) :
    reflShiftDunder .lshift wx x wy y = (directOp wx x .lshift ⟨some wy, (y : Int)⟩).map (·, wx) ∧
    reflShiftDunder .rshift wx x wy y = (directOp wx x .rshift ⟨some wy, (y : Int)⟩).map (·, wx) := by
  constructor <;> simp [reflShiftDunder, evalBin]

example : pow3 1 3 6 1000 = none ∧ pow3 1 3 2 (-5) = none ∧ pow3 1 3 2 5 = some 4 ∧ pow3 1 200 1 256 = some 200 ∧
    pow3 1 3 2 0 = none ∧ reflShiftDunder .lshift 2 0x0101 1 4 = some (0x1010, 2) ∧
    reflShiftDunder .lshift 1 1 2 8 = some (0, 1) := by decide

/-- negation is unsupported for EVERY operand (zero included); `+a` and `abs a` are `a` in its own type -/
theorem unary (w a : Nat) (ha : a < 2 ^ (8 * w)) :
    evalUn .neg w a = none ∧ evalUn .pos w a = some (a, w) ∧ evalUn .abs w a = some (a, w) := by
  simp [evalUn, wrapN_eq, ha]

end Rmk.C13
