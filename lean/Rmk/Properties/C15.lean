/-
C15 — All read paths agree with each other and with equality / hashing.
-/
import Rmk.Proofs.NodeIter
import Rmk.Proofs.DiffHistory
namespace Rmk.C15
open Rmk

/-- The stack-machine iterator (`readonly_iters.NodeIter`, the engine of read-only iteration,
    container iteration, packed and bit iteration) yields exactly the nodes that navigation by index
    (`getter(to_gindex(i, depth))`, the engine of `get` / slicing / plain iteration) returns, in
    order, for EVERY depth and EVERY length — all subtree boundaries included. -/
theorem iter_eq_index (anchor : Node) (depth length : Nat) (nodes : List Node)
    (hlen : length ≤ 2 ^ depth)
    (h : ∀ i, i < length → Impl.getAt anchor i depth = some (nodes.getD i default))
    (hn : nodes.length = length) : Impl.nodeIter anchor depth length = some nodes :=
  nodeIter_eq_getAt anchor depth length nodes hlen h hn

/-- …and conversely: whatever the iterator yields is what indexing returns (it never yields
    anything else), it succeeds exactly when every indexed read succeeds. -/
theorem iter_sound (anchor : Node) (depth length : Nat) (nodes : List Node)
    (h : Impl.nodeIter anchor depth length = some nodes) :
    length ≤ 2 ^ depth ∧ nodes.length = length ∧
      ∀ i, i < length → Impl.getAt anchor i depth = some (nodes.getD i default) :=
  nodeIter_some_getAt anchor depth length nodes h

/-- `==` is equality of roots (its definition in the library); with a collision-free hash equal
    roots give equal subtrees at every position that exists in both trees — so equal roots mean
    equal content. -/
theorem root_eq_content (H : Hash) (hH : Injective2 H) (p : List Bool) (a b x y : Node)
    (hr : a.root H = b.root H) (ha : getPath a p = some x) (hb : getPath b p = some y) :
    x.root H = y.root H :=
  root_getPath_of_root_eq H hH p a b x y hr ha hb

/-! Non-vacuity -/
example : Impl.nodeIter (.pair (.pair (.leaf [1]) (.leaf [2])) (.pair (.leaf [3]) (.leaf [4]))) 2 3 =
    some [.leaf [1], .leaf [2], .leaf [3]] := by decide

end Rmk.C15
