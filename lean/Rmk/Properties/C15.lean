/-
C15 — All read paths agree with each other and with equality / hashing.
-/
import Rmk.Proofs.NodeIter
import Rmk.Proofs.DiffHistory
import Rmk.Proofs.ItersLaws
import Rmk.Proofs.ReprBasics
import Rmk.Proofs.RootInjective
import Rmk.Proofs.ElemLaws
namespace Rmk.C15
open Rmk

/-- The stack-machine iterator (`readonly_iters.NodeIter`, the engine of read-only iteration,
    container iteration, packed and bit iteration) yields exactly the nodes that navigation by index
    (`getter(to_gindex(i, depth))`, the engine of `get` / slicing / plain iteration) returns, in
    order, for EVERY depth and EVERY length — all subtree boundaries included. -/
theorem iter_eq_index (anchor : Node) (depth length : Nat) (nodes : List Node)
    (hlen : length ≤ 2 ^ depth)
    (h : ∀ i, i < length → Impl.getAt anchor i depth = some (nodes.getD i default))
    (hn : nodes.length = length) : Impl.nodeIter anchor depth length = some nodes :=
  nodeIter_eq_getAt anchor depth length nodes hlen h hn

/-- …and conversely: whatever the iterator yields is what indexing returns (it never yields
    anything else), it succeeds exactly when every indexed read succeeds. -/
theorem iter_sound (anchor : Node) (depth length : Nat) (nodes : List Node)
    (h : Impl.nodeIter anchor depth length = some nodes) :
    length ≤ 2 ^ depth ∧ nodes.length = length ∧
      ∀ i, i < length → Impl.getAt anchor i depth = some (nodes.getD i default) :=
  nodeIter_some_getAt anchor depth length nodes h

/-- The PACKED iterator (read-only iteration over basic elements; state `i`, `j`, `rootIndex`,
    `currentRoot`, stack — mirrored field by field) yields exactly what indexing yields, in order,
    for every element size, depth and length. -/
theorem packed_iter_eq_index (H : Hash) (et : Ty) (anchor : Node) (depth length : Nat)
    (f : Nat → Val) (hsz : 0 < et.basicSize) (hsz32 : et.basicSize ≤ 32)
    (hlen : length ≤ 2 ^ depth * (32 / et.basicSize))
    (hleaf : ∀ c, c * (32 / et.basicSize) < length →
      ∃ n, Impl.getAt anchor c depth = some n ∧ n.isLeaf = true)
    (hdec : ∀ i, i < length →
      ((Impl.getAt anchor (i / (32 / et.basicSize)) depth).bind
        fun c => Impl.readBasicAt H et c (i % (32 / et.basicSize))) = some (f i)) :
    Impl.packedIter H et anchor depth length = some ((List.range length).map f) :=
  ItersLaws.packedIter_eq_index H et anchor depth length f hsz hsz32 hlen hleaf hdec

/-- The BIT iterator (bit iteration of bitvectors / bitlists, 256 bits per chunk with wrap-around of
    the inner counter) yields exactly what bit indexing yields. -/
theorem bit_iter_eq_index (H : Hash) (anchor : Node) (depth length : Nat) (f : Nat → Bool)
    (hlen : length ≤ 2 ^ depth * 256)
    (hleaf : ∀ c, c * 256 < length → ∃ n, Impl.getAt anchor c depth = some n ∧ n.isLeaf = true)
    (hdec : ∀ i, i < length →
      (Impl.getAt anchor (i / 256) depth).map (fun c => Impl.bitOfChunk (c.root H) i) = some (f i)) :
    Impl.bitfieldIter H anchor depth length = some ((List.range length).map f) :=
  ItersLaws.bitfieldIter_eq_index H anchor depth length f hlen hleaf hdec

/-- ALL READ PATHS AGREE on every tree that represents a value (whatever its history): the complete
    indexed read returns the value, … -/
theorem indexed_read (H : Hash) (t : Ty) (v : Val) (n : Node) (hwf : t.wf = true)
    (hlim : ReprBasics.limitsOk t = true) (h : Impl.Repr H t v n) : Impl.readVal H t n = some v :=
  ReprBasics.repr_read H t v n hwf hlim h

/-- … the packed iterator yields the elements of a packed vector / list, … -/
theorem packed_iteration (H : Hash) (et : Ty) (k : Nat) (vs : List Val) (n : Node)
    (hwf : et.wf = true) (hb : et.isBasic = true) :
    (Impl.Repr H (.vector et k) (.seq vs) n →
      Impl.packedIter H et n (getDepth (Impl.chunkLen et k)) k = some vs) ∧
    (Impl.Repr H (.list et k) (.seq vs) n →
      Impl.packedIter H et n (getDepth (Impl.chunkLen et k) + 1) vs.length = some vs) :=
  ItersLaws.reads_agree_packed H et k vs n hwf hb

/-- … the bit iterator yields the bits of a bitvector / bitlist, … -/
theorem bit_iteration (H : Hash) (k : Nat) (bs : List Bool) (n : Node) :
    (Impl.Repr H (.bitvector k) (.bits bs) n →
      Impl.bitfieldIter H n (getDepth ((k + 255) / 256)) k = some bs) ∧
    (Impl.Repr H (.bitlist k) (.bits bs) n →
      ((getLeft n).bind fun l => Impl.bitfieldIter H l (getDepth ((k + 255) / 256)) bs.length)
        = some bs) :=
  ItersLaws.reads_agree_bits H k bs n

/-- … and the node iterator (read-only iteration over composite elements, container iteration and
    unpacking) yields nodes that represent the elements / fields, in order. -/
theorem node_iteration (H : Hash) (et : Ty) (k : Nat) (fs : List Ty) (vs : List Val) (n : Node)
    (hb : et.isBasic = false) :
    (Impl.Repr H (.vector et k) (.seq vs) n →
      ∃ ns, Impl.nodeIter n (getDepth (Impl.chunkLen et k)) k = some ns ∧ Impl.AllRel (Impl.Repr H et) vs ns) ∧
    (Impl.Repr H (.list et k) (.seq vs) n →
      ∃ ns, Impl.nodeIter n (getDepth (Impl.chunkLen et k) + 1) vs.length = some ns ∧
        Impl.AllRel (Impl.Repr H et) vs ns) ∧
    (Impl.Repr H (.container fs) (.seq vs) n →
      ∃ ns, Impl.nodeIter n (getDepth fs.length) fs.length = some ns ∧ Impl.ReprFields H fs vs ns) :=
  ItersLaws.reads_agree_unpacked H et k fs vs n hb

/-- `==` is equality of roots (its definition in the library); with a collision-free hash equal
    roots give equal subtrees at every position that exists in both trees — so equal roots mean
    equal content. -/
theorem root_eq_content (H : Hash) (hH : Injective2 H) (p : List Bool) (a b x y : Node)
    (hr : a.root H = b.root H) (ha : getPath a p = some x) (hb : getPath b p = some y) :
    x.root H = y.root H :=
  root_getPath_of_root_eq H hH p a b x y hr ha hb

/-- Two valid values of a type have equal hash-tree-roots exactly when their contents are equal —
    under collision-freeness of the pair hash (the only hypothesis on `H`); so `==` (root equality)
    is content equality, and equal values have equal roots, hence equal hashes. -/
theorem eq_iff_content (H : Hash) (hH : Injective2 H) (t : Ty) (hwf : t.wf = true)
    (hlim : ReprBasics.limitsOk t = true) (v w : Val) (hv : WT t v = true) (hw : WT t w = true) :
    Spec.htr H t v = Spec.htr H t w ↔ v = w :=
  RootInjective.eq_iff_content H hH t hwf hlim v w hv hw

/-! Non-vacuity -/
example : Impl.nodeIter (.pair (.pair (.leaf [1]) (.leaf [2])) (.pair (.leaf [3]) (.leaf [4]))) 2 3 =
    some [.leaf [1], .leaf [2], .leaf [3]] := by decide

/-! ### indexing, `len()`, in-range slicing (the element-wise view API, `Rmk/Impl/Elem.lean`) -/

/-- INDEXING: `view[i]` / `view.field_i` on ANY tree that represents `v` (whatever its history) is element `i`
    of `v` … -/
theorem index_read (H : Hash) (t : Ty) (v : Val) (n : Node) (i : Nat)
    (hwf : t.wf = true) (hlim : ReprBasics.limitsOk t = true) (h : Impl.Repr H t v n) :
    Impl.readElem H t n i = Impl.elemAt v i :=
  ElemLaws.readElem_repr H t v n i hwf hlim h

/-- … and fails exactly when the index is out of range, -/
theorem index_fails_iff_out_of_range (H : Hash) (t : Ty) (v : Val) (n : Node) (i len : Nat)
    (hwf : t.wf = true) (hlim : ReprBasics.limitsOk t = true) (hk : ElemLaws.indexable t = true)
    (h : Impl.Repr H t v n) (hl : Impl.lenOf v = some len) :
    Impl.readElem H t n i = none ↔ len ≤ i :=
  ElemLaws.readElem_repr_none_iff H t v n i len hwf hlim hk h hl

/-- `len(view)` is the number of elements of the value, -/
theorem len_read (H : Hash) (t : Ty) (v : Val) (n : Node) (hlim : ReprBasics.limitsOk t = true)
    (hk : ElemLaws.sized t = true) (h : Impl.Repr H t v n) : Impl.viewLen H t n = Impl.lenOf v :=
  ElemLaws.viewLen_repr H t v n hlim hk h

/-- and an in-range slice `view[a:b]` is exactly the elements `a … b-1` of the value, in order. -/
theorem slice_read (H : Hash) (t : Ty) (v : Val) (n : Node) (a b len : Nat)
    (hwf : t.wf = true) (hlim : ReprBasics.limitsOk t = true) (hk : ElemLaws.indexable t = true)
    (h : Impl.Repr H t v n) (hab : a ≤ b) (hl : Impl.lenOf v = some len) (hb : b ≤ len) :
    Impl.sliceRead H t n a b = some (((ElemLaws.elems v).drop a).take (b - a)) :=
  ElemLaws.sliceRead_repr_elems H t v n a b len hwf hlim hk h hab hl hb

end Rmk.C15
